import Okane.Lemmas.ParseTotalSpans
/-!
# Where `ParsedIter` stands when it delivers an entry or reports an error (parser side of C14)

`ParsedIter::next` takes its checkpoint `start` **before** the separator, runs the separator, then the entry parser
(under `with_span`).  One induction over the loop (`parsedIter_run`) gives, for every entry parser `p` that is `Safe 1`
and every separator that is `Safe 0`:

* every delivered `(start, stop, e)` is `p i1 = ok e r` for two nested suffixes `r <:+ i1 <:+ whole` of the text, with
  `start`/`stop` their byte positions (`Deliv`);
* the position at which the iterator stands is the end of the last entry delivered — byte 0 at the beginning
  (`resumePos`);
* an error `e` is `ParseError::new(initial, input = pos, start = checkpoint)` for the checkpoint `j` at which the
  iterator stood, and `pos` is where the separator failed, or — after a successful separator that left a non-empty
  `i1` — where the entry parser failed on `i1` (`ErrorHere`).

`verticalSpaces_ok`: okane's separator `vertical_spaces` never fails, so every `ParseError` of `parse_ledger` is of the
second kind: the failure position is at or after the first byte of the entry that was being parsed.
-/
namespace Okane.Parse
open Okane Okane.Comb Okane.Diag

variable {α : Type}

/-- byte position at which `ParsedIter` stands after having delivered `acc`: the end of the last entry, 0 at the start -/
def resumePos (acc : List (Nat × Nat × α)) : Nat :=
  match acc.getLast? with
  | some x => x.2.1
  | none => 0

@[simp] theorem resumePos_nil : resumePos ([] : List (Nat × Nat × α)) = 0 := rfl

@[simp] theorem resumePos_concat (acc : List (Nat × Nat × α)) (x : Nat × Nat × α) :
    resumePos (acc ++ [x]) = x.2.1 := by
  simp [resumePos]

/-- a delivered entry: the entry parser succeeded on the suffix `i1` of the text and left `r` -/
def Deliv (p : Parser α) (whole : List Char) (x : Nat × Nat × α) : Prop :=
  ∃ i1 r, r <:+ i1 ∧ i1 <:+ whole ∧ r.length < i1.length ∧ p i1 = .ok x.2.2 r ∧
    x.1 = utf8Len whole - utf8Len i1 ∧ x.2.1 = utf8Len whole - utf8Len r

theorem Deliv.spanOK {p : Parser α} {whole : List Char} {x : Nat × Nat × α} (h : Deliv p whole x) : SpanOK whole x := by
  obtain ⟨i1, r, h1, h2, h3, _, h5, h6⟩ := h
  exact ⟨i1, r, h1, h2, h3, h5, h6⟩

/-- why the iterator failed at the checkpoint `j`, at position `pos`, with error kind `c` (`true` = `ErrMode::Cut`):
the separator failed there, or it succeeded, left a non-empty `i1`, and the entry parser failed there on `i1` -/
def Why (p : Parser α) (sep : Parser Unit) (j pos : List Char) (c : Bool) : Prop :=
  (sep j = .bt pos ∧ c = false ∨ sep j = .cut pos ∧ c = true) ∨
   ∃ u i1, sep j = .ok u i1 ∧ i1 <:+ j ∧ i1 ≠ [] ∧ pos <:+ i1 ∧ (p i1 = .bt pos ∧ c = false ∨ p i1 = .cut pos ∧ c = true)

/-- an error reported while the iterator stood at the checkpoint `j` -/
def ErrorHere (p : Parser α) (sep : Parser Unit) (whole j : List Char) (e : ParseErr) : Prop :=
  ∃ pos, pos <:+ j ∧ parseErrorNew whole j pos e.isCut = .ok e ∧ Why p sep j pos e.isCut

/-- loop invariant -/
def RunOK (p : Parser α) (whole i : List Char) (acc : List (Nat × Nat × α)) : Prop :=
  i <:+ whole ∧ (∀ x ∈ acc, Deliv p whole x) ∧ utf8Len whole - utf8Len i = resumePos acc

theorem failAt_errorHere {p : Parser α} {sep : Parser Unit} (whole i pos : List Char) (isCut : Bool) (hp : pos <:+ i)
    (hwhy : Why p sep i pos isCut)
    {β : Type} (acc : β) (e : ParseErr)
    (h : (match parseErrorNew whole i pos isCut with
        | .ok e => (acc, Ending.error e)
        | .panic s => (acc, .panic s)
        | _ => (acc, .panic "ParseError::new")).2 = .error e) :
    ErrorHere p sep whole i e := by
  obtain ⟨e', he, hc, _⟩ := parseErrorNew_ok whole i pos isCut
  rw [he] at h
  simp only [Ending.error.injEq] at h
  subst h
  exact ⟨pos, hp, by rw [hc]; exact he, by rw [hc]; exact hwhy⟩

/-- **the run of `ParsedIter`**: what it has delivered, where it stands, and how an error arose -/
theorem parsedIter_run {p : Parser α} {sep : Parser Unit} (hp : Safe 1 p) (hsep : Safe 0 sep) (whole : List Char) :
    ∀ (n : Nat) (i : List Char) (acc : List (Nat × Nat × α)), RunOK p whole i acc →
      ∃ j, RunOK p whole j (parsedIter p sep whole n i acc).1 ∧
        ∀ e, (parsedIter p sep whole n i acc).2 = .error e → ErrorHere p sep whole j e := by
  intro n
  induction n with
  | zero => intro i acc h; exact ⟨i, h, fun e he => by simp [parsedIter] at he⟩
  | succ n ih =>
    intro i acc hacc
    obtain ⟨hi, hdel, hres⟩ := hacc
    have h1 := hsep.good i
    unfold parsedIter
    simp only
    split
    · rename_i u i1 he
      rw [he] at h1
      obtain ⟨h2, h3⟩ := h1
      split
      · exact ⟨i, ⟨hi, hdel, hres⟩, fun e he => by simp at he⟩
      · rename_i hne
        have hne' : i1 ≠ [] := by intro h; apply hne; simp [h]
        have h4 := hp.good i1
        split
        · rename_i e r he'
          rw [he'] at h4
          obtain ⟨h5, h6⟩ := h4
          apply ih r _
          refine ⟨h5.trans (h2.trans hi), ?_, by simp⟩
          intro x hx
          rcases List.mem_append.1 hx with hx | hx
          · exact hdel x hx
          · simp only [List.mem_singleton] at hx
            subst hx
            exact ⟨i1, r, h5, h2.trans hi, by omega, he', rfl, rfl⟩
        · rename_i pos he'
          rw [he'] at h4
          refine ⟨i, by split <;> exact ⟨hi, hdel, hres⟩, fun e hE => ?_⟩
          exact
            failAt_errorHere whole i pos false (List.IsSuffix.trans h4 h2)
              (.inr ⟨u, i1, he, h2, hne', h4, .inl ⟨he', rfl⟩⟩) acc e hE
        · rename_i pos he'
          rw [he'] at h4
          refine ⟨i, by split <;> exact ⟨hi, hdel, hres⟩, fun e hE => ?_⟩
          exact
            failAt_errorHere whole i pos true (List.IsSuffix.trans h4 h2)
              (.inr ⟨u, i1, he, h2, hne', h4, .inr ⟨he', rfl⟩⟩) acc e hE
        · exact ⟨i, ⟨hi, hdel, hres⟩, fun e he => by simp at he⟩
        · exact ⟨i, ⟨hi, hdel, hres⟩, fun e he => by simp at he⟩
    · rename_i pos he
      rw [he] at h1
      exact ⟨i, by split <;> exact ⟨hi, hdel, hres⟩, fun e hE => failAt_errorHere whole i pos false h1 (.inl (.inl ⟨he, rfl⟩)) acc e hE⟩
    · rename_i pos he
      rw [he] at h1
      exact ⟨i, by split <;> exact ⟨hi, hdel, hres⟩, fun e hE => failAt_errorHere whole i pos true h1 (.inl (.inr ⟨he, rfl⟩)) acc e hE⟩
    · exact ⟨i, ⟨hi, hdel, hres⟩, fun e he => by simp at he⟩
    · exact ⟨i, ⟨hi, hdel, hres⟩, fun e he => by simp at he⟩

/-! ## `vertical_spaces` never fails -/

/-- `p` only ever succeeds or backtracks at its own start … as far as the error *kind* goes: never `Cut` -/
def NoCut (p : Parser α) : Prop := ∀ i q, p i ≠ .cut q

theorem repeat0Loop_ok_of_noCut {p : Parser α} (hp : Safe 1 p) (hc : NoCut p) :
    ∀ (n : Nat) (i : List Char) (acc : List α), i.length < n → ∃ l r, repeat0Loop p n i acc = .ok l r := by
  intro n
  induction n with
  | zero => intro i acc h; omega
  | succ n ih =>
    intro i acc hlt
    have h := hp.good i
    have hc' := hc i
    simp only [repeat0Loop]
    split
    · rename_i a r he
      rw [he] at h
      obtain ⟨h1, h2⟩ := h
      rw [if_neg (by omega)]
      exact ih r _ (by omega)
    · exact ⟨_, _, rfl⟩
    · rename_i q he; exact absurd he (hc' q)
    · rename_i s he; rw [he] at h; exact h.elim
    · rename_i he; rw [he] at h; exact h.elim

theorem noCut_alt2 {p q : Parser α} (hp : NoCut p) (hq : NoCut q) : NoCut (p <|| q) := by
  intro i c
  have h1 := hp i c
  have h2 := hq i c
  simp only [alt2]
  cases h : p i <;> simp_all

theorem noCut_map {β : Type} {p : Parser α} (f : α → β) (hp : NoCut p) : NoCut (Comb.map f p) := by
  intro i c
  have h1 := hp i c
  simp only [Comb.map]
  cases h : p i <;> simp_all [Res.map]

theorem noCut_bind {β : Type} {p : Parser α} {f : α → Parser β} (hp : NoCut p) (hf : ∀ a, NoCut (f a)) :
    NoCut (p >>- f) := by
  intro i c
  have h1 := hp i c
  simp only [Comb.bind]
  cases h : p i with
  | ok a r => simpa using hf a r c
  | bt _ => simp
  | cut q => exact absurd h (hp i q)
  | panic _ => simp
  | fuel => simp

theorem noCut_lineEnding : NoCut lineEnding := by
  intro j q; unfold lineEnding; split <;> simp

theorem noCut_eof : NoCut eof := by
  intro j q; cases j <;> simp [eof]

theorem noCut_space1 : NoCut space1 := by
  intro j q
  cases j with
  | nil => simp [space1, takeWhile1]
  | cons c r => simp only [space1, takeWhile1]; split <;> simp

theorem noCut_verticalSpaces_elem : NoCut (lineEnding <|| void (pair space1 (lineEnding <|| eof))) :=
  noCut_alt2 noCut_lineEnding
    (noCut_map _ (noCut_bind noCut_space1 fun _ => noCut_map _ (noCut_alt2 noCut_lineEnding noCut_eof)))

/-- **the separator of `parse_ledger` always succeeds** -/
theorem verticalSpaces_ok (i : List Char) : ∃ i1, verticalSpaces i = .ok () i1 ∧ i1 <:+ i := by
  obtain ⟨l, r, h⟩ := repeat0Loop_ok_of_noCut safe_verticalSpaces_elem noCut_verticalSpaces_elem (i.length + 1) i []
    (Nat.lt_succ_self _)
  have hs := safe_verticalSpaces.good i
  have hv : verticalSpaces i = .ok () r := by
    show (repeat0Loop _ (i.length + 1) i []).map (fun _ => ()) = .ok () r
    rw [h]; rfl
  rw [hv] at hs
  exact ⟨r, hv, hs.1⟩

/-! ## `parse_ledger`, every text -/

/-- the spans delivered before the iterator ended, as `(start, stop, entry)` triples -/
theorem parseLedgerRun_eq (t : List Char) :
    parseLedgerRun t =
      ((parsedIter parseLedgerEntry verticalSpaces t (t.length + 1) t []).1.map (fun (s, u, x) => ⟨s, u, x⟩),
       (parsedIter parseLedgerEntry verticalSpaces t (t.length + 1) t []).2) := by
  simp only [parseLedgerRun]

/-- end of the last delivered entry (0 when there is none): where the iterator resumes -/
def resumeAfter (es : List Parsed) : Nat :=
  match es.getLast? with
  | some x => x.stop
  | none => 0

theorem resumeAfter_map (acc : List (Nat × Nat × Entry)) :
    resumeAfter (acc.map fun (s, u, x) => (⟨s, u, x⟩ : Parsed)) = resumePos acc := by
  simp only [resumeAfter, resumePos, List.getLast?_map]
  cases acc.getLast? <;> rfl

/-- **every entry `parse_ledger` delivers (also before an error) was parsed by `parse_ledger_entry` from a suffix of the
text**, and its span is the pair of byte positions before / after -/
theorem parseLedgerRun_delivered (t : List Char) (x : Parsed) (hx : x ∈ (parseLedgerRun t).1) :
    ∃ i1 r, r <:+ i1 ∧ i1 <:+ t ∧ r.length < i1.length ∧ parseLedgerEntry i1 = .ok x.entry r ∧
      x.start = utf8Len t - utf8Len i1 ∧ x.stop = utf8Len t - utf8Len r := by
  obtain ⟨j, ⟨_, hdel, _⟩, _⟩ := parsedIter_run safe_parseLedgerEntry safe_verticalSpaces t (t.length + 1) t []
    ⟨List.suffix_refl t, by simp, by simp⟩
  rw [parseLedgerRun_eq] at hx
  obtain ⟨y, hy, rfl⟩ := List.mem_map.1 hx
  exact hdel y hy

/-- **how every `ParseError` of `parse_ledger` arises.**  The text splits as `pre ++ rest` where `pre` ends with the
last entry delivered (`pre = []` when none was): the checkpoint.  The separator succeeds on `rest` and leaves a
non-empty `entryAt`; `parse_ledger_entry` fails on it at `pos`; the error is `ParseError::new` of that checkpoint
and that position. -/
theorem parseLedger_error_structure (t : List Char) (e : ParseErr) (h : parseLedger t = .err e) :
    ∃ pre rest entryAt pos,
      t = pre ++ rest ∧ utf8Len pre = resumeAfter (parseLedgerRun t).1 ∧
      verticalSpaces rest = .ok () entryAt ∧ entryAt <:+ rest ∧ entryAt ≠ [] ∧ pos <:+ entryAt ∧
      (parseLedgerEntry entryAt = .bt pos ∧ e.isCut = false ∨ parseLedgerEntry entryAt = .cut pos ∧ e.isCut = true) ∧
      parseErrorNew t rest pos e.isCut = .ok e := by
  obtain ⟨j, ⟨hj, _, hres⟩, herr⟩ := parsedIter_run safe_parseLedgerEntry safe_verticalSpaces t (t.length + 1) t []
    ⟨List.suffix_refl t, by simp, by simp⟩
  have hE : (parsedIter parseLedgerEntry verticalSpaces t (t.length + 1) t []).2 = .error e := by
    unfold parseLedger at h
    rw [parseLedgerRun_eq] at h
    generalize (parsedIter parseLedgerEntry verticalSpaces t (t.length + 1) t []) = res at h ⊢
    obtain ⟨es, en⟩ := res
    cases en <;> simp_all
  obtain ⟨pos, hpos, hnew, hwhy⟩ := herr e hE
  obtain ⟨i1, hv, _⟩ := verticalSpaces_ok j
  obtain ⟨pre, rfl⟩ := hj
  rcases hwhy with hbad | ⟨u, i1', hsep, hs1, hne, hp1, hfail⟩
  · rw [hv] at hbad; rcases hbad with ⟨hbad, _⟩ | ⟨hbad, _⟩ <;> cases hbad
  · refine ⟨pre, j, i1', pos, rfl, ?_, hsep, hs1, hne, hp1, hfail, hnew⟩
    rw [parseLedgerRun_eq]
    simp only
    rw [resumeAfter_map, ← hres, utf8Len_append]; omega

end Okane.Parse
