import Okane.Model.Amount
/-!
# Lemma library for `Amount` (association-list maps of rationals)
All observable facts are stated through `getPart` (value at a commodity, 0 when absent).
-/
set_option linter.unusedSectionVars false
namespace Okane
attribute [simp] Rat.add_zero Rat.zero_add Rat.mul_zero Rat.zero_mul Rat.mul_one Rat.one_mul Rat.neg_zero
variable {κ : Type} [DecidableEq κ]

namespace Amount

@[simp] theorem getPart_nil (c : κ) : getPart ([] : Amount κ) c = 0 := rfl

theorem getPart_addSingle (a : Amount κ) (c c' : κ) (v : Rat) :
    getPart (addSingle a c v) c' = if c = c' then getPart a c' + v else getPart a c' := by
  unfold addSingle getPart
  rw [AMap.get?_insert]
  by_cases h : c = c'
  · subst h; simp
  · simp [h]

theorem WF_addSingle (a : Amount κ) (c : κ) (v : Rat) (h : AMap.WF a) : AMap.WF (addSingle a c v) :=
  AMap.WF_insert _ _ _ h

/-- sum of the values stored under key `c` in a raw list of pairs -/
def sumAt (l : List (κ × Rat)) (c : κ) : Rat := (l.map fun kv => if kv.1 = c then kv.2 else 0).sum

@[simp] theorem sumAt_nil (c : κ) : sumAt ([] : List (κ × Rat)) c = 0 := rfl
theorem sumAt_cons (kv : κ × Rat) (l : List (κ × Rat)) (c : κ) :
    sumAt (kv :: l) c = (if kv.1 = c then kv.2 else 0) + sumAt l c := by
  simp [sumAt]

theorem getPart_foldl_addSingle (b : List (κ × Rat)) (a : Amount κ) (c : κ) :
    getPart (b.foldl (fun acc kv => addSingle acc kv.1 kv.2) a) c = getPart a c + sumAt b c := by
  induction b generalizing a with
  | nil => simp [Rat.add_zero]
  | cons kv tl ih =>
    simp only [List.foldl_cons, ih, getPart_addSingle, sumAt_cons]
    by_cases h : kv.1 = c <;> simp [h] <;> grind

theorem sumAt_eq_getPart (b : Amount κ) (h : AMap.WF b) (c : κ) : sumAt b c = getPart b c := by
  induction b with
  | nil => simp
  | cons hd tl ih =>
    obtain ⟨k, v⟩ := hd
    have htl : AMap.WF tl := by unfold AMap.WF AMap.keys at *; simp at h; exact h.2
    have hnot : k ∉ AMap.keys tl := by unfold AMap.WF AMap.keys at *; simp at h; simpa [AMap.keys] using h.1
    rw [sumAt_cons, ih htl]
    unfold getPart
    simp only [AMap.get?]
    by_cases hk : k = c
    · subst hk
      have : AMap.get? tl k = none := (AMap.get?_none_iff_not_mem tl k).2 hnot
      simp [this, Rat.add_zero]
    · simp [hk, Rat.zero_add]

theorem getPart_add (a b : Amount κ) (hb : AMap.WF b) (c : κ) :
    getPart (add a b) c = getPart a c + getPart b c := by
  unfold add
  rw [getPart_foldl_addSingle, sumAt_eq_getPart b hb]

theorem WF_foldl_addSingle (b : List (κ × Rat)) (a : Amount κ) (h : AMap.WF a) :
    AMap.WF (b.foldl (fun acc kv => addSingle acc kv.1 kv.2) a) := by
  induction b generalizing a with
  | nil => simpa
  | cons kv tl ih => exact ih _ (WF_addSingle a kv.1 kv.2 h)

theorem WF_add (a b : Amount κ) (h : AMap.WF a) : AMap.WF (add a b) := WF_foldl_addSingle b a h

theorem getPart_addPosting (a : Amount κ) (p : PostingAmt κ) (c : κ) :
    getPart (addPosting a p) c = getPart a c + getPart p.toAmount c := by
  cases p with
  | zero => simp [addPosting, PostingAmt.toAmount, Rat.add_zero]
  | single s =>
    simp only [addPosting, PostingAmt.toAmount, getPart_addSingle]
    unfold getPart
    simp only [AMap.get?]
    by_cases h : s.commodity = c <;> simp [h, Rat.add_zero]

theorem WF_addPosting (a : Amount κ) (p : PostingAmt κ) (h : AMap.WF a) : AMap.WF (addPosting a p) := by
  cases p with
  | zero => exact h
  | single s => exact WF_addSingle _ _ _ h

theorem getPart_neg (a : Amount κ) (c : κ) : getPart (neg a) c = - getPart a c := by
  unfold neg getPart
  rw [AMap.get?_mapVals]
  cases AMap.get? a c <;> simp

theorem WF_neg (a : Amount κ) (h : AMap.WF a) : AMap.WF (neg a) := AMap.WF_mapVals _ _ h

theorem getPart_removeZero (a : Amount κ) (h : AMap.WF a) (c : κ) : getPart (removeZero a) c = getPart a c := by
  unfold removeZero getPart
  rw [AMap.get?_filterVals _ _ h]
  cases hg : AMap.get? a c with
  | none => simp
  | some v =>
    by_cases hv : v = 0
    · subst hv; simp [Option.filter]
    · simp [Option.filter, hv]

theorem WF_removeZero (a : Amount κ) (h : AMap.WF a) : AMap.WF (removeZero a) := AMap.WF_filterVals _ _ h

/-- no stored entry is zero -/
def NoZero (a : Amount κ) : Prop := ∀ kv ∈ a, kv.2 ≠ 0

theorem NoZero_removeZero (a : Amount κ) : NoZero (removeZero a) := by
  intro kv hkv
  unfold removeZero AMap.filterVals at hkv
  simp at hkv
  exact hkv.2

theorem NoZero_nil : NoZero ([] : Amount κ) := by intro kv h; simp at h

theorem getPart_round (prec : κ → Option Nat) (a : Amount κ) (c : κ) :
    getPart (round prec a) c =
      match AMap.get? a c with
      | none => 0
      | some v => (match prec c with | none => v | some dp => roundHalfEven v dp) := by
  unfold round getPart
  rw [AMap.get?_mapValsK]
  cases AMap.get? a c with
  | none => simp
  | some v => simp only [Option.map_some, Option.getD_some]; cases prec c <;> rfl

theorem WF_round (prec : κ → Option Nat) (a : Amount κ) (h : AMap.WF a) : AMap.WF (round prec a) :=
  AMap.WF_mapValsK _ _ h

theorem isZero_iff (a : Amount κ) : isZero a = true ↔ ∀ kv ∈ a, kv.2 = 0 := by
  unfold isZero
  simp [List.all_eq_true]

theorem isZero_iff_getPart (a : Amount κ) (h : AMap.WF a) : isZero a = true ↔ ∀ c, getPart a c = 0 := by
  rw [isZero_iff]
  constructor
  · intro hz c
    unfold getPart
    cases hg : AMap.get? a c with
    | none => simp
    | some v => simpa using hz (c, v) (AMap.mem_of_get?_some a hg)
  · intro hz kv hkv
    have := hz kv.1
    unfold getPart at this
    rw [AMap.get?_some_of_mem a h (k := kv.1) (v := kv.2) hkv] at this
    simpa using this

theorem isEmpty_of_NoZero_isZero (a : Amount κ) (hn : NoZero a) (hz : isZero a = true) : a = [] := by
  cases a with
  | nil => rfl
  | cons hd tl =>
    have h1 := (isZero_iff _).1 hz hd (by simp)
    exact absurd h1 (hn hd (by simp))

end Amount
end Okane
