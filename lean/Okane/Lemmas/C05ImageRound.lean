import Okane.Lemmas.C05Image
import Okane.Lemmas.C05TxnExpr
import Okane.Lemmas.C05Decl
/-!
# From the image property to the round trip on TEXTS (C05)

* `printPDec_canon`: a number and its meaning-normal form are printed alike (the grouping tag of a number below 1000
  shows nowhere in the printed text) — hence `printEntry_canon : printEntry w (canonEntry e) = printEntry w e`;
* `C05_roundtrip_text`: for every text with `TextOK t` that parses to `es`, the formatted text parses to
  `es.map canonEntry`, whatever the display-width function;
* `C05_idempotent_text`: and formatting the formatted text returns it unchanged.
-/
set_option linter.unusedSimpArgs false
set_option linter.unusedVariables false
namespace Okane.C05Image
open Okane Okane.Comb Okane.Parse Okane.Unparse Okane.ExprParse Okane.Literal

/-! ## a number below 1000 prints the same with and without the grouping tag -/

theorem printComma_small (d : PDec) (h : d.mant / 10 ^ d.scale < 1000) : printComma d = printPlain d := by
  rw [C07.printComma_eq, C07.printPlain_eq]
  obtain ⟨neg, m, sc, fmt⟩ := d
  simp only at h ⊢
  by_cases hm : m = 0
  · subst hm
    cases sc with
    | zero => cases neg <;> decide +kernel
    | succ k =>
      have hC' : padZeros (k + 1) (digits 0) = List.replicate (k + 1) '0' := by
        have hd : digits 0 = ['0'] := by decide +kernel
        rw [hd]
        simp only [padZeros, List.length_singleton, Nat.add_sub_cancel]
        exact (List.replicate_succ' ..).symm
      have hC : padZeros (k + 1) (digits0 0) = List.replicate (k + 1) '0' := by
        simp [padZeros, digits0]
      rw [hC', hC]
      simp [C07.wholeOf]
  · have hdd : digits0 m = digits m := by simp [digits0, hm]
    rw [hdd]
    have hlen := C07.padZeros_length sc (digits m)
    have hsmall : ¬ (sc + 4 ≤ (digits m).length) := by
      rw [← hdd, C07.digits0_length_ge, ← C07.intpart_ge]
      omega
    generalize padZeros sc (digits m) = C at hlen ⊢
    by_cases hL : C.length - sc = 0
    · rw [if_pos hL]
      simp [C07.wholeOf, hL]
    · rw [if_neg hL]
      have hL3 : C.length - sc ≤ 3 := by omega
      have hcp : (if (C.length - sc) % 3 = 0 then 3 else (C.length - sc) % 3) = C.length - sc := by
        split <;> omega
      have hw : C07.groupedWhole C (C.length - sc) = C07.wholeOf C sc := by
        unfold C07.groupedWhole C07.wholeOf
        rw [hcp]
        simp [C07.commaGroups]
      have hne : (C07.wholeOf C sc).isEmpty = false := by
        unfold C07.wholeOf
        cases hC : C with
        | nil => simp [hC] at hL
        | cons c t =>
          obtain ⟨n, hn⟩ : ∃ n, (c :: t).length - sc = n + 1 := ⟨(c :: t).length - sc - 1, by rw [← hC]; omega⟩
          rw [hn]; rfl
      rw [hw, hne]
      simp

/-- **a number and its meaning-normal form are printed alike** -/
theorem printPDec_canon (d : PDec) : printPDec (canonPDec d) = printPDec d := by
  unfold canonPDec
  split
  · rename_i hsmall
    have h1 : printPDec { d with fmt := none } = printPlain d := rfl
    rw [h1]
    unfold printPDec
    split
    · exact (printComma_small d hsmall).symm
    · rfl
  · rfl

/-! ## value expressions -/

theorem printVExprA_amt_canon (d : PDec) (c : String) :
    ExprSyntax.printVExprA noPrec (.amt (canonPDec d) c) = ExprSyntax.printVExprA noPrec (.amt d c) := by
  simp only [ExprSyntax.printVExprA, ExprParse.displayRescale_noPrec, printPDec_canon]

mutual
theorem printExprA_canon : ∀ e : Expr, ExprSyntax.printExprA noPrec (canonExpr e) = ExprSyntax.printExprA noPrec e
  | .neg e => by simp only [canonExpr, ExprSyntax.printExprA, printExprA_canon e]
  | .bin op l r => by simp only [canonExpr, ExprSyntax.printExprA, printExprA_canon l, printExprA_canon r]
  | .val v => by simp only [canonExpr, ExprSyntax.printExprA, printVExprA_canon v]
theorem printVExprA_canon : ∀ v : VExpr, ExprSyntax.printVExprA noPrec (canonVExpr v) = ExprSyntax.printVExprA noPrec v
  | .paren e => by simp only [canonVExpr, ExprSyntax.printVExprA, printExprA_canon e]
  | .amt d c => by simp only [canonVExpr, printVExprA_amt_canon]
end

theorem printVExpr_canon (v : VExpr) : Unparse.printVExpr (canonVExpr v) = Unparse.printVExpr v := by
  simp only [Unparse.printVExpr, ExprSyntax.printVExpr, printVExprA_canon]

theorem alignVExpr_canon (v : VExpr) : Unparse.alignVExpr (canonVExpr v) = Unparse.alignVExpr v := by
  simp only [Unparse.alignVExpr, ExprSyntax.alignVExpr, printVExprA_canon]

/-! ## postings, transactions, declarations -/

theorem printCost_canon (x : Option Exchange) : printCost (x.map canonExchange) = printCost x := by
  cases x with
  | none => rfl
  | some y => cases y <;> simp only [Option.map_some, canonExchange, printCost, printVExpr_canon]

theorem printLot_canon (l : Lot) : printLot { l with price := l.price.map canonExchange } = printLot l := by
  obtain ⟨price, date, note⟩ := l
  cases price with
  | none => rfl
  | some y => cases y <;> simp only [Option.map_some, canonExchange, printLot, printVExpr_canon]

theorem printPostingTail_canon (w : List Char → Nat) (n : Nat) (p : Posting) :
    printPostingTail w n (canonPosting p) = printPostingTail w n p := by
  obtain ⟨account, clear, amount, balance, metadata⟩ := p
  cases amount with
  | none =>
    cases balance with
    | none => rfl
    | some b =>
      simp only [printPostingTail, canonPosting, Option.map_none, Option.map_some, printVExpr_canon, alignVExpr_canon]
  | some a =>
    obtain ⟨am, cost, lot⟩ := a
    cases balance with
    | none =>
      simp only [printPostingTail, canonPosting, canonPostingAmount, Option.map_none, Option.map_some, printVExpr_canon,
        alignVExpr_canon, printLot_canon, printCost_canon]
    | some b =>
      simp only [printPostingTail, canonPosting, canonPostingAmount, Option.map_none, Option.map_some, printVExpr_canon,
        alignVExpr_canon, printLot_canon, printCost_canon, Option.isSome_some, if_true]

theorem printPosting_canon (w : List Char → Nat) (p : Posting) : printPosting w (canonPosting p) = printPosting w p := by
  have h := printPostingTail_canon w (w p.account.toList + (printClear p.clear).length) p
  simp only [printPosting]
  have h1 : (canonPosting p).account = p.account := rfl
  have h2 : (canonPosting p).clear = p.clear := rfl
  have h3 : (canonPosting p).metadata = p.metadata := rfl
  rw [h1, h2, h3, h]

theorem printCommodityDetail_canon (d : CommodityDetail) : printCommodityDetail (canonDetail d) = printCommodityDetail d := by
  cases d with
  | format v c =>
    simp only [canonDetail, printCommodityDetail, printAmount, Unparse.printVExpr, ExprSyntax.printVExpr,
      printVExprA_amt_canon]
  | comment s => rfl
  | note s => rfl
  | alias s => rfl

/-- **an entry and its meaning-normal form are printed alike** -/
theorem printEntry_canon (w : List Char → Nat) (e : Entry) : printEntry w (canonEntry e) = printEntry w e := by
  cases e with
  | txn t =>
    simp only [canonEntry, printEntry, printTransaction, printTxnHeader, List.flatMap_map, printPosting_canon]
  | commodity n ds =>
    rw [canonEntry_commodity]
    simp only [printEntry, List.flatMap_map, printCommodityDetail_canon]
  | comment s => rfl
  | applyTag k v => rfl
  | endApplyTag => rfl
  | «include» p => rfl
  | account n ds => rfl

theorem formatEntries_canon (w : List Char → Nat) (es : List Entry) :
    formatEntries w (es.map canonEntry) = formatEntries w es := by
  simp only [formatEntries, List.flatMap_map, printEntry_canon]

/-! ## the round trip on texts -/

/-- `C05_entry` (every well-formed plain entry is read back) from the lemma files -/
theorem entryRT_of_ok (w : List Char → Nat) (e : Entry) (hwf : wfEntry e = true)
    (hpl : (exprsOfEntry e).all plainV = true) : EntryRT w e := by
  cases e with
  | txn t =>
    refine entryRT_txn_plain w t (by simpa [wfEntry] using hwf) ?_
    intro v hv
    exact List.all_eq_true.mp hpl v (by simpa [exprsOfEntry] using hv)
  | comment s => exact entryRT_nonTxn w _ hwf (by intro t h; cases h)
  | applyTag k v => exact entryRT_nonTxn w _ hwf (by intro t h; cases h)
  | endApplyTag => exact entryRT_nonTxn w _ hwf (by intro t h; cases h)
  | «include» p => exact entryRT_nonTxn w _ hwf (by intro t h; cases h)
  | account n ds => exact entryRT_nonTxn w _ hwf (by intro t h; cases h)
  | commodity n ds => exact entryRT_nonTxn w _ hwf (by intro t h; cases h)

/-- **C05_roundtrip_text**: for every text without exotic white space and with closed parentheses that parses, the
formatted text parses to the same entries up to `canonEntry` (the grouping style of numbers below 1000), for every
display-width function — no hypothesis on the parsed entries -/
theorem C05_roundtrip_text (w : List Char → Nat) (t : List Char) (es : List Entry) (ht : TextOK t)
    (hp : parseEntries t = .ok es) : parseEntries (formatEntries w es) = .ok (es.map canonEntry) := by
  rw [← formatEntries_canon]
  apply parseEntries_format
  intro e he
  obtain ⟨e', he', rfl⟩ := List.mem_map.mp he
  obtain ⟨h1, h2⟩ := C05_image t es ht hp e' he'
  exact entryRT_of_ok w _ h1 h2

/-- **C05_idempotent_text**: formatting formatted text returns it unchanged -/
theorem C05_idempotent_text (w : List Char → Nat) (t f : List Char) (ht : TextOK t) (hf : format w t = .ok f) :
    format w f = .ok f := by
  unfold format at hf
  cases hp : parseEntries t with
  | ok es =>
    rw [hp] at hf
    simp only [Outcome.map', Outcome.ok.injEq] at hf
    subst hf
    unfold format
    rw [C05_roundtrip_text w t es ht hp]
    simp only [Outcome.map', formatEntries_canon]
  | err e => rw [hp] at hf; simp [Outcome.map'] at hf
  | panic s => rw [hp] at hf; simp [Outcome.map'] at hf
  | fuelOut => rw [hp] at hf; simp [Outcome.map'] at hf

/-- both together, in the shape of `C05_roundtrip` of `Props/C05` but with the hypothesis on the TEXT only -/
theorem C05_format_text (w : List Char → Nat) (t : List Char) (es : List Entry) (ht : TextOK t)
    (hp : parseEntries t = .ok es) :
    ∃ f, format w t = .ok f ∧ parseEntries f = .ok (es.map canonEntry) ∧ format w f = .ok f := by
  have hf : format w t = .ok (formatEntries w es) := by simp [format, hp, Outcome.map']
  exact ⟨formatEntries w es, hf, C05_roundtrip_text w t es ht hp, C05_idempotent_text w t _ ht hf⟩

/-- non-vacuity: the sample ledger of `C05Image` satisfies the hypotheses, parses, and holds a number (`0,100.00`) that
`canonEntry` really changes -/
example : TextOK exText ∧ (parseEntries exText).isOk = true ∧
    (match parseEntries exText with
      | .ok es => es.map canonEntry != es
      | _ => false) = true := by decide +kernel

/-- the theorem applied to the sample ledger -/
example : ∃ f, format widthCjk exText = .ok f ∧ format widthCjk f = .ok f := by
  have hok : (parseEntries exText).isOk = true := by decide +kernel
  cases hp : parseEntries exText with
  | ok es =>
    obtain ⟨f, h1, _, h3⟩ := C05_format_text widthCjk exText es (by decide +kernel) hp
    exact ⟨f, h1, h3⟩
  | err e => rw [hp] at hok; cases hok
  | panic s => rw [hp] at hok; cases hok
  | fuelOut => rw [hp] at hok; cases hok

example : printPDec ⟨false, 10000, 2, some .comma3dot⟩ = "100.00".toList ∧
    canonPDec ⟨false, 10000, 2, some .comma3dot⟩ = ⟨false, 10000, 2, none⟩ := by decide +kernel

end Okane.C05Image
