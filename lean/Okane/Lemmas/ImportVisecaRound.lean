import Okane.Lemmas.ImportVisecaLoop
/-!
# Viseca statement importer — round trip (part (c) of `Lemmas/ImportViseca.lean`)

`parseEntry_printEntry`: the lines `printEntry e` of a canonical entry, followed by the end of the file or by a line that starts
like a head line, are read back by `parse_entry` as exactly `e` (numbered by its head line), consuming exactly those lines.
`parseEntries_printStatement`: a whole canonical statement is read back as its entries.
-/
set_option linter.unusedSimpArgs false
namespace Okane.Import.Viseca
open Okane Okane.Import Okane.Literal Okane.C07

/-! ## numbers with the sign of the record -/

theorem canonSigned_mag {d : Dec} (h : canonSigned d = true) : canonMag d = true := by
  simp only [canonSigned, Bool.and_eq_true] at h; exact h.1

theorem canonUnsigned_mag {d : Dec} (h : canonUnsigned d = true) : canonMag d = true := by
  simp only [canonUnsigned, Bool.and_eq_true] at h; exact h.2

theorem canonUnsigned_eq {d : Dec} (h : canonUnsigned d = true) : (⟨false, d.mant, d.scale⟩ : Dec) = d := by
  simp only [canonUnsigned, Bool.and_eq_true, Bool.not_eq_true'] at h
  cases d; simp_all

def signOf (n : Bool) : Dec := if n then decNegOne else decOne

/-- `magnitude * ±1` gives back a canonical signed number whose sign is the marker's -/
theorem mul_sign_right {d : Dec} {n : Bool} (h : canonSigned d = true) (hn : d.mant ≠ 0 → d.neg = n) :
    Dec.mul ⟨false, d.mant, d.scale⟩ (signOf n) = d := by
  simp only [canonSigned, Bool.and_eq_true, Bool.or_eq_true, bne_iff_ne, Bool.not_eq_true', beq_iff_eq] at h
  by_cases h0 : d.mant = 0
  · rcases h.2 with h1 | h1
    · exact absurd h0 h1
    · cases d; simp_all [Dec.mul]
  · have := hn h0
    cases d
    cases n <;> simp_all [Dec.mul, signOf, decOne, decNegOne]

theorem mul_sign_left {d : Dec} {n : Bool} (h : canonSigned d = true) (hn : d.mant ≠ 0 → d.neg = n) :
    Dec.mul (signOf n) ⟨false, d.mant, d.scale⟩ = d := by
  simp only [canonSigned, Bool.and_eq_true, Bool.or_eq_true, bne_iff_ne, Bool.not_eq_true', beq_iff_eq] at h
  by_cases h0 : d.mant = 0
  · rcases h.2 with h1 | h1
    · exact absurd h0 h1
    · cases d; simp_all [Dec.mul]
  · have := hn h0
    cases d
    cases n <;> simp_all [Dec.mul, signOf, decOne, decNegOne]

/-! ## the clauses of `canonEntry` -/

structure Canon (primary : String) (e : Entry) : Prop where
  date : canonDate e.date = true
  edate : canonDate e.effectiveDate = true
  payee : e.payee.toList.all isDot = true
  amount : canonSigned e.amount = true
  spent : match e.spent with
    | some s => canonCcy s.commodity = true ∧ canonSigned s.value = true ∧
        (s.value.mant = 0 ∨ e.amount.mant = 0 ∨ s.value.neg = e.amount.neg)
    | none => hasSpentSuffix e.payee.toList = false
  catTrim : Parse.trim e.category.toList = e.category.toList
  catHead : match e.category.toList.head? with | some c => c.isDigit = false | none => True
  detail : hasDetail e = true →
    (e.exchange.isSome = (match e.spent with | some s => s.commodity != primary | none => false)) ∧
    (e.fee.isSome = true → e.spent.isSome = true)
  exchange : match e.exchange with | some x => canonExchange x = true | none => True
  fee : match e.fee with | some f => canonFee f = true | none => True

theorem canon_of {primary : String} {e : Entry} (h : canonEntry primary e = true) : Canon primary e := by
  simp only [canonEntry, Bool.and_eq_true] at h
  obtain ⟨⟨⟨⟨⟨⟨⟨⟨⟨⟨h1, h2⟩, h3⟩, h4⟩, h5⟩, _h6⟩, h7⟩, h8⟩, h9⟩, h10⟩, h11⟩ := h
  refine ⟨h1, h2, h3, h4, ?_, by simpa using h7, ?_, ?_, ?_, ?_⟩
  · cases hs : e.spent with
    | none => rw [hs] at h5; simpa using h5
    | some s =>
      rw [hs] at h5
      simp only [Bool.and_eq_true, Bool.or_eq_true, beq_iff_eq] at h5
      exact ⟨h5.1.1, h5.1.2, by rcases h5.2 with (h | h) | h; exact Or.inl h; exact Or.inr (Or.inl h); exact Or.inr (Or.inr h)⟩
  · cases hc : e.category.toList.head? with
    | none => trivial
    | some c => rw [hc] at h8; simpa using h8
  · intro hd
    rw [hd] at h9
    simp only [Bool.not_true, Bool.false_or, Bool.and_eq_true, beq_iff_eq, Bool.or_eq_true, Bool.not_eq_true'] at h9
    refine ⟨h9.1, ?_⟩
    intro hf
    rcases h9.2 with h | h
    · rw [hf] at h; exact absurd h (by simp)
    · exact h
  · cases hx : e.exchange with
    | none => trivial
    | some x => rw [hx] at h10; exact h10
  · cases hf : e.fee with
    | none => trivial
    | some f => rw [hf] at h11; exact h11

/-! ## the head line -/

/-- what `parse_first_line` builds for the head line of `e` -/
def baseOf (e : Entry) : Entry :=
  { lineCount := 0, date := e.date, effectiveDate := e.effectiveDate, payee := e.payee, amount := e.amount, category := "",
    spent := e.spent, exchange := none, fee := none }

theorem parseDecimalE_grouped {d : Dec} (h : canonMag d = true) : parseDecimalE (printGrouped d) = .ok ⟨false, d.mant, d.scale⟩ := by
  unfold parseDecimalE; rw [parseDecimal_printGrouped d h]

theorem parseDecimalE_magnitude {d : Dec} (h : canonMag d = true) : parseDecimalE (printMagnitude d) = .ok ⟨false, d.mant, d.scale⟩ := by
  unfold parseDecimalE; rw [parseDecimal_printMagnitude d h]

theorem parseEuroDateE_print {d : Date} (h : canonDate d = true) : parseEuroDateE (printEuroDate d) = .ok d := by
  unfold parseEuroDateE; rw [parseEuroDate_printEuroDate d h]

theorem negMark_amount {primary : String} {e : Entry} (hc : Canon primary e) : e.amount.mant ≠ 0 → e.amount.neg = negMark e := by
  intro h0
  unfold negMark
  have hsp := hc.spent
  cases hs : e.spent with
  | none => simp
  | some s =>
    rw [hs] at hsp
    simp only []
    obtain ⟨_, h2, h3⟩ := hsp
    rcases h3 with h | h | h
    · simp only [canonSigned, Bool.and_eq_true, Bool.or_eq_true, bne_iff_ne, Bool.not_eq_true', beq_iff_eq] at h2
      rcases h2.2 with h' | h'
      · exact absurd h h'
      · rw [h'.1]; simp
    · exact absurd h h0
    · rw [h]; simp

theorem negMark_spent {primary : String} {e : Entry} {s : OwnedAmount} (hc : Canon primary e) (hs : e.spent = some s) :
    s.value.mant ≠ 0 → s.value.neg = negMark e := by
  intro h0
  unfold negMark
  have hsp := hc.spent
  rw [hs] at hsp ⊢
  simp only []
  obtain ⟨_, _, h3⟩ := hsp
  rcases h3 with h | h | h
  · exact absurd h h0
  · have h2 := hc.amount
    simp only [canonSigned, Bool.and_eq_true, Bool.or_eq_true, bne_iff_ne, Bool.not_eq_true', beq_iff_eq] at h2
    rcases h2.2 with h' | h'
    · exact absurd h h'
    · rw [h'.1]; simp
  · rw [h]; simp

theorem parseFirstLine_aux {primary : String} (k : Nat) (e : Entry) (n : Bool) (hn : n = negMark e) (hc : Canon primary e) :
    parseFirstLine k ⟨printEuroDate e.date, printEuroDate e.effectiveDate, e.payee.toList,
      e.spent.map (fun s => (s.commodity.toList, printGrouped s.value)), printGrouped e.amount, n⟩ = .ok (baseOf e) := by
  unfold parseFirstLine
  simp only []
  rw [parseEuroDate_printEuroDate _ hc.date]
  simp only []
  rw [parseEuroDateE_print hc.edate]
  simp only []
  rw [parseDecimalE_grouped (canonSigned_mag hc.amount)]
  have hamt : Dec.mul ⟨false, e.amount.mant, e.amount.scale⟩ (if n = true then decNegOne else decOne) = e.amount :=
    mul_sign_right hc.amount (by rw [hn]; exact negMark_amount hc)
  have hsp := hc.spent
  cases hs : e.spent with
  | none =>
    simp only [Option.map_none, baseOf, hs, String.ofList_toList]
    rw [hamt]
  | some s =>
    rw [hs] at hsp
    obtain ⟨_, h2, _⟩ := hsp
    simp only [Option.map_some]
    rw [parseDecimalE_grouped (canonSigned_mag h2)]
    have hsv : Dec.mul (if n = true then decNegOne else decOne) ⟨false, s.value.mant, s.value.scale⟩ = s.value :=
      mul_sign_left h2 (by rw [hn]; exact negMark_spent hc hs)
    simp only [baseOf, hs, String.ofList_toList]
    rw [hamt, hsv]

/-- **`parse_first_line` reads the captures of the printed head line back as the entry's head** -/
theorem parseFirstLine_headCaps {primary : String} (k : Nat) (e : Entry) (hc : Canon primary e) :
    parseFirstLine k (headCaps e) = .ok (baseOf e) :=
  parseFirstLine_aux k e (negMark e) rfl hc

/-! ## detail lines -/

theorem readLine_text (cs : List Char) (tail : List RawLine) (k : Nat) :
    Reader.readLine ⟨.text cs :: tail, k⟩ = .ok (cs, ⟨tail, k + 1⟩) := rfl

theorem peek_text (cs : List Char) (tail : List RawLine) (k : Nat) : Reader.peek ⟨.text cs :: tail, k⟩ = .ok cs := rfl

theorem snoc_isEmpty (s : List Char) (c : Char) : (s ++ [c]).isEmpty = false := by
  cases s <;> rfl

/-- `parse_exchange` on the printed exchange line -/
theorem parseExchange_print (x : Viseca.Exchange) (hx : canonExchange x = true) (tail : List RawLine) (k : Nat) :
    parseExchange ⟨.text (printExchange x ++ ['\n']) :: tail, k⟩ = .ok (x, ⟨tail, k + 1⟩) := by
  simp only [canonExchange, Bool.and_eq_true] at hx
  obtain ⟨⟨⟨h1, h2⟩, h3⟩, h4⟩ := hx
  unfold parseExchange
  rw [readLine_text]
  simp only [snoc_isEmpty, Bool.false_eq_true, if_false]
  rw [printExchange_trimEnd, exchangeLine_printExchange x h3]
  simp only []
  rw [parseDecimalE_magnitude (canonUnsigned_mag h1)]
  simp only []
  rw [parseEuroDateE_print h2]
  simp only []
  rw [parseDecimalE_grouped (canonUnsigned_mag h4)]
  simp only [canonUnsigned_eq h1, canonUnsigned_eq h4, String.ofList_toList]

theorem printFee_isFeePrefix (f : Fee) : isFeePrefix (printFee f ++ ['\n']) = true := by
  unfold isFeePrefix printFee
  cases f.amount.value.neg <;> simp [List.append_assoc]

/-- `parse_fee` on the printed fee line -/
theorem parseFee_print (f : Fee) (hf : canonFee f = true) (tail : List RawLine) (k : Nat) :
    parseFee ⟨.text (printFee f ++ ['\n']) :: tail, k⟩ = .ok (some f, ⟨tail, k + 1⟩) := by
  simp only [canonFee, Bool.and_eq_true] at hf
  obtain ⟨⟨h1, h2⟩, h3⟩ := hf
  unfold parseFee
  rw [peek_text]
  simp only [snoc_isEmpty, printFee_isFeePrefix, Bool.not_true, Bool.or_self, Bool.false_eq_true, if_false]
  rw [readLine_text]
  simp only [snoc_isEmpty, Bool.false_eq_true, if_false]
  rw [printFee_trimEnd, feeLine_printFee f h2]
  simp only []
  rw [parseDecimalE_magnitude (canonUnsigned_mag h1)]
  simp only []
  rw [parseDecimalE_grouped (canonSigned_mag h3)]
  have hv : Dec.mul ⟨false, f.amount.value.mant, f.amount.value.scale⟩ (if f.amount.value.neg = true then decNegOne else decOne)
      = f.amount.value := mul_sign_right h3 (fun _ => rfl)
  simp only [canonUnsigned_eq h1, String.ofList_toList]
  rw [hv]

/-- what may follow a record: the end of the file, or a line that is empty or starts with an ASCII digit (as every head line
does) -/
def FollowOk (rest : List RawLine) : Prop :=
  rest = [] ∨ ∃ cs tail, rest = .text cs :: tail ∧ (cs = [] ∨ startsWithDigit cs = true)

theorem startsWithDigit_cons {cs : List Char} (h : startsWithDigit cs = true) : ∃ c t, cs = c :: t ∧ c.isDigit = true := by
  cases cs with
  | nil => simp [startsWithDigit] at h
  | cons c t => exact ⟨c, t, rfl, by simpa [startsWithDigit] using h⟩

theorem digit_not_feePrefix {c : Char} {t : List Char} (h : c.isDigit = true) : isFeePrefix (c :: t) = false := by
  obtain ⟨k, hk, rfl⟩ := isDigit_eq_digitChar h
  have : ∀ k, k < 10 → 'P' ≠ digitChar k ∧ 'C' ≠ digitChar k := by decide
  obtain ⟨h1, h2⟩ := this k hk
  simp [isFeePrefix, List.isPrefixOf, h1, h2]

theorem digit_not_airTag {c : Char} {t : List Char} (h : c.isDigit = true) : isAirTagLine (c :: t) = false := by
  obtain ⟨k, hk, rfl⟩ := isDigit_eq_digitChar h
  have : ∀ k, k < 10 → 'A' ≠ digitChar k := by decide
  have h1 := this k hk
  simp [isAirTagLine, airAt, lit, List.isPrefixOf, h1]

/-- no fee line follows -/
theorem parseFee_follow {rest : List RawLine} (h : FollowOk rest) (k : Nat) : parseFee ⟨rest, k⟩ = .ok (none, ⟨rest, k⟩) := by
  unfold parseFee
  rcases h with rfl | ⟨cs, tail, rfl, hcs⟩
  · simp [Reader.peek]
  · rw [peek_text]
    rcases hcs with rfl | hd
    · simp
    · obtain ⟨c, t, rfl, hc⟩ := startsWithDigit_cons hd
      simp [digit_not_feePrefix hc]

/-- no air-tag line follows -/
theorem skipAirTags_follow {rest : List RawLine} (h : FollowOk rest) (k : Nat) : skipAirTags ⟨rest, k⟩ = .ok ⟨rest, k⟩ := by
  unfold skipAirTags
  rcases h with rfl | ⟨cs, tail, rfl, hcs⟩
  · simp [skipAirLines]
  · rcases hcs with rfl | hd
    · simp [skipAirLines]
    · obtain ⟨c, t, rfl, hc⟩ := startsWithDigit_cons hd
      simp [skipAirLines, digit_not_airTag hc]

/-! ## the category line -/

theorem length_dropWhile_le' (p : Char → Bool) (l : List Char) : (l.dropWhile p).length ≤ l.length :=
  (List.dropWhile_suffix p).length_le

theorem trimEnd_length_le (s : List Char) : (Parse.trimEnd s).length ≤ s.length := by
  unfold Parse.trimEnd
  rw [List.length_reverse]
  have := length_dropWhile_le' Parse.isRustWhitespace s.reverse
  simpa using this

theorem trim_fixed {cat : List Char} (h : Parse.trim cat = cat) : Parse.trimStart cat = cat ∧ Parse.trimEnd cat = cat := by
  unfold Parse.trim at h
  have h1 : (Parse.trimStart cat).length ≤ cat.length := length_dropWhile_le' _ _
  have h2 := trimEnd_length_le (Parse.trimStart cat)
  rw [h] at h2
  have hs : Parse.trimStart cat = cat :=
    List.IsSuffix.eq_of_length (List.dropWhile_suffix _) (by omega)
  rw [hs] at h
  exact ⟨hs, h⟩

/-- the category line `category ++ "\n"` is read back as the category -/
theorem trim_category_line {cat : List Char} (h : Parse.trim cat = cat) : Parse.trim (cat ++ ['\n']) = cat := by
  obtain ⟨hs, he⟩ := trim_fixed h
  have hnl : Parse.isRustWhitespace '\n' = true := by decide
  cases cat with
  | nil => simp [Parse.trim, Parse.trimStart, Parse.trimEnd, hnl]
  | cons c t =>
    have hc : Parse.isRustWhitespace c = false := by
      cases hw : Parse.isRustWhitespace c with
      | false => rfl
      | true =>
        exfalso
        unfold Parse.trimStart at hs
        rw [List.dropWhile_cons, if_pos hw] at hs
        have := length_dropWhile_le' Parse.isRustWhitespace t
        rw [hs] at this
        simp only [List.length_cons] at this
        omega
    have h1 : Parse.trimStart ((c :: t) ++ ['\n']) = (c :: t) ++ ['\n'] := by
      simp [Parse.trimStart, List.dropWhile_cons, hc]
    unfold Parse.trim
    rw [h1]
    unfold Parse.trimEnd at he ⊢
    rw [List.reverse_append]
    simp only [List.reverse_cons, List.reverse_nil, List.nil_append, List.singleton_append]
    rw [List.dropWhile_cons, if_pos hnl]
    simpa using he

theorem category_not_digit {cat : List Char} (h : match cat.head? with | some c => c.isDigit = false | none => True) :
    startsWithDigit (cat ++ ['\n']) = false := by
  cases cat with
  | nil => decide
  | cons c t => simpa [startsWithDigit] using h

/-! ## one record -/

/-- the detail lines after the category line -/
def detailLines (e : Entry) : List (List Char) :=
  (match e.exchange with | some x => [printExchange x ++ ['\n']] | none => []) ++
  (match e.fee with | some f => [printFee f ++ ['\n']] | none => [])

theorem parseDetails_print {primary : String} {e : Entry} (hc : Canon primary e) (hd : hasDetail e = true)
    {rest : List RawLine} (hf : FollowOk rest) (lc k : Nat) :
    parseDetails primary lc (baseOf e) e.category ⟨(detailLines e).map RawLine.text ++ rest, k⟩ =
      .ok (some { e with lineCount := lc }, ⟨rest, k + (detailLines e).length⟩) := by
  obtain ⟨hdx, hdf⟩ := hc.detail hd
  have hcx := hc.exchange
  have hcf := hc.fee
  unfold parseDetails
  have hbs : (baseOf e).spent = e.spent := rfl
  rw [hbs]
  -- the exchange line
  have hex : ∃ r3 : Reader, parseExchangeOpt primary e.spent ⟨(detailLines e).map RawLine.text ++ rest, k⟩ = .ok (e.exchange, r3) ∧
      r3 = ⟨((match e.fee with | some f => [printFee f ++ ['\n']] | none => []) : List (List Char)).map RawLine.text ++ rest,
            k + (match e.exchange with | some _ => 1 | none => 0)⟩ := by
    unfold parseExchangeOpt detailLines
    cases hx : e.exchange with
    | some x =>
      rw [hx] at hdx hcx
      cases hs : e.spent with
      | none => rw [hs] at hdx; simp at hdx
      | some s =>
        rw [hs] at hdx
        simp only [Option.isSome_some, bne_iff_ne, ne_eq] at hdx
        have hne : s.commodity ≠ primary := by
          intro h; rw [h] at hdx; simp at hdx
        simp only [hne, ne_eq, not_false_eq_true, if_true, List.map_append, List.map_cons, List.map_nil,
          List.cons_append, List.nil_append]
        rw [parseExchange_print x hcx]
        exact ⟨_, rfl, rfl⟩
    | none =>
      rw [hx] at hdx
      cases hs : e.spent with
      | none => exact ⟨_, rfl, by simp⟩
      | some s =>
        rw [hs] at hdx
        simp only [Option.isSome_none, bne_iff_ne, ne_eq] at hdx
        have heq : s.commodity = primary := by simpa using hdx.symm
        simp only [heq, ne_eq, not_true_eq_false, if_false]
        exact ⟨_, rfl, by simp⟩
  obtain ⟨r3, h3, hr3⟩ := hex
  rw [h3]
  simp only []
  -- the fee line
  have hfee : parseFeeOpt e.spent r3 = .ok (e.fee, ⟨rest, k + (detailLines e).length⟩) := by
    unfold parseFeeOpt
    rw [hr3]
    have hlen : (detailLines e).length = (match e.exchange with | some _ => 1 | none => 0) + (match e.fee with | some _ => 1 | none => 0) := by
      unfold detailLines
      cases e.exchange <;> cases e.fee <;> rfl
    cases hfe : e.fee with
    | some f =>
      rw [hfe] at hdf hcf hlen
      have := hdf rfl
      cases hs : e.spent with
      | none => rw [hs] at this; simp at this
      | some s =>
        simp only [List.map_cons, List.map_nil, List.cons_append, List.nil_append]
        rw [parseFee_print f hcf, hlen]
        simp only [Nat.add_assoc]
    | none =>
      rw [hfe] at hlen
      simp only [List.map_nil, List.nil_append, hlen, Nat.add_zero]
      cases hs : e.spent with
      | none => rfl
      | some s => exact parseFee_follow hf _
  rw [hfee]
  simp only []
  rw [skipAirTags_follow hf]
  cases e
  rfl

theorem printEntry_eq (e : Entry) :
    printEntry e = (printHead e ++ ['\n']) :: (if hasDetail e = true then (e.category.toList ++ ['\n']) :: detailLines e else []) := by
  unfold printEntry detailLines
  cases hasDetail e
  · simp
  · simp only [if_true, List.cons_append, List.nil_append, List.append_assoc]
    rfl

theorem noDetail_fields {e : Entry} (h : hasDetail e = false) : e.category = "" ∧ e.exchange = none ∧ e.fee = none := by
  simp only [hasDetail, Bool.or_eq_false_iff, bne_eq_false_iff_eq, Option.isSome_eq_false_iff, Option.isNone_iff_eq_none] at h
  exact ⟨h.1.1, h.1.2, h.2⟩

/-- **(c) round trip, one record**: the lines of a canonical entry, followed by the end of the file or by a line that is empty or
starts with a digit, are read by `parse_entry` as exactly that entry, numbered by its head line; exactly its lines are consumed. -/
theorem parseEntry_printEntry (primary : String) (e : Entry) (hcan : canonEntry primary e = true)
    (rest : List RawLine) (hf : FollowOk rest) (n : Nat) :
    parseEntry primary ⟨(printEntry e).map RawLine.text ++ rest, n⟩ =
      .ok (some { e with lineCount := n + 1 }, ⟨rest, n + (printEntry e).length⟩) := by
  have hc := canon_of hcan
  have hfl : firstLine (printHead e) = some (headCaps e) := by
    apply firstLine_printHead e hc.payee
    have := hc.spent
    cases hs : e.spent with
    | none => rw [hs] at this; exact this
    | some s => rw [hs] at this; exact this.1
  rw [printEntry_eq]
  unfold parseEntry
  simp only [List.map_cons, List.cons_append]
  rw [readLine_text]
  simp only [snoc_isEmpty, Bool.false_eq_true, if_false]
  rw [printHead_trimEnd, hfl]
  simp only []
  rw [parseFirstLine_headCaps (n + 1) e hc]
  simp only []
  cases hd : hasDetail e with
  | false =>
    simp only [Bool.false_eq_true, if_false, List.map_nil, List.nil_append, List.length_cons, List.length_nil]
    obtain ⟨h1, h2, h3⟩ := noDetail_fields hd
    have hres : ({ baseOf e with lineCount := n + 1 } : Entry) = { e with lineCount := n + 1 } := by
      cases e; simp_all [baseOf]
    rcases hf with rfl | ⟨cs, tail, rfl, hcs⟩
    · simp only [Reader.peek, List.isEmpty_nil, Bool.true_or, if_true]
      rw [hres]
    · rw [peek_text]
      have : (cs.isEmpty || startsWithDigit cs) = true := by
        rcases hcs with rfl | h
        · rfl
        · simp [h]
      simp only [this, if_true]
      rw [hres]
  | true =>
    simp only [if_true, List.map_cons, List.cons_append]
    rw [peek_text]
    have hnd : ((e.category.toList ++ ['\n']).isEmpty || startsWithDigit (e.category.toList ++ ['\n'])) = false := by
      rw [snoc_isEmpty, category_not_digit hc.catHead]; rfl
    simp only [hnd, Bool.false_eq_true, if_false]
    rw [readLine_text]
    simp only [snoc_isEmpty, Bool.false_eq_true, if_false]
    rw [trim_category_line hc.catTrim, String.ofList_toList, parseDetails_print hc hd hf]
    simp only [List.length_cons]
    congr 3
    omega

/-! ## a whole statement -/

theorem printStatement_cons (e : Entry) (es : List Entry) :
    printStatement (e :: es) = (printEntry e).map RawLine.text ++ printStatement es := by
  simp [printStatement, List.flatMap_cons, List.map_append]

theorem printHead_startsWithDigit (e : Entry) : startsWithDigit (printHead e ++ ['\n']) = true := by
  obtain ⟨a, b, h1, ha, _, _⟩ := twoDigits_spec e.date.d
  simp [printHead, printEuroDate, h1, startsWithDigit, ha]

theorem followOk_printStatement (es : List Entry) : FollowOk (printStatement es) := by
  cases es with
  | nil => exact Or.inl rfl
  | cons e es =>
    rw [printStatement_cons, printEntry_eq]
    exact Or.inr ⟨_, _, rfl, Or.inr (printHead_startsWithDigit e)⟩

theorem printEntry_length_pos (e : Entry) : 1 ≤ (printEntry e).length := by
  rw [printEntry_eq]; simp

theorem parseEntriesFuel_printStatement (primary : String) : ∀ (es : List Entry) (n fuel : Nat),
    canonStatement primary es = true → (printStatement es).length < fuel →
    parseEntriesFuel primary fuel ⟨printStatement es, n⟩ = .ok (renumber n es) := by
  intro es
  induction es with
  | nil =>
    intro n fuel _ hfuel
    cases fuel with
    | zero => omega
    | succ fuel => simp [parseEntriesFuel, printStatement, parseEntry, Reader.readLine, renumber]
  | cons e es ih =>
    intro n fuel hcan hfuel
    simp only [canonStatement, List.all_cons, Bool.and_eq_true] at hcan
    cases fuel with
    | zero => omega
    | succ fuel =>
      rw [parseEntriesFuel, printStatement_cons, parseEntry_printEntry primary e hcan.1 _ (followOk_printStatement es) n]
      simp only []
      rw [printStatement_cons, List.length_append, List.length_map] at hfuel
      have := printEntry_length_pos e
      rw [ih (n + (printEntry e).length) fuel (by simpa [canonStatement] using hcan.2) (by omega)]
      rfl

/-- **(c) round trip, whole statement**: for every list of canonical entries, the statement `printStatement` writes is read back by
the parser as exactly those entries, each numbered by the line its record starts at. -/
theorem parseEntries_printStatement (primary : String) (es : List Entry) (h : canonStatement primary es = true) :
    parseEntries primary (printStatement es) = .ok (renumber 0 es) :=
  parseEntriesFuel_printStatement primary es 0 _ h (Nat.lt_succ_self _)

/-- the entries read back are the entries written, up to the line numbers -/
theorem renumber_forget : ∀ (n : Nat) (es : List Entry),
    (renumber n es).map (fun e => { e with lineCount := 0 }) = es.map (fun e => { e with lineCount := 0 }) := by
  intro n es
  induction es generalizing n with
  | nil => rfl
  | cons e es ih => simp [renumber, ih]
