import Okane.Props.C05
import Okane.Props.C07
import Okane.Spec.Import
import Okane.Model.ImportLedger
/-!
# Read-back of what `okane import` prints (C15), on the syntax tree

`ImportCmd::run` prints every transaction with a `DisplayContext` that carries the configured precisions; the C05
round trip (`Okane.C05.C05_entry`) is about the printer without precisions (`Okane.Unparse`).  This file bridges the two:

* `printTransactionP prec w` — the transaction printer of `display.rs` with a precision table (`Unparse.printTransaction`
  is the instance `prec = noPrec`, `printTransactionP_noPrec`);
* `mapTxn f` — a transaction with every number `d` (next to commodity `c`) replaced by `f d c`;
  `rescaleTxn prec = mapTxn (displayRescale prec)` is the tree with the numbers as the printer pads them, and
  `printTransactionP prec w t = printTransaction w (rescaleTxn prec t)` for EVERY tree (`printTransactionP_rescale`);
* `readNum d` — the number the literal scanner returns for the printed `d` (`C07_print_exact`): same mantissa and
  scale, sign dropped on zero, format tag `plain` when the integer part has four digits or more;
  `readbackTxn prec = mapTxn (fun d c => readNum (displayRescale prec d c))` — the tree as it is read back;
* `readback_tree` — for every tree inside `ReadableTree` (Spec/Import.lean) whose numbers carry no format tag and no
  signed zero, and every precision table within rust_decimal's scale range: the read-back tree satisfies `wfEntry` and
  `plainEntry`, prints (without precision) to exactly the text the importer prints (with precision), hence by
  `C05_entry` the entry parser reads exactly that text back as `readbackTxn prec t` and stops at the blank line.
  (`Lemmas/ImportReadbackZero.lean` removes the signed-zero condition from the parse statement.)
-/
set_option linter.unusedSimpArgs false
set_option linter.unusedSectionVars false
namespace Okane.Import
open Okane Okane.Comb Okane.Parse Okane.Unparse

/-! ## the printer with a precision table (`display.rs` with `DisplayContext { precisions }`) -/

def printVExprP (prec : String → Nat) (v : VExpr) : List Char := ExprSyntax.printVExpr prec v
def alignVExprP (prec : String → Nat) (v : VExpr) : Nat := ExprSyntax.alignVExpr prec v

/-- `Display for WithContext<Lot>` -/
def printLotP (prec : String → Nat) (l : Lot) : List Char :=
  (match l.price with
    | some (.total e) => [' ', '{', '{'] ++ printVExprP prec e ++ ['}', '}']
    | some (.rate e) => [' ', '{'] ++ printVExprP prec e ++ ['}']
    | none => []) ++
  (match l.date with
    | some d => [' ', '['] ++ printDate d ++ [']']
    | none => []) ++
  (match l.note with
    | some n => [' ', '('] ++ n.toList ++ [')']
    | none => [])

def printCostP (prec : String → Nat) : Option Exchange → List Char
  | some (.rate v) => [' ', '@', ' '] ++ printVExprP prec v
  | some (.total v) => [' ', '@', '@', ' '] ++ printVExprP prec v
  | none => []

def printPostingTailP (prec : String → Nat) (w : List Char → Nat) (accountWidth : Nat) (p : Posting) : List Char :=
  (match p.amount with
    | some a =>
      spaces (getColumn 48 (accountWidth + alignVExprP prec a.amount) 2) ++ printVExprP prec a.amount ++
        printLotP prec a.lot ++ printCostP prec a.cost
    | none => []) ++
  (match p.balance with
    | some b =>
      let trailing := w (printVExprP prec b) - alignVExprP prec b
      let padding := if p.amount.isSome then 0 else getColumn (50 + trailing) accountWidth 3
      spaces (padding - 2) ++ [' ', '='] ++ ' ' :: printVExprP prec b
    | none => [])

/-- `Display for WithContext<Posting>` -/
def printPostingP (prec : String → Nat) (w : List Char → Nat) (p : Posting) : List Char :=
  let clear := printClear p.clear
  let accountWidth := w p.account.toList + clear.length
  indent4 ++ (clear ++ (p.account.toList ++ (printPostingTailP prec w accountWidth p ++ '\n' :: p.metadata.flatMap printMetaLine)))

/-- `Display for WithContext<Transaction>` with the precisions of the context -/
def printTransactionP (prec : String → Nat) (w : List Char → Nat) (t : Transaction) : List Char :=
  printTxnHeader t ++ t.metadata.flatMap printMetaLine ++ t.posts.flatMap (printPostingP prec w)

/-- what `ImportCmd::run` writes: `writeln!(w, "{}", ctx.as_display(&xact))` for every transaction -/
def importText (prec : String → Nat) (w : List Char → Nat) (trs : List Transaction) : List Char :=
  trs.flatMap fun tr => printTransactionP prec w tr ++ ['\n']

theorem flatMap_congr' {α β : Type} (l : List α) (f g : α → List β) (h : ∀ a ∈ l, f a = g a) :
    l.flatMap f = l.flatMap g := by
  induction l with
  | nil => rfl
  | cons a t ih =>
    simp only [List.flatMap_cons, h a (by simp), ih (fun b hb => h b (by simp [hb]))]

theorem printLotP_noPrec (l : Lot) : printLotP noPrec l = printLot l := rfl
theorem printCostP_noPrec (c : Option Exchange) : printCostP noPrec c = printCost c := by
  cases c with
  | none => rfl
  | some x => cases x <;> rfl
theorem printPostingP_noPrec (w : List Char → Nat) (p : Posting) : printPostingP noPrec w p = printPosting w p := by
  simp only [printPostingP, printPosting, printPostingTailP, printPostingTail, printLotP_noPrec, printCostP_noPrec]
  rfl

/-- the C05 printer is the printer with the empty precision table -/
theorem printTransactionP_noPrec (w : List Char → Nat) (t : Transaction) :
    printTransactionP noPrec w t = printTransaction w t := by
  simp only [printTransactionP, printTransaction]
  rw [flatMap_congr' t.posts _ _ (fun p _ => printPostingP_noPrec w p)]

/-! ## trees with the numbers replaced -/

mutual
def mapE (f : PDec → String → PDec) : Expr → Expr
  | .neg e => .neg (mapE f e)
  | .bin op l r => .bin op (mapE f l) (mapE f r)
  | .val v => .val (mapV f v)
def mapV (f : PDec → String → PDec) : VExpr → VExpr
  | .paren e => .paren (mapE f e)
  | .amt d c => .amt (f d c) c
end

def mapExchange (f : PDec → String → PDec) : Exchange → Exchange
  | .total v => .total (mapV f v)
  | .rate v => .rate (mapV f v)

def mapLot (f : PDec → String → PDec) (l : Lot) : Lot :=
  { price := l.price.map (mapExchange f), date := l.date, note := l.note }

def mapPostingAmount (f : PDec → String → PDec) (a : PostingAmount) : PostingAmount :=
  { amount := mapV f a.amount, cost := a.cost.map (mapExchange f), lot := mapLot f a.lot }

def mapPosting (f : PDec → String → PDec) (p : Posting) : Posting :=
  { account := p.account, clear := p.clear, amount := p.amount.map (mapPostingAmount f),
    balance := p.balance.map (mapV f), metadata := p.metadata }

/-- the transaction with every number `d` standing next to commodity `c` replaced by `f d c` -/
def mapTxn (f : PDec → String → PDec) (t : Transaction) : Transaction :=
  { date := t.date, effectiveDate := t.effectiveDate, clear := t.clear, code := t.code, payee := t.payee,
    posts := t.posts.map (mapPosting f), metadata := t.metadata }

mutual
/-- every number of the expression satisfies `q` -/
def allE (q : PDec → String → Bool) : Expr → Bool
  | .neg e => allE q e
  | .bin _ l r => allE q l && allE q r
  | .val v => allV q v
def allV (q : PDec → String → Bool) : VExpr → Bool
  | .paren e => allE q e
  | .amt d c => q d c
end

def allExchange (q : PDec → String → Bool) : Option Exchange → Bool
  | some (.total v) => allV q v
  | some (.rate v) => allV q v
  | none => true

def allPosting (q : PDec → String → Bool) (p : Posting) : Bool :=
  (match p.amount with
    | some a => allV q a.amount && allExchange q a.lot.price && allExchange q a.cost
    | none => true) &&
  (match p.balance with
    | some b => allV q b
    | none => true)

/-- every number of the transaction satisfies `q` -/
def allTxn (q : PDec → String → Bool) (t : Transaction) : Bool := t.posts.all (allPosting q)

/-! ## printing a mapped tree -/

section
variable (p1 p2 : String → Nat) (f : PDec → String → PDec) (q : PDec → String → Bool)
  (h : ∀ d c, q d c = true →
    Literal.printPDec (Literal.displayRescale p2 (f d c) c) = Literal.printPDec (Literal.displayRescale p1 d c))
include h

mutual
theorem printExprA_map : ∀ e : Expr, allE q e = true →
    ExprSyntax.printExprA p2 (mapE f e) = ExprSyntax.printExprA p1 e
  | .neg e, ha => by
    simp only [allE] at ha
    simp only [mapE, ExprSyntax.printExprA, printExprA_map e ha]
  | .bin op l r, ha => by
    simp only [allE, Bool.and_eq_true] at ha
    simp only [mapE, ExprSyntax.printExprA, printExprA_map l ha.1, printExprA_map r ha.2]
  | .val v, ha => by
    simp only [allE] at ha
    simp only [mapE, ExprSyntax.printExprA, printVExprA_map v ha]
theorem printVExprA_map : ∀ v : VExpr, allV q v = true →
    ExprSyntax.printVExprA p2 (mapV f v) = ExprSyntax.printVExprA p1 v
  | .paren e, ha => by
    simp only [allV] at ha
    simp only [mapV, ExprSyntax.printVExprA, printExprA_map e ha]
  | .amt d c, ha => by
    simp only [allV] at ha
    simp only [mapV, ExprSyntax.printVExprA, h d c ha]
end

theorem printVExprP_map (v : VExpr) (ha : allV q v = true) : printVExprP p2 (mapV f v) = printVExprP p1 v := by
  simp only [printVExprP, ExprSyntax.printVExpr, printVExprA_map p1 p2 f q h v ha]

theorem alignVExprP_map (v : VExpr) (ha : allV q v = true) : alignVExprP p2 (mapV f v) = alignVExprP p1 v := by
  simp only [alignVExprP, ExprSyntax.alignVExpr, printVExprA_map p1 p2 f q h v ha]

theorem printLotP_map (l : Lot) (ha : allExchange q l.price = true) : printLotP p2 (mapLot f l) = printLotP p1 l := by
  obtain ⟨price, date, note⟩ := l
  cases price with
  | none => rfl
  | some x =>
    cases x with
    | total v =>
      simp only [allExchange] at ha
      simp only [printLotP, mapLot, Option.map_some, mapExchange, printVExprP_map p1 p2 f q h v ha]
    | rate v =>
      simp only [allExchange] at ha
      simp only [printLotP, mapLot, Option.map_some, mapExchange, printVExprP_map p1 p2 f q h v ha]

theorem printCostP_map (c : Option Exchange) (ha : allExchange q c = true) :
    printCostP p2 (c.map (mapExchange f)) = printCostP p1 c := by
  cases c with
  | none => rfl
  | some x =>
    cases x with
    | total v =>
      simp only [allExchange] at ha
      simp only [printCostP, Option.map_some, mapExchange, printVExprP_map p1 p2 f q h v ha]
    | rate v =>
      simp only [allExchange] at ha
      simp only [printCostP, Option.map_some, mapExchange, printVExprP_map p1 p2 f q h v ha]

theorem printPostingP_map (w : List Char → Nat) (p : Posting) (ha : allPosting q p = true) :
    printPostingP p2 w (mapPosting f p) = printPostingP p1 w p := by
  obtain ⟨account, clear, amount, balance, metadata⟩ := p
  simp only [allPosting, Bool.and_eq_true] at ha
  obtain ⟨ha1, ha2⟩ := ha
  have hb : ∀ b, balance = some b → printVExprP p2 (mapV f b) = printVExprP p1 b ∧ alignVExprP p2 (mapV f b) = alignVExprP p1 b := by
    intro b hb
    subst hb
    exact ⟨printVExprP_map p1 p2 f q h b ha2, alignVExprP_map p1 p2 f q h b ha2⟩
  cases amount with
  | none =>
    cases balance with
    | none => rfl
    | some b =>
      obtain ⟨e1, e2⟩ := hb b rfl
      simp only [printPostingP, mapPosting, printPostingTailP, Option.map_none, Option.map_some, e1, e2]
  | some a =>
    simp only [Bool.and_eq_true] at ha1
    obtain ⟨⟨a1, a2⟩, a3⟩ := ha1
    have e3 := printVExprP_map p1 p2 f q h a.amount a1
    have e4 := alignVExprP_map p1 p2 f q h a.amount a1
    have e5 := printLotP_map p1 p2 f q h a.lot a2
    have e6 := printCostP_map p1 p2 f q h a.cost a3
    cases balance with
    | none =>
      simp only [printPostingP, mapPosting, printPostingTailP, Option.map_none, Option.map_some, mapPostingAmount, e3, e4, e5, e6]
    | some b =>
      obtain ⟨e1, e2⟩ := hb b rfl
      simp only [printPostingP, mapPosting, printPostingTailP, Option.map_none, Option.map_some, mapPostingAmount,
        e1, e2, e3, e4, e5, e6, Option.isSome_some]

/-- a tree whose numbers are replaced by numbers that print the same way prints the same way -/
theorem printTransactionP_map (w : List Char → Nat) (t : Transaction) (ha : allTxn q t = true) :
    printTransactionP p2 w (mapTxn f t) = printTransactionP p1 w t := by
  simp only [printTransactionP, mapTxn, printTxnHeader]
  congr 1
  rw [List.flatMap_map]
  exact flatMap_congr' _ _ _ (fun p hp => printPostingP_map p1 p2 f q h w p (List.all_eq_true.mp ha p hp))
end

/-! ## the numbers: as padded by the printer, as returned by the scanner -/

/-- the tree with the numbers as the printer pads them (`display.rs::rescale`) -/
def rescaleTxn (prec : String → Nat) (t : Transaction) : Transaction := mapTxn (Literal.displayRescale prec) t

theorem displayRescale_noPrec (d : PDec) (c : String) : Literal.displayRescale noPrec d c = d := by
  simp [Literal.displayRescale, noPrec, Literal.rescale]

theorem allTxn_true (t : Transaction) : allTxn (fun _ _ => true) t = true := by
  have hE : (∀ e : Expr, allE (fun _ _ => true) e = true) ∧ (∀ v : VExpr, allV (fun _ _ => true) v = true) := by
    have : ∀ n, (∀ e : Expr, sizeOf e ≤ n → allE (fun _ _ => true) e = true) ∧
        (∀ v : VExpr, sizeOf v ≤ n → allV (fun _ _ => true) v = true) := by
      intro n
      induction n with
      | zero =>
        constructor
        · intro e he; cases e <;> simp at he <;> omega
        · intro v hv; cases v <;> simp at hv <;> omega
      | succ n ih =>
        constructor
        · intro e he
          cases e with
          | neg e => simp at he; simp only [allE]; exact ih.1 e (by omega)
          | bin op l r => simp at he; simp only [allE, ih.1 l (by omega), ih.1 r (by omega), Bool.and_self]
          | val v => simp at he; simp only [allE]; exact ih.2 v (by omega)
        · intro v hv
          cases v with
          | paren e => simp at hv; simp only [allV]; exact ih.1 e (by omega)
          | amt d c => simp only [allV]
    exact ⟨fun e => (this _).1 e (Nat.le_refl _), fun v => (this _).2 v (Nat.le_refl _)⟩
  have hX : ∀ x, allExchange (fun _ _ => true) x = true := by
    intro x
    cases x with
    | none => rfl
    | some x => cases x <;> simp only [allExchange, hE.2]
  apply List.all_eq_true.mpr
  intro p _
  obtain ⟨account, clear, amount, balance, metadata⟩ := p
  cases amount <;> cases balance <;> simp [allPosting, hE.2, hX]

/-- **the printer with precisions prints the padded tree**: for EVERY transaction, any precision table and any width
function, the text `display.rs` writes with the context's precisions is the text it writes without precisions for
the tree whose numbers are `rescale`d. -/
theorem printTransactionP_rescale (prec : String → Nat) (w : List Char → Nat) (t : Transaction) :
    printTransactionP prec w t = printTransaction w (rescaleTxn prec t) := by
  rw [← printTransactionP_noPrec, rescaleTxn]
  exact (printTransactionP_map prec noPrec _ (fun _ _ => true)
    (fun d c _ => by rw [displayRescale_noPrec]) w t (allTxn_true t)).symm

/-- the number the literal scanner returns for the printed `d` (`C07_print_exact`) -/
def readNum (d : PDec) : PDec := ⟨d.neg && d.mant != 0, d.mant, d.scale, C07.printedFmt d⟩

/-- the number read back from what the printer writes for `d` next to commodity `c` under the precisions `prec` -/
def readbackNum (prec : String → Nat) (d : PDec) (c : String) : PDec := readNum (Literal.displayRescale prec d c)

/-- the transaction as it is read back from the text printed under the precisions `prec` -/
def readbackTxn (prec : String → Nat) (t : Transaction) : Transaction := mapTxn (readbackNum prec) t

/-- a number without format tag that is not a signed zero -/
def plainNum (d : PDec) : Bool := d.fmt.isNone && !(d.neg && d.mant == 0)

theorem mulLoop_props (diff : Nat) : ∀ m : Nat, m ≤ Literal.maxMant →
    (Literal.mulLoop m diff).1 ≤ Literal.maxMant ∧ (Literal.mulLoop m diff).2 ≤ diff ∧
    (m ≠ 0 → (Literal.mulLoop m diff).1 ≠ 0) := by
  induction diff with
  | zero => intro m hm; simp [Literal.mulLoop, hm]
  | succ n ih =>
    intro m hm
    simp only [Literal.mulLoop]
    by_cases h : m * 10 > Literal.maxMant
    · simp [h, hm]
    · simp only [h, if_false]
      obtain ⟨h1, h2, h3⟩ := ih (m * 10) (by omega)
      exact ⟨h1, by omega, fun hne => h3 (by omega)⟩

/-- `display.rs::rescale` keeps the sign flag and the format tag, stays inside rust_decimal's range when the
precision does, and maps zero to zero only -/
theorem displayRescale_props (prec : String → Nat) (d : PDec) (c : String) (hm : d.mant < 2 ^ 96) (hs : d.scale ≤ 28)
    (hp : prec c ≤ 28) :
    (Literal.displayRescale prec d c).neg = d.neg ∧ (Literal.displayRescale prec d c).fmt = d.fmt ∧
    (Literal.displayRescale prec d c).mant < 2 ^ 96 ∧ (Literal.displayRescale prec d c).scale ≤ 28 ∧
    ((Literal.displayRescale prec d c).mant = 0 ↔ d.mant = 0) := by
  simp only [Literal.displayRescale, Literal.rescale]
  by_cases h1 : d.scale = max d.scale (prec c)
  · rw [if_pos h1]
    exact ⟨rfl, rfl, hm, hs, Iff.rfl⟩
  · simp only [h1, if_false]
    by_cases h2 : d.mant = 0
    · simp only [h2, if_true]
      refine ⟨trivial, trivial, by omega, ?_, by simp [h2]⟩
      simp only [Literal.maxScale]; omega
    · simp only [h2, if_false]
      have h3 : ¬ d.scale > max d.scale (prec c) := by omega
      simp only [h3, if_false]
      obtain ⟨g1, g2, g3⟩ := mulLoop_props (max d.scale (prec c) - d.scale) d.mant (by simp only [Literal.maxMant]; omega)
      refine ⟨trivial, trivial, ?_, ?_, ?_⟩
      · simp only [Literal.maxMant] at g1; omega
      · show max d.scale (prec c) - _ ≤ 28
        omega
      · constructor <;> intro h0 <;> first | exact absurd h0 (g3 h2) | exact absurd h0 h2 | exact h0.elim

theorem printPDec_readNum (d : PDec) (h : plainNum d = true) : Literal.printPDec (readNum d) = Literal.printPDec d := by
  obtain ⟨neg, mant, scale, fmt⟩ := d
  simp only [plainNum, Bool.and_eq_true, Option.isNone_iff_eq_none, Bool.not_eq_true', Bool.and_eq_false_iff,
    beq_eq_false_iff_ne] at h
  obtain ⟨rfl, h2⟩ := h
  have hneg : (neg && mant != 0) = neg := by
    cases neg with
    | false => rfl
    | true => rcases h2 with h2 | h2
              · cases h2
              · simp [h2]
  simp only [readNum, hneg, C07.printedFmt]
  split <;> simp [Literal.printPDec, Literal.printPlain]

/-- **a printed number is a readable number**: for a number in range without tag and sign-on-zero, the scanner reads
its printed text as `readNum d`, and `readNum d` prints and reads as itself (`wfNumber`) -/
theorem wfNumber_readNum (d : PDec) (h : plainNum d = true) (hm : d.mant < 2 ^ 96) (hs : d.scale ≤ 28) :
    wfNumber (readNum d) = true := by
  unfold wfNumber
  rw [printPDec_readNum d h, C07.C07_print_exact d hm hs]
  simp [readNum]

theorem plainNum_rescale (prec : String → Nat) (d : PDec) (c : String) (h : plainNum d = true) (hm : d.mant < 2 ^ 96)
    (hs : d.scale ≤ 28) (hp : prec c ≤ 28) : plainNum (Literal.displayRescale prec d c) = true := by
  obtain ⟨g1, g2, _, _, g5⟩ := displayRescale_props prec d c hm hs hp
  simp only [plainNum, g1, g2, Bool.and_eq_true, Option.isNone_iff_eq_none, Bool.not_eq_true', Bool.and_eq_false_iff,
    beq_eq_false_iff_ne] at h ⊢
  refine ⟨h.1, ?_⟩
  rcases h.2 with h2 | h2
  · exact Or.inl h2
  · exact Or.inr (fun h0 => h2 (g5.mp h0))

theorem wfNumber_readbackNum (prec : String → Nat) (d : PDec) (c : String) (h : plainNum d = true) (hm : d.mant < 2 ^ 96)
    (hs : d.scale ≤ 28) (hp : prec c ≤ 28) : wfNumber (readbackNum prec d c) = true := by
  obtain ⟨_, _, g3, g4, _⟩ := displayRescale_props prec d c hm hs hp
  exact wfNumber_readNum _ (plainNum_rescale prec d c h hm hs hp) g3 g4

/-- what the scanner returns has the value, the mantissa and the scale that were printed -/
theorem readNum_toRat (x : PDec) : (readNum x).toRat = x.toRat ∧ (readNum x).mant = x.mant ∧ (readNum x).scale = x.scale := by
  refine ⟨?_, rfl, rfl⟩
  obtain ⟨neg, mant, scale, fmt⟩ := x
  simp only [readNum, PDec.toRat]
  by_cases h0 : mant = 0
  · subst h0; simp [Rat.div_def]
  · simp [h0]

/-! ## the text classes of `Spec/Import.lean` are inside the classes the C05 round trip needs -/

theorem isRustWs_eq : isRustWs = isRustWhitespace := rfl
theorem isAsciiWs_eq : isAsciiWs = isAsciiWhitespace := rfl

theorem not_space_of_not_ws {c : Char} (h : isRustWs c = false) : isSpace c = false := by
  cases hs : isSpace c with
  | false => rfl
  | true =>
    simp only [isSpace, Bool.or_eq_true, beq_iff_eq] at hs
    rcases hs with rfl | rfl <;> revert h <;> decide

theorem trimmed_parts {s : List Char} (h : isTrimmed s = true) :
    notBlankStart s = true ∧ startTrimmed s = true ∧ endTrimmed s = true := by
  simp only [isTrimmed, Bool.and_eq_true] at h
  obtain ⟨h1, h2⟩ := h
  refine ⟨?_, ?_, ?_⟩
  · cases s with
    | nil => rfl
    | cons c t =>
      simp only [List.head?_cons, Bool.not_eq_true'] at h1
      simp only [notBlankStart, not_space_of_not_ws h1, Bool.not_false]
  · cases s with
    | nil => rfl
    | cons c t =>
      simp only [List.head?_cons, Bool.not_eq_true'] at h1
      simp only [startTrimmed, ← isRustWs_eq, h1, Bool.not_false]
  · simp only [endTrimmed, ← isRustWs_eq]
    exact h2

theorem cleanDate_wf {d : Date} (h : cleanDate d = true) : wfDate d = true := by
  simp only [cleanDate, wfDate, Bool.and_eq_true] at h ⊢
  exact ⟨⟨h.2, h.1.1⟩, h.1.2⟩

theorem noDoubleSpace_eq : ∀ s : List Char, noDoubleSpace s = noDoubleBlank s := by
  intro s
  fun_induction noDoubleSpace s <;> simp_all [noDoubleBlank]

theorem cleanAccount_wf {a : String} (h : cleanAccount a = true) :
    wfAccount a.toList = true ∧ notClearMarkStart a.toList = true := by
  simp only [cleanAccount, Bool.and_eq_true] at h
  obtain ⟨⟨⟨⟨h1, h2⟩, h3⟩, h4⟩, h5⟩ := h
  cases hs : a.toList with
  | nil => simp [hs] at h1
  | cons c t =>
    rw [hs] at h2 h3 h4 h5
    simp only [List.head?_cons, Bool.not_eq_true', Bool.or_eq_false_iff, beq_eq_false_iff_ne] at h4
    obtain ⟨⟨g1, g2⟩, g3⟩ := h4
    refine ⟨?_, ?_⟩
    · simp only [wfAccount, Bool.and_eq_true]
      refine ⟨⟨⟨⟨by simp, ?_⟩, ?_⟩, h5⟩, by rw [← noDoubleSpace_eq]; exact h3⟩
      · apply List.all_eq_true.mpr
        intro x hx
        have := List.all_eq_true.mp h2 x hx
        simpa [isLineBreak, Bool.or_assoc] using this
      · simp only [startTrimmed, ← isRustWs_eq, g1, Bool.not_false]
    · simp [notClearMarkStart, g2, g3]

theorem cleanCommodity_wf {c : String} (h : cleanCommodity c = true) : isCommodityText c.toList = true := h

theorem takeWhile_drop (p : Char → Bool) (l : List Char) : l.drop (l.takeWhile p).length = l.dropWhile p := by
  induction l with
  | nil => rfl
  | cons a t ih =>
    by_cases h : p a = true
    · simp [List.takeWhile, List.dropWhile, h, ih]
    · simp [List.takeWhile, List.dropWhile, h]

theorem looksLikeKeyValue_eq (s : List Char) : looksLikeKeyValue s = kvLike s := by
  have hp : (fun c => !(isAsciiWs c || c == ':')) = isTagChar := by
    funext c; simp [isTagChar, isAsciiWs_eq]
  have hq : (fun c : Char => c == ' ' || c == '\t') = isSpace := rfl
  simp only [looksLikeKeyValue, kvLike, hp, hq, takeWhile_drop]

theorem cleanComment_wf {s : String} (h : cleanComment s = true) : wfMetadata (.comment s) = true := by
  simp only [cleanComment, Bool.and_eq_true, Bool.not_eq_true'] at h
  obtain ⟨⟨⟨h1, h2⟩, h3⟩, h4⟩ := h
  simp only [wfMetadata, Bool.and_eq_true, Bool.not_eq_true']
  refine ⟨⟨⟨⟨?_, ?_⟩, ?_⟩, by rw [← looksLikeKeyValue_eq]; exact h4⟩, ?_⟩
  · apply List.all_eq_true.mpr
    intro x hx
    have := List.all_eq_true.mp h1 x hx
    simpa [isLineBreak, isEol, Bool.or_comm] using this
  · cases hs : s.toList with
    | nil => rfl
    | cons c t =>
      rw [hs] at h2
      simp only [List.head?_cons, Bool.not_eq_true', Bool.or_eq_false_iff] at h2
      simp only [notBlankStart, isSpace, h2.1.1, h2.1.2, Bool.or_self, Bool.not_false]
  · simp only [endTrimmed, ← isRustWs_eq]
    exact h3
  · cases hs : s.toList with
    | nil => rfl
    | cons c t =>
      rw [hs] at h2
      simp only [List.head?_cons, Bool.not_eq_true', Bool.or_eq_false_iff, beq_eq_false_iff_ne] at h2
      have hc : c ≠ ':' := h2.2
      unfold tagsLike
      split
      · rename_i r heq; cases heq; exact absurd rfl hc
      · rfl

theorem cleanTagValue_wf {v : String} (h : cleanTagValue v = true) : wfMetaText v.toList = true := by
  simp only [cleanTagValue, Bool.and_eq_true] at h
  obtain ⟨_, g2, g3⟩ := trimmed_parts h.2
  simp only [wfMetaText, g2, g3, Bool.and_true]
  apply List.all_eq_true.mpr
  intro x hx
  have := List.all_eq_true.mp h.1 x hx
  simpa [isLineBreak, isEol, Bool.or_comm] using this

theorem readableMetadata_wf {m : Metadata} (h : readableMetadata m = true) : wfMetadata m = true := by
  cases m with
  | comment s => exact cleanComment_wf (by simpa [readableMetadata] using h)
  | wordTags ts => simp [readableMetadata] at h
  | keyValue k v =>
    cases v with
    | expr e => simp [readableMetadata] at h
    | text t =>
      simp only [readableMetadata, Bool.and_eq_true, beq_iff_eq] at h
      obtain ⟨rfl, h2⟩ := h
      simp only [wfMetadata, wfMetaValue, cleanTagValue_wf h2, Bool.and_true]
      decide

theorem cleanPayee_wf (t : Transaction) (h : cleanPayee t.code.isSome t.payee = true)
    (hc : (t.clear != .uncleared || notClearMarkStart t.payee.toList) = true) : wfPayee t = true := by
  simp only [cleanPayee, Bool.and_eq_true] at h
  obtain ⟨⟨h1, h2⟩, h3⟩ := h
  obtain ⟨g1, _, g3⟩ := trimmed_parts h2
  simp only [wfPayee, g1, g3, Bool.and_true, Bool.and_eq_true]
  refine ⟨?_, ?_⟩
  · apply List.all_eq_true.mpr
    intro x hx
    have := List.all_eq_true.mp h1 x hx
    simpa [isLineBreak, Bool.or_assoc, Bool.or_comm] using this
  · cases hcode : t.code.isSome with
    | true => rfl
    | false =>
      rw [hcode] at h3
      simp only [Bool.false_or] at h3 ⊢
      simp only [hc, h3, Bool.and_self]

theorem cleanCode_wf {c : String} (h : cleanCode c = true) : wfCode c.toList = true := by
  apply List.all_eq_true.mpr
  intro x hx
  have := List.all_eq_true.mp h x hx
  simp only [isLineBreak, Bool.not_eq_true', Bool.or_eq_false_iff, beq_eq_false_iff_ne] at this
  simp [Parse.isParenStrStop, this.1, this.2.1, this.2.2]

/-! ## a readable tree is read back -/

/-- the condition on the numbers of a tree: no format tag, no signed zero -/
def plainNums (t : Transaction) : Bool := allTxn (fun d _ => plainNum d) t

section
variable (prec : String → Nat) (hprec : ∀ c, prec c ≤ 28)
include hprec

theorem readableVExpr_wf (v : VExpr) (hr : readableVExpr v = true) (hn : allV (fun d _ => plainNum d) v = true) :
    wfVExpr (mapV (readbackNum prec) v) = true ∧ ExprParse.plainV (mapV (readbackNum prec) v) = true := by
  cases v with
  | paren e => simp [readableVExpr] at hr
  | amt d c =>
    simp only [readableVExpr, readablePDec, Bool.and_eq_true, decide_eq_true_eq] at hr
    simp only [allV] at hn
    simp only [mapV, wfVExpr, ExprParse.plainV, wfNumber_readbackNum prec d c hn hr.1.1 hr.1.2 (hprec c),
      cleanCommodity_wf hr.2, Bool.and_self, and_self]

theorem readableExchange_wf (y : Exchange) (hr : readableExchange y = true)
    (hn : allExchange (fun d _ => plainNum d) (some y) = true) :
    wfExchange (mapExchange (readbackNum prec) y) = true ∧
    ∀ v ∈ exprsOfExchange (some (mapExchange (readbackNum prec) y)), PlainV v := by
  cases y with
  | total v =>
    simp only [readableExchange] at hr
    simp only [allExchange] at hn
    obtain ⟨g1, g2⟩ := readableVExpr_wf prec hprec v hr hn
    simp only [mapExchange, wfExchange, g1, exprsOfExchange, List.mem_singleton, true_and]
    intro v' hv'; subst hv'; exact g2
  | rate v =>
    simp only [readableExchange] at hr
    simp only [allExchange] at hn
    obtain ⟨g1, g2⟩ := readableVExpr_wf prec hprec v hr hn
    simp only [mapExchange, wfExchange, g1, exprsOfExchange, List.mem_singleton, true_and]
    intro v' hv'; subst hv'; exact g2

theorem readablePosting_wf (p : Posting) (hr : readablePosting p = true)
    (hn : allPosting (fun d _ => plainNum d) p = true) :
    wfPosting (mapPosting (readbackNum prec) p) = true ∧
    ∀ v ∈ exprsOfPosting (mapPosting (readbackNum prec) p), PlainV v := by
  obtain ⟨account, clear, amount, balance, metadata⟩ := p
  simp only [readablePosting, Bool.and_eq_true] at hr
  obtain ⟨⟨⟨r1, r2⟩, r3⟩, r4⟩ := hr
  simp only [allPosting, Bool.and_eq_true] at hn
  obtain ⟨n1, n2⟩ := hn
  obtain ⟨a1, a2⟩ := cleanAccount_wf r1
  have hmeta : metadata.all wfMetadata = true :=
    List.all_eq_true.mpr (fun m hm => readableMetadata_wf (List.all_eq_true.mp r4 m hm))
  cases amount with
  | none => simp at r2
  | some a =>
    obtain ⟨am, cost, lot⟩ := a
    obtain ⟨price, ldate, lnote⟩ := lot
    simp only [readablePostingAmount, Bool.and_eq_true, Option.isNone_iff_eq_none] at r2
    obtain ⟨⟨⟨⟨q1, q2⟩, q3⟩, q4⟩, q5⟩ := r2
    subst q3 q4 q5
    simp only [Bool.and_eq_true] at n1
    obtain ⟨⟨m1, _⟩, m3⟩ := n1
    obtain ⟨g1, g2⟩ := readableVExpr_wf prec hprec am q1 m1
    have hcost : (match cost.map (mapExchange (readbackNum prec)) with | some y => wfExchange y | none => true) = true ∧
        ∀ v ∈ exprsOfExchange (cost.map (mapExchange (readbackNum prec))), PlainV v := by
      cases cost with
      | none => simp [exprsOfExchange]
      | some y =>
        simp only [readableCost] at q2
        obtain ⟨c1, c2⟩ := readableExchange_wf prec hprec y q2 m3
        exact ⟨by simpa using c1, by simpa using c2⟩
    have hbal : (match balance.map (mapV (readbackNum prec)) with | some b => wfVExpr b | none => true) = true ∧
        ∀ v, balance.map (mapV (readbackNum prec)) = some v → PlainV v := by
      cases balance with
      | none => simp
      | some b =>
        simp only [readableBalance] at r3
        obtain ⟨b1, b2⟩ := readableVExpr_wf prec hprec b r3 n2
        simp only [Option.map_some, b1, Option.some.injEq, true_and]
        intro v hv; subst hv; exact b2
    refine ⟨?_, ?_⟩
    · have e1 := hcost.1
      have e2 := hbal.1
      cases hc : cost.map (mapExchange (readbackNum prec)) <;> cases hb : balance.map (mapV (readbackNum prec)) <;>
        rw [hc] at e1 <;> rw [hb] at e2 <;>
        simp only [wfPosting, mapPosting, Option.map_some, mapPostingAmount, mapLot, Option.map_none, wfPostingAmount,
          wfLot, a1, a2, g1, hmeta, Bool.or_true, Bool.and_self, hc, hb] <;>
        simp_all
    · intro v hv
      simp only [exprsOfPosting, mapPosting, Option.map_some, mapPostingAmount, mapLot, Option.map_none,
        exprsOfExchange, List.nil_append, List.mem_append, List.mem_cons] at hv
      rcases hv with (rfl | hv) | hv
      · exact g2
      · exact hcost.2 v hv
      · cases hb : balance.map (mapV (readbackNum prec)) with
        | none => rw [hb] at hv; simp at hv
        | some b => rw [hb] at hv; simp at hv; subst hv; exact hbal.2 _ hb

/-- **a readable tree becomes a well-formed, plain entry**: every transaction inside `ReadableTree` whose numbers carry
no format tag and no signed zero, whose header is not ambiguous about the clear mark, under precisions within
rust_decimal's scale range -/
theorem readableTree_wf (t : Transaction) (hr : ReadableTree t = true) (hn : plainNums t = true)
    (hc : (t.clear != .uncleared || notClearMarkStart t.payee.toList) = true) :
    wfEntry (.txn (readbackTxn prec t)) = true ∧ C05.plainEntry (.txn (readbackTxn prec t)) = true := by
  simp only [ReadableTree, Bool.and_eq_true] at hr
  obtain ⟨⟨⟨⟨⟨r1, r2⟩, r3⟩, r4⟩, r5⟩, r6⟩ := hr
  have hposts : ∀ p ∈ t.posts, wfPosting (mapPosting (readbackNum prec) p) = true ∧
      ∀ v ∈ exprsOfPosting (mapPosting (readbackNum prec) p), PlainV v := fun p hp =>
    readablePosting_wf prec hprec p (List.all_eq_true.mp r6 p hp) (List.all_eq_true.mp hn p hp)
  refine ⟨?_, ?_⟩
  · simp only [wfEntry, wfTransaction, readbackTxn, mapTxn, Bool.and_eq_true]
    refine ⟨⟨⟨⟨⟨cleanDate_wf r1, ?_⟩, ?_⟩, ?_⟩, ?_⟩, ?_⟩
    · cases he : t.effectiveDate with
      | none => rfl
      | some d => rw [he] at r2; exact cleanDate_wf r2
    · cases hcd : t.code with
      | none => rfl
      | some c => rw [hcd] at r4; exact cleanCode_wf r4
    · exact cleanPayee_wf _ r3 hc
    · exact List.all_eq_true.mpr (fun m hm => readableMetadata_wf (List.all_eq_true.mp r5 m hm))
    · rw [List.all_map]
      exact List.all_eq_true.mpr (fun p hp => (hposts p hp).1)
  · apply List.all_eq_true.mpr
    intro v hv
    simp only [exprsOfEntry, exprsOfTransaction, readbackTxn, mapTxn, List.mem_flatMap, List.mem_map] at hv
    obtain ⟨p', ⟨p, hp, rfl⟩, hv⟩ := hv
    exact (hposts p hp).2 v hv

omit hprec in
theorem readable_allPosting (p : Posting) (hr : readablePosting p = true)
    (hn : allPosting (fun d _ => plainNum d) p = true) :
    allPosting (fun d _ => plainNum d && decide (d.mant < 2 ^ 96) && decide (d.scale ≤ 28)) p = true := by
  have hV : ∀ v, readableVExpr v = true → allV (fun d _ => plainNum d) v = true →
      allV (fun d _ => plainNum d && decide (d.mant < 2 ^ 96) && decide (d.scale ≤ 28)) v = true := by
    intro v h1 h2
    cases v with
    | paren e => simp [readableVExpr] at h1
    | amt d c =>
      simp only [readableVExpr, readablePDec, Bool.and_eq_true] at h1
      simp only [allV] at h2 ⊢
      simp only [h2, h1.1.1, h1.1.2, Bool.and_self]
  have hX : ∀ x, readableCost x = true → allExchange (fun d _ => plainNum d) x = true →
      allExchange (fun d _ => plainNum d && decide (d.mant < 2 ^ 96) && decide (d.scale ≤ 28)) x = true := by
    intro x h1 h2
    cases x with
    | none => rfl
    | some y =>
      cases y with
      | total v => exact hV v h1 h2
      | rate v => exact hV v h1 h2
  obtain ⟨account, clear, amount, balance, metadata⟩ := p
  simp only [readablePosting, Bool.and_eq_true] at hr
  obtain ⟨⟨⟨r1, r2⟩, r3⟩, r4⟩ := hr
  simp only [allPosting, Bool.and_eq_true] at hn ⊢
  obtain ⟨n1, n2⟩ := hn
  refine ⟨?_, ?_⟩
  · cases amount with
    | none => rfl
    | some a =>
      simp only [readablePostingAmount, Bool.and_eq_true, Option.isNone_iff_eq_none] at r2
      obtain ⟨⟨⟨⟨q1, q2⟩, q3⟩, q4⟩, q5⟩ := r2
      simp only [Bool.and_eq_true] at n1 ⊢
      obtain ⟨⟨m1, m2⟩, m3⟩ := n1
      refine ⟨⟨hV _ q1 m1, ?_⟩, hX _ q2 m3⟩
      rw [q3]; rfl
  · cases balance with
    | none => rfl
    | some b => exact hV b r3 n2

/-- the numbers of a readable tree print, after padding, the way the numbers read back print -/
theorem readback_print (w : List Char → Nat) (t : Transaction) (hr : ReadableTree t = true) (hn : plainNums t = true) :
    printTransaction w (readbackTxn prec t) = printTransactionP prec w t := by
  rw [← printTransactionP_noPrec, readbackTxn]
  have hq : allTxn (fun d c => plainNum d && decide (d.mant < 2 ^ 96) && decide (d.scale ≤ 28)) t = true := by
    exact List.all_eq_true.mpr (fun p hp => readable_allPosting p
      (List.all_eq_true.mp (by simp only [ReadableTree, Bool.and_eq_true] at hr; exact hr.2) p hp)
      (List.all_eq_true.mp hn p hp))
  refine printTransactionP_map prec noPrec (readbackNum prec) _ ?_ w t hq
  intro d c hq
  simp only [Bool.and_eq_true, decide_eq_true_eq] at hq
  rw [displayRescale_noPrec, readbackNum,
    printPDec_readNum _ (plainNum_rescale prec d c hq.1.1 hq.1.2 hq.2 (hprec c))]

/-- **read-back of one printed transaction** (tree level).  For every transaction inside `ReadableTree` whose numbers
carry no format tag and no signed zero, printed by `display.rs` under precisions `prec ≤ 28` with any width function:
the text starts an entry, and the entry parser, whatever follows the blank line, consumes exactly the printed text and
returns `readbackTxn prec t` — the same transaction with every number padded as printed (`displayRescale`) and tagged
as the scanner tags it (`readNum`). -/
theorem readback_tree (w : List Char → Nat) (t : Transaction) (hr : ReadableTree t = true) (hn : plainNums t = true)
    (hc : (t.clear != .uncleared || notClearMarkStart t.payee.toList) = true) :
    StartsEntry (printTransactionP prec w t) ∧
    ∀ rest, parseLedgerEntry (printTransactionP prec w t ++ '\n' :: rest) =
      .ok (.txn (readbackTxn prec t)) ('\n' :: rest) := by
  obtain ⟨h1, h2⟩ := readableTree_wf prec hprec t hr hn hc
  have h3 := C05.C05_entry w _ h1 h2
  have h4 := readback_print prec hprec w t hr hn
  simp only [EntryRT, printEntry, h4] at h3
  exact h3

/-- **read-back of the whole output**: the ledger parser reads what `ImportCmd::run` writes for a list of such
transactions as exactly one transaction entry per transaction, in order, and nothing else. -/
theorem readback_ledger (w : List Char → Nat) (trs : List Transaction)
    (h : ∀ t ∈ trs, ReadableTree t = true ∧ plainNums t = true ∧
      (t.clear != .uncleared || notClearMarkStart t.payee.toList) = true) :
    parseEntries (importText prec w trs) = .ok (trs.map fun t => Entry.txn (readbackTxn prec t)) := by
  have he : importText prec w trs = formatEntries w (trs.map fun t => Entry.txn (readbackTxn prec t)) := by
    simp only [importText, formatEntries, List.flatMap_map]
    exact flatMap_congr' _ _ _ (fun t ht => by
      simp only [printEntry, readback_print prec hprec w t (h t ht).1 (h t ht).2.1])
  rw [he]
  apply C05.C05_format_parse
  intro e he'
  simp only [List.mem_map] at he'
  obtain ⟨t, ht, rfl⟩ := he'
  obtain ⟨h1, h2⟩ := readableTree_wf prec hprec t (h t ht).1 (h t ht).2.1 (h t ht).2.2
  exact C05.C05_entry w _ h1 h2
end

/-- the two models of the loop of `ImportCmd::run` (`Spec/Import.lean`, `Model/ImportLedger.lean`) are the same function -/
theorem ledgerOf_eq (src : String) (ts : List Txn) : ledgerOf src ts = toDoubleEntries src ts := by
  induction ts with
  | nil => rfl
  | cons t rest ih =>
    simp only [ledgerOf, toDoubleEntries, ih]
    cases t.toDoubleEntry src <;> simp only []
    cases toDoubleEntries src rest <;> rfl

end Okane.Import
