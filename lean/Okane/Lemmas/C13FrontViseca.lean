import Okane.Lemmas.C13FormatImport
import Okane.Lemmas.ImportReadback
import Okane.Lemmas.ImportVisecaLoop
import Okane.Lemmas.C13Perm
/-!
# C13 for `okane import` of a Viseca statement, as a whole command: statement TEXT → printed ledger

`visecaCmd env cfg w text`: `viseca::import` (`Model/ImportViseca.lean`: compile the rewrite rules, cut the text into lines, the
`while let Some(entry) = parser.parse_entry()?` loop, `extractor.extract(&entry)`, the conversion of every record) followed by the
loop of `ImportCmd::run` (`xact.to_double_entry(&config_entry.account)?; writeln!(w, "{}", ctx.as_display(&xact))` with the
precisions of `format.commodity`): what is written to standard output, and how the command ends.

Three hash maps are read on the way:

* `FieldMatcher.fields` of every AND-element, **in iteration order**, twice: by `Extractor::try_from` (compiling: the first field
  that does not compile is the error reported — F32) and by `MatchAndExpr::extract` (matching: F14).  Orders = `RulesPerm`
  (`Lemmas/C13FormatImport.lean`): the same rule list, every field map in some other iteration order.
* `format.commodity`, copied into the display context and only looked up (`precOf`): `visecaCmd_commodity_order`.

Theorems:

* `checkRules_isOk_perm` — whether the rules compile does not depend on the order; `checkRules_perm` — nor does the error, when the
  faulty fields of every element agree on their error (`FaultsAgree`, e.g. at most one faulty field: `faultsAgree_of_le_one`);
* `visecaImport_field_order`, `visecaCmd_field_order` (**C13_import_viseca**) — the transactions / the printed ledger and the ending
  are the same for `RulesPerm`-related rule lists, provided every element has at most one interacting field on every record of the
  statement (`recordsRead`: exactly the hypothesis of `C13_import_partial` / `C17_and_order_partial`, on the records the parser
  model cuts out of the text) and the faulty fields of every element agree (vacuous when the rules compile);
* `viseca_oneInteracting_static` — a static sufficient condition: no element holds both `payee` and `category`;
* `visecaCmd_full_false` (**C13_import_viseca_false**) — the unconditional statement is false: a statement text and a rule whose two
  layouts print different ledgers (F14);
* `visecaCmd_error_false` — nor is the error of a configuration with two different faults in one element order-independent (F32).
-/
set_option linter.unusedSectionVars false
set_option linter.unusedSimpArgs false
namespace Okane.C13FV
open Okane Okane.Import Okane.Import.Viseca Okane.C13FI

/-! ## `Extractor::try_from`: compiling the rules -/

/-- the check of one field of an AND-element (`checkField` inside `Import.checkRules`) -/
def fieldCheck (kind : ImporterKind) (validPattern : String → Bool) (validCode : Field → String → Bool)
    (fp : Field × String) : Outcome ImportErr Unit :=
  let (f, pat) := fp
  match kind with
  | .camt =>
    if f == .domainCode || f == .domainFamily || f == .domainSubFamily then
      (if validCode f pat then .ok () else .err .yaml)
    else if !validPattern pat then .err .invalidRegex
    else if !kind.supports f then .err (.other "unknown-match-field")
    else .ok ()
  | _ =>
    if !kind.supports f then .err (.invalidConfig "unsupported-rewrite-field")
    else if !validPattern pat then .err .invalidRegex
    else .ok ()

/-- the check of one AND-element (`checkAnd` inside `Import.checkRules`): its fields in iteration order, then non-emptiness -/
def andCheck (kind : ImporterKind) (validPattern : String → Bool) (validCode : Field → String → Bool)
    (m : FieldMatcher) : Outcome ImportErr Unit := do
  m.fields.forM (fieldCheck kind validPattern validCode)
  if m.fields.isEmpty then .err (.invalidConfig "empty-field-matcher") else .ok ()

theorem checkRules_eq (kind : ImporterKind) (vp : String → Bool) (vc : Field → String → Bool) (rules : List Rule) :
    checkRules kind vp vc rules = rules.forM fun rule => rule.matcher.elements.forM (andCheck kind vp vc) := rfl

section ForM
variable {α : Type} (f : α → Outcome ImportErr Unit)

theorem forM_ok_iff : ∀ l : List α, l.forM f = .ok () ↔ ∀ x ∈ l, f x = .ok () := by
  intro l
  induction l with
  | nil => simp [List.forM, pure]
  | cons a as ih =>
    rw [forM_cons']
    cases ha : f a with
    | ok u => rw [Outcome.bind_ok, ih, List.forall_mem_cons]; simp [ha]
    | err e => simp [ha]
    | panic s => simp [ha]
    | fuelOut => simp [ha]

/-- all the failing elements of the list fail the same way -/
def FailAgree (l : List α) : Prop := ∀ x ∈ l, ∀ y ∈ l, f x ≠ .ok () → f y ≠ .ok () → f x = f y

/-- then the loop returns that failure, whichever failing element comes first -/
theorem forM_eq_fail : ∀ l : List α, FailAgree f l → ∀ x ∈ l, f x ≠ .ok () → l.forM f = f x := by
  intro l
  induction l with
  | nil => intro _ x hx; simp at hx
  | cons a as ih =>
    intro hag x hx hne
    rw [forM_cons']
    by_cases ha : f a = .ok ()
    · have hxa : x ∈ as := by
        rcases List.mem_cons.1 hx with rfl | h
        · exact absurd ha hne
        · exact h
      simp only [ha, Outcome.bind_ok]
      exact ih (fun p hp q hq => hag p (List.mem_cons_of_mem _ hp) q (List.mem_cons_of_mem _ hq)) x hxa hne
    · have := hag a (by simp) x hx ha hne
      rw [← this]
      cases hfa : f a with
      | ok u => exact absurd hfa ha
      | err e => rfl
      | panic s => rfl
      | fuelOut => rfl

theorem forM_perm {l l' : List α} (h : l.Perm l') (hag : FailAgree f l) : l.forM f = l'.forM f := by
  by_cases hall : ∀ x ∈ l, f x = .ok ()
  · rw [(forM_ok_iff f l).2 hall, (forM_ok_iff f l').2 (fun x hx => hall x (h.symm.subset hx))]
  · have ⟨x, hx⟩ : ∃ x, x ∈ l ∧ f x ≠ .ok () := by
      apply Classical.byContradiction
      intro hn
      apply hall
      intro x hx
      apply Classical.byContradiction
      intro hne
      exact hn ⟨x, hx, hne⟩
    have hag' : FailAgree f l' := fun p hp q hq => hag p (h.symm.subset hp) q (h.symm.subset hq)
    rw [forM_eq_fail f l hag x hx.1 hx.2, forM_eq_fail f l' hag' x (h.subset hx.1) hx.2]

theorem forM_isOk_perm {l l' : List α} (h : l.Perm l') : l.forM f = .ok () ↔ l'.forM f = .ok () := by
  rw [forM_ok_iff, forM_ok_iff]
  exact ⟨fun hl x hx => hl x (h.symm.subset hx), fun hl x hx => hl x (h.subset hx)⟩

end ForM

/-- two lists related element by element whose elements are checked alike are checked alike -/
theorem forM_pointwise {α : Type} {R : α → α → Prop} (f : α → Outcome ImportErr Unit) {l l' : List α}
    (h : Pointwise R l l') (hf : ∀ a ∈ l, ∀ b, R a b → f a = f b) : l.forM f = l'.forM f := by
  induction h with
  | nil => rfl
  | @cons a b l l' hab _ ih =>
    rw [forM_cons', forM_cons', hf a (by simp) b hab, ih (fun x hx y hxy => hf x (List.mem_cons_of_mem _ hx) y hxy)]

section Compile
variable (kind : ImporterKind) (vp : String → Bool) (vc : Field → String → Bool)

/-- the faulty fields of the element all report the same error (in particular: at most one field is faulty) -/
def FaultsAgree (m : FieldMatcher) : Prop := FailAgree (fieldCheck kind vp vc) m.fields

/-- … for every element of every rule.  Vacuous when the rules compile. -/
def RulesFaultsAgree (rules : List Rule) : Prop := ∀ rule ∈ rules, ∀ m ∈ rule.matcher.elements, FaultsAgree kind vp vc m

theorem andCheck_perm {m m' : FieldMatcher} (h : ElemPerm m m') (hag : FaultsAgree kind vp vc m) :
    andCheck kind vp vc m = andCheck kind vp vc m' := by
  have he : m.fields.isEmpty = m'.fields.isEmpty := by
    have := h.length_eq
    cases hm : m.fields <;> cases hm' : m'.fields <;> simp_all [ElemPerm]
  simp only [andCheck, forM_perm _ h hag, he]

theorem andCheck_isOk_perm {m m' : FieldMatcher} (h : ElemPerm m m') :
    andCheck kind vp vc m = .ok () ↔ andCheck kind vp vc m' = .ok () := by
  have he : m.fields.isEmpty = m'.fields.isEmpty := by
    have := h.length_eq
    cases hm : m.fields <;> cases hm' : m'.fields <;> simp_all [ElemPerm]
  have hf := forM_isOk_perm (fieldCheck kind vp vc) h
  simp only [andCheck, he]
  cases h1 : m.fields.forM (fieldCheck kind vp vc) with
  | ok u =>
    have := hf.1 h1
    simp [this]
  | err e =>
    have : m'.fields.forM (fieldCheck kind vp vc) ≠ .ok () := fun hc => by rw [hf.2 hc] at h1; cases h1
    cases h2 : m'.fields.forM (fieldCheck kind vp vc) <;> simp_all
  | panic s =>
    have : m'.fields.forM (fieldCheck kind vp vc) ≠ .ok () := fun hc => by rw [hf.2 hc] at h1; cases h1
    cases h2 : m'.fields.forM (fieldCheck kind vp vc) <;> simp_all
  | fuelOut =>
    have : m'.fields.forM (fieldCheck kind vp vc) ≠ .ok () := fun hc => by rw [hf.2 hc] at h1; cases h1
    cases h2 : m'.fields.forM (fieldCheck kind vp vc) <;> simp_all

/-- **compiling the rules (`Extractor::try_from`) does not depend on the iteration order of the field maps** when the faulty
fields of every element agree on their error. -/
theorem checkRules_perm {rules rules' : List Rule} (h : RulesPerm rules rules') (hag : RulesFaultsAgree kind vp vc rules) :
    checkRules kind vp vc rules = checkRules kind vp vc rules' := by
  rw [checkRules_eq, checkRules_eq]
  refine forM_pointwise _ h (fun a ha b hab => ?_)
  exact forM_pointwise _ hab.elements (fun m hm m' hmm' => andCheck_perm kind vp vc hmm' (hag a ha m hm))

theorem pointwise_mem_left {α : Type} {R : α → α → Prop} {l l' : List α} (h : Pointwise R l l') :
    ∀ b ∈ l', ∃ a ∈ l, R a b := by
  induction h with
  | nil => intro b hb; simp at hb
  | @cons a b l l' hab _ ih =>
    intro x hx
    rcases List.mem_cons.1 hx with rfl | hx
    · exact ⟨a, by simp, hab⟩
    · obtain ⟨y, hy, hr⟩ := ih x hx
      exact ⟨y, List.mem_cons_of_mem _ hy, hr⟩

theorem pointwise_mem_right {α : Type} {R : α → α → Prop} {l l' : List α} (h : Pointwise R l l') :
    ∀ a ∈ l, ∃ b ∈ l', R a b := by
  induction h with
  | nil => intro b hb; simp at hb
  | @cons a b l l' hab _ ih =>
    intro x hx
    rcases List.mem_cons.1 hx with rfl | hx
    · exact ⟨b, by simp, hab⟩
    · obtain ⟨y, hy, hr⟩ := ih x hx
      exact ⟨y, List.mem_cons_of_mem _ hy, hr⟩

/-- **whether the rules compile does not depend on the iteration order** (unconditionally): a configuration is rejected in every
process or in none — only *which* error is reported may differ (F32). -/
theorem checkRules_isOk_perm {rules rules' : List Rule} (h : RulesPerm rules rules') :
    checkRules kind vp vc rules = .ok () ↔ checkRules kind vp vc rules' = .ok () := by
  rw [checkRules_eq, checkRules_eq, forM_ok_iff, forM_ok_iff]
  constructor
  · intro hl b hb
    obtain ⟨a, ha, hab⟩ := pointwise_mem_left h b hb
    have h1 := hl a ha
    rw [forM_ok_iff] at h1 ⊢
    intro m' hm'
    obtain ⟨m, hm, hmm'⟩ := pointwise_mem_left hab.elements m' hm'
    exact (andCheck_isOk_perm kind vp vc hmm').1 (h1 m hm)
  · intro hl a ha
    obtain ⟨b, hb, hab⟩ := pointwise_mem_right h a ha
    have h1 := hl b hb
    rw [forM_ok_iff] at h1 ⊢
    intro m hm
    obtain ⟨m', hm', hmm'⟩ := pointwise_mem_right hab.elements m hm
    exact (andCheck_isOk_perm kind vp vc hmm').2 (h1 m' hm')

/-- rules that compile have no faulty field at all -/
theorem rulesFaultsAgree_of_ok {rules : List Rule} (h : checkRules kind vp vc rules = .ok ()) :
    RulesFaultsAgree kind vp vc rules := by
  rw [checkRules_eq, forM_ok_iff] at h
  intro rule hr m hm x hx y _ hne _
  have h1 := h rule hr
  rw [forM_ok_iff] at h1
  have h2 := h1 m hm
  simp only [andCheck] at h2
  cases h3 : m.fields.forM (fieldCheck kind vp vc) with
  | ok u => exact absurd ((forM_ok_iff _ _).1 h3 x hx) hne
  | err e => rw [h3] at h2; simp at h2
  | panic s => rw [h3] at h2; simp at h2
  | fuelOut => rw [h3] at h2; simp at h2

/-- at most one faulty field in the element -/
theorem faultsAgree_of_le_one {m : FieldMatcher}
    (h : (m.fields.filter fun fp => decide (fieldCheck kind vp vc fp ≠ .ok ())).length ≤ 1) : FaultsAgree kind vp vc m := by
  intro x hx y hy hnx hny
  have hx' : x ∈ m.fields.filter fun fp => decide (fieldCheck kind vp vc fp ≠ .ok ()) := by
    simp [List.mem_filter, hx, hnx]
  have hy' : y ∈ m.fields.filter fun fp => decide (fieldCheck kind vp vc fp ≠ .ok ()) := by
    simp [List.mem_filter, hy, hny]
  match hl : m.fields.filter fun fp => decide (fieldCheck kind vp vc fp ≠ .ok ()), h with
  | [], _ => rw [hl] at hx'; simp at hx'
  | [z], _ =>
    rw [hl] at hx' hy'
    simp only [List.mem_singleton] at hx' hy'
    rw [hx', hy']
  | _ :: _ :: _, h => simp at h

end Compile

/-! ## the loop of `viseca::import` -/

/-- the records `parse_entry` cuts out of the statement, one after the other, until the end of the file or its first error
(a function of the lines and the card's currency alone) -/
def recordsRead (primary : String) : Nat → Reader → List Viseca.Entry
  | 0, _ => []
  | fuel + 1, r =>
    match parseEntry primary r with
    | .ok (some e, r') => e :: recordsRead primary fuel r'
    | _ => []

/-- the records of a statement text -/
def recordsOf (primary : String) (text : List Char) : List Viseca.Entry :=
  recordsRead primary ((linesOf text).length + 1) ⟨linesOf text, 0⟩

section Loop
variable (env : VisecaEnv) (cfg : ConfigEntry) {rules' : List Rule}

theorem entryToTxn_field_order (h : RulesPerm cfg.rewrite rules') (e : Viseca.Entry)
    (h1 : RulesOneInteracting env.cap (visecaRecord e) cfg.rewrite) :
    entryToTxn env { cfg with rewrite := rules' } e = entryToTxn env cfg e := by
  have hf : entryFragment env { cfg with rewrite := rules' } e = entryFragment env cfg e := by
    simp only [entryFragment]
    exact (extract_field_order env.cap _ h h1).symm
  simp only [entryToTxn, Viseca.baseTxn, hf, withFee]

theorem importLoop_field_order (h : RulesPerm cfg.rewrite rules') : ∀ (fuel : Nat) (r : Reader),
    (∀ e ∈ recordsRead cfg.commodity.primary fuel r, RulesOneInteracting env.cap (visecaRecord e) cfg.rewrite) →
    importLoop env { cfg with rewrite := rules' } fuel r = importLoop env cfg fuel r := by
  intro fuel
  induction fuel with
  | zero => intro _ _; rfl
  | succ n ih =>
    intro r h1
    simp only [importLoop]
    cases hp : parseEntry cfg.commodity.primary r with
    | ok x =>
      obtain ⟨oe, r'⟩ := x
      cases oe with
      | none => rfl
      | some e =>
        have hrec : recordsRead cfg.commodity.primary (n + 1) r = e :: recordsRead cfg.commodity.primary n r' := by
          simp only [recordsRead, hp]
        rw [hrec] at h1
        simp only [entryToTxn_field_order env cfg h e (h1 e (by simp)),
          ih r' (fun x hx => h1 x (List.mem_cons_of_mem _ hx))]
    | err x => rfl
    | panic s => rfl
    | fuelOut => rfl

/-- **`viseca::import` does not depend on the iteration order of the rules' field maps**, when every element has at most one
interacting field on every record of the statement and the faulty fields of every element agree. -/
theorem visecaImport_field_order (h : RulesPerm cfg.rewrite rules') (lines : List RawLine)
    (h1 : ∀ e ∈ recordsRead cfg.commodity.primary (lines.length + 1) ⟨lines, 0⟩,
      RulesOneInteracting env.cap (visecaRecord e) cfg.rewrite)
    (h2 : RulesFaultsAgree .viseca env.validPattern (fun _ _ => true) cfg.rewrite) :
    visecaImport env { cfg with rewrite := rules' } lines = visecaImport env cfg lines := by
  simp only [visecaImport, ← checkRules_perm .viseca env.validPattern (fun _ _ => true) h h2,
    importLoop_field_order env cfg h _ _ h1]

end Loop

/-! ## the whole command -/

/-- the display context of `ImportCmd::run`: `format.commodity` copied into `precisions`, looked up with `unwrap_or(0)` -/
def precOf (cfg : ConfigEntry) : String → Nat := fun c => (cfg.format.commodity.get? c).getD 0

/-- `for xact in xacts { let xact = xact.to_double_entry(&config_entry.account)?; writeln!(w, "{}", ctx.as_display(&xact))?; }`:
what is written, and how the loop ends (the first failure ends the command after what was already written) -/
def printLoop (prec : String → Nat) (w : List Char → Nat) (account : String) :
    List Txn → List Char × Outcome ImportErr Unit
  | [] => ([], .ok ())
  | t :: rest =>
    match t.toDoubleEntry account with
    | .ok x => ((printTransactionP prec w x ++ ['\n']) ++ (printLoop prec w account rest).1, (printLoop prec w account rest).2)
    | .err e => ([], .err e)
    | .panic s => ([], .panic s)
    | .fuelOut => ([], .fuelOut)

/-- when every conversion succeeds the loop writes `importText` of `ledgerOf` (the ledger C15 / C16 / C18 speak about) -/
theorem printLoop_ok (prec : String → Nat) (w : List Char → Nat) (account : String) : ∀ (ts : List Txn) (trs : List Transaction),
    ledgerOf account ts = .ok trs → printLoop prec w account ts = (importText prec w trs, .ok ()) := by
  intro ts
  induction ts with
  | nil => intro trs h; simp only [ledgerOf, Outcome.ok.injEq] at h; subst h; rfl
  | cons t rest ih =>
    intro trs h
    simp only [ledgerOf] at h
    cases hx : t.toDoubleEntry account with
    | ok x =>
      rw [hx] at h
      cases hr : ledgerOf account rest with
      | ok xs =>
        rw [hr] at h
        simp only [Outcome.ok.injEq] at h
        subst h
        simp only [printLoop, hx, ih xs hr, importText, List.flatMap_cons]
      | err e => rw [hr] at h; cases h
      | panic s => rw [hr] at h; cases h
      | fuelOut => rw [hr] at h; cases h
    | err e => rw [hx] at h; cases h
    | panic s => rw [hx] at h; cases h
    | fuelOut => rw [hx] at h; cases h

/-- **`okane import -c CONFIG STATEMENT.txt`** for a Viseca statement, from the TEXT of the statement: standard output and the
ending (`ok`: exit status 0). -/
def visecaCmd (env : VisecaEnv) (cfg : ConfigEntry) (w : List Char → Nat) (text : List Char) :
    List Char × Outcome ImportErr Unit :=
  match visecaImport env cfg (linesOf text) with
  | .ok txns => printLoop (precOf cfg) w cfg.account txns
  | .err e => ([], .err e)
  | .panic s => ([], .panic s)
  | .fuelOut => ([], .fuelOut)

/-- the hypothesis of `C13_import_partial` on the records of the statement text -/
def StatementOneInteracting (env : VisecaEnv) (cfg : ConfigEntry) (text : List Char) : Prop :=
  ∀ e ∈ recordsOf cfg.commodity.primary text, RulesOneInteracting env.cap (visecaRecord e) cfg.rewrite

/-- **C13_import_viseca (`RulesPerm` form).** -/
theorem visecaCmd_field_order (env : VisecaEnv) (cfg : ConfigEntry) (w : List Char → Nat) (text : List Char)
    {rules' : List Rule} (h : RulesPerm cfg.rewrite rules') (h1 : StatementOneInteracting env cfg text)
    (h2 : RulesFaultsAgree .viseca env.validPattern (fun _ _ => true) cfg.rewrite) :
    visecaCmd env { cfg with rewrite := rules' } w text = visecaCmd env cfg w text := by
  simp only [visecaCmd, visecaImport_field_order env cfg h (linesOf text) h1 h2]
  rfl

/-- the same in the `Deterministic` shape: orders = re-layouts of the field maps -/
theorem visecaCmd_deterministic (env : VisecaEnv) (cfg : ConfigEntry) (w : List Char → Nat) (text : List Char)
    (h1 : StatementOneInteracting env cfg text)
    (h2 : RulesFaultsAgree .viseca env.validPattern (fun _ _ => true) cfg.rewrite)
    (π₁ π₂ : { π : List (Field × String) → List (Field × String) // IsRelayout π }) :
    visecaCmd env { cfg with rewrite := reorderRules π₁.1 cfg.rewrite } w text =
      visecaCmd env { cfg with rewrite := reorderRules π₂.1 cfg.rewrite } w text := by
  rw [visecaCmd_field_order env cfg w text (rulesPerm_reorder π₁.2 _) h1 h2,
    visecaCmd_field_order env cfg w text (rulesPerm_reorder π₂.2 _) h1 h2]

/-- the third hash map, `format.commodity`, is only looked up: any layout of it gives the same command -/
theorem visecaCmd_commodity_order (env : VisecaEnv) (cfg : ConfigEntry) (w : List Char → Nat) (text : List Char)
    {m' : AMap String Nat} (h : cfg.format.commodity.Perm m') (hwf : AMap.WF cfg.format.commodity) :
    visecaCmd env { cfg with format := { cfg.format with commodity := m' } } w text = visecaCmd env cfg w text := by
  have hp : precOf { cfg with format := { cfg.format with commodity := m' } } = precOf cfg := by
    funext c
    simp only [precOf, ← C13.get?_perm h hwf c]
  have hl : ∀ (fuel : Nat) (r : Reader),
      importLoop env { cfg with format := { cfg.format with commodity := m' } } fuel r = importLoop env cfg fuel r := by
    intro fuel
    induction fuel with
    | zero => intro _; rfl
    | succ n ih =>
      intro r
      simp only [importLoop]
      cases parseEntry cfg.commodity.primary r with
      | ok x =>
        obtain ⟨oe, r'⟩ := x
        cases oe with
        | none => rfl
        | some e =>
          have he : entryToTxn env { cfg with format := { cfg.format with commodity := m' } } e = entryToTxn env cfg e := rfl
          simp only [he, ih r']
      | err x => rfl
      | panic s => rfl
      | fuelOut => rfl
  simp only [visecaCmd, visecaImport, hp, hl]

/-! ### a static sufficient condition -/

/-- the element does not hold both `payee` and `category` (the only two fields a Viseca record answers) -/
def NotBothPC (m : FieldMatcher) : Prop :=
  (m.fields.filter fun fp => fp.1 == Field.payee || fp.1 == Field.category).length ≤ 1

theorem viseca_inert (cap : Captures) (e : Viseca.Entry) (fp : Field × String) (h1 : fp.1 ≠ .payee) (h2 : fp.1 ≠ .category) :
    inertField cap (visecaRecord e) fp = true := by
  obtain ⟨f, pat⟩ := fp
  cases f <;> simp_all [inertField, inertKind, visecaRecord]

/-- then every element has at most one interacting field on every Viseca record, whatever the regex engine -/
theorem viseca_oneInteracting_static (cap : Captures) (e : Viseca.Entry) {rules : List Rule}
    (h : ∀ rule ∈ rules, ∀ m ∈ rule.matcher.elements, NotBothPC m) : RulesOneInteracting cap (visecaRecord e) rules := by
  intro rule hr m hm
  unfold OneInteracting
  refine Nat.le_trans (filter_length_mono (q := fun (fp : Field × String) => fp.1 == Field.payee || fp.1 == Field.category) ?_ m.fields)
    (h rule hr m hm)
  intro fp hfp
  by_cases hp : fp.1 = .payee
  · simp [hp]
  · by_cases hc : fp.1 = .category
    · simp [hc]
    · simp [viseca_inert cap e fp hp hc] at hfp

/-! ## the unconditional statements are false -/

/-- the unconditional statement of C13 for the Viseca importer as a whole command -/
def visecaCmd_full : Prop :=
  ∀ (env : VisecaEnv) (cfg : ConfigEntry) (w : List Char → Nat) (text : List Char)
    (π₁ π₂ : { π : List (Field × String) → List (Field × String) // IsRelayout π }),
    visecaCmd env { cfg with rewrite := reorderRules π₁.1 cfg.rewrite } w text =
      visecaCmd env { cfg with rewrite := reorderRules π₂.1 cfg.rewrite } w text

/-- a statement with two records; the first has the category `Service stations` -/
def f14Text : List Char :=
  "15.03.24 16.03.24 Europe Gas AT 12.50\nService stations\n16.03.24 17.03.24 Coop City 7.20\nFood\n".toList

/-- F14's rule: the category captures a payee, the payee field matches on the payee -/
def f14Rule : Rule :=
  { matcher := .field ⟨[(.category, "(?P<payee>Service) stations"), (.payee, "^Service$")]⟩, account := some "Expenses:Car" }

def f14Env : VisecaEnv := { cap := witnessCap, validPattern := fun _ => true }

def f14Cfg : ConfigEntry :=
  { path := "viseca/", encoding := "UTF-8", account := "Liabilities:Card", accountType := .liability, operator := none,
    commodity := { primary := "CHF" }, format := { commodity := [("CHF", 2)] }, rewrite := [f14Rule] }

theorem isRelayout_id : IsRelayout (fun l => l) := fun _ => List.Perm.refl _
theorem isRelayout_rev : IsRelayout List.reverse := fun l => List.reverse_perm l

set_option maxRecDepth 100000 in
/-- **F14 on the whole command**: with the field map in the order `category, payee` the first record is booked to
`Expenses:Car` under the payee `Service` … -/
theorem f14_prints_category_first :
    visecaCmd f14Env f14Cfg Unparse.widthStd f14Text =
      (("2024/03/15=2024/03/16 * Service\n    Expenses:Car                               12.50 CHF\n" ++
        "    Liabilities:Card                          -12.50 CHF\n\n2024/03/16=2024/03/17 * Coop City\n" ++
        "    ! Expenses:Unknown                          7.20 CHF\n    Liabilities:Card                           -7.20 CHF\n\n").toList,
       .ok ()) := by decide +kernel

set_option maxRecDepth 100000 in
/-- … and in the order `payee, category` it stays `! Expenses:Unknown` under the statement's payee. -/
theorem f14_prints_payee_first :
    visecaCmd f14Env { f14Cfg with rewrite := reorderRules List.reverse f14Cfg.rewrite } Unparse.widthStd f14Text =
      (("2024/03/15=2024/03/16 * Europe Gas AT\n    ! Expenses:Unknown                         12.50 CHF\n" ++
        "    Liabilities:Card                          -12.50 CHF\n\n2024/03/16=2024/03/17 * Coop City\n" ++
        "    ! Expenses:Unknown                          7.20 CHF\n    Liabilities:Card                           -7.20 CHF\n\n").toList,
       .ok ()) := by decide +kernel

/-- **C13_import_viseca_false**: the unconditional statement is false. -/
theorem visecaCmd_full_false : ¬ visecaCmd_full := by
  intro h
  have h' := h f14Env f14Cfg Unparse.widthStd f14Text ⟨fun l => l, isRelayout_id⟩ ⟨List.reverse, isRelayout_rev⟩
  have e1 : reorderRules (fun l => l) f14Cfg.rewrite = f14Cfg.rewrite := by decide
  simp only [e1] at h'
  rw [f14_prints_payee_first] at h'
  have h2 := f14_prints_category_first
  have h3 : visecaCmd f14Env { f14Cfg with rewrite := f14Cfg.rewrite } Unparse.widthStd f14Text =
      visecaCmd f14Env f14Cfg Unparse.widthStd f14Text := rfl
  rw [h3, h2] at h'
  revert h'
  decide +kernel

/-- the hypothesis of `visecaCmd_field_order` fails on the witness, as it must: both fields of the element interact on the
first record -/
example : ¬ StatementOneInteracting f14Env f14Cfg f14Text := by
  intro h
  have := visecaCmd_field_order f14Env f14Cfg Unparse.widthStd f14Text
    (rulesPerm_reorder isRelayout_rev f14Cfg.rewrite) h
    (rulesFaultsAgree_of_ok _ _ _ (by decide +kernel))
  rw [f14_prints_payee_first, f14_prints_category_first] at this
  revert this
  decide +kernel

/-- the statement "the error of a rejected configuration does not depend on the order" -/
def visecaCmd_error_full : Prop :=
  ∀ (env : VisecaEnv) (cfg : ConfigEntry) (w : List Char → Nat) (text : List Char) (rules' : List Rule),
    RulesPerm cfg.rewrite rules' → StatementOneInteracting env cfg text →
    visecaCmd env { cfg with rewrite := rules' } w text = visecaCmd env cfg w text

/-- **F32 on the model**: an element with two different faults (a field Viseca does not support, a pattern that does not
compile) is rejected with either error, depending on the order; no record is involved (the statement is empty). -/
theorem visecaCmd_error_false : ¬ visecaCmd_error_full := by
  intro h
  have := h { cap := fun _ _ => none, validPattern := fun p => p != "(" }
    { f14Cfg with rewrite := [{ matcher := .field ⟨[(.creditorName, "foo"), (.payee, "(")]⟩ }] } Unparse.widthStd []
    [{ matcher := .field ⟨[(.payee, "("), (.creditorName, "foo")]⟩ }]
    (.cons ⟨.cons (List.Perm.swap _ _ _) .nil, rfl, rfl, rfl, rfl⟩ .nil)
    (by intro e he; simp [recordsOf, recordsRead, linesOf, splitAfterLF, parseEntry, Reader.readLine] at he)
  revert this
  decide +kernel

/-! ## non-vacuity: a statement and rules with a category element -/

/-- a regex engine for two plain patterns -/
def exCapV : Captures := fun pat hay =>
  if pat = "Food" then (if hay = "Food" then some {} else none)
  else if pat = "Coop" then (if hay = "Coop City" then some {} else none)
  else if pat = "(?P<payee>.*) AT" then (if hay = "Europe Gas AT" then some ⟨some "Europe Gas", none⟩ else none)
  else none

def exEnvV : VisecaEnv := { cap := exCapV, validPattern := fun _ => true }

/-- two rules: a capturing payee rule, and an element with both a category and a payee field (the category field is inert
on every record here: it never captures) -/
def exCfgV : ConfigEntry :=
  { f14Cfg with rewrite :=
      [{ matcher := .field ⟨[(.payee, "(?P<payee>.*) AT")]⟩ },
       { matcher := .field ⟨[(.category, "Food"), (.payee, "Coop")]⟩, account := some "Expenses:Groceries" }] }

/-- executable form of `StatementOneInteracting` -/
def statementCheck (env : VisecaEnv) (cfg : ConfigEntry) (text : List Char) : Bool :=
  (recordsOf cfg.commodity.primary text).all fun e => cfg.rewrite.all fun rule => rule.matcher.elements.all fun m =>
    decide ((m.fields.filter (fun fp => !inertField env.cap (visecaRecord e) fp)).length ≤ 1)

theorem statementOneInteracting_of_check {env : VisecaEnv} {cfg : ConfigEntry} {text : List Char}
    (h : statementCheck env cfg text = true) : StatementOneInteracting env cfg text := by
  intro e he rule hr m hm
  simp only [statementCheck, List.all_eq_true, decide_eq_true_eq] at h
  exact h e he rule hr m hm

theorem exCfgV_one : StatementOneInteracting exEnvV exCfgV f14Text :=
  statementOneInteracting_of_check (by decide +kernel)

theorem exCfgV_compiles : checkRules .viseca exEnvV.validPattern (fun _ _ => true) exCfgV.rewrite = .ok () := by decide +kernel

/-- the other layout is a different rule list … -/
example : reorderRules List.reverse exCfgV.rewrite ≠ exCfgV.rewrite := by decide

/-- … and the command prints the same ledger under both -/
example : visecaCmd exEnvV { exCfgV with rewrite := reorderRules List.reverse exCfgV.rewrite } Unparse.widthStd f14Text =
    visecaCmd exEnvV exCfgV Unparse.widthStd f14Text :=
  visecaCmd_field_order exEnvV exCfgV _ _ (rulesPerm_reorder isRelayout_rev _) exCfgV_one
    (rulesFaultsAgree_of_ok _ _ _ exCfgV_compiles)

set_option maxRecDepth 100000 in
/-- what it prints: the first record under the captured payee, the second booked by the category element -/
example : visecaCmd exEnvV exCfgV Unparse.widthStd f14Text =
    (("2024/03/15=2024/03/16 * Europe Gas\n    ! Expenses:Unknown                         12.50 CHF\n" ++
      "    Liabilities:Card                          -12.50 CHF\n\n2024/03/16=2024/03/17 * Coop City\n" ++
      "    Expenses:Groceries                          7.20 CHF\n    Liabilities:Card                           -7.20 CHF\n\n").toList,
     .ok ()) := by decide +kernel

/-- the static condition holds of a configuration whose elements never pair `payee` with `category` -/
example : ∀ rule ∈ ([{ matcher := .field ⟨[(.category, "Food"), (.domainCode, "x")]⟩ }] : List Rule),
    ∀ m ∈ rule.matcher.elements, NotBothPC m := by
  intro rule hr m hm
  simp only [List.mem_singleton] at hr
  subst hr
  simp only [Matcher.elements, List.mem_singleton] at hm
  subst hm
  unfold NotBothPC
  decide

/-- `format.commodity` in another layout -/
example : visecaCmd exEnvV { exCfgV with format := { exCfgV.format with commodity := [("EUR", 2), ("CHF", 2)].reverse } }
      Unparse.widthStd f14Text =
    visecaCmd exEnvV { exCfgV with format := { exCfgV.format with commodity := [("EUR", 2), ("CHF", 2)] } }
      Unparse.widthStd f14Text :=
  visecaCmd_commodity_order exEnvV { exCfgV with format := { exCfgV.format with commodity := [("EUR", 2), ("CHF", 2)] } } _ _
    (List.reverse_perm _).symm (by simp [AMap.WF, AMap.keys])

end Okane.C13FV
