import Okane.Lemmas.C05DeclNum
/-!
# C05: round trip of `account` and `commodity` declarations

`entryRT_account`, `entryRT_commodity`: for every `wfEntry` tree the entry parser reads back the printed
declaration (name line, then any list of detail lines: comment / note / alias / format), whatever follows the
empty line `format` writes.  Consecutive comment (note) details would be merged by `multiline_text`; that is
what `noAdjacentA/C` exclude, and it is used here exactly at the point where the `repeat(1.., …)` of a
multi-line text must stop.
-/
set_option linter.unusedSimpArgs false
namespace Okane.Unparse
open Okane Okane.Comb Okane.Parse

/-! ## the line prefixes of the detail parsers -/

/-- `(space1, take_while(1.., is_comment_prefix))` -/
def cpfx : Parser (List Char × List Char) := pair space1 (takeWhile1 isCommentPrefix)
/-- `(space1, (literal(kw), space1))` -/
def kwpfx (kw : List Char) : Parser (List Char × (List Char × List Char)) := pair space1 (pair (literal kw) space1)

theorem detailComment_eq : detailComment = multilineText cpfx := rfl
theorem detailNote_eq : detailNote = multilineText (kwpfx kwNote) := rfl
theorem detailAlias_eq : detailAlias = restOfLine (kwpfx kwAlias) := rfl

theorem space1_indent4 {X : List Char} (h : Stop isSpace X) : space1 (indent4 ++ X) = .ok indent4 X :=
  space1_append (by simp [indent4]) (by simp [indent4, isSpace]) h

/-- the comment prefix `    ;` before a line that does not begin with a comment-prefix character -/
theorem cpfx_rt (l X : List Char) (hl : ∀ c r, l = c :: r → isCommentPrefix c = false) :
    cpfx ((indent4 ++ [';']) ++ (l ++ '\n' :: X)) = .ok (indent4, [';']) (l ++ '\n' :: X) := by
  have h1 : space1 (indent4 ++ ';' :: (l ++ '\n' :: X)) = .ok indent4 (';' :: (l ++ '\n' :: X)) :=
    space1_indent4 (by simp [isSpace])
  have h2 := takeWhile1_append (p := isCommentPrefix) (a := [';']) (rest := l ++ '\n' :: X) (by simp)
    (by simp [isCommentPrefix]) (by
      cases l with
      | nil => simp [isCommentPrefix]
      | cons c t => simpa using hl c t rfl)
  simp only [List.cons_append, List.nil_append] at h2
  simp only [List.append_assoc, List.cons_append, List.nil_append, cpfx, pair_apply, h1, Res.andThen_ok, h2,
    Res.map_ok]

/-- the keyword prefix `    kw ` before text that does not begin with a blank -/
theorem kwpfx_rt (kw Y : List Char) (hk : ∀ Z, Stop isSpace (kw ++ Z)) (hY : Stop isSpace Y) :
    kwpfx kw (indent4 ++ (kw ++ ' ' :: Y)) = .ok (indent4, (kw, [' '])) Y := by
  have h1 := space1_indent4 (hk (' ' :: Y))
  have h2 := kw_space1 kw Y hY
  simp only [kwpfx, pair_apply, h1, Res.andThen_ok] at h2 ⊢
  rw [h2]; rfl

/-- the text is four blanks, then the character `c` -/
def Head (c : Char) (X : List Char) : Prop := ∃ t, X = indent4 ++ c :: t

theorem cpfx_bt_head {c : Char} {X : List Char} (hX : Head c X) (h1 : isSpace c = false)
    (h2 : isCommentPrefix c = false) : ∃ z, cpfx X = .bt z := by
  obtain ⟨t, rfl⟩ := hX
  have hs : space1 (indent4 ++ c :: t) = .ok indent4 (c :: t) := space1_indent4 (by simp [h1])
  have ht : takeWhile1 isCommentPrefix (c :: t) = .bt (c :: t) := takeWhile1_stop (by simp [h2])
  exact ⟨c :: t, by simp [cpfx, hs, ht]⟩

theorem cpfx_bt_nl (r : List Char) : ∃ z, cpfx ('\n' :: r) = .bt z := by
  have hs : space1 ('\n' :: r) = .bt ('\n' :: r) := takeWhile1_stop (by simp [isSpace])
  exact ⟨'\n' :: r, by simp [cpfx, hs]⟩

theorem kwpfx_bt_head {k c : Char} {kt X : List Char} (hX : Head c X) (h1 : isSpace c = false) (hk : k ≠ c) :
    ∃ z, kwpfx (k :: kt) X = .bt z := by
  obtain ⟨t, rfl⟩ := hX
  have hs : space1 (indent4 ++ c :: t) = .ok indent4 (c :: t) := space1_indent4 (by simp [h1])
  have hl : literal (k :: kt) (c :: t) = .bt (c :: t) := by simp [literal, List.isPrefixOf, hk]
  exact ⟨c :: t, by simp [kwpfx, hs, hl]⟩

theorem kwpfx_bt_nl (kw r : List Char) : ∃ z, kwpfx kw ('\n' :: r) = .bt z := by
  have hs : space1 ('\n' :: r) = .bt ('\n' :: r) := takeWhile1_stop (by simp [isSpace])
  exact ⟨'\n' :: r, by simp [kwpfx, hs]⟩

/-- the line prefix of comment details does not match here -/
def NoC (X : List Char) : Prop := ∃ z, cpfx X = .bt z
/-- the line prefix `    kw ` does not match here -/
def NoK (kw : List Char) (X : List Char) : Prop := ∃ z, kwpfx kw X = .bt z

theorem multilineText_bt {α : Type} {pfx : Parser α} {i z : List Char} (h : pfx i = .bt z) :
    multilineText pfx i = .bt z := by
  simp [multilineText, repeat1, h]

theorem restOfLine_bt {α : Type} {pfx : Parser α} {i z : List Char} (h : pfx i = .bt z) :
    restOfLine pfx i = .bt z := by
  simp [restOfLine, h]

/-! ## the printed forms of the details -/

def commentText (s : String) : List Char := lineWrap (indent4 ++ [';']) s
def noteText (s : String) : List Char := lineWrap (indent4 ++ (kwNote ++ [' '])) s
def aliasText (s : String) : List Char := indent4 ++ (kwAlias ++ ' ' :: (s.toList ++ ['\n']))
def formatText (d : PDec) (c : String) : List Char := indent4 ++ (kwFormat ++ ' ' :: (printAmount d c ++ ['\n']))

/-- a well-formed multi-line text has a first line, so its printed form begins with the line prefix -/
theorem lineWrap_head {sb : Char → Bool} {s : String} (P : List Char) (h : wfMultiline sb s.toList = true) :
    ∃ t, lineWrap P s = P ++ t := by
  unfold wfMultiline at h
  cases hsp : splitLines s.toList [] with
  | none => simp [hsp] at h
  | some ls =>
    simp [hsp, List.all_eq_true] at h
    have hnoCr : ∀ l ∈ ls, ∀ c ∈ l, c ≠ '\r' := fun l hl c hc => (h.2 l hl).1 c hc
    have hlines := splitLines_lines s.toList [] ls hsp hnoCr
    cases ls with
    | nil => simp at h
    | cons l0 t =>
      refine ⟨l0 ++ '\n' :: t.flatMap (fun l => P ++ (l ++ ['\n'])), ?_⟩
      simp [lineWrap, lines, hlines.1]

theorem head_comment {sb : Char → Bool} {s : String} (h : wfMultiline sb s.toList = true) (Y : List Char) :
    Head ';' (commentText s ++ Y) := by
  obtain ⟨t, ht⟩ := lineWrap_head (indent4 ++ [';']) h
  exact ⟨t ++ Y, by simp [commentText, ht]⟩

theorem head_note {sb : Char → Bool} {s : String} (h : wfMultiline sb s.toList = true) (Y : List Char) :
    Head 'n' (noteText s ++ Y) := by
  obtain ⟨t, ht⟩ := lineWrap_head (indent4 ++ (kwNote ++ [' '])) h
  exact ⟨['o', 't', 'e', ' '] ++ t ++ Y, by rw [noteText, ht]; simp [kwNote]⟩

theorem head_alias (s : String) (Y : List Char) : Head 'a' (aliasText s ++ Y) :=
  ⟨['l', 'i', 'a', 's', ' '] ++ s.toList ++ '\n' :: Y, by simp [aliasText, kwAlias]⟩

theorem head_format (d : PDec) (c : String) (Y : List Char) : Head 'f' (formatText d c ++ Y) :=
  ⟨['o', 'r', 'm', 'a', 't', ' '] ++ printAmount d c ++ '\n' :: Y, by simp [formatText, kwFormat]⟩

theorem lineWrap_ne_nil {sb : Char → Bool} {s : String} {P : List Char} (hP : P ≠ [])
    (h : wfMultiline sb s.toList = true) : lineWrap P s ≠ [] := by
  obtain ⟨t, ht⟩ := lineWrap_head P h
  rw [ht]; simp [hP]

/-! ## one detail, whatever admissible text follows -/

theorem detailComment_rt (s : String) (h : wfMultiline isCommentPrefix s.toList = true) (X : List Char) (hX : NoC X) :
    detailComment (commentText s ++ X) = .ok s X := by
  obtain ⟨z, hz⟩ := hX
  exact multilineText_rt (pfx := cpfx) (P := indent4 ++ [';']) (x := (indent4, [';'])) isCommentPrefix s h
    (fun l Y hl => cpfx_rt l Y hl) (by simp [indent4]) X z hz

theorem detailNote_rt (s : String) (h : wfMultiline isSpace s.toList = true) (X : List Char) (hX : NoK kwNote X) :
    detailNote (noteText s ++ X) = .ok s X := by
  obtain ⟨z, hz⟩ := hX
  refine multilineText_rt (pfx := kwpfx kwNote) (P := indent4 ++ (kwNote ++ [' '])) (x := (indent4, (kwNote, [' '])))
    isSpace s h ?_ (by simp [indent4]) X z hz
  intro l Y hl
  have hst : Stop isSpace (l ++ '\n' :: Y) := by
    cases l with
    | nil => simp [isSpace]
    | cons c t => simpa using hl c t rfl
  have := kwpfx_rt kwNote (l ++ '\n' :: Y) (by intro Z; simp [kwNote, isSpace]) hst
  simpa [List.append_assoc] using this

theorem detailAlias_rt (s : String) (h : wfRestOfLine s.toList = true) (X : List Char) :
    detailAlias (aliasText s ++ X) = .ok s X := by
  have hs := h
  simp [wfRestOfLine] at hs
  have h1 := kwpfx_rt kwAlias (s.toList ++ '\n' :: X) (by intro Z; simp [kwAlias, isSpace])
    (stop_space_of_notBlankStart hs.1.2 X)
  have h2 := restOfLine_rt h1 h
  simpa [detailAlias_eq, aliasText, List.append_assoc] using h2

/-- the `format` line parser of `commodity_declaration` -/
def detailFormat : Parser (PDec × String) := delimited (kwpfx kwFormat) amount lineEndingOrEof

theorem detailFormat_rt (d : PDec) (c : String) (hd : wfNumber d = true) (hc : isCommodityText c.toList = true)
    (X : List Char) : detailFormat (formatText d c ++ X) = .ok (d, c) X := by
  have hst : Stop isSpace (printAmount d c ++ '\n' :: X) := by
    rw [printAmount_eq]
    split
    · exact printPDec_stop_space hd _
    · simpa [List.append_assoc] using printPDec_stop_space hd (' ' :: c.toList ++ '\n' :: X)
  have h1 := kwpfx_rt kwFormat (printAmount d c ++ '\n' :: X) (by intro Z; simp [kwFormat, isSpace]) hst
  have h2 := amount_rt hd hc X
  have he : formatText d c ++ X = indent4 ++ (kwFormat ++ ' ' :: (printAmount d c ++ '\n' :: X)) := by
    simp [formatText, List.append_assoc]
  rw [he]
  simp only [detailFormat, delimited_apply, h1, Res.andThen_ok, h2, lineEndingOrEof_nl, Res.map_ok]

theorem detailFormat_bt {i z : List Char} (h : kwpfx kwFormat i = .bt z) : detailFormat i = .bt z := by
  simp [detailFormat, h]

/-! ## repetition over a printed list whose items constrain what may follow them -/

/-- every item is followed by text it accepts as its continuation -/
def Chained {α : Type} (G : α → List Char → Prop) (pr : α → List Char) (rest : List Char) : List α → Prop
  | [] => True
  | x :: xs => G x (xs.flatMap pr ++ rest) ∧ Chained G pr rest xs

/-- `repeat0Loop` over the printed forms of a list of items, each of which is read back when followed by text
satisfying its own condition `G x` -/
theorem repeat0Loop_chain {α : Type} {p : Parser α} {pr : α → List Char} (G : α → List Char → Prop)
    (rest z : List Char) (hstop : p rest = .bt z) :
    ∀ (xs : List α), (∀ x ∈ xs, ∀ X, G x X → p (pr x ++ X) = .ok x X) → (∀ x ∈ xs, pr x ≠ []) →
      Chained G pr rest xs →
      ∀ (n : Nat) (acc : List α), xs.length < n →
        repeat0Loop p n (xs.flatMap pr ++ rest) acc = .ok (acc ++ xs) rest := by
  intro xs
  induction xs with
  | nil =>
    intro _ _ _ n acc hn
    cases n with
    | zero => omega
    | succ n => simp [repeat0Loop_stop hstop]
  | cons x xs ih =>
    intro hstep hne hch n acc hn
    cases n with
    | zero => omega
    | succ n =>
      have h1 := hstep x (by simp) (xs.flatMap pr ++ rest) hch.1
      have hlen : (xs.flatMap pr ++ rest).length < (pr x ++ (xs.flatMap pr ++ rest)).length := by
        have : (pr x).length > 0 := List.length_pos_iff.mpr (hne x (by simp))
        simp; omega
      have := repeat0Loop_step (n := n) (acc := acc) h1 hlen
      simp only [List.flatMap_cons, List.append_assoc]
      rw [this, ih (fun y hy => hstep y (by simp [hy])) (fun y hy => hne y (by simp [hy])) hch.2 n (acc ++ [x])
        (by simp at hn; omega)]
      simp

/-- `repeat(0.., p)` on such a list -/
theorem repeat0_chain {α : Type} {p : Parser α} {pr : α → List Char} (G : α → List Char → Prop)
    (rest z : List Char) (hstop : p rest = .bt z) (xs : List α)
    (hstep : ∀ x ∈ xs, ∀ X, G x X → p (pr x ++ X) = .ok x X) (hne : ∀ x ∈ xs, pr x ≠ [])
    (hch : Chained G pr rest xs) : repeat0 p (xs.flatMap pr ++ rest) = .ok xs rest := by
  have := repeat0Loop_chain G rest z hstop xs hstep hne hch ((xs.flatMap pr ++ rest).length + 1) [] (by
    have := length_le_flatMap pr xs hne
    rw [List.length_append]; omega)
  simpa [repeat0] using this

/-! ## account declarations -/

/-- the element parser of the `repeat(0.., alt((comment, note, alias)))` of `account_declaration` -/
def accDetail : Parser AccountDetail :=
  map AccountDetail.comment detailComment <|| map AccountDetail.note detailNote <|| map AccountDetail.alias detailAlias

/-- what may follow a printed account detail: a comment must not be followed by a comment line, a note not
by a note line -/
def followA : AccountDetail → List Char → Prop
  | .comment _, X => NoC X
  | .note _, X => NoK kwNote X
  | .alias _, _ => True

theorem printAccountDetail_eq (x : AccountDetail) : printAccountDetail x =
    match x with
    | .comment s => commentText s
    | .note s => noteText s
    | .alias s => aliasText s := by
  cases x <;> rfl

theorem accDetail_rt (x : AccountDetail) (hwf : wfAccountDetail x = true) (X : List Char) (hX : followA x X) :
    accDetail (printAccountDetail x ++ X) = .ok x X := by
  cases x with
  | comment s =>
    have h1 := detailComment_rt s (by simpa [wfAccountDetail] using hwf) X hX
    simp only [printAccountDetail_eq, accDetail]
    exact alt2_ok (by simp [h1])
  | note s =>
    have hw : wfMultiline isSpace s.toList = true := by simpa [wfAccountDetail] using hwf
    obtain ⟨z, hz⟩ := cpfx_bt_head (head_note hw X) (by decide) (by decide)
    have h0 : map AccountDetail.comment detailComment (noteText s ++ X) = .bt z := by
      simp [detailComment_eq, multilineText_bt hz]
    have h1 := detailNote_rt s hw X hX
    simp only [printAccountDetail_eq, accDetail]
    rw [alt2_bt h0]
    exact alt2_ok (by simp [h1])
  | alias s =>
    obtain ⟨z, hz⟩ := cpfx_bt_head (head_alias s X) (by decide) (by decide)
    have h0 : map AccountDetail.comment detailComment (aliasText s ++ X) = .bt z := by
      simp [detailComment_eq, multilineText_bt hz]
    obtain ⟨z', hz'⟩ := kwpfx_bt_head (k := 'n') (kt := ['o', 't', 'e']) (head_alias s X) (by decide) (by decide)
    have h0' : map AccountDetail.note detailNote (aliasText s ++ X) = .bt z' := by
      simp [detailNote_eq, kwNote, multilineText_bt hz']
    have h1 := detailAlias_rt s (by simpa [wfAccountDetail] using hwf) X
    simp only [printAccountDetail_eq, accDetail]
    rw [alt2_bt h0, alt2_bt h0']
    simp [h1]

theorem accDetail_nl (r : List Char) : ∃ z, accDetail ('\n' :: r) = .bt z := by
  obtain ⟨z1, h1⟩ := cpfx_bt_nl r
  obtain ⟨z2, h2⟩ := kwpfx_bt_nl kwNote r
  obtain ⟨z3, h3⟩ := kwpfx_bt_nl kwAlias r
  refine ⟨z3, ?_⟩
  have a1 : map AccountDetail.comment detailComment ('\n' :: r) = .bt z1 := by
    simp [detailComment_eq, multilineText_bt h1]
  have a2 : map AccountDetail.note detailNote ('\n' :: r) = .bt z2 := by
    simp [detailNote_eq, multilineText_bt h2]
  have a3 : map AccountDetail.alias detailAlias ('\n' :: r) = .bt z3 := by
    simp [detailAlias_eq, restOfLine_bt h3]
  simp only [accDetail]
  rw [alt2_bt a1, alt2_bt a2, a3]

theorem printAccountDetail_ne_nil (x : AccountDetail) (hwf : wfAccountDetail x = true) : printAccountDetail x ≠ [] := by
  cases x with
  | comment s => exact lineWrap_ne_nil (by simp [indent4]) (by simpa [wfAccountDetail] using hwf)
  | note s => exact lineWrap_ne_nil (by simp [indent4]) (by simpa [wfAccountDetail] using hwf)
  | alias s => simp [printAccountDetail, indent4]

/-- the continuation condition of `x` holds before the printed form of a detail of another kind -/
theorem followA_print (x y : AccountDetail) (hy : wfAccountDetail y = true) (Y : List Char)
    (hadj : noAdjacentA (x :: y :: []) = true) : followA x (printAccountDetail y ++ Y) := by
  cases x with
  | comment s =>
    cases y with
    | comment t => simp [noAdjacentA] at hadj
    | note t =>
      exact cpfx_bt_head (head_note (sb := isSpace) (by simpa [wfAccountDetail] using hy) Y) (by decide) (by decide)
    | alias t => exact cpfx_bt_head (head_alias t Y) (by decide) (by decide)
  | note s =>
    cases y with
    | comment t =>
      exact kwpfx_bt_head (k := 'n') (kt := ['o', 't', 'e'])
        (head_comment (sb := isCommentPrefix) (by simpa [wfAccountDetail] using hy) Y) (by decide) (by decide)
    | note t => simp [noAdjacentA] at hadj
    | alias t => exact kwpfx_bt_head (k := 'n') (kt := ['o', 't', 'e']) (head_alias t Y) (by decide) (by decide)
  | alias s => trivial

theorem followA_nl (x : AccountDetail) (r : List Char) : followA x ('\n' :: r) := by
  cases x with
  | comment s => exact cpfx_bt_nl r
  | note s => exact kwpfx_bt_nl kwNote r
  | alias s => trivial

theorem noAdjacentA_tail (x : AccountDetail) (xs : List AccountDetail) (h : noAdjacentA (x :: xs) = true) :
    noAdjacentA xs = true := by
  cases xs with
  | nil => rfl
  | cons y ys => cases x <;> cases y <;> simp_all [noAdjacentA]

theorem noAdjacentA_pair (x y : AccountDetail) (ys : List AccountDetail) (h : noAdjacentA (x :: y :: ys) = true) :
    noAdjacentA (x :: y :: []) = true := by
  cases x <;> cases y <;> simp_all [noAdjacentA]

theorem chainedA (rest : List Char) : ∀ (ds : List AccountDetail), (∀ d ∈ ds, wfAccountDetail d = true) →
    noAdjacentA ds = true → Chained followA printAccountDetail ('\n' :: rest) ds := by
  intro ds
  induction ds with
  | nil => intro _ _; trivial
  | cons x xs ih =>
    intro hwf hadj
    refine ⟨?_, ih (fun d hd => hwf d (by simp [hd])) (noAdjacentA_tail x xs hadj)⟩
    cases xs with
    | nil => simpa using followA_nl x rest
    | cons y ys =>
      simp only [List.flatMap_cons, List.append_assoc]
      exact followA_print x y (hwf y (by simp)) _ (noAdjacentA_pair x y ys hadj)

/-- `account_declaration` reads back a printed declaration followed by an empty line -/
theorem accountDeclaration_rt (w : List Char → Nat) (n : String) (ds : List AccountDetail)
    (hn : wfAccountName n.toList = true) (hds : ∀ d ∈ ds, wfAccountDetail d = true) (hadj : noAdjacentA ds = true)
    (rest : List Char) :
    accountDeclaration (printEntry w (.account n ds) ++ '\n' :: rest) = .ok (.account n ds) ('\n' :: rest) := by
  have hs := hn
  simp [wfAccountName, wfRestOfLine] at hs
  have h1 := kw_space1 kwAccount (n.toList ++ '\n' :: (ds.flatMap printAccountDetail ++ '\n' :: rest))
    (stop_space_of_notBlankStart hs.1.2 _)
  have h2 := restOfLine_rt h1 hn
  obtain ⟨z, hz⟩ := accDetail_nl rest
  have h3 := repeat0_chain (p := accDetail) (pr := printAccountDetail) followA ('\n' :: rest) z hz ds
    (fun x hx X hX => accDetail_rt x (hds x hx) X hX) (fun x hx => printAccountDetail_ne_nil x (hds x hx))
    (chainedA rest ds hds hadj)
  have he : printEntry w (.account n ds) ++ '\n' :: rest =
      kwAccount ++ ' ' :: (n.toList ++ '\n' :: (ds.flatMap printAccountDetail ++ '\n' :: rest)) := by
    simp [printEntry, List.append_assoc]
  have hd : accountDeclaration = (restOfLine (pair (literal kwAccount) space1) >>- fun name =>
      repeat0 accDetail >>- fun details => pure (Entry.account name details)) := rfl
  rw [he, hd]
  simp only [bind_apply, h2, Res.andThen_ok, h3, pure_apply, String.ofList_toList]

/-- **C05, account declarations**: every well-formed `account` declaration round-trips -/
theorem entryRT_account (w : List Char → Nat) (n : String) (ds : List AccountDetail)
    (hwf : wfEntry (.account n ds) = true) : EntryRT w (.account n ds) := by
  simp [wfEntry, List.all_eq_true] at hwf
  obtain ⟨⟨hn, hds⟩, hadj⟩ := hwf
  refine ⟨⟨'a', _, rfl, by decide, by decide, by decide, by decide⟩, ?_⟩
  intro rest
  have := accountDeclaration_rt w n ds hn hds hadj rest
  simp only [printEntry, List.append_assoc] at this ⊢
  exact parseLedgerEntry_account this

/-! ## commodity declarations -/

/-- the element parser of the `repeat(0.., alt((comment, note, alias, format)))` of `commodity_declaration` -/
def comDetail : Parser CommodityDetail :=
  map CommodityDetail.comment detailComment <|| map CommodityDetail.note detailNote
  <|| map CommodityDetail.alias detailAlias
  <|| map (fun (d, c) => CommodityDetail.format d c) detailFormat

def followC : CommodityDetail → List Char → Prop
  | .comment _, X => NoC X
  | .note _, X => NoK kwNote X
  | .alias _, _ => True
  | .format _ _, _ => True

theorem printCommodityDetail_eq (x : CommodityDetail) : printCommodityDetail x =
    match x with
    | .comment s => commentText s
    | .note s => noteText s
    | .alias s => aliasText s
    | .format d c => formatText d c := by
  cases x <;> rfl

theorem comDetail_rt (x : CommodityDetail) (hwf : wfCommodityDetail x = true) (X : List Char) (hX : followC x X) :
    comDetail (printCommodityDetail x ++ X) = .ok x X := by
  cases x with
  | comment s =>
    have h1 := detailComment_rt s (by simpa [wfCommodityDetail] using hwf) X hX
    simp only [printCommodityDetail_eq, comDetail]
    exact alt2_ok (by simp [h1])
  | note s =>
    have hw : wfMultiline isSpace s.toList = true := by simpa [wfCommodityDetail] using hwf
    obtain ⟨z, hz⟩ := cpfx_bt_head (head_note hw X) (by decide) (by decide)
    have h0 : map CommodityDetail.comment detailComment (noteText s ++ X) = .bt z := by
      simp [detailComment_eq, multilineText_bt hz]
    have h1 := detailNote_rt s hw X hX
    simp only [printCommodityDetail_eq, comDetail]
    rw [alt2_bt h0]
    exact alt2_ok (by simp [h1])
  | alias s =>
    obtain ⟨z, hz⟩ := cpfx_bt_head (head_alias s X) (by decide) (by decide)
    have h0 : map CommodityDetail.comment detailComment (aliasText s ++ X) = .bt z := by
      simp [detailComment_eq, multilineText_bt hz]
    obtain ⟨z', hz'⟩ := kwpfx_bt_head (k := 'n') (kt := ['o', 't', 'e']) (head_alias s X) (by decide) (by decide)
    have h0' : map CommodityDetail.note detailNote (aliasText s ++ X) = .bt z' := by
      simp [detailNote_eq, kwNote, multilineText_bt hz']
    have h1 := detailAlias_rt s (by simpa [wfCommodityDetail] using hwf) X
    simp only [printCommodityDetail_eq, comDetail]
    rw [alt2_bt h0, alt2_bt h0']
    exact alt2_ok (by simp [h1])
  | format d c =>
    simp [wfCommodityDetail] at hwf
    obtain ⟨z, hz⟩ := cpfx_bt_head (head_format d c X) (by decide) (by decide)
    have h0 : map CommodityDetail.comment detailComment (formatText d c ++ X) = .bt z := by
      simp [detailComment_eq, multilineText_bt hz]
    obtain ⟨z', hz'⟩ := kwpfx_bt_head (k := 'n') (kt := ['o', 't', 'e']) (head_format d c X) (by decide) (by decide)
    have h0' : map CommodityDetail.note detailNote (formatText d c ++ X) = .bt z' := by
      simp [detailNote_eq, kwNote, multilineText_bt hz']
    obtain ⟨z'', hz''⟩ := kwpfx_bt_head (k := 'a') (kt := ['l', 'i', 'a', 's']) (head_format d c X) (by decide) (by decide)
    have h0'' : map CommodityDetail.alias detailAlias (formatText d c ++ X) = .bt z'' := by
      simp [detailAlias_eq, kwAlias, restOfLine_bt hz'']
    have h1 := detailFormat_rt d c hwf.1 hwf.2 X
    simp only [printCommodityDetail_eq, comDetail]
    rw [alt2_bt h0, alt2_bt h0', alt2_bt h0'']
    simp [h1]

theorem comDetail_nl (r : List Char) : ∃ z, comDetail ('\n' :: r) = .bt z := by
  obtain ⟨z1, h1⟩ := cpfx_bt_nl r
  obtain ⟨z2, h2⟩ := kwpfx_bt_nl kwNote r
  obtain ⟨z3, h3⟩ := kwpfx_bt_nl kwAlias r
  obtain ⟨z4, h4⟩ := kwpfx_bt_nl kwFormat r
  refine ⟨z4, ?_⟩
  have a1 : map CommodityDetail.comment detailComment ('\n' :: r) = .bt z1 := by
    simp [detailComment_eq, multilineText_bt h1]
  have a2 : map CommodityDetail.note detailNote ('\n' :: r) = .bt z2 := by
    simp [detailNote_eq, multilineText_bt h2]
  have a3 : map CommodityDetail.alias detailAlias ('\n' :: r) = .bt z3 := by
    simp [detailAlias_eq, restOfLine_bt h3]
  have a4 : map (fun (d, c) => CommodityDetail.format d c) detailFormat ('\n' :: r) = .bt z4 := by
    simp [detailFormat_bt h4]
  simp only [comDetail]
  rw [alt2_bt a1, alt2_bt a2, alt2_bt a3, a4]

theorem printCommodityDetail_ne_nil (x : CommodityDetail) (hwf : wfCommodityDetail x = true) :
    printCommodityDetail x ≠ [] := by
  cases x with
  | comment s => exact lineWrap_ne_nil (by simp [indent4]) (by simpa [wfCommodityDetail] using hwf)
  | note s => exact lineWrap_ne_nil (by simp [indent4]) (by simpa [wfCommodityDetail] using hwf)
  | alias s => simp [printCommodityDetail, indent4]
  | format d c => simp [printCommodityDetail, indent4]

theorem head_commodityDetail (y : CommodityDetail) (hy : wfCommodityDetail y = true) (Y : List Char) :
    (∃ s, y = .comment s ∧ Head ';' (printCommodityDetail y ++ Y)) ∨
    (∃ s, y = .note s ∧ Head 'n' (printCommodityDetail y ++ Y)) ∨
    (Head 'a' (printCommodityDetail y ++ Y)) ∨ (Head 'f' (printCommodityDetail y ++ Y)) := by
  cases y with
  | comment t =>
    exact Or.inl ⟨t, rfl, head_comment (sb := isCommentPrefix) (by simpa [wfCommodityDetail] using hy) Y⟩
  | note t =>
    exact Or.inr (Or.inl ⟨t, rfl, head_note (sb := isSpace) (by simpa [wfCommodityDetail] using hy) Y⟩)
  | alias t => exact Or.inr (Or.inr (Or.inl (head_alias t Y)))
  | format d c => exact Or.inr (Or.inr (Or.inr (head_format d c Y)))

theorem followC_print (x y : CommodityDetail) (hy : wfCommodityDetail y = true) (Y : List Char)
    (hadj : noAdjacentC (x :: y :: []) = true) : followC x (printCommodityDetail y ++ Y) := by
  cases x with
  | comment s =>
    rcases head_commodityDetail y hy Y with ⟨t, rfl, _⟩ | ⟨t, rfl, h⟩ | h | h
    · simp [noAdjacentC] at hadj
    · exact cpfx_bt_head h (by decide) (by decide)
    · exact cpfx_bt_head h (by decide) (by decide)
    · exact cpfx_bt_head h (by decide) (by decide)
  | note s =>
    rcases head_commodityDetail y hy Y with ⟨t, rfl, h⟩ | ⟨t, rfl, _⟩ | h | h
    · exact kwpfx_bt_head (k := 'n') (kt := ['o', 't', 'e']) h (by decide) (by decide)
    · simp [noAdjacentC] at hadj
    · exact kwpfx_bt_head (k := 'n') (kt := ['o', 't', 'e']) h (by decide) (by decide)
    · exact kwpfx_bt_head (k := 'n') (kt := ['o', 't', 'e']) h (by decide) (by decide)
  | alias s => trivial
  | format d c => trivial

theorem followC_nl (x : CommodityDetail) (r : List Char) : followC x ('\n' :: r) := by
  cases x with
  | comment s => exact cpfx_bt_nl r
  | note s => exact kwpfx_bt_nl kwNote r
  | alias s => trivial
  | format d c => trivial

theorem noAdjacentC_tail (x : CommodityDetail) (xs : List CommodityDetail) (h : noAdjacentC (x :: xs) = true) :
    noAdjacentC xs = true := by
  cases xs with
  | nil => rfl
  | cons y ys => cases x <;> cases y <;> simp_all [noAdjacentC]

theorem noAdjacentC_pair (x y : CommodityDetail) (ys : List CommodityDetail) (h : noAdjacentC (x :: y :: ys) = true) :
    noAdjacentC (x :: y :: []) = true := by
  cases x <;> cases y <;> simp_all [noAdjacentC]

theorem chainedC (rest : List Char) : ∀ (ds : List CommodityDetail), (∀ d ∈ ds, wfCommodityDetail d = true) →
    noAdjacentC ds = true → Chained followC printCommodityDetail ('\n' :: rest) ds := by
  intro ds
  induction ds with
  | nil => intro _ _; trivial
  | cons x xs ih =>
    intro hwf hadj
    refine ⟨?_, ih (fun d hd => hwf d (by simp [hd])) (noAdjacentC_tail x xs hadj)⟩
    cases xs with
    | nil => simpa using followC_nl x rest
    | cons y ys =>
      simp only [List.flatMap_cons, List.append_assoc]
      exact followC_print x y (hwf y (by simp)) _ (noAdjacentC_pair x y ys hadj)

/-- `commodity_declaration` reads back a printed declaration followed by an empty line -/
theorem commodityDeclaration_rt (w : List Char → Nat) (n : String) (ds : List CommodityDetail)
    (hn : wfAccountName n.toList = true) (hds : ∀ d ∈ ds, wfCommodityDetail d = true) (hadj : noAdjacentC ds = true)
    (rest : List Char) :
    commodityDeclaration (printEntry w (.commodity n ds) ++ '\n' :: rest) = .ok (.commodity n ds) ('\n' :: rest) := by
  have hs := hn
  simp [wfAccountName, wfRestOfLine] at hs
  have h1 := kw_space1 kwCommodity (n.toList ++ '\n' :: (ds.flatMap printCommodityDetail ++ '\n' :: rest))
    (stop_space_of_notBlankStart hs.1.2 _)
  have h2 := restOfLine_rt h1 hn
  obtain ⟨z, hz⟩ := comDetail_nl rest
  have h3 := repeat0_chain (p := comDetail) (pr := printCommodityDetail) followC ('\n' :: rest) z hz ds
    (fun x hx X hX => comDetail_rt x (hds x hx) X hX) (fun x hx => printCommodityDetail_ne_nil x (hds x hx))
    (chainedC rest ds hds hadj)
  have he : printEntry w (.commodity n ds) ++ '\n' :: rest =
      kwCommodity ++ ' ' :: (n.toList ++ '\n' :: (ds.flatMap printCommodityDetail ++ '\n' :: rest)) := by
    simp [printEntry, List.append_assoc]
  have hd : commodityDeclaration = (restOfLine (pair (literal kwCommodity) space1) >>- fun name =>
      repeat0 comDetail >>- fun details => pure (Entry.commodity name details)) := rfl
  rw [he, hd]
  simp only [bind_apply, h2, Res.andThen_ok, h3, pure_apply, String.ofList_toList]

/-- **C05, commodity declarations**: every well-formed `commodity` declaration round-trips -/
theorem entryRT_commodity (w : List Char → Nat) (n : String) (ds : List CommodityDetail)
    (hwf : wfEntry (.commodity n ds) = true) : EntryRT w (.commodity n ds) := by
  simp [wfEntry, List.all_eq_true] at hwf
  obtain ⟨⟨hn, hds⟩, hadj⟩ := hwf
  refine ⟨⟨'c', _, rfl, by decide, by decide, by decide, by decide⟩, ?_⟩
  intro rest
  have := commodityDeclaration_rt w n ds hn hds hadj rest
  have hdsp : parseLedgerEntry (printEntry w (.commodity n ds) ++ '\n' :: rest) =
      commodityDeclaration (printEntry w (.commodity n ds) ++ '\n' :: rest) := by
    simp [printEntry, kwCommodity, parseLedgerEntry, dispatch_cons]
  rw [hdsp, this]

/-! ## every entry that is not a transaction -/

/-- `C05_entry` for every directive and declaration: all entry kinds except transactions -/
theorem entryRT_nonTxn (w : List Char → Nat) (e : Entry) (hwf : wfEntry e = true) (hnt : ∀ t, e ≠ .txn t) :
    EntryRT w e := by
  cases e with
  | txn t => exact absurd rfl (hnt t)
  | comment s => exact entryRT_comment w s (by simpa [wfEntry] using hwf)
  | applyTag k v =>
    simp [wfEntry] at hwf
    exact entryRT_applyTag w k v hwf.1 (by intro x hx; subst hx; simpa using hwf.2)
  | endApplyTag => exact entryRT_endApplyTag w
  | «include» p => exact entryRT_include w p (by simpa [wfEntry] using hwf)
  | account n ds => exact entryRT_account w n ds hwf
  | commodity n ds => exact entryRT_commodity w n ds hwf

/-- ledgers without transactions: `format` then `parse` gives the entries back, for any display-width function -/
theorem parseEntries_format_nonTxn (w : List Char → Nat) (es : List Entry) (hwf : ∀ e ∈ es, wfEntry e = true)
    (hnt : ∀ e ∈ es, ∀ t, e ≠ .txn t) : parseEntries (formatEntries w es) = .ok es :=
  parseEntries_format w es (fun e he => entryRT_nonTxn w e (hwf e he) (hnt e he))

/-! ## non-vacuity, and the hypotheses `noAdjacentA/C` are needed -/

def exAccount : Entry :=
  .account "Assets:Bank of X" [.comment " first\nsecond\n", .note "line one\nline two\n", .alias "bank",
    .comment "again\n\n", .alias "銀行", .alias "", .note "\n"]

def exCommodity : Entry :=
  .commodity "JPY" [.comment " yen\n", .format ⟨false, 123456789, 2, some .comma3dot⟩ "JPY",
    .format ⟨true, 5, 1, none⟩ "", .alias "円", .note "n\n", .comment "c\n", .format ⟨false, 1000, 0, some .plain⟩ "¥"]

example : wfEntry exAccount = true := by decide +kernel
example : wfEntry exCommodity = true := by decide +kernel
example : EntryRT widthStd exAccount := entryRT_account _ _ _ (by decide +kernel)
example : EntryRT widthCjk exCommodity := entryRT_commodity _ _ _ (by decide +kernel)
example : parseEntries (formatEntries widthStd [exAccount, .comment "x\n", exCommodity, .account "A" []]) =
    .ok [exAccount, .comment "x\n", exCommodity, .account "A" []] :=
  parseEntries_format_nonTxn _ _ (by decide +kernel)
    (by intro e he t h; subst h; simp [exAccount, exCommodity] at he)

/-- the account / commodity declaration a parse result carries, in a type with decidable equality -/
def declOf : Res Entry → Option (String × List AccountDetail × List CommodityDetail × List Char)
  | .ok (.account n ds) r => some (n, ds, [], r)
  | .ok (.commodity n ds) r => some (n, [], ds, r)
  | _ => none

/-- two consecutive comment details are read back as one: `noAdjacentA` cannot be dropped -/
theorem not_entryRT_adjacent_comments : ¬ EntryRT widthStd (.account "A" [.comment "x\n", .comment "y\n"]) := by
  intro h
  have h1 : declOf (parseLedgerEntry (printEntry widthStd (.account "A" [.comment "x\n", .comment "y\n"]) ++ ['\n'])) =
      some ("A", [.comment "x\ny\n"], [], ['\n']) := by decide +kernel
  rw [h.2 []] at h1
  simp [declOf] at h1

/-- the same for notes in a commodity declaration: `noAdjacentC` cannot be dropped -/
theorem not_entryRT_adjacent_notes : ¬ EntryRT widthStd (.commodity "C" [.note "x\n", .note "y\n"]) := by
  intro h
  have h1 : declOf (parseLedgerEntry (printEntry widthStd (.commodity "C" [.note "x\n", .note "y\n"]) ++ ['\n'])) =
      some ("C", [], [.note "x\ny\n"], ['\n']) := by decide +kernel
  rw [h.2 []] at h1
  simp [declOf] at h1

end Okane.Unparse
