import Okane.Lemmas.C05TxnPosting
/-!
# Round trip of transactions (C05), part 3: the header line, the whole transaction, `EntryRT w (.txn t)`

Main results (all for every display-width function `w`, under the value-expression hypothesis `ExprRT P` and
`P` on the value expressions of the tree):
* `posting_rt` (in `C05TxnPosting`): `posting (printPosting w p ++ rest) = .ok p rest` for `wfPosting p`;
* `transaction_rt`: `transaction (printTransaction w t ++ rest) = .ok t rest` for `wfTransaction t`;
* `entryRT_txn`: `EntryRT w (.txn t)`; `entryRT_of_wf`: `EntryRT` for every well-formed directive or transaction;
* `C05_roundtrip_txn`: parse ∘ format = id and format idempotent for ledgers of directives and transactions.
-/
set_option linter.unusedSimpArgs false
namespace Okane.Unparse
open Okane Okane.Comb Okane.Parse

variable {P : VExpr → Prop}

/-! ## the header line -/

def edPart : Option Date → List Char
  | some e => '=' :: printDate e
  | none => []

def codePart : Option String → List Char
  | some c => '(' :: c.toList ++ [')', ' ']
  | none => []

theorem printTxnHeader_eq (t : Transaction) (Z : List Char) :
    printTxnHeader t ++ Z = printDate t.date ++ (edPart t.effectiveDate ++ ' ' :: (printClear t.clear ++
      (codePart t.code ++ (t.payee.toList ++ '\n' :: Z)))) := by
  simp only [printTxnHeader, edPart, codePart, List.append_assoc, List.cons_append, List.nil_append]
  rfl

theorem lineEndingOrEof_bt (c : Char) (r : List Char) (h1 : c ≠ '\n') (h2 : c ≠ '\r') :
    lineEndingOrEof (c :: r) = .bt (c :: r) := by
  have hl : lineEnding (c :: r) = .bt (c :: r) := by
    unfold lineEnding
    split <;> simp_all
  simp [lineEndingOrEof, alt2, hl, eof]

/-- the effective date -/
theorem edParser_rt (ed : Option Date) (hed : ∀ d, ed = some d → wfDate d = true) (Z : List Char) :
    opt (preceded (char '=') date) (edPart ed ++ ' ' :: Z) = .ok ed (' ' :: Z) := by
  cases ed with
  | none => simp [edPart, opt, char_cons_ne]
  | some d =>
    have := date_rt d (hed d rfl) (' ' :: Z) (by simp)
    simp [edPart, opt, this]

/-- what follows the code position when no code is printed: not a `(` that is closed on its line (a `(` is followed by
text without `)`, CR, LF up to a line feed) — then `paren_str` fails and the optional code backtracks -/
def NoCodeAhead (Z : List Char) : Prop :=
  ∀ r, Z = '(' :: r → ∃ a b, r = a ++ '\n' :: b ∧ ∀ x ∈ a, isParenStrStop x = false

/-- a payee without `;`, CR, LF that does not begin with `(`, or begins with `(` and holds no `)`, followed by the line feed -/
theorem noCodeAhead_payee {s : List Char} (hs : ∀ c ∈ s, (c == ';' || c == '\r' || c == '\n') = false)
    (hp : (s.head? != some '(' || !s.contains ')') = true) (Zm : List Char) : NoCodeAhead (s ++ '\n' :: Zm) := by
  intro r e
  cases s with
  | nil => cases e
  | cons c s' =>
    simp only [List.cons_append, List.cons.injEq] at e
    obtain ⟨rfl, rfl⟩ := e
    refine ⟨s', Zm, rfl, ?_⟩
    intro x hx
    have h1 := hs x (List.mem_cons_of_mem _ hx)
    simp only [List.head?_cons, bne_self_eq_false, Bool.false_or, Bool.not_eq_true', List.contains_cons] at hp
    simp only [Bool.or_eq_false_iff, beq_eq_false_iff_ne] at hp h1
    have h2 : x ≠ ')' := by
      intro e
      subst e
      have := hp.2
      simp [hx] at this
    simp [isParenStrStop, h2, h1.1.2, h1.2]

/-- the code -/
theorem codeParser_rt (code : Option String) (hc : ∀ c, code = some c → ∀ x ∈ c.toList, isParenStrStop x = false)
    (Z : List Char) (hZ : Stop isSpace Z) (hn : code = none → NoCodeAhead Z) :
    opt (terminated parenStr space0) (codePart code ++ Z) = .ok (code.map String.toList) Z := by
  cases code with
  | none =>
    have := hn rfl
    cases Z with
    | nil => simp [codePart, opt, parenStr, paren]
    | cons d r =>
      by_cases hd : d = '('
      · subst hd
        obtain ⟨a, b, rfl, ha⟩ := this r rfl
        have ht := takeTill0_append (p := isParenStrStop) (a := a) (rest := '\n' :: b) ha
          (by intro x r e; cases e; rfl)
        simp [codePart, opt, parenStr, paren, ht, char_cons_ne]
      · simp [codePart, opt, parenStr, paren, char_cons_ne hd]
  | some c =>
    have ht := takeTill0_append (p := isParenStrStop) (a := c.toList) (rest := ')' :: ' ' :: Z)
      (hc c rfl) (by intro x r e; cases e; rfl)
    have hsp : (' ' :: Z).dropWhile isSpace = Z := by
      rw [List.dropWhile_cons_of_pos (by decide)]
      exact dropWhile_of_stop hZ
    simp [codePart, opt, parenStr, paren, ht, space0_eq, hsp]

/-- the payee -/
theorem payeeParser_rt (s : List Char) (hs : ∀ c ∈ s, (c == ';' || c == '\r' || c == '\n') = false)
    (ht : endTrimmed s = true) (Z : List Char) :
    opt (map trimEnd tillLineEndingOrSemi) (s ++ '\n' :: Z) = .ok (if s = [] then none else some s) ('\n' :: Z) := by
  by_cases he : s = []
  · subst he
    have : tillLineEndingOrSemi ('\n' :: Z) = .bt ('\n' :: Z) :=
      takeTill1_stop (by intro c r e; cases e; simp)
    simp [opt, this]
  · have : tillLineEndingOrSemi (s ++ '\n' :: Z) = .ok s ('\n' :: Z) :=
      takeTill1_append he hs (by intro c r e; cases e; simp)
    simp [opt, this, he, trimEnd_eq ht]

/-! ## the posting lines -/

/-- the element of the posting loop of `transaction` -/
def postItem : Parser Posting := preceded (pair (takeWhile1 isSpace) (Comb.not lineEndingOrEof)) (cutErr posting)

theorem postItem_rt (hE : ExprRT P) (w : List Char → Nat) (p : Posting) (hp : wfPosting p = true)
    (hP : ∀ v ∈ exprsOfPosting p, P v) (X : List Char) (hX : metaStop X = true) :
    postItem (printPosting w p ++ X) = .ok p X := by
  obtain ⟨c, t, hhead, hc, h1, h2, _⟩ := printPostingBody_head w p hp
  have hsp : takeWhile1 isSpace (indent4 ++ (printPostingBody w p ++ X)) = .ok indent4 (printPostingBody w p ++ X) :=
    takeWhile1_append (by simp [indent4]) (by simp [indent4, isSpace]) (by rw [hhead]; simpa using hc)
  have hnot : Comb.not lineEndingOrEof (printPostingBody w p ++ X) = .ok () (printPostingBody w p ++ X) := by
    rw [hhead]
    exact not_bt (lineEndingOrEof_bt c _ h1 h2)
  have hpost := postingBody_rt hE w p hp hP [] (by simp) X hX
  simp only [List.nil_append] at hpost
  rw [printPosting_eq, List.append_assoc]
  simp only [postItem, preceded_apply, pair_apply, hsp, Res.andThen_ok, hnot, Res.map_ok, cutErr_ok hpost]

theorem metaStop_printPosting (w : List Char → Nat) (p : Posting) (hp : wfPosting p = true) (X : List Char) :
    metaStop (printPosting w p ++ X) = true := by
  obtain ⟨c, t, hhead, hc, _, _, h3⟩ := printPostingBody_head w p hp
  have hdw : (printPosting w p ++ X).dropWhile isSpace = c :: (t ++ X) := by
    rw [printPosting_eq, hhead]
    simp only [indent4, List.cons_append, List.nil_append]
    repeat rw [List.dropWhile_cons_of_pos (by decide)]
    rw [List.dropWhile_cons_of_neg (by simp [hc])]
  have hcons : printPosting w p ++ X = ' ' :: (' ' :: ' ' :: ' ' :: (printPostingBody w p ++ X)) := by
    rw [printPosting_eq]; simp [indent4]
  unfold metaStop
  rw [hdw, hcons]
  simp [h3]

theorem printPosting_ne_nil (w : List Char → Nat) (p : Posting) : printPosting w p ≠ [] := by
  simp [printPosting_eq, indent4]

/-- the posting loop -/
theorem posts_rt (hE : ExprRT P) (w : List Char → Nat) (ps : List Posting) (hps : ∀ p ∈ ps, wfPosting p = true)
    (hP : ∀ p ∈ ps, ∀ v ∈ exprsOfPosting p, P v) (rest : List Char) (hrest : Stop isSpace rest) :
    repeat0 postItem (ps.flatMap (printPosting w) ++ rest) = .ok ps rest := by
  have hstop : postItem rest = .bt rest := by
    simp [postItem, takeWhile1_stop hrest]
  have hms : metaStop rest = true := by
    cases rest with
    | nil => rfl
    | cons c r => simp [metaStop, (Stop_cons _ c r).1 hrest]
  have hloop := repeat0Loop_list (p := postItem) (pr := printPosting w) (fun X => metaStop X = true) rest rest hstop hms ps
    (fun p hp X hX => postItem_rt hE w p (hps p hp) (hP p hp) X hX) (fun p _ => printPosting_ne_nil w p)
    (fun p hp X => metaStop_printPosting w p (hps p hp) X)
    ((ps.flatMap (printPosting w) ++ rest).length + 1) [] (by
      have := length_le_flatMap (printPosting w) ps (fun p _ => printPosting_ne_nil w p)
      rw [List.length_append]; omega)
  change repeat0Loop _ _ _ [] = _
  simpa using hloop

/-! ## the whole transaction -/

/-- the value expressions of a transaction -/
def exprsOfTransaction (t : Transaction) : List VExpr := t.posts.flatMap exprsOfPosting

theorem transaction_eq : transaction =
    (date >>- fun d =>
     opt (preceded (char '=') date) >>- fun ed =>
     hasPeek (lineEndingOrEof <|| void (char ';')) >>- fun isShortest =>
     Comb.cond (!isShortest) space1 >>- fun _ =>
     clearState >>- fun cs =>
     opt (terminated parenStr space0) >>- fun code =>
     opt (map trimEnd tillLineEndingOrSemi) >>- fun payee =>
     blockMetadata >>- fun md =>
     repeat0 postItem >>- fun posts =>
     pure { date := d, effectiveDate := ed, clear := cs, code := code.map String.ofList,
            payee := String.ofList (payee.getD []), posts := posts, metadata := md }) := rfl

/-- **the transaction round trip**: `transaction` reads back every well-formed printed transaction (whose value
expressions satisfy `P`), for every display-width function, before any text that does not begin with a blank -/
theorem transaction_rt (hE : ExprRT P) (w : List Char → Nat) (t : Transaction) (ht : wfTransaction t = true)
    (hP : ∀ v ∈ exprsOfTransaction t, P v) (rest : List Char) (hrest : Stop isSpace rest) :
    transaction (printTransaction w t ++ rest) = .ok t rest := by
  simp only [wfTransaction, Bool.and_eq_true] at ht
  obtain ⟨⟨⟨⟨⟨hd, hed⟩, hcode⟩, hpayee⟩, hmeta⟩, hposts⟩ := ht
  simp only [wfPayee, Bool.and_eq_true] at hpayee
  obtain ⟨⟨⟨hp1, hp2⟩, hp3⟩, hp4⟩ := hpayee
  have hps : ∀ p ∈ t.posts, wfPosting p = true := by simpa [List.all_eq_true] using hposts
  have hms : ∀ m ∈ t.metadata, wfMetadata m = true := by simpa [List.all_eq_true] using hmeta
  have hPp : ∀ p ∈ t.posts, ∀ v ∈ exprsOfPosting p, P v := by
    intro p hp v hv
    exact hP v (List.mem_flatMap.mpr ⟨p, hp, hv⟩)
  -- the text after the header and the transaction's metadata lines
  obtain ⟨Zp, hZp⟩ : ∃ Zp, Zp = t.posts.flatMap (printPosting w) ++ rest := ⟨_, rfl⟩
  obtain ⟨Zm, hZm⟩ : ∃ Zm, Zm = t.metadata.flatMap printMetaLine ++ Zp := ⟨_, rfl⟩
  have htext : printTransaction w t ++ rest = printDate t.date ++ (edPart t.effectiveDate ++ ' ' :: (printClear t.clear ++
      (codePart t.code ++ (t.payee.toList ++ '\n' :: Zm)))) := by
    rw [hZm, hZp]
    simp only [printTransaction, List.append_assoc]
    rw [printTxnHeader_eq]
  -- payee facts
  have hpchars : ∀ c ∈ t.payee.toList, (c == ';' || c == '\r' || c == '\n') = false := by
    intro c hc
    simp only [List.all_eq_true] at hp1
    simpa using hp1 c hc
  have hpstop : Stop isSpace (t.payee.toList ++ '\n' :: Zm) := stop_space_of_notBlankStart hp2 Zm
  -- 1. date
  have h1 := date_rt t.date hd (edPart t.effectiveDate ++ ' ' :: (printClear t.clear ++
      (codePart t.code ++ (t.payee.toList ++ '\n' :: Zm)))) (by
    cases t.effectiveDate <;> simp [edPart])
  -- 2. effective date
  have h2 := edParser_rt t.effectiveDate (by intro d e; rw [e] at hed; exact hed) (printClear t.clear ++
      (codePart t.code ++ (t.payee.toList ++ '\n' :: Zm)))
  -- 3. not the shortest form
  have h3 : hasPeek (lineEndingOrEof <|| void (char ';')) (' ' :: (printClear t.clear ++
      (codePart t.code ++ (t.payee.toList ++ '\n' :: Zm)))) = .ok false (' ' :: (printClear t.clear ++
      (codePart t.code ++ (t.payee.toList ++ '\n' :: Zm)))) := by
    apply hasPeek_bt (z := ' ' :: (printClear t.clear ++ (codePart t.code ++ (t.payee.toList ++ '\n' :: Zm))))
    simp [alt2, lineEndingOrEof_bt ' ' _ (by decide) (by decide), char_cons_ne]
  -- 4. one blank
  have hcodestop : Stop isSpace (codePart t.code ++ (t.payee.toList ++ '\n' :: Zm)) := by
    cases t.code with
    | none => simpa [codePart] using hpstop
    | some c => simp [codePart, isSpace]
  have hclstop : Stop isSpace (printClear t.clear ++ (codePart t.code ++ (t.payee.toList ++ '\n' :: Zm))) := by
    cases t.clear with
    | uncleared => simpa [printClear] using hcodestop
    | cleared => simp [printClear, isSpace]
    | pending => simp [printClear, isSpace]
  have h4 : space1 (' ' :: (printClear t.clear ++ (codePart t.code ++ (t.payee.toList ++ '\n' :: Zm)))) =
      .ok [' '] (printClear t.clear ++ (codePart t.code ++ (t.payee.toList ++ '\n' :: Zm))) := by
    simpa using space1_append (a := [' ']) (by simp) (by simp [isSpace]) hclstop
  -- 5. clear state
  have h5 := clearState_rt t.clear (codePart t.code ++ (t.payee.toList ++ '\n' :: Zm)) hcodestop (by
    intro hu
    rw [hu] at hp4
    cases hc : t.code with
    | some c => simp [codePart, isClearMark]
    | none =>
      rw [hc] at hp4
      simp only [Option.isSome_none, bne_self_eq_false, Bool.false_or, Bool.and_eq_true] at hp4
      have hm := hp4.1
      simp only [codePart, List.nil_append]
      cases hpl : t.payee.toList with
      | nil => simp [isClearMark]
      | cons c r =>
        rw [hpl] at hm
        simpa [notClearMarkStart, isClearMark] using hm)
  -- 6. code
  have h6 := codeParser_rt t.code (by
      intro c e x hx
      rw [e] at hcode
      simp only [wfCode, List.all_eq_true] at hcode
      simpa using hcode x hx) (t.payee.toList ++ '\n' :: Zm) hpstop (by
    intro hc
    rw [hc] at hp4
    simp only [Option.isSome_none, Bool.false_or, Bool.and_eq_true] at hp4
    exact noCodeAhead_payee hpchars hp4.2 Zm)
  -- 7. payee
  have h7 := payeeParser_rt t.payee.toList hpchars hp3 Zm
  -- 8. metadata
  have hmsZp : metaStop Zp = true := by
    rw [hZp]
    cases hpo : t.posts with
    | nil =>
      simp only [List.flatMap_nil, List.nil_append]
      cases rest with
      | nil => rfl
      | cons c r => simp [metaStop, (Stop_cons _ c r).1 hrest]
    | cons p ps =>
      simp only [List.flatMap_cons, List.append_assoc]
      exact metaStop_printPosting w p (hps p (by simp [hpo])) _
  have h8 := blockMetadata_rt t.metadata hms Zp hmsZp
  rw [← hZm] at h8
  -- 9. postings
  have h9 := posts_rt hE w t.posts hps hPp rest hrest
  rw [← hZp] at h9
  rw [htext, transaction_eq]
  simp only [bind_apply, h1, Res.andThen_ok, h2, h3, Bool.not_false, Comb.cond, if_true, map_apply, h4, Res.map_ok,
    h5, h6, h7, h8, h9, pure_apply]
  have hcode' : Option.map String.ofList (Option.map String.toList t.code) = t.code := by
    cases t.code <;> simp
  have hpayee' : String.ofList ((if t.payee.toList = [] then none else some t.payee.toList).getD []) = t.payee := by
    by_cases he : t.payee.toList = []
    · simp only [he, if_true, Option.getD_none]
      rw [← he]; simp
    · simp [he]
  rw [hcode', hpayee']


/-! ## the entry -/

theorem parseLedgerEntry_digit (c : Char) (r : List Char) (hc : c.isDigit = true) :
    parseLedgerEntry (c :: r) = map Entry.txn transaction (c :: r) := by
  have hne : ∀ d : Char, d.isDigit = false → (c == d) = false := by
    intro d hd
    cases h : c == d with
    | false => rfl
    | true =>
      have : c = d := by simpa using h
      subst this
      rw [hc] at hd
      cases hd
  have hcp : isCommentPrefix c = false := by
    simp [isCommentPrefix, hne ';' (by decide), hne '#' (by decide), hne '%' (by decide), hne '|' (by decide),
      hne '*' (by decide)]
  simp only [parseLedgerEntry, dispatch_cons, hne 'a' (by decide), hne 'c' (by decide), hne 'e' (by decide),
    hne 'i' (by decide), hcp, hc, Bool.false_eq_true, if_false, if_true]

/-- **`EntryRT` for transactions**: the entry parser reads back every well-formed printed transaction whose value
expressions satisfy `P` (followed by the empty line `format` writes), for every display-width function -/
theorem entryRT_txn (hE : ExprRT P) (w : List Char → Nat) (t : Transaction) (ht : wfTransaction t = true)
    (hP : ∀ v ∈ exprsOfTransaction t, P v) : EntryRT w (.txn t) := by
  have hy : 0 ≤ t.date.y := by
    simp only [wfTransaction, wfDate, Bool.and_eq_true, decide_eq_true_eq] at ht
    exact ht.1.1.1.1.1.1.2
  obtain ⟨c, r, hpd, hcd⟩ := printDate_head t.date hy
  have hne : ∀ d : Char, d.isDigit = false → c ≠ d := by
    intro d hd e; subst e; rw [hcd] at hd; cases hd
  have hpe : printEntry w (.txn t) = c :: (r ++ (edPart t.effectiveDate ++ ' ' :: (printClear t.clear ++
      (codePart t.code ++ (t.payee.toList ++ '\n' ::
        (t.metadata.flatMap printMetaLine ++ t.posts.flatMap (printPosting w))))))) := by
    have := printTxnHeader_eq t (t.metadata.flatMap printMetaLine ++ t.posts.flatMap (printPosting w))
    simp only [printEntry, printTransaction, List.append_assoc]
    rw [this, hpd]
    rfl
  refine ⟨⟨c, _, hpe, hne _ (by decide), hne _ (by decide), hne _ (by decide), hne _ (by decide)⟩, ?_⟩
  intro rest
  have hrt := transaction_rt hE w t ht hP ('\n' :: rest) (by simp [isSpace])
  have hd : parseLedgerEntry (printEntry w (.txn t) ++ '\n' :: rest) =
      map Entry.txn transaction (printEntry w (.txn t) ++ '\n' :: rest) := by
    rw [hpe]
    exact parseLedgerEntry_digit c _ hcd
  rw [hd]
  simp only [map_apply]
  have : printEntry w (.txn t) = printTransaction w t := rfl
  rw [this, hrt]
  rfl

/-- directives whose round trip is proved in `C05Round`, and transactions -/
def isDirectiveOrTxn : Entry → Bool
  | .txn _ => true
  | .comment _ => true
  | .applyTag _ _ => true
  | .endApplyTag => true
  | .include _ => true
  | _ => false

def exprsOfEntry : Entry → List VExpr
  | .txn t => exprsOfTransaction t
  | _ => []

/-- `C05_entry_partial` extended to transactions -/
theorem entryRT_of_wf (hE : ExprRT P) (w : List Char → Nat) (e : Entry) (hwf : wfEntry e = true)
    (hk : isDirectiveOrTxn e = true) (hP : ∀ v ∈ exprsOfEntry e, P v) : EntryRT w e := by
  cases e with
  | txn t => exact entryRT_txn hE w t (by simpa [wfEntry] using hwf) hP
  | comment s => exact entryRT_comment w s (by simpa [wfEntry] using hwf)
  | applyTag k v =>
    simp [wfEntry] at hwf
    exact entryRT_applyTag w k v hwf.1 (by intro x hx; subst hx; simpa using hwf.2)
  | endApplyTag => exact entryRT_endApplyTag w
  | «include» p => exact entryRT_include w p (by simpa [wfEntry] using hwf)
  | account n ds => simp [isDirectiveOrTxn] at hk
  | commodity n ds => simp [isDirectiveOrTxn] at hk

/-- round trip and idempotence of `format` for ledgers made of the proved directives and of transactions -/
theorem C05_roundtrip_txn (hE : ExprRT P) (w : List Char → Nat) (t : List Char) (es : List Entry)
    (hp : parseEntries t = .ok es) (hwf : ∀ e ∈ es, wfEntry e = true) (hk : ∀ e ∈ es, isDirectiveOrTxn e = true)
    (hP : ∀ e ∈ es, ∀ v ∈ exprsOfEntry e, P v) :
    ∃ f, format w t = .ok f ∧ parseEntries f = .ok es ∧ format w f = .ok f := by
  have hrt : ∀ e ∈ es, EntryRT w e := fun e he => entryRT_of_wf hE w e (hwf e he) (hk e he) (hP e he)
  have h := parseEntries_format w es hrt
  exact ⟨formatEntries w es, by simp [format, hp, Outcome.map'], h, by simp [format, h, Outcome.map']⟩

/-! ## non-vacuity -/

/-- ```
2024/01/05=2024/01/06 * (#12) Grocery store
    ; :food:weekly:
    ; note: fresh
    ; a comment: not a key
    Expenses:Food Market                       12.50 USD {1.1 EUR} [2024/01/02] (lot note) @@ 0.9 EUR = 100 USD
    ; k:: 1 + 2
    ! Assets:Cash                         (0 - 12.50 USD)
    Equity:Rest                                      = 0
``` -/
def exTxn : Transaction :=
  { date := ⟨2024, 1, 5⟩, effectiveDate := some ⟨2024, 1, 6⟩, clear := .cleared, code := some "#12",
    payee := "Grocery store",
    metadata := [.wordTags ["food", "weekly"], .keyValue "note" (.text "fresh"), .comment "a comment: not a key"],
    posts := [
      { account := "Expenses:Food Market",
        amount := some { amount := .amt ⟨false, 1250, 2, none⟩ "USD",
                         lot := { price := some (.rate (.amt ⟨false, 11, 1, none⟩ "EUR")), date := some ⟨2024, 1, 2⟩,
                                  note := some "lot note" },
                         cost := some (.total (.amt ⟨false, 9, 1, none⟩ "EUR")) },
        balance := some (.amt ⟨false, 100, 0, none⟩ "USD"),
        metadata := [.keyValue "k" (.expr "1 + 2")] },
      { account := "Assets:Cash", clear := .pending,
        amount := some { amount := .paren (.bin .sub (.val (.amt ⟨false, 0, 0, none⟩ ""))
                                            (.val (.amt ⟨false, 1250, 2, none⟩ "USD"))) } },
      { account := "Equity:Rest", balance := some (.amt ⟨false, 0, 0, none⟩ "") } ] }

/-- the conclusion of `ExprRT`, as a check -/
def exprRTCheck (v : VExpr) (rest : List Char) : Bool :=
  match valueExpr (printVExpr v ++ rest) with
  | .ok v' r' => v' == v && r'.dropWhile isSpace == rest.dropWhile isSpace
  | _ => false

def transactionRTCheck (w : List Char → Nat) (t : Transaction) (rest : List Char) : Bool :=
  match transaction (printTransaction w t ++ rest) with
  | .ok t' r => t' == t && r == rest
  | _ => false

def postingRTCheck (w : List Char → Nat) (p : Posting) (rest : List Char) : Bool :=
  match posting (printPosting w p ++ rest) with
  | .ok p' r => p' == p && r == rest
  | _ => false

/-- `wfVExpr` is defined by well-founded recursion (the kernel does not unfold it): unfold the predicates on the
concrete tree with their equations, then let the kernel evaluate the rest -/
macro "wf_decide" : tactic => `(tactic|
  (simp only [wfEntry, wfTransaction, wfPosting, wfPostingAmount, wfLot, wfExchange, wfVExpr, wfAdd, wfMul, wfUnary,
     List.all_cons, List.all_nil]
   decide +kernel))

theorem exTxn_wf : wfTransaction exTxn = true := by unfold exTxn; wf_decide
theorem exTxn_posts_wf : ∀ p ∈ exTxn.posts, wfPosting p = true := by
  have := exTxn_wf
  simp only [wfTransaction, Bool.and_eq_true, List.all_eq_true] at this
  exact this.2
example : wfEntry (.txn exTxn) = true ∧ isDirectiveOrTxn (.txn exTxn) = true := ⟨exTxn_wf, rfl⟩
/-- the hypotheses of `transaction_rt` are satisfiable, and its conclusion is what the model computes -/
example (hE : ExprRT P) (hP : ∀ v ∈ exprsOfTransaction exTxn, P v) :
    transaction (printTransaction widthStd exTxn ++ ['\n']) = .ok exTxn ['\n'] :=
  transaction_rt hE widthStd exTxn exTxn_wf hP ['\n'] (by simp [isSpace])
example : transactionRTCheck widthStd exTxn ['\n'] = true := by decide +kernel
example : transactionRTCheck widthCjk exTxn ['x'] = true := by decide +kernel
/-- instances of the conclusion of `ExprRT` on the expressions of the example, in the positions they occur -/
example : (exprsOfTransaction exTxn).length = 6 := by decide +kernel
example : ∀ v ∈ exprsOfTransaction exTxn, exprRTCheck v " = 1".toList = true ∧ exprRTCheck v "}".toList = true ∧
    exprRTCheck v "  @ 2".toList = true ∧ exprRTCheck v "\n".toList = true := by decide +kernel
example (hE : ExprRT P) (hP : ∀ v ∈ exprsOfTransaction exTxn, P v) : EntryRT widthStd (.txn exTxn) :=
  entryRT_txn hE widthStd exTxn exTxn_wf hP
example (hE : ExprRT P) (hP : ∀ p ∈ exTxn.posts, ∀ v ∈ exprsOfPosting p, P v) :
    ∀ p ∈ exTxn.posts, posting (printPosting widthCjk p ++ "  x".toList) = .ok p "  x".toList := by
  intro p hp
  exact posting_rt hE widthCjk p (exTxn_posts_wf p hp) (hP p hp) _
    (by decide +kernel)
example : date (printDate ⟨9999, 12, 31⟩ ++ [' ']) = .ok ⟨9999, 12, 31⟩ [' '] :=
  date_rt ⟨9999, 12, 31⟩ (by decide) [' '] (by simp)
example : preceded space1 lineMetadata (printMetaLine (.comment "x y: z") ++ ['q']) = .ok (.comment "x y: z") ['q'] :=
  metaLine_rt_all _ (by decide +kernel) _

/-! ## the transaction code must be closed on its line: payees that begin with `(`, codes with a line break

`wfPayee` admits a payee that begins with `(` when no code is printed, provided it holds no `)` (it is read back as the
payee: `paren_str` fails at the line end); with a `)` it would be read back as a code.  `wfCode` excludes CR and LF (before
`paren_str` had to close on its line they were tolerated): the printed code would no longer be read as a code. -/

/-- `2024/01/01 ! (abc⏎    A⏎` -/
def exTxnParen : Transaction :=
  { date := ⟨2024, 1, 1⟩, clear := .pending, payee := "(abc", posts := [{ account := "A" }] }

theorem exTxnParen_wf : wfTransaction exTxnParen = true := by unfold exTxnParen; wf_decide
example : exTxnParen.code = none ∧ exTxnParen.payee.toList.head? = some '(' := by decide
example (hE : ExprRT P) : transaction (printTransaction widthStd exTxnParen ++ ['\n']) = .ok exTxnParen ['\n'] :=
  transaction_rt hE widthStd exTxnParen exTxnParen_wf (by intro v hv; simp [exprsOfTransaction, exTxnParen, exprsOfPosting] at hv)
    ['\n'] (by simp [isSpace])
example : transactionRTCheck widthStd exTxnParen ['\n'] = true := by decide +kernel
/-- also before an entry that holds a `)` (formerly the code ran on to it) -/
example : transactionRTCheck widthStd exTxnParen "\naccount X)\n".toList = true := by decide +kernel

/-- the two new conditions are needed: a payee `(a)bc` without code, a code with a line feed or a carriage return, are
not read back -/
theorem paren_conditions_needed :
    (let t : Transaction := { date := ⟨2024, 1, 1⟩, payee := "(a)bc" }
     wfTransaction t = false ∧ transactionRTCheck widthStd t ['\n'] = false) ∧
    (let t : Transaction := { date := ⟨2024, 1, 1⟩, code := some "a\nb", payee := "x" }
     wfTransaction t = false ∧ transactionRTCheck widthStd t ['\n'] = false) ∧
    (let t : Transaction := { date := ⟨2024, 1, 1⟩, code := some "a\rb", payee := "x" }
     wfTransaction t = false ∧ transactionRTCheck widthStd t ['\n'] = false) := by
  decide +kernel

/-! ## `wfVExpr` alone is not enough: the full-strength statements, and their negation from a witness

`(-1)` — the tree `paren (val (amt −1))` — satisfies `wfVExpr` (hence `wfPosting`, `wfTransaction`, `wfEntry`), but the
expression parser reads its printed form back as `paren (neg (val (amt 1)))`: `unary_expr` takes the `-` before the
number token is tried (same in the Rust).  No text parses to the first tree, so `format` never meets it; the
predicate `P` of `ExprRT P` is there to exclude it. -/

/-- the posting round trip for every `wfPosting` tree (false) -/
def posting_rt_stmt : Prop :=
  ∀ (w : List Char → Nat) (p : Posting) (rest : List Char), wfPosting p = true → metaStop rest = true →
    posting (printPosting w p ++ rest) = .ok p rest

/-- `EntryRT` for every `wfTransaction` tree (false) -/
def entryRT_txn_stmt : Prop := ∀ (w : List Char → Nat) (t : Transaction), wfTransaction t = true → EntryRT w (.txn t)

def cexPosting : Posting := { account := "A", amount := some { amount := .paren (.val (.amt ⟨true, 1, 0, none⟩ "")) } }
def cexTxn : Transaction := { date := ⟨2024, 1, 1⟩, posts := [cexPosting] }

theorem not_posting_rt_stmt : ¬ posting_rt_stmt := by
  intro h
  have h1 := h widthStd cexPosting ['\n'] (by unfold cexPosting; wf_decide) (by decide +kernel)
  have h2 : postingRTCheck widthStd cexPosting ['\n'] = false := by decide +kernel
  unfold postingRTCheck at h2
  rw [h1] at h2
  have h3 : (cexPosting == cexPosting && ['\n'] == ['\n']) = true := by decide +kernel
  simp only [h3] at h2
  cases h2

theorem not_entryRT_txn_stmt : ¬ entryRT_txn_stmt := by
  intro h
  have h1 := (h widthStd cexTxn (by unfold cexTxn cexPosting; wf_decide)).2 []
  have h2 : (match parseLedgerEntry (printEntry widthStd (.txn cexTxn) ++ ['\n']) with
      | .ok e _ => e == .txn cexTxn
      | _ => false) = false := by decide +kernel
  rw [h1] at h2
  have h3 : (Entry.txn cexTxn == Entry.txn cexTxn) = true := by decide +kernel
  simp only [h3] at h2
  cases h2

end Okane.Unparse
