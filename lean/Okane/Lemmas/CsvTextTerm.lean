import Okane.Lemmas.CsvText
/-!
# The canonical writer with any of the three line ends, and a last line without line end

`readRecords_write` (`Lemmas/CsvText.lean`) is about text whose rows end in `\n`.  Bank exports end their lines in `\r\n` (some in
`\r`), and the last line often has no line end.  Here: for each of the three line ends the reader accepts and with or without
a line end after the last row, reading the written text gives back the rows (`readRecords_writeWith`).
-/
namespace Okane.Import.CsvText
open Okane Okane.Import

/-- the line ends `Terminator::CRLF` accepts -/
inductive LineEnd where
  | lf | crlf | cr
  deriving Repr, DecidableEq, Inhabited

def LineEnd.bytes : LineEnd → Bytes
  | .lf => [LF]
  | .crlf => [CR, LF]
  | .cr => [CR]

/-- the rows in canonical form, each followed by the line end `e` — the last one only if `final` -/
def writeCsvWith (d : UInt8) (e : LineEnd) (final : Bool) (rows : List (List Bytes)) : Bytes :=
  match rows.getLast? with
  | none => []
  | some last =>
    (rows.dropLast.flatMap fun r => writeFields d r ++ e.bytes) ++ writeFields d last ++ (if final then e.bytes else [])

/-- the states in which a record may start -/
def RowStart (st : Nfa) : Prop := st = .startRecord ∨ st = .endRecord ∨ st = .crlf

theorem RowStart.fieldStart {st : Nfa} (h : RowStart st) : FieldStart st := by
  rcases h with h | h | h <;> simp [FieldStart, h]

/-- the reader after the last field of a written row: inside / after the field with its text in `cur`, or — empty unquoted
last field after a delimiter — still on the delimiter -/
def FieldDone (st : Nfa) (cur : Bytes) : Prop := InPlain st ∨ (cur = [] ∧ st = .endFieldDelim)

/-- a written row without its line end -/
theorem run_fields_open (d : UInt8) (hd : GoodDelim d) : ∀ (r : List Bytes), r ≠ [] → ∀ (st0 : Nfa), FieldStart st0 →
    (st0 = .endFieldDelim ∨ r ≠ [[]]) → ∀ (fields : List Bytes) (recs : List (Nat × List Bytes)) (line recLine : Nat),
    ∃ st1 l init last, r = init ++ [last] ∧ FieldDone st1 last ∧
      Rd.run d ⟨st0, [], fields, recs, line, recLine⟩ (writeFields d r) = ⟨st1, last, fields ++ init, recs, l, recLine⟩ := by
  intro r
  induction r with
  | nil => intro h; exact absurd rfl h
  | cons f rest ih =>
    intro _ st0 hst hrow fields recs line recLine
    obtain ⟨st1, l, hst1, hrun⟩ := run_field d f st0 hst fields recs line recLine
    cases rest with
    | nil =>
      refine ⟨st1, l, [], f, rfl, ?_, by simpa [writeFields] using hrun⟩
      rcases hst1 with h1 | ⟨hf, h1⟩
      · exact Or.inl h1
      · subst hf; subst h1
        rcases hrow with h | h
        · exact Or.inr ⟨rfl, h⟩
        · exact absurd rfl h
    | cons g rest' =>
      have hstep : Rd.step d ⟨st1, f, fields, recs, l, recLine⟩ d = ⟨.endFieldDelim, [], fields ++ [f], recs, l, recLine⟩ := by
        rcases hst1 with h1 | ⟨hf, h1⟩
        · exact step_in_delim d f fields recs l recLine hd st1 h1
        · subst hf; subst h1
          exact step_start_delim d fields recs l recLine hd st1 hst
      obtain ⟨st2, l', init, last, hr, hdone, h'⟩ :=
        ih (by simp) .endFieldDelim (Or.inr (Or.inr (Or.inl rfl))) (Or.inl rfl) (fields ++ [f]) recs l recLine
      refine ⟨st2, l', f :: init, last, by simp [hr], hdone, ?_⟩
      simp only [writeFields, run_append, hrun, run_cons, hstep, h']
      simp

/-- any of the three line ends after the last field hands out the record and leaves the reader where a record may start -/
theorem run_lineEnd (d : UInt8) (hd : GoodDelim d) (e : LineEnd) (st : Nfa) (cur : Bytes) (hdone : FieldDone st cur)
    (fields : List Bytes) (recs : List (Nat × List Bytes)) (line recLine : Nat) :
    ∃ st1 l l', RowStart st1 ∧
      Rd.run d ⟨st, cur, fields, recs, line, recLine⟩ e.bytes = ⟨st1, [], [], recs ++ [(recLine, fields ++ [cur])], l, l'⟩ := by
  obtain ⟨h1, h2, h3, h4, h5⟩ := good_facts hd
  have hdl : (d == 10) = false := h4
  have hdc : (d == 13) = false := by simpa using fun e => hd.2.1 e
  have hst : InPlain st ∨ st = .endFieldDelim := by
    rcases hdone with h | ⟨_, h⟩
    · exact Or.inl h
    · exact Or.inr h
  have hcr : Rd.step d ⟨st, cur, fields, recs, line, recLine⟩ CR =
      ⟨.crlf, [], [], recs ++ [(recLine, fields ++ [cur])], line, line⟩ := by
    rcases hst with (h | h) | h <;> subst h <;>
      simp [Rd.step, dfaStep_inField, dfaStep_inDoubleEscapedQuote, dfaStep_endFieldDelim, hdc, isTerm]
  cases e with
  | lf =>
    exact ⟨.endRecord, line + 1, line + 1, Or.inr (Or.inl rfl),
      by simpa [LineEnd.bytes] using step_in_LF d cur fields recs line recLine st hst hd⟩
  | cr => exact ⟨.crlf, line, line, Or.inr (Or.inr rfl), by simpa [LineEnd.bytes] using hcr⟩
  | crlf =>
    refine ⟨.startRecord, line + 1, line, Or.inl rfl, ?_⟩
    simp only [LineEnd.bytes, run_cons, run_nil, hcr]
    simp [Rd.step, dfaStep_crlf]

/-- rows, each followed by its line end -/
theorem run_rows_with (d : UInt8) (hd : GoodDelim d) (e : LineEnd) : ∀ (rows : List (List Bytes)),
    (∀ r ∈ rows, WritableRow r) → ∀ (st0 : Nfa), RowStart st0 → ∀ (recs : List (Nat × List Bytes)) (line recLine : Nat),
    ∃ st1 l l' recs', RowStart st1 ∧ recs'.map Prod.snd = recs.map Prod.snd ++ rows ∧
      Rd.run d ⟨st0, [], [], recs, line, recLine⟩ (rows.flatMap fun r => writeFields d r ++ e.bytes) =
        ⟨st1, [], [], recs', l, l'⟩ := by
  intro rows
  induction rows with
  | nil => intro _ st0 hst recs line recLine; exact ⟨st0, line, recLine, recs, hst, by simp, by simp⟩
  | cons r rest ih =>
    intro hrows st0 hst recs line recLine
    have hr := hrows r (by simp)
    obtain ⟨st1, l, init, last, hsplit, hdone, hrun⟩ :=
      run_fields_open d hd r hr.1 st0 hst.fieldStart (Or.inr hr.2) [] recs line recLine
    obtain ⟨st2, l2, l2', hst2, hend⟩ := run_lineEnd d hd e st1 last hdone ([] ++ init) recs l recLine
    obtain ⟨st3, l3, l3', recs', hst3, hmap, hrest⟩ :=
      ih (fun x hx => hrows x (by simp [hx])) st2 hst2 (recs ++ [(recLine, [] ++ init ++ [last])]) l2 l2'
    refine ⟨st3, l3, l3', recs', hst3, ?_, ?_⟩
    · rw [hmap, hsplit]; simp
    · simp only [List.flatMap_cons, run_append, hrun, hend, hrest]

theorem finish_rowStart (st : Nfa) (h : RowStart st) (cur : Bytes) (fields : List Bytes) (recs : List (Nat × List Bytes))
    (l l' : Nat) : Rd.finish ⟨st, cur, fields, recs, l, l'⟩ = recs := by
  rcases h with h | h | h <;> subst h <;> rfl

theorem finish_fieldDone (st : Nfa) (cur : Bytes) (h : FieldDone st cur) (fields : List Bytes)
    (recs : List (Nat × List Bytes)) (l l' : Nat) :
    Rd.finish ⟨st, cur, fields, recs, l, l'⟩ = recs ++ [(l', fields ++ [cur])] := by
  rcases h with (h | h) | ⟨_, h⟩ <;> subst h <;> rfl

/-- **`readCsv (writeCsv rows) = rows` for every line end and with or without a final line end.**  For a delimiter that is
not the quote or a line end, writable rows (non-empty, not a lone empty field) and a text that does not begin with a byte order
mark: whether the lines end in `\n`, `\r\n` or `\r`, and whether or not the last line has its line end, the reader gives back
exactly the rows. -/
theorem readRecords_writeWith (d : UInt8) (hd : GoodDelim d) (e : LineEnd) (final : Bool) (rows : List (List Bytes))
    (hrows : ∀ r ∈ rows, WritableRow r) (hbom : NoBom (writeCsvWith d e final rows)) :
    readRecords d (writeCsvWith d e final rows) = rows := by
  unfold readRecords readRecordsPos
  rw [hbom]
  unfold writeCsvWith
  cases hl : rows.getLast? with
  | none =>
    have : rows = [] := List.getLast?_eq_none_iff.1 hl
    subst this
    simp [Rd.init, Rd.finish]
  | some last =>
    have hsplit : rows = rows.dropLast ++ [last] := by
      have hne : rows ≠ [] := by intro h; subst h; simp at hl
      have := List.dropLast_concat_getLast hne
      rw [List.getLast?_eq_some_getLast hne] at hl
      simp only [Option.some.injEq] at hl
      rw [hl] at this
      exact this.symm
    have hinit : ∀ r ∈ rows.dropLast, WritableRow r := fun r hr => hrows r (List.dropLast_subset _ hr)
    have hlast : WritableRow last := hrows last (by rw [hsplit]; simp)
    obtain ⟨st1, l, l', recs', hst1, hmap, hrun⟩ :=
      run_rows_with d hd e rows.dropLast hinit .startRecord (Or.inl rfl) [] 1 1
    obtain ⟨st2, l2, init, lastF, hsp, hdone, hrun2⟩ :=
      run_fields_open d hd last hlast.1 st1 hst1.fieldStart (Or.inr hlast.2) [] recs' l l'
    simp only
    unfold Rd.init
    rw [run_append, run_append, hrun, hrun2]
    cases final with
    | true =>
      obtain ⟨st3, l3, l3', hst3, hend⟩ := run_lineEnd d hd e st2 lastF hdone ([] ++ init) recs' l2 l'
      simp only [if_true, hend, finish_rowStart st3 hst3]
      rw [List.map_append, hmap]
      conv => rhs; rw [hsplit, hsp]
      simp
    | false =>
      simp only [Bool.false_eq_true, if_false, run_nil, finish_fieldDone st2 lastF hdone]
      rw [List.map_append, hmap]
      conv => rhs; rw [hsplit, hsp]
      simp

/-- the `\r\n` text of a statement with a quoted cell, last line without line end -/
example : writeCsvWith COMMA .crlf false [[[100], [112]], [[49], [120, 44, 121]], [[50], []]] =
    [100, 44, 112, 13, 10, 49, 44, 34, 120, 44, 121, 34, 13, 10, 50, 44] := by decide +kernel
example : readRecords COMMA [100, 44, 112, 13, 10, 49, 44, 34, 120, 44, 121, 34, 13, 10, 50, 44] =
    [[[100], [112]], [[49], [120, 44, 121]], [[50], []]] := by decide +kernel

end Okane.Import.CsvText
