import Okane.Lemmas.C11TextComb
/-!
# Locality of the value-expression parser (C11 at the level of texts)

`expr::value_expr` and `expr::amount` stay within the line: blanks are `space0`, a number is digits, `,` and `.`, a commodity
stops at `\n` (`NON_COMMODITY_CHARS`).  On a text that holds a `\n` their result is decided whatever follows the text
(`WL`), although the model gives the two runs different fuel (`parseFuel` of different texts): fuel monotonicity
(`C11Mono.mono`, the same induction as in `DocAcceptExpr`, repeated here so that this file does not depend on the C07 / documentation
development).
-/
set_option linter.unusedSimpArgs false
set_option linter.unusedVariables false
namespace Okane.ExprSyntax.C11Mono
open Okane Okane.Literal Okane.ExprSyntax

theorem valueExpr_cons_paren (f : Nat) (r : List Char) :
    valueExpr (f + 1) ('(' :: r) =
      match addExpr f (skipSpaces r) with
      | .ok e rest =>
        match skipSpaces rest with
        | ')' :: rest' => .ok (.paren e) rest'
        | other => .fail other
      | .fail pos => .fail pos
      | .fuelOut => .fuelOut := by
  rw [valueExpr]; rfl

theorem valueExpr_nil (f : Nat) : valueExpr (f + 1) [] = .fail [] := by rw [valueExpr]

theorem valueExpr_other (f : Nat) {c : Char} (cs : List Char) (h : c ≠ '(') :
    valueExpr (f + 1) (c :: cs) = amount (c :: cs) := by
  rw [valueExpr]
  · intro heq; cases heq
  · intro r heq; injection heq with h1 _; exact h h1

theorem unaryExpr_nil (f : Nat) : unaryExpr (f + 1) [] = .fail [] := by rw [unaryExpr]
theorem unaryExpr_cons_neg (f : Nat) (r : List Char) :
    unaryExpr (f + 1) ('-' :: r) =
      match valueExpr f r with
      | .ok v rest => .ok (.neg (.val v)) rest
      | .fail pos => .fail pos
      | .fuelOut => .fuelOut := by rw [unaryExpr]; rfl
theorem unaryExpr_other (f : Nat) {c : Char} (cs : List Char) (h : c ≠ '-') :
    unaryExpr (f + 1) (c :: cs) =
      match valueExpr f (c :: cs) with
      | .ok v rest => .ok (.val v) rest
      | .fail pos => .fail pos
      | .fuelOut => .fuelOut := by
  rw [unaryExpr]
  · rfl
  · intro heq; cases heq
  · intro r heq; injection heq with h1 _; exact h h1
theorem mulExpr_succ (f : Nat) (inp : List Char) :
    mulExpr (f + 1) inp =
      match unaryExpr f inp with
      | .ok l rest => mulLoop f l rest
      | .fail pos => .fail pos
      | .fuelOut => .fuelOut := by rw [mulExpr]; rfl
theorem mulLoop_succ (f : Nat) (l : Expr) (inp : List Char) :
    mulLoop (f + 1) l inp =
      match sepOp mulOp inp with
      | none => .ok l inp
      | some (op, r) =>
        match unaryExpr f r with
        | .ok e rest => mulLoop f (.bin op l e) rest
        | .fail _ => .ok l inp
        | .fuelOut => .fuelOut := by rw [mulLoop]; rfl
theorem addExpr_succ (f : Nat) (inp : List Char) :
    addExpr (f + 1) inp =
      match mulExpr f inp with
      | .ok l rest => addLoop f l rest
      | .fail pos => .fail pos
      | .fuelOut => .fuelOut := by rw [addExpr]; rfl
theorem addLoop_succ (f : Nat) (l : Expr) (inp : List Char) :
    addLoop (f + 1) l inp =
      match sepOp addOp inp with
      | none => .ok l inp
      | some (op, r) =>
        match mulExpr f r with
        | .ok e rest => addLoop f (.bin op l e) rest
        | .fail _ => .ok l inp
        | .fuelOut => .fuelOut := by rw [addLoop]; rfl

def Mono (f : Nat) : Prop :=
  ∀ inp : List Char,
    (valueExpr f inp ≠ .fuelOut → valueExpr (f + 1) inp = valueExpr f inp) ∧
    (unaryExpr f inp ≠ .fuelOut → unaryExpr (f + 1) inp = unaryExpr f inp) ∧
    (mulExpr f inp ≠ .fuelOut → mulExpr (f + 1) inp = mulExpr f inp) ∧
    (∀ l, mulLoop f l inp ≠ .fuelOut → mulLoop (f + 1) l inp = mulLoop f l inp) ∧
    (addExpr f inp ≠ .fuelOut → addExpr (f + 1) inp = addExpr f inp) ∧
    (∀ l, addLoop f l inp ≠ .fuelOut → addLoop (f + 1) l inp = addLoop f l inp)

theorem mono : ∀ f, Mono f := by
  intro f
  induction f with
  | zero =>
    intro inp
    refine ⟨?_, ?_, ?_, ?_, ?_, ?_⟩ <;> intros <;> simp_all [valueExpr, unaryExpr, mulExpr, mulLoop, addExpr, addLoop]
  | succ f ih =>
    intro inp
    refine ⟨?_, ?_, ?_, ?_, ?_, ?_⟩
    · intro h
      cases inp with
      | nil => rw [valueExpr_nil, valueExpr_nil]
      | cons c cs =>
        by_cases hc : c = '('
        · subst hc
          rw [valueExpr_cons_paren] at h ⊢
          rw [valueExpr_cons_paren]
          cases ha : addExpr f (skipSpaces cs) with
          | fuelOut => rw [ha] at h; exact absurd rfl h
          | ok e rest => rw [(ih _).2.2.2.2.1 (by rw [ha]; simp), ha]
          | fail p => rw [(ih _).2.2.2.2.1 (by rw [ha]; simp), ha]
        · rw [valueExpr_other _ _ hc, valueExpr_other _ _ hc]
    · intro h
      cases inp with
      | nil => rw [unaryExpr_nil, unaryExpr_nil]
      | cons c cs =>
        by_cases hc : c = '-'
        · subst hc
          rw [unaryExpr_cons_neg] at h ⊢
          rw [unaryExpr_cons_neg]
          cases ha : valueExpr f cs with
          | fuelOut => rw [ha] at h; exact absurd rfl h
          | ok e rest => rw [(ih _).1 (by rw [ha]; simp), ha]
          | fail p => rw [(ih _).1 (by rw [ha]; simp), ha]
        · rw [unaryExpr_other _ _ hc] at h ⊢
          rw [unaryExpr_other _ _ hc]
          cases ha : valueExpr f (c :: cs) with
          | fuelOut => rw [ha] at h; exact absurd rfl h
          | ok e rest => rw [(ih _).1 (by rw [ha]; simp), ha]
          | fail p => rw [(ih _).1 (by rw [ha]; simp), ha]
    · intro h
      rw [mulExpr_succ] at h ⊢
      rw [mulExpr_succ]
      cases ha : unaryExpr f inp with
      | fuelOut => rw [ha] at h; exact absurd rfl h
      | ok e rest =>
        rw [ha] at h
        rw [(ih _).2.1 (by rw [ha]; simp), ha]
        exact (ih _).2.2.2.1 _ h
      | fail p => rw [(ih _).2.1 (by rw [ha]; simp), ha]
    · intro l h
      rw [mulLoop_succ] at h ⊢
      rw [mulLoop_succ]
      cases hs : sepOp mulOp inp with
      | none => rfl
      | some x =>
        obtain ⟨op, r⟩ := x
        rw [hs] at h
        simp only at h ⊢
        cases ha : unaryExpr f r with
        | fuelOut => rw [ha] at h; exact absurd rfl h
        | ok e rest =>
          rw [ha] at h
          rw [(ih _).2.1 (by rw [ha]; simp), ha]
          exact (ih _).2.2.2.1 _ h
        | fail p => rw [(ih _).2.1 (by rw [ha]; simp), ha]
    · intro h
      rw [addExpr_succ] at h ⊢
      rw [addExpr_succ]
      cases ha : mulExpr f inp with
      | fuelOut => rw [ha] at h; exact absurd rfl h
      | ok e rest =>
        rw [ha] at h
        rw [(ih _).2.2.1 (by rw [ha]; simp), ha]
        exact (ih _).2.2.2.2.2 _ h
      | fail p => rw [(ih _).2.2.1 (by rw [ha]; simp), ha]
    · intro l h
      rw [addLoop_succ] at h ⊢
      rw [addLoop_succ]
      cases hs : sepOp addOp inp with
      | none => rfl
      | some x =>
        obtain ⟨op, r⟩ := x
        rw [hs] at h
        simp only at h ⊢
        cases ha : mulExpr f r with
        | fuelOut => rw [ha] at h; exact absurd rfl h
        | ok e rest =>
          rw [ha] at h
          rw [(ih _).2.2.1 (by rw [ha]; simp), ha]
          exact (ih _).2.2.2.2.2 _ h
        | fail p => rw [(ih _).2.2.1 (by rw [ha]; simp), ha]

/-- more fuel does not change a result that is not `fuelOut` -/
theorem valueExpr_mono_add {f : Nat} {inp : List Char} (h : valueExpr f inp ≠ .fuelOut) :
    ∀ k, valueExpr (f + k) inp = valueExpr f inp := by
  intro k
  induction k with
  | zero => rfl
  | succ k ih =>
    have : valueExpr (f + k) inp ≠ .fuelOut := by rw [ih]; exact h
    rw [← Nat.add_assoc, (mono (f + k) inp).1 this, ih]

end Okane.ExprSyntax.C11Mono

namespace Okane.ExprSyntax
open Okane Okane.Literal Okane.ExprSyntax.C11Mono

variable {α β : Type}

/-- `r` is what is left of `u` after a prefix without `\n` has been consumed -/
def NoNl (u r : List Char) : Prop := ∃ c, u = c ++ r ∧ '\n' ∉ c

theorem NoNl.refl (u : List Char) : NoNl u u := ⟨[], rfl, by simp⟩

theorem NoNl.trans {u r s : List Char} (h1 : NoNl u r) (h2 : NoNl r s) : NoNl u s := by
  obtain ⟨c, rfl, hc⟩ := h1
  obtain ⟨d, rfl, hd⟩ := h2
  exact ⟨c ++ d, by simp, by simp [hc, hd]⟩

theorem NoNl.mem {u r : List Char} (h : NoNl u r) (hu : '\n' ∈ u) : '\n' ∈ r := by
  obtain ⟨c, rfl, hc⟩ := h
  rcases List.mem_append.1 hu with h | h
  · exact absurd h hc
  · exact h

theorem NoNl.cons {c : Char} (hc : c ≠ '\n') (r : List Char) : NoNl (c :: r) r :=
  ⟨[c], rfl, by simpa using fun h => hc h.symm⟩

theorem NoNl.dropWhile {f : Char → Bool} (hf : f '\n' = false) (u : List Char) : NoNl u (u.dropWhile f) :=
  ⟨u.takeWhile f, (List.takeWhile_append_dropWhile).symm, Parse.not_mem_takeWhile hf u⟩

/-- result on `u` versus result on `u ++ t` -/
def PRes.Ext (t : List Char) : PRes α → PRes α → Prop
  | .ok a r, y => y = .ok a (r ++ t)
  | .fail _, y => ∃ q, y = .fail q
  | .fuelOut, _ => True

@[simp] theorem PRes.ext_ok {t : List Char} {a : α} {r : List Char} {y : PRes α} :
    PRes.Ext t (.ok a r) y ↔ y = .ok a (r ++ t) := Iff.rfl
@[simp] theorem PRes.ext_fail {t p : List Char} {y : PRes α} : PRes.Ext t (.fail p : PRes α) y ↔ ∃ q, y = .fail q := Iff.rfl
@[simp] theorem PRes.ext_fuelOut {t : List Char} {y : PRes α} : PRes.Ext t (.fuelOut : PRes α) y ↔ True := Iff.rfl

/-- on every text that holds a `\n` the result of `g` is decided, and `g` consumes no `\n` -/
def WLP (g : List Char → PRes α) : Prop :=
  ∀ u, '\n' ∈ u → (∀ t, PRes.Ext t (g u) (g (u ++ t))) ∧ ∀ x r, g u = .ok x r → NoNl u r

theorem skipSpaces_nl {u : List Char} (hu : '\n' ∈ u) (t : List Char) :
    skipSpaces (u ++ t) = skipSpaces u ++ t ∧ NoNl u (skipSpaces u) :=
  ⟨(Parse.takeWhile_append_of_mem (f := isSpace) hu (by decide) t).2, NoNl.dropWhile (by decide) u⟩

theorem tokenSplit_of_not_neg {inp : List Char} (h : ¬ ∃ r, inp = '-' :: r) :
    tokenSplit inp = if (inp.takeWhile isNumChar).isEmpty then .error inp
        else .ok ([] ++ inp.takeWhile isNumChar, inp.dropWhile isNumChar) := by
  unfold tokenSplit
  split
  rename_i sign body heq
  split at heq
  · exact absurd ⟨_, rfl⟩ h
  · injection heq with h1 h2; subst h1; subst h2; rfl

theorem tokenSplit_nl {u : List Char} (hu : '\n' ∈ u) (t : List Char) :
    (∀ b, tokenSplit u = .error b → tokenSplit (u ++ t) = .error (b ++ t)) ∧
    (∀ tok rest, tokenSplit u = .ok (tok, rest) → tokenSplit (u ++ t) = .ok (tok, rest ++ t) ∧ NoNl u rest) := by
  have hn : isNumChar '\n' = false := by decide
  by_cases h : ∃ r, u = '-' :: r
  · obtain ⟨r, rfl⟩ := h
    have hr : '\n' ∈ r := by
      rcases List.mem_cons.1 hu with h | h
      · exact absurd h (by decide)
      · exact h
    obtain ⟨h1, h2⟩ := Parse.takeWhile_append_of_mem (f := isNumChar) hr hn t
    simp only [tokenSplit, List.cons_append, h1, h2]
    constructor
    · intro b hb
      split at hb
      · rename_i he; simp only [Except.error.injEq] at hb; subst hb; simp [he]
      · cases hb
    · intro tok rest hb
      split at hb
      · cases hb
      · rename_i he
        simp only [Except.ok.injEq, Prod.mk.injEq] at hb
        obtain ⟨hb1, hb2⟩ := hb
        subst hb1; subst hb2
        refine ⟨by simp [he], (NoNl.cons (by decide) r).trans (NoNl.dropWhile hn r)⟩
  · obtain ⟨h1, h2⟩ := Parse.takeWhile_append_of_mem (f := isNumChar) hu hn t
    have h' : ¬ ∃ r, u ++ t = '-' :: r := by
      rintro ⟨r, hr⟩
      cases u with
      | nil => cases hu
      | cons c u' =>
        simp only [List.cons_append, List.cons.injEq] at hr
        exact h ⟨u', by rw [hr.1]⟩
    have e1 := tokenSplit_of_not_neg h
    have e2 := tokenSplit_of_not_neg h'
    rw [e1, e2, h1, h2]
    constructor
    · intro b hb
      split at hb
      · rename_i he; simp only [Except.error.injEq] at hb; subst hb; simp [he]
      · cases hb
    · intro tok rest hb
      split at hb
      · cases hb
      · rename_i he
        simp only [Except.ok.injEq, Prod.mk.injEq] at hb
        obtain ⟨hb1, hb2⟩ := hb
        subst hb1; subst hb2
        exact ⟨by simp [he], NoNl.dropWhile hn u⟩

theorem wlp_prettyDecimal : WLP prettyDecimal := by
  intro u hu
  refine ⟨fun t => ?_, fun x r he => ?_⟩
  · obtain ⟨h1, h2⟩ := tokenSplit_nl hu t
    unfold prettyDecimal
    cases hts : tokenSplit u with
    | error b => rw [h1 b hts]; simp
    | ok pr =>
      obtain ⟨tok, rest⟩ := pr
      rw [(h2 tok rest hts).1]
      simp only
      cases hs : scan tok <;> simp
  · unfold prettyDecimal at he
    cases hts : tokenSplit u with
    | error b => rw [hts] at he; cases he
    | ok pr =>
      obtain ⟨tok, rest⟩ := pr
      rw [hts] at he
      simp only at he
      cases hs : scan tok <;> rw [hs] at he <;> simp only [PRes.ok.injEq, reduceCtorEq] at he
      rw [← he.2]
      exact ((tokenSplit_nl hu []).2 tok rest hts).2

theorem wlp_amount : WLP amount := by
  intro u hu
  have hcn : isCommodityChar '\n' = false := by decide
  obtain ⟨h1, h2⟩ := wlp_prettyDecimal u hu
  refine ⟨fun t => ?_, fun x r he => ?_⟩
  · have h1 := h1 t
    unfold amount
    cases hp : prettyDecimal u with
    | ok d rest =>
      rw [hp] at h1
      simp only [PRes.ext_ok] at h1
      rw [h1]
      have hr := (h2 d rest hp).mem hu
      obtain ⟨h3, h4⟩ := skipSpaces_nl hr t
      obtain ⟨h5, h6⟩ := Parse.takeWhile_append_of_mem (f := isCommodityChar) (h4.mem hr) hcn t
      simp [commodity, h3, h5, h6]
    | fail p => rw [hp] at h1; obtain ⟨q, hq⟩ := h1; rw [hq]; simp
    | fuelOut => simp
  · unfold amount at he
    cases hp : prettyDecimal u with
    | ok d rest =>
      rw [hp] at he
      simp only [commodity, PRes.ok.injEq] at he
      rw [← he.2]
      have hr := (h2 d rest hp).mem hu
      exact (h2 d rest hp).trans ((skipSpaces_nl hr []).2.trans (NoNl.dropWhile hcn _))
    | fail p => rw [hp] at he; cases he
    | fuelOut => rw [hp] at he; cases he

theorem sepOp_nl {op : Char → Option BinOp} (hop : op '\n' = none) {u : List Char} (hu : '\n' ∈ u) (t : List Char) :
    (sepOp op u = none → sepOp op (u ++ t) = none) ∧
    (∀ o r, sepOp op u = some (o, r) → sepOp op (u ++ t) = some (o, r ++ t) ∧ NoNl u r) := by
  obtain ⟨h1, h2⟩ := skipSpaces_nl hu t
  have hm := h2.mem hu
  unfold sepOp
  rw [h1]
  cases hs : skipSpaces u with
  | nil => rw [hs] at hm; cases hm
  | cons c r =>
    simp only [List.cons_append]
    rw [hs] at h2
    by_cases hc : c = '\n'
    · subst hc; simp [hop]
    · have hr : '\n' ∈ r := by
        rw [hs] at hm
        rcases List.mem_cons.1 hm with h | h
        · exact absurd h.symm hc
        · exact h
      obtain ⟨h3, h4⟩ := skipSpaces_nl hr t
      cases ho : op c with
      | none => simp
      | some o' =>
        simp only [Option.map_some, reduceCtorEq, false_imp_iff, Option.some.injEq, Prod.mk.injEq, true_and]
        intro o r' ⟨e1, e2⟩
        subst e1; subst e2
        exact ⟨⟨rfl, h3⟩, h2.trans ((NoNl.cons hc r).trans h4)⟩

/-- the statement proved by induction on the fuel -/
def ExprWL (f : Nat) : Prop :=
  WLP (valueExpr f) ∧ WLP (unaryExpr f) ∧ WLP (mulExpr f) ∧ (∀ l, WLP (mulLoop f l)) ∧ WLP (addExpr f) ∧
    (∀ l, WLP (addLoop f l))

theorem wlp_zero {g : List Char → PRes α} (h : ∀ u, g u = .fuelOut) : WLP g := by
  intro u _
  refine ⟨fun t => by rw [h u]; trivial, fun x r he => by rw [h u] at he; cases he⟩

theorem valueExpr_wl {f : Nat} (ih : ExprWL f) : WLP (valueExpr (f + 1)) := by
  intro u hu
  cases u with
  | nil => cases hu
  | cons c cs =>
    by_cases hc : c = '('
    · subst hc
      have hcs : '\n' ∈ cs := by
        rcases List.mem_cons.1 hu with h | h
        · exact absurd h (by decide)
        · exact h
      have hB := (skipSpaces_nl hcs []).2
      have hm := hB.mem hcs
      obtain ⟨h1, h2⟩ := ih.2.2.2.2.1 (skipSpaces cs) hm
      refine ⟨fun t => ?_, fun x r he => ?_⟩
      · have h1 := h1 t
        rw [List.cons_append, valueExpr_cons_paren, valueExpr_cons_paren, (skipSpaces_nl hcs t).1]
        cases ha : addExpr f (skipSpaces cs) with
        | ok e rest =>
          rw [ha] at h1
          simp only [PRes.ext_ok] at h1
          rw [h1]
          have hr := (h2 e rest ha).mem hm
          obtain ⟨h3, h4⟩ := skipSpaces_nl hr t
          simp only [h3]
          have hm2 := h4.mem hr
          cases hs : skipSpaces rest with
          | nil => rw [hs] at hm2; cases hm2
          | cons d rest' =>
            simp only [List.cons_append]
            by_cases hd : d = ')'
            · subst hd; simp
            · have e1 : ∀ (X : List Char), (match d :: X with
                  | ')' :: rest' => PRes.ok (VExpr.paren e) rest'
                  | other => PRes.fail other) = PRes.fail (d :: X) := by
                intro X
                split
                · rename_i heq; injection heq with h _; exact absurd h hd
                · rfl
              rw [e1, e1]; simp
        | fail p => rw [ha] at h1; obtain ⟨q, hq⟩ := h1; rw [hq]; simp
        | fuelOut => simp
      · rw [valueExpr_cons_paren] at he
        cases ha : addExpr f (skipSpaces cs) with
        | ok e rest =>
          rw [ha] at he
          simp only at he
          have hr := (h2 e rest ha).mem hm
          have h4 := (skipSpaces_nl hr []).2
          split at he
          · rename_i rest' hs
            simp only [PRes.ok.injEq] at he
            rw [← he.2]
            refine (NoNl.cons (by decide) cs).trans (hB.trans ((h2 e rest ha).trans (h4.trans ?_)))
            rw [hs]; exact NoNl.cons (by decide) _
          · cases he
        | fail p => rw [ha] at he; cases he
        | fuelOut => rw [ha] at he; cases he
    · obtain ⟨h1, h2⟩ := wlp_amount (c :: cs) hu
      refine ⟨fun t => ?_, fun x r he => ?_⟩
      · rw [List.cons_append, valueExpr_other _ _ hc, valueExpr_other _ _ hc]; exact h1 t
      · rw [valueExpr_other _ _ hc] at he; exact h2 x r he

theorem unaryExpr_wl {f : Nat} (ih : ExprWL f) : WLP (unaryExpr (f + 1)) := by
  intro u hu
  cases u with
  | nil => cases hu
  | cons c cs =>
    by_cases hc : c = '-'
    · subst hc
      have hcs : '\n' ∈ cs := by
        rcases List.mem_cons.1 hu with h | h
        · exact absurd h (by decide)
        · exact h
      obtain ⟨h1, h2⟩ := ih.1 cs hcs
      refine ⟨fun t => ?_, fun x r he => ?_⟩
      · have h1 := h1 t
        rw [List.cons_append, unaryExpr_cons_neg, unaryExpr_cons_neg]
        cases ha : valueExpr f cs with
        | ok e rest => rw [ha] at h1; simp only [PRes.ext_ok] at h1; rw [h1]; simp
        | fail p => rw [ha] at h1; obtain ⟨q, hq⟩ := h1; rw [hq]; simp
        | fuelOut => simp
      · rw [unaryExpr_cons_neg] at he
        cases ha : valueExpr f cs with
        | ok e rest =>
          rw [ha] at he; simp only [PRes.ok.injEq] at he; rw [← he.2]
          exact (NoNl.cons (by decide) cs).trans (h2 e rest ha)
        | fail p => rw [ha] at he; cases he
        | fuelOut => rw [ha] at he; cases he
    · obtain ⟨h1, h2⟩ := ih.1 (c :: cs) hu
      refine ⟨fun t => ?_, fun x r he => ?_⟩
      · have h1 := h1 t
        rw [List.cons_append] at h1 ⊢
        rw [unaryExpr_other _ _ hc, unaryExpr_other _ _ hc]
        cases ha : valueExpr f (c :: cs) with
        | ok e rest => rw [ha] at h1; simp only [PRes.ext_ok] at h1; rw [h1]; simp
        | fail p => rw [ha] at h1; obtain ⟨q, hq⟩ := h1; rw [hq]; simp
        | fuelOut => simp
      · rw [unaryExpr_other _ _ hc] at he
        cases ha : valueExpr f (c :: cs) with
        | ok e rest => rw [ha] at he; simp only [PRes.ok.injEq] at he; rw [← he.2]; exact h2 e rest ha
        | fail p => rw [ha] at he; cases he
        | fuelOut => rw [ha] at he; cases he

theorem mulExpr_wl {f : Nat} (ih : ExprWL f) : WLP (mulExpr (f + 1)) := by
  intro u hu
  obtain ⟨h1, h2⟩ := ih.2.1 u hu
  refine ⟨fun t => ?_, fun x r he => ?_⟩
  · have h1 := h1 t
    rw [mulExpr_succ, mulExpr_succ]
    cases ha : unaryExpr f u with
    | ok e rest =>
      rw [ha] at h1; simp only [PRes.ext_ok] at h1; rw [h1]
      exact (ih.2.2.2.1 e rest ((h2 e rest ha).mem hu)).1 t
    | fail p => rw [ha] at h1; obtain ⟨q, hq⟩ := h1; rw [hq]; simp
    | fuelOut => simp
  · rw [mulExpr_succ] at he
    cases ha : unaryExpr f u with
    | ok e rest =>
      rw [ha] at he
      exact (h2 e rest ha).trans ((ih.2.2.2.1 e rest ((h2 e rest ha).mem hu)).2 x r he)
    | fail p => rw [ha] at he; cases he
    | fuelOut => rw [ha] at he; cases he

theorem addExpr_wl {f : Nat} (ih : ExprWL f) : WLP (addExpr (f + 1)) := by
  intro u hu
  obtain ⟨h1, h2⟩ := ih.2.2.1 u hu
  refine ⟨fun t => ?_, fun x r he => ?_⟩
  · have h1 := h1 t
    rw [addExpr_succ, addExpr_succ]
    cases ha : mulExpr f u with
    | ok e rest =>
      rw [ha] at h1; simp only [PRes.ext_ok] at h1; rw [h1]
      exact (ih.2.2.2.2.2 e rest ((h2 e rest ha).mem hu)).1 t
    | fail p => rw [ha] at h1; obtain ⟨q, hq⟩ := h1; rw [hq]; simp
    | fuelOut => simp
  · rw [addExpr_succ] at he
    cases ha : mulExpr f u with
    | ok e rest =>
      rw [ha] at he
      exact (h2 e rest ha).trans ((ih.2.2.2.2.2 e rest ((h2 e rest ha).mem hu)).2 x r he)
    | fail p => rw [ha] at he; cases he
    | fuelOut => rw [ha] at he; cases he

theorem mulLoop_wl {f : Nat} (ih : ExprWL f) (l : Expr) : WLP (mulLoop (f + 1) l) := by
  intro u hu
  refine ⟨fun t => ?_, fun x r he => ?_⟩
  · obtain ⟨hs1, hs2⟩ := sepOp_nl (op := mulOp) rfl hu t
    rw [mulLoop_succ, mulLoop_succ]
    cases hs : sepOp mulOp u with
    | none => rw [hs1 hs]; simp
    | some pr =>
      obtain ⟨op, r⟩ := pr
      obtain ⟨hs3, hs4⟩ := hs2 op r hs
      rw [hs3]
      simp only
      have hr := hs4.mem hu
      obtain ⟨h1, h2⟩ := ih.2.1 r hr
      have h1 := h1 t
      cases ha : unaryExpr f r with
      | ok e rest =>
        rw [ha] at h1; simp only [PRes.ext_ok] at h1; rw [h1]
        exact (ih.2.2.2.1 _ rest ((h2 e rest ha).mem hr)).1 t
      | fail p => rw [ha] at h1; obtain ⟨q, hq⟩ := h1; rw [hq]; simp
      | fuelOut => simp
  · obtain ⟨hs1, hs2⟩ := sepOp_nl (op := mulOp) rfl hu []
    rw [mulLoop_succ] at he
    cases hs : sepOp mulOp u with
    | none => rw [hs] at he; simp only [PRes.ok.injEq] at he; rw [← he.2]; exact NoNl.refl u
    | some pr =>
      obtain ⟨op, r'⟩ := pr
      obtain ⟨hs3, hs4⟩ := hs2 op r' hs
      rw [hs] at he
      simp only at he
      have hr := hs4.mem hu
      obtain ⟨h1, h2⟩ := ih.2.1 r' hr
      cases ha : unaryExpr f r' with
      | ok e rest =>
        rw [ha] at he
        exact hs4.trans ((h2 e rest ha).trans ((ih.2.2.2.1 _ rest ((h2 e rest ha).mem hr)).2 x r he))
      | fail p => rw [ha] at he; simp only [PRes.ok.injEq] at he; rw [← he.2]; exact NoNl.refl u
      | fuelOut => rw [ha] at he; cases he

theorem addLoop_wl {f : Nat} (ih : ExprWL f) (l : Expr) : WLP (addLoop (f + 1) l) := by
  intro u hu
  refine ⟨fun t => ?_, fun x r he => ?_⟩
  · obtain ⟨hs1, hs2⟩ := sepOp_nl (op := addOp) rfl hu t
    rw [addLoop_succ, addLoop_succ]
    cases hs : sepOp addOp u with
    | none => rw [hs1 hs]; simp
    | some pr =>
      obtain ⟨op, r⟩ := pr
      obtain ⟨hs3, hs4⟩ := hs2 op r hs
      rw [hs3]
      simp only
      have hr := hs4.mem hu
      obtain ⟨h1, h2⟩ := ih.2.2.1 r hr
      have h1 := h1 t
      cases ha : mulExpr f r with
      | ok e rest =>
        rw [ha] at h1; simp only [PRes.ext_ok] at h1; rw [h1]
        exact (ih.2.2.2.2.2 _ rest ((h2 e rest ha).mem hr)).1 t
      | fail p => rw [ha] at h1; obtain ⟨q, hq⟩ := h1; rw [hq]; simp
      | fuelOut => simp
  · obtain ⟨hs1, hs2⟩ := sepOp_nl (op := addOp) rfl hu []
    rw [addLoop_succ] at he
    cases hs : sepOp addOp u with
    | none => rw [hs] at he; simp only [PRes.ok.injEq] at he; rw [← he.2]; exact NoNl.refl u
    | some pr =>
      obtain ⟨op, r'⟩ := pr
      obtain ⟨hs3, hs4⟩ := hs2 op r' hs
      rw [hs] at he
      simp only at he
      have hr := hs4.mem hu
      obtain ⟨h1, h2⟩ := ih.2.2.1 r' hr
      cases ha : mulExpr f r' with
      | ok e rest =>
        rw [ha] at he
        exact hs4.trans ((h2 e rest ha).trans ((ih.2.2.2.2.2 _ rest ((h2 e rest ha).mem hr)).2 x r he))
      | fail p => rw [ha] at he; simp only [PRes.ok.injEq] at he; rw [← he.2]; exact NoNl.refl u
      | fuelOut => rw [ha] at he; cases he

/-- **every function of the expression parser stays within the line**, with any (equal) fuel -/
theorem expr_wl : ∀ f, ExprWL f := by
  intro f
  induction f with
  | zero =>
    exact ⟨wlp_zero fun u => by rw [valueExpr], wlp_zero fun u => by rw [unaryExpr], wlp_zero fun u => by rw [mulExpr],
      fun l => wlp_zero fun u => by rw [mulLoop], wlp_zero fun u => by rw [addExpr], fun l => wlp_zero fun u => by rw [addLoop]⟩
  | succ f ih =>
    exact ⟨valueExpr_wl ih, unaryExpr_wl ih, mulExpr_wl ih, mulLoop_wl ih, addExpr_wl ih, addLoop_wl ih⟩

/-- `expr::value_expr` with the fuel the model gives it — different for `u` and for `u ++ t` -/
theorem wlp_parseValueExpr : WLP parseValueExpr := by
  intro u hu
  obtain ⟨h1, h2⟩ := (expr_wl (parseFuel u)).1 u hu
  refine ⟨fun t => ?_, fun x r he => h2 x r he⟩
  have h1 := h1 t
  have hne := parseValueExpr_ne_fuelOut u
  have hf : parseFuel (u ++ t) = parseFuel u + 5 * t.length := by simp [parseFuel]; omega
  unfold parseValueExpr at hne ⊢
  rw [hf]
  cases hv : valueExpr (parseFuel u) u with
  | ok v r =>
    rw [hv] at h1
    simp only [PRes.ext_ok] at h1
    rw [valueExpr_mono_add (by rw [h1]; simp), h1]
    simp
  | fail p =>
    rw [hv] at h1
    obtain ⟨q, hq⟩ := h1
    rw [valueExpr_mono_add (by rw [hq]; simp), hq]
    simp
  | fuelOut => exact absurd hv hne

end Okane.ExprSyntax

namespace Okane.Parse
open Okane Okane.Comb

theorem wl_valueExpr : WL valueExpr := by
  intro u hu
  obtain ⟨h1, h2⟩ := ExprSyntax.wlp_parseValueExpr u hu
  refine ⟨fun t => ?_, fun x r he => ?_⟩
  · have h1 := h1 t
    simp only [valueExpr]
    cases hv : ExprSyntax.parseValueExpr u with
    | ok v r => rw [hv] at h1; simp only [ExprSyntax.PRes.ext_ok] at h1; rw [h1]; simp [ofPRes]
    | fail p => rw [hv] at h1; obtain ⟨q, hq⟩ := h1; rw [hq]; simp [ofPRes]
    | fuelOut => simp [ofPRes]
  · simp only [valueExpr] at he
    cases hv : ExprSyntax.parseValueExpr u with
    | ok v r' => rw [hv] at he; simp only [ofPRes, Res.ok.injEq] at he; rw [← he.2]; exact h2 v r' hv
    | fail p => rw [hv] at he; cases he
    | fuelOut => rw [hv] at he; cases he

theorem wl_amount : WL amount := by
  intro u hu
  have hcn : ExprSyntax.isCommodityChar '\n' = false := by decide
  obtain ⟨h1, h2⟩ := ExprSyntax.wlp_prettyDecimal u hu
  refine ⟨fun t => ?_, fun x r he => ?_⟩
  · have h1 := h1 t
    simp only [amount]
    cases hp : ExprSyntax.prettyDecimal u with
    | ok d rest =>
      rw [hp] at h1
      simp only [ExprSyntax.PRes.ext_ok] at h1
      rw [h1]
      have hr := (h2 d rest hp).mem hu
      obtain ⟨h3, h4⟩ := ExprSyntax.skipSpaces_nl hr t
      obtain ⟨h5, h6⟩ := takeWhile_append_of_mem (f := ExprSyntax.isCommodityChar) (h4.mem hr) hcn t
      simp [ExprSyntax.commodity, h3, h5, h6]
    | fail p => rw [hp] at h1; obtain ⟨q, hq⟩ := h1; rw [hq]; simp
    | fuelOut => simp
  · simp only [amount] at he
    cases hp : ExprSyntax.prettyDecimal u with
    | ok d rest =>
      rw [hp] at he
      simp only [ExprSyntax.commodity, Res.ok.injEq] at he
      rw [← he.2]
      have hr := (h2 d rest hp).mem hu
      exact (h2 d rest hp).trans ((ExprSyntax.skipSpaces_nl hr []).2.trans (ExprSyntax.NoNl.dropWhile hcn _))
    | fail p => rw [hp] at he; cases he
    | fuelOut => rw [hp] at he; cases he

end Okane.Parse
