import Okane.Lemmas.Decimal96Mul
/-!
# A concrete sufficient condition for "within the representable range"

`Bounded M S d`: `d` has at most `S` decimal places and `|d| ≤ M / 10^S` (its mantissa, written with `S` places, is at most
`M`).  Sums of bounded decimals are exact as long as the bounds add up to less than `2^96` (`addSub_bounded`,
`addAll_exact`: a running total over a list, as `Amount += …` does per commodity), and one product is exact if the bounds
multiply to less than `2^96` and the places add up to at most 28 (`mul_bounded`).
Instance (`ledger_scale_example`): amounts below `10^14` with at most 8 places, up to a million of them.
-/
namespace Okane.Dec96

def Bounded (M S : Nat) (d : D96) : Prop := d.scale ≤ S ∧ d.mant * 10 ^ (S - d.scale) ≤ M

theorem Bounded.wf {M S : Nat} {d : D96} (h : Bounded M S d) (hM : M < 2 ^ 96) (hS : S ≤ 28) : d.wf := by
  refine ⟨?_, by have := h.1; omega⟩
  have := Nat.le_mul_of_pos_right d.mant (natpow10_pos (S - d.scale))
  have := h.2
  omega

theorem Bounded.mono {M M' S : Nat} {d : D96} (h : Bounded M S d) (hM : M ≤ M') : Bounded M' S d :=
  ⟨h.1, Nat.le_trans h.2 hM⟩

theorem Bounded.negate {M S : Nat} {d : D96} (h : Bounded M S d) : Bounded M S (negate d) := h

theorem pow_sub_split (S mx s : Nat) (h1 : s ≤ mx) (h2 : mx ≤ S) :
    10 ^ (S - s) = 10 ^ (mx - s) * 10 ^ (S - mx) := by
  rw [← Nat.pow_add]; congr 1; omega

/-- **closure under `+` and `-`**: bounded operands with `M1 + M2 < 2^96` give an exact, bounded result. -/
theorem addSub_bounded (M1 M2 S : Nat) (a b : D96) (subtract : Bool) (ha : Bounded M1 S a) (hb : Bounded M2 S b)
    (hM : M1 + M2 < 2 ^ 96) (hS : S ≤ 28) :
    ∃ r, addSub a b subtract = .ok r ∧ Bounded (M1 + M2) S r ∧ val r = val a + sgnR subtract * val b := by
  have hwa := ha.wf (by omega) hS
  have hwb := hb.wf (by omega) hS
  by_cases ha0 : a.mant = 0
  · have hv : val a = 0 := val_of_mant_zero a ha0
    refine ⟨_, addSub_zero_left a b subtract ha0, ?_, ?_⟩
    · split
      · exact (hb.negate).mono (by omega)
      · exact hb.mono (by omega)
    · rw [hv, Rat.zero_add]
      by_cases hb0 : b.mant = 0
      · simp [hb0, val_of_mant_zero b hb0]
      · have : (b.mant != 0) = true := by simpa using hb0
        cases subtract
        · simp [sgnR]
        · simp [this, sgnR, val_negate, Rat.neg_mul]
  · by_cases hb0 : b.mant = 0
    · refine ⟨_, addSub_zero_right a b subtract ha0 hb0, ha.mono (by omega), ?_⟩
      rw [val_of_mant_zero b hb0, Rat.mul_zero, Rat.add_zero]
    · -- the aligned magnitudes
      have hmxa : a.scale ≤ max a.scale b.scale := by omega
      have hmxb : b.scale ≤ max a.scale b.scale := by omega
      have hmxS : max a.scale b.scale ≤ S := by have := ha.1; have := hb.1; omega
      have ea := pow_sub_split S (max a.scale b.scale) a.scale hmxa hmxS
      have eb := pow_sub_split S (max a.scale b.scale) b.scale hmxb hmxS
      have hA := ha.2
      have hB := hb.2
      rw [ea, ← Nat.mul_assoc] at hA
      rw [eb, ← Nat.mul_assoc] at hB
      have hP := natpow10_pos (S - max a.scale b.scale)
      have hsum : (alignedSum a b subtract).natAbs ≤
          a.mant * 10 ^ (max a.scale b.scale - a.scale) + b.mant * 10 ^ (max a.scale b.scale - b.scale) := by
        unfold alignedSum
        rw [int_scaled a, int_scaled b]
        generalize a.mant * 10 ^ (max a.scale b.scale - a.scale) = X
        generalize b.mant * 10 ^ (max a.scale b.scale - b.scale) = Y
        cases a.neg <;> cases b.neg <;> cases subtract <;> simp [sgn] <;> omega
      generalize a.mant * 10 ^ (max a.scale b.scale - a.scale) = X at hA hsum
      generalize b.mant * 10 ^ (max a.scale b.scale - b.scale) = Y at hB hsum
      have hXY : (X + Y) * 10 ^ (S - max a.scale b.scale) ≤ M1 + M2 := by rw [Nat.add_mul]; omega
      have hXY' : X + Y ≤ M1 + M2 := Nat.le_trans (Nat.le_mul_of_pos_right _ hP) hXY
      have hfit : (alignedSum a b subtract).natAbs < 2 ^ 96 := by omega
      obtain ⟨r, hr, hs, hi⟩ := addSub_exact_nz a b subtract hwa hwb ha0 hb0 hfit
      refine ⟨r, hr, ⟨by omega, ?_⟩, ?_⟩
      · rw [hs, ← int_natAbs r, hi]
        exact Nat.le_trans (Nat.mul_le_mul_right _ hsum) hXY
      · rw [val_addsub_eq, ← hi]
        unfold val; rw [hs]

/-- a running total, as `Amount::add_assign` keeps per commodity: `acc += d` for each `d` in turn; `none` if an addition
overflows (the `+=` operator would panic). -/
def addAll : D96 → List D96 → Option D96
  | acc, [] => some acc
  | acc, d :: ds =>
    match addImpl acc d with
    | .ok r => addAll r ds
    | _ => none

/-- **sums of up to `n` bounded terms are exact** if `n·M < 2^96`: no addition overflows, no addition rounds, and the total
is the exact sum. -/
theorem addAll_exact (M S : Nat) (hS : S ≤ 28) : ∀ (ds : List D96) (k : Nat) (acc : D96),
    Bounded (k * M) S acc → (∀ d ∈ ds, Bounded M S d) → (k + ds.length) * M < 2 ^ 96 →
    ∃ r, addAll acc ds = some r ∧ Bounded ((k + ds.length) * M) S r ∧
      val r = ds.foldl (fun x d => x + val d) (val acc)
  | [], k, acc, hacc, _, _ => ⟨acc, rfl, by simpa using hacc, rfl⟩
  | d :: ds, k, acc, hacc, hall, hfit => by
    have hd : Bounded M S d := hall d (by simp)
    have hlen : (d :: ds).length = ds.length + 1 := rfl
    have hk1 : (k + 1) * M = k * M + M := by rw [Nat.add_mul, Nat.one_mul]
    have hle : (k + 1) * M ≤ (k + (d :: ds).length) * M := Nat.mul_le_mul_right _ (by rw [hlen]; omega)
    obtain ⟨r, hr, hb, hv⟩ := addSub_bounded (k * M) M S acc d false hacc hd (by omega) hS
    have hb' : Bounded ((k + 1) * M) S r := by rw [hk1]; exact hb
    have hfit' : (k + 1 + ds.length) * M < 2 ^ 96 := by
      have : k + 1 + ds.length = k + (d :: ds).length := by rw [hlen]; omega
      rw [this]; exact hfit
    obtain ⟨r2, hr2, hb2, hv2⟩ := addAll_exact M S hS ds (k + 1) r hb' (fun x hx => hall x (by simp [hx])) hfit'
    refine ⟨r2, ?_, ?_, ?_⟩
    · unfold addAll; unfold addImpl; rw [hr]; exact hr2
    · have : k + (d :: ds).length = k + 1 + ds.length := by rw [hlen]; omega
      rw [this]; exact hb2
    · rw [hv2, hv]; simp [sgnR, List.foldl]

/-- **one product of bounded factors is exact** if the bounds multiply to less than `2^96` and the places add up to ≤ 28. -/
theorem mul_bounded (M1 M2 S1 S2 : Nat) (a b : D96) (ha : Bounded M1 S1 a) (hb : Bounded M2 S2 b)
    (hM : M1 * M2 < 2 ^ 96) (hS : S1 + S2 ≤ 28) :
    ∃ r, mulImpl a b = .ok r ∧ Bounded (M1 * M2) (S1 + S2) r ∧ val r = val a * val b := by
  have hma : a.mant ≤ M1 := Nat.le_trans (Nat.le_mul_of_pos_right _ (natpow10_pos _)) ha.2
  have hmb : b.mant ≤ M2 := Nat.le_trans (Nat.le_mul_of_pos_right _ (natpow10_pos _)) hb.2
  have hprod : a.mant * b.mant ≤ M1 * M2 := Nat.mul_le_mul hma hmb
  have hs : a.scale + b.scale ≤ 28 := by have := ha.1; have := hb.1; omega
  obtain ⟨r, hr, hw, hv, hnz, hz⟩ := mul_exact a b hs ((reprAt_mul_iff a b).mpr (by omega))
  refine ⟨r, hr, ?_, hv⟩
  by_cases h0 : a.mant = 0 ∨ b.mant = 0
  · rw [hz h0]; exact ⟨by simp [zero], by simp [zero]⟩
  · have ha0 : a.mant ≠ 0 := by omega
    have hb0 : b.mant ≠ 0 := by omega
    obtain ⟨hsc, hint⟩ := hnz ha0 hb0
    refine ⟨by rw [hsc]; have := ha.1; have := hb.1; omega, ?_⟩
    have hm : r.mant = a.mant * b.mant := by
      rw [← int_natAbs r, hint, Int.natAbs_mul, int_natAbs, int_natAbs]
    rw [hm, hsc]
    have e : S1 + S2 - (a.scale + b.scale) = (S1 - a.scale) + (S2 - b.scale) := by have := ha.1; have := hb.1; omega
    rw [e, Nat.pow_add]
    calc a.mant * b.mant * (10 ^ (S1 - a.scale) * 10 ^ (S2 - b.scale))
        = (a.mant * 10 ^ (S1 - a.scale)) * (b.mant * 10 ^ (S2 - b.scale)) := by grind
      _ ≤ M1 * M2 := Nat.mul_le_mul ha.2 hb.2

/-- a decimal below `10^14` in magnitude with at most 8 decimal places is `Bounded (10^22) 8`. -/
theorem bounded_of_digits (d : D96) (hs : d.scale ≤ 8) (hm : d.mant * 10 ^ (8 - d.scale) ≤ 10 ^ 22) :
    Bounded (10 ^ 22) 8 d := ⟨hs, hm⟩

/-- **the example of the job description, with the numbers that fit**: up to `10^6` amounts, each below `10^14` in
magnitude with at most 8 decimal places (mantissa at 8 places ≤ `10^22`), added one after the other starting from zero: no
step overflows or rounds, and the total is the exact sum. (`10^6 · 10^22 = 10^28 < 2^96 ≈ 7.9·10^28`.) -/
theorem ledger_scale_example (ds : List D96) (hn : ds.length ≤ 10 ^ 6) (hall : ∀ d ∈ ds, Bounded (10 ^ 22) 8 d) :
    ∃ r, addAll zero ds = some r ∧ r.wf ∧ val r = ds.foldl (fun x d => x + val d) 0 := by
  have hfit : (0 + ds.length) * 10 ^ 22 < 2 ^ 96 := by
    have : ds.length * 10 ^ 22 ≤ 10 ^ 6 * 10 ^ 22 := Nat.mul_le_mul_right _ hn
    omega
  obtain ⟨r, hr, hb, hv⟩ := addAll_exact (10 ^ 22) 8 (by decide) ds 0 zero (by simp [Bounded, zero]) hall hfit
  refine ⟨r, hr, hb.wf hfit (by decide), ?_⟩
  rw [hv, val_zero]

end Okane.Dec96
