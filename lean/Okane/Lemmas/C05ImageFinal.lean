import Okane.Lemmas.C05ImageRound
import Okane.Props.C05
/-!
# The image property and the round trip on texts, in the vocabulary of `Props/C05.lean`

`C05_image_full`, `C05_roundtrip_full`, `C05_idempotent_full` of `Props/C05.lean` are false as stated (F27 / F28).  Here
they are proved under the decidable hypothesis `TextOK t` on the TEXT (`asciiSpaceOnly t`, `Lemmas/C05ImageBase.lean`), with
nothing asked of the parsed entries:

* `C05_image_partial`      — `C05_image_full` restricted to `TextOK` texts, together with `plainEntry`;
* `C05_roundtrip_partial'` — `C05_roundtrip_full w` restricted to `TextOK` texts;
* `C05_idempotent_partial'`— `C05_idempotent_full w` restricted to `TextOK` texts.
(The lead integrates them into `Props/C05.lean`; this file only restates the theorems of `C05Image` / `C05ImageRound`.)
-/
namespace Okane.C05Image
open Okane Okane.Comb Okane.Parse Okane.Unparse Okane.C05

/-- **C05_image** under the hypothesis on the text: every parsed entry satisfies the hypotheses of `C05_entry` -/
theorem C05_image_partial (t : List Char) (es : List Entry) (ht : TextOK t) (hp : parseEntries t = .ok es) :
    ∀ e ∈ es, wfEntry (canonEntry e) = true ∧ plainEntry (canonEntry e) = true :=
  C05_image t es ht hp

/-- `C05_roundtrip_full w` restricted to `TextOK` texts -/
theorem C05_roundtrip_partial' (w : List Char → Nat) :
    ∀ (t : List Char) (es : List Entry), TextOK t → parseEntries t = .ok es →
      parseEntries (formatEntries w es) = .ok (es.map canonEntry) :=
  fun t es ht hp => C05_roundtrip_text w t es ht hp

/-- `C05_idempotent_full w` restricted to `TextOK` texts -/
theorem C05_idempotent_partial' (w : List Char → Nat) :
    ∀ (t f : List Char), TextOK t → format w t = .ok f → format w f = .ok f :=
  fun t f ht hf => C05_idempotent_text w t f ht hf

/-- the known witnesses of `Props/C05.lean` are exactly outside `TextOK` -/
example : ¬ TextOK witF28 ∧ ¬ TextOK C05.witF27 := by decide +kernel

/-- regression: a payee that begins with an unclosed `(` — on which the image statement of `Props/C05.lean` failed while
the transaction code could run across line ends (the former hypothesis `parensClosed`) — now satisfies it -/
theorem C05_image_unclosed_paren :
    asciiSpaceOnly witParen = true ∧ C05.imageOk witParen = true ∧ (parseEntries witParen).isOk = true := by decide +kernel

end Okane.C05Image
