import Okane.Lemmas.ImportVisecaNum
/-!
# Viseca parser — the four regex recognisers on canonical text

* soundness of `tailAmount` / `tailSpent` (what a successful match looks like) and uniqueness of the decomposition of a head
  line from the right (`peel_*`), from which: the lazy payee scan `payeeScan` stops exactly at the intended payee
  (`payeeScan_spent`, `payeeScan_plain`) — for a record without currency group under the necessary hypothesis that the payee
  does not itself end like a currency group (`hasSpentSuffix`).
* `firstLine_printHead`, `exchangeLine_printExchange`, `feeLine_printFee`: the recognisers on `printHead` / `printExchange` /
  `printFee`.
-/
set_option linter.unusedSimpArgs false
namespace Okane.Import.Viseca
open Okane Okane.Import Okane.Literal Okane.C07

/-! ## runs -/

theorem run1_append (p : Char → Bool) (r rest : List Char) (hr : r.all p = true) (hne : r ≠ [])
    (hrest : ∀ c cs, rest = c :: cs → p c = false) : run1 p (r ++ rest) = some (r, rest) := by
  have hall : ∀ a ∈ r, p a = true := fun a ha => List.all_eq_true.mp hr a ha
  have ht : (r ++ rest).takeWhile p = r := by
    rw [List.takeWhile_append_of_pos hall]
    cases rest with
    | nil => simp
    | cons c cs => simp [hrest c cs rfl]
  have hd : (r ++ rest).dropWhile p = rest := by
    rw [List.dropWhile_append_of_pos hall]
    cases rest with
    | nil => simp
    | cons c cs => simp [hrest c cs rfl]
  unfold run1
  simp only [ht, hd]
  cases r with
  | nil => exact absurd rfl hne
  | cons _ _ => simp

theorem run1_sound (p : Char → Bool) (s r rest : List Char) (h : run1 p s = some (r, rest)) :
    s = r ++ rest ∧ r.all p = true ∧ r ≠ [] ∧ (∀ c cs, rest = c :: cs → p c = false) := by
  unfold run1 at h
  simp only [] at h
  split at h
  · exact absurd h (by simp)
  · rename_i hne
    simp only [Option.some.injEq, Prod.mk.injEq] at h
    obtain ⟨h1, h2⟩ := h
    subst h1; subst h2
    refine ⟨(List.takeWhile_append_dropWhile (p := p) (l := s)).symm, all_takeWhile p s, ?_, ?_⟩
    · intro h0; rw [h0] at hne; simp at hne
    · intro c cs hc
      exact dropWhile_head_not s hc

theorem lit_append (l rest : List Char) : lit l (l ++ rest) = some rest := by
  unfold lit
  simp

theorem lit_sound (l s rest : List Char) (h : lit l s = some rest) : s = l ++ rest := by
  unfold lit at h
  split at h
  · rename_i hp
    simp only [Option.some.injEq] at h
    subst h
    obtain ⟨t, ht⟩ := List.isPrefixOf_iff_prefix.mp hp
    rw [← ht]; simp
  · exact absurd h (by simp)

/-! ## the tails of `FIRST_LINE` -/

/-- the ` -` marker -/
def negs (n : Bool) : List Char := if n then [' ', '-'] else []
/-- ` amount[ -]` -/
def amountTail (a : List Char) (n : Bool) : List Char := ' ' :: a ++ negs n
/-- ` CCY examount amount[ -]` -/
def spentTail (c e a : List Char) (n : Bool) : List Char := ' ' :: c ++ ' ' :: e ++ amountTail a n

/-- a non-empty run of `[0-9.']` -/
def NumRun (a : List Char) : Prop := a ≠ [] ∧ a.all isNumChar = true
/-- three capital letters -/
def Ccy (c : List Char) : Prop := ∃ x y z, c = [x, y, z] ∧ isUpperAZ x = true ∧ isUpperAZ y = true ∧ isUpperAZ z = true

theorem isNumChar_ne_space {c : Char} (h : isNumChar c = true) : c ≠ ' ' := by
  intro hc; subst hc; revert h; decide

theorem isUpperAZ_ne_space {c : Char} (h : isUpperAZ c = true) : c ≠ ' ' := by
  intro hc; subst hc; revert h; decide

theorem NumRun.no_space {a : List Char} (h : NumRun a) : ' ' ∉ a := by
  intro hm
  exact isNumChar_ne_space (List.all_eq_true.mp h.2 _ hm) rfl

theorem Ccy.no_space {c : List Char} (h : Ccy c) : ' ' ∉ c := by
  obtain ⟨x, y, z, rfl, hx, hy, hz⟩ := h
  intro hm
  simp only [List.mem_cons, List.not_mem_nil, or_false] at hm
  rcases hm with h | h | h
  · exact isUpperAZ_ne_space hx h.symm
  · exact isUpperAZ_ne_space hy h.symm
  · exact isUpperAZ_ne_space hz h.symm

theorem NumRun.ends {a : List Char} (h : NumRun a) : ∃ a0 d, a = a0 ++ [d] ∧ isNumChar d = true :=
  ⟨a.dropLast, a.getLast h.1, (List.dropLast_concat_getLast h.1).symm, List.all_eq_true.mp h.2 _ (List.getLast_mem h.1)⟩

theorem negs_head (n : Bool) : ∀ c cs, negs n = c :: cs → isNumChar c = false := by
  intro c cs h
  cases n with
  | false => simp [negs] at h
  | true =>
    simp only [negs, if_true, List.cons.injEq] at h
    rw [← h.1]; decide

theorem tailAmount_cons (r : List Char) : tailAmount (' ' :: r) =
    match run1 isNumChar r with
    | some (amount, rest) =>
      if rest = [] then some (amount, false)
      else if rest = [' ', '-'] then some (amount, true)
      else none
    | none => none := by rfl
theorem tailSpent_cons (r : List Char) : tailSpent (' ' :: r) =
    match ccyShape r with
    | some (ccy, ' ' :: r2) =>
      match run1 isNumChar r2 with
      | some (examount, r3) =>
        match tailAmount r3 with
        | some (amount, neg) => some ((ccy, examount), amount, neg)
        | none => none
      | none => none
    | _ => none := by rfl

theorem tailAmount_complete (a : List Char) (n : Bool) (ha : NumRun a) : tailAmount (amountTail a n) = some (a, n) := by
  unfold amountTail
  rw [List.cons_append, tailAmount_cons, run1_append isNumChar a (negs n) ha.2 ha.1 (negs_head n)]
  cases n <;> simp [negs]

theorem tailAmount_sound (X a : List Char) (n : Bool) (h : tailAmount X = some (a, n)) : X = amountTail a n ∧ NumRun a := by
  unfold tailAmount at h
  split at h
  · rename_i r
    split at h
    · rename_i amount rest hr
      obtain ⟨h1, h2, h3, _⟩ := run1_sound _ _ _ _ hr
      split at h
      · rename_i h0
        simp only [Option.some.injEq, Prod.mk.injEq] at h
        obtain ⟨e1, e2⟩ := h
        subst e1; subst e2
        exact ⟨by simp [amountTail, negs, h1, h0], h3, h2⟩
      · split at h
        · rename_i h0
          simp only [Option.some.injEq, Prod.mk.injEq] at h
          obtain ⟨e1, e2⟩ := h
          subst e1; subst e2
          exact ⟨by simp [amountTail, negs, h1, h0], h3, h2⟩
        · exact absurd h (by simp)
    · exact absurd h (by simp)
  · exact absurd h (by simp)

theorem ccyShape_complete (c rest : List Char) (hc : Ccy c) : ccyShape (c ++ rest) = some (c, rest) := by
  obtain ⟨x, y, z, rfl, hx, hy, hz⟩ := hc
  simp [ccyShape, hx, hy, hz]

theorem ccyShape_sound (s c rest : List Char) (h : ccyShape s = some (c, rest)) : s = c ++ rest ∧ Ccy c := by
  unfold ccyShape at h
  split at h
  · rename_i x y z r
    split at h
    · rename_i hxyz
      simp only [Option.some.injEq, Prod.mk.injEq] at h
      obtain ⟨e1, e2⟩ := h
      subst e1; subst e2
      simp only [Bool.and_eq_true] at hxyz
      exact ⟨rfl, x, y, z, rfl, hxyz.1.1, hxyz.1.2, hxyz.2⟩
    · exact absurd h (by simp)
  · exact absurd h (by simp)

theorem tailSpent_complete (c e a : List Char) (n : Bool) (hc : Ccy c) (he : NumRun e) (ha : NumRun a) :
    tailSpent (spentTail c e a n) = some ((c, e), a, n) := by
  unfold spentTail
  rw [List.append_assoc, List.cons_append, tailSpent_cons, ccyShape_complete c _ hc]
  simp only [List.cons_append]
  have hr : run1 isNumChar (e ++ amountTail a n) = some (e, amountTail a n) :=
    run1_append isNumChar e _ he.2 he.1 (by intro c cs h; simp only [amountTail, List.cons_append, List.cons.injEq] at h; rw [← h.1]; decide)
  rw [hr]
  simp only [tailAmount_complete a n ha]

theorem tailSpent_sound (X c e a : List Char) (n : Bool) (h : tailSpent X = some ((c, e), a, n)) :
    X = spentTail c e a n ∧ Ccy c ∧ NumRun e ∧ NumRun a := by
  unfold tailSpent at h
  split at h
  · rename_i r
    split at h
    · rename_i ccy r2 hcc
      obtain ⟨h1, h2⟩ := ccyShape_sound _ _ _ hcc
      split at h
      · rename_i examount r3 hr
        obtain ⟨g1, g2, g3, _⟩ := run1_sound _ _ _ _ hr
        split at h
        · rename_i amount neg hta
          obtain ⟨k1, k2⟩ := tailAmount_sound _ _ _ hta
          simp only [Option.some.injEq, Prod.mk.injEq] at h
          obtain ⟨⟨e1, e2⟩, e3, e4⟩ := h
          subst e1; subst e2; subst e3; subst e4
          refine ⟨?_, h2, ⟨g3, g2⟩, k2⟩
          simp [spentTail, h1, g1, k1]
        · exact absurd h (by simp)
      · exact absurd h (by simp)
    · exact absurd h (by simp)
  · exact absurd h (by simp)

/-! ## a head line decomposes in only one way, from the right -/

theorem peel_left : ∀ {a b x y : List Char}, a ++ ' ' :: x = b ++ ' ' :: y → ' ' ∉ a → ' ' ∉ b → a = b ∧ x = y := by
  intro a
  induction a with
  | nil =>
    intro b x y h _ hb
    cases b with
    | nil => simp only [List.nil_append, List.cons.injEq, true_and] at h; exact ⟨rfl, h⟩
    | cons d b' =>
      simp only [List.nil_append, List.cons_append, List.cons.injEq] at h
      exact absurd (by rw [← h.1]; exact List.mem_cons_self) hb
  | cons c a' ih =>
    intro b x y h ha hb
    cases b with
    | nil =>
      simp only [List.nil_append, List.cons_append, List.cons.injEq] at h
      exact absurd (by rw [h.1]; exact List.mem_cons_self) ha
    | cons d b' =>
      simp only [List.cons_append, List.cons.injEq] at h
      obtain ⟨e1, e2⟩ := ih h.2 (fun hm => ha (List.mem_cons_of_mem _ hm)) (fun hm => hb (List.mem_cons_of_mem _ hm))
      exact ⟨by rw [h.1, e1], e2⟩

/-- peel a blank-free run off the right end -/
theorem peel_run {X Y a b : List Char} (h : X ++ ' ' :: a = Y ++ ' ' :: b) (ha : ' ' ∉ a) (hb : ' ' ∉ b) : X = Y ∧ a = b := by
  have hr := congrArg List.reverse h
  simp only [List.reverse_append, List.reverse_cons, List.append_assoc, List.singleton_append] at hr
  obtain ⟨e1, e2⟩ := peel_left hr (by simpa using ha) (by simpa using hb)
  exact ⟨List.reverse_inj.mp e2, List.reverse_inj.mp e1⟩

/-- peel the ` -` marker off the right end of texts that otherwise end in a number character -/
theorem peel_neg {X Y : List Char} {n n' : Bool} (h : X ++ negs n = Y ++ negs n')
    (hX : ∃ x0 d, X = x0 ++ [d] ∧ isNumChar d = true) (hY : ∃ y0 d, Y = y0 ++ [d] ∧ isNumChar d = true) : n = n' ∧ X = Y := by
  obtain ⟨x0, d, rfl, hd⟩ := hX
  obtain ⟨y0, d', rfl, hd'⟩ := hY
  have hdash : isNumChar '-' = false := by decide
  cases n <;> cases n'
  · simpa [negs] using h
  · exfalso
    simp only [negs, if_true, Bool.false_eq_true, if_false, List.append_nil] at h
    have h2 : x0 ++ [d] = (y0 ++ [d', ' ']) ++ ['-'] := by rw [h]; simp
    have := (List.append_inj' h2 rfl).2
    simp only [List.cons.injEq, and_true] at this
    rw [this, hdash] at hd; exact absurd hd (by simp)
  · exfalso
    simp only [negs, if_true, Bool.false_eq_true, if_false, List.append_nil] at h
    have h2 : (x0 ++ [d, ' ']) ++ ['-'] = y0 ++ [d'] := by rw [← h]; simp
    have := (List.append_inj' h2 rfl).2
    simp only [List.cons.injEq, and_true] at this
    rw [← this, hdash] at hd'; exact absurd hd' (by simp)
  · simp only [negs, if_true] at h
    exact ⟨rfl, List.append_cancel_right h⟩

theorem ends_cons_run (X : List Char) {a : List Char} (ha : NumRun a) : ∃ x0 d, X ++ ' ' :: a = x0 ++ [d] ∧ isNumChar d = true := by
  obtain ⟨a0, d, rfl, hd⟩ := ha.ends
  exact ⟨X ++ ' ' :: a0, d, by simp, hd⟩

theorem amountTail_eq (P a : List Char) (n : Bool) : P ++ amountTail a n = (P ++ ' ' :: a) ++ negs n := by
  simp [amountTail]

theorem spentTail_eq (P c e a : List Char) (n : Bool) :
    P ++ spentTail c e a n = ((P ++ ' ' :: c ++ ' ' :: e) ++ ' ' :: a) ++ negs n := by
  simp [spentTail, amountTail]

theorem amount_amount {P a a' : List Char} {n n' : Bool} (ha : NumRun a) (ha' : NumRun a')
    (h : P ++ amountTail a n = amountTail a' n') : P = [] := by
  have h' : (P ++ ' ' :: a) ++ negs n = ([] ++ ' ' :: a') ++ negs n' := by
    rw [← amountTail_eq, ← amountTail_eq]; simpa using h
  obtain ⟨_, h2⟩ := peel_neg h' (ends_cons_run P ha) (ends_cons_run [] ha')
  exact (peel_run h2 ha.no_space ha'.no_space).1

theorem spent_spent {P c e a c' e' a' : List Char} {n n' : Bool} (hc : Ccy c) (he : NumRun e) (ha : NumRun a)
    (hc' : Ccy c') (he' : NumRun e') (ha' : NumRun a') (h : P ++ spentTail c e a n = spentTail c' e' a' n') : P = [] := by
  have h' : ((P ++ ' ' :: c ++ ' ' :: e) ++ ' ' :: a) ++ negs n = (([] ++ ' ' :: c' ++ ' ' :: e') ++ ' ' :: a') ++ negs n' := by
    rw [← spentTail_eq, ← spentTail_eq]; simpa using h
  obtain ⟨_, h2⟩ := peel_neg h' (ends_cons_run _ ha) (ends_cons_run _ ha')
  obtain ⟨h3, _⟩ := peel_run h2 ha.no_space ha'.no_space
  have h3' : (P ++ ' ' :: c) ++ ' ' :: e = ([] ++ ' ' :: c') ++ ' ' :: e' := by simpa using h3
  obtain ⟨h4, _⟩ := peel_run h3' he.no_space he'.no_space
  exact (peel_run h4 hc.no_space hc'.no_space).1

theorem spent_amount {P c e a a' : List Char} {n n' : Bool} (ha : NumRun a) (ha' : NumRun a')
    (h : P ++ spentTail c e a n = amountTail a' n') : False := by
  have h' : ((P ++ ' ' :: c ++ ' ' :: e) ++ ' ' :: a) ++ negs n = ([] ++ ' ' :: a') ++ negs n' := by
    rw [← spentTail_eq, ← amountTail_eq]; simpa using h
  obtain ⟨_, h2⟩ := peel_neg h' (ends_cons_run _ ha) (ends_cons_run _ ha')
  have := (peel_run h2 ha.no_space ha'.no_space).1
  simp at this

theorem amount_spent {P a c' e' a' : List Char} {n n' : Bool} (ha : NumRun a) (ha' : NumRun a')
    (h : P ++ amountTail a n = spentTail c' e' a' n') : P = ' ' :: c' ++ ' ' :: e' := by
  have h' : (P ++ ' ' :: a) ++ negs n = (([] ++ ' ' :: c' ++ ' ' :: e') ++ ' ' :: a') ++ negs n' := by
    rw [← amountTail_eq, ← spentTail_eq]; simpa using h
  obtain ⟨_, h2⟩ := peel_neg h' (ends_cons_run _ ha) (ends_cons_run _ ha')
  have := (peel_run h2 ha.no_space ha'.no_space).1
  simpa using this

/-! ## the lazy payee scan -/

theorem payeeScan_hitSpent (acc s : List Char) (sp : List Char × List Char) (a : List Char) (n : Bool)
    (h : tailSpent s = some (sp, a, n)) : payeeScan acc s = some (acc.reverse, some sp, a, n) := by
  unfold payeeScan; simp only [h]

theorem payeeScan_hitAmount (acc s a : List Char) (n : Bool) (h1 : tailSpent s = none) (h2 : tailAmount s = some (a, n)) :
    payeeScan acc s = some (acc.reverse, none, a, n) := by
  unfold payeeScan; simp only [h1, h2]

theorem payeeScan_step (acc : List Char) (c : Char) (rest : List Char) (h1 : tailSpent (c :: rest) = none)
    (h2 : tailAmount (c :: rest) = none) (hd : isDot c = true) : payeeScan acc (c :: rest) = payeeScan (c :: acc) rest := by
  rw [payeeScan]; simp only [h1, h2, hd, if_true]

/-- a record *with* a currency group: the scan stops exactly after the payee, whatever the payee is (no line feed) -/
theorem payeeScan_spent : ∀ (payee acc c e a : List Char) (n : Bool), payee.all isDot = true → Ccy c → NumRun e → NumRun a →
    payeeScan acc (payee ++ spentTail c e a n) = some (acc.reverse ++ payee, some (c, e), a, n) := by
  intro payee
  induction payee with
  | nil =>
    intro acc c e a n _ hc he ha
    simp only [List.nil_append, List.append_nil]
    exact payeeScan_hitSpent _ _ _ _ _ (tailSpent_complete c e a n hc he ha)
  | cons p rest ih =>
    intro acc c e a n hp hc he ha
    simp only [List.all_cons, Bool.and_eq_true] at hp
    have h1 : tailSpent (p :: (rest ++ spentTail c e a n)) = none := by
      cases h : tailSpent (p :: (rest ++ spentTail c e a n)) with
      | none => rfl
      | some r =>
        obtain ⟨⟨c', e'⟩, a', n'⟩ := r
        obtain ⟨hx, hc', he', ha'⟩ := tailSpent_sound _ _ _ _ _ h
        have := spent_spent (P := p :: rest) hc he ha hc' he' ha' (by simpa using hx)
        simp at this
    have h2 : tailAmount (p :: (rest ++ spentTail c e a n)) = none := by
      cases h : tailAmount (p :: (rest ++ spentTail c e a n)) with
      | none => rfl
      | some r =>
        obtain ⟨a', n'⟩ := r
        obtain ⟨hx, ha'⟩ := tailAmount_sound _ _ _ h
        exact (spent_amount (P := p :: rest) ha ha' (by simpa using hx)).elim
    rw [List.cons_append, payeeScan_step _ _ _ h1 h2 hp.1, ih (p :: acc) c e a n hp.2 hc he ha]
    simp

theorem spentSuffix_complete (c e : List Char) (hc : Ccy c) (he : NumRun e) : spentSuffix (' ' :: c ++ ' ' :: e) = true := by
  have : spentSuffix (' ' :: (c ++ ' ' :: e)) =
      (match ccyShape (c ++ ' ' :: e) with
       | some (_, ' ' :: r2) => !r2.isEmpty && r2.all isNumChar
       | _ => false) := rfl
  rw [List.cons_append, this, ccyShape_complete c _ hc]
  simp only [he.2, Bool.and_true, Bool.not_eq_true']
  cases e with
  | nil => exact absurd rfl he.1
  | cons _ _ => rfl

theorem hasSpentSuffix_cons (c : Char) (rest : List Char) :
    hasSpentSuffix (c :: rest) = (spentSuffix (c :: rest) || hasSpentSuffix rest) := rfl

/-- a record *without* a currency group: the scan stops exactly after the payee when the payee does not itself end like
a currency group -/
theorem payeeScan_plain : ∀ (payee acc a : List Char) (n : Bool), payee.all isDot = true → hasSpentSuffix payee = false → NumRun a →
    payeeScan acc (payee ++ amountTail a n) = some (acc.reverse ++ payee, none, a, n) := by
  intro payee
  induction payee with
  | nil =>
    intro acc a n _ _ ha
    simp only [List.nil_append, List.append_nil]
    have h1 : tailSpent (amountTail a n) = none := by
      cases h : tailSpent (amountTail a n) with
      | none => rfl
      | some r =>
        obtain ⟨⟨c', e'⟩, a', n'⟩ := r
        obtain ⟨hx, hc', he', ha'⟩ := tailSpent_sound _ _ _ _ _ h
        have := amount_spent (P := []) ha ha' (by simpa using hx)
        simp at this
    exact payeeScan_hitAmount _ _ _ _ h1 (tailAmount_complete a n ha)
  | cons p rest ih =>
    intro acc a n hp hs ha
    simp only [List.all_cons, Bool.and_eq_true] at hp
    rw [hasSpentSuffix_cons, Bool.or_eq_false_iff] at hs
    have h1 : tailSpent (p :: (rest ++ amountTail a n)) = none := by
      cases h : tailSpent (p :: (rest ++ amountTail a n)) with
      | none => rfl
      | some r =>
        obtain ⟨⟨c', e'⟩, a', n'⟩ := r
        obtain ⟨hx, hc', he', ha'⟩ := tailSpent_sound _ _ _ _ _ h
        have hP := amount_spent (P := p :: rest) ha ha' (by simpa using hx)
        have := spentSuffix_complete c' e' hc' he'
        rw [← hP, hs.1] at this
        exact absurd this (by simp)
    have h2 : tailAmount (p :: (rest ++ amountTail a n)) = none := by
      cases h : tailAmount (p :: (rest ++ amountTail a n)) with
      | none => rfl
      | some r =>
        obtain ⟨a', n'⟩ := r
        obtain ⟨hx, ha'⟩ := tailAmount_sound _ _ _ h
        have := amount_amount (P := p :: rest) ha ha' (by simpa using hx)
        simp at this
    rw [List.cons_append, payeeScan_step _ _ _ h1 h2 hp.1, ih (p :: acc) a n hp.2 hs.2 ha]
    simp

/-! ## the recognisers on printed lines -/

theorem numRun_printGrouped (d : Dec) : NumRun (printGrouped d) := ⟨printGrouped_ne_nil d, printGrouped_all d⟩

theorem ccy_of_canon {s : String} (h : canonCcy s = true) : Ccy s.toList := by
  unfold canonCcy at h
  split at h
  · rename_i a b c heq
    simp only [Bool.and_eq_true] at h
    exact ⟨a, b, c, heq, h.1.1, h.1.2, h.2⟩
  · exact absurd h (by simp)

theorem firstLine_build (d1 d2 : Date) (body payee : List Char) (sp : Option (List Char × List Char)) (a : List Char) (n : Bool)
    (h : payeeScan [] body = some (payee, sp, a, n)) :
    firstLine (printEuroDate d1 ++ ' ' :: (printEuroDate d2 ++ ' ' :: body)) =
      some ⟨printEuroDate d1, printEuroDate d2, payee, sp, a, n⟩ := by
  unfold firstLine
  rw [dateShape_printEuroDate]
  simp only []
  rw [dateShape_printEuroDate]
  simp only [h]

/-- the captures of `FIRST_LINE` on the head line of an entry -/
def headCaps (e : Entry) : FirstCaps :=
  ⟨printEuroDate e.date, printEuroDate e.effectiveDate, e.payee.toList,
   e.spent.map (fun s => (s.commodity.toList, printGrouped s.value)), printGrouped e.amount, negMark e⟩

theorem negs_eq (n : Bool) : (if n then [' ', '-'] else []) = negs n := rfl

/-- **`FIRST_LINE` reads the printed head line as written** -/
theorem firstLine_printHead (e : Entry) (hp : e.payee.toList.all isDot = true)
    (hs : match e.spent with
          | some s => canonCcy s.commodity = true
          | none => hasSpentSuffix e.payee.toList = false) :
    firstLine (printHead e) = some (headCaps e) := by
  cases hsp : e.spent with
  | none =>
    rw [hsp] at hs
    have hb : printHead e = printEuroDate e.date ++ ' ' :: (printEuroDate e.effectiveDate ++ ' ' ::
        (e.payee.toList ++ amountTail (printGrouped e.amount) (negMark e))) := by
      simp [printHead, hsp, amountTail, negs]
    rw [hb, firstLine_build _ _ _ _ _ _ _ (payeeScan_plain _ [] _ _ hp hs (numRun_printGrouped _))]
    simp [headCaps, hsp]
  | some s =>
    rw [hsp] at hs
    have hb : printHead e = printEuroDate e.date ++ ' ' :: (printEuroDate e.effectiveDate ++ ' ' ::
        (e.payee.toList ++ spentTail s.commodity.toList (printGrouped s.value) (printGrouped e.amount) (negMark e))) := by
      simp [printHead, hsp, spentTail, amountTail, negs]
    rw [hb, firstLine_build _ _ _ _ _ _ _
      (payeeScan_spent _ [] _ _ _ _ hp (ccy_of_canon hs) (numRun_printGrouped _) (numRun_printGrouped _))]
    simp [headCaps, hsp]

theorem run1_rate_append (d : Dec) (rest : List Char) (hrest : ∀ c cs, rest = c :: cs → isRateChar c = false) :
    run1 isRateChar (printMagnitude d ++ rest) = some (printMagnitude d, rest) :=
  run1_append _ _ _ (printMagnitude_all d) (printMagnitude_ne_nil d) hrest

theorem run1_num_end (d : Dec) : run1 isNumChar (printGrouped d) = some (printGrouped d, []) := by
  have := run1_append isNumChar (printGrouped d) [] (printGrouped_all d) (printGrouped_ne_nil d) (by intro c cs h; simp at h)
  simpa using this

/-- the captures of `EXCHANGE_RATE_LINE` on the printed exchange line -/
theorem exchangeLine_printExchange (x : Viseca.Exchange) (hc : canonCcy x.equivalent.commodity = true) :
    exchangeLine (printExchange x) =
      some ⟨printMagnitude x.rate, printEuroDate x.rateDate, x.equivalent.commodity.toList, printGrouped x.equivalent.value⟩ := by
  have hb : printExchange x = "Exchange rate ".toList ++ (printMagnitude x.rate ++ (" of ".toList ++
      (printEuroDate x.rateDate ++ ' ' :: (x.equivalent.commodity.toList ++ ' ' :: printGrouped x.equivalent.value)))) := by
    unfold printExchange
    simp only [List.append_assoc, List.cons_append, List.nil_append]
  unfold exchangeLine
  rw [hb, lit_append]
  simp only []
  rw [run1_rate_append _ _ (by intro c cs h; simp at h; rw [← h.1]; decide)]
  simp only []
  rw [lit_append]
  simp only []
  rw [dateShape_printEuroDate]
  simp only []
  rw [ccyShape_complete _ _ (ccy_of_canon hc)]
  simp only []
  rw [run1_num_end]

/-- the captures of `FEE_LINE` on the printed fee line -/
theorem feeLine_printFee (f : Fee) (hc : canonCcy f.amount.commodity = true) :
    feeLine (printFee f) =
      some ⟨f.amount.value.neg, printMagnitude f.percent, f.amount.commodity.toList, printGrouped f.amount.value⟩ := by
  have body : ∀ (credit : Bool) (p : Char), (p == 'P' || p == 'p') = true →
      feeBody credit (p :: ("rocessing fee ".toList ++ (printMagnitude f.percent ++ '%' :: ' ' ::
        (f.amount.commodity.toList ++ ' ' :: printGrouped f.amount.value)))) =
      some ⟨credit, printMagnitude f.percent, f.amount.commodity.toList, printGrouped f.amount.value⟩ := by
    intro credit p hpp
    unfold feeBody
    simp only [hpp, if_true]
    rw [lit_append]
    simp only []
    rw [run1_rate_append _ _ (by intro c cs h; simp at h; rw [← h.1]; decide)]
    simp only []
    rw [ccyShape_complete _ _ (ccy_of_canon hc)]
    simp only []
    rw [run1_num_end]
  unfold feeLine
  cases hn : f.amount.value.neg with
  | true =>
    have hb : printFee f = "Credit of ".toList ++ ('p' :: ("rocessing fee ".toList ++ (printMagnitude f.percent ++ '%' :: ' ' ::
        (f.amount.commodity.toList ++ ' ' :: printGrouped f.amount.value)))) := by
      simp [printFee, hn]
    rw [hb, lit_append]
    simp only []
    exact body true 'p' (by decide)
  | false =>
    have hb : printFee f = 'P' :: ("rocessing fee ".toList ++ (printMagnitude f.percent ++ '%' :: ' ' ::
        (f.amount.commodity.toList ++ ' ' :: printGrouped f.amount.value))) := by
      simp [printFee, hn]
    have hl : lit "Credit of ".toList (printFee f) = none := by
      rw [hb]; simp [lit]
    rw [hl]
    simp only []
    rw [hb]
    exact body false 'P' (by decide)

/-! ## the alphabet of the number captures (why `decFromStr` only has to know `[0-9.]`) -/

theorem payeeScan_sound : ∀ (s acc payee : List Char) (sp : Option (List Char × List Char)) (a : List Char) (n : Bool),
    payeeScan acc s = some (payee, sp, a, n) → NumRun a ∧ ∀ c e, sp = some (c, e) → Ccy c ∧ NumRun e := by
  intro s
  induction s with
  | nil =>
    intro acc payee sp a n h
    rw [payeeScan] at h
    have h1 : tailSpent [] = none := rfl
    have h2 : tailAmount [] = none := rfl
    simp [h1, h2] at h
  | cons ch rest ih =>
    intro acc payee sp a n h
    rw [payeeScan] at h
    cases hts : tailSpent (ch :: rest) with
    | some r =>
      obtain ⟨⟨c', e'⟩, a', n'⟩ := r
      rw [hts] at h
      simp only [Option.some.injEq, Prod.mk.injEq] at h
      obtain ⟨_, hc', he', ha'⟩ := tailSpent_sound _ _ _ _ _ hts
      obtain ⟨_, h2, h3, _⟩ := h
      subst h2; subst h3
      exact ⟨ha', by intro c e hce; simp only [Option.some.injEq, Prod.mk.injEq] at hce; rw [← hce.1, ← hce.2]; exact ⟨hc', he'⟩⟩
    | none =>
      rw [hts] at h
      simp only [] at h
      cases hta : tailAmount (ch :: rest) with
      | some r =>
        obtain ⟨a', n'⟩ := r
        rw [hta] at h
        simp only [Option.some.injEq, Prod.mk.injEq] at h
        obtain ⟨_, ha'⟩ := tailAmount_sound _ _ _ hta
        obtain ⟨_, h2, h3, _⟩ := h
        subst h2; subst h3
        exact ⟨ha', by intro c e hce; simp at hce⟩
      | none =>
        rw [hta] at h
        simp only [] at h
        split at h
        · exact ih _ _ _ _ _ h
        · simp at h

/-- every number text `FIRST_LINE` captures is a non-empty run of `[0-9.']` -/
theorem firstLine_alphabet {l : List Char} {c : FirstCaps} (h : firstLine l = some c) :
    NumRun c.amount ∧ ∀ ccy e, c.spent = some (ccy, e) → Ccy ccy ∧ NumRun e := by
  unfold firstLine at h
  split at h
  · split at h
    · split at h
      · rename_i payee spent amount neg hps
        simp only [Option.some.injEq] at h
        subst h
        exact payeeScan_sound _ _ _ _ _ _ hps
      · simp at h
    · simp at h
  · simp at h

/-- without the `'` such a text is over `[0-9.]`: the alphabet `decFromStr` is defined on -/
theorem filter_quote_rateChar {s : List Char} (h : s.all isNumChar = true) : (s.filter (· != '\'')).all isRateChar = true := by
  rw [List.all_eq_true]
  intro a ha
  rw [List.mem_filter] at ha
  have h1 := List.all_eq_true.mp h a ha.1
  have h2 : a ≠ '\'' := by simpa using ha.2
  simp only [isNumChar, Bool.or_eq_true, beq_iff_eq] at h1
  rcases h1 with (hd | hd) | hd
  · simp [isRateChar, hd]
  · simp [isRateChar, hd]
  · exact absurd hd h2

/-- **`parse_decimal` is only ever handed texts over `[0-9.']`** by the head line (the same holds for the exchange and fee lines,
whose groups are the same character classes): the signs, `_` and other characters `Decimal::from_str` knows are out of reach. -/
theorem parseDecimal_alphabet {l : List Char} {c : FirstCaps} (h : firstLine l = some c) :
    (c.amount.filter (· != '\'')).all isRateChar = true ∧
    ∀ ccy e, c.spent = some (ccy, e) → (e.filter (· != '\'')).all isRateChar = true := by
  obtain ⟨h1, h2⟩ := firstLine_alphabet h
  exact ⟨filter_quote_rateChar h1.2, fun ccy e hs => filter_quote_rateChar (h2 ccy e hs).2.2⟩
