import Okane.Lemmas.C05Txn
import Okane.Lemmas.ExprParse
/-!
# Round trip of transactions (C05), part 4: the hypothesis `ExprRT` discharged by `ExprParse.parse_print_follow`

`Okane.Lemmas.ExprParse` (job J-C08parse) proves the value-expression round trip for the trees that satisfy
`wfVExpr` and `plainV` (no negative literal as an un-negated operand inside parentheses).  With it the theorems of
`C05TxnPosting` / `C05Txn` hold without hypothesis on the expression parser:
`posting_rt_plain`, `transaction_rt_plain`, `entryRT_txn_plain`, `C05_roundtrip_txn_plain`.
-/
set_option linter.unusedSimpArgs false
namespace Okane.Unparse
open Okane Okane.Comb Okane.Parse

/-- the predicate on value expressions under which the expression parser reads its printed form back -/
def PlainV (v : VExpr) : Prop := ExprParse.plainV v = true

instance (v : VExpr) : Decidable (PlainV v) := inferInstanceAs (Decidable (ExprParse.plainV v = true))

theorem isSpace_eq : ExprSyntax.isSpace = isSpace := rfl

theorem exprFollow_imp {rest : List Char} (h : exprFollow rest = true) : ExprParse.ExprFollow rest = true := by
  unfold exprFollow at h
  simp only [ExprParse.ExprFollow, ExprSyntax.skipSpaces, isSpace_eq, Bool.and_eq_true]
  cases rest with
  | nil => simp
  | cons c r =>
    by_cases hc : isSpace c = true
    · constructor
      · have : Literal.isNumChar c = false := by
          simp [isSpace] at hc
          rcases hc with rfl | rfl <;> decide
        simp [this]
      · cases hd : (c :: r).dropWhile isSpace with
        | nil => simp
        | cons d t =>
          rw [hd] at h
          simp only [Bool.or_eq_true, beq_iff_eq] at h
          simp only [ExprParse.stops_cons, Bool.not_eq_true']
          rcases h with ((((((rfl | rfl) | rfl) | rfl) | rfl) | rfl) | rfl) <;> decide
    · have hdw : (c :: r).dropWhile isSpace = c :: r := by simp [List.dropWhile, hc]
      rw [hdw] at h ⊢
      simp only [Bool.or_eq_true, beq_iff_eq] at h
      simp only [ExprParse.stops_cons, Bool.not_eq_true']
      rcases h with ((((((rfl | rfl) | rfl) | rfl) | rfl) | rfl) | rfl) <;> exact ⟨by decide, by decide⟩

/-- **`ExprRT` holds** for the well-formed plain trees -/
theorem exprRT_plain : ExprRT PlainV := by
  intro v rest hw hp hf
  obtain ⟨r', h1, h2, _⟩ := ExprParse.parse_print_follow v rest hw hp (exprFollow_imp hf)
  refine ⟨r', ?_, ?_⟩
  · show ofPRes (ExprSyntax.parseValueExpr (ExprSyntax.printVExpr noPrec v ++ rest)) = _
    rw [h1]; rfl
  · simpa [ExprSyntax.skipSpaces, isSpace_eq] using h2

/-- the posting round trip, all hypotheses decidable -/
theorem posting_rt_plain (w : List Char → Nat) (p : Posting) (hp : wfPosting p = true)
    (hP : ∀ v ∈ exprsOfPosting p, PlainV v) (rest : List Char) (hrest : metaStop rest = true) :
    posting (printPosting w p ++ rest) = .ok p rest :=
  posting_rt exprRT_plain w p hp hP rest hrest

/-- the transaction round trip, all hypotheses decidable -/
theorem transaction_rt_plain (w : List Char → Nat) (t : Transaction) (ht : wfTransaction t = true)
    (hP : ∀ v ∈ exprsOfTransaction t, PlainV v) (rest : List Char) (hrest : Stop isSpace rest) :
    transaction (printTransaction w t ++ rest) = .ok t rest :=
  transaction_rt exprRT_plain w t ht hP rest hrest

theorem entryRT_txn_plain (w : List Char → Nat) (t : Transaction) (ht : wfTransaction t = true)
    (hP : ∀ v ∈ exprsOfTransaction t, PlainV v) : EntryRT w (.txn t) :=
  entryRT_txn exprRT_plain w t ht hP

theorem entryRT_of_wf_plain (w : List Char → Nat) (e : Entry) (hwf : wfEntry e = true)
    (hk : isDirectiveOrTxn e = true) (hP : ∀ v ∈ exprsOfEntry e, PlainV v) : EntryRT w e :=
  entryRT_of_wf exprRT_plain w e hwf hk hP

/-- parse ∘ format = id and format ∘ format = format for ledgers of directives and transactions whose trees are
well formed and plain -/
theorem C05_roundtrip_txn_plain (w : List Char → Nat) (t : List Char) (es : List Entry)
    (hp : parseEntries t = .ok es) (hwf : ∀ e ∈ es, wfEntry e = true) (hk : ∀ e ∈ es, isDirectiveOrTxn e = true)
    (hP : ∀ e ∈ es, ∀ v ∈ exprsOfEntry e, PlainV v) :
    ∃ f, format w t = .ok f ∧ parseEntries f = .ok es ∧ format w f = .ok f :=
  C05_roundtrip_txn exprRT_plain w t es hp hwf hk hP

/-! ## non-vacuity -/

theorem exTxn_plain : ∀ v ∈ exprsOfTransaction exTxn, PlainV v := by
  unfold exTxn
  simp only [exprsOfTransaction, exprsOfPosting, exprsOfExchange, List.flatMap_cons, List.flatMap_nil, PlainV,
    ExprParse.plainV, ExprParse.plainE]
  decide +kernel

example : transaction (printTransaction widthCjk exTxn ++ ['\n']) = .ok exTxn ['\n'] :=
  transaction_rt_plain widthCjk exTxn exTxn_wf exTxn_plain ['\n'] (by simp [isSpace])

example : parseEntries (formatEntries widthStd [.txn exTxn, .endApplyTag, .txn exTxn]) =
    .ok [.txn exTxn, .endApplyTag, .txn exTxn] :=
  parseEntries_format widthStd _ (by
    intro e he
    simp only [List.mem_cons, List.mem_nil_iff, or_false] at he
    rcases he with rfl | rfl | rfl
    · exact entryRT_txn_plain widthStd exTxn exTxn_wf exTxn_plain
    · exact entryRT_endApplyTag widthStd
    · exact entryRT_txn_plain widthStd exTxn exTxn_wf exTxn_plain)

/-- the counterexample tree is not plain -/
example : ¬ ∀ v ∈ exprsOfPosting cexPosting, PlainV v := by
  unfold cexPosting
  simp only [exprsOfPosting, exprsOfExchange, PlainV, ExprParse.plainV, ExprParse.plainE]
  decide +kernel

end Okane.Unparse
