import Okane.Lemmas.ImportBooks
/-!
# Book-keeping accepts the importers' ledgers with currency conversions (lemmas for C16_accepts_conversion)

`Lemmas/ImportBooks.lean` characterises `process` on ledgers in one commodity without costs.  A CSV row with a
conversion prints a posting `v cm @ r cr` (an explicit amount with a *rate* in another commodity).  This file
generalises the induction to such postings: every posting carries an explicit amount `v cm`, optionally `@ r cr`
(`cr ≠ cm`, `r ≠ 0`); its contribution to the transaction's balance is `v cm`, or `r·v cr` when it is priced;
postings on the imported account `acct` are in `c` and may assert the running balance.  `process` accepts such a
ledger when every transaction's contributions sum to zero **in every commodity** (`sumD k = 0`).
-/
set_option linter.unusedSectionVars false
set_option linter.unusedVariables false
namespace Okane

/-- the optional `@ r cr` of a printed posting -/
abbrev CostSpec := Option (PDec × String)

/-- `@ r cr` as syntax -/
def costSyntax (k : CostSpec) : Option Exchange := k.map fun rc => Exchange.rate (.amt rc.1 rc.2)

/-- side conditions `Exchange::try_from_syntax` checks: a commodity, different from the amount's, non-zero rate -/
def CostOK (cm : String) : CostSpec → Prop
  | none => True
  | some (r, cr) => cr ≠ "" ∧ cr ≠ cm ∧ r.toRat ≠ 0

/-- what a posting `v cm [@ r cr]` contributes to the transaction's balance (`calculate_balance_amount`) -/
def deltaOf (v : PDec) (cm : String) : CostSpec → SingleAmount String
  | none => ⟨v.toRat, cm⟩
  | some (r, cr) => ⟨r.toRat * v.toRat, cr⟩

/-- the resolved amount of a posting `v cm [@ r cr]` -/
def raOf (v : PDec) (cm : String) : CostSpec → RAmount String
  | none => .plain (.single ⟨v.toRat, cm⟩)
  | some (r, cr) => .priced ⟨v.toRat, cm⟩ (some (.rate ⟨r.toRat, cr⟩)) none

theorem raOf_postingAmt (v : PDec) (cm : String) (k : CostSpec) : (raOf v cm k).postingAmt = .single ⟨v.toRat, cm⟩ := by
  cases k with
  | none => rfl
  | some rc => rfl

theorem raOf_balanceAmount (v : PDec) (cm : String) (k : CostSpec) :
    (raOf v cm k).balanceAmount = .single (deltaOf v cm k) := by
  cases k with
  | none => rfl
  | some rc => obtain ⟨r, cr⟩ := rc; simp [raOf, RAmount.balanceAmount, RExchange.exchange, SingleAmount.mul, deltaOf]

/-- Postings with an explicit amount `v cm`, optionally `@ r cr`, no lot; postings on `acct` are in `c`; an
assertion only on `acct`, in `c`, equal to the running balance of `acct` (which starts at `x`). -/
def PostingsOKx (acct c : String) : Rat → List Posting → Prop
  | _, [] => True
  | x, p :: ps =>
    ∃ (v : PDec) (cm : String) (k : CostSpec),
      p.amount = some { amount := .amt v cm, cost := costSyntax k, lot := {} } ∧
      cm ≠ "" ∧ CostOK cm k ∧ (p.account = acct → cm = c) ∧
      (p.balance = none ∨
        (p.account = acct ∧ ∃ b : PDec, p.balance = some (.amt b c) ∧ b.toRat = stepX acct x p.account v.toRat)) ∧
      PostingsOKx acct c (stepX acct x p.account v.toRat) ps

/-- the contribution of a posting to the transaction's balance, read off the syntax -/
def postDelta (p : Posting) : Option (SingleAmount String) :=
  match p.amount with
  | some { amount := .amt v cm, cost := none, .. } => some ⟨v.toRat, cm⟩
  | some { amount := .amt v cm, cost := some (.rate (.amt r cr)), .. } => some ⟨r.toRat * v.toRat, cr⟩
  | _ => none

/-- part of a contribution in commodity `k` -/
def partAt (k : String) : Option (SingleAmount String) → Rat
  | some d => if d.commodity = k then d.value else 0
  | none => 0

/-- the transaction's balance in commodity `k`: sum of the contributions in `k` -/
def sumD (k : String) : List Posting → Rat
  | [] => 0
  | p :: ps => partAt k (postDelta p) + sumD k ps

theorem postDelta_shape (p : Posting) (v : PDec) (cm : String) (k : CostSpec) (lot : Lot)
    (h : p.amount = some { amount := .amt v cm, cost := costSyntax k, lot := lot }) :
    postDelta p = some (deltaOf v cm k) := by
  unfold postDelta
  rw [h]
  cases k with
  | none => rfl
  | some rc => rfl

/-- state of the posting loop: nothing omitted so far, the running sum in every commodity `k` is `f k` -/
structure TSOKx (ts : TxnState String String) (f : String → Rat) : Prop where
  unfilled : ts.unfilled = none
  wf : AMap.WF ts.balance
  val : ∀ k, Amount.getPart ts.balance k = f k

theorem sumV_cons_amt' (p : Posting) (ps : List Posting) (v : PDec) (c : String) (cost : Option Exchange) (lot : Lot)
    (h : p.amount = some { amount := .amt v c, cost := cost, lot := lot }) : sumV (p :: ps) = v.toRat + sumV ps := by
  simp [sumV, h]

/-! ## one posting -/

theorem isEmpty_false_of_ne (c : String) (hc : c ≠ "") : c.isEmpty = false := by
  cases hh : c.isEmpty with
  | false => rfl
  | true => exact absurd (String.isEmpty_iff.mp hh) hc

theorem resolveAmount_x (s : Store) (hs : s.NoAlias) (v : PDec) (cm : String) (k : CostSpec) (hcm : cm ≠ "")
    (hk : CostOK cm k) :
    ∃ s', s'.NoAlias ∧
      resolveAmount s { amount := .amt v cm, cost := costSyntax k, lot := {} } = .ok (raOf v cm k, s') := by
  have hce := isEmpty_false_of_ne cm hcm
  have h1 := Store.ensure_fst s hs cm
  have h2 := Store.ensure_noAlias s hs cm
  cases k with
  | none =>
    refine ⟨(s.ensure cm).2, h2, ?_⟩
    simp [resolveAmount, evalPostingAmt, evalMut, evalVExprWith, leafMut, hce, Evaluated.toPosting, Evaluated.toAmount,
      Amount.toPosting, resolveOptExchange, costSyntax, raOf, h1]
  | some rc =>
    obtain ⟨r, cr⟩ := rc
    obtain ⟨hcr, hne, hr⟩ := hk
    have hcre := isEmpty_false_of_ne cr hcr
    have h3 := Store.ensure_fst (s.ensure cm).2 h2 cr
    have h4 := Store.ensure_noAlias (s.ensure cm).2 h2 cr
    refine ⟨((s.ensure cm).2.ensure cr).2, h4, ?_⟩
    simp [resolveAmount, evalPostingAmt, evalMut, evalVExprWith, leafMut, hce, hcre, Evaluated.toPosting,
      Evaluated.toAmount, Evaluated.toSingle, Amount.toPosting, Amount.toSingle, resolveOptExchange, resolveExchange,
      costSyntax, raOf, h1, h3, hr, Ne.symm hne]

theorem resolveOptBalance_x (s : Store) (hs : s.NoAlias) (c : String) (hc : c ≠ "") (bal : Option VExpr)
    (hbal : bal = none ∨ ∃ b : PDec, bal = some (.amt b c)) :
    ∃ s', s'.NoAlias ∧
      resolveOptBalance s bal =
        .ok ((match bal with
              | some (.amt b _) => some (.single ⟨b.toRat, c⟩)
              | _ => none), s') := by
  rcases hbal with h | ⟨b, h⟩
  · subst h
    exact ⟨s, hs, rfl⟩
  · subst h
    have hce := isEmpty_false_of_ne c hc
    have h1 := Store.ensure_fst s hs c
    have h2 := Store.ensure_noAlias s hs c
    refine ⟨(s.ensure c).2, h2, ?_⟩
    simp [resolveOptBalance, evalPostingAmt, evalMut, evalVExprWith, leafMut, hce, Evaluated.toPosting,
      Evaluated.toAmount, Amount.toPosting, h1]

theorem resolvePosting_x (ctx : Ctx) (hctx : CtxOK ctx) (c : String) (hc : c ≠ "") (p : Posting) (v : PDec)
    (cm : String) (k : CostSpec) (hcm : cm ≠ "") (hk : CostOK cm k)
    (hamt : p.amount = some { amount := .amt v cm, cost := costSyntax k, lot := {} })
    (hbal : p.balance = none ∨ ∃ b : PDec, p.balance = some (.amt b c)) :
    ∃ ctx', CtxOK ctx' ∧
      resolvePosting ctx p =
        .ok (⟨p.account, some (raOf v cm k),
              match p.balance with
              | some (.amt b _) => some (.single ⟨b.toRat, c⟩)
              | _ => none⟩, ctx') := by
  have ha1 := Store.ensure_fst ctx.accounts hctx.accounts p.account
  have ha2 := Store.ensure_noAlias ctx.accounts hctx.accounts p.account
  obtain ⟨s1, hs1, hra⟩ := resolveAmount_x ctx.commodities hctx.commodities v cm k hcm hk
  obtain ⟨s2, hs2, hrb⟩ := resolveOptBalance_x s1 hs1 c hc p.balance hbal
  refine ⟨{ ctx with accounts := (ctx.accounts.ensure p.account).2, commodities := s2 },
    ⟨ha2, hs2, hctx.formatting⟩, ?_⟩
  unfold resolvePosting
  simp only [hamt, hra, hrb, ha1]

theorem getPart_single' (d : SingleAmount String) (k : String) :
    Amount.getPart (PostingAmt.toAmount (.single d)) k = partAt k (some d) := by
  obtain ⟨v, c⟩ := d
  rw [getPart_single]
  rfl

theorem stepPosting_x (date : Date) (ts : TxnState String String) (idx : Nat) (acct c : String) (x : Rat)
    (f : String → Rat) (a : String) (v : PDec) (cm : String) (k : CostSpec) (bexp : Option Rat)
    (hts : TSOKx ts f) (hb : BalOK ts.bal acct c x) (hacct : a = acct → cm = c)
    (hassert : bexp = none ∨ (a = acct ∧ bexp = some (stepX acct x a v.toRat))) :
    ∃ ts', stepPosting date ts idx ⟨a, some (raOf v cm k), bexp.map (fun b => .single ⟨b, c⟩)⟩ = .ok ts' ∧
      TSOKx ts' (fun k' => f k' + partAt k' (some (deltaOf v cm k))) ∧ BalOK ts'.bal acct c (stepX acct x a v.toRat) := by
  have hcur_wf : ∀ acc : String, AMap.WF (Balance.get ts.bal acc) →
      AMap.WF (((Balance.get ts.bal acc).addPosting (.single ⟨v.toRat, cm⟩)).removeZero) := fun acc h =>
    Amount.WF_removeZero _ (Amount.WF_addPosting _ _ h)
  have hcur_val : a = acct →
      Amount.getPart (((Balance.get ts.bal acct).addPosting (.single ⟨v.toRat, cm⟩)).removeZero) c = x + v.toRat := by
    intro ha
    rw [Amount.getPart_removeZero _ (Amount.WF_addPosting _ _ hb.wf), Amount.getPart_addPosting, hb.val, getPart_single]
    simp [hacct ha]
  have hproc : processPosting ts.bal date idx ⟨a, some (raOf v cm k), bexp.map (fun b => .single ⟨b, c⟩)⟩ =
      .ok (some ⟨.single ⟨v.toRat, cm⟩, (raOf v cm k).convertedAmount, .single (deltaOf v cm k)⟩,
           (raOf v cm k).priceEvent date,
           AMap.insert ts.bal a (((Balance.get ts.bal a).addPosting (.single ⟨v.toRat, cm⟩)).removeZero)) := by
    rcases hassert with h | ⟨ha, h⟩
    · subst h
      simp [processPosting, Balance.addPostingAmount, raOf_postingAmt, raOf_balanceAmount]
    · subst ha
      subst h
      have h0 : x + v.toRat - (x + v.toRat) = 0 := by grind
      simp only [processPosting, Balance.addPostingAmount, raOf_postingAmt, raOf_balanceAmount, Option.map_some,
        Amount.assertBalance, hcur_val rfl, stepX, if_true, h0]
      simp [Amount.isAbsoluteZero]
  have hstep : ∃ ts', stepPosting date ts idx ⟨a, some (raOf v cm k), bexp.map (fun b => .single ⟨b, c⟩)⟩ = .ok ts' ∧
      ts'.unfilled = ts.unfilled ∧ ts'.balance = ts.balance.addPosting (.single (deltaOf v cm k)) ∧
      ts'.bal = AMap.insert ts.bal a (((Balance.get ts.bal a).addPosting (.single ⟨v.toRat, cm⟩)).removeZero) := by
    unfold stepPosting
    rw [hproc]
    exact ⟨_, rfl, rfl, rfl, rfl⟩
  obtain ⟨ts', hs, hunf, hbalance, hbal⟩ := hstep
  refine ⟨ts', hs, ?_, ?_⟩
  · refine ⟨hunf ▸ hts.unfilled, hbalance ▸ Amount.WF_addPosting _ _ hts.wf, ?_⟩
    intro k'
    rw [hbalance, Amount.getPart_addPosting, hts.val, getPart_single']
  · rw [hbal]
    unfold stepX
    by_cases ha : a = acct
    · subst ha
      simp only [if_true]
      refine ⟨?_, ?_⟩
      · simp only [Balance.get, AMap.get?_insert_self, Option.getD_some]
        exact hcur_wf a hb.wf
      · simp only [Balance.get, AMap.get?_insert_self, Option.getD_some]
        exact hcur_val rfl
    · simp only [ha, if_false]
      refine ⟨?_, ?_⟩
      · simp only [Balance.get, AMap.get?_insert_ne _ _ ha]
        exact hb.wf
      · simp only [Balance.get, AMap.get?_insert_ne _ _ ha]
        exact hb.val

/-! ## the posting loop -/

theorem loopSyntax_okx (date : Date) (acct c : String) (hc : c ≠ "") :
    ∀ (ps : List Posting) (ctx : Ctx) (ts : TxnState String String) (idx : Nat) (x : Rat) (f : String → Rat),
      CtxOK ctx → TSOKx ts f → BalOK ts.bal acct c x → PostingsOKx acct c x ps →
      ∃ ctx' ts', loopSyntax date ctx ts idx ps = .ok (ctx', ts') ∧ CtxOK ctx' ∧
        TSOKx ts' (fun k => f k + sumD k ps) ∧ BalOK ts'.bal acct c (finalX acct x ps) := by
  intro ps
  induction ps with
  | nil =>
    intro ctx ts idx x f hctx hts hb _
    exact ⟨ctx, ts, rfl, hctx, by simpa [sumD] using hts, by simpa [finalX] using hb⟩
  | cons p ps ih =>
    intro ctx ts idx x f hctx hts hb hok
    obtain ⟨v, cm, k, hamt, hcm, hk, hacct, hbal, hrest⟩ := hok
    have hbal' : p.balance = none ∨ ∃ b : PDec, p.balance = some (.amt b c) := by
      rcases hbal with h | ⟨_, b, h, _⟩
      · exact Or.inl h
      · exact Or.inr ⟨b, h⟩
    obtain ⟨ctx1, hctx1, hres⟩ := resolvePosting_x ctx hctx c hc p v cm k hcm hk hamt hbal'
    have hstep : ∃ ts1, stepPosting date ts idx
        ⟨p.account, some (raOf v cm k),
          match p.balance with
          | some (.amt b _) => some (.single ⟨b.toRat, c⟩)
          | _ => none⟩ = .ok ts1 ∧
        TSOKx ts1 (fun k' => f k' + partAt k' (some (deltaOf v cm k))) ∧
        BalOK ts1.bal acct c (stepX acct x p.account v.toRat) := by
      rcases hbal with h | ⟨ha, b, h, hb2⟩
      · have := stepPosting_x date ts idx acct c x f p.account v cm k none hts hb hacct (Or.inl rfl)
        simpa [h] using this
      · have := stepPosting_x date ts idx acct c x f p.account v cm k (some b.toRat) hts hb hacct
          (Or.inr ⟨ha, by rw [hb2]⟩)
        simpa [h] using this
    obtain ⟨ts1, hs1, hts1, hb1⟩ := hstep
    obtain ⟨ctx', ts', hloop, hctx', hts', hb'⟩ := ih ctx1 ts1 (idx + 1) _ _ hctx1 hts1 hb1 hrest
    refine ⟨ctx', ts', ?_, hctx', ?_, ?_⟩
    · unfold loopSyntax
      rw [hres]
      simp only [hs1]
      exact hloop
    · refine ⟨hts'.unfilled, hts'.wf, ?_⟩
      intro k'
      rw [hts'.val]
      simp only [sumD, postDelta_shape p v cm k {} hamt]
      grind
    · have : finalX acct x (p :: ps) = finalX acct (stepX acct x p.account v.toRat) ps := by simp [finalX, hamt]
      rw [this]; exact hb'

/-! ## one transaction, then the whole ledger -/

theorem addTransactionSyntax_okx (acct c : String) (hc : c ≠ "") (ctx : Ctx) (bal : Balance String String)
    (t : Transaction) (x : Rat) (hctx : CtxOK ctx) (hb : BalOK bal acct c x)
    (hok : PostingsOKx acct c x t.posts) (hsum : ∀ k, sumD k t.posts = 0) :
    ∃ ctx' r, addTransactionSyntax ctx bal t = .ok (ctx', r) ∧ CtxOK ctx' ∧
      BalOK r.bal acct c (finalX acct x t.posts) := by
  have hts0 : TSOKx (⟨[], none, [], bal, [], []⟩ : TxnState String String) (fun _ => 0) :=
    ⟨rfl, AMap.WF_nil, fun _ => rfl⟩
  obtain ⟨ctx', ts', hloop, hctx', hts', hb'⟩ :=
    loopSyntax_okx t.date acct c hc t.posts ctx ⟨[], none, [], bal, [], []⟩ 0 x (fun _ => 0) hctx hts0 hb hok
  have hprec : ctx'.prec = fun _ => none := by
    funext k
    simp [Ctx.prec, hctx'.formatting]
  have hzero : (Amount.round ctx'.prec ts'.balance).isZero = true := by
    rw [hprec, Amount.isZero_iff_getPart _ (Amount.WF_round _ _ hts'.wf)]
    intro c'
    rw [getPart_round_noPrec, hts'.val, hsum]
    simp
  refine ⟨ctx', ⟨⟨t.date, ts'.postings⟩, ts'.bal, ts'.events ++ []⟩, ?_, hctx', hb'⟩
  unfold addTransactionSyntax
  rw [hloop]
  simp only [finishTxn, hts'.unfilled, checkBalance, hzero, if_true]
  simp

/-- a ledger of such transactions: every transaction balances in every commodity and its assertions match the
running balance -/
def LedgerOKx (acct c : String) : Rat → List Transaction → Prop
  | _, [] => True
  | x, t :: ts => PostingsOKx acct c x t.posts ∧ (∀ k, sumD k t.posts = 0) ∧ LedgerOKx acct c (finalX acct x t.posts) ts

theorem processFrom_okx (acct c : String) (hc : c ≠ "") :
    ∀ (ts : List Transaction) (st : ProcState) (i : Nat) (x : Rat),
      CtxOK st.ctx → BalOK st.bal acct c x → LedgerOKx acct c x ts →
      ∃ st', processFrom st i (ts.map Entry.txn) = .ok st' ∧ CtxOK st'.ctx ∧ BalOK st'.bal acct c (ledgerX acct x ts) := by
  intro ts
  induction ts with
  | nil =>
    intro st i x hctx hb _
    exact ⟨st, rfl, hctx, hb⟩
  | cons t ts ih =>
    intro st i x hctx hb hok
    obtain ⟨hp, hs, hrest⟩ := hok
    obtain ⟨ctx', r, hadd, hctx', hb'⟩ := addTransactionSyntax_okx acct c hc st.ctx st.bal t x hctx hb hp hs
    obtain ⟨st', hproc, hctx'', hb''⟩ :=
      ih { ctx := ctx', bal := r.bal, txns := st.txns ++ [r.txn], events := st.events ++ r.events } (i + 1) _ hctx' hb' hrest
    refine ⟨st', ?_, hctx'', hb''⟩
    simp only [List.map_cons, processFrom, stepEntry, hadd]
    exact hproc

/-- **Acceptance with conversions.**  A ledger of transactions with explicit (possibly priced) amounts that each
balance in every commodity and whose balance assertions on `acct` equal the running balance is accepted by
`process`, and `acct` ends at the running total. -/
theorem process_okx (acct c : String) (hc : c ≠ "") (ts : List Transaction) (hok : LedgerOKx acct c 0 ts) :
    ∃ st, process (ts.map Entry.txn) = .ok st ∧
      Amount.getPart (Balance.get st.bal acct) c = ledgerX acct 0 ts := by
  have hb0 : BalOK ([] : Balance String String) acct c 0 := ⟨AMap.WF_nil, rfl⟩
  obtain ⟨st', h, _, hb⟩ := processFrom_okx acct c hc ts {} 0 0 CtxOK.empty hb0 hok
  exact ⟨st', h, hb.val⟩

/-! ## the single-commodity ledgers of `ImportBooks` are a special case -/

theorem PostingsOKx_of_PostingsOK (acct c : String) (hc : c ≠ "") : ∀ (ps : List Posting) (x : Rat),
    PostingsOK acct c x ps → PostingsOKx acct c x ps ∧ (∀ k, sumD k ps = if k = c then sumV ps else 0) := by
  intro ps
  induction ps with
  | nil => intro x _; exact ⟨trivial, fun k => by simp [sumD, sumV]⟩
  | cons p ps ih =>
    intro x h
    obtain ⟨v, hamt, hbal, hrest⟩ := h
    obtain ⟨ih1, ih2⟩ := ih _ hrest
    refine ⟨⟨v, c, none, hamt, hc, trivial, fun _ => rfl, hbal, ih1⟩, ?_⟩
    intro k
    simp only [sumD, postDelta_shape p v c none {} hamt, ih2 k, sumV_cons_amt' p ps v c none {} hamt, partAt, deltaOf]
    by_cases hk : k = c
    · subst hk; simp
    · simp [hk, Ne.symm hk]

theorem LedgerOKx_of_LedgerOK (acct c : String) (hc : c ≠ "") : ∀ (ts : List Transaction) (x : Rat),
    LedgerOK acct c x ts → LedgerOKx acct c x ts := by
  intro ts
  induction ts with
  | nil => intro _ _; trivial
  | cons t ts ih =>
    intro x h
    obtain ⟨hp, hs, hrest⟩ := h
    obtain ⟨h1, h2⟩ := PostingsOKx_of_PostingsOK acct c hc t.posts x hp
    refine ⟨h1, ?_, ih _ hrest⟩
    intro k
    rw [h2 k, hs]
    simp

/-! ## rejection: a residual in a single commodity -/

theorem maybePair_some (b : Amount String) (a1 a2 : SingleAmount String) (h : Amount.maybePair b = some (a1, a2)) :
    b = [(a1.commodity, a1.value), (a2.commodity, a2.value)] := by
  unfold Amount.maybePair at h
  split at h
  · simp only [Option.some.injEq, Prod.mk.injEq] at h
    obtain ⟨h1, h2⟩ := h
    subst h1; subst h2
    rfl
  · simp at h

/-- `check_balance` rejects a balance whose only non-zero part is in one commodity `k0` -/
theorem checkBalance_single_residual (date : Date) (ps : List (OutPosting String String)) (b : Amount String)
    (k0 : String) (hwf : AMap.WF b) (h0 : Amount.getPart b k0 ≠ 0) (hothers : ∀ k, k ≠ k0 → Amount.getPart b k = 0) :
    checkBalance (fun _ => none) date ps b = .err (.unbalanced (Amount.round (fun _ => none) b)) := by
  have hwf' := Amount.WF_round (fun _ => none) b hwf
  have hnz : (Amount.round (fun _ => none) b).isZero = false := by
    cases hz : (Amount.round (fun _ => none) b).isZero with
    | false => rfl
    | true =>
      have := (Amount.isZero_iff_getPart _ hwf').1 hz k0
      rw [getPart_round_noPrec] at this
      exact absurd this h0
  have himp : impliedExchange (Amount.round (fun _ => none) b) = none := by
    unfold impliedExchange
    cases hp : (Amount.round (fun _ => none) b).maybePair with
    | none => rfl
    | some pr =>
      obtain ⟨a1, a2⟩ := pr
      have hb := maybePair_some _ a1 a2 hp
      have hne : a1.commodity ≠ a2.commodity := by
        have hw := hwf'
        rw [hb] at hw
        unfold AMap.WF AMap.keys at hw
        simpa using hw
      have hg1 : Amount.getPart b a1.commodity = a1.value := by
        rw [← getPart_round_noPrec b a1.commodity, hb]
        simp [Amount.getPart, AMap.get?]
      have hg2 : Amount.getPart b a2.commodity = a2.value := by
        rw [← getPart_round_noPrec b a2.commodity, hb]
        simp [Amount.getPart, AMap.get?, hne]
      simp only
      split
      · rename_i hc
        obtain ⟨hv1, hv2, _⟩ := hc
        have e1 : a1.commodity = k0 := by
          apply Classical.byContradiction
          intro hk
          exact hv1 (by rw [← hg1]; exact hothers _ hk)
        have e2 : a2.commodity = k0 := by
          apply Classical.byContradiction
          intro hk
          exact hv2 (by rw [← hg2]; exact hothers _ hk)
        exact absurd (e1.trans e2.symm) hne
      · rfl
  unfold checkBalance
  simp only [hnz, himp]
  simp

/-- a transaction of the importers' shape whose contributions leave a residual in exactly one commodity is
rejected as unbalanced -/
theorem addTransactionSyntax_rejectx (acct c : String) (hc : c ≠ "") (ctx : Ctx) (bal : Balance String String)
    (t : Transaction) (x : Rat) (hctx : CtxOK ctx) (hb : BalOK bal acct c x)
    (hok : PostingsOKx acct c x t.posts) (k0 : String) (h0 : sumD k0 t.posts ≠ 0)
    (hothers : ∀ k, k ≠ k0 → sumD k t.posts = 0) :
    ∃ r, addTransactionSyntax ctx bal t = .err (.unbalanced r) := by
  have hts0 : TSOKx (⟨[], none, [], bal, [], []⟩ : TxnState String String) (fun _ => 0) :=
    ⟨rfl, AMap.WF_nil, fun _ => rfl⟩
  obtain ⟨ctx', ts', hloop, hctx', hts', hb'⟩ :=
    loopSyntax_okx t.date acct c hc t.posts ctx ⟨[], none, [], bal, [], []⟩ 0 x (fun _ => 0) hctx hts0 hb hok
  have hprec : ctx'.prec = fun _ => none := by
    funext k
    simp [Ctx.prec, hctx'.formatting]
  have hcb := checkBalance_single_residual t.date ts'.postings ts'.balance k0 hts'.wf
    (by rw [hts'.val]; simpa using h0) (fun k hk => by rw [hts'.val, hothers k hk]; simp)
  refine ⟨Amount.round (fun _ => none) ts'.balance, ?_⟩
  unfold addTransactionSyntax
  rw [hloop]
  simp only [finishTxn, hts'.unfilled, hprec, hcb]

/-- a ledger whose transactions are fine up to one that leaves a single-commodity residual is rejected, whatever
follows -/
theorem processFrom_rejectx (acct c : String) (hc : c ≠ "") :
    ∀ (pre : List Transaction) (t : Transaction) (post : List Transaction) (st : ProcState) (i : Nat) (x : Rat),
      CtxOK st.ctx → BalOK st.bal acct c x → LedgerOKx acct c x pre →
      PostingsOKx acct c (ledgerX acct x pre) t.posts →
      (∃ k0, sumD k0 t.posts ≠ 0 ∧ ∀ k, k ≠ k0 → sumD k t.posts = 0) →
      ∃ r, processFrom st i ((pre ++ t :: post).map Entry.txn) = .err (i + pre.length, .unbalanced r) := by
  intro pre
  induction pre with
  | nil =>
    intro t post st i x hctx hb _ hok hres
    obtain ⟨k0, h0, hothers⟩ := hres
    obtain ⟨r, hr⟩ := addTransactionSyntax_rejectx acct c hc st.ctx st.bal t x hctx hb hok k0 h0 hothers
    refine ⟨r, ?_⟩
    simp only [List.nil_append, List.map_cons, processFrom, stepEntry, hr, List.length_nil, Nat.add_zero]
  | cons p pre ih =>
    intro t post st i x hctx hb hpre hok hres
    obtain ⟨hp, hs, hrest⟩ := hpre
    obtain ⟨ctx', r, hadd, hctx', hb'⟩ := addTransactionSyntax_okx acct c hc st.ctx st.bal p x hctx hb hp hs
    obtain ⟨r', hr'⟩ :=
      ih t post { ctx := ctx', bal := r.bal, txns := st.txns ++ [r.txn], events := st.events ++ r.events } (i + 1) _
        hctx' hb' hrest hok hres
    refine ⟨r', ?_⟩
    simp only [List.cons_append, List.map_cons, processFrom, stepEntry, hadd, List.length_cons]
    rw [hr']
    congr 2
    omega

theorem process_rejectx (acct c : String) (hc : c ≠ "") (pre : List Transaction) (t : Transaction)
    (post : List Transaction) (hpre : LedgerOKx acct c 0 pre) (hok : PostingsOKx acct c (ledgerX acct 0 pre) t.posts)
    (hres : ∃ k0, sumD k0 t.posts ≠ 0 ∧ ∀ k, k ≠ k0 → sumD k t.posts = 0) :
    ∃ r, process ((pre ++ t :: post).map Entry.txn) = .err (pre.length, .unbalanced r) := by
  have hb0 : BalOK ([] : Balance String String) acct c 0 := ⟨AMap.WF_nil, rfl⟩
  obtain ⟨r, h⟩ := processFrom_rejectx acct c hc pre t post {} 0 0 CtxOK.empty hb0 hpre hok hres
  exact ⟨r, by simpa [process] using h⟩

end Okane
