import Okane.Base.Num
namespace Okane
theorem roundHalfEvenInt_zero : roundHalfEvenInt 0 = 0 := by decide +kernel
theorem roundHalfEven_zero (dp : Nat) : roundHalfEven 0 dp = 0 := by
  unfold roundHalfEven
  rw [Rat.zero_mul, roundHalfEvenInt_zero]
  show (0 : Rat) / pow10 dp = 0
  rw [Rat.div_def, Rat.zero_mul]
end Okane
