import Okane.Model.Literal
import Okane.Spec.Literal
/-!
# Helper lemmas for C07: the scanner state machine accepts exactly the well-formed literals
-/
namespace Okane.C07
open Okane Okane.Literal

/-- the accepted value, if any -/
def acc {α : Type} : Outcome LitErr α → Option α
  | .ok a => some a
  | _ => none

/-- the loop from state `st` at byte index `i`, followed by the end-of-input code -/
def run (st : St) (i : Nat) (rest : List Char) : Outcome LitErr PDec :=
  match loop st i rest with
  | .ok st' => finish st' (i + rest.length)
  | .err e => .err e
  | .panic p => .panic p
  | .fuelOut => .fuelOut

theorem scan_eq_run (s : List Char) : scan s = run {} 0 s := by
  unfold scan run
  simp only [Nat.zero_add]
  cases loop {} 0 s <;> rfl

theorem run_nil (st : St) (i : Nat) : run st i [] = finish st i := by
  simp [run, loop]

theorem run_cons (st : St) (i : Nat) (c : Char) (cs : List Char) :
    run st i (c :: cs) = match step st i c with
      | .ok st' => run st' (i + 1) cs
      | .err e => .err e
      | .panic p => .panic p
      | .fuelOut => .fuelOut := by
  simp only [run, loop]
  cases step st i c with
  | ok st' => simp only [List.length_cons]; rw [show i + (cs.length + 1) = i + 1 + cs.length by omega]
  | err e => rfl
  | panic p => rfl
  | fuelOut => rfl

/-- mantissa accumulation over a run of digit characters -/
def foldMant (m : Nat) (ds : List Char) : Nat := ds.foldl (fun m c => m * 10 + digitVal c) m

@[simp] theorem foldMant_nil (m : Nat) : foldMant m [] = m := rfl
theorem foldMant_cons (m : Nat) (c : Char) (cs : List Char) :
    foldMant m (c :: cs) = foldMant (m * 10 + digitVal c) cs := by
  simp only [foldMant, List.foldl_cons]

theorem foldMant_ge (m : Nat) (ds : List Char) : m ≤ foldMant m ds := by
  induction ds generalizing m with
  | nil => simp
  | cons c cs ih =>
    simp only [foldMant_cons]
    have := ih (m * 10 + digitVal c)
    omega

theorem foldMant_append (m : Nat) (a b : List Char) : foldMant m (a ++ b) = foldMant (foldMant m a) b := by
  simp [foldMant, List.foldl_append]

theorem digit_ne {c : Char} (h : c.isDigit = true) : c ≠ '-' ∧ c ≠ ',' ∧ c ≠ '.' := by
  refine ⟨?_, ?_, ?_⟩ <;> (intro hc; subst hc; revert h; decide)

/-- a digit character anywhere -/
theorem step_digit (st : St) (i : Nat) (c : Char) (hd : c.isDigit = true) :
    step st i c =
      if st.commaPos = some i then .err (.commaRequired i)
      else if st.mant * 10 + digitVal c > i128Max then .err .invalidDecimal
      else .ok { st with
        fmt := if st.scale.isNone = true ∧ st.fmt.isNone = true ∧ i ≥ 3 + st.prefixLen then some Fmt.plain else st.fmt,
        mant := st.mant * 10 + digitVal c, scale := st.scale.map (· + 1), hasDigit := true } := by
  obtain ⟨h1, h2, h3⟩ := digit_ne hd
  simp [step, h1, h2, h3, hd]

/-- a character that is neither a digit nor `,` nor `.` (and not the leading minus) is an error -/
theorem step_other (st : St) (i : Nat) (c : Char) (hd : c.isDigit = false) (h2 : c ≠ ',') (h3 : c ≠ '.')
    (h1 : ¬ (i = 0 ∧ c = '-')) : ∃ e, step st i c = .err e := by
  simp only [step, h1, h2, h3, hd, if_false, false_and]
  split
  · exact ⟨_, rfl⟩
  · simp

theorem acc_ok {α : Type} (a : α) : acc (.ok a : Outcome LitErr α) = some a := rfl

theorem acc_err {α : Type} {x : Outcome LitErr α} (h : ∃ e, x = .err e) : acc x = none := by
  obtain ⟨e, rfl⟩ := h; rfl

/-- phase F: after the decimal point only digits may follow -/
theorem run_frac : ∀ (rest : List Char) (st : St) (i k : Nat), i ≠ 0 → st.commaPos = none → st.scale = some k →
    st.mant ≤ i128Max →
    acc (run st i rest) =
      if rest.all Char.isDigit = true ∧ foldMant st.mant rest ≤ i128Max then
        acc (finish { st with mant := foldMant st.mant rest, scale := some (k + rest.length),
                              hasDigit := st.hasDigit || !rest.isEmpty } (i + rest.length))
      else none := by
  intro rest
  induction rest with
  | nil =>
    intro st i k _ _ hs hm
    cases st
    simp_all [run_nil]
  | cons c cs ih =>
    intro st i k hi hc hs hm
    rw [run_cons]
    by_cases hd : c.isDigit = true
    · rw [step_digit st i c hd]
      simp only [hc, reduceCtorEq, if_false]
      by_cases hov : st.mant * 10 + digitVal c > i128Max
      · have := foldMant_ge (st.mant * 10 + digitVal c) cs
        have hnot : ¬ (foldMant (st.mant * 10 + digitVal c) cs ≤ i128Max) := by omega
        simp [hov, acc, hnot, foldMant_cons]
      · simp only [hov, if_false]
        rw [ih _ (i + 1) (k + 1) (by omega) (by simp [hc]) (by simp [hs]) (by simp; omega)]
        simp only [List.all_cons, hd, Bool.true_and, foldMant_cons, List.length_cons, hs, Option.isNone_some,
          Bool.false_eq_true, false_and, if_false, List.isEmpty_cons, Bool.not_false, Bool.or_true, Bool.true_or]
        rw [show k + 1 + cs.length = k + (cs.length + 1) by omega, show i + 1 + cs.length = i + (cs.length + 1) by omega]
    · have hd' : c.isDigit = false := by simpa using hd
      have herr : ∃ e, step st i c = .err e := by
        by_cases h2 : c = ','
        · subst h2; exact ⟨.unexpectedChar i, by simp [step, hs, hc, hi]⟩
        · by_cases h3 : c = '.'
          · subst h3; exact ⟨.unexpectedChar i, by simp [step, hs, hc, hi]⟩
          · exact step_other st i c hd' h2 h3 (by omega)
      obtain ⟨e, he⟩ := herr
      simp [he, acc, hd']

theorem acc_run_cons (st : St) (i : Nat) (c : Char) (cs : List Char) :
    acc (run st i (c :: cs)) = match acc (step st i c) with
      | some st' => acc (run st' (i + 1) cs)
      | none => none := by
  rw [run_cons]
  cases step st i c <;> rfl

/-- inside a comma group (before the position where the next separator is due) only digits are accepted -/
theorem step_in_group (st : St) (j cp : Nat) (c : Char) (hj : j ≠ 0) (hcp : st.commaPos = some cp) (hlt : j < cp)
    (hs : st.scale = none) (hf : st.fmt = some .comma3dot) :
    acc (step st j c) =
      if c.isDigit = true ∧ st.mant * 10 + digitVal c ≤ i128Max then
        some { st with mant := st.mant * 10 + digitVal c, hasDigit := true }
      else none := by
  have hne : cp ≠ j := by omega
  by_cases hd : c.isDigit = true
  · rw [step_digit st j c hd]
    simp only [hcp, Option.some.injEq, hne, if_false, hd, true_and]
    by_cases hov : st.mant * 10 + digitVal c > i128Max
    · have : ¬ (st.mant * 10 + digitVal c ≤ i128Max) := by omega
      simp [hov, this, acc]
    · have : st.mant * 10 + digitVal c ≤ i128Max := by omega
      simp only [hov, if_false, this, if_true, acc]
      cases st; simp_all
  · have hd' : c.isDigit = false := by simpa using hd
    have herr : ∃ e, step st j c = .err e := by
      by_cases h2 : c = ','
      · subst h2; exact ⟨.unexpectedChar j, by simp [step, hs, hcp, hj, alignedComma, hne]⟩
      · by_cases h3 : c = '.'
        · subst h3; exact ⟨.unexpectedChar j, by simp [step, hs, hcp, hj, hne]⟩
        · exact step_other st j c hd' h2 h3 (by omega)
    obtain ⟨e, he⟩ := herr
    simp [he, acc, hd']

theorem finish_incomplete (st : St) (len cp : Nat) (hcp : st.commaPos = some cp) (hne : cp ≠ len) :
    acc (finish st len) = none := by
  simp [finish, hcp, hne, acc]

/-- a comma at an aligned position must be followed by exactly three digits -/
theorem run_comma (st : St) (i : Nat) (rest : List Char) (hi : i ≠ 0) (hs : st.scale = none)
    (hal : alignedComma st.prefixLen st.commaPos i = true) :
    acc (run st i (',' :: rest)) =
      match rest with
      | a :: b :: c :: tl =>
        if a.isDigit = true ∧ b.isDigit = true ∧ c.isDigit = true ∧ foldMant st.mant [a, b, c] ≤ i128Max then
          acc (run { st with fmt := some .comma3dot, commaPos := some (i + 4), mant := foldMant st.mant [a, b, c],
                             hasDigit := true } (i + 4) tl)
        else none
      | _ => none := by
  have hstep : step st i ',' = .ok { st with fmt := some .comma3dot, commaPos := some (i + 4) } := by
    simp [step, hs, hal, hi]
  rw [acc_run_cons, hstep, acc_ok]
  dsimp only
  match rest with
  | [] =>
    simp only [run_nil]
    exact finish_incomplete _ _ (i + 4) rfl (by omega)
  | [a] =>
    rw [acc_run_cons, step_in_group _ (i + 1) (i + 4) a (by omega) rfl (by omega) (by simp [hs]) rfl]
    by_cases ha : a.isDigit = true ∧ st.mant * 10 + digitVal a ≤ i128Max
    · simp only [ha, and_self, if_true, run_nil]
      exact finish_incomplete _ _ (i + 4) rfl (by omega)
    · simp only [ha, if_false]
  | [a, b] =>
    rw [acc_run_cons, step_in_group _ (i + 1) (i + 4) a (by omega) rfl (by omega) (by simp [hs]) rfl]
    by_cases ha : a.isDigit = true ∧ st.mant * 10 + digitVal a ≤ i128Max
    · simp only [ha, and_self, if_true]
      rw [acc_run_cons, step_in_group _ (i + 1 + 1) (i + 4) b (by omega) rfl (by omega) (by simp [hs]) rfl]
      by_cases hb : b.isDigit = true ∧ (st.mant * 10 + digitVal a) * 10 + digitVal b ≤ i128Max
      · simp only [hb, and_self, if_true, run_nil]
        exact finish_incomplete _ _ (i + 4) rfl (by omega)
      · simp only [hb, if_false]
    · simp only [ha, if_false]
  | a :: b :: c :: tl =>
    simp only [foldMant_cons, foldMant_nil]
    rw [acc_run_cons, step_in_group _ (i + 1) (i + 4) a (by omega) rfl (by omega) (by simp [hs]) rfl]
    by_cases ha : a.isDigit = true ∧ st.mant * 10 + digitVal a ≤ i128Max
    · simp only [ha, and_self, if_true, true_and]
      rw [acc_run_cons, step_in_group _ (i + 1 + 1) (i + 4) b (by omega) rfl (by omega) (by simp [hs]) rfl]
      by_cases hb : b.isDigit = true ∧ (st.mant * 10 + digitVal a) * 10 + digitVal b ≤ i128Max
      · simp only [hb, and_self, if_true, true_and]
        rw [acc_run_cons, step_in_group _ (i + 1 + 1 + 1) (i + 4) c (by omega) rfl (by omega) (by simp [hs]) rfl]
        by_cases hc : c.isDigit = true ∧ ((st.mant * 10 + digitVal a) * 10 + digitVal b) * 10 + digitVal c ≤ i128Max
        · simp only [hc, and_self, if_true]
        · have : ¬ (c.isDigit = true ∧ ((st.mant * 10 + digitVal a) * 10 + digitVal b) * 10 + digitVal c ≤ i128Max) := hc
          simp only [this, if_false]
      · have h' : ¬ (b.isDigit = true ∧ c.isDigit = true ∧
            ((st.mant * 10 + digitVal a) * 10 + digitVal b) * 10 + digitVal c ≤ i128Max) := by
          intro ⟨h1, _, h3⟩; apply hb; exact ⟨h1, by omega⟩
        simp only [hb, if_false, h']
    · have h' : ¬ (a.isDigit = true ∧ b.isDigit = true ∧ c.isDigit = true ∧
          ((st.mant * 10 + digitVal a) * 10 + digitVal b) * 10 + digitVal c ≤ i128Max) := by
        intro ⟨h1, _, _, h3⟩; apply ha; exact ⟨h1, by omega⟩
      simp only [ha, if_false, h']

/-- what may follow a complete digit group: nothing, a fraction, or another complete group -/
def tailSpec : List Char → Bool
  | [] => true
  | '.' :: fp => fp.all Char.isDigit
  | ',' :: a :: b :: c :: tl => a.isDigit && b.isDigit && c.isDigit && tailSpec tl
  | _ => false

def tailScale : List Char → Option Nat
  | [] => none
  | '.' :: fp => some fp.length
  | ',' :: _ :: _ :: _ :: tl => tailScale tl
  | _ => none

theorem tailSpec_other (c : Char) (cs : List Char) (h1 : c ≠ '.') (h2 : c ≠ ',') : tailSpec (c :: cs) = false := by
  unfold tailSpec
  split <;> simp_all

theorem filter_digits_of_all (cs : List Char) (h : cs.all Char.isDigit = true) : cs.filter Char.isDigit = cs := by
  rw [List.filter_eq_self]
  simpa using h

theorem contains_dot_cons (c : Char) (cs : List Char) (h : c ≠ '.') : (c :: cs).contains '.' = cs.contains '.' := by
  simp [List.contains_cons, Ne.symm h]

/-- phase G: at a position where a separator is due -/
theorem run_tail : ∀ (n : Nat) (rest : List Char), rest.length ≤ n → ∀ (st : St) (i : Nat), i ≠ 0 →
    st.commaPos = some i → st.scale = none → st.fmt = some .comma3dot → st.mant ≤ i128Max → st.hasDigit = true →
    acc (run st i rest) =
      if tailSpec rest = true ∧ foldMant st.mant (rest.filter Char.isDigit) ≤ i128Max then
        acc (finish { st with commaPos := if rest.contains '.' then none else some (i + rest.length),
                              mant := foldMant st.mant (rest.filter Char.isDigit),
                              scale := tailScale rest } (i + rest.length))
      else none := by
  intro n
  induction n with
  | zero =>
    intro rest hlen st i hi hcp hs hf hm hh
    have : rest = [] := by cases rest <;> simp_all
    subst this
    cases st
    simp_all [run_nil, tailSpec, tailScale]
  | succ n ih =>
    intro rest hlen st i hi hcp hs hf hm hh
    match rest, hlen with
    | [], _ =>
      cases st
      simp_all [run_nil, tailSpec, tailScale]
    | c :: cs, hlen =>
      by_cases hdot : c = '.'
      · subst hdot
        have hstep : step st i '.' = .ok { st with scale := some 0, commaPos := none } := by
          simp [step, hs, hcp, hi]
        rw [acc_run_cons, hstep, acc_ok]
        dsimp only
        rw [run_frac cs { st with scale := some 0, commaPos := none } (i + 1) 0 (by omega) rfl rfl hm]
        have hfil : ('.' :: cs).filter Char.isDigit = cs.filter Char.isDigit := by
          rw [List.filter_cons]; simp [show ('.' : Char).isDigit = false by decide]
        by_cases hall : cs.all Char.isDigit = true
        · rw [hfil, filter_digits_of_all cs hall]
          simp only [tailSpec, hall, true_and, tailScale, List.contains_cons, BEq.rfl, Bool.true_or, if_true, hh,
            Bool.true_or, Nat.zero_add, List.length_cons]
          rw [show i + 1 + cs.length = i + (cs.length + 1) by omega]
        · simp [tailSpec, hall]
      · by_cases hcomma : c = ','
        · subst hcomma
          rw [run_comma st i cs hi hs (by simp [alignedComma, hcp])]
          match cs, hlen with
          | [], _ => simp [tailSpec]
          | [a], _ => simp [tailSpec]
          | [a, b], _ => simp [tailSpec]
          | a :: b :: c :: tl, hlen =>
            dsimp only
            by_cases hd : a.isDigit = true ∧ b.isDigit = true ∧ c.isDigit = true
            · obtain ⟨ha, hb, hc⟩ := hd
              have hfil : (',' :: a :: b :: c :: tl).filter Char.isDigit = a :: b :: c :: tl.filter Char.isDigit := by
                simp [List.filter_cons, ha, hb, hc, show (',' : Char).isDigit = false by decide]
              have hcont : (',' :: a :: b :: c :: tl).contains '.' = tl.contains '.' := by
                rw [contains_dot_cons _ _ (by decide), contains_dot_cons _ _ (digit_ne ha).2.2,
                  contains_dot_cons _ _ (digit_ne hb).2.2, contains_dot_cons _ _ (digit_ne hc).2.2]
              have hlen' : (',' :: a :: b :: c :: tl).length = tl.length + 4 := by simp
              rw [hfil, hcont, hlen']
              by_cases hov : foldMant st.mant [a, b, c] ≤ i128Max
              · simp only [ha, hb, hc, hov, and_self, if_true]
                rw [ih tl (by simp at hlen; omega) _ (i + 4) (by omega) rfl (by simp [hs]) rfl hov rfl]
                simp only [tailSpec, ha, hb, hc, Bool.true_and, tailScale]
                have e1 : foldMant st.mant (a :: b :: c :: tl.filter Char.isDigit)
                    = foldMant (foldMant st.mant [a, b, c]) (tl.filter Char.isDigit) := by
                  simp only [foldMant_cons, foldMant_nil]
                rw [e1, show i + 4 + tl.length = i + (tl.length + 4) by omega]
                simp only [hf, hh]
              · have := foldMant_ge (foldMant st.mant [a, b, c]) (tl.filter Char.isDigit)
                have e1 : foldMant st.mant (a :: b :: c :: tl.filter Char.isDigit)
                    = foldMant (foldMant st.mant [a, b, c]) (tl.filter Char.isDigit) := by
                  simp only [foldMant_cons, foldMant_nil]
                have hnot : ¬ (foldMant st.mant (a :: b :: c :: tl.filter Char.isDigit) ≤ i128Max) := by
                  rw [e1]; omega
                simp [hov, hnot]
            · have h1 : ¬ (a.isDigit = true ∧ b.isDigit = true ∧ c.isDigit = true ∧ foldMant st.mant [a, b, c] ≤ i128Max) := by
                intro ⟨x, y, z, _⟩; exact hd ⟨x, y, z⟩
              have h2 : tailSpec (',' :: a :: b :: c :: tl) = false := by
                simp only [tailSpec]
                simp only [not_and, Bool.not_eq_true] at hd
                by_cases ha : a.isDigit = true
                · by_cases hb : b.isDigit = true
                  · simp [ha, hb, hd ha hb]
                  · simp [hb]
                · simp [ha]
              simp [h1, h2]
        · have herr : ∃ e, step st i c = .err e := by
            by_cases hd : c.isDigit = true
            · exact ⟨.commaRequired i, by rw [step_digit st i c hd]; simp [hcp]⟩
            · exact step_other st i c (by simpa using hd) hcomma hdot (by omega)
          obtain ⟨e, he⟩ := herr
          rw [acc_run_cons, he]
          simp [acc, tailSpec_other c cs hdot hcomma]

/-- phase P: a run of digits before any separator -/
theorem run_digits : ∀ (g : List Char) (st : St) (i k : Nat) (r : List Char), g.all Char.isDigit = true →
    st.commaPos = none → st.scale = none → i = st.prefixLen + k → st.mant ≤ i128Max →
    st.fmt = (if k ≥ 4 then some Fmt.plain else none) →
    acc (run st i (g ++ r)) =
      if foldMant st.mant g ≤ i128Max then
        acc (run { st with mant := foldMant st.mant g, hasDigit := st.hasDigit || !g.isEmpty,
                           fmt := if k + g.length ≥ 4 then some Fmt.plain else none } (i + g.length) r)
      else none := by
  intro g
  induction g with
  | nil =>
    intro st i k r _ _ _ _ hm hf
    cases st
    simp_all
  | cons c cs ih =>
    intro st i k r hall hc hs hi hm hf
    simp only [List.all_cons, Bool.and_eq_true] at hall
    obtain ⟨hd, hall'⟩ := hall
    rw [List.cons_append, acc_run_cons, step_digit st i c hd]
    simp only [hc, reduceCtorEq, if_false, foldMant_cons]
    by_cases hov : st.mant * 10 + digitVal c > i128Max
    · have := foldMant_ge (st.mant * 10 + digitVal c) cs
      have hnot : ¬ (foldMant (st.mant * 10 + digitVal c) cs ≤ i128Max) := by omega
      simp [hov, acc, hnot]
    · simp only [hov, if_false, acc_ok]
      have hfmt : (if st.scale.isNone = true ∧ st.fmt.isNone = true ∧ i ≥ 3 + st.prefixLen then some Fmt.plain else st.fmt)
          = (if k + 1 ≥ 4 then some Fmt.plain else none) := by
        rw [hs, hf]
        by_cases h4 : k ≥ 4
        · have : k + 1 ≥ 4 := by omega
          simp [h4, this]
        · by_cases h3 : k = 3
          · subst h3; simp [hi]; omega
          · have h5 : ¬ (k + 1 ≥ 4) := by omega
            have h6 : ¬ (i ≥ 3 + st.prefixLen) := by omega
            simp [h4, h5, h6]
      rw [hfmt]
      rw [ih _ (i + 1) (k + 1) r hall' (by simp [hc]) (by simp [hs]) (by simp; omega) (by simp; omega) (by simp)]
      simp only [List.length_cons, List.isEmpty_cons, Bool.not_false, Bool.or_true, Bool.true_or]
      rw [show k + 1 + cs.length = k + (cs.length + 1) by omega, show i + 1 + cs.length = i + (cs.length + 1) by omega]
      simp only [hs, Option.map_none]

/-- the first comma, before which 1–3 digits must have been read -/
theorem run_first_comma (st : St) (i : Nat) (cs : List Char) (hi : i ≠ 0) (hcp : st.commaPos = none) (hs : st.scale = none)
    (hal : alignedComma st.prefixLen none i = true) (hm : st.mant ≤ i128Max) :
    acc (run st i (',' :: cs)) =
      if tailSpec (',' :: cs) = true ∧ foldMant st.mant (cs.filter Char.isDigit) ≤ i128Max then
        acc (finish { st with commaPos := if cs.contains '.' then none else some (i + (cs.length + 1)),
                              mant := foldMant st.mant (cs.filter Char.isDigit),
                              scale := tailScale (',' :: cs), fmt := some .comma3dot, hasDigit := true }
                    (i + (cs.length + 1)))
      else none := by
  rw [run_comma st i cs hi hs (by rw [hcp]; exact hal)]
  match cs with
  | [] => simp [tailSpec]
  | [a] => simp [tailSpec]
  | [a, b] => simp [tailSpec]
  | a :: b :: c :: tl =>
    dsimp only
    by_cases hd : a.isDigit = true ∧ b.isDigit = true ∧ c.isDigit = true
    · obtain ⟨ha, hb, hc⟩ := hd
      have hfil : (a :: b :: c :: tl).filter Char.isDigit = a :: b :: c :: tl.filter Char.isDigit := by
        simp [List.filter_cons, ha, hb, hc]
      have hcont : (a :: b :: c :: tl).contains '.' = tl.contains '.' := by
        rw [contains_dot_cons _ _ (digit_ne ha).2.2,
          contains_dot_cons _ _ (digit_ne hb).2.2, contains_dot_cons _ _ (digit_ne hc).2.2]
      have hlen' : (a :: b :: c :: tl).length + 1 = tl.length + 4 := by simp
      rw [hfil, hcont, hlen']
      have e1 : foldMant st.mant (a :: b :: c :: tl.filter Char.isDigit)
          = foldMant (foldMant st.mant [a, b, c]) (tl.filter Char.isDigit) := by
        simp only [foldMant_cons, foldMant_nil]
      by_cases hov : foldMant st.mant [a, b, c] ≤ i128Max
      · simp only [ha, hb, hc, hov, and_self, if_true]
        rw [run_tail tl.length tl (Nat.le_refl _) _ (i + 4) (by omega) rfl (by simp [hs]) rfl hov rfl]
        simp only [tailSpec, ha, hb, hc, Bool.true_and, tailScale]
        rw [e1, show i + 4 + tl.length = i + (tl.length + 4) by omega]
      · have := foldMant_ge (foldMant st.mant [a, b, c]) (tl.filter Char.isDigit)
        have hnot : ¬ (foldMant st.mant (a :: b :: c :: tl.filter Char.isDigit) ≤ i128Max) := by
          rw [e1]; omega
        simp [hov, hnot]
    · have h1 : ¬ (a.isDigit = true ∧ b.isDigit = true ∧ c.isDigit = true ∧ foldMant st.mant [a, b, c] ≤ i128Max) := by
        intro ⟨x, y, z, _⟩; exact hd ⟨x, y, z⟩
      have h2 : tailSpec (',' :: a :: b :: c :: tl) = false := by
        simp only [tailSpec]
        simp only [not_and, Bool.not_eq_true] at hd
        by_cases ha : a.isDigit = true
        · by_cases hb : b.isDigit = true
          · simp [ha, hb, hd ha hb]
          · simp [hb]
        · simp [ha]
      simp [h1, h2]

theorem dropWhile_head_not {p : Char → Bool} : ∀ (l : List Char) {c : Char} {cs : List Char},
    l.dropWhile p = c :: cs → p c = false := by
  intro l
  induction l with
  | nil => intro c cs h; simp at h
  | cons x xs ih =>
    intro c cs h
    rw [List.dropWhile_cons] at h
    by_cases hx : p x = true
    · simp only [hx, if_true] at h; exact ih h
    · simp only [hx] at h
      simp only [Bool.false_eq_true, if_false, List.cons.injEq] at h
      rw [← h.1]; simpa using hx

theorem all_takeWhile (p : Char → Bool) (l : List Char) : (l.takeWhile p).all p = true := by
  induction l with
  | nil => simp
  | cons x xs ih =>
    rw [List.takeWhile_cons]
    by_cases hx : p x = true
    · simp [hx, ih]
    · simp [hx]

theorem acc_step_comma_unaligned (st : St) (i : Nat) (h1 : st.scale = none) (h2 : st.commaPos = none)
    (hal : alignedComma st.prefixLen st.commaPos i = false) : acc (step st i ',') = none := by
  rw [h2] at hal
  have : step st i ',' = .err (.unexpectedChar i) := by simp [step, h1, h2, hal]
  rw [this]; rfl

/-- the scanner after the optional sign, in closed form -/
def bodySpec (n : Bool) (pl : Nat) (b : List Char) : Option PDec :=
  let g := b.takeWhile Char.isDigit
  let st1 : St := { prefixLen := pl, neg := n, mant := foldMant 0 g, hasDigit := !g.isEmpty,
                    fmt := if g.length ≥ 4 then some Fmt.plain else none }
  if foldMant 0 g ≤ i128Max then
    match b.dropWhile Char.isDigit with
    | [] => acc (finish st1 (pl + g.length))
    | '.' :: fp =>
      if fp.all Char.isDigit = true ∧ foldMant (foldMant 0 g) fp ≤ i128Max then
        acc (finish { st1 with scale := some fp.length, mant := foldMant (foldMant 0 g) fp,
                               hasDigit := !g.isEmpty || !fp.isEmpty } (pl + g.length + (fp.length + 1)))
      else none
    | ',' :: cs =>
      if 1 ≤ g.length ∧ g.length ≤ 3 ∧ tailSpec (',' :: cs) = true ∧
          foldMant (foldMant 0 g) (cs.filter Char.isDigit) ≤ i128Max then
        acc (finish { st1 with commaPos := if cs.contains '.' then none else some (pl + g.length + (cs.length + 1)),
                               mant := foldMant (foldMant 0 g) (cs.filter Char.isDigit),
                               scale := tailScale (',' :: cs), fmt := some .comma3dot, hasDigit := true }
                    (pl + g.length + (cs.length + 1)))
      else none
    | _ => none
  else none

theorem run_body (n : Bool) (pl : Nat) (b : List Char) (hhead : pl = 0 → ∀ t, b ≠ '-' :: t) :
    acc (run { prefixLen := pl, neg := n } pl b) = bodySpec n pl b := by
  have hsplit : b = b.takeWhile Char.isDigit ++ b.dropWhile Char.isDigit := (List.takeWhile_append_dropWhile).symm
  unfold bodySpec
  rw [show run ({ prefixLen := pl, neg := n } : St) pl b
      = run { prefixLen := pl, neg := n } pl (b.takeWhile Char.isDigit ++ b.dropWhile Char.isDigit) by
    rw [List.takeWhile_append_dropWhile]]
  rw [run_digits (b.takeWhile Char.isDigit) { prefixLen := pl, neg := n } pl 0 _ (all_takeWhile _ b) rfl rfl (by simp)
    (by simp [i128Max]) (by simp)]
  simp only [Nat.zero_add, Bool.false_or]
  by_cases hov : foldMant 0 (b.takeWhile Char.isDigit) ≤ i128Max
  · simp only [show foldMant ({ prefixLen := pl, neg := n } : St).mant (b.takeWhile Char.isDigit)
        = foldMant 0 (b.takeWhile Char.isDigit) from rfl, hov, if_true]
    cases hr : b.dropWhile Char.isDigit with
    | nil => simp only [run_nil]
    | cons c cs =>
      have hnd : c.isDigit = false := dropWhile_head_not b hr
      by_cases hdot : c = '.'
      · subst hdot
        rw [acc_run_cons]
        have hstep : ∀ (st : St), st.scale = none → st.commaPos = none →
            step st (pl + (b.takeWhile Char.isDigit).length) '.' = .ok { st with scale := some 0, commaPos := none } := by
          intro st h1 h2; simp [step, h1, h2]
        rw [hstep _ rfl rfl, acc_ok]
        dsimp only
        rw [run_frac cs _ _ 0 (by omega) rfl rfl hov]
        simp only [Nat.zero_add]
        rw [show pl + (b.takeWhile Char.isDigit).length + 1 + cs.length
            = pl + (b.takeWhile Char.isDigit).length + (cs.length + 1) by omega]
      · by_cases hcomma : c = ','
        · subst hcomma
          by_cases hal : 1 ≤ (b.takeWhile Char.isDigit).length ∧ (b.takeWhile Char.isDigit).length ≤ 3
          · rw [run_first_comma _ _ cs (by omega) rfl rfl (by simp [alignedComma]; omega) hov]
            simp only [hal, true_and, and_self]
          · rw [acc_run_cons, acc_step_comma_unaligned _ _ rfl rfl (by
              simp only [alignedComma]
              simp only [not_and, Nat.not_le] at hal
              by_cases h0 : 1 ≤ (b.takeWhile Char.isDigit).length
              · have := hal h0; simp; omega
              · simp; omega)]
            have : ¬ (1 ≤ (b.takeWhile Char.isDigit).length ∧ (b.takeWhile Char.isDigit).length ≤ 3 ∧
                tailSpec (',' :: cs) = true ∧
                foldMant (foldMant 0 (b.takeWhile Char.isDigit)) (cs.filter Char.isDigit) ≤ i128Max) := by
              intro ⟨h1, h2, _⟩; exact hal ⟨h1, h2⟩
            simp [this]
        · have hne : ¬ (pl + (b.takeWhile Char.isDigit).length = 0 ∧ c = '-') := by
            intro ⟨h0, hc⟩
            have hp : pl = 0 := by omega
            have hg : (b.takeWhile Char.isDigit) = [] := by
              apply List.eq_nil_of_length_eq_zero; omega
            have : b = c :: cs := by rw [hsplit, hg, hr]; rfl
            exact hhead hp cs (by rw [this, hc])
          obtain ⟨e, he⟩ := step_other _ _ c hnd hcomma hdot hne
          rw [acc_run_cons, he]
          simp only [acc]
          split
          all_goals first
            | rfl
            | (rename_i h; exact absurd h (List.cons_ne_nil _ _))
            | (rename_i h; injection h with h1 h2; first | exact absurd h1 hdot | exact absurd h1 hcomma)
  · simp [show foldMant ({ prefixLen := pl, neg := n } : St).mant (b.takeWhile Char.isDigit)
        = foldMant 0 (b.takeWhile Char.isDigit) from rfl, hov]

end Okane.C07
