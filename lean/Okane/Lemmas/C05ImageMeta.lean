import Okane.Lemmas.C05ImageBase
/-!
# Image lemmas for C05, part 4: metadata

* `tagKey_image`, `metadataValue_image`: tags and metadata values;
* `lineMetadata_image`: a metadata line — tag words, key / value, or a comment; the comment case needs that the line was
  not parseable as tag words or as key / value, which holds because those alternatives are tried first
  (`metadataTags_line`, `metadataKv_of_kvLike` run them forward on such a line).  The tag-word case is where the
  hypothesis `asciiSpaceOnly` is used: `:a:b:` followed by white space that `space0` does not skip is read as a comment
  whose `trim_end` is exactly tag words (known finding F27).
* `blockMetadata_image`: a block of metadata lines.
-/
set_option linter.unusedSimpArgs false
set_option linter.unusedVariables false
namespace Okane.C05Image
open Okane Okane.Comb Okane.Parse Okane.Unparse

/-! ## tags and values -/

theorem tagKey_image {i k r : List Char} (h : tagKey i = .ok k r) : wfTag k = true ∧ i = k ++ r := by
  obtain ⟨h1, h0, h2, _⟩ := takeTill1_ok h
  refine ⟨?_, h1⟩
  simp only [wfTag, Bool.and_eq_true, List.all_eq_true, isTagChar]
  refine ⟨?_, fun c hc => by simp [h2 c hc]⟩
  cases k with
  | nil => exact absurd rfl h0
  | cons c t => rfl

theorem metadataValue_image {i r : List Char} {v : MetaValue} (h : metadataValue i = .ok v r) : wfMetaValue v = true := by
  unfold metadataValue at h
  rcases alt2_ok_iff.1 h with h1 | ⟨_, h1⟩
  · obtain ⟨x, hx, rfl⟩ := map_ok_iff.1 h1
    obtain ⟨_, r1, _, hl⟩ := preceded_ok_iff.1 hx
    simp only [wfMetaValue, String.toList_ofList]
    exact trim_wfMetaText (tillLineEnding_ok hl).2.1
  · obtain ⟨x, hx, rfl⟩ := map_ok_iff.1 h1
    obtain ⟨_, r1, _, hl⟩ := preceded_ok_iff.1 hx
    simp only [wfMetaValue, String.toList_ofList]
    exact trim_wfMetaText (tillLineEnding_ok hl).2.1

/-! ## a line that is exactly tag words -/

theorem isTagWordsAux_split : ∀ (s cur : List Char), (∀ c ∈ cur, isTagChar c = true) →
    isTagWordsAux s (!cur.isEmpty) = true →
    ∃ ts : List (List Char), ts ≠ [] ∧ (∀ t ∈ ts, wfTag t = true) ∧ cur ++ s = ts.flatMap (· ++ [':']) := by
  intro s
  induction s with
  | nil => intro cur _ h; simp [isTagWordsAux] at h
  | cons c r ih =>
    intro cur hcur h
    by_cases hc : c = ':'
    · subst hc
      simp only [isTagWordsAux, Bool.and_eq_true, Bool.or_eq_true, Bool.not_eq_true', List.isEmpty_eq_false_iff] at h
      obtain ⟨hne, h2⟩ := h
      have hwf : wfTag cur = true := by
        simp only [wfTag, Bool.and_eq_true, List.all_eq_true]
        refine ⟨?_, hcur⟩
        cases cur with
        | nil => exact absurd rfl hne
        | cons _ _ => rfl
      rcases h2 with h2 | h2
      · have : r = [] := by simpa using h2
        subst this
        exact ⟨[cur], by simp, by simpa using hwf, by simp⟩
      · obtain ⟨ts, hts, hwfs, he⟩ := ih [] (by simp) (by simpa using h2)
        refine ⟨cur :: ts, by simp, ?_, ?_⟩
        · intro t ht
          rcases List.mem_cons.mp ht with rfl | ht
          · exact hwf
          · exact hwfs t ht
        · simp only [List.nil_append] at he
          simp [he]
    · have heq : isTagWordsAux (c :: r) (!cur.isEmpty) = (isTagChar c && isTagWordsAux r true) := by
        simp [isTagWordsAux, hc]
      rw [heq] at h
      simp only [Bool.and_eq_true] at h
      obtain ⟨ts, hts, hwfs, he⟩ := ih (cur ++ [c]) (by
        intro d hd
        rcases List.mem_append.mp hd with hd | hd
        · exact hcur d hd
        · simp at hd; subst hd; exact h.1) (by
          have hne : (cur ++ [c]).isEmpty = false := by simp
          rw [hne]; exact h.2)
      exact ⟨ts, hts, hwfs, by simpa using he⟩

theorem tagsLike_split {s : List Char} (h : tagsLike s = true) :
    ∃ ts : List (List Char), ts ≠ [] ∧ (∀ t ∈ ts, wfTag t = true) ∧ s = ':' :: ts.flatMap (· ++ [':']) := by
  cases s with
  | nil => simp [tagsLike] at h
  | cons c r =>
    by_cases hc : c = ':'
    · subst hc
      simp only [tagsLike] at h
      obtain ⟨ts, h1, h2, h3⟩ := isTagWordsAux_split r [] (by simp) (by simpa using h)
      exact ⟨ts, h1, h2, by simpa using h3⟩
    · simp [tagsLike, hc] at h

theorem tagItem_stop {X : List Char} (h : ∀ c r, X = c :: r → (isAsciiWhitespace c || c == ':') = true) :
    tagItem X = .bt X := by
  have : tagKey X = .bt X := takeTill1_stop h
  simp [tagItem, this]

theorem lineEnd_stop_space {r : List Char} (h : LineEnd r) : Stop isSpace r := by
  rcases h with rfl | ⟨t, rfl⟩ | ⟨t, rfl⟩ <;> simp [isSpace]

/-- `metadata_tags` followed by the end of the line succeeds on a line that is tag words followed by blanks -/
theorem metadataTags_line (ts : List (List Char)) (hne : ts ≠ []) (hts : ∀ t ∈ ts, wfTag t = true) (ws r2 : List Char)
    (hws : ∀ c ∈ ws, isSpace c = true) (hr2 : LineEnd r2) :
    ∃ m, terminated metadataTags (peek lineEndingOrEof) (':' :: (ts.flatMap (· ++ [':']) ++ (ws ++ r2))) = .ok m r2 := by
  cases ts with
  | nil => exact absurd rfl hne
  | cons t0 ts' =>
    let pr : List Char → List Char := fun t => t ++ [':']
    have hstop : ∀ c r, ws ++ r2 = c :: r → (isAsciiWhitespace c || c == ':') = true := by
      intro c r e
      cases ws with
      | nil =>
        simp only [List.nil_append] at e
        rcases hr2 with rfl | ⟨t, rfl⟩ | ⟨t, rfl⟩
        · cases e
        · cases e; simp [isAsciiWhitespace]
        · cases e; simp [isAsciiWhitespace]
      | cons d t =>
        simp only [List.cons_append, List.cons.injEq] at e
        have := hws d (by simp)
        rw [e.1] at this
        simp only [isSpace, Bool.or_eq_true, beq_iff_eq] at this
        rcases this with rfl | rfl <;> simp [isAsciiWhitespace]
    have hloop := repeat0Loop_list (p := tagItem) (pr := pr) (fun _ => True) (ws ++ r2) (ws ++ r2)
      (tagItem_stop hstop) trivial ts'
      (by
        intro x hx X _
        simpa [pr, List.append_assoc] using tagItem_rt (X := X) (hts x (by simp [hx])))
      (by intro x _; simp [pr]) (fun _ _ _ => trivial)
      ((ts'.flatMap pr ++ (ws ++ r2)).length + 1) [t0] (by
        have := length_le_flatMap pr ts' (fun y _ => by simp [pr])
        rw [List.length_append]; omega)
    have h0 := tagItem_rt (t := t0) (X := ts'.flatMap pr ++ (ws ++ r2)) (hts t0 (by simp))
    have hpm : ':' :: ((t0 :: ts').flatMap (· ++ [':']) ++ (ws ++ r2))
        = ':' :: (t0 ++ ([':'] ++ (ts'.flatMap pr ++ (ws ++ r2)))) := by
      simp [pr, List.append_assoc]
    rw [hpm]
    have hsp : space0 (ws ++ r2) = .ok ws r2 := space0_append hws (lineEnd_stop_space hr2)
    obtain ⟨r', hle⟩ := lineEndingOrEof_of_lineEnd hr2
    have hpk : peek lineEndingOrEof r2 = .ok () r2 := peek_ok hle
    have hmt : metadataTags = map (fun ts => Metadata.wordTags (ts.map String.ofList))
        (delimited (char ':') (repeat1 tagItem) space0) := rfl
    refine ⟨.wordTags ((t0 :: ts').map String.ofList), ?_⟩
    rw [hmt]
    simp only [terminated_apply, map_apply, delimited_apply, char_cons_self, Res.andThen_ok, repeat1, h0]
    simp only [hloop, Res.andThen_ok, hsp, Res.map_ok, hpk]
    simp

/-! ## a line that looks like `key: value` -/

theorem metadataValue_colon (z r2 : List Char) (hz : ∀ c ∈ z, isEol c = false) (hr2 : LineEnd r2) :
    ∃ v r', metadataValue (':' :: (z ++ r2)) = .ok v r' := by
  by_cases hh : ∃ z', z = ':' :: z'
  · obtain ⟨z', rfl⟩ := hh
    have hl := tillLineEnding_line (a := z') (r := r2) (fun c hc => hz c (by simp [hc])) hr2
    have hlit : literal [':', ':'] (':' :: (':' :: z' ++ r2)) = .ok [':', ':'] (z' ++ r2) := by
      simpa using literal_append [':', ':'] (z' ++ r2)
    refine ⟨.expr (String.ofList (trim z')), r2, ?_⟩
    unfold metadataValue
    apply alt2_ok
    simp only [map_apply, preceded_apply, hlit, Res.andThen_ok, hl, Res.map_ok]
  · have hl := tillLineEnding_line (a := z) (r := r2) hz hr2
    have hlit : ∃ q, literal [':', ':'] (':' :: (z ++ r2)) = .bt q := by
      refine ⟨':' :: (z ++ r2), ?_⟩
      simp only [literal]
      rw [if_neg]
      intro hp
      have hp' := List.isPrefixOf_iff_prefix.1 hp
      obtain ⟨t, ht⟩ := hp'
      simp only [List.cons_append, List.nil_append, List.cons.injEq, true_and] at ht
      cases z with
      | nil =>
        simp only [List.nil_append] at ht
        rcases hr2 with rfl | ⟨t', rfl⟩ | ⟨t', rfl⟩ <;> simp at ht
      | cons c z' =>
        simp only [List.cons_append, List.cons.injEq] at ht
        exact hh ⟨z', by rw [ht.1]⟩
    obtain ⟨q, hq⟩ := hlit
    refine ⟨.text (String.ofList (trim z)), r2, ?_⟩
    unfold metadataValue
    rw [alt2_bt (z := q) (by simp only [map_apply, preceded_apply, hq, Res.andThen_bt, Res.map_bt])]
    simp only [map_apply, preceded_apply, char_cons_self, Res.andThen_ok, hl, Res.map_ok]

/-- `metadata_kv` succeeds on a line whose `trim_end` looks like `key:` -/
theorem metadataKv_of_kvLike (s ws r2 : List Char) (hk : kvLike s = true) (hl : ∀ c ∈ s ++ ws, isEol c = false)
    (hr2 : LineEnd r2) : ∃ m r', metadataKv (s ++ (ws ++ r2)) = .ok m r' := by
  simp only [kvLike, Bool.and_eq_true, Bool.not_eq_true', List.isEmpty_eq_false_iff, beq_iff_eq] at hk
  obtain ⟨hkne, hhead⟩ := hk
  have hs : s = s.takeWhile isTagChar ++ s.dropWhile isTagChar := (List.takeWhile_append_dropWhile).symm
  generalize hkd : s.takeWhile isTagChar = k at hs hkne
  have hkall : ∀ c ∈ k, isTagChar c = true := by
    intro c hc; rw [← hkd] at hc; exact mem_takeWhile hc
  have hst := dropWhile_Stop isTagChar s
  generalize s.dropWhile isTagChar = s' at hs hhead hst
  have hs' : s' = s'.takeWhile isSpace ++ s'.dropWhile isSpace := (List.takeWhile_append_dropWhile).symm
  have hspall : ∀ c ∈ s'.takeWhile isSpace, isSpace c = true := fun c hc => mem_takeWhile hc
  generalize s'.takeWhile isSpace = sp at hs' hspall
  cases hd : s'.dropWhile isSpace with
  | nil => rw [hd] at hhead; simp at hhead
  | cons d y =>
    rw [hd] at hhead hs'
    simp only [List.head?_cons, Option.some.injEq] at hhead
    subst hhead
    have hs'ne : ∀ c r, s' ++ (ws ++ r2) = c :: r → (isAsciiWhitespace c || c == ':') = true := by
      intro c r e
      cases s' with
      | nil => cases sp <;> simp at hs'
      | cons c' t =>
        simp only [List.cons_append, List.cons.injEq] at e
        have := hst c' t rfl
        rw [e.1] at this
        simpa only [isTagChar, Bool.not_eq_false'] using this
    have htk : tagKey (s ++ (ws ++ r2)) = .ok k (s' ++ (ws ++ r2)) := by
      rw [hs, List.append_assoc]
      exact takeTill1_append hkne (fun c hc => by simpa [isTagChar] using hkall c hc) hs'ne
    have hsp0 : space0 (s' ++ (ws ++ r2)) = .ok sp (':' :: (y ++ (ws ++ r2))) := by
      rw [hs']
      simpa [List.append_assoc] using
        space0_append (a := sp) (rest := ':' :: (y ++ (ws ++ r2))) hspall (by simp [isSpace])
    have hyall : ∀ c ∈ y ++ ws, isEol c = false := by
      intro c hc
      apply hl
      rw [hs, hs']
      rcases List.mem_append.mp hc with hc | hc
      · simp [hc]
      · simp [hc]
    obtain ⟨v, r', hv⟩ := metadataValue_colon (y ++ ws) r2 hyall hr2
    rw [List.append_assoc] at hv
    refine ⟨.keyValue (String.ofList k) v, r', ?_⟩
    simp only [metadataKv, bind_apply, terminated_apply, htk, Res.andThen_ok, hsp0, Res.map_ok, hv, pure_apply]

/-! ## a metadata line -/

/-- **image of `line_metadata`** (input without exotic white space) -/
theorem lineMetadata_image {i r : List Char} {m : Metadata} (hi : TextOK i) (h : lineMetadata i = .ok m r) :
    wfMetadata m = true := by
  unfold lineMetadata at h
  obtain ⟨a, r1, r2, c, hpre, halt, hle⟩ := delimited_ok_iff.1 h
  obtain ⟨r0, hsemi, hsp⟩ := pair_ok_iff.1 hpre
  obtain ⟨_, hi0⟩ := char_ok_iff.1 hsemi
  obtain ⟨hr0, _, hstop⟩ := space0_ok hsp
  have hok1 : TextOK r1 := hi.suffix (by rw [hi0, hr0]; exact (List.suffix_append _ _).trans (List.suffix_cons _ _))
  rcases alt2_ok_iff.1 halt with hA | ⟨hAbt, hBC⟩
  · -- tag words
    obtain ⟨r', _, hmt, _⟩ := terminated_ok_iff.1 hA
    have hmt' : map (fun ts => Metadata.wordTags (ts.map String.ofList))
        (delimited (char ':') (repeat1 tagItem) space0) r1 = .ok m r' := hmt
    obtain ⟨ts, hd, rfl⟩ := map_ok_iff.1 hmt'
    obtain ⟨_, j1, j2, _, _, hrep, _⟩ := delimited_ok_iff.1 hd
    obtain ⟨hne, hsteps, _⟩ := repeat1_ok hrep
    have hall := (Steps.forall (Q := fun t => wfTag t = true) (S := fun _ => True)
      (fun j t r _ ht => ⟨(tagKey_image (terminated_ok_iff.1 ht).choose_spec.choose_spec.1).1, trivial⟩)
      hsteps trivial).1
    simp only [wfMetadata, Bool.and_eq_true, Bool.not_eq_true', List.all_eq_true]
    refine ⟨by cases ts <;> simp_all, ?_⟩
    intro t ht
    obtain ⟨t', ht', rfl⟩ := List.mem_map.mp ht
    simpa using hall t' ht'
  · rcases alt2_ok_iff.1 hBC with hB | ⟨hBbt, hC⟩
    · -- key / value
      simp only [metadataKv, bind_ok_iff, pure_ok_iff] at hB
      obtain ⟨k, j1, hk, v, j2, hv, rfl, _⟩ := hB
      obtain ⟨j0, _, hk', _⟩ := terminated_ok_iff.1 hk
      simp only [wfMetadata, Bool.and_eq_true, String.toList_ofList]
      exact ⟨(tagKey_image hk').1, metadataValue_image hv⟩
    · -- comment
      obtain ⟨l, hl, rfl⟩ := map_ok_iff.1 hC
      obtain ⟨hr1, hnoeol, hle2⟩ := tillLineEnding_ok hl
      have hstopl : Stop isSpace l := by
        intro c t e
        exact hstop c (t ++ r2) (by rw [hr1, e]; rfl)
      have hokl : ∀ c ∈ l, okWs c = true := fun c hc => hok1.mem (by rw [hr1]; exact List.mem_append_left _ hc)
      obtain ⟨ws, hsplit, hws⟩ := trimEnd_split_space hokl hnoeol
      have hr1' : r1 = trimEnd l ++ (ws ++ r2) := by rw [hr1]; conv => lhs; rw [hsplit]; simp
      simp only [wfMetadata, Bool.and_eq_true, Bool.not_eq_true', String.toList_ofList]
      refine ⟨⟨⟨⟨noEol_of_forall (fun c hc => hnoeol c (mem_trimEnd hc)), trimEnd_notBlankStart hstopl⟩,
        trimEnd_endTrimmed l⟩, ?_⟩, ?_⟩
      · -- not key / value: `metadata_kv` was tried and failed
        cases hkv : kvLike (trimEnd l) with
        | false => rfl
        | true =>
          exfalso
          obtain ⟨m', r', hm'⟩ := metadataKv_of_kvLike (trimEnd l) ws r2 hkv (by rw [← hsplit]; exact hnoeol) hle2
          rw [← hr1'] at hm'
          obtain ⟨z, hz⟩ := hBbt
          rw [hz] at hm'
          cases hm'
      · -- not tag words: `metadata_tags` was tried and failed
        cases htl : tagsLike (trimEnd l) with
        | false => rfl
        | true =>
          exfalso
          obtain ⟨ts, hne, hts, hs⟩ := tagsLike_split htl
          obtain ⟨m', hm'⟩ := metadataTags_line ts hne hts ws r2 hws hle2
          rw [← List.cons_append, ← hs, ← hr1'] at hm'
          obtain ⟨z, hz⟩ := hAbt
          rw [hz] at hm'
          cases hm'

/-! ## metadata blocks -/

theorem lineMetadata_step {j r : List Char} {m : Metadata} (hj : TextOK j) (h : lineMetadata j = .ok m r) :
    wfMetadata m = true ∧ TextOK r :=
  ⟨lineMetadata_image hj h, hj.suffix (safe_lineMetadata.suffix h)⟩

theorem blockMetadata_cons (c : Char) (t : List Char) : blockMetadata (c :: t) =
    if c = ';' then separated1 lineMetadata space1 (c :: t)
    else preceded lineEnding (repeat0 (preceded space1 lineMetadata)) (c :: t) := by
  by_cases hc : c = ';'
  · subst hc; rfl
  · rw [if_neg hc]
    unfold blockMetadata dispatchOpt
    simp only
    refine congrFun ?_ (c :: t)
    split
    · rename_i heq; simp at heq; exact absurd heq hc
    · rename_i heq; simp at heq
    · rfl

/-- **image of `block_metadata`** -/
theorem blockMetadata_image {i r : List Char} {ms : List Metadata} (hi : TextOK i) (h : blockMetadata i = .ok ms r) :
    ∀ m ∈ ms, wfMetadata m = true := by
  cases i with
  | nil =>
    simp only [blockMetadata, dispatchOpt, pure_ok_iff] at h
    rw [h.1]; simp
  | cons c t =>
    rw [blockMetadata_cons] at h
    by_cases hc : c = ';'
    · rw [if_pos hc] at h
      exact (separated1_forall (Q := fun m => wfMetadata m = true) (S := TextOK)
        (fun j a r hj hp => lineMetadata_step hj hp)
        (fun j b r hj hs => hj.suffix (safe_space1 (Nat.le_refl 1) |>.suffix hs)) hi h).1
    · rw [if_neg hc] at h
      obtain ⟨_, r1, hle, hrep⟩ := preceded_ok_iff.1 h
      have hr1 : TextOK r1 := hi.suffix (safe_lineEnding (Nat.le_refl 1) |>.suffix hle)
      obtain ⟨hsteps, _⟩ := repeat0_ok hrep
      exact (Steps.forall (Q := fun m => wfMetadata m = true) (S := TextOK)
        (fun j a r hj hp => by
          obtain ⟨_, j1, hs, hm⟩ := preceded_ok_iff.1 hp
          exact lineMetadata_step (hj.suffix (safe_space1 (Nat.le_refl 1) |>.suffix hs)) hm)
        hsteps hr1).1

example : lineMetadata "; :a:b: \n".toList = .ok (.wordTags ["a", "b"]) [] := by decide +kernel
example : lineMetadata ";  k :: 1 + 2 \n".toList = .ok (.keyValue "k" (.expr "1 + 2")) [] := by decide +kernel
example : lineMetadata "; free text: here \n".toList = .ok (.comment "free text: here") [] := by decide +kernel

end Okane.C05Image
