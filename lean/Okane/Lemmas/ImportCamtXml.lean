import Okane.Lemmas.ImportCamtXmlEscape
import Okane.Lemmas.ImportCamtXmlWalk
import Okane.Lemmas.ImportCamtXmlFields
/-!
# `camtImportXml`: totality, and how it factors through the decoded statement

The reader (`Xml.tokenize`, `Xml.buildStep` folded over the characters / tokens), the attribute scanner, `unescape` and the
decoder (`walk`, structural over the children of an element; the schema has bounded depth, so the decoders are not even
recursive over the tree) are structurally recursive: there is no fuel that could run out and no partiality.  What is stated
here is the outcome *classification*: a text either decodes to statements, or is a decode error (`ImportError::XML`), or
is declined by the model — and the importer's answer is `camtImport` of the decoded statements.
-/
namespace Okane.Import.CamtXml
open Okane Okane.Xml Okane.Import

/-- **Totality of reader and decoder**: every text falls in exactly one of three classes. -/
theorem decodeCamt_total (text : String) :
    (∃ stmts, decodeCamt text = .ok stmts) ∨ decodeCamt text = .error .xml ∨ ∃ why, decodeCamt text = .error (.unsupported why) := by
  cases h : decodeCamt text with
  | ok s => exact Or.inl ⟨s, rfl⟩
  | error e =>
    cases e with
    | xml => exact Or.inr (Or.inl rfl)
    | unsupported w => exact Or.inr (Or.inr ⟨w, rfl⟩)

/-- the importer on a text **is** the importer-after-decoding on what the text decodes to -/
theorem camtImportXml_of_decode (cap : Captures) (cfg : CamtCfg) (text : String) (stmts : List Statement)
    (h : decodeCamt text = .ok stmts) : camtImportXml cap cfg text = camtImport cap cfg [] stmts := by
  simp [camtImportXml, h]

/-- a text that does not decode is answered `XML` (or declined), whatever the configuration: no transaction is produced -/
theorem camtImportXml_decode_error (cap : Captures) (cfg : CamtCfg) (text : String) (e : XmlErr)
    (h : decodeCamt text = .error e) : camtImportXml cap cfg text = .err (toImportErr e) := by
  simp [camtImportXml, h]

/-- a successful import decoded the text -/
theorem camtImportXml_ok (cap : Captures) (cfg : CamtCfg) (text : String) (txns : List Txn)
    (h : camtImportXml cap cfg text = .ok txns) :
    ∃ stmts, decodeCamt text = .ok stmts ∧ camtImport cap cfg [] stmts = .ok txns := by
  unfold camtImportXml at h
  cases hd : decodeCamt text with
  | ok s => rw [hd] at h; exact ⟨s, rfl, h⟩
  | error e => rw [hd] at h; simp at h

/-- the decoder never makes the importer panic or run out of fuel: those outcomes can only come from `camtImport` -/
theorem camtImportXml_crash (cap : Captures) (cfg : CamtCfg) (text : String)
    (h : (camtImportXml cap cfg text).crashes = true) :
    ∃ stmts, decodeCamt text = .ok stmts ∧ (camtImport cap cfg [] stmts).crashes = true := by
  unfold camtImportXml at h
  cases hd : decodeCamt text with
  | ok s => rw [hd] at h; exact ⟨s, rfl, h⟩
  | error e => rw [hd] at h; simp [Outcome.crashes] at h

/-- a document with one `<Stmt>`: the importer is `camtStatement` of it -/
theorem camtImportXml_single (cap : Captures) (cfg : CamtCfg) (text : String) (st : Statement)
    (h : decodeCamt text = .ok [st]) : camtImportXml cap cfg text = camtStatement cap cfg st := by
  rw [camtImportXml_of_decode cap cfg text [st] h]
  unfold camtStatement
  simp only [camtImport]
  cases camtStatementOnto cap cfg [] st <;> rfl

end Okane.Import.CamtXml
