import Okane.Spec.Print
/-!
# Helper lemmas for the C19 theorems (layout arithmetic of the printer model)
-/
set_option linter.unusedSimpArgs false

namespace Okane.Print
open Okane

/-! ## widths of texts -/

theorem strWidth_append (w : Char → Nat) (a b : List Char) :
    strWidth w (a ++ b) = strWidth w a + strWidth w b := by
  induction a with
  | nil => simp [strWidth]
  | cons c cs ih => simp [strWidth, ih, Nat.add_assoc]

theorem strWidth_replicate (w : Char → Nat) (c : Char) (n : Nat) :
    strWidth w (List.replicate n c) = n * w c := by
  induction n with
  | zero => simp [strWidth]
  | succ n ih => simp [List.replicate_succ, strWidth, ih, Nat.succ_mul, Nat.add_comm]

theorem strWidth_spaces (w : Char → Nat) (h : w ' ' = 1) (n : Nat) : strWidth w (spaces n) = n := by
  simp [spaces, strWidth_replicate, h]

theorem byteLen_append (a b : List Char) : byteLen (a ++ b) = byteLen a + byteLen b := by
  induction a with
  | nil => simp [byteLen]
  | cons c cs ih => simp [byteLen, ih, Nat.add_assoc]

theorem AsciiW.nil (w : Char → Nat) : AsciiW w [] := by
  intro c hc; cases hc

theorem AsciiW.append {w : Char → Nat} {a b : List Char} (ha : AsciiW w a) (hb : AsciiW w b) :
    AsciiW w (a ++ b) := by
  intro c hc
  rcases List.mem_append.mp hc with h | h
  · exact ha c h
  · exact hb c h

theorem AsciiW.cons {w : Char → Nat} {c : Char} {s : List Char} (hc : Narrow w c) (hs : AsciiW w s) :
    AsciiW w (c :: s) := by
  intro d hd
  rcases List.mem_cons.mp hd with h | h
  · exact h ▸ hc
  · exact hs d h

theorem AsciiW.byteLen {w : Char → Nat} {s : List Char} (h : AsciiW w s) : byteLen s = s.length := by
  induction s with
  | nil => rfl
  | cons c cs ih =>
    have hc := h c (List.mem_cons_self)
    have := ih (fun d hd => h d (List.mem_cons_of_mem _ hd))
    simp [Print.byteLen, hc.1, this, Nat.add_comm]

theorem AsciiW.strWidth {w : Char → Nat} {s : List Char} (h : AsciiW w s) : strWidth w s = s.length := by
  induction s with
  | nil => rfl
  | cons c cs ih =>
    have hc := h c (List.mem_cons_self)
    have := ih (fun d hd => h d (List.mem_cons_of_mem _ hd))
    simp [Print.strWidth, hc.2, this, Nat.add_comm]

theorem SymOK.narrow {w : Char → Nat} (h : SymOK w) {c : Char} (hc : c ∈ ['(', ')', '-', '+', '*', '/', ' ']) :
    Narrow w c := by
  refine ⟨?_, h c hc⟩
  simp only [List.mem_cons, List.not_mem_nil, or_false] at hc
  rcases hc with rfl | rfl | rfl | rfl | rfl | rfl | rfl <;> decide

theorem opChar_mem (op : BinOp) : opChar op ∈ ['(', ')', '-', '+', '*', '/', ' '] := by
  cases op <;> simp [opChar]

/-! ## `get_column` -/

theorem getColumn_ge (colsize left padding : Nat) : padding ≤ getColumn colsize left padding := by
  unfold getColumn; split <;> omega

theorem getColumn_short {colsize left padding : Nat} (h : left + padding < colsize) :
    left + getColumn colsize left padding = colsize := by
  unfold getColumn; rw [if_pos h]; omega

theorem getColumn_long {colsize left padding : Nat} (h : ¬ left + padding < colsize) :
    getColumn colsize left padding = padding := by
  unfold getColumn; rw [if_neg h]

/-! ## the expression printer: what the alignment is -/

/-- the invariant of `fmt_with_alignment`: the alignment is the length of a prefix made of one-column characters;
a `Partial` alignment covers the whole text. -/
def Split (w : Char → Nat) (r : List Char × Alignment) : Prop :=
  ∃ pre post, r.1 = pre ++ post ∧ r.2.absolute = pre.length ∧ AsciiW w pre ∧ (∀ x, r.2 = .part x → post = [])

theorem split_plus_front {w : Char → Nat} {s : List Char} {a : Alignment} (c : Char) (hc : Narrow w c)
    (h : Split w (s, a)) : Split w (c :: s, a.plus 1 0) := by
  obtain ⟨pre, post, hs, hal, hasc, hpart⟩ := h
  have hs' : s = pre ++ post := hs
  refine ⟨c :: pre, post, by simp [hs'], ?_, AsciiW.cons hc hasc, ?_⟩
  · cases a <;> simp_all [Alignment.plus, Alignment.absolute] <;> omega
  · intro x hx
    cases a with
    | part y => exact hpart y rfl
    | complete y => simp [Alignment.plus] at hx

mutual
theorem fmtExpr_split (cx : Ctx) (hnum : NumOK cx) (hsym : SymOK cx.w) :
    ∀ e : Expr, Split cx.w (fmtExpr cx e)
  | .neg e => by
    have ih := fmtExpr_split cx hnum hsym e
    rw [fmtExpr]
    exact split_plus_front '-' (hsym.narrow (by simp)) ih
  | .bin op l r => by
    have ihl := fmtExpr_split cx hnum hsym l
    have ihr := fmtExpr_split cx hnum hsym r
    rw [fmtExpr]
    obtain ⟨pre1, post1, hs1, hal1, hasc1, hpart1⟩ := ihl
    obtain ⟨pre2, post2, hs2, hal2, hasc2, hpart2⟩ := ihr
    have hop : AsciiW cx.w [' ', opChar op, ' '] :=
      AsciiW.cons (hsym.narrow (by simp)) (AsciiW.cons (hsym.narrow (opChar_mem op))
        (AsciiW.cons (hsym.narrow (by simp)) (AsciiW.nil _)))
    cases h1 : (fmtExpr cx l).2 with
    | complete x =>
      refine ⟨pre1, post1 ++ ' ' :: opChar op :: ' ' :: (fmtExpr cx r).1, by simp [hs1], ?_, hasc1, ?_⟩
      · simp [h1, Alignment.plus, Alignment.absolute] at hal1 ⊢; exact hal1
      · intro y hy; simp [h1, Alignment.plus] at hy
    | part x =>
      have hp1 : post1 = [] := hpart1 x h1
      have hx : x = pre1.length := by simpa [h1, Alignment.absolute] using hal1
      refine ⟨pre1 ++ [' ', opChar op, ' '] ++ pre2, post2, by simp [hs1, hs2, hp1], ?_,
        AsciiW.append (AsciiW.append hasc1 hop) hasc2, ?_⟩
      · cases h2 : (fmtExpr cx r).2 <;>
          simp [h1, h2, Alignment.plus, Alignment.absolute] at hal2 ⊢ <;> omega
      · intro y hy
        cases h2 : (fmtExpr cx r).2 with
        | part z => exact hpart2 z h2
        | complete z => simp [h1, h2, Alignment.plus] at hy
  | .val v => by
    rw [fmtExpr]
    exact fmtVExpr_split cx hnum hsym v
theorem fmtVExpr_split (cx : Ctx) (hnum : NumOK cx) (hsym : SymOK cx.w) :
    ∀ v : VExpr, Split cx.w (fmtVExpr cx v)
  | .paren e => by
    have ih := fmtExpr_split cx hnum hsym e
    rw [fmtVExpr]
    obtain ⟨pre, post, hs, hal, hasc, hpart⟩ := ih
    cases h1 : (fmtExpr cx e).2 with
    | complete x =>
      refine ⟨'(' :: pre, post ++ [')'], by simp [hs], ?_, AsciiW.cons (hsym.narrow (by simp)) hasc, ?_⟩
      · simp [h1, Alignment.plus, Alignment.absolute] at hal ⊢; omega
      · intro y hy; simp [h1, Alignment.plus] at hy
    | part x =>
      have hp : post = [] := hpart x h1
      refine ⟨'(' :: pre ++ [')'], [], by simp [hs, hp], ?_,
        AsciiW.append (AsciiW.cons (hsym.narrow (by simp)) hasc)
          (AsciiW.cons (hsym.narrow (by simp)) (AsciiW.nil _)), fun _ _ => rfl⟩
      simp [h1, Alignment.plus, Alignment.absolute] at hal ⊢; omega
  | .amt v c => by
    rw [fmtVExpr]
    have hn := hnum v c
    split
    · exact ⟨cx.num v c, [], by simp, by simp [Alignment.absolute, hn.byteLen], hn, fun _ _ => rfl⟩
    · refine ⟨cx.num v c, ' ' :: c.toList, rfl, by simp [Alignment.absolute, hn.byteLen], hn, ?_⟩
      intro x hx; simp at hx
end

/-- the alignment never exceeds the length of the printed expression -/
theorem alignment_le_length' (cx : Ctx) (hnum : NumOK cx) (hsym : SymOK cx.w) (v : VExpr) :
    (fmtVExpr cx v).2.absolute ≤ (fmtVExpr cx v).1.length := by
  obtain ⟨pre, post, hs, hal, _, _⟩ := fmtVExpr_split cx hnum hsym v
  rw [hs, hal]; simp

theorem numericPart_length (cx : Ctx) (hnum : NumOK cx) (hsym : SymOK cx.w) (v : VExpr) :
    (numericPart cx v).length = (fmtVExpr cx v).2.absolute := by
  simp [numericPart, List.length_take, Nat.min_eq_left (alignment_le_length' cx hnum hsym v)]

theorem numericPart_ascii (cx : Ctx) (hnum : NumOK cx) (hsym : SymOK cx.w) (v : VExpr) :
    AsciiW cx.w (numericPart cx v) := by
  obtain ⟨pre, post, hs, hal, hasc, _⟩ := fmtVExpr_split cx hnum hsym v
  have : numericPart cx v = pre := by
    simp [numericPart, hs, hal]
  rw [this]; exact hasc

theorem numeric_append_after (cx : Ctx) (v : VExpr) :
    numericPart cx v ++ afterNumeric cx v = (fmtVExpr cx v).1 := by
  simp [numericPart, afterNumeric]

/-- the display width of a printed expression is the alignment plus the width of what follows the numeric part -/
theorem strWidth_fmt (cx : Ctx) (hnum : NumOK cx) (hsym : SymOK cx.w) (v : VExpr) :
    strWidth cx.w (fmtVExpr cx v).1 = (fmtVExpr cx v).2.absolute + strWidth cx.w (afterNumeric cx v) := by
  rw [← numeric_append_after cx v, strWidth_append, (numericPart_ascii cx hnum hsym v).strWidth,
    numericPart_length cx hnum hsym v]

/-! ## lines of a text -/

theorem linesAux_line (l rest cur : List Char) (h : '\n' ∉ l) :
    linesAux (l ++ '\n' :: rest) cur = (cur.reverse ++ l) :: linesAux rest [] := by
  induction l generalizing cur with
  | nil => simp [linesAux]
  | cons c cs ih =>
    have hc : c ≠ '\n' := fun e => h (e ▸ List.mem_cons_self)
    have hcs : '\n' ∉ cs := fun e => h (List.mem_cons_of_mem _ e)
    simp [linesAux, hc, ih (c :: cur) hcs]

theorem linesOf_unlines_append (ls : List (List Char)) (rest : List Char) (h : ∀ l ∈ ls, '\n' ∉ l) :
    linesOf (unlines ls ++ rest) = ls ++ linesOf rest := by
  induction ls with
  | nil => simp [unlines]
  | cons l ls ih =>
    have hl := h l List.mem_cons_self
    have := ih (fun x hx => h x (List.mem_cons_of_mem _ hx))
    have e : unlines (l :: ls) ++ rest = l ++ '\n' :: (unlines ls ++ rest) := by simp [unlines]
    rw [linesOf, e, linesAux_line l _ [] hl]
    simp only [linesOf] at this
    simp [this, linesOf]

theorem linesOf_unlines (ls : List (List Char)) (h : ∀ l ∈ ls, '\n' ∉ l) : linesOf (unlines ls) = ls := by
  have := linesOf_unlines_append ls [] h
  simpa [linesOf, linesAux] using this

end Okane.Print

namespace Okane.Print
open Okane Okane.Literal

/-! ## the real number printer emits one-byte, one-column characters only -/

/-- the characters `impl Display for PrettyDecimal` can emit -/
def NumChar (c : Char) : Prop := (∃ k, k < 10 ∧ c = digitChar k) ∨ c = '-' ∨ c = '.' ∨ c = ','

theorem digitChar_narrow : ∀ k, k < 10 → Narrow widthCjk (digitChar k) := by
  decide +kernel

theorem NumChar.narrow {c : Char} (h : NumChar c) : Narrow widthCjk c := by
  rcases h with ⟨k, hk, rfl⟩ | rfl | rfl | rfl
  · exact digitChar_narrow k hk
  · decide
  · decide
  · decide

theorem numChar_zero : NumChar '0' := Or.inl ⟨0, by decide, by decide⟩

theorem mem_digits (n : Nat) : ∀ c ∈ digits n, NumChar c := by
  induction n using Nat.strongRecOn with
  | _ n ih =>
    intro c hc
    rw [digits] at hc
    split at hc
    · simp only [List.mem_singleton] at hc
      exact Or.inl ⟨n, by assumption, hc⟩
    · rcases List.mem_append.mp hc with h | h
      · exact ih (n / 10) (by omega) c h
      · simp only [List.mem_singleton] at h
        exact Or.inl ⟨n % 10, by omega, h⟩

theorem mem_digits0 (n : Nat) : ∀ c ∈ digits0 n, NumChar c := by
  intro c hc
  unfold digits0 at hc
  split at hc
  · cases hc
  · exact mem_digits n c hc

theorem mem_padZeros (w : Nat) (ds : List Char) (h : ∀ c ∈ ds, NumChar c) : ∀ c ∈ padZeros w ds, NumChar c := by
  intro c hc
  rcases List.mem_append.mp hc with h1 | h1
  · rw [(List.mem_replicate.mp h1).2]; exact numChar_zero
  · exact h c h1

theorem mem_printPlain (d : PDec) : ∀ c ∈ printPlain d, NumChar c := by
  intro c hc
  have hch := mem_padZeros d.scale _ (mem_digits0 d.mant)
  simp only [printPlain, List.mem_append] at hc
  rcases hc with (h | h) | h
  · split at h
    · simp only [List.mem_singleton] at h; exact Or.inr (Or.inl h)
    · cases h
  · split at h
    · simp only [List.mem_singleton] at h; rw [h]; exact numChar_zero
    · exact hch c (List.mem_of_mem_take h)
  · split at h
    · cases h
    · rcases List.mem_cons.mp h with h | h
      · exact Or.inr (Or.inr (Or.inl h))
      · exact hch c (List.mem_of_mem_drop h)

theorem mem_groupLoop (fuel : Nat) : ∀ (rem : List Char) (scale cp : Nat) (ini : Bool),
    (∀ c ∈ (groupLoop fuel rem scale cp ini).1, c = ',' ∨ c ∈ rem) ∧
    (∀ c ∈ (groupLoop fuel rem scale cp ini).2.1, c ∈ rem) := by
  induction fuel with
  | zero => intro rem scale cp ini; simp [groupLoop]
  | succ fuel ih =>
    intro rem scale cp ini
    rw [groupLoop]
    split
    · have ih' := ih (rem.drop cp) scale 3 false
      constructor
      · intro c hc
        simp only [List.mem_append] at hc
        rcases hc with (h | h) | h
        · split at h
          · cases h
          · simp only [List.mem_singleton] at h; exact Or.inl h
        · exact Or.inr (List.mem_of_mem_take h)
        · rcases ih'.1 c h with h | h
          · exact Or.inl h
          · exact Or.inr (List.mem_of_mem_drop h)
      · intro c hc
        exact List.mem_of_mem_drop (ih'.2 c hc)
    · simp

theorem mem_printComma (d : PDec) : ∀ c ∈ printComma d, NumChar c := by
  intro c hc
  have hch := mem_padZeros d.scale _ (mem_digits d.mant)
  simp only [printComma] at hc
  generalize hm : padZeros d.scale (digits d.mant) = mantissa at hc hch
  generalize hcp : (if (mantissa.length - d.scale) % 3 = 0 then 3 else (mantissa.length - d.scale) % 3) = cp at hc
  have hg := mem_groupLoop mantissa.length mantissa d.scale cp true
  generalize groupLoop mantissa.length mantissa d.scale cp true = r at hc hg
  obtain ⟨out, rem, ini⟩ := r
  simp only [List.mem_append] at hc
  rcases hc with ((h | h) | h) | h
  · split at h
    · simp only [List.mem_singleton] at h; exact Or.inr (Or.inl h)
    · cases h
  · rcases hg.1 c h with h | h
    · exact Or.inr (Or.inr (Or.inr h))
    · exact hch c h
  · split at h
    · simp only [List.mem_singleton] at h; rw [h]; exact numChar_zero
    · cases h
  · split at h
    · cases h
    · rcases List.mem_cons.mp h with h | h
      · exact Or.inr (Or.inr (Or.inl h))
      · exact hch c (hg.2 c h)

theorem mem_printPDec (d : PDec) : ∀ c ∈ printPDec d, NumChar c := by
  unfold printPDec
  split
  · exact mem_printComma d
  · exact mem_printPlain d

end Okane.Print

namespace Okane.Print
open Okane Okane.Literal

/-! ## no line feed in a printed line body -/

/-- `'\n' ∉ s` as a predicate that `simp` can push through concatenations -/
def nlf (s : List Char) : Prop := '\n' ∉ s

instance (s : List Char) : Decidable (nlf s) := inferInstanceAs (Decidable ('\n' ∉ s))

@[simp] theorem nlf_nil : nlf [] := by simp [nlf]
@[simp] theorem nlf_cons (c : Char) (s : List Char) : nlf (c :: s) ↔ c ≠ '\n' ∧ nlf s := by
  simp [nlf, eq_comm]
@[simp] theorem nlf_append (a b : List Char) : nlf (a ++ b) ↔ nlf a ∧ nlf b := by
  simp [nlf]
@[simp] theorem nlf_reverse (s : List Char) : nlf s.reverse ↔ nlf s := by
  simp [nlf]
@[simp] theorem nlf_spaces (n : Nat) : nlf (spaces n) := by
  simp [nlf, spaces, List.mem_replicate]

theorem NumChar.ne_lf {c : Char} (h : NumChar c) : c ≠ '\n' := by
  rcases h with ⟨k, hk, rfl⟩ | rfl | rfl | rfl
  · revert k; decide
  · decide
  · decide
  · decide

theorem nlf_of_numChars {s : List Char} (h : ∀ c ∈ s, NumChar c) : nlf s :=
  fun hm => (h _ hm).ne_lf rfl

theorem std_numNoLF (prec : String → Nat) : NumNoLF (Ctx.std prec) :=
  fun _ _ => nlf_of_numChars (mem_printPDec _)

theorem nlf_padNat (n w : Nat) : nlf (padNat n w) := by
  apply nlf_of_numChars
  intro c hc
  rcases List.mem_append.mp hc with h | h
  · rw [(List.mem_replicate.mp h).2]; exact numChar_zero
  · exact mem_digits n c h

theorem nlf_fmtDate (d : Date) : nlf (fmtDate d) := by
  have h4 := nlf_padNat
  unfold fmtDate fmtYear
  split
  · simp [h4]
  · split <;> simp [h4]

theorem stripCrRev_nlf (cur : List Char) (h : nlf cur) : nlf (stripCrRev cur) := by
  unfold stripCrRev
  split
  · rw [nlf_cons] at h; simp [h.2]
  · simp [h]

theorem rustLinesAux_nlf (s : List Char) : ∀ cur, nlf cur → ∀ l ∈ rustLinesAux s cur, nlf l := by
  induction s with
  | nil =>
    intro cur hcur l hl
    cases cur with
    | nil => simp [rustLinesAux] at hl
    | cons c cur =>
      simp only [rustLinesAux, List.mem_singleton] at hl
      subst hl
      rw [nlf_reverse]; exact hcur
  | cons c cs ih =>
    intro cur hcur l hl
    rw [rustLinesAux] at hl
    by_cases hc : c = '\n'
    · rw [if_pos hc] at hl
      rcases List.mem_cons.mp hl with h | h
      · rw [h]; exact stripCrRev_nlf cur hcur
      · exact ih [] nlf_nil l h
    · rw [if_neg hc] at hl
      exact ih (c :: cur) (by simp [hcur, hc]) l hl

theorem lineWrap_nlf (pre content : List Char) (hpre : nlf pre) : ∀ l ∈ lineWrap pre content, nlf l := by
  intro l hl
  simp only [lineWrap, List.mem_map] at hl
  obtain ⟨x, hx, rfl⟩ := hl
  simp [hpre, rustLinesAux_nlf content [] nlf_nil x hx]

mutual
theorem fmtExpr_nlf (cx : Ctx) (hn : NumNoLF cx) : ∀ e : Expr, exprNoLF e → nlf (fmtExpr cx e).1
  | .neg e, h => by
    rw [exprNoLF] at h
    rw [fmtExpr]; simp [fmtExpr_nlf cx hn e h]
  | .bin op l r, h => by
    rw [exprNoLF] at h
    rw [fmtExpr]
    have : opChar op ≠ '\n' := by cases op <;> decide
    simp [fmtExpr_nlf cx hn l h.1, fmtExpr_nlf cx hn r h.2, this]
  | .val v, h => by
    rw [exprNoLF] at h
    rw [fmtExpr]; exact fmtVExpr_nlf cx hn v h
theorem fmtVExpr_nlf (cx : Ctx) (hn : NumNoLF cx) : ∀ v : VExpr, vexprNoLF v → nlf (fmtVExpr cx v).1
  | .paren e, h => by
    rw [vexprNoLF] at h
    rw [fmtVExpr]; simp [fmtExpr_nlf cx hn e h]
  | .amt v c, h => by
    rw [vexprNoLF] at h
    rw [fmtVExpr]
    have hnum : nlf (cx.num v c) := hn v c
    split
    · exact hnum
    · simp [hnum]; exact h
end

theorem printVExpr_nlf (cx : Ctx) (hn : NumNoLF cx) (v : VExpr) (h : vexprNoLF v) : nlf (printVExpr cx v) :=
  fmtVExpr_nlf cx hn v h

theorem printLot_nlf (cx : Ctx) (hn : NumNoLF cx) (l : Lot) (h : lotNoLF l) : nlf (printLot cx l) := by
  obtain ⟨hp, hnote⟩ := h
  unfold printLot
  have e1 : nlf " {{".toList := by decide
  have e2 : nlf "}}".toList := by decide
  have e3 : nlf " {".toList := by decide
  have e4 : nlf "}".toList := by decide
  have e5 : nlf " [".toList := by decide
  have e6 : nlf "]".toList := by decide
  have e7 : nlf " (".toList := by decide
  have e8 : nlf ")".toList := by decide
  refine (nlf_append _ _).mpr ⟨(nlf_append _ _).mpr ⟨?_, ?_⟩, ?_⟩
  · cases hpr : l.price with
    | none => simp
    | some x =>
      rw [hpr] at hp
      cases x with
      | total e => simp [e1, e2, printVExpr_nlf cx hn e hp]
      | rate e => simp [e3, e4, printVExpr_nlf cx hn e hp]
  · cases l.date with
    | none => simp
    | some d => simp [e5, e6, nlf_fmtDate d]
  · cases hno : l.note with
    | none => simp
    | some n =>
      rw [hno] at hnote
      simp [e7, e8]; exact hnote

theorem printCost_nlf (cx : Ctx) (hn : NumNoLF cx) (c : Option Exchange) (h : optNoLF exchangeNoLF c) :
    nlf (printCost cx c) := by
  have e1 : nlf " @ ".toList := by decide
  have e2 : nlf " @@ ".toList := by decide
  cases c with
  | none => simp [printCost]
  | some x =>
    cases x with
    | total e => simp [printCost, e2, printVExpr_nlf cx hn e h]
    | rate e => simp [printCost, e1, printVExpr_nlf cx hn e h]

theorem printMetaValue_nlf (v : MetaValue) (h : metaValueNoLF v) : nlf (printMetaValue v) := by
  have e1 : nlf ":: ".toList := by decide
  have e2 : nlf ": ".toList := by decide
  cases v with
  | text s => simp [printMetaValue, e2]; exact h
  | expr s => simp [printMetaValue, e1]; exact h

theorem metaLine_nlf (n : Nat) (m : Metadata) (h : metadataNoLF m) : nlf (metaLine n m) := by
  unfold metaLine
  have : nlf (printMetadata m) := by
    cases m with
    | comment s => exact h
    | wordTags ts =>
      simp only [printMetadata, nlf_cons, ne_eq]
      refine ⟨by decide, ?_⟩
      intro hm
      simp only [List.mem_flatMap, List.mem_append, List.mem_singleton] at hm
      obtain ⟨t, ht, h1 | h1⟩ := hm
      · exact h t ht h1
      · exact absurd h1 (by decide)
    | keyValue k v =>
      simp only [printMetadata, nlf_append]
      exact ⟨h.1, printMetaValue_nlf v h.2⟩
  simp [this]

theorem clearMark_nlf (c : ClearState) : nlf (clearMark c) := by
  cases c <;> simp [clearMark]

theorem amountPart_nlf (cx : Ctx) (hn : NumNoLF cx) (p : Posting) (h : optNoLF postingAmountNoLF p.amount) :
    nlf (amountPart cx p) := by
  unfold amountPart
  cases ha : p.amount with
  | none => simp
  | some a =>
    rw [ha] at h
    obtain ⟨h1, h2, h3⟩ := h
    simp [fmtVExpr_nlf cx hn a.amount h1, printLot_nlf cx hn a.lot h3, printCost_nlf cx hn a.cost h2]

theorem balancePart_nlf (cx : Ctx) (hn : NumNoLF cx) (p : Posting) (h : optNoLF vexprNoLF p.balance) :
    nlf (balancePart cx p) := by
  unfold balancePart
  cases hb : p.balance with
  | none => simp
  | some b =>
    rw [hb] at h
    simp [padLeft, printVExpr_nlf cx hn b h]

theorem postingHead_nlf (cx : Ctx) (hn : NumNoLF cx) (p : Posting) (h : postingNoLF p) : nlf (postingHead cx p) := by
  obtain ⟨hacc, hamt, hbal, _⟩ := h
  have hacc' : nlf p.account.toList := hacc
  unfold postingHead
  simp [clearMark_nlf, hacc', amountPart_nlf cx hn p hamt, balancePart_nlf cx hn p hbal]

theorem txnHeader_nlf (t : Transaction) (h : txnNoLF t) : nlf (txnHeader t) := by
  obtain ⟨hp, hc, _, _⟩ := h
  unfold txnHeader
  have hp' : nlf t.payee.toList := hp
  cases hcode : t.code with
  | none =>
    cases t.effectiveDate <;> simp [nlf_fmtDate, hp', clearMark_nlf]
  | some c =>
    rw [hcode] at hc
    have : nlf c.toList := hc
    cases t.effectiveDate <;> simp [nlf_fmtDate, hp', clearMark_nlf, this]

/-- when no single-line field of the entry holds a line feed, no printed line body does: the line bodies are the lines
of the printed text -/
theorem entryLines_nlf (cx : Ctx) (hn : NumNoLF cx) (e : Entry) (h : entryNoLF e) : ∀ l ∈ entryLines cx e, '\n' ∉ l := by
  intro l hl
  show nlf l
  cases e with
  | txn t =>
    have ht : txnNoLF t := h
    simp only [entryLines, txnLines, List.mem_append, List.mem_cons, List.mem_map, List.mem_flatMap] at hl
    rcases hl with (rfl | ⟨m, hm, rfl⟩) | ⟨p, hp, hl⟩
    · exact txnHeader_nlf t ht
    · exact metaLine_nlf _ m (ht.2.2.1 m hm)
    · simp only [postingLines, List.mem_cons, List.mem_map] at hl
      rcases hl with rfl | ⟨m, hm, rfl⟩
      · exact postingHead_nlf cx hn p (ht.2.2.2 p hp)
      · exact metaLine_nlf _ m ((ht.2.2.2 p hp).2.2.2 m hm)
  | comment s => exact lineWrap_nlf _ _ (by simp) l hl
  | applyTag k v =>
    simp only [entryLines, List.mem_singleton] at hl
    subst hl
    have hk : nlf k.toList := h.1
    have e1 : nlf "apply tag ".toList := by decide
    cases v with
    | none => simp [e1, hk]
    | some x => simp [e1, hk, printMetaValue_nlf x h.2]
  | endApplyTag =>
    simp only [entryLines, List.mem_singleton] at hl
    subst hl; decide
  | «include» p =>
    simp only [entryLines, List.mem_singleton] at hl
    subst hl
    have hp : nlf p.toList := h
    have e1 : nlf "include ".toList := by decide
    simp [e1, hp]
  | account n ds =>
    simp only [entryLines, List.mem_cons, List.mem_flatMap] at hl
    have e1 : nlf "account ".toList := by decide
    have hname : nlf n.toList := h.1
    rcases hl with rfl | ⟨d, hd, hl⟩
    · simp [e1, hname]
    · have hd' := h.2 d hd
      cases d with
      | comment s => exact lineWrap_nlf _ _ (by decide) l hl
      | note s => exact lineWrap_nlf _ _ (by decide) l hl
      | alias s =>
        simp only [accountDetailLines, List.mem_singleton] at hl
        subst hl
        have e2 : nlf Params.detailAliasPrefix.toList := by decide
        have hs : nlf s.toList := hd'
        simp [e2, hs]
  | commodity n ds =>
    simp only [entryLines, List.mem_cons, List.mem_flatMap] at hl
    have e1 : nlf "commodity ".toList := by decide
    have hname : nlf n.toList := h.1
    rcases hl with rfl | ⟨d, hd, hl⟩
    · simp [e1, hname]
    · have hd' := h.2 d hd
      cases d with
      | comment s => exact lineWrap_nlf _ _ (by decide) l hl
      | note s => exact lineWrap_nlf _ _ (by decide) l hl
      | alias s =>
        simp only [commodityDetailLines, List.mem_singleton] at hl
        subst hl
        have e2 : nlf Params.cdetailAliasPrefix.toList := by decide
        have hs : nlf s.toList := hd'
        simp [e2, hs]
      | format v c =>
        simp only [commodityDetailLines, List.mem_singleton] at hl
        subst hl
        have e2 : nlf Params.cdetailFormatPrefix.toList := by decide
        have hc : vexprNoLF (.amt v c) := by rw [vexprNoLF]; exact hd'
        simp [e2, printVExpr_nlf cx hn _ hc]

end Okane.Print
