import Okane.Spec.Print
/-!
# Helper lemmas for the C19 theorems (layout arithmetic of the printer model)
-/
namespace Okane.Print
open Okane

/-! ## widths of texts -/

theorem strWidth_append (w : Char → Nat) (a b : List Char) :
    strWidth w (a ++ b) = strWidth w a + strWidth w b := by
  induction a with
  | nil => simp [strWidth]
  | cons c cs ih => simp [strWidth, ih, Nat.add_assoc]

theorem strWidth_replicate (w : Char → Nat) (c : Char) (n : Nat) :
    strWidth w (List.replicate n c) = n * w c := by
  induction n with
  | zero => simp [strWidth]
  | succ n ih => simp [List.replicate_succ, strWidth, ih, Nat.succ_mul, Nat.add_comm]

theorem strWidth_spaces (w : Char → Nat) (h : w ' ' = 1) (n : Nat) : strWidth w (spaces n) = n := by
  simp [spaces, strWidth_replicate, h]

theorem byteLen_append (a b : List Char) : byteLen (a ++ b) = byteLen a + byteLen b := by
  induction a with
  | nil => simp [byteLen]
  | cons c cs ih => simp [byteLen, ih, Nat.add_assoc]

theorem AsciiW.nil (w : Char → Nat) : AsciiW w [] := by
  intro c hc; cases hc

theorem AsciiW.append {w : Char → Nat} {a b : List Char} (ha : AsciiW w a) (hb : AsciiW w b) :
    AsciiW w (a ++ b) := by
  intro c hc
  rcases List.mem_append.mp hc with h | h
  · exact ha c h
  · exact hb c h

theorem AsciiW.cons {w : Char → Nat} {c : Char} {s : List Char} (hc : Narrow w c) (hs : AsciiW w s) :
    AsciiW w (c :: s) := by
  intro d hd
  rcases List.mem_cons.mp hd with h | h
  · exact h ▸ hc
  · exact hs d h

theorem AsciiW.byteLen {w : Char → Nat} {s : List Char} (h : AsciiW w s) : byteLen s = s.length := by
  induction s with
  | nil => rfl
  | cons c cs ih =>
    have hc := h c (List.mem_cons_self)
    have := ih (fun d hd => h d (List.mem_cons_of_mem _ hd))
    simp [Print.byteLen, hc.1, this, Nat.add_comm]

theorem AsciiW.strWidth {w : Char → Nat} {s : List Char} (h : AsciiW w s) : strWidth w s = s.length := by
  induction s with
  | nil => rfl
  | cons c cs ih =>
    have hc := h c (List.mem_cons_self)
    have := ih (fun d hd => h d (List.mem_cons_of_mem _ hd))
    simp [Print.strWidth, hc.2, this, Nat.add_comm]

theorem SymOK.narrow {w : Char → Nat} (h : SymOK w) {c : Char} (hc : c ∈ ['(', ')', '-', '+', '*', '/', ' ']) :
    Narrow w c := by
  refine ⟨?_, h c hc⟩
  simp only [List.mem_cons, List.not_mem_nil, or_false] at hc
  rcases hc with rfl | rfl | rfl | rfl | rfl | rfl | rfl <;> decide

theorem opChar_mem (op : BinOp) : opChar op ∈ ['(', ')', '-', '+', '*', '/', ' '] := by
  cases op <;> simp [opChar]

/-! ## `get_column` -/

theorem getColumn_ge (colsize left padding : Nat) : padding ≤ getColumn colsize left padding := by
  unfold getColumn; split <;> omega

theorem getColumn_short {colsize left padding : Nat} (h : left + padding < colsize) :
    left + getColumn colsize left padding = colsize := by
  unfold getColumn; rw [if_pos h]; omega

theorem getColumn_long {colsize left padding : Nat} (h : ¬ left + padding < colsize) :
    getColumn colsize left padding = padding := by
  unfold getColumn; rw [if_neg h]

/-! ## the expression printer: what the alignment is -/

/-- the invariant of `fmt_with_alignment`: the alignment is the length of a prefix made of one-column characters;
a `Partial` alignment covers the whole text. -/
def Split (w : Char → Nat) (r : List Char × Alignment) : Prop :=
  ∃ pre post, r.1 = pre ++ post ∧ r.2.absolute = pre.length ∧ AsciiW w pre ∧ (∀ x, r.2 = .part x → post = [])

theorem split_plus_front {w : Char → Nat} {s : List Char} {a : Alignment} (c : Char) (hc : Narrow w c)
    (h : Split w (s, a)) : Split w (c :: s, a.plus 1 0) := by
  obtain ⟨pre, post, hs, hal, hasc, hpart⟩ := h
  have hs' : s = pre ++ post := hs
  refine ⟨c :: pre, post, by simp [hs'], ?_, AsciiW.cons hc hasc, ?_⟩
  · cases a <;> simp_all [Alignment.plus, Alignment.absolute] <;> omega
  · intro x hx
    cases a with
    | part y => exact hpart y rfl
    | complete y => simp [Alignment.plus] at hx

mutual
theorem fmtExpr_split (cx : Ctx) (hnum : NumOK cx) (hsym : SymOK cx.w) :
    ∀ e : Expr, Split cx.w (fmtExpr cx e)
  | .neg e => by
    have ih := fmtExpr_split cx hnum hsym e
    rw [fmtExpr]
    exact split_plus_front '-' (hsym.narrow (by simp)) ih
  | .bin op l r => by
    have ihl := fmtExpr_split cx hnum hsym l
    have ihr := fmtExpr_split cx hnum hsym r
    rw [fmtExpr]
    obtain ⟨pre1, post1, hs1, hal1, hasc1, hpart1⟩ := ihl
    obtain ⟨pre2, post2, hs2, hal2, hasc2, hpart2⟩ := ihr
    have hop : AsciiW cx.w [' ', opChar op, ' '] :=
      AsciiW.cons (hsym.narrow (by simp)) (AsciiW.cons (hsym.narrow (opChar_mem op))
        (AsciiW.cons (hsym.narrow (by simp)) (AsciiW.nil _)))
    cases h1 : (fmtExpr cx l).2 with
    | complete x =>
      refine ⟨pre1, post1 ++ ' ' :: opChar op :: ' ' :: (fmtExpr cx r).1, by simp [hs1], ?_, hasc1, ?_⟩
      · simp [h1, Alignment.plus, Alignment.absolute] at hal1 ⊢; exact hal1
      · intro y hy; simp [h1, Alignment.plus] at hy
    | part x =>
      have hp1 : post1 = [] := hpart1 x h1
      have hx : x = pre1.length := by simpa [h1, Alignment.absolute] using hal1
      refine ⟨pre1 ++ [' ', opChar op, ' '] ++ pre2, post2, by simp [hs1, hs2, hp1], ?_,
        AsciiW.append (AsciiW.append hasc1 hop) hasc2, ?_⟩
      · cases h2 : (fmtExpr cx r).2 <;>
          simp [h1, h2, Alignment.plus, Alignment.absolute] at hal2 ⊢ <;> omega
      · intro y hy
        cases h2 : (fmtExpr cx r).2 with
        | part z => exact hpart2 z h2
        | complete z => simp [h1, h2, Alignment.plus] at hy
  | .val v => by
    rw [fmtExpr]
    exact fmtVExpr_split cx hnum hsym v
theorem fmtVExpr_split (cx : Ctx) (hnum : NumOK cx) (hsym : SymOK cx.w) :
    ∀ v : VExpr, Split cx.w (fmtVExpr cx v)
  | .paren e => by
    have ih := fmtExpr_split cx hnum hsym e
    rw [fmtVExpr]
    obtain ⟨pre, post, hs, hal, hasc, hpart⟩ := ih
    cases h1 : (fmtExpr cx e).2 with
    | complete x =>
      refine ⟨'(' :: pre, post ++ [')'], by simp [hs], ?_, AsciiW.cons (hsym.narrow (by simp)) hasc, ?_⟩
      · simp [h1, Alignment.plus, Alignment.absolute] at hal ⊢; omega
      · intro y hy; simp [h1, Alignment.plus] at hy
    | part x =>
      have hp : post = [] := hpart x h1
      refine ⟨'(' :: pre ++ [')'], [], by simp [hs, hp], ?_,
        AsciiW.append (AsciiW.cons (hsym.narrow (by simp)) hasc)
          (AsciiW.cons (hsym.narrow (by simp)) (AsciiW.nil _)), fun _ _ => rfl⟩
      simp [h1, Alignment.plus, Alignment.absolute] at hal ⊢; omega
  | .amt v c => by
    rw [fmtVExpr]
    have hn := hnum v c
    split
    · exact ⟨cx.num v c, [], by simp, by simp [Alignment.absolute, hn.byteLen], hn, fun _ _ => rfl⟩
    · refine ⟨cx.num v c, ' ' :: c.toList, rfl, by simp [Alignment.absolute, hn.byteLen], hn, ?_⟩
      intro x hx; simp at hx
end

/-- the alignment never exceeds the length of the printed expression -/
theorem alignment_le_length' (cx : Ctx) (hnum : NumOK cx) (hsym : SymOK cx.w) (v : VExpr) :
    (fmtVExpr cx v).2.absolute ≤ (fmtVExpr cx v).1.length := by
  obtain ⟨pre, post, hs, hal, _, _⟩ := fmtVExpr_split cx hnum hsym v
  rw [hs, hal]; simp

theorem numericPart_length (cx : Ctx) (hnum : NumOK cx) (hsym : SymOK cx.w) (v : VExpr) :
    (numericPart cx v).length = (fmtVExpr cx v).2.absolute := by
  simp [numericPart, List.length_take, Nat.min_eq_left (alignment_le_length' cx hnum hsym v)]

theorem numericPart_ascii (cx : Ctx) (hnum : NumOK cx) (hsym : SymOK cx.w) (v : VExpr) :
    AsciiW cx.w (numericPart cx v) := by
  obtain ⟨pre, post, hs, hal, hasc, _⟩ := fmtVExpr_split cx hnum hsym v
  have : numericPart cx v = pre := by
    simp [numericPart, hs, hal]
  rw [this]; exact hasc

theorem numeric_append_after (cx : Ctx) (v : VExpr) :
    numericPart cx v ++ afterNumeric cx v = (fmtVExpr cx v).1 := by
  simp [numericPart, afterNumeric]

/-- the display width of a printed expression is the alignment plus the width of what follows the numeric part -/
theorem strWidth_fmt (cx : Ctx) (hnum : NumOK cx) (hsym : SymOK cx.w) (v : VExpr) :
    strWidth cx.w (fmtVExpr cx v).1 = (fmtVExpr cx v).2.absolute + strWidth cx.w (afterNumeric cx v) := by
  rw [← numeric_append_after cx v, strWidth_append, (numericPart_ascii cx hnum hsym v).strWidth,
    numericPart_length cx hnum hsym v]

/-! ## lines of a text -/

theorem linesAux_line (l rest cur : List Char) (h : '\n' ∉ l) :
    linesAux (l ++ '\n' :: rest) cur = (cur.reverse ++ l) :: linesAux rest [] := by
  induction l generalizing cur with
  | nil => simp [linesAux]
  | cons c cs ih =>
    have hc : c ≠ '\n' := fun e => h (e ▸ List.mem_cons_self)
    have hcs : '\n' ∉ cs := fun e => h (List.mem_cons_of_mem _ e)
    simp [linesAux, hc, ih (c :: cur) hcs]

theorem linesOf_unlines_append (ls : List (List Char)) (rest : List Char) (h : ∀ l ∈ ls, '\n' ∉ l) :
    linesOf (unlines ls ++ rest) = ls ++ linesOf rest := by
  induction ls with
  | nil => simp [unlines]
  | cons l ls ih =>
    have hl := h l List.mem_cons_self
    have := ih (fun x hx => h x (List.mem_cons_of_mem _ hx))
    have e : unlines (l :: ls) ++ rest = l ++ '\n' :: (unlines ls ++ rest) := by simp [unlines]
    rw [linesOf, e, linesAux_line l _ [] hl]
    simp only [linesOf] at this
    simp [this, linesOf]

theorem linesOf_unlines (ls : List (List Char)) (h : ∀ l ∈ ls, '\n' ∉ l) : linesOf (unlines ls) = ls := by
  have := linesOf_unlines_append ls [] h
  simpa [linesOf, linesAux] using this

end Okane.Print
