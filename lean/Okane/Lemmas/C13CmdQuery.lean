import Okane.Lemmas.C13CmdReport
import Okane.Model.Query
/-!
# C13, command level (4): `balance -X` (commodity conversion) on related ledgers

The price repository is a `HashMap<Commodity, HashMap<Commodity, Entry>>` built from the price events in order;
`check_balance` names the two sides of an implied exchange in the hash order of the residual, so two runs may log
`(x, y)` resp. `(y, x)` — the two `insert_impl` calls then happen in the opposite order, on different keys, and the
repositories are the same maps (`insertPrice_swap`).  `compute_price_table` visits the neighbours of a node in an
order `cfg.ord` computed from the inner map; when that order does not depend on the layout of the inner map
(`OrdOK`; true of the sorted order used since fix b2e85da, `ordSorted_ok`), price tables, conversions and the
converted balance are the same, and so is the printed report.  The pop order `cfg.pick` of the binary heap is a
function of the queue contents, hence the same in both runs.
-/
set_option linter.unusedSectionVars false
set_option linter.unusedSimpArgs false
namespace Okane.C13
open Okane Okane.Price Okane.Query
variable {α κ : Type} [DecidableEq α] [DecidableEq κ]

/-! ## the insertion sort (`isortBy`, stands for `sort_unstable_by_key`) forgets the layout -/
section SortSec
variable {β : Type}

theorem insertBy_pairwise {le : β → β → Bool} (htot : ∀ a b, (le a b || le b a) = true)
    (htr : ∀ a b c, le a b = true → le b c = true → le a c = true) (x : β) (l : List β)
    (h : l.Pairwise (fun a b => le a b = true)) : (insertBy le x l).Pairwise (fun a b => le a b = true) := by
  induction l with
  | nil => simp [insertBy]
  | cons y ys ih =>
    rw [List.pairwise_cons] at h
    simp only [insertBy]
    split
    · rename_i hxy
      rw [List.pairwise_cons]
      refine ⟨fun z hz => ?_, List.pairwise_cons.2 h⟩
      rcases List.mem_cons.1 hz with rfl | hz
      · exact hxy
      · exact htr _ _ _ hxy (h.1 z hz)
    · rename_i hxy
      have hyx : le y x = true := by have := htot x y; simp [hxy] at this; exact this
      rw [List.pairwise_cons]
      refine ⟨fun z hz => ?_, ih h.2⟩
      rcases (mem_insertBy le x z ys).1 hz with rfl | hz
      · exact hyx
      · exact h.1 z hz

theorem isortBy_pairwise {le : β → β → Bool} (htot : ∀ a b, (le a b || le b a) = true)
    (htr : ∀ a b c, le a b = true → le b c = true → le a c = true) (l : List β) :
    (isortBy le l).Pairwise (fun a b => le a b = true) := by
  induction l with
  | nil => simp [isortBy]
  | cons x xs ih => exact insertBy_pairwise htot htr x _ ih

end SortSec

/-- **sorting a map by key with the insertion sort gives the same list for every layout.** -/
theorem isortBy_meq {ν : Type} {le : κ → κ → Bool} (ho : KeyOrder le) {m m' : AMap κ ν} (h : m ≈ₘ m') :
    isortBy (fun a b : κ × ν => le a.1 b.1) m = isortBy (fun a b : κ × ν => le a.1 b.1) m' := by
  have htot : ∀ a b : κ × ν, (le a.1 b.1 || le b.1 a.1) = true := fun a b => ho.total a.1 b.1
  have htr : ∀ a b c : κ × ν, le a.1 b.1 = true → le b.1 c.1 = true → le a.1 c.1 = true :=
    fun a b c => ho.trans a.1 b.1 c.1
  have s1 := isortBy_pairwise htot htr m
  have s2 := isortBy_pairwise htot htr m'
  have p1 := isortBy_perm (fun a b : κ × ν => le a.1 b.1) m
  have p2 := isortBy_perm (fun a b : κ × ν => le a.1 b.1) m'
  refine List.Perm.eq_of_pairwise (le := fun a b : κ × ν => le a.1 b.1 = true) ?_ s1 s2
    (p1.trans (h.perm.trans p2.symm))
  intro a b ha hb hab hba
  have hk : a.1 = b.1 := ho.antisymm _ _ hab hba
  have ha' : a ∈ m := p1.subset ha
  have hb' : b ∈ m := h.perm.symm.subset (p2.subset hb)
  obtain ⟨ak, av⟩ := a
  obtain ⟨bk, bv⟩ := b
  simp only at hk
  subst hk
  rw [mem_unique h.wf ha' hb']

theorem insertBy_map_key {ν ν' : Type} (le : κ → κ → Bool) (f : κ → ν → ν') (x : κ × ν) (l : List (κ × ν)) :
    insertBy (fun a b : κ × ν' => le a.1 b.1) (x.1, f x.1 x.2) (l.map fun kv => (kv.1, f kv.1 kv.2)) =
      (insertBy (fun a b : κ × ν => le a.1 b.1) x l).map fun kv => (kv.1, f kv.1 kv.2) := by
  induction l with
  | nil => rfl
  | cons y ys ih =>
    simp only [List.map_cons, insertBy]
    split
    · simp
    · simp [ih]

/-- the insertion sort by key commutes with a map on the values. -/
theorem isortBy_mapValsK {ν ν' : Type} (le : κ → κ → Bool) (f : κ → ν → ν') (m : AMap κ ν) :
    isortBy (fun a b : κ × ν' => le a.1 b.1) (AMap.mapValsK f m) =
      (isortBy (fun a b : κ × ν => le a.1 b.1) m).map fun kv => (kv.1, f kv.1 kv.2) := by
  unfold AMap.mapValsK
  induction m with
  | nil => rfl
  | cons x xs ih =>
    simp only [List.map_cons, isortBy, ih]
    exact insertBy_map_key le f x _

theorem LRel.of_map_mem {β γ : Type} {R : β → γ → Prop} (f : β → γ) : ∀ (l : List β), (∀ a ∈ l, R a (f a)) →
    LRel R l (l.map f)
  | [], _ => .nil
  | a :: l, h => .cons (h a (by simp)) (LRel.of_map_mem f l fun x hx => h x (List.mem_cons_of_mem _ hx))

/-- an entry of a sorted balance: same account, same amount. -/
def KVEq (x x' : α × Amount κ) : Prop := x.1 = x'.1 ∧ x.2 ≈ₘ x'.2

/-- **`Balance::into_vec` / the sorted account list of the `UpToDate` loop**: the two sorted vectors have the same
accounts in the same positions, holding the same amounts. -/
theorem isortBy_balEq {leA : α → α → Bool} (hoA : KeyOrder leA) {b b' : Balance α κ} (h : b ≈ᵦ b') :
    LRel KVEq (isortBy (fun x y : α × Amount κ => leA x.1 y.1) b) (isortBy (fun x y : α × Amount κ => leA x.1 y.1) b') := by
  let g : α → Amount κ → Amount κ := fun k _ => (AMap.get? b' k).getD []
  have hmid : AMap.mapValsK g b ≈ₘ b' := by
    refine MEq.of_ext (AMap.WF_mapValsK _ _ h.wf) h.wf' (fun k => ?_)
    rw [AMap.get?_mapValsK]
    have := h.rel k
    revert this
    cases AMap.get? b k <;> cases hb : AMap.get? b' k <;> simp only [OptRel] <;> intro hr <;>
      first | rfl | exact hr.elim | simp [g, hb]
  rw [← isortBy_meq hoA hmid, isortBy_mapValsK]
  refine LRel.of_map_mem _ _ (fun kv hkv => ⟨rfl, ?_⟩)
  have hmem : kv ∈ b := (isortBy_perm _ b).subset hkv
  have hg := AMap.get?_some_of_mem b h.wf (k := kv.1) (v := kv.2) hmem
  have := h.rel kv.1
  rw [hg] at this
  revert this
  cases hb : AMap.get? b' kv.1 <;> simp only [OptRel] <;> intro hr
  · exact hr.elim
  · simpa [g, hb] using hr

/-! ## the price repository and conversions -/

/-- the same price repository (`records[price_with][price_of]`), every level in any layout. -/
abbrev RepoEq (b b' : Builder κ) : Prop := NEq b b'

/-- the neighbour order of `compute_price_table` does not depend on the layout of the inner map. -/
def OrdOK (ord : κ → List (κ × PEntry) → List (κ × PEntry)) : Prop := ∀ k m m', m ≈ₘ m' → ord k m = ord k m'

/-- the order used since fix b2e85da (neighbours sorted by commodity name; the driver's `ordSorted`). -/
theorem ordSorted_ok {le : κ → κ → Bool} (ho : KeyOrder le) :
    OrdOK (fun _ l => isortBy (fun a b : κ × PEntry => le a.1 b.1) l) := fun _ _ _ h => isortBy_meq ho h

theorem edgesAt_repoEq {ord : κ → List (κ × PEntry) → List (κ × PEntry)} (hord : OrdOK ord) {repo repo' : Builder κ}
    (h : RepoEq repo repo') (date : Date) (prev : κ) : edgesAt ord repo date prev = edgesAt ord repo' date prev := by
  have := h.rel prev
  unfold edgesAt
  revert this
  cases AMap.get? repo prev <;> cases AMap.get? repo' prev <;> simp only [OptRel] <;> intro hr
  · trivial
  · exact hr.elim
  · exact hr.elim
  · rw [hord prev _ _ hr]

/-- **`compute_price_table`** gives the same table. -/
theorem priceTable_repoEq {cfg : Cfg κ} (hord : OrdOK cfg.ord) {repo repo' : Builder κ} (h : RepoEq repo repo')
    (priceWith : κ) (date : Date) : priceTable cfg repo priceWith date = priceTable cfg repo' priceWith date := by
  unfold priceTable
  have : edgesAt cfg.ord repo date = edgesAt cfg.ord repo' date := funext (edgesAt_repoEq hord h date)
  rw [this]

theorem convertSingle_repoEq {cfg : Cfg κ} (hord : OrdOK cfg.ord) {repo repo' : Builder κ} (h : RepoEq repo repo')
    (v : SingleAmount κ) (T : κ) (date : Date) :
    convertSingle cfg repo v T date = convertSingle cfg repo' v T date := by
  unfold convertSingle
  rw [priceTable_repoEq hord h]

theorem convertLoop_repoEq {cfg : Cfg κ} (hord : OrdOK cfg.ord) {repo repo' : Builder κ} (h : RepoEq repo repo')
    (T : κ) (date : Date) (l : List (κ × Rat)) (acc : Amount κ) :
    convertLoop cfg repo T date l acc = convertLoop cfg repo' T date l acc := by
  induction l generalizing acc with
  | nil => rfl
  | cons x xs ih =>
    obtain ⟨c, v⟩ := x
    simp only [convertLoop, convertSingle_repoEq hord h]
    cases convertSingle cfg repo' ⟨v, c⟩ T date <;> simp only [ih]

/-- **`convert_amount`** of the same amount against the same repository: the *same* outcome (the entries are
converted in commodity order, so also the same first failure). -/
theorem convertAmount_meq {cfg : Cfg κ} (hord : OrdOK cfg.ord) {repo repo' : Builder κ} (h : RepoEq repo repo')
    {leK : κ → κ → Bool} (hoK : KeyOrder leK) {a a' : Amount κ} (ha : a ≈ₘ a') (T : κ) (date : Date) :
    convertAmount cfg repo leK a T date = convertAmount cfg repo' leK a' T date := by
  unfold convertAmount
  rw [isortBy_meq hoK ha, convertLoop_repoEq hord h]

/-- `convert_amount` returns a map with distinct keys. -/
theorem convertLoop_wf (cfg : Cfg κ) (repo : Builder κ) (T : κ) (date : Date) (l : List (κ × Rat)) :
    ∀ (acc r : Amount κ), AMap.WF acc → convertLoop cfg repo T date l acc = .ok r → AMap.WF r := by
  induction l with
  | nil => intro acc r hw h; simp only [convertLoop, Outcome.ok.injEq] at h; subst h; exact hw
  | cons x xs ih =>
    intro acc r hw h
    obtain ⟨c, v⟩ := x
    simp only [convertLoop] at h
    cases hs : convertSingle cfg repo ⟨v, c⟩ T date with
    | ok s => rw [hs] at h; exact ih _ r (Okane.Amount.WF_addSingle _ _ _ hw) h
    | err e => rw [hs] at h; simp at h
    | panic e => rw [hs] at h; simp at h
    | fuelOut => rw [hs] at h; simp at h

theorem convertAmount_wf {cfg : Cfg κ} {repo : Builder κ} {leK : κ → κ → Bool} {a r : Amount κ} {T : κ} {date : Date}
    (h : convertAmount cfg repo leK a T date = .ok r) : AMap.WF r :=
  convertLoop_wf cfg repo T date _ [] r AMap.WF_nil h

/-- what two runs of a query share: heap order, neighbour order and the two sort orders; the repositories are
the same maps. -/
structure EnvEq (env env' : Env α κ) : Prop where
  cfg : env.cfg = env'.cfg
  leK : env.leK = env'.leK
  leA : env.leA = env'.leA
  repo : RepoEq env.repo env'.repo

/-- hypotheses on the shared parameters. -/
structure EnvOK (env : Env α κ) : Prop where
  ord : OrdOK env.cfg.ord
  hoK : KeyOrder env.leK
  hoA : KeyOrder env.leA

theorem convertAmount_env {env env' : Env α κ} (he : EnvEq env env') (hok : EnvOK env) {a a' : Amount κ}
    (ha : a ≈ₘ a') (T : κ) (date : Date) :
    ORel (· = ·) (· ≈ₘ ·) (liftConv (convertAmount env.cfg env.repo env.leK a T date))
      (liftConv (convertAmount env'.cfg env'.repo env'.leK a' T date)) := by
  rw [← he.cfg, ← he.leK, ← convertAmount_meq hok.ord he.repo hok.hoK ha T date]
  cases hc : convertAmount env.cfg env.repo env.leK a T date <;> simp only [liftConv, ORel]
  exact MEq.refl (convertAmount_wf hc)

/-- **the recompute loop of `Ledger::balance`** (date range and/or historical conversion). -/
theorem recomputeLoop_meq {env env' : Env α κ} (he : EnvEq env env') (hok : EnvOK env) (q : BalanceQuery κ)
    {l l' : List (Date × OutPosting α κ)} (hl : LRel DPostEq l l') :
    ∀ {bal bal' : Balance α κ}, bal ≈ᵦ bal' →
      ORel (· = ·) (· ≈ᵦ ·) (recomputeLoop env q l bal) (recomputeLoop env' q l' bal') := by
  induction hl with
  | nil => intro bal bal' hb; exact hb
  | @cons x x' l l' hx _ ih =>
    intro bal bal' hb
    obtain ⟨date, p⟩ := x
    obtain ⟨date', p'⟩ := x'
    obtain ⟨hd, hp⟩ := hx
    simp only at hd hp; subst hd
    simp only [recomputeLoop]
    by_cases hc : q.range.contains date = true
    · simp only [hc, Bool.not_true, Bool.false_eq_true, if_false]
      match hq : q.conversion with
      | some ⟨.historical, target⟩ =>
        simp only []
        have h1 := convertAmount_env he hok hp.2.1 target date
        orel_cases h1, liftConv (convertAmount env.cfg env.repo env.leK p.amount target date),
          liftConv (convertAmount env'.cfg env'.repo env'.leK p'.amount target date)
        · rw [hp.1]; exact ih (hb.addAmount _ h1).1
        all_goals orel_done h1
      | some ⟨.upToDate now, target⟩ => simp only []; rw [hp.1]; exact ih (hb.addAmount _ hp.2.1).1
      | none => simp only []; rw [hp.1]; exact ih (hb.addAmount _ hp.2.1).1
    · simp only [hc, Bool.not_false, if_true]
      exact ih hb

/-- the first half of `Ledger::balance`. -/
theorem baseBalance_meq (prec : κ → Option Nat) {env env' : Env α κ} (he : EnvEq env env') (hok : EnvOK env)
    {txns txns' : List (OutTxn α κ)} (ht : LRel TxnEq txns txns') {raw raw' : Balance α κ} (hr : raw ≈ᵦ raw')
    (q : BalanceQuery κ) :
    ORel (· = ·) (· ≈ᵦ ·) (baseBalance prec env txns raw q) (baseBalance prec env' txns' raw' q) := by
  unfold baseBalance
  split
  · exact hr
  · have h1 := recomputeLoop_meq he hok q (allPostings_meq ht) (NEq.nil (α := α) (κ := κ) (ν := Rat))
    orel_cases h1, recomputeLoop env q (allPostings txns) [], recomputeLoop env' q (allPostings txns') []
    · split
      · exact h1
      · exact h1.round prec
    all_goals orel_done h1

/-- the `UpToDate` loop over the sorted accounts. -/
theorem upToDateLoop_meq {env env' : Env α κ} (he : EnvEq env env') (hok : EnvOK env) (target : κ) (now : Date)
    {l l' : List (α × Amount κ)} (hl : LRel KVEq l l') :
    ∀ {acc acc' : Balance α κ}, acc ≈ᵦ acc' →
      ORel (· = ·) (· ≈ᵦ ·) (upToDateLoop env target now l acc) (upToDateLoop env' target now l' acc') := by
  induction hl with
  | nil => intro acc acc' hb; exact hb
  | @cons x x' l l' hx _ ih =>
    intro acc acc' hb
    obtain ⟨account, original⟩ := x
    obtain ⟨account', original'⟩ := x'
    obtain ⟨ha, ho⟩ := hx
    simp only at ha ho; subst ha
    simp only [upToDateLoop]
    have h1 := convertAmount_env he hok ho target now
    orel_cases h1, liftConv (convertAmount env.cfg env.repo env.leK original target now),
      liftConv (convertAmount env'.cfg env'.repo env'.leK original' target now)
    · exact ih (hb.addAmount _ h1).1
    all_goals orel_done h1

/-- **`Ledger::balance`** (any conversion strategy, any date range): the same balance or the same error. -/
theorem balance_meq (prec : κ → Option Nat) {env env' : Env α κ} (he : EnvEq env env') (hok : EnvOK env)
    {txns txns' : List (OutTxn α κ)} (ht : LRel TxnEq txns txns') {raw raw' : Balance α κ} (hr : raw ≈ᵦ raw')
    (q : BalanceQuery κ) :
    ORel (· = ·) (· ≈ᵦ ·) (Query.balance prec env txns raw q) (Query.balance prec env' txns' raw' q) := by
  have h1 := baseBalance_meq prec he hok ht hr q
  unfold Query.balance
  orel_cases h1, baseBalance prec env txns raw q, baseBalance prec env' txns' raw' q
  · rename_i base base'
    match hq : q.conversion with
    | some ⟨.upToDate now, target⟩ =>
      simp only []
      have h2 := upToDateLoop_meq he hok target now (isortBy_balEq hok.hoA h1) (NEq.nil (α := α) (κ := κ) (ν := Rat))
      rw [← he.leA]
      orel_cases h2, upToDateLoop env target now (isortBy (fun a b => env.leA a.1 b.1) base) [],
        upToDateLoop env' target now (isortBy (fun a b => env.leA a.1 b.1) base') []
      · exact h2.round prec
      all_goals orel_done h2
    | some ⟨.historical, target⟩ => exact h1
    | none => exact h1
  all_goals orel_done h1

/-! ## building the price repository from the logged events -/

syntax "orel_cases' " ident "," term "," term : tactic
macro_rules
  | `(tactic| orel_cases' $ih, $x, $y) =>
    `(tactic| (revert $ih:ident; cases $x:term <;> cases $y:term <;> intro $ih:ident <;>
        (try simp only [ORel] at $ih:ident)))

/-- the map `insert_impl` returns when it does not panic. -/
def insertPure (b : Builder κ) (src : Source) (date : Date) (priceOf priceWith : SingleAmount κ) : Builder κ :=
  let inner := (AMap.get? b priceWith.commodity).getD []
  let e := (AMap.get? inner priceOf.commodity).getD ⟨.ledger, []⟩
  let e' : PEntry := if e.source.rank < src.rank then ⟨src, []⟩ else e
  AMap.insert b priceWith.commodity
    (AMap.insert inner priceOf.commodity ⟨e'.source, e'.recs ++ [(date, priceWith.value / priceOf.value)]⟩)

theorem insertImpl_eq (b : Builder κ) (src : Source) (date : Date) (priceOf priceWith : SingleAmount κ) :
    insertImpl b src date priceOf priceWith =
      if priceOf.value = 0 then .panic "Decimal division by zero (PriceRepositoryBuilder::insert_impl)"
      else .ok (insertPure b src date priceOf priceWith) := rfl

theorem insertPure_meq {b b' : Builder κ} (h : RepoEq b b') (src : Source) (date : Date)
    (priceOf priceWith : SingleAmount κ) :
    RepoEq (insertPure b src date priceOf priceWith) (insertPure b' src date priceOf priceWith) := by
  have hi := h.inner priceWith.commodity
  unfold insertPure
  simp only [hi.get? priceOf.commodity]
  exact h.insert _ (hi.insert _ _)

/-- `insert_impl` -/
theorem insertImpl_meq {b b' : Builder κ} (h : RepoEq b b') (src : Source) (date : Date)
    (priceOf priceWith : SingleAmount κ) :
    ORel (· = ·) RepoEq (insertImpl b src date priceOf priceWith) (insertImpl b' src date priceOf priceWith) := by
  rw [insertImpl_eq, insertImpl_eq]
  split
  · simp [ORel]
  · exact insertPure_meq h src date priceOf priceWith

theorem get?_insertPure (b : Builder κ) (src : Source) (date : Date) (po pw : SingleAmount κ) (k : κ) :
    AMap.get? (insertPure b src date po pw) k =
      if pw.commodity = k then
        some (AMap.insert ((AMap.get? b pw.commodity).getD []) po.commodity
          ⟨(if ((AMap.get? ((AMap.get? b pw.commodity).getD []) po.commodity).getD ⟨.ledger, []⟩).source.rank < src.rank
              then (⟨src, []⟩ : PEntry)
              else (AMap.get? ((AMap.get? b pw.commodity).getD []) po.commodity).getD ⟨.ledger, []⟩).source,
            (if ((AMap.get? ((AMap.get? b pw.commodity).getD []) po.commodity).getD ⟨.ledger, []⟩).source.rank < src.rank
              then (⟨src, []⟩ : PEntry)
              else (AMap.get? ((AMap.get? b pw.commodity).getD []) po.commodity).getD ⟨.ledger, []⟩).recs ++
              [(date, pw.value / po.value)]⟩)
      else AMap.get? b k := by
  unfold insertPure
  simp only [AMap.get?_insert]

/-- the two `insert_impl` calls of one `insert_price` write under different outer keys, so they commute. -/
theorem insertPure_comm (b : Builder κ) (src : Source) (date : Date) (x y : SingleAmount κ)
    (hne : x.commodity ≠ y.commodity) (k : κ) :
    AMap.get? (insertPure (insertPure b src date x y) src date y x) k =
      AMap.get? (insertPure (insertPure b src date y x) src date x y) k := by
  have hne' : y.commodity ≠ x.commodity := fun h => hne h.symm
  simp only [get?_insertPure, hne, hne', if_false]
  by_cases hx : x.commodity = k
  · have hy : ¬ y.commodity = k := fun h => hne (hx.trans h.symm)
    simp [hx, hy]
  · simp [hx]

theorem NEq.of_get?_eq {ν : Type} {a b : AMap α (AMap κ ν)} (ha : a ≈ᵦ a) (hb : AMap.WF b)
    (h : ∀ k, AMap.get? a k = AMap.get? b k) : a ≈ᵦ b := by
  refine ⟨ha.wf, hb, fun k => ?_⟩
  rw [← h k]
  exact ha.rel k

/-- `insert_price` -/
theorem insertPrice_meq {b b' : Builder κ} (h : RepoEq b b') (src : Source) (ev : PriceEvent κ) :
    ORel (· = ·) RepoEq (insertPrice b src ev) (insertPrice b' src ev) := by
  unfold insertPrice
  split
  · exact h
  · have h1 := insertImpl_meq h src ev.date ev.x ev.y
    orel_cases' h1, insertImpl b src ev.date ev.x ev.y, insertImpl b' src ev.date ev.x ev.y
    · exact insertImpl_meq h1 src ev.date ev.y ev.x
    all_goals first | exact h1 | trivial

/-- **the event logged as `(x, y)` in one run and as `(y, x)` in the other inserts the same records.** -/
theorem insertPrice_swap {b : Builder κ} (h : RepoEq b b) (src : Source) (date : Date) (x y : SingleAmount κ)
    (hne : x.commodity ≠ y.commodity) :
    ORel (· = ·) RepoEq (insertPrice b src ⟨date, x, y⟩) (insertPrice b src ⟨date, y, x⟩) := by
  unfold insertPrice
  by_cases hz : x.value = 0 ∨ y.value = 0
  · have hz' : y.value = 0 ∨ x.value = 0 := hz.symm
    simp only [hz, hz', if_true]; exact h
  · have hz' : ¬ (y.value = 0 ∨ x.value = 0) := fun h => hz h.symm
    have hx : ¬ x.value = 0 := fun h => hz (Or.inl h)
    have hy : ¬ y.value = 0 := fun h => hz (Or.inr h)
    simp only [hz, hz', if_false, insertImpl_eq, hx, hy, ORel]
    have hA := insertPure_meq (insertPure_meq h src date x y) src date y x
    have hB := insertPure_meq (insertPure_meq h src date y x) src date x y
    exact NEq.of_get?_eq hA hB.wf (insertPure_comm b src date x y hne)

theorem insertPrice_pev {b b' : Builder κ} (h : RepoEq b b') (src : Source) {ev ev' : PriceEvent κ} (he : PEvEq ev ev') :
    ORel (· = ·) RepoEq (insertPrice b src ev) (insertPrice b' src ev') := by
  rcases he with h0 | ⟨h0, hne⟩
  · rw [h0]; exact insertPrice_meq h src ev
  · rw [h0]
    have h1 := insertPrice_meq h src ev
    have h2 := insertPrice_swap (h.symm.trans h) src ev.date ev.x ev.y hne
    revert h1 h2
    cases insertPrice b src ev <;> cases insertPrice b' src ev <;>
      cases insertPrice b' src ⟨ev.date, ev.y, ev.x⟩ <;> simp only [ORel] <;> intro h1 h2 <;>
      first | exact h1.trans h2 | exact h1.elim | exact h2.elim | exact h1.trans h2 | trivial

/-- a run of `insert_price` calls -/
theorem insertAll_meq (src : Source) {evs evs' : List (PriceEvent κ)} (he : LRel PEvEq evs evs') :
    ∀ {b b' : Builder κ}, RepoEq b b' → ORel (· = ·) RepoEq (insertAll src b evs) (insertAll src b' evs') := by
  induction he with
  | nil => intro b b' h; exact h
  | @cons e e' l l' hee _ ih =>
    intro b b' h
    have h1 := insertPrice_pev h src hee
    simp only [insertAll]
    orel_cases' h1, insertPrice b src e, insertPrice b' src e'
    · exact ORel.imp (fun _ _ _ => trivial) (fun _ _ h => h) (ih h1)
    all_goals first | exact h1 | trivial

/-- `report::process`: ledger events, then the price-db lines. -/
theorem buildFrom_meq {evs evs' db db' : List (PriceEvent κ)} (he : LRel PEvEq evs evs') (hd : LRel PEvEq db db') :
    ORel (· = ·) RepoEq (buildFrom evs db) (buildFrom evs' db') := by
  have h1 := insertAll_meq .ledger he (NEq.nil (α := κ) (κ := κ) (ν := PEntry))
  unfold buildFrom
  orel_cases' h1, insertAll Source.ledger ([] : Builder κ) evs, insertAll Source.ledger ([] : Builder κ) evs'
  · exact insertAll_meq .priceDB hd h1
  all_goals first | exact h1 | trivial

/-- `build_naive` (every record vector sorted) -/
theorem build_meq {b b' : Builder κ} (h : RepoEq b b') : RepoEq (build b) (build b') := by
  refine ⟨AMap.WF_mapVals _ _ h.wf, AMap.WF_mapVals _ _ h.wf', fun k => ?_⟩
  have := h.rel k
  simp only [build, AMap.get?_mapVals]
  revert this
  cases AMap.get? b k <;> cases AMap.get? b' k <;> simp only [OptRel, Option.map] <;> intro hr <;>
    first | trivial | exact hr.elim | exact hr.mapVals _

/-! ## `Ledger::eval` (`okane eval`) -/

/-- **`Ledger::eval`** on related stores and repositories: the same amount (as a map) or the same error. -/
theorem eval_meq {env env' : Env String String} (he : EnvEq env env') (hok : EnvOK env) {s s' : Store} (hs : StoreEq s s')
    (expr : VExpr) (date : Date) (exchange : Option String) :
    ORel (· = ·) (· ≈ₘ ·) (Query.eval env s expr date exchange) (Query.eval env' s' expr date exchange) := by
  unfold Query.eval
  cases exchange with
  | none =>
    simp only []
    have h1 := evalRo_meq expr hs
    orel_cases h1, evalRo s expr, evalRo s' expr
    · rename_i v v'
      have h2 := EvEq.toAmount h1
      orel_cases h2, v.toAmount, v'.toAmount
      · exact h2
      all_goals orel_done h2
    all_goals orel_done h1
  | some x =>
    simp only [hs.resolve x]
    cases s'.resolve x with
    | none => simp [ORel]
    | some c =>
      simp only []
      have h1 := evalRo_meq expr hs
      orel_cases h1, evalRo s expr, evalRo s' expr
      · rename_i v v'
        have h2 := EvEq.toAmount h1
        orel_cases h2, v.toAmount, v'.toAmount
        · exact convertAmount_env he hok h2 c date
        all_goals orel_done h2
      all_goals orel_done h1

/-! ## `okane balance -X`, end to end -/
section Cmd

/-- the options of `okane balance`: `-X`, `--historical`, `--now`, `--start`, `--end`. -/
structure BalOpts where
  exchange : Option String := none
  historical : Bool := false
  now : Date
  range : DateRange := {}

/-- what `okane balance` does after book-keeping: build the price repository from the logged events and the price-db
events, resolve `-X`, query, print. -/
def balanceXLines (cfg : Cfg String) (leA leK : String → String → Bool) (showAcct : String → String)
    (showEntry : String → Rat → String) (db : List (PriceEvent String)) (o : BalOpts) (st : ProcState) :
    Outcome (QueryErr String) (List String) :=
  match buildFrom st.events db with
  | .ok b =>
    match toConversion st.ctx.commodities o.exchange o.historical o.now with
    | .ok conv =>
      match Query.balance st.ctx.prec ⟨cfg, build b, leK, leA⟩ st.txns st.bal ⟨conv, o.range⟩ with
      | .ok bal => .ok (balanceReport leA leK showAcct showEntry bal)
      | .err e => .err e
      | .panic s => .panic s
      | .fuelOut => .fuelOut
    | .err e => .err e
    | .panic s => .panic s
    | .fuelOut => .fuelOut
  | .err _ => .panic "unreachable"
  | .panic s => .panic s
  | .fuelOut => .fuelOut

theorem toConversion_meq {s s' : Store} (h : StoreEq s s') (exchange : Option String) (historical : Bool) (now : Date) :
    toConversion s exchange historical now = toConversion s' exchange historical now := by
  unfold toConversion
  cases exchange with
  | none => rfl
  | some ex => simp only [h.resolve ex]

/-- **the lines (or the error) of `okane balance -X …` are the same for related ledgers.** -/
theorem balanceXLines_meq {cfg : Cfg String} (hord : OrdOK cfg.ord) {leA leK : String → String → Bool}
    (hoA : KeyOrder leA) (hoK : KeyOrder leK) (showAcct : String → String) (showEntry : String → Rat → String)
    (db : List (PriceEvent String)) (o : BalOpts) {st st' : ProcState} (h : st ≈ₚ st') :
    balanceXLines cfg leA leK showAcct showEntry db o st = balanceXLines cfg leA leK showAcct showEntry db o st' := by
  have h1 := buildFrom_meq h.events (LRel.refl PEvEq.refl db)
  unfold balanceXLines
  rw [toConversion_meq h.ctx.commodities, h.ctx.prec]
  orel_cases' h1, buildFrom st.events db, buildFrom st'.events db
  · rename_i b b'
    simp only []
    cases toConversion st'.ctx.commodities o.exchange o.historical o.now with
    | ok conv =>
      simp only []
      have he : EnvEq (⟨cfg, build b, leK, leA⟩ : Env String String) ⟨cfg, build b', leK, leA⟩ :=
        ⟨rfl, rfl, rfl, build_meq h1⟩
      have h2 := balance_meq st'.ctx.prec he ⟨hord, hoK, hoA⟩ h.txns h.bal ⟨conv, o.range⟩
      orel_cases h2, Query.balance st'.ctx.prec ⟨cfg, build b, leK, leA⟩ st.txns st.bal ⟨conv, o.range⟩,
        Query.balance st'.ctx.prec ⟨cfg, build b', leK, leA⟩ st'.txns st'.bal ⟨conv, o.range⟩
      · simp only [balanceReport_meq hoA hoK showAcct showEntry h2]
      all_goals first | exact h2.elim | (subst h2; rfl) | rfl | trivial
    | err e => rfl
    | panic s => rfl
    | fuelOut => rfl
  all_goals first | exact h1.elim | (subst h1; rfl) | rfl | trivial

/-- errors of the whole command: book-keeping (entry index and message) or the query. -/
inductive CmdErr where
  | book (entry : Nat) (text : String)
  | query (e : QueryErr String)

/-- what `okane balance` (every option) writes, given how book-keeping ended. -/
def balanceXOut (cfg : Cfg String) (leA leK : String → String → Bool) (showAcct : String → String)
    (showEntry : String → Rat → String) (db : List (PriceEvent String)) (o : BalOpts) :
    Outcome (Nat × BkErrS) ProcState → Outcome CmdErr (List String)
  | .ok st => (balanceXLines cfg leA leK showAcct showEntry db o st).mapErr CmdErr.query
  | .err (i, e) => .err (.book i (bkErrText leK showEntry e))
  | .panic s => .panic s
  | .fuelOut => .fuelOut

theorem balanceXOut_eq {cfg : Cfg String} (hord : OrdOK cfg.ord) {leA leK : String → String → Bool}
    (hoA : KeyOrder leA) (hoK : KeyOrder leK) (showAcct : String → String) (showEntry : String → Rat → String)
    (db : List (PriceEvent String)) (o : BalOpts) {x y : Outcome (Nat × BkErrS) ProcState}
    (h : ORel PErrEq ProcEq x y) :
    balanceXOut cfg leA leK showAcct showEntry db o x = balanceXOut cfg leA leK showAcct showEntry db o y := by
  cases x <;> cases y <;> simp only [ORel] at h <;> try exact h.elim
  · simp only [balanceXOut, balanceXLines_meq hord hoA hoK showAcct showEntry db o h]
  · rename_i a b
    obtain ⟨i, e⟩ := a
    obtain ⟨i', e'⟩ := b
    obtain ⟨e1, e2⟩ := h
    simp only at e1 e2; subst e1
    simp only [balanceXOut, e2.text hoK showEntry]
  · simp only [balanceXOut, h]
  · rfl

/-- `okane balance` with every option, as a function of the layout history `π`, the entries, the price-db events
and the options. -/
def balanceXCmd (cfg : Cfg String) (leA leK : String → String → Bool) (showAcct : String → String)
    (showEntry : String → Rat → String) (π : Nat → ProcState → ProcState)
    (x : List Entry × List (PriceEvent String) × BalOpts) : Outcome CmdErr (List String) :=
  balanceXOut cfg leA leK showAcct showEntry x.2.1 x.2.2 (processScr π {} 0 x.1)

theorem balanceXCmd_det {cfg : Cfg String} (hord : OrdOK cfg.ord) {leA leK : String → String → Bool}
    (hoA : KeyOrder leA) (hoK : KeyOrder leK) (showAcct : String → String) (showEntry : String → Rat → String)
    {π₁ π₂ : Nat → ProcState → ProcState} (h1 : Relayout π₁) (h2 : Relayout π₂)
    (x : List Entry × List (PriceEvent String) × BalOpts) :
    balanceXCmd cfg leA leK showAcct showEntry π₁ x = balanceXCmd cfg leA leK showAcct showEntry π₂ x :=
  balanceXOut_eq hord hoA hoK showAcct showEntry x.2.1 x.2.2 (processScr_meq h1 h2 x.1 ProcEq.init 0)

/-- `okane eval EXPR` after book-keeping: the printed amount. -/
def evalLine (cfg : Cfg String) (leA leK : String → String → Bool) (showEntry : String → Rat → String)
    (db : List (PriceEvent String)) (expr : VExpr) (date : Date) (exchange : Option String) (st : ProcState) :
    Outcome (QueryErr String) String :=
  match buildFrom st.events db with
  | .ok b =>
    match Query.eval ⟨cfg, build b, leK, leA⟩ st.ctx.commodities expr date exchange with
    | .ok a => .ok (Okane.Amount.inlineDisplay leK showEntry a)
    | .err e => .err e
    | .panic s => .panic s
    | .fuelOut => .fuelOut
  | .err _ => .panic "unreachable"
  | .panic s => .panic s
  | .fuelOut => .fuelOut

theorem evalLine_meq {cfg : Cfg String} (hord : OrdOK cfg.ord) {leA leK : String → String → Bool}
    (hoA : KeyOrder leA) (hoK : KeyOrder leK) (showEntry : String → Rat → String)
    (db : List (PriceEvent String)) (expr : VExpr) (date : Date) (exchange : Option String) {st st' : ProcState}
    (h : st ≈ₚ st') :
    evalLine cfg leA leK showEntry db expr date exchange st = evalLine cfg leA leK showEntry db expr date exchange st' := by
  have h1 := buildFrom_meq h.events (LRel.refl PEvEq.refl db)
  unfold evalLine
  orel_cases' h1, buildFrom st.events db, buildFrom st'.events db
  · rename_i b b'
    have he : EnvEq (⟨cfg, build b, leK, leA⟩ : Env String String) ⟨cfg, build b', leK, leA⟩ :=
      ⟨rfl, rfl, rfl, build_meq h1⟩
    have h2 := eval_meq he ⟨hord, hoK, hoA⟩ h.ctx.commodities expr date exchange
    simp only []
    orel_cases h2, Query.eval ⟨cfg, build b, leK, leA⟩ st.ctx.commodities expr date exchange,
      Query.eval ⟨cfg, build b', leK, leA⟩ st'.ctx.commodities expr date exchange
    · simp only [inlineDisplay_meq hoK showEntry h2]
    all_goals first | exact h2.elim | (subst h2; rfl) | rfl | trivial
  all_goals first | exact h1.elim | (subst h1; rfl) | rfl | trivial

/-- the inputs of `okane primitive eval`: entries, price-db events, expression, `--date`, `-X`. -/
structure EvalIn where
  entries : List Entry
  db : List (PriceEvent String)
  expr : VExpr
  date : Date
  exchange : Option String

/-- what `okane eval` writes, given how book-keeping ended. -/
def evalOut (cfg : Cfg String) (leA leK : String → String → Bool) (showEntry : String → Rat → String)
    (db : List (PriceEvent String)) (expr : VExpr) (date : Date) (exchange : Option String) :
    Outcome (Nat × BkErrS) ProcState → Outcome CmdErr String
  | .ok st => (evalLine cfg leA leK showEntry db expr date exchange st).mapErr CmdErr.query
  | .err (i, e) => .err (.book i (bkErrText leK showEntry e))
  | .panic s => .panic s
  | .fuelOut => .fuelOut

theorem evalOut_eq {cfg : Cfg String} (hord : OrdOK cfg.ord) {leA leK : String → String → Bool}
    (hoA : KeyOrder leA) (hoK : KeyOrder leK) (showEntry : String → Rat → String)
    (db : List (PriceEvent String)) (expr : VExpr) (date : Date) (exchange : Option String)
    {x y : Outcome (Nat × BkErrS) ProcState} (h : ORel PErrEq ProcEq x y) :
    evalOut cfg leA leK showEntry db expr date exchange x = evalOut cfg leA leK showEntry db expr date exchange y := by
  cases x <;> cases y <;> simp only [ORel] at h <;> try exact h.elim
  · simp only [evalOut, evalLine_meq hord hoA hoK showEntry db expr date exchange h]
  · rename_i a b
    obtain ⟨i, e⟩ := a
    obtain ⟨i', e'⟩ := b
    obtain ⟨e1, e2⟩ := h
    simp only at e1 e2; subst e1
    simp only [evalOut, e2.text hoK showEntry]
  · simp only [evalOut, h]
  · rfl

/-- `okane eval` as a function of the layout history and the inputs. -/
def evalCmd (cfg : Cfg String) (leA leK : String → String → Bool) (showEntry : String → Rat → String)
    (π : Nat → ProcState → ProcState) (x : EvalIn) : Outcome CmdErr String :=
  evalOut cfg leA leK showEntry x.db x.expr x.date x.exchange (processScr π {} 0 x.entries)

theorem evalCmd_det {cfg : Cfg String} (hord : OrdOK cfg.ord) {leA leK : String → String → Bool}
    (hoA : KeyOrder leA) (hoK : KeyOrder leK) (showEntry : String → Rat → String)
    {π₁ π₂ : Nat → ProcState → ProcState} (h1 : Relayout π₁) (h2 : Relayout π₂) (x : EvalIn) :
    evalCmd cfg leA leK showEntry π₁ x = evalCmd cfg leA leK showEntry π₂ x :=
  evalOut_eq hord hoA hoK showEntry x.db x.expr x.date x.exchange (processScr_meq h1 h2 x.entries ProcEq.init 0)

end Cmd

end Okane.C13
