import Okane.Lemmas.ImportReadback
/-!
# Read-back of printed transactions whose numbers the scanner does not return unchanged (signed zeros)

The C05 round trip (`posting_rt`, `transaction_rt`, `entryRT_txn`) is stated for trees that are read back *as themselves*
(`ExprRT`: the value-expression parser returns the printed expression).  A zero that carries the sign flag is printed
`-0.00` and read back as `0.00`, so a transaction holding one is outside `wfEntry`.  This file redoes the chain
posting amount → cost → balance → posting → posting loop → transaction → entry → ledger for a *relational* hypothesis
`ExprRd P rd` ("the printed `v` is read as `rd v`"), for postings without lot (what the importer builds), re-using the
number-free parts of the C05 development (account, clear mark, metadata block, header line, lot loop on an empty lot).

`exprRd_amt` discharges the hypothesis for plain amounts with `rd = mapV readNum` from `C07_print_exact`, which holds for
every decimal in range, signed zeros included.
-/
set_option linter.unusedSimpArgs false
set_option linter.unusedSectionVars false
namespace Okane.Import
open Okane Okane.Comb Okane.Parse Okane.Unparse

/-! ## the hypothesis on value expressions, relational form -/

/-- the value-expression parser reads the printed `v` (satisfying `P`) as `rd v`, up to the blanks that follow -/
def ExprRd (P : VExpr → Prop) (rd : VExpr → VExpr) : Prop :=
  ∀ (v : VExpr) (rest : List Char), P v → exprFollow rest = true →
    ∃ r', valueExpr (printVExpr v ++ rest) = .ok (rd v) r' ∧ r'.dropWhile isSpace = rest.dropWhile isSpace

/-! ## plain amounts -/

/-- `primitive::pretty_decimal` on a printed number, whatever the scanner makes of it -/
theorem prettyDecimal_read {d d' : PDec} (h : Literal.scan (Literal.printPDec d) = .ok d') {X : List Char}
    (hX : ExprParse.stops Literal.isNumChar X = true) :
    ExprSyntax.prettyDecimal (Literal.printPDec d ++ X) = .ok d' X := by
  simp [ExprSyntax.prettyDecimal, ExprParse.tokenSplit_shape (ExprParse.scan_ok_shape h) hX, h]

/-- `expr::amount` on a printed amount -/
theorem amount_read {d d' : PDec} {c : String} (hd : Literal.scan (Literal.printPDec d) = .ok d')
    (hc : isCommodityText c.toList = true) {rest : List Char} (hf : ExprParse.tokFollow c.isEmpty rest = true) :
    ExprSyntax.amount (ExprParse.amtText d c ++ rest) = .ok (.amt d' c) (ExprParse.after c.isEmpty rest) := by
  by_cases he : c.isEmpty = true
  · have hnil : c.toList = [] := by simpa using he
    have hcs : String.ofList [] = c := by rw [← hnil, String.ofList_toList]
    simp only [ExprParse.tokFollow, he, if_true, Bool.and_eq_true] at hf
    have hpd := prettyDecimal_read hd hf.1
    simp [ExprParse.amtText, he, ExprSyntax.amount, hpd, ExprSyntax.commodity, ExprParse.takeWhile_stops hf.2,
      ExprParse.dropWhile_stops hf.2, hcs, ExprParse.after]
  · simp only [ExprParse.tokFollow, he, Bool.false_eq_true, if_false] at hf
    have hpd := prettyDecimal_read hd (X := ' ' :: (c.toList ++ rest)) (by simp [Literal.isNumChar])
    simp only [isCommodityText, List.all_eq_true] at hc
    have hsk : ExprSyntax.skipSpaces (' ' :: (c.toList ++ rest)) = c.toList ++ rest := by
      rw [ExprParse.skipSpaces_cons_space]
      cases hl : c.toList with
      | nil => exact absurd (by simpa using hl) he
      | cons a t =>
        have := ExprParse.commodityChar_not_space (hc a (by simp [hl]))
        simp [ExprSyntax.skipSpaces, List.dropWhile, this]
    simp [ExprParse.amtText, he, ExprSyntax.amount, hpd, hsk, ExprSyntax.commodity,
      ExprParse.takeWhile_append_stops hc hf, ExprParse.dropWhile_append_stops hc hf, ExprParse.after]

/-- a plain amount whose number is in rust_decimal's range and carries no format tag, with a lexable commodity -/
def PAmt (v : VExpr) : Prop :=
  ∃ d c, v = .amt d c ∧ d.fmt = none ∧ d.mant < 2 ^ 96 ∧ d.scale ≤ 28 ∧ isCommodityText c.toList = true

/-- every number replaced by what the scanner returns for its printed form -/
def readV : VExpr → VExpr := mapV (fun d _ => readNum d)

/-- **plain amounts are read as `readV`**, signed zeros included -/
theorem exprRd_amt : ExprRd PAmt readV := by
  intro v rest hP hf
  obtain ⟨d, c, rfl, hfmt, hm, hs, hc⟩ := hP
  have hscan : Literal.scan (Literal.printPDec d) = .ok (readNum d) := C07.C07_print_exact d hm hs
  have hf' := ExprParse.follow_of_exprFollow (.amt d c) (exprFollow_imp hf)
  simp only [ExprParse.follow, ExprParse.bareV] at hf'
  have ha := amount_read hscan hc hf'
  have htext : printVExpr (.amt d c) = ExprParse.amtText d c := by
    show ExprSyntax.printVExpr noPrec (.amt d c) = _
    rw [ExprParse.printVExpr_amt, ExprParse.displayRescale_noPrec]
  -- the head of the text is `-` or a number character, not `(`
  obtain ⟨a, cs, he, hcl⟩ : ∃ a cs, ExprParse.amtText d c = a :: cs ∧ (a = '-' ∨ Literal.isNumChar a = true) := by
    have hsh := ExprParse.scan_ok_shape hscan
    have hhead : ∃ a cs, Literal.printPDec d = a :: cs ∧ (a = '-' ∨ Literal.isNumChar a = true) := by
      rcases hsh with ⟨body, he, _, _⟩ | ⟨hne, hall⟩
      · exact ⟨'-', body, he, Or.inl rfl⟩
      · cases hp : Literal.printPDec d with
        | nil => exact absurd hp hne
        | cons a cs => exact ⟨a, cs, rfl, Or.inr (hall a (by simp [hp]))⟩
    obtain ⟨a, cs, he, ha⟩ := hhead
    unfold ExprParse.amtText
    split
    · exact ⟨a, cs, he, ha⟩
    · exact ⟨a, cs ++ ' ' :: c.toList, by simp [he], ha⟩
  refine ⟨ExprParse.after c.isEmpty rest, ?_, ?_⟩
  · show ofPRes (ExprSyntax.parseValueExpr (printVExpr (.amt d c) ++ rest)) = _
    rw [htext]
    rw [he, List.cons_append] at ha ⊢
    simp only [ExprSyntax.parseValueExpr, ExprSyntax.parseFuel]
    rw [show 5 * (a :: (cs ++ rest)).length + 10 = (5 * (a :: (cs ++ rest)).length + 9) + 1 from rfl,
      ExprParse.valueExpr_amount _ _ (ExprParse.head_class hcl).2, ha]
    rfl
  · have := ExprParse.skipSpaces_after c.isEmpty rest
    simpa [ExprSyntax.skipSpaces, isSpace_eq] using this

/-! ## posting amount, cost, balance (postings without lot) -/

section
variable {P : VExpr → Prop} {rd : VExpr → VExpr}

/-- a printed expression begins with `(`, `-`, a digit, `,` or `.` -/
theorem printVExpr_head_rd (hE : ExprRd P rd) (v : VExpr) (hP : P v) :
    ∃ c t, printVExpr v = c :: t ∧ exprHeadOk c = true := by
  obtain ⟨r', h, _⟩ := hE v [] hP (by simp [exprFollow])
  simp only [List.append_nil] at h
  cases hp : printVExpr v with
  | nil => rw [hp, valueExpr_nil] at h; cases h
  | cons c t =>
    refine ⟨c, t, rfl, ?_⟩
    cases hc : exprHeadOk c with
    | true => rfl
    | false => rw [hp, valueExpr_bt_of_head c t hc] at h; cases h

theorem exprSpace_rd (hE : ExprRd P rd) (v : VExpr) (hP : P v) (rest : List Char) (hr : exprFollow rest = true) :
    terminated valueExpr space0 (printVExpr v ++ rest) = .ok (rd v) (rest.dropWhile isSpace) := by
  obtain ⟨r', h1, h2⟩ := hE v rest hP hr
  simp [h1, space0_eq, h2]

theorem stop_space_printVExpr_rd (hE : ExprRd P rd) (v : VExpr) (hP : P v) (X : List Char) :
    Stop isSpace (printVExpr v ++ X) := by
  obtain ⟨c, t, hc, hh⟩ := printVExpr_head_rd hE v hP
  rw [hc]
  simpa using exprHeadOk_not_space hh

def rdExchange (rd : VExpr → VExpr) : Exchange → Exchange
  | .total v => .total (rd v)
  | .rate v => .rate (rd v)

/-- `P` on the expression of a cost -/
def PCost (P : VExpr → Prop) : Option Exchange → Prop
  | some (.total e) => P e
  | some (.rate e) => P e
  | none => True

theorem cost_rd (hE : ExprRd P rd) (c : Option Exchange) (hc : PCost P c) (Y : List Char) (hY : amtFollow Y = true) :
    ∃ r', costParser ((printCost c ++ Y).dropWhile isSpace) = .ok (c.map (rdExchange rd)) r' ∧
      r'.dropWhile isSpace = Y.dropWhile isSpace := by
  cases c with
  | none =>
    refine ⟨Y.dropWhile isSpace, ?_, dropWhile_idem _ _⟩
    simp only [printCost, List.nil_append, Option.map_none]
    unfold amtFollow at hY
    cases hd : Y.dropWhile isSpace with
    | nil => simp [costParser, hasPeek, literal, Comb.cond]
    | cons d t =>
      rw [hd] at hY
      simp only [Bool.or_eq_true, beq_iff_eq] at hY
      have hne : d ≠ '@' := by rcases hY with rfl | rfl <;> decide
      have hne' : ¬ ('@' = d) := fun e => hne e.symm
      simp [costParser, hasPeek, literal, Comb.cond, char_cons_ne hne, hne']
  | some x =>
    cases x with
    | rate e =>
      obtain ⟨r', h1, h2⟩ := hE e Y hc (amtFollow_exprFollow hY)
      refine ⟨r', ?_, h2⟩
      have hdw : (printCost (some (.rate e)) ++ Y).dropWhile isSpace = '@' :: ' ' :: (printVExpr e ++ Y) := by
        simp [printCost, List.dropWhile, isSpace]
      have hsp : (' ' :: (printVExpr e ++ Y)).dropWhile isSpace = printVExpr e ++ Y := by
        have := dropWhile_of_stop (stop_space_printVExpr_rd hE e hc Y)
        simpa [List.dropWhile, isSpace] using this
      rw [hdw]
      simp [costParser, hasPeek, literal, Comb.cond, condElse, rateCost, space0_eq, hsp, h1, rdExchange]
    | total e =>
      obtain ⟨r', h1, h2⟩ := hE e Y hc (amtFollow_exprFollow hY)
      refine ⟨r', ?_, h2⟩
      have hdw : (printCost (some (.total e)) ++ Y).dropWhile isSpace = '@' :: '@' :: ' ' :: (printVExpr e ++ Y) := by
        simp [printCost, List.dropWhile, isSpace]
      have hsp : (' ' :: (printVExpr e ++ Y)).dropWhile isSpace = printVExpr e ++ Y := by
        have := dropWhile_of_stop (stop_space_printVExpr_rd hE e hc Y)
        simpa [List.dropWhile, isSpace] using this
      rw [hdw]
      simp [costParser, hasPeek, literal, Comb.cond, condElse, totalCost, space0_eq, hsp, h1, rdExchange]

/-- the posting amount as read: amount and cost through `rd`, the (empty) lot kept -/
def rdPostingAmount (rd : VExpr → VExpr) (a : PostingAmount) : PostingAmount :=
  { amount := rd a.amount, cost := a.cost.map (rdExchange rd), lot := a.lot }

/-- a posting amount without lot whose expressions satisfy `P` -/
def PPostingAmount (P : VExpr → Prop) (a : PostingAmount) : Prop :=
  a.lot = {} ∧ P a.amount ∧ PCost P a.cost

/-- `terminated(posting_amount, space0)` on a printed amount without lot -/
theorem postingAmount_rd (hE : ExprRd P rd) (a : PostingAmount) (ha : PPostingAmount P a) (Y : List Char)
    (hY : amtFollow Y = true) :
    terminated postingAmount space0 (printVExpr a.amount ++ (printLot a.lot ++ (printCost a.cost ++ Y))) =
      .ok (rdPostingAmount rd a) (Y.dropWhile isSpace) := by
  obtain ⟨hl, hPa, hPc⟩ := ha
  have h1 := exprSpace_rd hE a.amount hPa _ (exprFollow_after_amount a.lot a.cost Y hY)
  have h2 := lot_rt exprRT_plain a.lot (by rw [hl]; exact ⟨rfl, trivial⟩)
    ((printLot a.lot ++ (printCost a.cost ++ Y)).dropWhile isSpace)
    (printCost a.cost ++ Y) (dropWhile_idem _ _) (lotStop_cost a.cost Y hY)
  obtain ⟨r', h3, h4⟩ := cost_rd hE a.cost hPc Y hY
  change (postingAmount _).andThen (fun a r => (space0 r).map fun _ => a) = _
  rw [postingAmount_eq]
  simp only [bind_apply, h1, Res.andThen_ok, h2, h3, pure_apply, Res.map_ok, space0_eq, h4, rdPostingAmount]

theorem balance_rd (hE : ExprRd P rd) (b : VExpr) (hP : P b) (M : List Char) :
    balanceParser ('=' :: ' ' :: (printVExpr b ++ '\n' :: M)) = .ok (some (rd b)) ('\n' :: M) := by
  obtain ⟨r', h1, h2⟩ := hE b ('\n' :: M) hP (by simp [exprFollow, List.dropWhile, isSpace])
  have h2' : r'.dropWhile isSpace = '\n' :: M := by simpa [List.dropWhile, isSpace] using h2
  have hsp : (' ' :: (printVExpr b ++ '\n' :: M)).dropWhile isSpace = printVExpr b ++ '\n' :: M := by
    have := dropWhile_of_stop (stop_space_printVExpr_rd hE b hP ('\n' :: M))
    simpa [List.dropWhile, isSpace] using this
  simp [balanceParser, opt, space0_eq, hsp, h1, h2']

/-! ## the posting -/

/-- the rest of the posting line and its metadata lines, after the account and the blanks that follow it -/
theorem postingTail_rd (hE : ExprRd P rd) (cs : ClearState) (account : String) (amount : Option PostingAmount)
    (balance : Option VExpr) (ms : List Metadata) (k j : Nat) (rest : List Char)
    (ha : ∀ a, amount = some a → PPostingAmount P a)
    (hb : ∀ b, balance = some b → P b)
    (hms : ∀ m ∈ ms, wfMetadata m = true) (hrest : metaStop rest = true) :
    postingTail cs account ((tailGen amount balance k j ++ '\n' :: (ms.flatMap printMetaLine ++ rest)).dropWhile isSpace) =
      .ok { account := account, clear := cs, amount := amount.map (rdPostingAmount rd), balance := balance.map rd,
            metadata := ms } rest := by
  have hmd := blockMetadata_rt ms hms rest hrest
  cases amount with
  | none =>
    cases balance with
    | none =>
      have hpk : hasPeek lineEndingOrSemi ('\n' :: (ms.flatMap printMetaLine ++ rest)) =
          .ok true ('\n' :: (ms.flatMap printMetaLine ++ rest)) :=
        hasPeek_ok (a := ()) (r := ms.flatMap printMetaLine ++ rest) (by simp [lineEndingOrSemi, alt2])
      simp only [tailGen, balancePart_none, List.nil_append,
        List.dropWhile_cons_of_neg (show ¬ isSpace '\n' = true by decide)]
      simp only [postingTail, bind_apply, hpk, Res.andThen_ok, if_true, hmd, pure_apply, Option.map_none]
    | some b =>
      have hPb := hb b rfl
      have hdw := dropWhile_balance b j (ms.flatMap printMetaLine ++ rest)
      simp only [tailGen, List.nil_append] at hdw ⊢
      rw [hdw]
      have hpk : hasPeek lineEndingOrSemi ('=' :: ' ' :: (printVExpr b ++ '\n' :: (ms.flatMap printMetaLine ++ rest))) =
          .ok false ('=' :: ' ' :: (printVExpr b ++ '\n' :: (ms.flatMap printMetaLine ++ rest))) :=
        hasPeek_bt (lineEndingOrSemi_bt _ _ (by decide) (by decide) (by decide))
      have hamt : opt (terminated postingAmount space0)
          ('=' :: ' ' :: (printVExpr b ++ '\n' :: (ms.flatMap printMetaLine ++ rest))) =
          .ok none ('=' :: ' ' :: (printVExpr b ++ '\n' :: (ms.flatMap printMetaLine ++ rest))) := by
        apply opt_bt (q := '=' :: ' ' :: (printVExpr b ++ '\n' :: (ms.flatMap printMetaLine ++ rest)))
        rw [postingAmount_eq]
        simp [valueExpr_bt_of_head '=' _ (by decide)]
      have hbal := balance_rd hE b hPb (ms.flatMap printMetaLine ++ rest)
      simp only [postingTail, bind_apply, hpk, Res.andThen_ok, Bool.false_eq_true, if_false, hamt, hbal, hmd,
        pure_apply, Option.map_none, Option.map_some]
  | some a =>
    have hwa := ha a rfl
    obtain ⟨c, t, hc, hh⟩ := printVExpr_head_rd hE a.amount hwa.2.1
    have hY := amtFollow_balance balance j (ms.flatMap printMetaLine ++ rest)
    have hamt := postingAmount_rd hE a hwa _ hY
    have hdw : (tailGen (some a) balance k j ++ '\n' :: (ms.flatMap printMetaLine ++ rest)).dropWhile isSpace =
        printVExpr a.amount ++ (printLot a.lot ++ (printCost a.cost ++
          (balancePart balance j ++ '\n' :: (ms.flatMap printMetaLine ++ rest)))) := by
      simp only [tailGen, List.append_assoc, dropWhile_spaces_append]
      apply dropWhile_of_stop
      rw [hc]
      simpa using exprHeadOk_not_space hh
    rw [hdw]
    have hpk : hasPeek lineEndingOrSemi (printVExpr a.amount ++ (printLot a.lot ++ (printCost a.cost ++
          (balancePart balance j ++ '\n' :: (ms.flatMap printMetaLine ++ rest))))) = .ok false
        (printVExpr a.amount ++ (printLot a.lot ++ (printCost a.cost ++
          (balancePart balance j ++ '\n' :: (ms.flatMap printMetaLine ++ rest))))) := by
      rw [hc]
      apply hasPeek_bt
      exact lineEndingOrSemi_bt c _ (exprHeadOk_ne hh (by decide)) (exprHeadOk_ne hh (by decide))
        (exprHeadOk_ne hh (by decide))
    have hamt' := opt_ok hamt
    simp only [postingTail, bind_apply, hpk, Res.andThen_ok, Bool.false_eq_true, if_false, hamt']
    cases balance with
    | none =>
      simp only [balancePart_none, List.nil_append, List.dropWhile_cons_of_neg (show ¬ isSpace '\n' = true by decide),
        balance_none, bind_apply, Res.andThen_ok, hmd, pure_apply, Option.map_none, Option.map_some]
    | some b =>
      have hPb := hb b rfl
      rw [dropWhile_balance b j]
      simp only [balance_rd hE b hPb, bind_apply, Res.andThen_ok, hmd, pure_apply, Option.map_some]

/-- the posting as read -/
def rdPosting (rd : VExpr → VExpr) (p : Posting) : Posting :=
  { account := p.account, clear := p.clear, amount := p.amount.map (rdPostingAmount rd), balance := p.balance.map rd,
    metadata := p.metadata }

/-- the conditions of `wfPosting` that do not concern numbers, a posting amount without lot, `P` on the expressions -/
structure PPosting (P : VExpr → Prop) (p : Posting) : Prop where
  acc : wfAccount p.account.toList = true
  mark : (p.clear != .uncleared || notClearMarkStart p.account.toList) = true
  mds : ∀ m ∈ p.metadata, wfMetadata m = true
  amt : ∀ a, p.amount = some a → PPostingAmount P a
  bal : ∀ b, p.balance = some b → P b

theorem printPostingBody_head' (w : List Char → Nat) (p : Posting) (hacc : wfAccount p.account.toList = true) :
    ∃ c t, printPostingBody w p = c :: t ∧ isSpace c = false ∧ c ≠ '\n' ∧ c ≠ '\r' ∧ c ≠ ';' := by
  have hsh := wfAccount_shape hacc
  cases hcl : p.clear with
  | uncleared =>
    cases ha : p.account.toList with
    | nil => exact absurd ha hsh.ne
    | cons c t =>
      have h1 := hsh.chars c (by simp [ha])
      have h2 := hsh.head c t ha
      refine ⟨c, _, by simp [printPostingBody, hcl, printClear, ha]; rfl, ?_, h1.1, h1.2.1, h1.2.2.1⟩
      simp [isSpace, h2, h1.2.2.2]
  | cleared => exact ⟨'*', _, by simp [printPostingBody, hcl, printClear]; rfl, by decide, by decide, by decide, by decide⟩
  | pending => exact ⟨'!', _, by simp [printPostingBody, hcl, printClear]; rfl, by decide, by decide, by decide, by decide⟩

/-- `posting` on a printed posting line (after any blanks) with its metadata lines -/
theorem postingBody_rd (hE : ExprRd P rd) (w : List Char → Nat) (p : Posting) (hp : PPosting P p)
    (sp : List Char) (hsp : ∀ c ∈ sp, isSpace c = true) (rest : List Char) (hrest : metaStop rest = true) :
    posting (sp ++ (printPostingBody w p ++ rest)) = .ok (rdPosting rd p) rest := by
  obtain ⟨c0, t0, hhead, hc0, _⟩ := printPostingBody_head' w p hp.acc
  have hacc := hp.acc
  have hmark := hp.mark
  obtain ⟨w0, ws, hwords, hw0, hws, hst⟩ := wfAccount_words hacc
  have hsp0 : space0 (sp ++ (printPostingBody w p ++ rest)) = .ok sp (printPostingBody w p ++ rest) :=
    space0_append hsp (by rw [hhead]; simpa using hc0)
  obtain ⟨a0, at0, ha0⟩ : ∃ c t, p.account.toList = c :: t := by
    cases h : p.account.toList with
    | nil => exact absurd h (wfAccount_shape hacc).ne
    | cons c t => exact ⟨c, t, rfl⟩
  have ha0s : isSpace a0 = false := by
    have h1 := (wfAccount_shape hacc).chars a0 (by simp [ha0])
    have h2 := (wfAccount_shape hacc).head a0 at0 ha0
    simp [isSpace, h2, h1.2.2.2]
  obtain ⟨k, j, hk, hj, htail⟩ := printPostingTail_eq w (w p.account.toList + (printClear p.clear).length) p
  have hclear := clearState_rt p.clear (p.account.toList ++ (tailGen p.amount p.balance k j ++
      '\n' :: (p.metadata.flatMap printMetaLine ++ rest)))
    (by rw [ha0]; simpa using ha0s)
    (by
      intro hu
      rw [hu] at hmark
      simp only [bne_self_eq_false, Bool.false_or] at hmark
      rw [ha0] at hmark ⊢
      simpa [notClearMarkStart, isClearMark] using hmark)
  have hfollow := tailGen_follow p.amount p.balance k j hk hj (p.metadata.flatMap printMetaLine ++ rest)
  have hacct := postingAccount_rt w0 ws _ hw0 hws hst hfollow
  rw [← List.append_assoc, ← hwords] at hacct
  have htl := postingTail_rd hE p.clear (String.ofList p.account.toList) p.amount p.balance p.metadata k j rest
    hp.amt hp.bal hp.mds hrest
  have hbody : printPostingBody w p ++ rest = printClear p.clear ++ (p.account.toList ++
      (tailGen p.amount p.balance k j ++ '\n' :: (p.metadata.flatMap printMetaLine ++ rest))) := by
    simp only [printPostingBody, htail, List.append_assoc, List.cons_append]
  rw [posting_eq]
  simp only [bind_apply, preceded_apply, hsp0, Res.andThen_ok]
  rw [hbody]
  simp only [hclear, Res.andThen_ok, bind_apply, hacct, htl]
  simp [rdPosting]

theorem posting_rd (hE : ExprRd P rd) (w : List Char → Nat) (p : Posting) (hp : PPosting P p)
    (rest : List Char) (hrest : metaStop rest = true) :
    posting (printPosting w p ++ rest) = .ok (rdPosting rd p) rest := by
  rw [printPosting_eq, List.append_assoc]
  exact postingBody_rd hE w p hp indent4 (by simp [indent4, isSpace]) rest hrest

/-! ## the posting loop -/

theorem postItem_rd (hE : ExprRd P rd) (w : List Char → Nat) (p : Posting) (hp : PPosting P p)
    (X : List Char) (hX : metaStop X = true) :
    postItem (printPosting w p ++ X) = .ok (rdPosting rd p) X := by
  obtain ⟨c, t, hhead, hc, h1, h2, _⟩ := printPostingBody_head' w p hp.acc
  have hsp : takeWhile1 isSpace (indent4 ++ (printPostingBody w p ++ X)) = .ok indent4 (printPostingBody w p ++ X) :=
    takeWhile1_append (by simp [indent4]) (by simp [indent4, isSpace]) (by rw [hhead]; simpa using hc)
  have hnot : Comb.not lineEndingOrEof (printPostingBody w p ++ X) = .ok () (printPostingBody w p ++ X) := by
    rw [hhead]
    exact not_bt (lineEndingOrEof_bt c _ h1 h2)
  have hpost := postingBody_rd hE w p hp [] (by simp) X hX
  simp only [List.nil_append] at hpost
  rw [printPosting_eq, List.append_assoc]
  simp only [postItem, preceded_apply, pair_apply, hsp, Res.andThen_ok, hnot, Res.map_ok, cutErr_ok hpost]

theorem metaStop_printPosting' (w : List Char → Nat) (p : Posting) (hacc : wfAccount p.account.toList = true)
    (X : List Char) : metaStop (printPosting w p ++ X) = true := by
  obtain ⟨c, t, hhead, hc, _, _, h3⟩ := printPostingBody_head' w p hacc
  have hdw : (printPosting w p ++ X).dropWhile isSpace = c :: (t ++ X) := by
    rw [printPosting_eq, hhead]
    simp only [indent4, List.cons_append, List.nil_append]
    repeat rw [List.dropWhile_cons_of_pos (by decide)]
    rw [List.dropWhile_cons_of_neg (by simp [hc])]
  have hcons : printPosting w p ++ X = ' ' :: (' ' :: ' ' :: ' ' :: (printPostingBody w p ++ X)) := by
    rw [printPosting_eq]; simp [indent4]
  unfold metaStop
  rw [hdw, hcons]
  simp [h3]

omit P rd in
/-- `repeat0Loop` over the printed forms of a list of items that are read as their images under `g` -/
theorem repeat0Loop_list' {α β : Type} {p : Parser α} {pr : β → List Char} {g : β → α} (F : List Char → Prop)
    (rest z : List Char) (hstop : p rest = .bt z) (hFrest : F rest) :
    ∀ (xs : List β), (∀ x ∈ xs, ∀ X, F X → p (pr x ++ X) = .ok (g x) X) → (∀ x ∈ xs, pr x ≠ []) →
      (∀ x ∈ xs, ∀ X, F (pr x ++ X)) →
      ∀ (n : Nat) (acc : List α), xs.length < n →
        repeat0Loop p n (xs.flatMap pr ++ rest) acc = .ok (acc ++ xs.map g) rest := by
  intro xs
  induction xs with
  | nil =>
    intro _ _ _ n acc hn
    cases n with
    | zero => omega
    | succ n => simp [repeat0Loop_stop hstop]
  | cons x xs ih =>
    intro hstep hne hF n acc hn
    cases n with
    | zero => omega
    | succ n =>
      have hFnext : F (xs.flatMap pr ++ rest) := by
        cases xs with
        | nil => simpa using hFrest
        | cons y ys => simpa [List.append_assoc] using hF y (by simp) (ys.flatMap pr ++ rest)
      have h1 := hstep x (by simp) (xs.flatMap pr ++ rest) hFnext
      have hlen : (xs.flatMap pr ++ rest).length < (pr x ++ (xs.flatMap pr ++ rest)).length := by
        have : (pr x).length > 0 := List.length_pos_iff.mpr (hne x (by simp))
        simp; omega
      have := repeat0Loop_step (n := n) (acc := acc) h1 hlen
      simp only [List.flatMap_cons, List.append_assoc]
      rw [this, ih (fun y hy => hstep y (by simp [hy])) (fun y hy => hne y (by simp [hy]))
        (fun y hy => hF y (by simp [hy])) n (acc ++ [g x]) (by simp at hn; omega)]
      simp

theorem posts_rd (hE : ExprRd P rd) (w : List Char → Nat) (ps : List Posting) (hps : ∀ p ∈ ps, PPosting P p)
    (rest : List Char) (hrest : Stop isSpace rest) :
    repeat0 postItem (ps.flatMap (printPosting w) ++ rest) = .ok (ps.map (rdPosting rd)) rest := by
  have hstop : postItem rest = .bt rest := by
    simp [postItem, takeWhile1_stop hrest]
  have hms : metaStop rest = true := by
    cases rest with
    | nil => rfl
    | cons c r => simp [metaStop, (Stop_cons _ c r).1 hrest]
  have hloop := repeat0Loop_list' (p := postItem) (pr := printPosting w) (g := rdPosting rd)
    (fun X => metaStop X = true) rest rest hstop hms ps
    (fun p hp X hX => postItem_rd hE w p (hps p hp) X hX) (fun p _ => printPosting_ne_nil w p)
    (fun p hp X => metaStop_printPosting' w p (hps p hp).acc X)
    ((ps.flatMap (printPosting w) ++ rest).length + 1) [] (by
      have := length_le_flatMap (printPosting w) ps (fun p _ => printPosting_ne_nil w p)
      rw [List.length_append]; omega)
  change repeat0Loop _ _ _ [] = _
  simpa using hloop

/-! ## the transaction, the entry -/

/-- the transaction as read -/
def rdTxn (rd : VExpr → VExpr) (t : Transaction) : Transaction :=
  { date := t.date, effectiveDate := t.effectiveDate, clear := t.clear, code := t.code, payee := t.payee,
    posts := t.posts.map (rdPosting rd), metadata := t.metadata }

/-- the conditions of `wfTransaction` that do not concern numbers; postings as in `PPosting` -/
structure PTxn (P : VExpr → Prop) (t : Transaction) : Prop where
  date : wfDate t.date = true
  eff : ∀ d, t.effectiveDate = some d → wfDate d = true
  code : ∀ c, t.code = some c → ∀ x ∈ c.toList, isParenStrStop x = false
  payee : wfPayee t = true
  mds : ∀ m ∈ t.metadata, wfMetadata m = true
  posts : ∀ p ∈ t.posts, PPosting P p

theorem transaction_rd (hE : ExprRd P rd) (w : List Char → Nat) (t : Transaction) (ht : PTxn P t)
    (rest : List Char) (hrest : Stop isSpace rest) :
    transaction (printTransaction w t ++ rest) = .ok (rdTxn rd t) rest := by
  have hd := ht.date
  have hpayee := ht.payee
  simp only [wfPayee, Bool.and_eq_true] at hpayee
  obtain ⟨⟨⟨hp1, hp2⟩, hp3⟩, hp4⟩ := hpayee
  have hps := ht.posts
  have hms := ht.mds
  obtain ⟨Zp, hZp⟩ : ∃ Zp, Zp = t.posts.flatMap (printPosting w) ++ rest := ⟨_, rfl⟩
  obtain ⟨Zm, hZm⟩ : ∃ Zm, Zm = t.metadata.flatMap printMetaLine ++ Zp := ⟨_, rfl⟩
  have htext : printTransaction w t ++ rest = printDate t.date ++ (edPart t.effectiveDate ++ ' ' :: (printClear t.clear ++
      (codePart t.code ++ (t.payee.toList ++ '\n' :: Zm)))) := by
    rw [hZm, hZp]
    simp only [printTransaction, List.append_assoc]
    rw [printTxnHeader_eq]
  have hpchars : ∀ c ∈ t.payee.toList, (c == ';' || c == '\r' || c == '\n') = false := by
    intro c hc
    simp only [List.all_eq_true] at hp1
    simpa using hp1 c hc
  have hpstop : Stop isSpace (t.payee.toList ++ '\n' :: Zm) := stop_space_of_notBlankStart hp2 Zm
  have h1 := date_rt t.date hd (edPart t.effectiveDate ++ ' ' :: (printClear t.clear ++
      (codePart t.code ++ (t.payee.toList ++ '\n' :: Zm)))) (by
    cases t.effectiveDate <;> simp [edPart])
  have h2 := edParser_rt t.effectiveDate ht.eff (printClear t.clear ++
      (codePart t.code ++ (t.payee.toList ++ '\n' :: Zm)))
  have h3 : hasPeek (lineEndingOrEof <|| void (char ';')) (' ' :: (printClear t.clear ++
      (codePart t.code ++ (t.payee.toList ++ '\n' :: Zm)))) = .ok false (' ' :: (printClear t.clear ++
      (codePart t.code ++ (t.payee.toList ++ '\n' :: Zm)))) := by
    apply hasPeek_bt (z := ' ' :: (printClear t.clear ++ (codePart t.code ++ (t.payee.toList ++ '\n' :: Zm))))
    simp [alt2, lineEndingOrEof_bt ' ' _ (by decide) (by decide), char_cons_ne]
  have hcodestop : Stop isSpace (codePart t.code ++ (t.payee.toList ++ '\n' :: Zm)) := by
    cases t.code with
    | none => simpa [codePart] using hpstop
    | some c => simp [codePart, isSpace]
  have hclstop : Stop isSpace (printClear t.clear ++ (codePart t.code ++ (t.payee.toList ++ '\n' :: Zm))) := by
    cases t.clear with
    | uncleared => simpa [printClear] using hcodestop
    | cleared => simp [printClear, isSpace]
    | pending => simp [printClear, isSpace]
  have h4 : space1 (' ' :: (printClear t.clear ++ (codePart t.code ++ (t.payee.toList ++ '\n' :: Zm)))) =
      .ok [' '] (printClear t.clear ++ (codePart t.code ++ (t.payee.toList ++ '\n' :: Zm))) := by
    simpa using space1_append (a := [' ']) (by simp) (by simp [isSpace]) hclstop
  have h5 := clearState_rt t.clear (codePart t.code ++ (t.payee.toList ++ '\n' :: Zm)) hcodestop (by
    intro hu
    rw [hu] at hp4
    cases hc : t.code with
    | some c => simp [codePart, isClearMark]
    | none =>
      rw [hc] at hp4
      simp only [Option.isSome_none, bne_self_eq_false, Bool.false_or, Bool.and_eq_true] at hp4
      have hm := hp4.1
      simp only [codePart, List.nil_append]
      cases hpl : t.payee.toList with
      | nil => simp [isClearMark]
      | cons c r =>
        rw [hpl] at hm
        simpa [notClearMarkStart, isClearMark] using hm)
  have h6 := codeParser_rt t.code ht.code (t.payee.toList ++ '\n' :: Zm) hpstop (by
    intro hc
    rw [hc] at hp4
    simp only [Option.isSome_none, Bool.false_or, Bool.and_eq_true] at hp4
    exact noCodeAhead_payee hpchars hp4.2 Zm)
  have h7 := payeeParser_rt t.payee.toList hpchars hp3 Zm
  have hmsZp : metaStop Zp = true := by
    rw [hZp]
    cases hpo : t.posts with
    | nil =>
      simp only [List.flatMap_nil, List.nil_append]
      cases rest with
      | nil => rfl
      | cons c r => simp [metaStop, (Stop_cons _ c r).1 hrest]
    | cons p ps =>
      simp only [List.flatMap_cons, List.append_assoc]
      exact metaStop_printPosting' w p (hps p (by simp [hpo])).acc _
  have h8 := blockMetadata_rt t.metadata hms Zp hmsZp
  rw [← hZm] at h8
  have h9 := posts_rd hE w t.posts hps rest hrest
  rw [← hZp] at h9
  rw [htext, transaction_eq]
  simp only [bind_apply, h1, Res.andThen_ok, h2, h3, Bool.not_false, Comb.cond, if_true, map_apply, h4, Res.map_ok,
    h5, h6, h7, h8, h9, pure_apply]
  have hcode' : Option.map String.ofList (Option.map String.toList t.code) = t.code := by
    cases t.code <;> simp
  have hpayee' : String.ofList ((if t.payee.toList = [] then none else some t.payee.toList).getD []) = t.payee := by
    by_cases he : t.payee.toList = []
    · simp only [he, if_true, Option.getD_none]
      rw [← he]; simp
    · simp [he]
  rw [hcode', hpayee']
  rfl

/-- the entry parser reads the printed text of `x` (followed by an empty line) as the entry `g x` -/
def EntryRd {β : Type} (txt : β → List Char) (g : β → Entry) (x : β) : Prop :=
  StartsEntry (txt x) ∧ ∀ rest, parseLedgerEntry (txt x ++ '\n' :: rest) = .ok (g x) ('\n' :: rest)

theorem entryRd_txn (hE : ExprRd P rd) (w : List Char → Nat) (t : Transaction) (ht : PTxn P t) :
    EntryRd (printTransaction w) (fun t => Entry.txn (rdTxn rd t)) t := by
  have hy : 0 ≤ t.date.y := by
    have := ht.date
    simp only [wfDate, Bool.and_eq_true, decide_eq_true_eq] at this
    exact this.1.2
  obtain ⟨c, r, hpd, hcd⟩ := printDate_head t.date hy
  have hne : ∀ d : Char, d.isDigit = false → c ≠ d := by
    intro d hd e; subst e; rw [hcd] at hd; cases hd
  have hpe : printTransaction w t = c :: (r ++ (edPart t.effectiveDate ++ ' ' :: (printClear t.clear ++
      (codePart t.code ++ (t.payee.toList ++ '\n' ::
        (t.metadata.flatMap printMetaLine ++ t.posts.flatMap (printPosting w))))))) := by
    have := printTxnHeader_eq t (t.metadata.flatMap printMetaLine ++ t.posts.flatMap (printPosting w))
    simp only [printTransaction, List.append_assoc]
    rw [this, hpd]
    rfl
  refine ⟨⟨c, _, hpe, hne _ (by decide), hne _ (by decide), hne _ (by decide), hne _ (by decide)⟩, ?_⟩
  intro rest
  have hrt := transaction_rd hE w t ht ('\n' :: rest) (by simp [isSpace])
  have hd : parseLedgerEntry (printTransaction w t ++ '\n' :: rest) =
      map Entry.txn transaction (printTransaction w t ++ '\n' :: rest) := by
    rw [hpe]
    exact parseLedgerEntry_digit c _ hcd
  rw [hd]
  simp only [map_apply]
  rw [hrt]
  rfl

/-! ## the ledger: every text followed by an empty line -/

omit P rd in
theorem startsEntry_flatMap' {β : Type} {txt : β → List Char} {g : β → Entry} {xs : List β}
    (h : ∀ x ∈ xs, EntryRd txt g x) :
    StartsEntry (xs.flatMap fun x => txt x ++ ['\n']) ∨ (xs.flatMap fun x => txt x ++ ['\n']) = [] := by
  cases xs with
  | nil => right; rfl
  | cons e t =>
    left
    obtain ⟨c, r, hc, h1⟩ := (h e (by simp)).1
    exact ⟨c, r ++ '\n' :: t.flatMap (fun x => txt x ++ ['\n']), by simp [hc], h1⟩

omit P rd in
theorem parsedIter_nl' {β : Type} (txt : β → List Char) (g : β → Entry) (whole : List Char) :
    ∀ (xs : List β), (∀ x ∈ xs, EntryRd txt g x) → ∀ (n : Nat) (acc : List (Nat × Nat × Entry)), xs.length < n →
      ∃ sp, parsedIter parseLedgerEntry verticalSpaces whole n ('\n' :: xs.flatMap fun x => txt x ++ ['\n']) acc =
          (acc ++ sp, .done) ∧ sp.map (·.2.2) = xs.map g := by
  intro xs
  induction xs with
  | nil =>
    intro _ n acc hn
    cases n with
    | zero => omega
    | succ n =>
      refine ⟨[], ?_, rfl⟩
      simp [parsedIter, verticalSpaces_nl (X := []) (Or.inr rfl)]
  | cons e t ih =>
    intro h n acc hn
    cases n with
    | zero => omega
    | succ n =>
      have hsep := verticalSpaces_nl (startsEntry_flatMap' (xs := e :: t) h)
      have hrt := (h e (by simp)).2 (t.flatMap fun x => txt x ++ ['\n'])
      have hne : ((e :: t).flatMap fun x => txt x ++ ['\n']).isEmpty = false := by
        obtain ⟨c, r, hc, _⟩ := (h e (by simp)).1
        simp [hc]
      obtain ⟨sp, h1, h2⟩ := ih (fun x hx => h x (by simp [hx])) n
        (acc ++ [(utf8Len whole - utf8Len ((e :: t).flatMap fun x => txt x ++ ['\n']),
          utf8Len whole - utf8Len ('\n' :: t.flatMap fun x => txt x ++ ['\n']), g e)])
        (by simp at hn; omega)
      refine ⟨(utf8Len whole - utf8Len ((e :: t).flatMap fun x => txt x ++ ['\n']),
        utf8Len whole - utf8Len ('\n' :: t.flatMap fun x => txt x ++ ['\n']), g e) :: sp, ?_, by simp [h2]⟩
      have hrt' : parseLedgerEntry ((e :: t).flatMap fun x => txt x ++ ['\n']) =
          .ok (g e) ('\n' :: t.flatMap fun x => txt x ++ ['\n']) := by
        simpa [List.append_assoc] using hrt
      rw [parsedIter]
      simp only [hsep, hne, hrt']
      simpa [List.append_assoc] using h1

omit P rd in
/-- the ledger parser on a sequence of texts, each followed by an empty line, each read as an entry -/
theorem parseEntries_texts {β : Type} (txt : β → List Char) (g : β → Entry) (xs : List β)
    (h : ∀ x ∈ xs, EntryRd txt g x) :
    parseEntries (xs.flatMap fun x => txt x ++ ['\n']) = .ok (xs.map g) := by
  cases xs with
  | nil =>
    simp [parseEntries, parseLedger, parseLedgerRun, parsedIter, verticalSpaces_stop (X := []) (Or.inr rfl), Outcome.map']
  | cons e t =>
    have hsep := verticalSpaces_stop (startsEntry_flatMap' (xs := e :: t) h)
    have hrt := (h e (by simp)).2 (t.flatMap fun x => txt x ++ ['\n'])
    have hrt' : parseLedgerEntry ((e :: t).flatMap fun x => txt x ++ ['\n']) =
        .ok (g e) ('\n' :: t.flatMap fun x => txt x ++ ['\n']) := by
      simpa [List.append_assoc] using hrt
    have hne : ((e :: t).flatMap fun x => txt x ++ ['\n']).isEmpty = false := by
      obtain ⟨c, r, hc, _⟩ := (h e (by simp)).1
      simp [hc]
    have hlen : t.length < ((e :: t).flatMap fun x => txt x ++ ['\n']).length := by
      have := length_le_flatMap (fun x => txt x ++ ['\n']) t (fun y _ => by simp)
      simp only [List.flatMap_cons, List.length_append, List.length_cons, List.length_nil]
      omega
    obtain ⟨sp, h1, h2⟩ := parsedIter_nl' txt g ((e :: t).flatMap fun x => txt x ++ ['\n']) t
      (fun x hx => h x (by simp [hx]))
      ((e :: t).flatMap fun x => txt x ++ ['\n']).length
      ([] ++ [(utf8Len ((e :: t).flatMap fun x => txt x ++ ['\n']) - utf8Len ((e :: t).flatMap fun x => txt x ++ ['\n']),
        utf8Len ((e :: t).flatMap fun x => txt x ++ ['\n']) - utf8Len ('\n' :: t.flatMap fun x => txt x ++ ['\n']), g e)]) hlen
    simp only [parseEntries, parseLedger, parseLedgerRun]
    rw [parsedIter]
    simp only [hsep, hne, hrt', h1]
    simp [Outcome.map']
    rw [← h2]; simp [Function.comp_def]

end

/-! ## readable trees, signed zeros included -/

/-- no number of the tree carries a format tag -/
def untaggedNums (t : Transaction) : Bool := allTxn (fun d _ => d.fmt.isNone) t

section
variable (prec : String → Nat) (hprec : ∀ c, prec c ≤ 28)
include hprec

theorem readableVExpr_PAmt (v : VExpr) (hr : readableVExpr v = true) (hu : allV (fun d _ => d.fmt.isNone) v = true) :
    PAmt (mapV (Literal.displayRescale prec) v) ∧
    readV (mapV (Literal.displayRescale prec) v) = mapV (readbackNum prec) v := by
  cases v with
  | paren e => simp [readableVExpr] at hr
  | amt d c =>
    simp only [readableVExpr, readablePDec, Bool.and_eq_true, decide_eq_true_eq] at hr
    simp only [allV, Option.isNone_iff_eq_none] at hu
    obtain ⟨_, g2, g3, g4, _⟩ := displayRescale_props prec d c hr.1.1 hr.1.2 (hprec c)
    exact ⟨⟨_, c, rfl, by rw [g2, hu], g3, g4, cleanCommodity_wf hr.2⟩, rfl⟩

theorem readableCost_PCost (x : Option Exchange) (hr : readableCost x = true)
    (hu : allExchange (fun d _ => d.fmt.isNone) x = true) :
    PCost PAmt (x.map (mapExchange (Literal.displayRescale prec))) ∧
    (x.map (mapExchange (Literal.displayRescale prec))).map (rdExchange readV) = x.map (mapExchange (readbackNum prec)) := by
  cases x with
  | none => exact ⟨trivial, rfl⟩
  | some y =>
    cases y with
    | total v =>
      obtain ⟨g1, g2⟩ := readableVExpr_PAmt prec hprec v hr hu
      exact ⟨g1, by simp only [Option.map_some, mapExchange, rdExchange, g2]⟩
    | rate v =>
      obtain ⟨g1, g2⟩ := readableVExpr_PAmt prec hprec v hr hu
      exact ⟨g1, by simp only [Option.map_some, mapExchange, rdExchange, g2]⟩

theorem readablePosting_PPosting (p : Posting) (hr : readablePosting p = true)
    (hu : allPosting (fun d _ => d.fmt.isNone) p = true) :
    PPosting PAmt (mapPosting (Literal.displayRescale prec) p) ∧
    rdPosting readV (mapPosting (Literal.displayRescale prec) p) = mapPosting (readbackNum prec) p := by
  obtain ⟨account, clear, amount, balance, metadata⟩ := p
  simp only [readablePosting, Bool.and_eq_true] at hr
  obtain ⟨⟨⟨r1, r2⟩, r3⟩, r4⟩ := hr
  simp only [allPosting, Bool.and_eq_true] at hu
  obtain ⟨n1, n2⟩ := hu
  obtain ⟨a1, a2⟩ := cleanAccount_wf r1
  have hbal : (∀ b, balance.map (mapV (Literal.displayRescale prec)) = some b → PAmt b) ∧
      (balance.map (mapV (Literal.displayRescale prec))).map readV = balance.map (mapV (readbackNum prec)) := by
    cases balance with
    | none => simp
    | some b =>
      simp only [readableBalance] at r3
      obtain ⟨b1, b2⟩ := readableVExpr_PAmt prec hprec b r3 n2
      refine ⟨?_, by simp only [Option.map_some, b2]⟩
      intro b' hb'
      simp only [Option.map_some, Option.some.injEq] at hb'
      subst hb'; exact b1
  cases amount with
  | none => simp at r2
  | some a =>
    obtain ⟨am, cost, lot⟩ := a
    obtain ⟨price, ldate, lnote⟩ := lot
    simp only [readablePostingAmount, Bool.and_eq_true, Option.isNone_iff_eq_none] at r2
    obtain ⟨⟨⟨⟨q1, q2⟩, q3⟩, q4⟩, q5⟩ := r2
    subst q3 q4 q5
    simp only [Bool.and_eq_true] at n1
    obtain ⟨⟨m1, _⟩, m3⟩ := n1
    obtain ⟨g1, g2⟩ := readableVExpr_PAmt prec hprec am q1 m1
    obtain ⟨c1, c2⟩ := readableCost_PCost prec hprec cost q2 m3
    refine ⟨⟨a1, by simp only [mapPosting, a2, Bool.or_true], ?_, ?_, hbal.1⟩, ?_⟩
    · intro m hm
      exact readableMetadata_wf (List.all_eq_true.mp r4 m hm)
    · intro a' ha'
      simp only [mapPosting, Option.map_some, Option.some.injEq] at ha'
      subst ha'
      exact ⟨rfl, g1, c1⟩
    · simp only [rdPosting, mapPosting, Option.map_some, rdPostingAmount, mapPostingAmount, g2, c2, hbal.2, mapLot,
        Option.map_none]

theorem readable_PTxn (t : Transaction) (hr : ReadableTree t = true) (hu : untaggedNums t = true)
    (hc : (t.clear != .uncleared || notClearMarkStart t.payee.toList) = true) :
    PTxn PAmt (rescaleTxn prec t) ∧ rdTxn readV (rescaleTxn prec t) = readbackTxn prec t := by
  simp only [ReadableTree, Bool.and_eq_true] at hr
  obtain ⟨⟨⟨⟨⟨r1, r2⟩, r3⟩, r4⟩, r5⟩, r6⟩ := hr
  have hposts : ∀ p ∈ t.posts, PPosting PAmt (mapPosting (Literal.displayRescale prec) p) ∧
      rdPosting readV (mapPosting (Literal.displayRescale prec) p) = mapPosting (readbackNum prec) p := fun p hp =>
    readablePosting_PPosting prec hprec p (List.all_eq_true.mp r6 p hp) (List.all_eq_true.mp hu p hp)
  refine ⟨⟨cleanDate_wf r1, ?_, ?_, cleanPayee_wf _ r3 hc, ?_, ?_⟩, ?_⟩
  · intro d hd
    simp only [rescaleTxn, mapTxn] at hd
    rw [hd] at r2
    exact cleanDate_wf r2
  · intro c hcd x hx
    simp only [rescaleTxn, mapTxn] at hcd
    rw [hcd] at r4
    have := List.all_eq_true.mp (cleanCode_wf r4) x hx
    simpa using this
  · intro m hm
    exact readableMetadata_wf (List.all_eq_true.mp r5 m hm)
  · intro p' hp'
    simp only [rescaleTxn, mapTxn, List.mem_map] at hp'
    obtain ⟨p, hp, rfl⟩ := hp'
    exact (hposts p hp).1
  · simp only [rdTxn, rescaleTxn, readbackTxn, mapTxn, List.map_map]
    congr 1
    apply List.map_congr_left
    intro p hp
    exact (hposts p hp).2

/-- **read-back of one printed transaction, signed zeros included** (tree level).  For every transaction inside
`ReadableTree` whose numbers carry no format tag, printed by `display.rs` under precisions `prec ≤ 28` with any width
function: the text starts an entry, and the entry parser, whatever follows the blank line, consumes exactly the printed
text and returns `readbackTxn prec t`. -/
theorem readback_tree_all (w : List Char → Nat) (t : Transaction) (hr : ReadableTree t = true) (hu : untaggedNums t = true)
    (hc : (t.clear != .uncleared || notClearMarkStart t.payee.toList) = true) :
    EntryRd (printTransactionP prec w) (fun t => Entry.txn (readbackTxn prec t)) t := by
  obtain ⟨h1, h2⟩ := readable_PTxn prec hprec t hr hu hc
  have h3 := entryRd_txn exprRd_amt w (rescaleTxn prec t) h1
  simp only [EntryRd, h2, ← printTransactionP_rescale] at h3
  exact h3

/-- **read-back of the whole output, signed zeros included** -/
theorem readback_ledger_all (w : List Char → Nat) (trs : List Transaction)
    (h : ∀ t ∈ trs, ReadableTree t = true ∧ untaggedNums t = true ∧
      (t.clear != .uncleared || notClearMarkStart t.payee.toList) = true) :
    parseEntries (importText prec w trs) = .ok (trs.map fun t => Entry.txn (readbackTxn prec t)) :=
  parseEntries_texts (printTransactionP prec w) (fun t => Entry.txn (readbackTxn prec t)) trs
    (fun t ht => readback_tree_all prec hprec w t (h t ht).1 (h t ht).2.1 (h t ht).2.2)
end

end Okane.Import
