import Okane.Model.ParseSpans
import Okane.Lemmas.C14Text
/-!
# The `Tracking` decoration: same tree, same failures, spans inside the entry (parser side of C14_bookkeep)

* `Sim f pT p` — the decorated parser `pT` is the plain parser `p` up to forgetting the decoration (`f`): same
  success / failure, same positions.  Proved rule by rule up to `sim_parseLedgerEntry`, then for the iterator:
  `parseLedgerRunT_erase` (same entries, same entry spans, same ending for every text).
* `Within sp pT` — every span `with_span` recorded during a successful run of `pT` on `i` that left `r` is a pair of
  nested suffixes between `i` and `r` (`Between i r s`).  Proved rule by rule up to `within_parseLedgerEntry`.
* `parseLedgerRunT_tracked`: for every text, every tracked span of every delivered entry lies inside that entry's
  `ParsedContext::span`, is ordered, and both ends are character boundaries of the text.
-/
namespace Okane.ParseSpans
open Okane Okane.Comb Okane.Parse Okane.Diag

variable {α β γ δ : Type}

/-! ## `Sim` -/

/-- `pT` is `p` up to `f` on the value -/
def Sim (f : α → β) (pT : Parser α) (p : Parser β) : Prop := ∀ i, (pT i).map f = p i

theorem Res.map_id' (r : Res α) : r.map (fun a => a) = r := by cases r <;> rfl

theorem sim_same (p : Parser α) : Sim (fun a => a) p p := fun i => Res.map_id' (p i)

theorem sim_decorate (p : Parser α) : Sim Tracked.value (decorate p) p := by
  intro i
  simp only [decorate]
  cases p i <;> rfl

theorem sim_decorate_of {f : α → β} {pT : Parser α} {p : Parser β} (h : Sim f pT p) :
    Sim (fun t => f t.value) (decorate pT) p := by
  intro i
  have := h i
  simp only [decorate]
  cases hp : pT i <;> rw [hp] at this <;> exact this

theorem sim_bind {f : α → β} {g : γ → δ} {pT : Parser α} {p : Parser β} {kT : α → Parser γ} {k : β → Parser δ}
    (hp : Sim f pT p) (hk : ∀ a, Sim g (kT a) (k (f a))) : Sim g (pT >>- kT) (p >>- k) := by
  intro i
  have := hp i
  simp only [Comb.bind]
  rw [← this]
  cases pT i with
  | ok a r => exact hk a r
  | bt _ => rfl
  | cut _ => rfl
  | panic _ => rfl
  | fuel => rfl

theorem sim_bind_same {g : γ → δ} {p : Parser α} {kT : α → Parser γ} {k : α → Parser δ}
    (hk : ∀ a, Sim g (kT a) (k a)) : Sim g (p >>- kT) (p >>- k) :=
  sim_bind (sim_same p) hk

theorem sim_pure {g : γ → δ} {c : γ} {d : δ} (h : g c = d) : Sim g (pure c) (pure d) := by
  intro i; simp [Comb.pure, Res.map, h]

theorem sim_map {f : α → β} {g : γ → δ} {pT : Parser α} {p : Parser β} {hT : α → γ} {h : β → δ}
    (hp : Sim f pT p) (hc : ∀ a, g (hT a) = h (f a)) : Sim g (Comb.map hT pT) (Comb.map h p) := by
  intro i
  have := hp i
  simp only [Comb.map]
  rw [← this]
  cases pT i <;> simp [Res.map, hc]

theorem sim_terminated {f : α → β} {pT : Parser α} {p : Parser β} (q : Parser γ) (hp : Sim f pT p) :
    Sim f (terminated pT q) (terminated p q) :=
  sim_bind hp fun _ => sim_map (sim_same q) fun _ => rfl

theorem sim_preceded {f : α → β} {pT : Parser α} {p : Parser β} (q : Parser γ) (hp : Sim f pT p) :
    Sim f (preceded q pT) (preceded q p) :=
  sim_bind_same fun _ => hp

theorem sim_opt {f : α → β} {pT : Parser α} {p : Parser β} (hp : Sim f pT p) :
    Sim (Option.map f) (opt pT) (opt p) := by
  intro i
  have := hp i
  simp only [opt]
  rw [← this]
  cases pT i <;> rfl

theorem sim_cond {f : α → β} {pT : Parser α} {p : Parser β} (b : Bool) (hp : Sim f pT p) :
    Sim (Option.map f) (cond b pT) (cond b p) := by
  unfold Comb.cond
  split
  · exact sim_map hp fun _ => rfl
  · exact sim_pure rfl

theorem sim_cutErr {f : α → β} {pT : Parser α} {p : Parser β} (hp : Sim f pT p) :
    Sim f (cutErr pT) (cutErr p) := by
  intro i
  have := hp i
  simp only [cutErr]
  rw [← this]
  cases pT i <;> rfl

theorem sim_repeat0Loop {f : α → β} {pT : Parser α} {p : Parser β} (hp : Sim f pT p) :
    ∀ (n : Nat) (i : List Char) (acc : List α),
      (repeat0Loop pT n i acc).map (List.map f) = repeat0Loop p n i (acc.map f) := by
  intro n
  induction n with
  | zero => intro i acc; rfl
  | succ n ih =>
    intro i acc
    have := hp i
    simp only [repeat0Loop]
    rw [← this]
    cases pT i with
    | ok a r =>
      simp only [Res.map_ok]
      split
      · rfl
      · rw [ih]; simp
    | bt _ => rfl
    | cut _ => rfl
    | panic _ => rfl
    | fuel => rfl

theorem sim_repeat0 {f : α → β} {pT : Parser α} {p : Parser β} (hp : Sim f pT p) :
    Sim (List.map f) (repeat0 pT) (repeat0 p) := fun i => by
  simpa [repeat0] using sim_repeat0Loop hp (i.length + 1) i []

/-! ### the grammar -/

theorem sim_postingAccount : Sim Tracked.value postingAccountT postingAccount :=
  sim_terminated _ (sim_decorate _)

theorem sim_lotLoop : ∀ (n : Nat) (l : TLot) (i : List Char),
    (lotLoopT n l i).map TLot.erase = lotLoop n l.erase i := by
  intro n
  induction n with
  | zero => intro l i; rfl
  | succ n ih =>
    intro l i
    unfold lotLoopT lotLoop
    split
    · have hp : l.erase.price.isNone = l.price.isNone := by simp [TLot.erase]
      rw [hp]
      split
      · exact sim_bind (sim_decorate lotAmount) (fun a => sim_bind_same fun _ => fun j => by
          rw [ih]; rfl) _
      · rfl
    · have hp : l.erase.date.isNone = l.date.isNone := by simp [TLot.erase]
      rw [hp]
      split
      · exact sim_bind_same (fun a => sim_bind_same fun _ => fun j => by rw [ih]; rfl) _
      · rfl
    · have hp : l.erase.note.isNone = l.note.isNone := by simp [TLot.erase]
      rw [hp]
      split
      · exact sim_bind_same (fun a => sim_bind_same fun _ => fun j => by rw [ih]; rfl) _
      · rfl
    · rename_i h1 h2 h3
      split
      · exact (h1 _ rfl).elim
      · exact (h2 _ rfl).elim
      · exact (h3 _ rfl).elim
      · rfl

theorem sim_lot : Sim TLot.erase lotT lot := by
  unfold lotT lot
  exact sim_bind_same fun _ => fun i => sim_lotLoop (i.length + 1) {} i

theorem sim_postingAmount : Sim TPostingAmount.erase postingAmountT postingAmount := by
  unfold postingAmountT postingAmount
  refine sim_bind (sim_terminated _ (sim_decorate _)) fun amount => ?_
  refine sim_bind sim_lot fun l => ?_
  refine sim_bind_same fun isAt => ?_
  refine sim_bind_same fun isDoubleAt => ?_
  refine sim_bind (sim_cond isAt (sim_decorate _)) fun cost => ?_
  exact sim_pure rfl

theorem sim_posting : Sim TPosting.erase postingT posting := by
  unfold postingT posting
  refine sim_bind_same fun cs => ?_
  refine sim_bind sim_postingAccount fun account => ?_
  refine sim_bind_same fun shortcut => ?_
  split
  · refine sim_bind_same fun md => ?_
    exact sim_pure rfl
  · refine sim_bind (sim_opt (sim_terminated _ sim_postingAmount)) fun amount => ?_
    refine sim_bind (sim_opt (sim_decorate _)) fun balance => ?_
    refine sim_bind_same fun md => ?_
    exact sim_pure rfl

theorem sim_transaction : Sim TTransaction.erase transactionT transaction := by
  unfold transactionT transaction
  refine sim_bind_same fun d => ?_
  refine sim_bind_same fun ed => ?_
  refine sim_bind_same fun isShortest => ?_
  refine sim_bind_same fun _ => ?_
  refine sim_bind_same fun cs => ?_
  refine sim_bind_same fun code => ?_
  refine sim_bind_same fun payee => ?_
  refine sim_bind_same fun md => ?_
  refine sim_bind (sim_repeat0 (sim_preceded _ (sim_cutErr (sim_decorate_of sim_posting)))) fun posts => ?_
  exact sim_pure rfl

theorem sim_other (p : Parser Entry) : Sim TEntry.erase (Comb.map TEntry.other p) p := by
  intro i
  simp only [Comb.map]
  cases p i <;> rfl

/-- **`parse_ledger_entry` with the `Tracking` decoration is `parse_ledger_entry` with the plain one**, up to
forgetting the spans: same tree, same rest, same failure position and kind -/
theorem sim_parseLedgerEntry : Sim TEntry.erase parseLedgerEntryT parseLedgerEntry := by
  intro i
  unfold parseLedgerEntryT parseLedgerEntry
  cases i with
  | nil => rfl
  | cons c r =>
    simp only [dispatch]
    split
    · exact sim_other _ _
    · split
      · exact sim_other _ _
      · split
        · exact sim_other _ _
        · split
          · exact sim_other _ _
          · split
            · exact sim_other _ _
            · split
              · exact sim_map (g := TEntry.erase) (hT := TEntry.txn) (h := Entry.txn) sim_transaction (fun _ => rfl) _
              · rfl

/-- `Sim` transports `Safe` -/
theorem Sim.safe {f : α → β} {pT : Parser α} {p : Parser β} {k : Nat} (h : Sim f pT p) (hp : Safe k p) : Safe k pT :=
  Safe.mk fun i => by
    have h1 := h i
    have h2 := hp.good i
    rw [← h1] at h2
    cases hT : pT i <;> rw [hT] at h2 <;> exact h2

theorem safe_parseLedgerEntryT : Safe 1 parseLedgerEntryT := sim_parseLedgerEntry.safe safe_parseLedgerEntry

/-! ### the iterator -/

def eraseTriple (x : Nat × Nat × TEntry) : Nat × Nat × Entry := (x.1, x.2.1, x.2.2.erase)

theorem sim_parsedIter {f : α → β} {pT : Parser α} {p : Parser β} (hp : Sim f pT p) (sep : Parser Unit)
    (whole : List Char) :
    ∀ (n : Nat) (i : List Char) (acc : List (Nat × Nat × α)),
      ((parsedIter pT sep whole n i acc).1.map (fun x => (x.1, x.2.1, f x.2.2)), (parsedIter pT sep whole n i acc).2)
        = parsedIter p sep whole n i (acc.map fun x => (x.1, x.2.1, f x.2.2)) := by
  intro n
  induction n with
  | zero => intro i acc; rfl
  | succ n ih =>
    intro i acc
    unfold parsedIter
    simp only
    cases hs : sep i with
    | ok u i1 =>
      simp only
      split
      · rfl
      · have := hp i1
        rw [← this]
        cases hT : pT i1 with
        | ok e r =>
          simp only [Res.map_ok]
          rw [ih]; simp
        | bt pos => simp only [Res.map_bt]; split <;> rfl
        | cut pos => simp only [Res.map_cut]; split <;> rfl
        | panic s => rfl
        | fuel => rfl
    | bt pos => simp only; split <;> rfl
    | cut pos => simp only; split <;> rfl
    | panic s => rfl
    | fuel => rfl

def ParsedT.erase (x : ParsedT) : Parsed := ⟨x.start, x.stop, x.entry.erase⟩

/-- **the decorated run of `parse_ledger` is the plain run**: same number of entries, same `ParsedContext` spans,
same trees up to the decoration, same ending (same `ParseError`) — for every text -/
theorem parseLedgerRunT_erase (t : List Char) :
    ((parseLedgerRunT t).1.map ParsedT.erase, (parseLedgerRunT t).2) = parseLedgerRun t := by
  have h := sim_parsedIter sim_parseLedgerEntry verticalSpaces t (t.length + 1) t []
  simp only [List.map_nil] at h
  simp only [parseLedgerRunT, parseLedgerRun]
  rw [← h]
  simp only [List.map_map]
  rfl

theorem parseLedgerT_erase (t : List Char) :
    (parseLedgerT t).map' (List.map ParsedT.erase) = parseLedger t := by
  have h := parseLedgerRunT_erase t
  unfold parseLedgerT parseLedger
  rw [← h]
  cases hr : parseLedgerRunT t with
  | mk es en => cases en <;> rfl

/-! ## `Within` -/

/-- the span `s` is a pair of nested suffixes between the input `i` and the rest `r` of a successful run -/
def Between (i r : List Char) (s : RSpan) : Prop :=
  ∃ a b, r <:+ b ∧ b <:+ a ∧ a <:+ i ∧ s = ⟨utf8Len a, utf8Len b⟩

theorem Between.mono {i r i' r' : List Char} {s : RSpan} (h : Between i' r' s) (hi : i' <:+ i) (hr : r <:+ r') :
    Between i r s := by
  obtain ⟨a, b, h1, h2, h3, h4⟩ := h
  exact ⟨a, b, hr.trans h1, h2, h3.trans hi, h4⟩

/-- a successful result on `i`: the rest is a suffix of `i`, and every span of the value is either one of `extra`
(spans recorded earlier in the enclosing sequence) or lies between `i` and the rest -/
def OkIn (extra : List RSpan) (sp : α → List RSpan) (i : List Char) (res : Res α) : Prop :=
  ∀ a r, res = .ok a r → r <:+ i ∧ ∀ s ∈ sp a, s ∈ extra ∨ Between i r s

/-- every span recorded by `pT` lies between its input and its rest -/
def Within (sp : α → List RSpan) (pT : Parser α) : Prop := ∀ i, OkIn [] sp i (pT i)

theorem within_of_safe {k : Nat} {p : Parser α} (hp : Safe k p) : Within (fun _ => []) p := by
  intro i a r h
  have := hp.good i
  rw [h] at this
  exact ⟨this.1, by simp⟩

theorem okIn_bind {extra : List RSpan} {sp : α → List RSpan} {sq : β → List RSpan} {p : Parser α} {f : α → Parser β}
    {i : List Char} (hp : Within sp p) (hf : ∀ a r1, r1 <:+ i → OkIn (extra ++ sp a) sq r1 (f a r1)) :
    OkIn extra sq i ((p >>- f) i) := by
  intro b r h
  simp only [Comb.bind] at h
  cases hpi : p i with
  | ok a r1 =>
    rw [hpi] at h
    simp only [Res.andThen_ok] at h
    obtain ⟨h1, h2⟩ := hp i a r1 hpi
    obtain ⟨h3, h4⟩ := hf a r1 h1 b r h
    refine ⟨h3.trans h1, fun s hs => ?_⟩
    rcases h4 s hs with h5 | h5
    · rcases List.mem_append.1 h5 with h6 | h6
      · exact .inl h6
      · rcases h2 s h6 with h7 | h7
        · simp at h7
        · exact .inr (h7.mono (List.suffix_refl _) h3)
    · exact .inr (h5.mono h1 (List.suffix_refl _))
  | bt _ => rw [hpi] at h; cases h
  | cut _ => rw [hpi] at h; cases h
  | panic _ => rw [hpi] at h; cases h
  | fuel => rw [hpi] at h; cases h

theorem okIn_pure {extra : List RSpan} {sq : β → List RSpan} (b : β) (i : List Char) (h : ∀ s ∈ sq b, s ∈ extra) :
    OkIn extra sq i (pure b i) := by
  intro b' r hb
  simp only [Comb.pure, Res.ok.injEq] at hb
  obtain ⟨rfl, rfl⟩ := hb
  exact ⟨List.suffix_refl _, fun s hs => .inl (h s hs)⟩

theorem within_bind {sp : α → List RSpan} {sq : β → List RSpan} {p : Parser α} {f : α → Parser β}
    (hp : Within sp p) (hf : ∀ a r1, OkIn ([] ++ sp a) sq r1 (f a r1)) : Within sq (p >>- f) :=
  fun _ => okIn_bind hp fun a r1 _ => hf a r1

theorem within_decorate {sp : α → List RSpan} {pT : Parser α} (h : Within sp pT) :
    Within (fun t => sp t.value ++ [t.span]) (decorate pT) := by
  intro i t r ht
  simp only [decorate] at ht
  cases hp : pT i with
  | ok a r1 =>
    rw [hp] at ht
    simp only [Res.ok.injEq] at ht
    obtain ⟨rfl, rfl⟩ := ht
    obtain ⟨h1, h2⟩ := h i a r1 hp
    refine ⟨h1, fun s hs => ?_⟩
    rcases List.mem_append.1 hs with h3 | h3
    · exact h2 s h3
    · simp only [List.mem_singleton] at h3
      subst h3
      exact .inr ⟨i, r1, List.suffix_refl _, h1, List.suffix_refl _, rfl⟩
  | bt _ => rw [hp] at ht; cases ht
  | cut _ => rw [hp] at ht; cases ht
  | panic _ => rw [hp] at ht; cases ht
  | fuel => rw [hp] at ht; cases ht

theorem within_decorate_plain {k : Nat} {p : Parser α} (hp : Safe k p) :
    Within (fun t => [t.span]) (decorate p) := by
  have := within_decorate (within_of_safe hp)
  simpa using this

theorem Within.congr {sp sq : α → List RSpan} {pT : Parser α} (h : Within sp pT) (he : ∀ a, ∀ s ∈ sq a, s ∈ sp a) :
    Within sq pT := by
  intro i a r ha
  obtain ⟨h1, h2⟩ := h i a r ha
  exact ⟨h1, fun s hs => h2 s (he a s hs)⟩

theorem within_terminated {k : Nat} {sp : α → List RSpan} {pT : Parser α} {q : Parser γ} (h : Within sp pT)
    (hq : Safe k q) : Within sp (terminated pT q) := by
  refine within_bind h fun a r1 => ?_
  intro b r hb
  simp only [Comb.map] at hb
  cases hq1 : q r1 with
  | ok c r2 =>
    rw [hq1] at hb
    simp only [Res.map_ok, Res.ok.injEq] at hb
    obtain ⟨rfl, rfl⟩ := hb
    have := hq.good r1
    rw [hq1] at this
    exact ⟨this.1, fun s hs => .inl (by simpa using hs)⟩
  | bt _ => rw [hq1] at hb; cases hb
  | cut _ => rw [hq1] at hb; cases hb
  | panic _ => rw [hq1] at hb; cases hb
  | fuel => rw [hq1] at hb; cases hb

theorem within_preceded {k : Nat} {sp : α → List RSpan} {pT : Parser α} {q : Parser γ} (hq : Safe k q)
    (h : Within sp pT) : Within sp (preceded q pT) := by
  refine within_bind (within_of_safe hq) fun a r1 => ?_
  intro b r hb
  obtain ⟨h1, h2⟩ := h r1 b r hb
  exact ⟨h1, fun s hs => (h2 s hs).elim (fun h => by simp at h) .inr⟩

theorem within_opt {sp : α → List RSpan} {pT : Parser α} (h : Within sp pT) :
    Within (fun o => (o.map sp).getD []) (opt pT) := by
  intro i o r ho
  simp only [opt] at ho
  cases hp : pT i with
  | ok a r1 =>
    rw [hp] at ho
    simp only [Res.ok.injEq] at ho
    obtain ⟨rfl, rfl⟩ := ho
    simpa using h i a r1 hp
  | bt _ =>
    rw [hp] at ho
    simp only [Res.ok.injEq] at ho
    obtain ⟨rfl, rfl⟩ := ho
    exact ⟨List.suffix_refl _, by simp⟩
  | cut _ => rw [hp] at ho; cases ho
  | panic _ => rw [hp] at ho; cases ho
  | fuel => rw [hp] at ho; cases ho

theorem within_cond {sp : α → List RSpan} {pT : Parser α} (b : Bool) (h : Within sp pT) :
    Within (fun o => (o.map sp).getD []) (cond b pT) := by
  unfold Comb.cond
  split
  · intro i o r ho
    simp only [Comb.map] at ho
    cases hp : pT i with
    | ok a r1 =>
      rw [hp] at ho
      simp only [Res.map_ok, Res.ok.injEq] at ho
      obtain ⟨rfl, rfl⟩ := ho
      simpa using h i a r1 hp
    | bt _ => rw [hp] at ho; cases ho
    | cut _ => rw [hp] at ho; cases ho
    | panic _ => rw [hp] at ho; cases ho
    | fuel => rw [hp] at ho; cases ho
  · intro i o r ho
    simp only [Comb.pure, Res.ok.injEq] at ho
    obtain ⟨rfl, rfl⟩ := ho
    exact ⟨List.suffix_refl _, by simp⟩

theorem within_cutErr {sp : α → List RSpan} {pT : Parser α} (h : Within sp pT) : Within sp (cutErr pT) := by
  intro i a r ha
  simp only [cutErr] at ha
  cases hp : pT i with
  | ok a' r1 => rw [hp] at ha; exact h i a r (by rw [hp]; exact ha)
  | bt _ => rw [hp] at ha; cases ha
  | cut _ => rw [hp] at ha; cases ha
  | panic _ => rw [hp] at ha; cases ha
  | fuel => rw [hp] at ha; cases ha

theorem within_repeat0Loop {sp : α → List RSpan} {pT : Parser α} (h : Within sp pT) :
    ∀ (n : Nat) (i0 i : List Char) (acc : List α), i <:+ i0 →
      (∀ x ∈ acc, ∀ s ∈ sp x, Between i0 i s) →
      ∀ l r, repeat0Loop pT n i acc = .ok l r → r <:+ i ∧ ∀ x ∈ l, ∀ s ∈ sp x, Between i0 r s := by
  intro n
  induction n with
  | zero => intro i0 i acc _ _ l r hl; cases hl
  | succ n ih =>
    intro i0 i acc hi hacc l r hl
    simp only [repeat0Loop] at hl
    cases hp : pT i with
    | ok a r1 =>
      rw [hp] at hl
      simp only at hl
      obtain ⟨h1, h2⟩ := h i a r1 hp
      split at hl
      · cases hl
      · obtain ⟨h3, h4⟩ := ih i0 r1 (acc ++ [a]) (h1.trans hi) (by
          intro x hx s hs
          rcases List.mem_append.1 hx with hx | hx
          · exact (hacc x hx s hs).mono (List.suffix_refl _) h1
          · simp only [List.mem_singleton] at hx
            subst hx
            rcases h2 s hs with h5 | h5
            · simp at h5
            · exact h5.mono hi (List.suffix_refl _)) l r hl
        exact ⟨h3.trans h1, h4⟩
    | bt _ =>
      rw [hp] at hl
      simp only [Res.ok.injEq] at hl
      obtain ⟨rfl, rfl⟩ := hl
      exact ⟨List.suffix_refl _, hacc⟩
    | cut _ => rw [hp] at hl; cases hl
    | panic _ => rw [hp] at hl; cases hl
    | fuel => rw [hp] at hl; cases hl

theorem within_repeat0 {sp : α → List RSpan} {pT : Parser α} (h : Within sp pT) :
    Within (fun l => l.flatMap sp) (repeat0 pT) := by
  intro i l r hl
  obtain ⟨h1, h2⟩ := within_repeat0Loop h (i.length + 1) i i [] (List.suffix_refl _) (by simp) l r hl
  refine ⟨h1, fun s hs => ?_⟩
  obtain ⟨x, hx, hsx⟩ := List.mem_flatMap.1 hs
  exact .inr (h2 x hx s hsx)

/-! ### the grammar -/

theorem within_postingAccount : Within (fun t => [t.span]) postingAccountT := by
  unfold postingAccountT
  refine within_terminated (within_decorate_plain (k := 1) ?_) (safe_space0 (Nat.le_refl 0))
  safe_tac

theorem within_lotLoop : ∀ (n : Nat) (l : TLot) (i0 i : List Char), i <:+ i0 → (∀ s ∈ l.spans, Between i0 i s) →
    ∀ l' r, lotLoopT n l i = .ok l' r → r <:+ i ∧ ∀ s ∈ l'.spans, Between i0 r s := by
  intro n
  induction n with
  | zero => intro l i0 i _ _ l' r h; cases h
  | succ n ih =>
    intro l i0 i hi hl l' r h
    -- one round: a bracketed form `p` (spans `sp`), blanks, then the loop again with `upd`
    have round : ∀ {β : Type} (p : Parser β) (sp : β → List RSpan) (upd : β → TLot), Within sp p →
        (∀ b, ∀ s ∈ (upd b).spans, s ∈ sp b ∨ s ∈ l.spans) →
        (p >>- fun b => space0 >>- fun _ => lotLoopT n (upd b)) i = .ok l' r →
        r <:+ i ∧ ∀ s ∈ l'.spans, Between i0 r s := by
      intro β p sp upd hp hupd hrun
      simp only [Comb.bind] at hrun
      cases hpi : p i with
      | ok b r1 =>
        rw [hpi] at hrun
        simp only [Res.andThen_ok] at hrun
        simp only [Comb.bind] at hrun
        obtain ⟨h1, h2⟩ := hp i b r1 hpi
        have hs0 := (safe_space0 (Nat.le_refl 0)).good r1
        cases hsp : space0 r1 with
        | ok u r2 =>
          rw [hsp] at hrun hs0
          simp only [Res.andThen_ok] at hrun
          obtain ⟨h3, _⟩ := hs0
          obtain ⟨h4, h5⟩ := ih (upd b) i0 r2 (h3.trans (h1.trans hi)) (by
            intro s hs
            rcases hupd b s hs with h6 | h6
            · rcases h2 s h6 with h7 | h7
              · simp at h7
              · exact h7.mono hi h3
            · exact (hl s h6).mono (List.suffix_refl _) (h3.trans h1)) l' r hrun
          exact ⟨h4.trans (h3.trans h1), h5⟩
        | bt _ => rw [hsp] at hrun; cases hrun
        | cut _ => rw [hsp] at hrun; cases hrun
        | panic _ => rw [hsp] at hrun; cases hrun
        | fuel => rw [hsp] at hrun; cases hrun
      | bt _ => rw [hpi] at hrun; cases hrun
      | cut _ => rw [hpi] at hrun; cases hrun
      | panic _ => rw [hpi] at hrun; cases hrun
      | fuel => rw [hpi] at hrun; cases hrun
    unfold lotLoopT at h
    split at h
    · split at h
      · exact round (decorate lotAmount) (fun t => [t.span]) _ (within_decorate_plain safe_lotAmount)
          (fun b s hs => by simp [TLot.spans] at hs; exact .inl (by simp [hs])) h
      · cases h
    · split at h
      · refine round _ (fun _ => []) _ (within_of_safe (k := 1) (by safe_tac)) (fun b s hs => ?_) h
        right; simpa [TLot.spans] using hs
      · cases h
    · split at h
      · refine round _ (fun _ => []) _ (within_of_safe (k := 1) (by safe_tac)) (fun b s hs => ?_) h
        right; simpa [TLot.spans] using hs
      · cases h
    · simp only [Res.ok.injEq] at h
      obtain ⟨rfl, rfl⟩ := h
      exact ⟨List.suffix_refl _, hl⟩

theorem within_lot : Within TLot.spans lotT := by
  unfold lotT
  refine within_bind (within_of_safe (safe_space0 (Nat.le_refl 0))) fun _ r1 => ?_
  intro l r h
  obtain ⟨h1, h2⟩ := within_lotLoop (r1.length + 1) {} r1 r1 (List.suffix_refl _) (by simp [TLot.spans]) l r h
  exact ⟨h1, fun s hs => .inr (h2 s hs)⟩

theorem safe_costT (b : Bool) : Safe 2 (condElse b totalCost rateCost) := by safe_tac

theorem within_postingAmount : Within TPostingAmount.spans postingAmountT := by
  unfold postingAmountT
  intro i
  refine okIn_bind (sp := fun t => [t.span])
    (within_terminated (within_decorate_plain safe_valueExpr) (safe_space0 (Nat.le_refl 0))) fun amount r1 _ => ?_
  refine okIn_bind within_lot fun l r2 _ => ?_
  refine okIn_bind (within_of_safe (k := 0) (by safe_tac)) fun isAt r3 _ => ?_
  refine okIn_bind (within_of_safe (k := 0) (by safe_tac)) fun isDoubleAt r4 _ => ?_
  refine okIn_bind (within_cond isAt (within_decorate_plain (safe_costT isDoubleAt))) fun cost r5 _ => ?_
  refine okIn_pure _ _ fun s hs => ?_
  cases cost <;> simp [TPostingAmount.spans] at hs ⊢ <;> grind

theorem within_posting : Within TPosting.spans postingT := by
  unfold postingT
  intro i
  refine okIn_bind (within_of_safe (k := 0) (by safe_tac)) fun cs r1 _ => ?_
  refine okIn_bind within_postingAccount fun account r2 _ => ?_
  refine okIn_bind (within_of_safe (k := 0) (by safe_tac)) fun shortcut r3 _ => ?_
  split
  · refine okIn_bind (within_of_safe safe_blockMetadata) fun md r4 _ => ?_
    refine okIn_pure _ _ fun s hs => ?_
    simp only [TPosting.spans, Option.map_none, Option.getD_none, Option.toList_none, List.append_nil,
      List.mem_singleton] at hs
    simp [hs]
  · refine okIn_bind (within_opt (within_terminated within_postingAmount (safe_space0 (Nat.le_refl 0))))
      fun amount r4 _ => ?_
    refine okIn_bind (within_opt (within_decorate_plain (k := 2) (by safe_tac))) fun balance r5 _ => ?_
    refine okIn_bind (within_of_safe safe_blockMetadata) fun md r6 _ => ?_
    refine okIn_pure _ _ fun s hs => ?_
    cases balance <;> cases amount <;> simp [TPosting.spans] at hs ⊢ <;> grind

theorem within_transaction : Within TTransaction.spans transactionT := by
  unfold transactionT
  intro i
  refine okIn_bind (within_of_safe safe_date) fun d r1 _ => ?_
  refine okIn_bind (within_of_safe (k := 0) (by safe_tac)) fun ed r2 _ => ?_
  refine okIn_bind (within_of_safe (k := 0) (by safe_tac)) fun isShortest r3 _ => ?_
  refine okIn_bind (within_of_safe (k := 0) (by safe_tac)) fun _ r4 _ => ?_
  refine okIn_bind (within_of_safe safe_clearState) fun cs r5 _ => ?_
  refine okIn_bind (within_of_safe (k := 0) (by safe_tac)) fun code r6 _ => ?_
  refine okIn_bind (within_of_safe (k := 0) (by safe_tac)) fun payee r7 _ => ?_
  refine okIn_bind (within_of_safe safe_blockMetadata) fun md r8 _ => ?_
  refine okIn_bind (sp := fun l => l.flatMap postSpans)
    (within_repeat0 (within_preceded (k := 1) (by safe_tac) (within_cutErr (within_decorate within_posting))))
    fun posts r9 _ => ?_
  refine okIn_pure _ _ fun s hs => ?_
  simp only [TTransaction.spans] at hs
  simp [hs]

/-- **every span the `Tracking` decoration records while `parse_ledger_entry` succeeds lies between the first and the
last byte that entry consumed** -/
theorem within_parseLedgerEntry : Within TEntry.spans parseLedgerEntryT := by
  intro i e r h
  have hsafe := safe_parseLedgerEntryT.good i
  rw [h] at hsafe
  refine ⟨hsafe.1, fun s hs => ?_⟩
  cases e with
  | other e => simp [TEntry.spans] at hs
  | txn t =>
    -- only the digit arm yields a transaction
    unfold parseLedgerEntryT at h
    cases i with
    | nil => cases h
    | cons c rest =>
      simp only [dispatch] at h
      have key : ∀ (p : Parser Entry), Comb.map TEntry.other p (c :: rest) ≠ .ok (.txn t) r := by
        intro p hp
        simp only [Comb.map] at hp
        cases hq : p (c :: rest) <;> rw [hq] at hp <;> simp [Res.map] at hp
      split at h
      · exact absurd h (key _)
      · split at h
        · exact absurd h (key _)
        · split at h
          · exact absurd h (key _)
          · split at h
            · exact absurd h (key _)
            · split at h
              · exact absurd h (key _)
              · split at h
                · simp only [Comb.map] at h
                  cases ht : transactionT (c :: rest) with
                  | ok t' r' =>
                    rw [ht] at h
                    simp only [Res.map_ok, Res.ok.injEq, TEntry.txn.injEq] at h
                    obtain ⟨rfl, rfl⟩ := h
                    exact (within_transaction (c :: rest) t' r' ht).2 s hs
                  | bt _ => rw [ht] at h; cases h
                  | cut _ => rw [ht] at h; cases h
                  | panic _ => rw [ht] at h; cases h
                  | fuel => rw [ht] at h; cases h
                · cases h

/-! ## the tracked spans of the entries `parse_ledger` delivers -/

theorem parseLedgerRunT_eq (t : List Char) :
    parseLedgerRunT t =
      ((parsedIter parseLedgerEntryT verticalSpaces t (t.length + 1) t []).1.map (fun (s, u, x) => ⟨s, u, x⟩),
       (parsedIter parseLedgerEntryT verticalSpaces t (t.length + 1) t []).2) := by
  simp only [parseLedgerRunT]

/-- **Tracked spans lie inside the entry span, for every text.**  For every entry `x` delivered by
`parse_ledger::<Tracking>` on `t` (also those delivered before an error) and every `TrackedSpan(a..b)` in it:
`x.start ≤ a ≤ b ≤ x.stop`, and `a`, `b` are character boundaries of the text.  The entry span itself is a non-empty
valid slice of the text. -/
theorem parseLedgerRunT_tracked (t : List Char) (x : ParsedT) (hx : x ∈ (parseLedgerRunT t).1) :
    x.start < x.stop ∧ x.stop ≤ (encode t).length ∧
    (PCtx.mk (encode t) ⟨x.start, x.stop⟩).validSlice = true ∧
    ∀ ab ∈ x.trackedRanges (utf8Len t),
      x.start ≤ ab.1 ∧ ab.1 ≤ ab.2 ∧ ab.2 ≤ x.stop ∧
      isCharBoundary (encode t) ab.1 = true ∧ isCharBoundary (encode t) ab.2 = true := by
  obtain ⟨j, ⟨_, hdel, _⟩, _⟩ := parsedIter_run safe_parseLedgerEntryT safe_verticalSpaces t (t.length + 1) t []
    ⟨List.suffix_refl t, by simp, by simp⟩
  rw [parseLedgerRunT_eq] at hx
  obtain ⟨y, hy, rfl⟩ := List.mem_map.1 hx
  have hd := hdel y hy
  obtain ⟨v1, v2, v3⟩ := hd.spanOK.valid
  refine ⟨v1, v2, v3, ?_⟩
  obtain ⟨i1, r, h1, h2, h3, hp, h5, h6⟩ := hd
  intro ab hab
  simp only [ParsedT.trackedRanges, List.mem_map] at hab
  obtain ⟨s, hs, rfl⟩ := hab
  rcases (within_parseLedgerEntry i1 y.2.2 r hp).2 s hs with hbad | ⟨a, b, b1, b2, b3, rfl⟩
  · simp at hbad
  · have l1 := utf8Len_suffix_le b1
    have l2 := utf8Len_suffix_le b2
    have l3 := utf8Len_suffix_le b3
    have l4 := utf8Len_suffix_le h2
    simp only [RSpan.toRange]
    refine ⟨?_, ?_, ?_, ?_, ?_⟩
    · show y.1 ≤ _; omega
    · omega
    · show _ ≤ y.2.1; omega
    · exact isCharBoundary_suffix t a (b3.trans h2)
    · exact isCharBoundary_suffix t b (b2.trans (b3.trans h2))

/-- the text in front of a delivered entry: `t = pre ++ i1`, the entry starts where `pre` ends and was parsed from `i1` -/
theorem parseLedgerRunT_delivered (t : List Char) (x : ParsedT) (hx : x ∈ (parseLedgerRunT t).1) :
    ∃ pre i1 r, t = pre ++ i1 ∧ r <:+ i1 ∧ parseLedgerEntryT i1 = .ok x.entry r ∧
      x.start = (encode pre).length ∧ x.stop = utf8Len t - utf8Len r := by
  obtain ⟨j, ⟨_, hdel, _⟩, _⟩ := parsedIter_run safe_parseLedgerEntryT safe_verticalSpaces t (t.length + 1) t []
    ⟨List.suffix_refl t, by simp, by simp⟩
  rw [parseLedgerRunT_eq] at hx
  obtain ⟨y, hy, rfl⟩ := List.mem_map.1 hx
  obtain ⟨i1, r, h1, ⟨pre, rfl⟩, _, hp, h5, h6⟩ := hdel y hy
  refine ⟨pre, i1, r, rfl, h1, hp, ?_, h6⟩
  show y.1 = _
  rw [h5, utf8Len_append, length_encode]; omega

/-! ## which tracked spans a `BookKeepError` carries (`report/book_keeping.rs`)

`add_transaction` / `process_posting` / `check_exchange` build their errors from `.span()` of items **of the
transaction being processed**: `posting.span()` (`UndeduciblePostingAmount`, lines 191–201),
`posting.account.span()` and the balance's `.span()` (`BalanceAssertionFailure`, 293–294), `exchange.span()` where
`exchange` is the posting's cost or lot price (`ZeroExchangeRate`, `ZeroAmountWithExchange`, 427–430), and
`syntax_amount.amount.span()` with it (`ExchangeWithAmountCommodity`, 434–435). -/

def RSpan.range (total : Nat) (s : RSpan) : Range := ⟨total - s.before, total - s.after⟩

/-- the exchange of a posting amount that `check_exchange` looks at: the cost or the lot price -/
def IsExchangeOf (a : TPostingAmount) (x : Tracked Exchange) : Prop := a.cost = some x ∨ a.lot.price = some x

/-- `e` carries spans of items of the transaction `tt` (of a file of `total` bytes), the way `book_keeping.rs` picks them -/
inductive SpansFrom (total : Nat) (tt : TTransaction) : BkSpans → Prop where
  | undeducible (i j : Nat) (p q : Tracked TPosting) (hi : tt.posts[i]? = some p) (hj : tt.posts[j]? = some q) :
      SpansFrom total tt (.undeducible (p.span.range total) (q.span.range total))
  | assertion (i : Nat) (p : Tracked TPosting) (b : Tracked VExpr) (hi : tt.posts[i]? = some p)
      (hb : p.value.balance = some b) :
      SpansFrom total tt (.assertion (b.span.range total) (p.value.account.span.range total))
  | zeroAmountWithExchange (i : Nat) (p : Tracked TPosting) (a : TPostingAmount) (x : Tracked Exchange)
      (hi : tt.posts[i]? = some p) (ha : p.value.amount = some a) (hx : IsExchangeOf a x) :
      SpansFrom total tt (.zeroAmountWithExchange (x.span.range total))
  | zeroExchangeRate (i : Nat) (p : Tracked TPosting) (a : TPostingAmount) (x : Tracked Exchange)
      (hi : tt.posts[i]? = some p) (ha : p.value.amount = some a) (hx : IsExchangeOf a x) :
      SpansFrom total tt (.zeroExchangeRate (x.span.range total))
  | exchangeWithAmountCommodity (i : Nat) (p : Tracked TPosting) (a : TPostingAmount) (x : Tracked Exchange)
      (hi : tt.posts[i]? = some p) (ha : p.value.amount = some a) (hx : IsExchangeOf a x) :
      SpansFrom total tt (.exchangeWithAmountCommodity (a.amount.span.range total) (x.span.range total))
  | other : SpansFrom total tt .other

theorem mem_spans_of_post {tt : TTransaction} {i : Nat} {p : Tracked TPosting} (hi : tt.posts[i]? = some p)
    {s : RSpan} (hs : s ∈ postSpans p) : s ∈ tt.spans :=
  List.mem_flatMap.2 ⟨p, List.mem_of_getElem? hi, hs⟩

theorem exchange_span_mem {a : TPostingAmount} {x : Tracked Exchange} (hx : IsExchangeOf a x) : x.span ∈ a.spans := by
  rcases hx with h | h <;> simp [TPostingAmount.spans, TLot.spans, h]

/-- every span such an error carries is one of the tracked spans of the transaction -/
theorem SpansFrom.mem {total : Nat} {tt : TTransaction} {e : BkSpans} (h : SpansFrom total tt e) :
    ∀ r ∈ e.tracked, ∃ s ∈ tt.spans, r = s.range total := by
  cases h with
  | undeducible i j p q hi hj =>
    intro r hr
    simp only [BkSpans.tracked, List.mem_cons, List.not_mem_nil, or_false] at hr
    rcases hr with rfl | rfl
    · exact ⟨_, mem_spans_of_post hi (by simp [postSpans]), rfl⟩
    · exact ⟨_, mem_spans_of_post hj (by simp [postSpans]), rfl⟩
  | assertion i p b hi hb =>
    intro r hr
    simp only [BkSpans.tracked, List.mem_cons, List.not_mem_nil, or_false] at hr
    rcases hr with rfl | rfl
    · exact ⟨_, mem_spans_of_post hi (by simp [postSpans, TPosting.spans, hb]), rfl⟩
    · exact ⟨_, mem_spans_of_post hi (by simp [postSpans, TPosting.spans]), rfl⟩
  | zeroAmountWithExchange i p a x hi ha hx =>
    intro r hr
    simp only [BkSpans.tracked, List.mem_cons, List.not_mem_nil, or_false] at hr
    subst hr
    exact ⟨_, mem_spans_of_post hi (by simp [postSpans, TPosting.spans, ha, exchange_span_mem hx]), rfl⟩
  | zeroExchangeRate i p a x hi ha hx =>
    intro r hr
    simp only [BkSpans.tracked, List.mem_cons, List.not_mem_nil, or_false] at hr
    subst hr
    exact ⟨_, mem_spans_of_post hi (by simp [postSpans, TPosting.spans, ha, exchange_span_mem hx]), rfl⟩
  | exchangeWithAmountCommodity i p a x hi ha hx =>
    intro r hr
    simp only [BkSpans.tracked, List.mem_cons, List.not_mem_nil, or_false] at hr
    rcases hr with rfl | rfl
    · exact ⟨_, mem_spans_of_post hi (by simp [postSpans, TPosting.spans, ha, TPostingAmount.spans]), rfl⟩
    · exact ⟨_, mem_spans_of_post hi (by simp [postSpans, TPosting.spans, ha, exchange_span_mem hx]), rfl⟩
  | other => intro r hr; cases hr

/-- **the hypothesis `hin` of `C14_bookkeep`, for every text**: a tracked span of a delivered entry, as a `Range`,
lies within the entry span -/
theorem tracked_within (t : List Char) (x : ParsedT) (hx : x ∈ (parseLedgerRunT t).1) (s : RSpan)
    (hs : s ∈ x.entry.spans) : (s.range (utf8Len t)).within ⟨x.start, x.stop⟩ := by
  obtain ⟨_, _, _, h⟩ := parseLedgerRunT_tracked t x hx
  obtain ⟨h1, h2, h3, _, _⟩ := h (s.toRange (utf8Len t)) (List.mem_map.2 ⟨s, hs, rfl⟩)
  exact ⟨h1, h2, h3⟩

end Okane.ParseSpans
