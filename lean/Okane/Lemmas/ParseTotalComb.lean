import Okane.Model.Comb
/-!
# Totality of the parser combinators (C06): `Safe k p`

`Res.Good k i res` says that `res`, the result of running some parser on the input `i`, is well behaved:
* it is neither `panic _` (winnow's `ParserError::assert`) nor `fuel` (a loop of the model ran out of fuel);
* on success the remaining input is a **suffix** of `i` and at least `k` characters shorter;
* on failure (`bt` / `cut`) the position at which the stream was left is a suffix of `i`.

`Safe k p := ∀ i, (p i).Good k i`.  One lemma per combinator of `Okane.Comb`; the three loops
(`repeat0Loop`, `repeatTillLoop`, `separatedLoop`) need their repeated element (resp. separator) to be `Safe 1`
— then neither their `assert` site nor their fuel bound `length + 1` is ever hit.

All lemmas carry their arithmetic as a side condition `n ≤ …` so that the tactic `safe_tac` can
apply them to goals `Safe ?n p` with `?n` still unknown (it is then chosen as large as possible).
-/
namespace Okane.Comb
open Res

variable {α β γ : Type}

/-- well-behaved result of a parser run on `i` (see the module comment) -/
def Res.Good (k : Nat) (i : List Char) : Res α → Prop
  | .ok _ r => r <:+ i ∧ r.length + k ≤ i.length
  | .bt p => p <:+ i
  | .cut p => p <:+ i
  | .panic _ => False
  | .fuel => False

/-- `p` never panics, never runs out of fuel, only ever moves forward inside its input, and consumes at least
`k` characters when it succeeds -/
structure Safe (k : Nat) (p : Parser α) : Prop where
  good : ∀ i, (p i).Good k i

@[simp] theorem Res.good_ok {k : Nat} {i r : List Char} {a : α} :
    (Res.ok a r).Good k i ↔ (r <:+ i ∧ r.length + k ≤ i.length) := Iff.rfl
@[simp] theorem Res.good_bt {k : Nat} {i p : List Char} : (Res.bt p : Res α).Good k i ↔ p <:+ i := Iff.rfl
@[simp] theorem Res.good_cut {k : Nat} {i p : List Char} : (Res.cut p : Res α).Good k i ↔ p <:+ i := Iff.rfl
@[simp] theorem Res.good_panic {k : Nat} {i : List Char} {s : String} : (Res.panic s : Res α).Good k i ↔ False := Iff.rfl
@[simp] theorem Res.good_fuel {k : Nat} {i : List Char} : (Res.fuel : Res α).Good k i ↔ False := Iff.rfl

/-- a result that is good for a suffix `r` of `i` is good for `i`, and the consumption adds up -/
theorem Res.Good.lift {k m n : Nat} {i r : List Char} {res : Res α} (h : res.Good k r) (hs : r <:+ i)
    (hl : r.length + m ≤ i.length) (hn : n ≤ m + k) : res.Good n i := by
  cases res with
  | ok a r' =>
    obtain ⟨h1, h2⟩ := h
    exact ⟨h1.trans hs, by omega⟩
  | bt p => exact List.IsSuffix.trans h hs
  | cut p => exact List.IsSuffix.trans h hs
  | panic s => exact h
  | fuel => exact h

theorem Res.Good.mono {k n : Nat} {i : List Char} {res : Res α} (h : res.Good k i) (hn : n ≤ k) : res.Good n i :=
  h.lift (m := 0) (List.suffix_refl i) (by omega) (by omega)

theorem Res.Good.andThen {k m n : Nat} {i : List Char} {res : Res α} {f : α → List Char → Res β}
    (h : res.Good k i) (hf : ∀ a r, r <:+ i → r.length + k ≤ i.length → (f a r).Good m r) (hn : n ≤ k + m) :
    (res.andThen f).Good n i := by
  cases res with
  | ok a r =>
    obtain ⟨h1, h2⟩ := h
    exact (hf a r h1 h2).lift h1 h2 hn
  | bt p => exact h
  | cut p => exact h
  | panic s => exact h
  | fuel => exact h

theorem Res.Good.map {k : Nat} {i : List Char} {res : Res α} (f : α → β) (h : res.Good k i) : (res.map f).Good k i := by
  cases res <;> exact h

theorem Safe.mono {k n : Nat} {p : Parser α} (h : Safe k p) (hn : n ≤ k) : Safe n p := ⟨fun i => (h.good i).mono hn⟩

/-! ## sequencing -/

theorem safe_pure {n : Nat} (a : α) (hn : n ≤ 0) : Safe n (pure a) := Safe.mk fun i => by
  simp [pure]; omega

theorem safe_bind {k m n : Nat} {p : Parser α} {f : α → Parser β} (hp : Safe k p) (hf : ∀ a, Safe m (f a))
    (hn : n ≤ k + m) : Safe n (p >>- f) := ⟨fun i =>
  (hp.good i).andThen (fun a r _ _ => (hf a).good r) hn⟩

theorem safe_map {n : Nat} {p : Parser α} (f : α → β) (hp : Safe n p) : Safe n (map f p) := ⟨fun i => (hp.good i).map f⟩
theorem safe_value {n : Nat} {p : Parser α} (b : β) (hp : Safe n p) : Safe n (value b p) := safe_map _ hp
theorem safe_void {n : Nat} {p : Parser α} (hp : Safe n p) : Safe n (void p) := safe_map _ hp
theorem safe_fail {n : Nat} : Safe n (fail : Parser α) := Safe.mk fun i => by simp [fail]

theorem safe_pair {k m n : Nat} {p : Parser α} {q : Parser β} (hp : Safe k p) (hq : Safe m q) (hn : n ≤ k + m) :
    Safe n (pair p q) := safe_bind hp (fun _ => safe_map _ hq) hn
theorem safe_preceded {k m n : Nat} {p : Parser α} {q : Parser β} (hp : Safe k p) (hq : Safe m q) (hn : n ≤ k + m) :
    Safe n (preceded p q) := safe_bind hp (fun _ => hq) hn
theorem safe_terminated {k m n : Nat} {p : Parser α} {q : Parser β} (hp : Safe k p) (hq : Safe m q) (hn : n ≤ k + m) :
    Safe n (terminated p q) := safe_bind hp (fun _ => safe_map _ hq) hn
theorem safe_delimited {k m j n : Nat} {l : Parser α} {p : Parser β} {r : Parser γ} (hl : Safe k l) (hp : Safe m p)
    (hr : Safe j r) (hn : n ≤ k + (m + j)) : Safe n (delimited l p r) :=
  safe_preceded hl (safe_terminated hp hr (Nat.le_refl _)) hn

/-! ## tokens -/

theorem safe_any {n : Nat} (hn : n ≤ 1) : Safe n any := Safe.mk fun i => by
  cases i with
  | nil => simp [any]
  | cons c r => simp [any]; omega

theorem safe_oneOf {n : Nat} (f : Char → Bool) (hn : n ≤ 1) : Safe n (oneOf f) := Safe.mk fun i => by
  cases i with
  | nil => simp [oneOf]
  | cons c r =>
    simp only [oneOf]
    split
    · simp; omega
    · simp

theorem safe_char {n : Nat} (c : Char) (hn : n ≤ 1) : Safe n (char c) := safe_oneOf _ hn

theorem safe_literal {n : Nat} (s : List Char) (hn : n ≤ s.length) : Safe n (literal s) := Safe.mk fun i => by
  simp only [literal]
  split
  · rename_i h
    have hl : s.length ≤ i.length := (List.isPrefixOf_iff_prefix.1 h).length_le
    simp [List.drop_suffix]; omega
  · simp

theorem safe_takeWhile0 {n : Nat} (f : Char → Bool) (hn : n ≤ 0) : Safe n (takeWhile0 f) := Safe.mk fun i => by
  simp [takeWhile0, List.dropWhile_suffix]
  have := (List.dropWhile_suffix f (l := i)).length_le
  omega

theorem safe_takeWhile1 {n : Nat} (f : Char → Bool) (hn : n ≤ 1) : Safe n (takeWhile1 f) := Safe.mk fun i => by
  cases i with
  | nil => simp [takeWhile1]
  | cons c r =>
    simp only [takeWhile1]
    split
    · rename_i h
      have h2 := (List.dropWhile_suffix f (l := r)).length_le
      simp [h]
      exact ⟨(List.dropWhile_suffix f).trans (List.suffix_cons c r), by omega⟩
    · simp

theorem safe_takeTill0 {n : Nat} (f : Char → Bool) (hn : n ≤ 0) : Safe n (takeTill0 f) := safe_takeWhile0 _ hn
theorem safe_takeTill1 {n : Nat} (f : Char → Bool) (hn : n ≤ 1) : Safe n (takeTill1 f) := safe_takeWhile1 _ hn
theorem safe_space0 {n : Nat} (hn : n ≤ 0) : Safe n space0 := safe_takeWhile0 _ hn
theorem safe_space1 {n : Nat} (hn : n ≤ 1) : Safe n space1 := safe_takeWhile1 _ hn
theorem safe_digit1 {n : Nat} (hn : n ≤ 1) : Safe n digit1 := safe_takeWhile1 _ hn

theorem safe_eof {n : Nat} (hn : n ≤ 0) : Safe n eof := Safe.mk fun i => by
  cases i with
  | nil => simp [eof]; omega
  | cons c r => simp [eof]

theorem safe_lineEnding {n : Nat} (hn : n ≤ 1) : Safe n lineEnding := Safe.mk fun i => by
  unfold lineEnding
  split
  · simp; omega
  · simp
    refine ⟨(List.suffix_cons _ _).trans (List.suffix_cons _ _), by omega⟩
  · simp

theorem safe_tillLineEnding {n : Nat} (hn : n ≤ 0) : Safe n tillLineEnding := Safe.mk fun i => by
  have hs := List.dropWhile_suffix (fun c => !isEol c) (l := i)
  have hl := hs.length_le
  simp only [tillLineEnding]
  generalize List.dropWhile (fun c => !isEol c) i = rest at hs hl ⊢
  split <;> simp_all <;> omega

/-! ## control -/

theorem safe_opt {k n : Nat} {p : Parser α} (hp : Safe k p) (hn : n ≤ 0) : Safe n (opt p) := Safe.mk fun i => by
  have := hp.good i
  simp only [opt]
  split <;> simp_all <;> omega

theorem safe_peek {k n : Nat} {p : Parser α} (hp : Safe k p) (hn : n ≤ 0) : Safe n (peek p) := Safe.mk fun i => by
  have := hp.good i
  simp only [peek]
  split <;> simp_all

theorem safe_not {k n : Nat} {p : Parser α} (hp : Safe k p) (hn : n ≤ 0) : Safe n (Comb.not p) := Safe.mk fun i => by
  have := hp.good i
  simp only [Comb.not]
  split <;> simp_all

theorem safe_hasPeek {k n : Nat} {p : Parser α} (hp : Safe k p) (hn : n ≤ 0) : Safe n (hasPeek p) := Safe.mk fun i => by
  have := hp.good i
  simp only [hasPeek]
  split <;> simp_all

theorem safe_cutErr {n : Nat} {p : Parser α} (hp : Safe n p) : Safe n (cutErr p) := Safe.mk fun i => by
  have := hp.good i
  simp only [cutErr]
  split <;> simp_all

theorem safe_alt2 {k m n : Nat} {p q : Parser α} (hp : Safe k p) (hq : Safe m q) (hn : n ≤ min k m) :
    Safe n (p <|| q) := Safe.mk fun i => by
  have h1 := hp.good i
  have h2 := hq.good i
  simp only [alt2]
  split
  · exact h2.mono (by omega)
  · exact h1.mono (by omega)

theorem safe_cond {k n : Nat} {p : Parser α} (b : Bool) (hp : Safe k p) (hn : n ≤ 0) : Safe n (cond b p) := by
  unfold cond
  split
  · exact safe_map _ (hp.mono (by omega))
  · exact safe_pure _ hn

theorem safe_condElse {k m n : Nat} {p q : Parser α} (b : Bool) (hp : Safe k p) (hq : Safe m q) (hn : n ≤ min k m) :
    Safe n (condElse b p q) := by
  unfold condElse
  split
  · exact hp.mono (by omega)
  · exact hq.mono (by omega)

theorem safe_ite {k m n : Nat} {p q : Parser α} (b : Prop) [Decidable b] (hp : Safe k p) (hq : Safe m q)
    (hn : n ≤ min k m) : Safe n (if b then p else q) := by
  split
  · exact hp.mono (by omega)
  · exact hq.mono (by omega)

theorem safe_tryMap {n : Nat} {p : Parser α} (f : α → Option β) (hp : Safe n p) : Safe n (tryMap p f) := Safe.mk fun i => by
  have := hp.good i
  simp only [tryMap]
  split
  · split <;> simp_all
  all_goals simp_all

theorem safe_withTaken {n : Nat} {p : Parser α} (hp : Safe n p) : Safe n (withTaken p) := Safe.mk fun i => by
  have := hp.good i
  simp only [withTaken]
  split <;> simp_all

theorem safe_take {n : Nat} {p : Parser α} (hp : Safe n p) : Safe n (take p) := safe_map _ (safe_withTaken hp)

theorem safe_dispatch {n : Nat} {arms : Char → Parser α} (h : ∀ c, Safe n (arms c)) : Safe n (dispatch arms) := Safe.mk fun i => by
  cases i with
  | nil => simp [dispatch]
  | cons c r => exact (h c).good (c :: r)

theorem safe_dispatchOpt {n : Nat} {arms : Option Char → Parser α} (h : ∀ c, Safe n (arms c)) :
    Safe n (dispatchOpt arms) := Safe.mk fun i => by
  cases i with
  | nil => exact (h none).good []
  | cons c r => exact (h (some c)).good (c :: r)

/-! ## repetition: neither the `assert` site nor the fuel bound `length + 1` is reachable when the repeated
element (resp. the separator) consumes at least one character whenever it succeeds -/

theorem repeat0Loop_good {p : Parser α} (hp : Safe 1 p) :
    ∀ (n : Nat) (i : List Char) (acc : List α), i.length < n → (repeat0Loop p n i acc).Good 0 i := by
  intro n
  induction n with
  | zero => intro i acc h; omega
  | succ n ih =>
    intro i acc hlt
    have h := hp.good i
    simp only [repeat0Loop]
    split
    · rename_i a r he
      rw [he] at h
      obtain ⟨h1, h2⟩ := h
      rw [if_neg (by omega)]
      exact (ih r (acc ++ [a]) (by omega)).lift (m := 0) h1 (by omega) (Nat.le_refl _)
    · simp
    · rename_i q he; rw [he] at h; exact h
    · rename_i s he; rw [he] at h; exact h
    · rename_i he; rw [he] at h; exact h

theorem safe_repeat0 {n : Nat} {p : Parser α} (hp : Safe 1 p) (hn : n ≤ 0) : Safe n (repeat0 p) := ⟨fun i =>
  (repeat0Loop_good hp (i.length + 1) i [] (Nat.lt_succ_self _)).mono hn⟩

theorem safe_repeat1 {n : Nat} {p : Parser α} (hp : Safe 1 p) (hn : n ≤ 1) : Safe n (repeat1 p) := Safe.mk fun i => by
  have h := hp.good i
  simp only [repeat1]
  split
  · rename_i a r he
    rw [he] at h
    obtain ⟨h1, h2⟩ := h
    exact (repeat0Loop_good hp (r.length + 1) r [a] (Nat.lt_succ_self _)).lift h1 h2 (by omega)
  · rename_i q he; rw [he] at h; exact h
  · rename_i q he; rw [he] at h; exact h
  · rename_i s he; rw [he] at h; exact h
  · rename_i he; rw [he] at h; exact h

theorem repeatTillLoop_good {k : Nat} {f : Parser α} {g : Parser β} (hf : Safe 1 f) (hg : Safe k g) :
    ∀ (n : Nat) (i : List Char) (acc : List α), i.length < n → (repeatTillLoop f g n i acc).Good 0 i := by
  intro n
  induction n with
  | zero => intro i acc h; omega
  | succ n ih =>
    intro i acc hlt
    have h1 := hg.good i
    have h2 := hf.good i
    simp only [repeatTillLoop]
    split
    · rename_i b r he
      rw [he] at h1
      obtain ⟨h3, h4⟩ := h1
      exact ⟨h3, by omega⟩
    · split
      · rename_i a r he
        rw [he] at h2
        obtain ⟨h3, h4⟩ := h2
        rw [if_neg (by omega)]
        exact (ih r (acc ++ [a]) (by omega)).lift (m := 0) h3 (by omega) (Nat.le_refl _)
      · rename_i q he; rw [he] at h2; exact h2
      · rename_i q he; rw [he] at h2; exact h2
      · rename_i s he; rw [he] at h2; exact h2
      · rename_i he; rw [he] at h2; exact h2
    · rename_i q he; rw [he] at h1; exact h1
    · rename_i s he; rw [he] at h1; exact h1
    · rename_i he; rw [he] at h1; exact h1

theorem safe_repeatTill1 {k n : Nat} {f : Parser α} {g : Parser β} (hf : Safe 1 f) (hg : Safe k g) (hn : n ≤ 1) :
    Safe n (repeatTill1 f g) := Safe.mk fun i => by
  have h := hf.good i
  simp only [repeatTill1]
  split
  · rename_i a r he
    rw [he] at h
    obtain ⟨h1, h2⟩ := h
    exact (repeatTillLoop_good hf hg (r.length + 1) r [a] (Nat.lt_succ_self _)).lift h1 h2 (by omega)
  · rename_i q he; rw [he] at h; exact h
  · rename_i q he; rw [he] at h; exact h
  · rename_i s he; rw [he] at h; exact h
  · rename_i he; rw [he] at h; exact h

theorem separatedLoop_good {k : Nat} {p : Parser α} {sep : Parser β} (hp : Safe k p) (hsep : Safe 1 sep) :
    ∀ (n : Nat) (i : List Char) (acc : List α), i.length < n → (separatedLoop p sep n i acc).Good 0 i := by
  intro n
  induction n with
  | zero => intro i acc h; omega
  | succ n ih =>
    intro i acc hlt
    have h1 := hsep.good i
    simp only [separatedLoop]
    split
    · simp
    · rename_i x r he
      rw [he] at h1
      obtain ⟨h3, h4⟩ := h1
      rw [if_neg (by omega)]
      have h2 := hp.good r
      split
      · rename_i a r' he'
        rw [he'] at h2
        obtain ⟨h5, h6⟩ := h2
        exact (ih r' (acc ++ [a]) (by omega)).lift (h5.trans h3) (by omega) (Nat.le_refl _)
      · simp
      · rename_i q he'; rw [he'] at h2; exact List.IsSuffix.trans h2 h3
      · rename_i s he'; rw [he'] at h2; exact h2
      · rename_i he'; rw [he'] at h2; exact h2
    · rename_i q he; rw [he] at h1; exact h1
    · rename_i s he; rw [he] at h1; exact h1
    · rename_i he; rw [he] at h1; exact h1

theorem safe_separated1 {k n : Nat} {p : Parser α} {sep : Parser β} (hp : Safe k p) (hsep : Safe 1 sep) (hn : n ≤ k) :
    Safe n (separated1 p sep) := Safe.mk fun i => by
  have h := hp.good i
  simp only [separated1]
  split
  · rename_i a r he
    rw [he] at h
    obtain ⟨h1, h2⟩ := h
    exact (separatedLoop_good hp hsep (r.length + 1) r [a] (Nat.lt_succ_self _)).lift h1 h2 (by omega)
  · rename_i q he; rw [he] at h; exact h
  · rename_i q he; rw [he] at h; exact h
  · rename_i s he; rw [he] at h; exact h
  · rename_i he; rw [he] at h; exact h

/-! ## the assert sites are real: an element that succeeds without consuming does reach them (non-vacuity) -/

example : repeat0 (pure ()) ['a'] = .panic "repeat: parsers must always consume" := by decide
example : repeat0Loop (char 'a') 1 ['a', 'a'] [] = .fuel := by decide
example : separated1 (char 'a') (pure ()) ['a'] = .panic "separated: separator must always consume" := by decide
example : Safe 1 (repeat1 (char 'a')) := safe_repeat1 (safe_char _ (Nat.le_refl _)) (Nat.le_refl _)

/-! ## the tactic -/

/-- closes the arithmetic side conditions; an unknown left-hand side is chosen as large as possible -/
macro "safe_le" : tactic => `(tactic| first | exact Nat.le_refl _ | omega | decide)

/-- extension point: `macro_rules | `(tactic| safe_leaf) => `(tactic| exact (foo : Safe k p).mono (by safe_le))`
registers a proved grammar rule -/
syntax "safe_leaf" : tactic
macro_rules | `(tactic| safe_leaf) => `(tactic| fail "no registered Safe lemma applies")

/-- one step: a registered rule, a token, or a combinator lemma (leaving its premises, then its side condition).
Unification is syntactic (`with_reducible`): a combinator is recognised by its head symbol only. -/
macro "safe_step" : tactic => `(tactic| first
  | refine Safe.mono (by with_reducible assumption) ?_
  | safe_leaf
  | with_reducible apply (safe_fail (n := 1000000)).mono
  | with_reducible apply safe_pure
  | with_reducible apply safe_any
  | with_reducible apply safe_char
  | with_reducible apply safe_oneOf
  | with_reducible apply safe_literal
  | with_reducible apply safe_takeWhile0
  | with_reducible apply safe_takeWhile1
  | with_reducible apply safe_takeTill0
  | with_reducible apply safe_takeTill1
  | with_reducible apply safe_space0
  | with_reducible apply safe_space1
  | with_reducible apply safe_digit1
  | with_reducible apply safe_eof
  | with_reducible apply safe_lineEnding
  | with_reducible apply safe_tillLineEnding
  | with_reducible apply safe_bind
  | with_reducible apply safe_map
  | with_reducible apply safe_value
  | with_reducible apply safe_void
  | with_reducible apply safe_pair
  | with_reducible apply safe_preceded
  | with_reducible apply safe_terminated
  | with_reducible apply safe_delimited
  | with_reducible apply safe_opt
  | with_reducible apply safe_peek
  | with_reducible apply safe_not
  | with_reducible apply safe_hasPeek
  | with_reducible apply safe_cutErr
  | with_reducible apply safe_alt2
  | with_reducible apply safe_cond
  | with_reducible apply safe_condElse
  | with_reducible apply safe_ite
  | with_reducible apply safe_tryMap
  | with_reducible apply safe_withTaken
  | with_reducible apply safe_take
  | with_reducible apply safe_repeat0
  | with_reducible apply safe_repeat1
  | with_reducible apply safe_repeatTill1
  | with_reducible apply safe_separated1
  | intro _
  | safe_le)

/-- depth first: premises before side conditions -/
macro "safe_tac" : tactic => `(tactic| repeat safe_step)

example : Safe 1 (pair (opt (literal [' '])) (takeTill1 fun c => c == 'x')) := by safe_tac
example : Safe 0 (repeat0 (char 'a' <|| value 'b' (pair space1 (lineEnding <|| void eof)))) := by safe_tac
example : Safe 2 (char 'a' >>- fun _ => space0 >>- fun _ => char 'b') := by safe_tac

end Okane.Comb
