import Okane.Props.C17
import Okane.Model.Unparse
import Okane.Model.ImportCsv
import Okane.Model.ImportCamt
/-!
# C13 for `okane format` and `okane import` (whole-command statements)

## `format`
`FormatOptions::format` = `parse_ledger` followed by `Display` of every entry.  Its model is `Unparse.format w`
(`Model/Unparse.lean`; `w` = the display-width function, a compile-time feature of the real binary).  Neither the
parser model (`Model/Parse.lean`) nor the printer model (`Unparse.printEntry …`) has an order parameter: the syntax
tree holds `Vec`s only and the printer walks them front to back.  What can be *proved* about that is stated here:

* `format_deterministic` — for EVERY type of orders and every way the orders are chosen, the command text is the same
  (an instance of the `Deterministic` schema of `Props/C13.lean`, restated there as `C13_format_cmd`);
* `format_factors`, `format_tree_only` — the text is a function of the parsed tree alone;
* `formatEntries_append`, `formatEntries_cons`, `printTransaction_posts` — the printer emits the entries, and the
  postings of a transaction, in tree order (front to back): there is no place where a re-ordering could enter.

## `import`
The hash map whose iteration order reaches the imported transactions is `FieldMatcher.fields`
(`HashMap<RewriteField, String>`): the AND-element of a rewrite rule is folded in its iteration order (F14).  (Two more
maps are iterated while the configuration is compiled; their order only selects which of two configuration errors is
reported, F32 — not treated here.)  In `Model/Import.lean` the list order of `FieldMatcher.fields` IS
that iteration order, so "another hash seed" is "another rule list, equal up to a permutation of the fields of every
element": `RulesPerm`.

* `extract_field_order` — `Extractor::extract` returns the same fragment for `RulesPerm`-related rule lists, for a
  record on which every element has at most one *interacting* field (one that reads the payee captured so far or
  contributes capture groups; `C17_and_order_partial`);
* `import_field_order` — hence any importer of the form "per record: build the transaction(s) from the record and
  `extract rules record`" (all three importers have this form) returns the same list of transactions;
* `csv_extract_field_order`, `csvImport_field_order` — for the CSV importer the hypothesis always holds when the keys
  of every field map are distinct (as in a `HashMap`): its only interacting field is `payee` itself.  So **F14 cannot
  occur in `okane import` of a CSV file**: the model `csvImport` (whole command after the rules were compiled) returns
  the same transactions / the same error for every iteration order of the rules' field maps.  NOT covered: the two other
  places where the CSV import reads a hash map in iteration order, both only in *which error* is reported for a
  configuration with two faults (finding F32): `Extractor::try_from` (`checkRules`) and `FieldMap::try_new` over
  `format.fields` (`cfg.fields` is held fixed here);
* `camtImport_field_order` — the camt.053 importer model under the hypothesis;
* `import_full_false` — the unconditional statement is false (F14): a Viseca/camt element with two interacting fields.
-/
namespace Okane.C13FI
open Okane Okane.Import

/-! ## `format` -/

/-- **C13_format_cmd** in schema form: whatever the type of orders, the text `okane format` prints (or the parse error
it reports) is the same for every order — the model has no order parameter to depend on. -/
theorem format_deterministic {Orders : Type} (w : List Char → Nat) :
    ∀ (π₁ π₂ : Orders) (text : List Char),
      (fun (_ : Orders) t => Unparse.format w t) π₁ text = (fun (_ : Orders) t => Unparse.format w t) π₂ text :=
  fun _ _ _ => rfl

/-- the command is the parser followed by the printer of the tree -/
theorem format_factors (w : List Char → Nat) (text : List Char) :
    Unparse.format w text = (Parse.parseEntries text).map' (Unparse.formatEntries w) := rfl

/-- two texts with the same tree (or the same parse error) are formatted identically -/
theorem format_tree_only (w : List Char → Nat) (t₁ t₂ : List Char) (h : Parse.parseEntries t₁ = Parse.parseEntries t₂) :
    Unparse.format w t₁ = Unparse.format w t₂ := by
  rw [format_factors, format_factors, h]

/-- an accepted text is printed entry by entry -/
theorem format_ok (w : List Char → Nat) (text : List Char) (es : List Entry) (h : Parse.parseEntries text = .ok es) :
    Unparse.format w text = .ok (Unparse.formatEntries w es) := by
  rw [format_factors, h]; rfl

/-- a rejected text yields the parser's error, whatever the printer is -/
theorem format_err (w : List Char → Nat) (text : List Char) (e : Parse.ParseErr) (h : Parse.parseEntries text = .err e) :
    Unparse.format w text = .err e := by
  rw [format_factors, h]; rfl

/-- **tree order, entries**: the output for a list of entries is the concatenation of the outputs of its parts -/
theorem formatEntries_append (w : List Char → Nat) (es es' : List Entry) :
    Unparse.formatEntries w (es ++ es') = Unparse.formatEntries w es ++ Unparse.formatEntries w es' := by
  simp [Unparse.formatEntries]

theorem formatEntries_cons (w : List Char → Nat) (e : Entry) (es : List Entry) :
    Unparse.formatEntries w (e :: es) = Unparse.printEntry w e ++ '\n' :: Unparse.formatEntries w es := by
  simp [Unparse.formatEntries]

example : Unparse.format Unparse.widthStd "2024/01/01 x\n a  1 USD\n b\n".toList =
    .ok (Unparse.formatEntries Unparse.widthStd
      [.txn { date := ⟨2024, 1, 1⟩, payee := "x",
              posts := [{ account := "a", amount := some { amount := .amt ⟨false, 1, 0, none⟩ "USD" } },
                        { account := "b" }] }]) := by
  decide +kernel

/-! ## `import`: the field order of an AND-element -/

/-- two lists related element by element -/
inductive Pointwise {α : Type} (R : α → α → Prop) : List α → List α → Prop
  | nil : Pointwise R [] []
  | cons {a b : α} {l l' : List α} : R a b → Pointwise R l l' → Pointwise R (a :: l) (b :: l')

theorem Pointwise.refl {α : Type} {R : α → α → Prop} (h : ∀ a, R a a) : ∀ l, Pointwise R l l
  | [] => .nil
  | a :: l => .cons (h a) (Pointwise.refl h l)

theorem Pointwise.map {α : Type} {R : α → α → Prop} (f : α → α) (h : ∀ a, R a (f a)) : ∀ l, Pointwise R l (l.map f)
  | [] => .nil
  | a :: l => .cons (h a) (Pointwise.map f h l)

/-- the same field map in another iteration order -/
def ElemPerm (m m' : FieldMatcher) : Prop := m.fields.Perm m'.fields

/-- the same rule with the field maps of its elements in other iteration orders -/
structure RulePerm (a b : Rule) : Prop where
  elements : Pointwise ElemPerm a.matcher.elements b.matcher.elements
  pending : a.pending = b.pending
  payee : a.payee = b.payee
  account : a.account = b.account
  conversion : a.conversion = b.conversion

/-- **another hash seed**: the same rule list, every field map in some other iteration order -/
def RulesPerm : List Rule → List Rule → Prop := Pointwise RulePerm

/-- at most one field of the element interacts with the others on this record (reads the payee captured so far, or
contributes capture groups) — the hypothesis of `C17_and_order_partial` -/
def OneInteracting (cap : Captures) (r : Record) (m : FieldMatcher) : Prop :=
  (m.fields.filter (fun fp => !inertField cap r fp)).length ≤ 1

/-- … for every element of every rule -/
def RulesOneInteracting (cap : Captures) (r : Record) (rules : List Rule) : Prop :=
  ∀ rule ∈ rules, ∀ m ∈ rule.matcher.elements, OneInteracting cap r m

theorem orExtract_field_order (cap : Captures) (r : Record) {ms ms' : List FieldMatcher} (h : Pointwise ElemPerm ms ms')
    (h1 : ∀ m ∈ ms, OneInteracting cap r m) (cur : Fragment) : orExtract cap r ms cur = orExtract cap r ms' cur := by
  induction h with
  | nil => rfl
  | @cons a b l l' hab _ ih =>
    simp only [orExtract]
    rw [C17_and_order_partial cap r a.fields b.fields cur hab (h1 a (by simp)),
      ih (fun m hm => h1 m (List.mem_cons_of_mem _ hm))]

theorem ruleFinish_congr {a b : Rule} (h : RulePerm a b) : ruleFinish a = ruleFinish b := by
  funext c
  simp only [ruleFinish, h.pending, h.payee, h.account, h.conversion]

theorem applyRule_field_order (cap : Captures) (r : Record) {a b : Rule} (h : RulePerm a b)
    (h1 : ∀ m ∈ a.matcher.elements, OneInteracting cap r m) (frag : Fragment) :
    applyRule cap r frag a = applyRule cap r frag b := by
  simp only [applyRule, ruleExtract, orExtract_field_order cap r h.elements h1 frag, ruleFinish_congr h]

/-- **`Extractor::extract` does not depend on the iteration order of the field maps**, for a record on which every
element has at most one interacting field. -/
theorem extract_field_order (cap : Captures) (r : Record) {rules rules' : List Rule} (h : RulesPerm rules rules')
    (h1 : RulesOneInteracting cap r rules) : extract cap rules r = extract cap rules' r := by
  unfold extract
  suffices ∀ frag, rules.foldl (applyRule cap r) frag = rules'.foldl (applyRule cap r) frag from this {}
  induction h with
  | nil => intro _; rfl
  | @cons a b l l' hab _ ih =>
    intro frag
    simp only [List.foldl_cons]
    rw [applyRule_field_order cap r hab (h1 a (by simp)) frag]
    exact ih (fun rule hr => h1 rule (List.mem_cons_of_mem _ hr)) _

/-- **C13_import_partial**: an importer that builds the transactions of each record from the record and the verdict of
the rewrite rules on it (all three importers do: `csv::import`, `isocamt::import`, `viseca::import` call
`extractor.extract(record)` once per record / transaction detail) returns the same list of transactions for
`RulesPerm`-related rule lists, provided every element has at most one interacting field on every record. -/
theorem import_field_order {Rec Out : Type} (cap : Captures) (view : Rec → Record) (build : Rec → Fragment → List Out)
    {rules rules' : List Rule} (h : RulesPerm rules rules') (records : List Rec)
    (h1 : ∀ x ∈ records, RulesOneInteracting cap (view x) rules) :
    records.flatMap (fun x => build x (extract cap rules (view x))) =
      records.flatMap (fun x => build x (extract cap rules' (view x))) := by
  induction records with
  | nil => rfl
  | cons x xs ih =>
    simp only [List.flatMap_cons]
    rw [extract_field_order cap (view x) h (h1 x (by simp)), ih (fun y hy => h1 y (List.mem_cons_of_mem _ hy))]

/-- the unconditional statement: **false** (F14) -/
def import_full : Prop :=
  ∀ (cap : Captures) (r : Record) (rules rules' : List Rule), RulesPerm rules rules' →
    extract cap rules r = extract cap rules' r

/-- **F14, at the level of the whole extractor**: one rule whose element has the fields `category` (capturing a payee)
and `payee`; in one order the record gets the account, in the other it does not. -/
theorem import_full_false : ¬ import_full := by
  intro h
  have := h witnessCap witnessRec
    [{ matcher := .field ⟨[(.category, "(?P<payee>Service) stations"), (.payee, "^Service$")]⟩, account := some "Expenses:Car" }]
    [{ matcher := .field ⟨[(.payee, "^Service$"), (.category, "(?P<payee>Service) stations")]⟩, account := some "Expenses:Car" }]
    (.cons ⟨.cons (List.Perm.swap _ _ _) .nil, rfl, rfl, rfl, rfl⟩ .nil)
  revert this
  decide

/-! ### orders as functions: the `Deterministic` schema -/

/-- a re-layout of field maps: every field list is returned in some permutation -/
def IsRelayout (π : List (Field × String) → List (Field × String)) : Prop := ∀ l, (π l).Perm l

def reorderElem (π : List (Field × String) → List (Field × String)) (m : FieldMatcher) : FieldMatcher := ⟨π m.fields⟩

def reorderMatcher (π : List (Field × String) → List (Field × String)) : Matcher → Matcher
  | .or ms => .or (ms.map (reorderElem π))
  | .field m => .field (reorderElem π m)

def reorderRule (π : List (Field × String) → List (Field × String)) (rule : Rule) : Rule :=
  { rule with matcher := reorderMatcher π rule.matcher }

/-- the rule list as a process with field-map layout `π` sees it -/
def reorderRules (π : List (Field × String) → List (Field × String)) (rules : List Rule) : List Rule :=
  rules.map (reorderRule π)

theorem reorderMatcher_elements (π : List (Field × String) → List (Field × String)) (m : Matcher) :
    (reorderMatcher π m).elements = m.elements.map (reorderElem π) := by
  cases m <;> rfl

theorem rulesPerm_reorder {π : List (Field × String) → List (Field × String)} (hπ : IsRelayout π) (rules : List Rule) :
    RulesPerm rules (reorderRules π rules) := by
  refine Pointwise.map (reorderRule π) (fun rule => ?_) rules
  refine ⟨?_, rfl, rfl, rfl, rfl⟩
  show Pointwise ElemPerm rule.matcher.elements (reorderMatcher π rule.matcher).elements
  rw [reorderMatcher_elements]
  exact Pointwise.map (reorderElem π) (fun m => (hπ m.fields).symm) _

/-- **C13_import_partial** in the `Deterministic` schema: orders = re-layouts of the field maps; input = rule list and
records on which every element has at most one interacting field; output = the list of transactions. -/
theorem import_deterministic {Rec Out : Type} (cap : Captures) (view : Rec → Record) (build : Rec → Fragment → List Out)
    (π₁ π₂ : { π : List (Field × String) → List (Field × String) // IsRelayout π })
    (x : { x : List Rule × List Rec // ∀ rec ∈ x.2, RulesOneInteracting cap (view rec) x.1 }) :
    x.1.2.flatMap (fun rec => build rec (extract cap (reorderRules π₁.1 x.1.1) (view rec))) =
      x.1.2.flatMap (fun rec => build rec (extract cap (reorderRules π₂.1 x.1.1) (view rec))) := by
  rw [← import_field_order cap view build (rulesPerm_reorder π₁.2 x.1.1) x.1.2 x.2,
    ← import_field_order cap view build (rulesPerm_reorder π₂.2 x.1.1) x.1.2 x.2]

/-! ### the CSV importer: unconditionally deterministic -/

/-- the keys of every field map are distinct — true of every `HashMap` -/
def KeysDistinct (rules : List Rule) : Prop :=
  ∀ rule ∈ rules, ∀ m ∈ rule.matcher.elements, (m.fields.map Prod.fst).Nodup

/-- on a CSV record every field but `payee` is inert: `category` and `secondary_commodity` are matched but their
capture groups are dropped (`Matched::default()`), and the CSV matcher knows no other field -/
theorem csv_inert (cap : Captures) (p : String) (c s : Option String) (fp : Field × String) (h : fp.1 ≠ .payee) :
    inertField cap (csvRecord p c s) fp = true := by
  obtain ⟨f, pat⟩ := fp
  cases f <;> simp_all [inertField, inertKind, csvRecord]

theorem filter_length_mono {α : Type} {p q : α → Bool} (h : ∀ x, p x = true → q x = true) :
    ∀ l : List α, (l.filter p).length ≤ (l.filter q).length
  | [] => Nat.le_refl _
  | a :: l => by
    have ih := filter_length_mono h l
    by_cases hp : p a = true
    · simp [List.filter, hp, h a hp]; exact ih
    · by_cases hq : q a = true
      · simp [List.filter, hp, hq]; omega
      · simp [List.filter, hp, hq]; exact ih

theorem filter_key_length_le_one {κ ν : Type} [DecidableEq κ] (k : κ) :
    ∀ l : List (κ × ν), (l.map Prod.fst).Nodup → (l.filter (fun x => x.1 == k)).length ≤ 1
  | [], _ => by simp
  | a :: l, h => by
    simp only [List.map_cons, List.nodup_cons] at h
    have ih := filter_key_length_le_one k l h.2
    by_cases ha : a.1 = k
    · have hnone : l.filter (fun x => x.1 == k) = [] := by
        rw [List.filter_eq_nil_iff]
        intro x hx hk
        simp only [beq_iff_eq] at hk
        exact h.1 (by rw [ha, ← hk]; exact List.mem_map_of_mem hx)
      simp [List.filter, ha, hnone]
    · have hb : (a.1 == k) = false := by simpa using ha
      simp only [List.filter, hb]; exact ih

/-- with distinct keys, every element has at most one interacting field on every CSV record -/
theorem csv_oneInteracting (cap : Captures) (p : String) (c s : Option String) {rules : List Rule}
    (hk : KeysDistinct rules) : RulesOneInteracting cap (csvRecord p c s) rules := by
  intro rule hr m hm
  unfold OneInteracting
  refine Nat.le_trans (filter_length_mono (q := fun fp => fp.1 == Field.payee) ?_ m.fields)
    (filter_key_length_le_one Field.payee m.fields (hk rule hr m hm))
  intro fp hfp
  by_cases hp : fp.1 = .payee
  · simp [hp]
  · simp [csv_inert cap p c s fp hp] at hfp

/-- the verdict of the rules on a CSV record does not depend on the field-map order -/
theorem csv_extract_field_order (cap : Captures) {rules rules' : List Rule} (h : RulesPerm rules rules')
    (hk : KeysDistinct rules) (p : String) (c s : Option String) :
    extract cap rules (csvRecord p c s) = extract cap rules' (csvRecord p c s) :=
  extract_field_order cap _ h (csv_oneInteracting cap p c s hk)

section Csv
variable (env : CsvEnv) (cfg : CsvCfg) {rules' : List Rule}

theorem rowFragment_field_order (h : RulesPerm cfg.rewrite rules') (hk : KeysDistinct cfg.rewrite) (v : RowValues) :
    rowFragment env { cfg with rewrite := rules' } v = rowFragment env cfg v := by
  simp only [rowFragment]
  exact (csv_extract_field_order env.cap h hk _ _ _).symm

theorem selectedConversion_field_order (h : RulesPerm cfg.rewrite rules') (hk : KeysDistinct cfg.rewrite) (v : RowValues) :
    selectedConversion env { cfg with rewrite := rules' } v = selectedConversion env cfg v := by
  simp only [selectedConversion, rowFragment_field_order env cfg h hk]

theorem baseTxn_field_order (h : RulesPerm cfg.rewrite rules') (hk : KeysDistinct cfg.rewrite) (fm : FieldMap)
    (rec : List String) (v : RowValues) :
    baseTxn env { cfg with rewrite := rules' } fm rec v = baseTxn env cfg fm rec v := by
  simp only [baseTxn, rowFragment_field_order env cfg h hk]

theorem buildTxn_field_order (h : RulesPerm cfg.rewrite rules') (hk : KeysDistinct cfg.rewrite) (fm : FieldMap)
    (rec : List String) (v : RowValues) :
    buildTxn env { cfg with rewrite := rules' } fm rec v = buildTxn env cfg fm rec v := by
  simp only [buildTxn, baseTxn_field_order env cfg h hk, selectedConversion_field_order env cfg h hk]

theorem readRow_field_order (fm : FieldMap) (rec : List String) :
    readRow env { cfg with rewrite := rules' } fm rec = readRow env cfg fm rec := rfl

theorem csvRow_field_order (h : RulesPerm cfg.rewrite rules') (hk : KeysDistinct cfg.rewrite) (fm : FieldMap)
    (rec : List String) :
    csvRow env { cfg with rewrite := rules' } fm rec = csvRow env cfg fm rec := by
  simp only [csvRow, readRow_field_order, buildTxn_field_order env cfg h hk]

theorem csvRows_field_order (h : RulesPerm cfg.rewrite rules') (hk : KeysDistinct cfg.rewrite) (fm : FieldMap)
    (records : List (List String)) :
    csvRows env { cfg with rewrite := rules' } fm records = csvRows env cfg fm records := by
  induction records with
  | nil => rfl
  | cons rec rest ih => simp only [csvRows, csvRow_field_order env cfg h hk, ih]

/-- **`okane import` of a CSV file does not depend on the iteration order of the rewrite rules' field maps** (model
`csvImport`: header resolution, every record, conversion, row order — the whole command after decoding and after the
rules were compiled): with the rewrite rules as ANY process may see them (`RulesPerm`), the list of transactions — or the
error — is the same; F14 cannot occur for CSV.  `KeysDistinct` holds of every `HashMap`.  (`cfg.fields`, the other hash
map of the configuration, is held fixed: its order only selects which of two configuration errors is reported, F32.) -/
theorem csvImport_field_order (h : RulesPerm cfg.rewrite rules') (hk : KeysDistinct cfg.rewrite) (header : List String)
    (records : List (List String)) :
    csvImport env { cfg with rewrite := rules' } header records = csvImport env cfg header records := by
  simp only [csvImport, csvImportFlagged, csvRows_field_order env cfg h hk]

/-- the same in the `Deterministic` schema: orders = re-layouts of the field maps -/
theorem csvImport_deterministic (hk : KeysDistinct cfg.rewrite)
    (π₁ π₂ : { π : List (Field × String) → List (Field × String) // IsRelayout π }) (header : List String)
    (records : List (List String)) :
    csvImport env { cfg with rewrite := reorderRules π₁.1 cfg.rewrite } header records =
      csvImport env { cfg with rewrite := reorderRules π₂.1 cfg.rewrite } header records := by
  rw [csvImport_field_order env cfg (rulesPerm_reorder π₁.2 _) hk, csvImport_field_order env cfg (rulesPerm_reorder π₂.2 _) hk]

end Csv

/-! ### the camt.053 importer: deterministic when every element has at most one non-code field -/

/-- the three domain-code fields, compared for equality and never capturing -/
def isCodeField (f : Field) : Bool := f == .domainCode || f == .domainFamily || f == .domainSubFamily

/-- a static condition on the configuration: besides domain codes, every element has at most one field -/
def OneTextField (rules : List Rule) : Prop :=
  ∀ rule ∈ rules, ∀ m ∈ rule.matcher.elements, (m.fields.filter (fun fp => !isCodeField fp.1)).length ≤ 1

theorem camt_code_inert (cap : Captures) (e : CamtEntry) (d : Option TxDetails) (fp : Field × String)
    (h : isCodeField fp.1 = true) : inertField cap (camtRecord e d) fp = true := by
  obtain ⟨f, pat⟩ := fp
  cases f <;> simp_all [inertField, inertKind, camtRecord, isCodeField]

theorem camt_oneInteracting (cap : Captures) (e : CamtEntry) (d : Option TxDetails) {rules : List Rule}
    (h : OneTextField rules) : RulesOneInteracting cap (camtRecord e d) rules := by
  intro rule hr m hm
  unfold OneInteracting
  refine Nat.le_trans (filter_length_mono (q := fun fp => !isCodeField fp.1) ?_ m.fields) (h rule hr m hm)
  intro fp hfp
  by_cases hc : isCodeField fp.1 = true
  · simp [camt_code_inert cap e d fp hc] at hfp
  · simpa using hc

section Camt
variable (cap : Captures) (cfg : CamtCfg) {rules' : List Rule}

theorem entryBase_field_order (h : RulesPerm cfg.rewrite rules')
    (h1 : ∀ e d, RulesOneInteracting cap (camtRecord e d) cfg.rewrite) (e : CamtEntry) :
    entryBase cap { cfg with rewrite := rules' } e = entryBase cap cfg e := by
  simp only [entryBase, ← extract_field_order cap _ h (h1 e none)]

theorem detailBase_field_order (h : RulesPerm cfg.rewrite rules')
    (h1 : ∀ e d, RulesOneInteracting cap (camtRecord e d) cfg.rewrite) (e : CamtEntry) (d : TxDetails) :
    detailBase cap { cfg with rewrite := rules' } e d = detailBase cap cfg e d := by
  simp only [detailBase, ← extract_field_order cap _ h (h1 e (some d))]

theorem detailTxns_field_order (h : RulesPerm cfg.rewrite rules')
    (h1 : ∀ e d, RulesOneInteracting cap (camtRecord e d) cfg.rewrite) (e : CamtEntry) (ds : List TxDetails) :
    detailTxns cap { cfg with rewrite := rules' } e ds = detailTxns cap cfg e ds := by
  induction ds with
  | nil => rfl
  | cons d rest ih => simp only [detailTxns, detailTxn, detailBase_field_order cap cfg h h1, ih]

theorem entryTxns_field_order (h : RulesPerm cfg.rewrite rules')
    (h1 : ∀ e d, RulesOneInteracting cap (camtRecord e d) cfg.rewrite) (e : CamtEntry) :
    entryTxns cap { cfg with rewrite := rules' } e = entryTxns cap cfg e := by
  simp only [entryTxns, entryTxn, entryBase_field_order cap cfg h h1, detailTxns_field_order cap cfg h h1]

theorem entriesTxns_field_order (h : RulesPerm cfg.rewrite rules')
    (h1 : ∀ e d, RulesOneInteracting cap (camtRecord e d) cfg.rewrite) (es : List CamtEntry) :
    entriesTxns cap { cfg with rewrite := rules' } es = entriesTxns cap cfg es := by
  induction es with
  | nil => rfl
  | cons e rest ih => simp only [entriesTxns, entryTxns_field_order cap cfg h h1, ih]

theorem camtStatementOnto_field_order (h : RulesPerm cfg.rewrite rules')
    (h1 : ∀ e d, RulesOneInteracting cap (camtRecord e d) cfg.rewrite) (res : List Txn) (st : Statement) :
    camtStatementOnto cap { cfg with rewrite := rules' } res st = camtStatementOnto cap cfg res st := by
  simp only [camtStatementOnto, orderedEntries, entriesTxns_field_order cap cfg h h1]

/-- **`okane import` of a camt.053 file** (model `camtImport`, whole command after decoding): the same list of
transactions, or the same error, for every iteration order of the field maps — provided every element has at most one
interacting field on every record of the file. -/
theorem camtImport_field_order (h : RulesPerm cfg.rewrite rules')
    (h1 : ∀ e d, RulesOneInteracting cap (camtRecord e d) cfg.rewrite) (res : List Txn) (sts : List Statement) :
    camtImport cap { cfg with rewrite := rules' } res sts = camtImport cap cfg res sts := by
  induction sts generalizing res with
  | nil => rfl
  | cons st rest ih =>
    simp only [camtImport, camtStatementOnto_field_order cap cfg h h1]
    cases camtStatementOnto cap cfg res st with
    | ok res' => exact ih res'
    | err x => rfl
    | panic s => rfl
    | fuelOut => rfl

/-- … in particular when, besides domain codes, no element has more than one field -/
theorem camtImport_field_order_static (h : RulesPerm cfg.rewrite rules') (hs : OneTextField cfg.rewrite)
    (res : List Txn) (sts : List Statement) :
    camtImport cap { cfg with rewrite := rules' } res sts = camtImport cap cfg res sts :=
  camtImport_field_order cap cfg h (fun e d => camt_oneInteracting cap e d hs) res sts

end Camt

example : OneTextField [{ matcher := .field ⟨[(.domainCode, "PMNT"), (.creditorName, "(?P<payee>.*)")]⟩ }] := by
  intro rule hr m hm
  simp only [List.mem_singleton] at hr
  subst hr
  simp only [Matcher.elements, List.mem_singleton] at hm
  subst hm
  decide

/-- non-vacuity: a rule whose element has both CSV fields; the two layouts are `RulesPerm`-related, keys distinct -/
example : RulesPerm
    [{ matcher := .field ⟨[(.category, "Buy"), (.payee, "Migros")]⟩, account := some "Assets:Broker" }]
    [{ matcher := .field ⟨[(.payee, "Migros"), (.category, "Buy")]⟩, account := some "Assets:Broker" }] :=
  .cons ⟨.cons (List.Perm.swap _ _ _) .nil, rfl, rfl, rfl, rfl⟩ .nil

example : KeysDistinct [{ matcher := .field ⟨[(.category, "Buy"), (.payee, "Migros")]⟩, account := some "Assets:Broker" }] := by
  intro rule hr m hm
  simp only [List.mem_singleton] at hr
  subst hr
  simp only [Matcher.elements, List.mem_singleton] at hm
  subst hm
  decide

end Okane.C13FI
