import Okane.Lemmas.ImportCamtXmlReader
import Okane.Model.ImportCamtXmlRender
import Okane.Lemmas.ImportCamtXml
/-!
# `decodeCamt (render d) = ok d`: every statement structure is the decoding of its canonical rendering

`render` (`Model/ImportCamtXmlRender.lean`) writes a list of `Statement`s (the structures of `Model/ImportCamt.lean`) as a
Camt053 document: a canonical tree (`CTree`) printed with `escape`d text.  `readRoot_print` reads the tree back;
this file shows that the decoder (`Model/ImportCamtXml.lean`) then yields the statements again (`decodeCamt_render`).

Hypotheses (`Renderable`, decidable): at least one statement, each with at least one balance (`Stmt` and `Bal` are `Vec`s
without default); currencies made of ASCII letters / digits (they are written into an attribute); domain codes among the
variants of the schema's enums; and the **leaf round trips**: every number is read back from its plain decimal print
(`decRT`) and every date from its `YYYY-MM-DD` print (`dateRT`) — kept as explicit hypotheses (checked by evaluation for
any concrete statement), see `C18_xml_roundtrip_stmt` in `Props/C18.lean` for the statement without them.
All free text (names, infos, references) is arbitrary.
-/
namespace Okane.Import.CamtXml
open Okane Okane.Xml Okane.Import

-- the simp sets below are shared by many case splits; not every lemma fires in every case
set_option linter.unusedSimpArgs false

/-! ## leaf texts -/

theorem decRT_ok (d : Dec) (h : decRT d = true) : decimalOfText (printDec d).toList = .ok d := by
  unfold decRT at h
  cases hd : decimalOfText (printDec d).toList with
  | error e => simp [hd] at h
  | ok d' => simp [hd] at h; rw [h]

theorem decRT_nonempty (d : Dec) (h : decRT d = true) : (printDec d).toList.isEmpty = false := by
  cases hl : (printDec d).toList with
  | nil =>
    have := decRT_ok d h
    rw [hl] at this
    simp [decimalOfText, decFromStr, fromScientific, bad] at this
  | cons c r => rfl

theorem dateRT_ok (d : Date) (h : dateRT d = true) : naiveDateOfText d.fmtHyphen.toList = some d := by
  simpa [dateRT] using h

/-- the children of a printed leaf -/
def leafKids (t : String) : List Node := if t.toList.isEmpty then [] else [.text t]

theorem elemText_leaf (t : String) : elemText (leafKids t) = .ok t := by
  unfold leafKids
  by_cases h : t.toList.isEmpty = true
  · have : t.toList = [] := by simpa using h
    have ht : t = "" := by
      rw [← String.ofList_toList (s := t), this]
    simp [elemText, ht]
  · simp [h, elemText]

theorem skipElem_leaf (t : String) : skipElem (leafKids t) = .ok () := by
  unfold leafKids; split <;> rfl

/-! ## attributes -/

theorem attr_key_run (w : List Char) : ∀ (acc : List Char) (out : List (List Char × List Char)),
    (∀ c ∈ w, c ≠ '=' ∧ isWs c = false) →
    w.foldl attrStep ⟨.key acc, out⟩ = ⟨.key (w.reverse ++ acc), out⟩ := by
  induction w with
  | nil => intro acc out _; simp
  | cons c w ih =>
    intro acc out h
    obtain ⟨h1, h2⟩ := h c (by simp)
    have e1 : (c == '=') = false := by simpa using h1
    simp only [List.foldl_cons, attrStep, e1, h2, Bool.false_eq_true, ↓reduceIte]
    rw [ih (c :: acc) out (fun x hx => h x (List.mem_cons_of_mem _ hx))]
    simp

theorem attr_value_run (w : List Char) : ∀ (key acc : List Char) (out : List (List Char × List Char)),
    (∀ c ∈ w, c ≠ '"') →
    w.foldl attrStep ⟨.value key '"' acc, out⟩ = ⟨.value key '"' (w.reverse ++ acc), out⟩ := by
  induction w with
  | nil => intro key acc out _; simp
  | cons c w ih =>
    intro key acc out h
    have e1 : (c == '"') = false := by simpa using h c (by simp)
    simp only [List.foldl_cons, attrStep, e1, Bool.false_eq_true, ↓reduceIte]
    rw [ih key (c :: acc) out (fun x hx => h x (List.mem_cons_of_mem _ hx))]
    simp

/-- ` key="value"` is one attribute -/
theorem parseAttrs_single (k v : String) (hk : plainName k = true) (hv : v.toList.all plainChar = true) :
    parseAttrs (attrText (some (k, v))) = some [(k.toList, v.toList)] := by
  simp only [plainName, Bool.and_eq_true, Bool.not_eq_true'] at hk
  obtain ⟨hne, hpl⟩ := hk
  cases hl : k.toList with
  | nil => simp [hl] at hne
  | cons c k' =>
    have hmem := plain_mem k hpl
    rw [hl] at hmem
    have hc := hmem c (by simp)
    have hcw : isWs c = false := plainChar_notWs c hc
    have hrun : ∀ x ∈ k', x ≠ '=' ∧ isWs x = false := fun x hx =>
      have := hmem x (List.mem_cons_of_mem _ hx)
      ⟨plainChar_not x _ this (by decide), plainChar_notWs x this⟩
    have hv' : ∀ x ∈ v.toList, x ≠ '"' := fun x hx => plainChar_not x _ (plain_mem v hv x hx) (by decide)
    unfold parseAttrs
    have hsplit : attrText (some (k, v)) = ' ' :: c :: (k' ++ ('=' :: '"' :: (v.toList ++ ['"']))) := by
      simp [attrText, hl]
    rw [hsplit]
    simp only [List.foldl_cons, attrStep, show isWs ' ' = true by decide, if_true, hcw, Bool.false_eq_true, if_false]
    rw [List.foldl_append, attr_key_run k' [c] [] hrun]
    simp only [List.foldl_cons, attrStep, show ('=' == '=') = true by decide, if_true, attrKeyDone, List.any_nil,
      Bool.false_eq_true, if_false, show isWs '"' = false by decide, show ('"' == '"') = true by decide, Bool.true_or]
    rw [List.foldl_append, attr_value_run v.toList _ [] [] hv']
    simp [attrStep]

theorem unescape_plain (v : List Char) (hv : ∀ c ∈ v, c ≠ '&') : unescape v = some v := by
  have key : ∀ (w : List Char) (out : List Char), (∀ c ∈ w, c ≠ '&') →
      w.foldl unescStep { out := out, ent := none, bad := false } = { out := w.reverse ++ out, ent := none, bad := false } := by
    intro w
    induction w with
    | nil => intro out _; simp
    | cons c w ih =>
      intro out h
      have e1 : (c == '&') = false := by simpa using h c (by simp)
      simp only [List.foldl_cons, unescStep, e1, Bool.false_eq_true, ↓reduceIte]
      rw [ih (c :: out) (fun x hx => h x (List.mem_cons_of_mem _ hx))]
      simp
  unfold unescape
  have h0 : ({} : UnescSt) = { out := [], ent := none, bad := false } := rfl
  rw [h0, key v [] hv]
  simp

/-- `Amount` from its rendering -/
theorem decAmount_render (a : CamtAmount) (hc : a.currency.toList.all plainChar = true) (hd : decRT a.value = true) :
    decAmount (String.ofList (attrText (some ("Ccy", a.currency)))) (leafKids (printDec a.value)) = .ok a := by
  have hp := parseAttrs_single "Ccy" a.currency (by decide) hc
  have hu : unescape a.currency.toList = some a.currency.toList :=
    unescape_plain _ (fun c hcm => plainChar_not c _ (plain_mem _ hc c hcm) (by decide))
  have hk : attrKey "Ccy".toList = "Ccy".toList := by decide
  unfold decAmount attrKeys
  simp only [String.toList_ofList, hp, List.map_cons, List.map_nil, hk]
  simp [leafKids, decRT_nonempty _ hd, decRT_ok _ hd, hu, bind, Except.bind]

/-! ## nodes of the rendering -/

@[simp] theorem toNodes_nil : toNodes [] = [] := by simp [toNodes]
@[simp] theorem toNodes_cons (t : CTree) (ts : List CTree) : toNodes (t :: ts) = t.toNode :: toNodes ts := by simp [toNodes]
theorem toNodes_append (l₁ l₂ : List CTree) : toNodes (l₁ ++ l₂) = toNodes l₁ ++ toNodes l₂ := by
  induction l₁ with
  | nil => simp
  | cons t ts ih => simp [ih]
@[simp] theorem toNode_leafT (n t : String) : (leafT n t).toNode = .elem n "" (leafKids t) := by
  simp [leafT, CTree.toNode, leafKids, attrText]
@[simp] theorem toNode_nodeT (n : String) (ks : List CTree) : (nodeT n ks).toNode = .elem n "" (toNodes ks) := by
  simp [nodeT, CTree.toNode, attrText]
@[simp] theorem toNode_rAmount (tag : String) (a : CamtAmount) :
    (rAmount tag a).toNode = .elem tag (String.ofList (attrText (some ("Ccy", a.currency)))) (leafKids (printDec a.value)) := by
  simp [rAmount, CTree.toNode, leafKids]
@[simp] theorem toNode_rCd (cd : CdtDbt) : (rCd cd).toNode = .elem "CdtDbtInd" "" (leafKids (cdText cd)) := by
  simp [rCd]

theorem noAttrs_empty : noAttrs "" = .ok () := by rfl

/-! ## the decoders on the rendering, bottom up -/

theorem decCdtDbt_render (cd : CdtDbt) : decCdtDbt "" (leafKids (cdText cd)) = .ok cd := by
  cases cd <;> rfl

theorem decDateHolder_render (d : Date) (h : dateRT d = true) : decDateHolder "" (toNodes (cDate d)) = .ok d := by
  simp +decide [cDate, decDateHolder, noAttrs_empty, elemText_leaf, dateRT_ok d h, bind, Except.bind]

theorem decCharge_render (c : ChargeRecord) (h : chargeOk c = true) : decCharge "" (toNodes (cCharge c)) = .ok c := by
  simp only [chargeOk, amountOk, Bool.and_eq_true] at h
  have ha := decAmount_render c.amount h.1 h.2
  have hcd := decCdtDbt_render c.cd
  cases c with
  | mk amount cd included =>
    cases included <;>
      simp +decide [cCharge, boolText, decCharge, noAttrs_empty, runWalk, walk, chargeSpec, setOnce, req, ha, hcd,
        elemText_leaf, boolOfText, bind, Except.bind, Except.map] at ha hcd ⊢

theorem charges_onItem (st : ChargesSlots) (a : String) (kids : List Node) :
    chargesSpec.onItem st "Rcrd" a kids =
      (decCharge a kids).bind fun r => .ok { st with records := some (st.records.getD [] ++ [r]) } := rfl
theorem charges_onElem_Rcrd (st : ChargesSlots) (a : String) (kids : List Node) :
    chargesSpec.onElem st "Rcrd" a kids =
      (setOnce st.records ((decCharge a kids).map fun r => [r])).bind fun v => .ok { st with records := v } := rfl
theorem charges_isList : chargesSpec.isList "Rcrd" = true := rfl

/-- a run of further `<Rcrd>` items -/
theorem walk_rcrds : ∀ (cs : List ChargeRecord), (∀ c ∈ cs, chargeOk c = true) → ∀ (tot : Option CamtAmount) (acc : List ChargeRecord),
    walk chargesSpec ⟨tot, some acc⟩ (some "Rcrd") (toNodes (cCharges cs)) = .ok (⟨tot, some (acc ++ cs)⟩, some "Rcrd")
  | [], _, tot, acc => by simp [cCharges]
  | c :: cs, h, tot, acc => by
    have hc := decCharge_render c (h c (by simp))
    have ih := walk_rcrds cs (fun x hx => h x (List.mem_cons_of_mem _ hx)) tot (acc ++ [c])
    have hl : lname "Rcrd" = "Rcrd" := by decide
    have e : cCharges (c :: cs) = nodeT "Rcrd" (cCharge c) :: cCharges cs := rfl
    rw [e, toNodes_cons, toNode_nodeT]
    simp only [walk, beq_self_eq_true, if_true, hl, charges_onItem, hc, Except.bind, Option.getD_some]
    simpa using ih

theorem decCharges_render (cs : List ChargeRecord) (h : ∀ c ∈ cs, chargeOk c = true) (hne : cs ≠ []) :
    decCharges "" (toNodes (cCharges cs)) = .ok cs := by
  cases cs with
  | nil => exact absurd rfl hne
  | cons c cs =>
    have hc := decCharge_render c (h c (by simp))
    have hr := walk_rcrds cs (fun x hx => h x (List.mem_cons_of_mem _ hx)) none [c]
    have hl : lname "Rcrd" = "Rcrd" := by decide
    have e : cCharges (c :: cs) = nodeT "Rcrd" (cCharge c) :: cCharges cs := rfl
    rw [e, toNodes_cons, toNode_nodeT]
    have hn : ((none : Option String) == some "Rcrd") = false := by decide
    simp only [decCharges, noAttrs_empty, runWalk, walk, hn, hl, charges_onElem_Rcrd, charges_isList, hc, setOnce, Except.map,
      Except.bind, bind, if_true, Bool.false_eq_true, if_false, hr]
    rfl

theorem decBalanceCode_render (code : BalanceCode) : decBalanceCode "" (leafKids (codeText code)) = .ok code := by
  cases code <;> rfl

theorem decBalance_render (b : CamtBalance) (h : balanceOk b = true) : decBalance "" (toNodes (cBalance b)) = .ok b := by
  simp only [balanceOk, amountOk, Bool.and_eq_true] at h
  have ha := decAmount_render b.amount h.1 h.2
  have hcd := decCdtDbt_render b.cd
  have hcode := decBalanceCode_render b.code
  cases b with
  | mk code amount cd =>
    simp +decide [cBalance, decBalance, decOneField, oneFieldSpec, noAttrs_empty, runWalk, walk, balanceSpec, setOnce, req, ha, hcd,
      hcode, bind, Except.bind, Except.map] at ha hcd hcode ⊢

theorem decCodeIn_leaf (allowed : List String) (s : String) (h : allowed.contains s = true) (hs : s.toList.isEmpty = false) :
    decCodeIn allowed "" (leafKids s) = .ok s := by
  have hm : s ∈ allowed := by simpa using h
  simp [decCodeIn, textOnly, noAttrs_empty, leafKids, hs, hm, bind, Except.bind]

theorem decBkTxCd_render (d : Option (String × String × String)) (h : domainOk d = true) :
    decBkTxCd "" (toNodes (cDomain d)) = .ok d := by
  cases d with
  | none => rfl
  | some d =>
    obtain ⟨a, b, c⟩ := d
    simp only [domainOk, Bool.and_eq_true, beq_iff_eq] at h
    obtain ⟨⟨ha, hb⟩, hc⟩ := h
    subst ha
    have nb : b.toList.isEmpty = false := by
      simp only [List.contains_eq_mem, List.mem_cons, List.mem_nil_iff, or_false, decide_eq_true_eq] at hb
      rcases hb with rfl | rfl | rfl <;> decide
    have nc : c.toList.isEmpty = false := by
      simp only [List.contains_eq_mem, List.mem_cons, List.mem_nil_iff, or_false, decide_eq_true_eq] at hc
      rcases hc with rfl | rfl | rfl | rfl | rfl | rfl <;> decide
    have h1 := decCodeIn_leaf ["PMNT"] "PMNT" (by decide) (by decide)
    have h2 := decCodeIn_leaf _ b hb nb
    have h3 := decCodeIn_leaf _ c hc nc
    simp +decide [cDomain, optList, decBkTxCd, decDomain, decFamily, noAttrs_empty, runWalk, walk, bkTxCdSpec, domainSpec, familySpec,
      setOnce, req, h1, h2, h3, bind, Except.bind, Except.map]

theorem decRate_render (r : Dec) (h : decRT r = true) : decRate "" (leafKids (printDec r)) = .ok r := by
  simp [decRate, noAttrs_empty, leafKids, decRT_nonempty r h, decRT_ok r h, bind, Except.bind]

theorem decXchg_render (x : CurrencyExchange) (h : decRT x.rate = true) : decXchg "" (toNodes (cXchg x)) = .ok x := by
  have hr := decRate_render x.rate h
  cases x with
  | mk src tgt rate =>
    simp +decide [cXchg, decXchg, noAttrs_empty, runWalk, walk, xchgSpec, setOnce, req, elemText_leaf, hr, bind, Except.bind,
      Except.map] at hr ⊢

theorem decAmtXchg_render (t : TxAmount) (h : txAmountOk t = true) : decAmtXchg "" (toNodes (cAmtXchg t)) = .ok t := by
  simp only [txAmountOk, amountOk, Bool.and_eq_true] at h
  have ha := decAmount_render t.amount h.1.1 h.1.2
  cases t with
  | mk amount exchange =>
    cases exchange with
    | none =>
      simp +decide [cAmtXchg, optList, decAmtXchg, noAttrs_empty, runWalk, walk, amtXchgSpec, setOnce, req, ha, bind, Except.bind,
        Except.map] at ha ⊢
    | some x =>
      have hx := decXchg_render x (by simpa using h.2)
      simp +decide [cAmtXchg, optList, decAmtXchg, noAttrs_empty, runWalk, walk, amtXchgSpec, setOnce, req, ha, hx, bind, Except.bind,
        Except.map] at ha ⊢

theorem decAmtXchg_instd (t : TxAmount) (h : txAmountOk t = true) :
    decAmtXchg "" (toNodes (cInstd t)) = .ok ⟨t.amount, none⟩ := by
  have h0 : txAmountOk ⟨t.amount, none⟩ = true := by
    simp only [txAmountOk, Bool.and_eq_true] at h ⊢
    exact ⟨h.1, trivial⟩
  exact decAmtXchg_render ⟨t.amount, none⟩ h0

theorem decAmtDtls_render (t : TxAmount) (h : txAmountOk t = true) : decAmtDtls "" (toNodes (cTxAmount t)) = .ok t := by
  have hx := decAmtXchg_render t h
  have hi := decAmtXchg_instd t h
  simp +decide [cTxAmount, decAmtDtls, noAttrs_empty, runWalk, walk, amtDtlsSpec, setOnce, req, hx, hi, bind, Except.bind,
    Except.map]

/-! ### parties -/

theorem decRelatedParty_render (n : String) : decRelatedParty "" (toNodes [leafT "Nm" n]) = .ok n := by
  simp +decide [decRelatedParty, attrKeys, parseAttrs, decPartyKids, runWalk, walk, partySpec, setOnce, req, elemText_leaf,
    bind, Except.bind, Except.map]

theorem decAccount_render (i : String) : decAccount "" (toNodes [nodeT "Id" [leafT "IBAN" i]]) = .ok i := by
  simp +decide [decAccount, decOneField, oneFieldSpec, decAccountId, noAttrs_empty, runWalk, walk, setOnce, req, elemText_leaf,
    bind, Except.bind, Except.map]

theorem decOptText_render (key : String) (hk : lname key = key) (v : Option String) :
    decOptText key "" (toNodes (optList (leafT key) v)) = .ok v := by
  cases v with
  | none => simp [optList, decOptText, noAttrs_empty, runWalk, bind, Except.bind, Except.map]
  | some t =>
    simp [optList, decOptText, noAttrs_empty, runWalk, walk, optTextSpec, hk, setOnce, elemText_leaf, bind, Except.bind, Except.map]

theorem decRltd_render (i : PartyInfo) : decRltd "" (toNodes (cRltd i)) =
    .ok { dbtr := i.debtorName, cdtr := i.creditorName, cdtrAcct := i.creditorAccountId, dbtrAcct := i.debtorAccountId,
          ultDbtr := i.ultimateDebtorName, ultCdtr := i.ultimateCreditorName } := by
  have hp := decRelatedParty_render
  have ha := decAccount_render
  simp only [toNodes_cons, toNodes_nil, toNode_nodeT, toNode_leafT] at hp ha
  cases i with
  | mk cn ca ucn dn da udn ru ati =>
    cases cn <;> cases ca <;> cases ucn <;> cases dn <;> cases da <;> cases udn <;>
      simp +decide [cRltd, rParty, rAcct, optList, decRltd, noAttrs_empty, runWalk, walk, rltdSpec, setOnce, hp, ha, bind,
        Except.bind, Except.map]

/-! ### details, entries -/

theorem decTxDtls_render (d : TxDetails) (h : detailOk d = true) : decTxDtls "" (toNodes (cDetail d)) = .ok d := by
  simp only [detailOk, amountOk, Bool.and_eq_true] at h
  obtain ⟨⟨⟨hc, hv⟩, htx⟩, hch⟩ := h
  have hch : ∀ c ∈ d.charges, chargeOk c = true := by simpa using hch
  have ha := decAmount_render d.amount hc hv
  have hcd := decCdtDbt_render d.cd
  have hrefs := decOptText_render "AcctSvcrRef" (by decide) d.ref
  have hrmt := decOptText_render "Ustrd" (by decide) d.info.remittanceUnstructured
  have hrl := decRltd_render d.info
  cases d with
  | mk ref amount cd txAmount charges info =>
    cases info with
    | mk cn ca ucn dn da udn ru ati =>
      have hchg : charges ≠ [] → decCharges "" (toNodes (cCharges charges)) = .ok charges :=
        fun hne => decCharges_render charges hch hne
      cases txAmount with
      | none =>
        cases charges with
        | nil =>
          cases ati <;>
            simp +decide [cDetail, rCharges, optList, decTxDtls, noAttrs_empty, runWalk, walk, txDtlsSpec, setOnce, req, ha, hcd,
              hrefs, hrmt, hrl, elemText_leaf, bind, Except.bind, Except.map] at ha hcd hrefs hrmt hrl ⊢
        | cons c cs =>
          have hg := hchg (by simp)
          cases ati <;>
            simp +decide [cDetail, rCharges, optList, decTxDtls, noAttrs_empty, runWalk, walk, txDtlsSpec, setOnce, req, ha, hcd,
              hrefs, hrmt, hrl, hg, elemText_leaf, bind, Except.bind, Except.map] at ha hcd hrefs hrmt hrl ⊢
      | some t =>
        have ht := decAmtDtls_render t (by simpa using htx)
        cases charges with
        | nil =>
          cases ati <;>
            simp +decide [cDetail, rCharges, optList, decTxDtls, noAttrs_empty, runWalk, walk, txDtlsSpec, setOnce, req, ha, hcd,
              hrefs, hrmt, hrl, ht, elemText_leaf, bind, Except.bind, Except.map] at ha hcd hrefs hrmt hrl ⊢
        | cons c cs =>
          have hg := hchg (by simp)
          cases ati <;>
            simp +decide [cDetail, rCharges, optList, decTxDtls, noAttrs_empty, runWalk, walk, txDtlsSpec, setOnce, req, ha, hcd,
              hrefs, hrmt, hrl, ht, hg, elemText_leaf, bind, Except.bind, Except.map] at ha hcd hrefs hrmt hrl ⊢

theorem ntryDtls_onItem (st : NtryDtlsSlots) (a : String) (kids : List Node) :
    ntryDtlsSpec.onItem st "TxDtls" a kids =
      (decTxDtls a kids).bind fun d => .ok { st with txs := some (st.txs.getD [] ++ [d]) } := rfl
theorem ntryDtls_onElem_TxDtls (st : NtryDtlsSlots) (a : String) (kids : List Node) :
    ntryDtlsSpec.onElem st "TxDtls" a kids =
      (setOnce st.txs ((decTxDtls a kids).map fun d => [d])).bind fun v => .ok { st with txs := v } := rfl
theorem ntryDtls_isList : ntryDtlsSpec.isList "TxDtls" = true := rfl

theorem walk_txdtls : ∀ (ds : List TxDetails), (∀ d ∈ ds, detailOk d = true) → ∀ (b : Option Unit) (acc : List TxDetails),
    walk ntryDtlsSpec ⟨b, some acc⟩ (some "TxDtls") (toNodes (cDetails ds)) = .ok (⟨b, some (acc ++ ds)⟩, some "TxDtls")
  | [], _, b, acc => by simp [cDetails]
  | d :: ds, h, b, acc => by
    have hd := decTxDtls_render d (h d (by simp))
    have ih := walk_txdtls ds (fun x hx => h x (List.mem_cons_of_mem _ hx)) b (acc ++ [d])
    have hl : lname "TxDtls" = "TxDtls" := by decide
    have e : cDetails (d :: ds) = nodeT "TxDtls" (cDetail d) :: cDetails ds := rfl
    rw [e, toNodes_cons, toNode_nodeT]
    simp only [walk, beq_self_eq_true, if_true, hl, ntryDtls_onItem, hd, Except.bind, Option.getD_some]
    simpa using ih

theorem decNtryDtls_render (ds : List TxDetails) (h : ∀ d ∈ ds, detailOk d = true) (hne : ds ≠ []) :
    decNtryDtls "" (toNodes (cDetails ds)) = .ok ds := by
  cases ds with
  | nil => exact absurd rfl hne
  | cons d ds =>
    have hd := decTxDtls_render d (h d (by simp))
    have hr := walk_txdtls ds (fun x hx => h x (List.mem_cons_of_mem _ hx)) none [d]
    have hl : lname "TxDtls" = "TxDtls" := by decide
    have e : cDetails (d :: ds) = nodeT "TxDtls" (cDetail d) :: cDetails ds := rfl
    rw [e, toNodes_cons, toNode_nodeT]
    have hn : ((none : Option String) == some "TxDtls") = false := by decide
    simp only [decNtryDtls, noAttrs_empty, runWalk, walk, hn, hl, ntryDtls_onElem_TxDtls, ntryDtls_isList, hd, setOnce, Except.map,
      Except.bind, bind, if_true, Bool.false_eq_true, if_false, hr]
    rfl

theorem decEntry_render (e : CamtEntry) (h : entryOk e = true) : decEntry "" (toNodes (cEntry e)) = .ok e := by
  simp only [entryOk, amountOk, Bool.and_eq_true] at h
  obtain ⟨⟨⟨⟨⟨⟨hc, hv⟩, hb⟩, hvd⟩, hdom⟩, hch⟩, hdt⟩ := h
  have hch : ∀ c ∈ e.charges, chargeOk c = true := by simpa using hch
  have hdt : ∀ d ∈ e.details, detailOk d = true := by simpa using hdt
  have ha := decAmount_render e.amount hc hv
  have hcd := decCdtDbt_render e.cd
  have hbd := decDateHolder_render e.bookingDate hb
  have hbk := decBkTxCd_render e.domain hdom
  cases e with
  | mk amount cd bookingDate valueDate domain charges details additionalInfo =>
    have hchg : charges ≠ [] → decCharges "" (toNodes (cCharges charges)) = .ok charges :=
      fun hne => decCharges_render charges hch hne
    have hdtl : details ≠ [] → decNtryDtls "" (toNodes (cDetails details)) = .ok details :=
      fun hne => decNtryDtls_render details hdt hne
    cases valueDate with
    | none =>
      cases charges with
      | nil =>
        cases details with
        | nil =>
          simp +decide [cEntry, rCharges, optList, decEntry, noAttrs_empty, runWalk, walk, entrySpec, setOnce, req, ha, hcd, hbd, hbk,
            elemText_leaf, bind, Except.bind, Except.map] at ha hcd hbd hbk ⊢
        | cons d ds =>
          have hg := hdtl (by simp)
          simp +decide [cEntry, rCharges, optList, decEntry, noAttrs_empty, runWalk, walk, entrySpec, setOnce, req, ha, hcd, hbd, hbk,
            hg, elemText_leaf, bind, Except.bind, Except.map] at ha hcd hbd hbk ⊢
      | cons c cs =>
        have hq := hchg (by simp)
        cases details with
        | nil =>
          simp +decide [cEntry, rCharges, optList, decEntry, noAttrs_empty, runWalk, walk, entrySpec, setOnce, req, ha, hcd, hbd, hbk,
            hq, elemText_leaf, bind, Except.bind, Except.map] at ha hcd hbd hbk ⊢
        | cons d ds =>
          have hg := hdtl (by simp)
          simp +decide [cEntry, rCharges, optList, decEntry, noAttrs_empty, runWalk, walk, entrySpec, setOnce, req, ha, hcd, hbd, hbk,
            hq, hg, elemText_leaf, bind, Except.bind, Except.map] at ha hcd hbd hbk ⊢
    | some vd =>
      have hvd' := decDateHolder_render vd (by simpa using hvd)
      cases charges with
      | nil =>
        cases details with
        | nil =>
          simp +decide [cEntry, rCharges, optList, decEntry, noAttrs_empty, runWalk, walk, entrySpec, setOnce, req, ha, hcd, hbd, hbk,
            hvd', elemText_leaf, bind, Except.bind, Except.map] at ha hcd hbd hbk ⊢
        | cons d ds =>
          have hg := hdtl (by simp)
          simp +decide [cEntry, rCharges, optList, decEntry, noAttrs_empty, runWalk, walk, entrySpec, setOnce, req, ha, hcd, hbd, hbk,
            hvd', hg, elemText_leaf, bind, Except.bind, Except.map] at ha hcd hbd hbk ⊢
      | cons c cs =>
        have hq := hchg (by simp)
        cases details with
        | nil =>
          simp +decide [cEntry, rCharges, optList, decEntry, noAttrs_empty, runWalk, walk, entrySpec, setOnce, req, ha, hcd, hbd, hbk,
            hvd', hq, elemText_leaf, bind, Except.bind, Except.map] at ha hcd hbd hbk ⊢
        | cons d ds =>
          have hg := hdtl (by simp)
          simp +decide [cEntry, rCharges, optList, decEntry, noAttrs_empty, runWalk, walk, entrySpec, setOnce, req, ha, hcd, hbd, hbk,
            hvd', hq, hg, elemText_leaf, bind, Except.bind, Except.map] at ha hcd hbd hbk ⊢

/-! ### statements, the document -/

theorem stmt_onItem_Bal (st : StmtSlots) (a : String) (kids : List Node) :
    stmtSpec.onItem st "Bal" a kids = (decBalance a kids).bind fun b => .ok { st with bals := some (st.bals.getD [] ++ [b]) } := rfl
theorem stmt_onItem_Ntry' (st : StmtSlots) (a : String) (kids : List Node) :
    stmtSpec.onItem st "Ntry" a kids = (decEntry a kids).bind fun e => .ok { st with ntries := some (st.ntries.getD [] ++ [e]) } := rfl
theorem stmt_onElem_Bal (st : StmtSlots) (a : String) (kids : List Node) :
    stmtSpec.onElem st "Bal" a kids = (setOnce st.bals ((decBalance a kids).map fun b => [b])).bind fun v => .ok { st with bals := v } := rfl
theorem stmt_onElem_Ntry' (st : StmtSlots) (a : String) (kids : List Node) :
    stmtSpec.onElem st "Ntry" a kids = (setOnce st.ntries ((decEntry a kids).map fun e => [e])).bind fun v => .ok { st with ntries := v } := rfl

theorem walk_bals : ∀ (bs : List CamtBalance), (∀ b ∈ bs, balanceOk b = true) → ∀ (nt : Option (List CamtEntry)) (acc : List CamtBalance),
    walk stmtSpec ⟨some acc, nt⟩ (some "Bal") (toNodes (cBals bs)) = .ok (⟨some (acc ++ bs), nt⟩, some "Bal")
  | [], _, nt, acc => by simp [cBals]
  | b :: bs, h, nt, acc => by
    have hb := decBalance_render b (h b (by simp))
    have ih := walk_bals bs (fun x hx => h x (List.mem_cons_of_mem _ hx)) nt (acc ++ [b])
    have hl : lname "Bal" = "Bal" := by decide
    have e : cBals (b :: bs) = nodeT "Bal" (cBalance b) :: cBals bs := rfl
    rw [e, toNodes_cons, toNode_nodeT]
    simp only [walk, beq_self_eq_true, if_true, hl, stmt_onItem_Bal, hb, Except.bind, Option.getD_some]
    simpa using ih

theorem walk_ntries : ∀ (es : List CamtEntry), (∀ e ∈ es, entryOk e = true) → ∀ (bl : Option (List CamtBalance)) (acc : List CamtEntry),
    walk stmtSpec ⟨bl, some acc⟩ (some "Ntry") (toNodes (cNtries es)) = .ok (⟨bl, some (acc ++ es)⟩, some "Ntry")
  | [], _, bl, acc => by simp [cNtries]
  | x :: es, h, bl, acc => by
    have hx := decEntry_render x (h x (by simp))
    have ih := walk_ntries es (fun y hy => h y (List.mem_cons_of_mem _ hy)) bl (acc ++ [x])
    have hl : lname "Ntry" = "Ntry" := by decide
    have e : cNtries (x :: es) = nodeT "Ntry" (cEntry x) :: cNtries es := rfl
    rw [e, toNodes_cons, toNode_nodeT]
    simp only [walk, beq_self_eq_true, if_true, hl, stmt_onItem_Ntry', hx, Except.bind, Option.getD_some]
    simpa using ih

theorem decStmt_render (s : Statement) (h : stmtOk s = true) : decStmt "" (toNodes (cStmt s)) = .ok s := by
  simp only [stmtOk, Bool.and_eq_true, Bool.not_eq_true'] at h
  obtain ⟨⟨hne, hb⟩, he⟩ := h
  have hb : ∀ b ∈ s.balances, balanceOk b = true := by simpa using hb
  have he : ∀ e ∈ s.entries, entryOk e = true := by simpa using he
  cases s with
  | mk bals entries =>
    cases bals with
    | nil => simp at hne
    | cons b bs =>
      have hb1 := decBalance_render b (hb b (by simp))
      have hbs := walk_bals bs (fun x hx => hb x (List.mem_cons_of_mem _ hx)) none [b]
      have hl : lname "Bal" = "Bal" := by decide
      have hl2 : lname "Ntry" = "Ntry" := by decide
      have hn : ((none : Option String) == some "Bal") = false := by decide
      have hn2 : ((some "Bal" : Option String) == some "Ntry") = false := by decide
      have e1 : cBals (b :: bs) = nodeT "Bal" (cBalance b) :: cBals bs := rfl
      have hil : stmtSpec.isList "Bal" = true := rfl
      have hil2 : stmtSpec.isList "Ntry" = true := rfl
      -- the run of balances
      have hrun : walk stmtSpec {} none (toNodes (cBals (b :: bs))) = .ok (⟨some (b :: bs), none⟩, some "Bal") := by
        rw [e1, toNodes_cons, toNode_nodeT]
        simp only [walk, hn, hl, stmt_onElem_Bal, hil, hb1, setOnce, Except.map, Except.bind, if_true, Bool.false_eq_true, if_false]
        simpa using hbs
      unfold decStmt runWalk
      simp only [cStmt, toNodes_append, walk_append, hrun, noAttrs_empty, bind, Except.bind]
      cases entries with
      | nil => simp [cNtries, Except.map, req]
      | cons x es =>
        have hx := decEntry_render x (he x (by simp))
        have hes := walk_ntries es (fun y hy => he y (List.mem_cons_of_mem _ hy)) (some (b :: bs)) [x]
        have e2 : cNtries (x :: es) = nodeT "Ntry" (cEntry x) :: cNtries es := rfl
        rw [e2, toNodes_cons, toNode_nodeT]
        simp only [walk, hn2, hl2, stmt_onElem_Ntry', hil2, hx, setOnce, Except.map, Except.bind, if_true, Bool.false_eq_true,
          if_false, hes]
        simp [req]

theorem b2c_onItem (st : Option (List Statement)) (a : String) (kids : List Node) :
    b2cSpec.onItem st "Stmt" a kids = (decStmt a kids).bind fun s => .ok (some (st.getD [] ++ [s])) := rfl
theorem b2c_onElem_Stmt (st : Option (List Statement)) (a : String) (kids : List Node) :
    b2cSpec.onElem st "Stmt" a kids = setOnce st ((decStmt a kids).map fun s => [s]) := rfl

theorem walk_stmts : ∀ (ss : List Statement), (∀ s ∈ ss, stmtOk s = true) → ∀ (acc : List Statement),
    walk b2cSpec (some acc) (some "Stmt") (toNodes (cStmts ss)) = .ok (some (acc ++ ss), some "Stmt")
  | [], _, acc => by simp [cStmts]
  | x :: ss, h, acc => by
    have hx := decStmt_render x (h x (by simp))
    have ih := walk_stmts ss (fun y hy => h y (List.mem_cons_of_mem _ hy)) (acc ++ [x])
    have hl : lname "Stmt" = "Stmt" := by decide
    have e : cStmts (x :: ss) = nodeT "Stmt" (cStmt x) :: cStmts ss := rfl
    rw [e, toNodes_cons, toNode_nodeT]
    simp only [walk, beq_self_eq_true, if_true, hl, b2c_onItem, hx, Except.bind, Option.getD_some]
    simpa using ih

theorem decB2c_render (ss : List Statement) (h : Renderable ss = true) : decB2c "" (toNodes (cStmts ss)) = .ok ss := by
  simp only [Renderable, Bool.and_eq_true, Bool.not_eq_true'] at h
  obtain ⟨hne, hall⟩ := h
  have hall : ∀ s ∈ ss, stmtOk s = true := by simpa using hall
  cases ss with
  | nil => simp at hne
  | cons x ss =>
    have hx := decStmt_render x (hall x (by simp))
    have hr := walk_stmts ss (fun y hy => hall y (List.mem_cons_of_mem _ hy)) [x]
    have hl : lname "Stmt" = "Stmt" := by decide
    have hn : ((none : Option String) == some "Stmt") = false := by decide
    have hil : b2cSpec.isList "Stmt" = true := rfl
    have e : cStmts (x :: ss) = nodeT "Stmt" (cStmt x) :: cStmts ss := rfl
    rw [e, toNodes_cons, toNode_nodeT]
    simp only [decB2c, noAttrs_empty, runWalk, walk, hn, hl, b2c_onElem_Stmt, hil, hx, setOnce, Except.map, Except.bind, bind,
      if_true, Bool.false_eq_true, if_false, hr]
    simp [req]

theorem decDocument_render (ss : List Statement) (h : Renderable ss = true) : decDocument (rDoc ss).toNode = .ok ss := by
  have hb := decB2c_render ss h
  simp +decide [rDoc, decDocument, decOneField, oneFieldSpec, noAttrs_empty, runWalk, walk, setOnce, req, hb, bind, Except.bind,
    Except.map]

/-! ## the rendering is a canonical tree -/

theorem wfAll_append (l₁ l₂ : List CTree) : wfAll (l₁ ++ l₂) = (wfAll l₁ && wfAll l₂) := by
  induction l₁ with
  | nil => simp [wfAll]
  | cons t ts ih => simp [wfAll, ih, Bool.and_assoc]

theorem wfAll_map {α : Type} (f : α → CTree) (l : List α) (h : ∀ x ∈ l, (f x).wf = true) : wfAll (l.map f) = true := by
  induction l with
  | nil => simp [wfAll]
  | cons x xs ih =>
    simp only [List.map_cons, wfAll, Bool.and_eq_true]
    exact ⟨h x (by simp), ih (fun y hy => h y (List.mem_cons_of_mem _ hy))⟩

theorem wfAll_optList {α : Type} (f : α → CTree) (o : Option α) (h : ∀ x, o = some x → (f x).wf = true) :
    wfAll (optList f o) = true := by
  cases o with
  | none => simp [optList, wfAll]
  | some x => simp [optList, wfAll, h x rfl]

theorem wf_leafT (n t : String) (hn : plainName n = true) : (leafT n t).wf = true := by
  simp [leafT, CTree.wf, hn, attrOk]

theorem wf_nodeT (n : String) (ks : List CTree) (hn : plainName n = true) (hk : wfAll ks = true) : (nodeT n ks).wf = true := by
  simp [nodeT, CTree.wf, hn, hk, attrOk]

theorem wf_rAmount (tag : String) (a : CamtAmount) (ht : plainName tag = true) (h : amountOk a = true) : (rAmount tag a).wf = true := by
  simp only [amountOk, Bool.and_eq_true] at h
  have : plainName "Ccy" = true := by decide
  simp [rAmount, CTree.wf, ht, attrOk, this, h.1]

theorem wf_rCd (cd : CdtDbt) : (rCd cd).wf = true := wf_leafT _ _ (by decide)

theorem wf_cCharge (c : ChargeRecord) (h : chargeOk c = true) : wfAll (cCharge c) = true := by
  simp [cCharge, wfAll, wf_rAmount "Amt" c.amount (by decide) h, wf_rCd, wf_leafT "ChrgInclInd" _ (by decide)]

theorem wf_rCharges (cs : List ChargeRecord) (h : ∀ c ∈ cs, chargeOk c = true) : wfAll (rCharges cs) = true := by
  unfold rCharges
  split
  · simp [wfAll]
  · simp only [wfAll, Bool.and_true]
    exact wf_nodeT _ _ (by decide) (wfAll_map _ _ (fun c hc => wf_nodeT _ _ (by decide) (wf_cCharge c (h c hc))))

theorem wf_cBalance (b : CamtBalance) (h : balanceOk b = true) : wfAll (cBalance b) = true := by
  have h0 : (nodeT "CdOrPrtry" [leafT "Cd" (codeText b.code)]).wf = true :=
    wf_nodeT _ _ (by decide) (by simp +decide [wfAll, wf_leafT])
  have h1 : (nodeT "Tp" [nodeT "CdOrPrtry" [leafT "Cd" (codeText b.code)]]).wf = true :=
    wf_nodeT _ _ (by decide) (by simp [wfAll, h0])
  simp [cBalance, wfAll, h1, wf_rAmount "Amt" b.amount (by decide) h, wf_rCd]

theorem wf_cDate (d : Date) : wfAll (cDate d) = true := by simp +decide [cDate, wfAll, wf_leafT]

theorem wf_cDomain (d : Option (String × String × String)) : wfAll (cDomain d) = true := by
  unfold cDomain
  apply wfAll_optList
  intro x _
  have h1 : (nodeT "Fmly" [leafT "Cd" x.2.1, leafT "SubFmlyCd" x.2.2]).wf = true :=
    wf_nodeT _ _ (by decide) (by simp +decide [wfAll, wf_leafT])
  exact wf_nodeT _ _ (by decide) (by simp +decide [wfAll, wf_leafT, h1])

theorem wf_cXchg (x : CurrencyExchange) : wfAll (cXchg x) = true := by
  simp +decide [cXchg, wfAll, wf_leafT]

theorem wf_cTxAmount (t : TxAmount) (h : txAmountOk t = true) : wfAll (cTxAmount t) = true := by
  simp only [txAmountOk, Bool.and_eq_true] at h
  have ha := wf_rAmount "Amt" t.amount (by decide) h.1
  have hx : wfAll (cAmtXchg t) = true := by
    simp only [cAmtXchg, wfAll, ha, Bool.true_and]
    exact wfAll_optList _ _ (fun x _ => wf_nodeT _ _ (by decide) (wf_cXchg x))
  have hi : (nodeT "InstdAmt" (cInstd t)).wf = true := wf_nodeT _ _ (by decide) (by simp [cInstd, wfAll, ha])
  simp [cTxAmount, wfAll, hi, wf_nodeT "TxAmt" _ (by decide) hx]

theorem wf_rParty (tag : String) (ht : plainName tag = true) (o : Option String) : wfAll (rParty tag o) = true :=
  wfAll_optList _ _ (fun n _ => wf_nodeT _ _ ht (by simp +decide [wfAll, wf_leafT]))

theorem wf_rAcct (tag : String) (ht : plainName tag = true) (o : Option String) : wfAll (rAcct tag o) = true :=
  wfAll_optList _ _ (fun i _ => wf_nodeT _ _ ht (by
    have : (nodeT "Id" [leafT "IBAN" i]).wf = true := wf_nodeT _ _ (by decide) (by simp +decide [wfAll, wf_leafT])
    simp [wfAll, this]))

theorem wf_cRltd (i : PartyInfo) : wfAll (cRltd i) = true := by
  simp [cRltd, wfAll_append, wf_rParty "Dbtr" (by decide), wf_rParty "Cdtr" (by decide), wf_rAcct "CdtrAcct" (by decide),
    wf_rAcct "DbtrAcct" (by decide), wf_rParty "UltmtDbtr" (by decide), wf_rParty "UltmtCdtr" (by decide)]

theorem wf_cDetail (d : TxDetails) (h : detailOk d = true) : wfAll (cDetail d) = true := by
  simp only [detailOk, Bool.and_eq_true] at h
  obtain ⟨⟨ha, htx⟩, hch⟩ := h
  have hch : ∀ c ∈ d.charges, chargeOk c = true := by simpa using hch
  have h1 : (nodeT "Refs" (optList (leafT "AcctSvcrRef") d.ref)).wf = true :=
    wf_nodeT _ _ (by decide) (wfAll_optList _ _ (fun x _ => wf_leafT _ _ (by decide)))
  have h2 : wfAll (optList (fun t => nodeT "AmtDtls" (cTxAmount t)) d.txAmount) = true :=
    wfAll_optList _ _ (fun t ht => wf_nodeT _ _ (by decide) (wf_cTxAmount t (by simpa [ht] using htx)))
  have h3 : (nodeT "RltdPties" (cRltd d.info)).wf = true := wf_nodeT _ _ (by decide) (wf_cRltd _)
  have h4 : (nodeT "RmtInf" (optList (leafT "Ustrd") d.info.remittanceUnstructured)).wf = true :=
    wf_nodeT _ _ (by decide) (wfAll_optList _ _ (fun x _ => wf_leafT _ _ (by decide)))
  have h5 : wfAll (optList (leafT "AddtlTxInf") d.info.additionalTransactionInfo) = true :=
    wfAll_optList _ _ (fun x _ => wf_leafT _ _ (by decide))
  simp [cDetail, wfAll_append, wfAll, h1, wf_rAmount "Amt" d.amount (by decide) ha, wf_rCd, h2, wf_rCharges _ hch, h3, h4, h5]

theorem wf_cEntry (e : CamtEntry) (h : entryOk e = true) : wfAll (cEntry e) = true := by
  simp only [entryOk, Bool.and_eq_true] at h
  obtain ⟨⟨⟨⟨⟨ha, _⟩, _⟩, _⟩, hch⟩, hdt⟩ := h
  have hch : ∀ c ∈ e.charges, chargeOk c = true := by simpa using hch
  have hdt : ∀ d ∈ e.details, detailOk d = true := by simpa using hdt
  have h1 : (nodeT "BookgDt" (cDate e.bookingDate)).wf = true := wf_nodeT _ _ (by decide) (wf_cDate _)
  have h2 : wfAll (optList (fun d => nodeT "ValDt" (cDate d)) e.valueDate) = true :=
    wfAll_optList _ _ (fun d _ => wf_nodeT _ _ (by decide) (wf_cDate d))
  have h3 : (nodeT "BkTxCd" (cDomain e.domain)).wf = true := wf_nodeT _ _ (by decide) (wf_cDomain _)
  have h4 : wfAll (if e.details.isEmpty then [] else [nodeT "NtryDtls" (cDetails e.details)]) = true := by
    split
    · simp [wfAll]
    · simp only [wfAll, Bool.and_true]
      exact wf_nodeT _ _ (by decide) (wfAll_map _ _ (fun d hd => wf_nodeT _ _ (by decide) (wf_cDetail d (hdt d hd))))
  have h4' : wfAll (if e.details = [] then [] else [nodeT "NtryDtls" (cDetails e.details)]) = true := by simpa using h4
  have h5 : (leafT "AddtlNtryInf" e.additionalInfo).wf = true := wf_leafT _ _ (by decide)
  simp [cEntry, wfAll_append, wfAll, wf_rAmount "Amt" e.amount (by decide) ha, wf_rCd, h1, h2, h3, wf_rCharges _ hch, h4', h5]

theorem wf_rDoc (ss : List Statement) (h : Renderable ss = true) : (rDoc ss).wf = true := by
  simp only [Renderable, Bool.and_eq_true] at h
  have hall : ∀ s ∈ ss, stmtOk s = true := by simpa using h.2
  have hs : ∀ s ∈ ss, (nodeT "Stmt" (cStmt s)).wf = true := by
    intro s hs
    have := hall s hs
    simp only [stmtOk, Bool.and_eq_true] at this
    obtain ⟨⟨_, hb⟩, he⟩ := this
    have hb : ∀ b ∈ s.balances, balanceOk b = true := by simpa using hb
    have he : ∀ e ∈ s.entries, entryOk e = true := by simpa using he
    apply wf_nodeT _ _ (by decide)
    simp only [cStmt, wfAll_append, Bool.and_eq_true]
    exact ⟨wfAll_map _ _ (fun b hb' => wf_nodeT _ _ (by decide) (wf_cBalance b (hb b hb'))),
           wfAll_map _ _ (fun e he' => wf_nodeT _ _ (by decide) (wf_cEntry e (he e he')))⟩
  exact wf_nodeT _ _ (by decide) (by
    simp only [wfAll, Bool.and_true]
    exact wf_nodeT _ _ (by decide) (wfAll_map _ _ hs))

/-- **`decode (render d) = ok d`**: every renderable list of statements is the decoding of its canonical rendering — through
the model of quick-xml's reader (tokens, tree, text trimming and unescaping) and of the serde schema of `xmlnode.rs`. -/
theorem decodeCamt_render (ss : List Statement) (h : Renderable ss = true) : decodeCamt (render ss) = .ok ss := by
  unfold decodeCamt readDocument render
  rw [String.toList_ofList, readRoot_print _ (wf_rDoc ss h)]
  exact decDocument_render ss h

end Okane.Import.CamtXml
