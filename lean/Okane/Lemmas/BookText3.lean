import Okane.Lemmas.BookText2
import Okane.Props.C12
/-!
# C02 on texts: the file-order reading (finding F12 at text level)

`C02_text_holds` (`Lemmas/BookText2.lean`) says what an assertion is checked against: the account's balance when the posting
line is reached.  The property's own wording is stronger: "in file order", i.e. against the sum of the amounts of all
postings of the FINAL ledger up to and including the asserted line.  The two differ exactly when the transaction's bare
posting line (amount deduced at the end) stands on the same account before the asserted line — finding F12.

* `C02_text_fileorder_stmt` — the file-order statement over texts, at full strength (kept visible);
* `fileOrderCheck` — the same as a decidable test of one text, `C02_text_fileorder_iff`;
* `C02_text_fileorder_false` — it is false of the text `2024/01/01 x⏎ A⏎ A  5 USD = 5 USD⏎` (accepted, although in file
  order A holds 0 USD after the second line);
* `C02_text_running_fileorder`, `C02_text_fileorder_partial`, `C02_text_fileorder_partial_zero` — for every posting line such
  that the bare line of its transaction, if any, comes after it or names another account (`OmittedNotReasserted`, decidable
  on the parsed text) the running balance IS the file-order sum; hence the file-order statement for `= v C` and `= 0`;
* `C02_text_holds_after` — "after the transaction" the account still holds the asserted value, if no later line and no bare
  line of the transaction names it (`loopSyntax_frame`, `TxnRun.account_resolves`);
* `C02_text_reject_sum` — rejection with the computed balance spelt out as a sum over the text's own postings (`prefix_sum`);
* `C03_text_frame` — accounts not named by a transaction keep their balance.
-/
set_option linter.unusedSectionVars false
set_option linter.unusedVariables false
namespace Okane.BookText
open Okane Okane.Spec

/-- **the file-order reading of C02 over texts** (single-commodity assertions `= v C`): for every text, every
transaction entry `k` of it that is reached and accepted, every posting line `j` of it with an amount and an assertion
that resolves to `v C` on account `a`: the amounts posted to `a` in `C` by all earlier transactions, plus those of lines
`0 … j` of this transaction as they stand in the final ledger, add up to `v`. -/
def C02_text_fileorder_stmt : Prop :=
  ∀ (t : List Char) (es : List Entry) (k : Nat) (txn : Transaction) (stk stk' : ProcState)
    (otxn : OutTxn String String) (j : Nat) (p : Posting) (c1 c2 : Ctx) (st1 : TxnState String String)
    (rp : RPosting String String) (s : SingleAmount String),
    Parse.parseEntries t = .ok es → es[k]? = some (.txn txn) →
    process (es.take k) = .ok stk → process (es.take (k + 1)) = .ok stk' → stk'.txns.getLast? = some otxn →
    txn.posts[j]? = some p → p.amount.isSome = true →
    loopSyntax txn.date stk.ctx ⟨[], none, [], stk.bal, [], []⟩ 0 (txn.posts.take j) = .ok (c1, st1) →
    resolvePosting c1 p = .ok (rp, c2) → rp.balance = some (.single s) →
    ledgerSum stk.txns rp.account s.commodity + acctSum (otxn.postings.take (j + 1)) rp.account s.commodity = s.value

/-- the same for one text, entry `k`, posting line `j`, as a decidable test -/
def fileOrderCheck (t : List Char) (k j : Nat) : Bool :=
  match Parse.parseEntries t with
  | .ok es =>
    match es[k]? with
    | some (.txn txn) =>
      match process (es.take k), process (es.take (k + 1)) with
      | .ok stk, .ok stk' =>
        match stk'.txns.getLast?, txn.posts[j]? with
        | some otxn, some p =>
          if p.amount.isSome then
            match loopSyntax txn.date stk.ctx ⟨[], none, [], stk.bal, [], []⟩ 0 (txn.posts.take j) with
            | .ok (c1, st1) =>
              match resolvePosting c1 p with
              | .ok (rp, _) =>
                match rp.balance with
                | some (.single s) =>
                  decide (ledgerSum stk.txns rp.account s.commodity +
                    acctSum (otxn.postings.take (j + 1)) rp.account s.commodity = s.value)
                | _ => true
              | _ => true
            | _ => true
          else true
        | _, _ => true
      | _, _ => true
    | _ => true
  | _ => true

theorem fileOrderCheck_of_stmt (h : C02_text_fileorder_stmt) (t : List Char) (k j : Nat) : fileOrderCheck t k j = true := by
  unfold fileOrderCheck
  repeat' split
  all_goals first | rfl | skip
  simp only [decide_eq_true_eq]
  apply h <;> assumption

theorem stmt_of_fileOrderCheck (h : ∀ t k j, fileOrderCheck t k j = true) : C02_text_fileorder_stmt := by
  intro t es k txn stk stk' otxn j p c1 c2 st1 rp s h1 h2 h3 h4 h5 h6 h7 h8 h9 h10
  have := h t k j
  simp only [fileOrderCheck, h1, h2, h3, h4, h5, h6, h7, h8, h9, h10, if_true, decide_eq_true_eq] at this
  exact this

/-- the statement is the universal closure of the test -/
theorem C02_text_fileorder_iff : C02_text_fileorder_stmt ↔ ∀ t k j, fileOrderCheck t k j = true :=
  ⟨fileOrderCheck_of_stmt, stmt_of_fileOrderCheck⟩

/-- the witness of F12 as a TEXT: the bare line `A` stands before `A  5 USD = 5 USD` -/
def f12Text : List Char := "2024/01/01 x\n A\n A  5 USD = 5 USD\n".toList

/-- the text is accepted … -/
theorem f12Text_accepted : okaneAccepts f12Text := okaneAccepts_of_check (by decide +kernel)

/-- … although the file-order test of its asserted line fails: **the file-order reading is false of the code (F12)** -/
theorem C02_text_fileorder_false : ¬ C02_text_fileorder_stmt := by
  intro h
  have := fileOrderCheck_of_stmt h f12Text 0 1
  revert this
  decide +kernel

/-! ## the partial theorem -/

theorem loopSyntax_le {date : Date} {ps : List Posting} {c c' : Ctx} {st st' : TxnState String String} {idx : Nat}
    (h : loopSyntax date c st idx ps = .ok (c', st')) : c.le c' :=
  (loopSyntax_rel c date ps ps c st idx
    (listRel_refl (Posting.rel_refl (fun _ => Or.inl rfl) (fun _ => Or.inl rfl)) ps) (Ctx.le_refl c)).2 c' st' h

/-- after `ensure`, the name resolves to what `ensure` returned -/
theorem ensure_resolves (s : Store) (x : String) : (s.ensure x).2.resolve x = some (s.ensure x).1 := by
  cases h : s.resolve x with
  | some c => simp [Store.ensure, h]
  | none =>
    simp only [Store.ensure, h]
    simp [Store.resolve, AMap.get?_insert_self]

/-- from the states before and after entry `k` to the step of entry `k` -/
theorem step_of_prefixes (es : List Entry) (k : Nat) (e : Entry) (stk stk' : ProcState) (hek : es[k]? = some e)
    (h1 : process (es.take k) = .ok stk) (h2 : process (es.take (k + 1)) = .ok stk') : stepEntry stk e = .ok stk' := by
  have hlt : k < es.length := (List.getElem?_eq_some_iff.1 hek).1
  have he : es[k] = e := (List.getElem?_eq_some_iff.1 hek).2
  have ht : es.take (k + 1) = es.take k ++ [e] := by rw [← he]; simp
  unfold process at h1 h2
  rw [ht, processFrom_append, h1] at h2
  simp only [processFrom] at h2
  cases hs : stepEntry stk e with
  | ok x => rw [hs] at h2; simp only [Outcome.ok.injEq] at h2; rw [h2]
  | err x => rw [hs] at h2; simp at h2
  | panic x => rw [hs] at h2; simp at h2
  | fuelOut => rw [hs] at h2; simp at h2

section
variable {α κ : Type} [DecidableEq α] [DecidableEq κ]

/-- what a posting contributes to the sum of account `a` in commodity `c` -/
def contrib (a : α) (c : κ) (o : OutPosting α κ) : Rat := if o.account = a then Amount.getPart o.amount c else 0

theorem acctSum_eq_map (outs : List (OutPosting α κ)) (a : α) (c : κ) : acctSum outs a c = (outs.map (contrib a c)).sum := rfl

/-- two posting lists that contribute the same, position by position, below `n` have the same sum over their first `n` -/
theorem acctSum_take_congr (L L' : List (OutPosting α κ)) (n : Nat) (a : α) (c : κ)
    (h : ∀ i, i < n → (L[i]?).map (contrib a c) = (L'[i]?).map (contrib a c)) :
    acctSum (L.take n) a c = acctSum (L'.take n) a c := by
  rw [acctSum_eq_map, acctSum_eq_map]
  congr 1
  apply List.ext_getElem?
  intro i
  simp only [List.getElem?_map, List.getElem?_take]
  by_cases hi : i < n
  · simp only [hi, if_true]; exact h i hi
  · simp [hi]

end

/-- **the running balance IS the file-order sum** (`OmittedNotReasserted`): for every posting line `j` of an accepted
transaction entry such that every bare posting line of the transaction comes after line `j` or names an account resolving
— in the context the transaction leaves — to another account than the one of line `j`: the balance of that account right
after line `j` is, in every commodity, what the earlier transactions posted to it plus what lines `0 … j` of this
transaction post to it in the FINAL ledger. -/
theorem C02_text_running_fileorder (t : List Char) (es : List Entry) (k : Nat) (txn : Transaction) (stk stk' : ProcState)
    (otxn : OutTxn String String) (j : Nat) (p : Posting) (c1 c2 : Ctx) (st1 : TxnState String String)
    (rp : RPosting String String)
    (hp : Parse.parseEntries t = .ok es) (hek : es[k]? = some (.txn txn))
    (hpre : process (es.take k) = .ok stk) (hpost : process (es.take (k + 1)) = .ok stk')
    (hlast : stk'.txns.getLast? = some otxn)
    (hj : txn.posts[j]? = some p)
    (hbefore : loopSyntax txn.date stk.ctx ⟨[], none, [], stk.bal, [], []⟩ 0 (txn.posts.take j) = .ok (c1, st1))
    (hres : resolvePosting c1 p = .ok (rp, c2))
    (hside : ∀ (u : Nat) (q : Posting), txn.posts[u]? = some q → bare q = true →
      j < u ∨ stk'.ctx.accounts.resolve q.account ≠ some rp.account) :
    ∃ st2, stepPosting txn.date st1 j rp = .ok st2 ∧
      ∀ c, Amount.getPart (Balance.get st2.bal rp.account) c =
        ledgerSum stk.txns rp.account c + acctSum (otxn.postings.take (j + 1)) rp.account c := by
  have hstep := step_of_prefixes es k _ stk stk' hek hpre hpost
  obtain ⟨c', stL, r, rps, hrun⟩ := txnRun_of_accepted stk stk' txn hstep
  have hotxn : otxn = r.txn := by
    rw [hrun.next] at hlast
    simpa using hlast.symm
  subst hotxn
  obtain ⟨c1', st1', rp', c2', st2, out, hat, hrp, hlen1, hp2, hacc, hLj, hmore'⟩ := hrun.at j p hj
  obtain ⟨more, hmore⟩ := hmore'
  have e1 := hat.before.symm.trans hbefore
  simp only [Outcome.ok.injEq, Prod.mk.injEq] at e1
  obtain ⟨rfl, rfl⟩ := e1
  have e2 := hat.resolved.symm.trans hres
  simp only [Outcome.ok.injEq, Prod.mk.injEq] at e2
  obtain ⟨rfl, rfl⟩ := e2
  refine ⟨st2, hat.applied, fun c => ?_⟩
  have hinvk := process_Inv _ stk hpre
  obtain ⟨hinv1, _, hsum1⟩ := hat.inv hinvk
  -- the running balance is the ledger sum plus the file-order sum of what the loop emitted so far
  obtain ⟨_, out', hp2', _, _, hmove⟩ := step_balance txn.date st1' st2 j rp' hat.applied hinv1
  have hout : out' = out := by
    have := hp2.symm.trans hp2'
    simpa using this.symm
  subst hout
  have hraw := (RawOK_processFrom _ {} stk 0 hpre RawOK_init).2 rp'.account c
  have hrun2 : Amount.getPart (Balance.get st2.bal rp'.account) c =
      ledgerSum stk.txns rp'.account c + acctSum st2.postings rp'.account c := by
    rw [hmove, hsum1, hraw, hp2, acctSum_append]
    simp only [acctSum, List.map_cons, List.map_nil, List.sum_cons, List.sum_nil]
    grind
  rw [hrun2]
  congr 1
  -- the first `j + 1` postings of the final transaction contribute what the loop had emitted
  have hlen2 : st2.postings.length = j + 1 := by rw [hp2]; simp [hlen1]
  have htake : stL.postings.take (j + 1) = st2.postings := by
    rw [hmore, ← hlen2]; simp
  rw [← htake]
  symm
  apply acctSum_take_congr
  intro i hi
  obtain ⟨_, g2, g3, _⟩ := finishG_posting stk.ctx.prec txn.date stL r hrun.fin
  by_cases hui : stL.unfilled = some i
  · -- `i` is the bare line: it comes before `j`, so it names another account
    obtain ⟨o, ho, hro, _⟩ := g3 i hui
    rw [hro, ho]
    simp only [Option.map_some, Option.some.injEq, contrib]
    have hne : o.account ≠ rp'.account := by
      rcases loopPostings_unfilled txn.date rps _ stL 0 hrun.core with e | ⟨u', rq, _, e2, e3, e4⟩
      · rw [hui] at e; simp at e
      · rw [hui] at e2
        simp only [Option.some.injEq] at e2
        subst e2
        simp only [Nat.sub_zero] at e3
        have hlt : i < txn.posts.length := by rw [← hrun.len]; exact (List.getElem?_eq_some_iff.1 e3).1
        have hq : txn.posts[i]? = some txn.posts[i] := by simp [hlt]
        have hqb : bare txn.posts[i] = true := by rw [← (hrun.shapes.get hq e3).bare]; exact e4
        rcases hside i _ hq hqb with hlt' | hne
        · omega
        · obtain ⟨cq1, stq1, rq', cq2, stq2, outq, hatq, hrq, _, _, haccq, hLq, _⟩ := hrun.at i _ hq
          rw [ho] at hLq
          simp only [Option.some.injEq] at hLq
          subst hLq
          rw [e3] at hrq
          simp only [Option.some.injEq] at hrq
          subst hrq
          intro heq
          apply hne
          -- the account written resolves, at the end of the transaction, to the account of the emitted posting
          obtain ⟨hacct, _, _⟩ := resolvePosting_ok hatq.resolved
          have hreg := (resolvePosting_registers hatq.resolved).2
          have hres2 : cq2.accounts.resolve txn.posts[i].account = some rq.account := by
            rw [hreg, hacct]; exact ensure_resolves _ _
          -- the context after line `i` only grows until the end of the transaction
          obtain ⟨c1x, st1x, rpx, c2x, st2x, f1, f2, f3, f4⟩ :=
            loopSyntax_split txn.date txn.posts stk.ctx c' _ stL 0 i _ hq hrun.loop
          have e1 := f1.symm.trans hatq.before
          simp only [Outcome.ok.injEq, Prod.mk.injEq] at e1
          obtain ⟨rfl, rfl⟩ := e1
          have e2 := f2.symm.trans hatq.resolved
          simp only [Outcome.ok.injEq, Prod.mk.injEq] at e2
          obtain ⟨rfl, rfl⟩ := e2
          have hle := (loopSyntax_le f4).1
          have := Store.resolve_of_le hle hres2
          rw [hrun.next]
          simp only
          rw [this, haccq.symm, heq]
    simp [hne]
  · have := g2 i (by intro u hu huj; subst huj; exact hui hu)
    have h1 : (r.txn.postings[i]?).map (contrib rp'.account c) =
        ((r.txn.postings[i]?).map acctAmt).map (fun x => if x.1 = rp'.account then Amount.getPart x.2 c else 0) := by
      cases r.txn.postings[i]? <;> rfl
    have h2 : (stL.postings[i]?).map (contrib rp'.account c) =
        ((stL.postings[i]?).map acctAmt).map (fun x => if x.1 = rp'.account then Amount.getPart x.2 c else 0) := by
      cases stL.postings[i]? <;> rfl
    rw [h1, h2, this]

/-- **C02_text_fileorder_partial** (`OmittedNotReasserted`): the file-order statement holds for every asserted posting
line `j` such that every bare posting line of its transaction comes after line `j` or names an account that resolves — in
the context the transaction leaves — to another account than the asserted one.  (The excluded case is exactly F12.) -/
theorem C02_text_fileorder_partial (t : List Char) (es : List Entry) (k : Nat) (txn : Transaction) (stk stk' : ProcState)
    (otxn : OutTxn String String) (j : Nat) (p : Posting) (c1 c2 : Ctx) (st1 : TxnState String String)
    (rp : RPosting String String) (s : SingleAmount String)
    (hp : Parse.parseEntries t = .ok es) (hek : es[k]? = some (.txn txn))
    (hpre : process (es.take k) = .ok stk) (hpost : process (es.take (k + 1)) = .ok stk')
    (hlast : stk'.txns.getLast? = some otxn)
    (hj : txn.posts[j]? = some p) (hpa : p.amount.isSome = true)
    (hbefore : loopSyntax txn.date stk.ctx ⟨[], none, [], stk.bal, [], []⟩ 0 (txn.posts.take j) = .ok (c1, st1))
    (hres : resolvePosting c1 p = .ok (rp, c2)) (hbal : rp.balance = some (.single s))
    (hside : ∀ (u : Nat) (q : Posting), txn.posts[u]? = some q → bare q = true →
      j < u ∨ stk'.ctx.accounts.resolve q.account ≠ some rp.account) :
    ledgerSum stk.txns rp.account s.commodity + acctSum (otxn.postings.take (j + 1)) rp.account s.commodity = s.value := by
  obtain ⟨st2, happ, hsum⟩ :=
    C02_text_running_fileorder t es k txn stk stk' otxn j p c1 c2 st1 rp hp hek hpre hpost hlast hj hbefore hres hside
  obtain ⟨_, hamt, _⟩ := resolvePosting_ok hres
  obtain ⟨pa, hpa'⟩ := Option.isSome_iff_exists.1 hpa
  rw [hpa'] at hamt
  obtain ⟨ra, cs, _, hra⟩ := hamt
  have hholds := (C02_holds txn.date st1 st2 j rp ra (.single s) hra hbal happ).2
  simp only [Spec.Holds] at hholds
  rw [← hsum, hholds]

/-- … and for an assertion `= 0` (bare zero): in file order the account holds nothing, in any commodity -/
theorem C02_text_fileorder_partial_zero (t : List Char) (es : List Entry) (k : Nat) (txn : Transaction)
    (stk stk' : ProcState) (otxn : OutTxn String String) (j : Nat) (p : Posting) (c1 c2 : Ctx)
    (st1 : TxnState String String) (rp : RPosting String String)
    (hp : Parse.parseEntries t = .ok es) (hek : es[k]? = some (.txn txn))
    (hpre : process (es.take k) = .ok stk) (hpost : process (es.take (k + 1)) = .ok stk')
    (hlast : stk'.txns.getLast? = some otxn)
    (hj : txn.posts[j]? = some p) (hpa : p.amount.isSome = true)
    (hbefore : loopSyntax txn.date stk.ctx ⟨[], none, [], stk.bal, [], []⟩ 0 (txn.posts.take j) = .ok (c1, st1))
    (hres : resolvePosting c1 p = .ok (rp, c2)) (hbal : rp.balance = some .zero)
    (hside : ∀ (u : Nat) (q : Posting), txn.posts[u]? = some q → bare q = true →
      j < u ∨ stk'.ctx.accounts.resolve q.account ≠ some rp.account) :
    ∀ c, ledgerSum stk.txns rp.account c + acctSum (otxn.postings.take (j + 1)) rp.account c = 0 := by
  obtain ⟨st2, happ, hsum⟩ :=
    C02_text_running_fileorder t es k txn stk stk' otxn j p c1 c2 st1 rp hp hek hpre hpost hlast hj hbefore hres hside
  obtain ⟨_, hamt, _⟩ := resolvePosting_ok hres
  obtain ⟨pa, hpa'⟩ := Option.isSome_iff_exists.1 hpa
  rw [hpa'] at hamt
  obtain ⟨ra, cs, _, hra⟩ := hamt
  have hholds := (C02_holds txn.date st1 st2 j rp ra .zero hra hbal happ).2
  simp only [Spec.Holds] at hholds
  intro c
  rw [← hsum, hholds]
  simp [Amount.getPart, AMap.get?]

/-! ## "after the transaction": the frame of the rest of the loop -/

/-- postings whose accounts resolve — in the context the loop leaves — to other accounts than `a` do not touch `a` -/
theorem loopSyntax_frame (date : Date) (a : String) : ∀ (ps : List Posting) (c c' : Ctx) (st st' : TxnState String String)
    (idx : Nat), loopSyntax date c st idx ps = .ok (c', st') →
    (∀ q ∈ ps, c'.accounts.resolve q.account ≠ some a) → Balance.get st'.bal a = Balance.get st.bal a
  | [], c, c', st, st', idx, h, _ => by
    simp only [loopSyntax, Outcome.ok.injEq, Prod.mk.injEq] at h
    rw [← h.2]
  | q :: ps, c, c', st, st', idx, h, hne => by
    simp only [loopSyntax] at h
    cases hr : resolvePosting c q with
    | ok r =>
      obtain ⟨rq, c1⟩ := r
      rw [hr] at h
      simp only at h
      cases hs : stepPosting date st idx rq with
      | ok st1 =>
        rw [hs] at h
        simp only at h
        have ih := loopSyntax_frame date a ps c1 c' st1 st' (idx + 1) h
          (fun q' hq' => hne q' (List.mem_cons_of_mem _ hq'))
        rw [ih]
        apply C03_frame_step date st st1 idx rq a hs
        intro heq
        apply hne q (by simp)
        obtain ⟨hacct, _, _⟩ := resolvePosting_ok hr
        have hreg := (resolvePosting_registers hr).2
        have hres1 : c1.accounts.resolve q.account = some rq.account := by
          rw [hreg, hacct]; exact ensure_resolves _ _
        rw [Store.resolve_of_le (loopSyntax_le h).1 hres1, heq]
      | err e => rw [hs] at h; simp at h
      | panic e => rw [hs] at h; simp at h
      | fuelOut => rw [hs] at h; simp at h
    | err e => rw [hr] at h; simp at h
    | panic e => rw [hr] at h; simp at h
    | fuelOut => rw [hr] at h; simp at h

/-- in the context an accepted transaction leaves, the account written in line `i` resolves to the account of the `i`-th
resolved posting -/
theorem TxnRun.account_resolves {stk stk' : ProcState} {txn : Transaction} {c' : Ctx} {stL : TxnState String String}
    {r : TxnResult String String} {rps : List (RPosting String String)} (h : TxnRun stk stk' txn c' stL r rps)
    (i : Nat) (q : Posting) (rq : RPosting String String) (hq : txn.posts[i]? = some q) (hrq : rps[i]? = some rq) :
    stk'.ctx.accounts.resolve q.account = some rq.account := by
  obtain ⟨c1x, st1x, rpx, c2x, st2x, f1, f2, f3, f4⟩ :=
    loopSyntax_split txn.date txn.posts stk.ctx c' _ stL 0 i _ hq h.loop
  obtain ⟨c1', st1', c2', rp', g1, g2, g3⟩ := h.pinned i q hq
  have e1 := f1.symm.trans g1
  simp only [Outcome.ok.injEq, Prod.mk.injEq] at e1
  obtain ⟨rfl, rfl⟩ := e1
  have e2 := f2.symm.trans g2
  simp only [Outcome.ok.injEq, Prod.mk.injEq] at e2
  obtain ⟨rfl, rfl⟩ := e2
  rw [hrq] at g3
  simp only [Option.some.injEq] at g3
  subst g3
  obtain ⟨hacct, _, _⟩ := resolvePosting_ok f2
  have hreg := (resolvePosting_registers f2).2
  have hres2 : c2x.accounts.resolve q.account = some rq.account := by
    rw [hreg, hacct]; exact ensure_resolves _ _
  rw [h.next]
  exact Store.resolve_of_le (loopSyntax_le f4).1 hres2

/-- **C02_text_holds_after** — "after the transaction": in every accepted TEXT, for every posting line `j` with an amount and
`= X` such that no later posting line of its transaction, and no bare posting line of it (before or after), names an
account resolving to the asserted account: when the transaction has been booked, the account still holds the evaluation
`x` of the `X` written.  (The side condition excludes further movements of the account inside the transaction, among
them the deferred amount of the bare line — finding F12.) -/
theorem C02_text_holds_after (t : List Char) (es : List Entry) (st : ProcState) (h : Denotes t es st)
    (k : Nat) (hk : k < es.length) (txn : Transaction) (hek : es[k] = .txn txn)
    (j : Nat) (p : Posting) (pa : PostingAmount) (X : VExpr)
    (hj : txn.posts[j]? = some p) (hpa : p.amount = some pa) (hpb : p.balance = some X) :
    ∃ stk stk' c1 st1 rp c2 st2 x, process (es.take k) = .ok stk ∧ process (es.take (k + 1)) = .ok stk' ∧
      AtPosting stk txn j p c1 st1 rp c2 st2 ∧
      evalPostingAmt (balStore c1 p) X = .ok (x, c2.commodities) ∧ rp.balance = some x ∧
      ((∀ (u : Nat) (q : Posting), txn.posts[u]? = some q → (j < u ∨ bare q = true) →
          stk'.ctx.accounts.resolve q.account ≠ some rp.account) →
        Spec.Holds x (Balance.get stk'.bal rp.account)) := by
  obtain ⟨stk, stk', h1, h2, h3, _⟩ := process_at es st k hk h.2
  rw [hek] at h2
  obtain ⟨c', stL, r, rps, hrun⟩ := txnRun_of_accepted stk stk' txn h2
  obtain ⟨c1, st1, rp, c2, st2, f1, f2, f3, f4⟩ :=
    loopSyntax_split txn.date txn.posts stk.ctx c' _ stL 0 j p hj hrun.loop
  rw [Nat.zero_add] at f3 f4
  have hat : AtPosting stk txn j p c1 st1 rp c2 st2 := ⟨hj, f1, f2, f3⟩
  obtain ⟨_, hamt, hbal⟩ := resolvePosting_ok f2
  rw [hpa] at hamt
  rw [hpb] at hbal
  obtain ⟨ra, cs, _, hra'⟩ := hamt
  obtain ⟨x, hx, hx'⟩ := hbal
  have hholds := (C02_holds txn.date st1 st2 j rp ra x hra' hx' f3).2
  refine ⟨stk, stk', c1, st1, rp, c2, st2, x, h1, h3, hat, hx, hx', ?_⟩
  intro hside
  have hctx : stk'.ctx = c' := by rw [hrun.next]
  -- the rest of the loop does not touch the account
  have hrest : Balance.get stL.bal rp.account = Balance.get st2.bal rp.account := by
    apply loopSyntax_frame txn.date rp.account _ c2 c' st2 stL (j + 1) f4
    intro q hq
    obtain ⟨u, hu⟩ := List.getElem?_of_mem hq
    rw [List.getElem?_drop] at hu
    rw [← hctx]
    exact hside (j + 1 + u) q hu (.inl (by omega))
  -- neither does the tail of `add_transaction`
  obtain ⟨_, _, g3, g4⟩ := finishG_posting stk.ctx.prec txn.date stL r hrun.fin
  have hbalr : Balance.get r.bal rp.account = Balance.get stL.bal rp.account := by
    cases hu : stL.unfilled with
    | none => rw [g4 hu]
    | some u =>
      obtain ⟨o, ho, _, hrb⟩ := g3 u hu
      rw [hrb, Balance.get_addAmount]
      have hne : o.account ≠ rp.account := by
        rcases loopPostings_unfilled txn.date rps _ stL 0 hrun.core with e | ⟨u', rq, _, e2, e3, e4⟩
        · rw [hu] at e; simp at e
        · rw [hu] at e2
          simp only [Option.some.injEq] at e2
          subst e2
          simp only [Nat.sub_zero] at e3
          have hlt : u < txn.posts.length := by rw [← hrun.len]; exact (List.getElem?_eq_some_iff.1 e3).1
          have hq : txn.posts[u]? = some txn.posts[u] := by simp [hlt]
          have hqb : bare txn.posts[u] = true := by rw [← (hrun.shapes.get hq e3).bare]; exact e4
          have hres := hrun.account_resolves u _ rq hq e3
          obtain ⟨_, _, rq', _, _, outq, _, hrq, _, _, haccq, hLq, _⟩ := hrun.at u _ hq
          rw [e3] at hrq
          simp only [Option.some.injEq] at hrq
          subst hrq
          rw [ho] at hLq
          simp only [Option.some.injEq] at hLq
          subst hLq
          intro heq
          exact hside u _ hq (.inr hqb) (by rw [hres, ← haccq, heq])
      simp [hne]
  have hbal' : stk'.bal = r.bal := by rw [hrun.next]
  rw [hbal', hbalr, hrest]
  exact hholds

/-! ## rejection, with the computed balance spelt out as a file-order sum -/

/-- the loop state before posting line `j`: its balance of any account is the ledger sum of the earlier transactions plus
the file-order sum of what lines `0 … j-1` of this transaction have booked so far (a bare line has booked nothing yet) -/
theorem prefix_sum (es : List Entry) (k : Nat) (stk : ProcState) (hpre : process (es.take k) = .ok stk)
    (txn : Transaction) (j : Nat) (hlt : j < txn.posts.length) (c1 : Ctx) (st1 : TxnState String String)
    (hbefore : loopSyntax txn.date stk.ctx ⟨[], none, [], stk.bal, [], []⟩ 0 (txn.posts.take j) = .ok (c1, st1)) :
    Balance.Inv st1.bal ∧ ∀ a c, Amount.getPart (Balance.get st1.bal a) c = ledgerSum stk.txns a c + acctSum st1.postings a c := by
  have hraw := RawOK_processFrom _ {} stk 0 hpre RawOK_init
  obtain ⟨h1, _, outs, h3, _, h4⟩ := loopSyntax_inv txn.date _ _ _ _ _ 0 hbefore hraw.1 (init_IdxOK stk.bal)
  simp only [List.nil_append] at h3
  refine ⟨h1, fun a c => ?_⟩
  rw [h4 a c, hraw.2 a c, h3]

/-- **C02_text_reject_sum**: `C02_text_reject` for an assertion `= v C`, with the falsity hypothesis in terms of the text's
own postings: the amounts booked to the account in `C` by the earlier transactions, plus those booked by lines `0 … j-1` of
this transaction, plus the amount written on line `j`, differ from `v`.  Then the text is rejected at entry `k`, posting `j`. -/
theorem C02_text_reject_sum (t : List Char) (es : List Entry) (hp : Parse.parseEntries t = .ok es)
    (k : Nat) (hk : k < es.length) (txn : Transaction) (hek : es[k] = .txn txn)
    (stk : ProcState) (hpre : process (es.take k) = .ok stk)
    (j : Nat) (p : Posting) (pa : PostingAmount) (X : VExpr)
    (hj : txn.posts[j]? = some p) (hpa : p.amount = some pa) (hpb : p.balance = some X)
    (c1 : Ctx) (st1 : TxnState String String)
    (hbefore : loopSyntax txn.date stk.ctx ⟨[], none, [], stk.bal, [], []⟩ 0 (txn.posts.take j) = .ok (c1, st1))
    (ra : RAmount String) (s : SingleAmount String) (cs cs' : Store)
    (hra : resolveAmount c1.commodities pa = .ok (ra, cs)) (hx : evalPostingAmt cs X = .ok (.single s, cs'))
    (hsum : ledgerSum stk.txns (c1.accounts.ensure p.account).1 s.commodity +
        acctSum st1.postings (c1.accounts.ensure p.account).1 s.commodity +
        Amount.getPart ra.postingAmt.toAmount s.commodity ≠ s.value) :
    (∃ computed diff, process es = .err (k, .assertionFailure j computed diff)) ∧ ¬ okaneAccepts t := by
  have hlt : j < txn.posts.length := (List.getElem?_eq_some_iff.1 hj).1
  obtain ⟨hinv1, hs1⟩ := prefix_sum es k stk hpre txn j hlt c1 st1 hbefore
  have hfalse : ¬ Spec.Holds (.single s)
      (Spec.after (Balance.get st1.bal (c1.accounts.ensure p.account).1) ra.postingAmt) := by
    simp only [Spec.Holds, Spec.after]
    rw [Amount.getPart_removeZero _ (Amount.WF_addPosting _ _ (hinv1 _).1), Amount.getPart_addPosting, hs1]
    exact hsum
  obtain ⟨g1, g2⟩ := C02_text_reject t es hp k hk txn hek stk hpre j p pa X hj hpa hpb c1 st1 hbefore ra _ cs cs' hra hx hfalse
  exact ⟨⟨_, _, g1⟩, g2⟩

/-! ## C03 frame on texts -/

/-- **C03_text_frame**: in every accepted TEXT, booking the transaction at entry `k` leaves alone every account that none
of its posting lines names — i.e. to which none of the account names written resolves, in the context the transaction
leaves (aliases included). -/
theorem C03_text_frame (t : List Char) (es : List Entry) (st : ProcState) (h : Denotes t es st)
    (k : Nat) (hk : k < es.length) (txn : Transaction) (hek : es[k] = .txn txn) :
    ∃ stk stk', process (es.take k) = .ok stk ∧ process (es.take (k + 1)) = .ok stk' ∧
      ∀ a, (∀ q ∈ txn.posts, stk'.ctx.accounts.resolve q.account ≠ some a) →
        Balance.get stk'.bal a = Balance.get stk.bal a := by
  obtain ⟨stk, stk', h1, h2, h3, _⟩ := process_at es st k hk h.2
  rw [hek] at h2
  obtain ⟨c', stL, r, rps, hrun⟩ := txnRun_of_accepted stk stk' txn h2
  refine ⟨stk, stk', h1, h3, fun a hne => ?_⟩
  have hctx : stk'.ctx = c' := by rw [hrun.next]
  have hloop : Balance.get stL.bal a = Balance.get stk.bal a :=
    loopSyntax_frame txn.date a _ stk.ctx c' _ stL 0 hrun.loop (fun q hq => by rw [← hctx]; exact hne q hq)
  obtain ⟨_, _, g3, g4⟩ := finishG_posting stk.ctx.prec txn.date stL r hrun.fin
  have hbalr : Balance.get r.bal a = Balance.get stL.bal a := by
    cases hu : stL.unfilled with
    | none => rw [g4 hu]
    | some u =>
      obtain ⟨o, ho, _, hrb⟩ := g3 u hu
      rw [hrb, Balance.get_addAmount]
      have hlt : u < txn.posts.length := by
        have := (List.getElem?_eq_some_iff.1 ho).1
        rw [hrun.final.1] at this
        exact this
      have hq : txn.posts[u]? = some txn.posts[u] := by simp [hlt]
      obtain ⟨_, _, rq, _, _, outq, _, hrq, _, _, haccq, hLq, _⟩ := hrun.at u _ hq
      rw [ho] at hLq
      simp only [Option.some.injEq] at hLq
      subst hLq
      have hres := hrun.account_resolves u _ rq hq hrq
      have hne' : o.account ≠ a := by
        intro heq
        exact hne _ (List.getElem_mem hlt) (by rw [hres, ← haccq, heq])
      simp [hne']
  have hbal' : stk'.bal = r.bal := by rw [hrun.next]
  rw [hbal', hbalr, hloop]

end Okane.BookText
