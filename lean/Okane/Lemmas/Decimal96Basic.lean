import Okane.Model.Decimal96
/-!
# `rust_decimal` model: values, signs, basic facts

`val d : Rat` is the number a `Decimal` stands for; `D96.int d` its signed mantissa.  Everything arithmetic is proved at the
level of integers first (`r.int * 10^k = …`) and transported to `Rat` by `val_of_int_scaled`.
-/
namespace Okane.Dec96

/-- `-1` for a set sign flag, `1` otherwise. -/
def sgn (b : Bool) : Int := if b then -1 else 1

/-- signed mantissa (`Decimal::mantissa()`). -/
def D96.int (d : D96) : Int := sgn d.neg * (d.mant : Int)

/-- the rational number denoted. -/
def val (d : D96) : Rat := (d.int : Rat) / (10 : Rat) ^ d.scale

@[simp] theorem sgn_true : sgn true = -1 := rfl
@[simp] theorem sgn_false : sgn false = 1 := rfl

theorem sgn_mul_self (b : Bool) : sgn b * sgn b = 1 := by cases b <;> rfl
theorem sgn_not (b : Bool) : sgn (!b) = - sgn b := by cases b <;> rfl
theorem sgn_bne (a b : Bool) : sgn (a != b) = sgn a * sgn b := by cases a <;> cases b <;> rfl

theorem mantissa_eq_int (d : D96) : mantissa d = d.int := by
  unfold mantissa D96.int sgn; cases d.neg <;> simp

theorem int_natAbs (d : D96) : d.int.natAbs = d.mant := by
  unfold D96.int sgn; cases d.neg <;> simp

theorem int_eq_zero_iff (d : D96) : d.int = 0 ↔ d.mant = 0 := by
  unfold D96.int sgn; cases d.neg <;> simp

theorem int_scaled (d : D96) (k : Nat) : d.int * 10 ^ k = sgn d.neg * (((d.mant * 10 ^ k : Nat)) : Int) := by
  unfold D96.int
  rw [Int.mul_assoc]; simp

/-! ## powers of ten -/

theorem pow10_pos (s : Nat) : (0 : Rat) < (10 : Rat) ^ s := Rat.pow_pos (by decide)

theorem pow10_ne_zero (s : Nat) : (10 : Rat) ^ s ≠ 0 := by
  have := pow10_pos s
  grind

theorem pow10_add (s t : Nat) : (10 : Rat) ^ (s + t) = 10 ^ s * 10 ^ t := by grind

theorem natpow10_pos (s : Nat) : 0 < 10 ^ s := Nat.pow_pos (by decide)

theorem pow10_mono (a b : Nat) (h : a ≤ b) : 10 ^ a ≤ 10 ^ b := Nat.pow_le_pow_right (by decide) h

theorem intCast_pow10 (k : Nat) : (((10 : Int) ^ k : Int) : Rat) = (10 : Rat) ^ k := by
  induction k with
  | zero => simp
  | succ k ih => rw [Int.pow_succ, Rat.intCast_mul, ih, Rat.pow_succ]; rfl

/-- the value from an integer identity: if `x = d.int * 10^k` is the mantissa of `d` at scale `d.scale + k`, then
`val d = x / 10^(d.scale + k)`. -/
theorem val_of_int_scaled (d : D96) (k : Nat) :
    val d = ((d.int * 10 ^ k : Int) : Rat) / (10 : Rat) ^ (d.scale + k) := by
  unfold val
  rw [Rat.intCast_mul, intCast_pow10, pow10_add]
  have h1 := pow10_ne_zero d.scale
  have h2 := pow10_ne_zero k
  grind

/-- two decimals whose signed mantissas agree after alignment to a common scale `s` have the same value. -/
theorem val_eq_of_aligned (d e : D96) (s : Nat) (hd : d.scale ≤ s) (he : e.scale ≤ s)
    (h : d.int * 10 ^ (s - d.scale) = e.int * 10 ^ (s - e.scale)) : val d = val e := by
  rw [val_of_int_scaled d (s - d.scale), val_of_int_scaled e (s - e.scale), h]
  have h1 : d.scale + (s - d.scale) = s := by omega
  have h2 : e.scale + (s - e.scale) = s := by omega
  rw [h1, h2]

/-! ## `from_parts` -/

@[simp] theorem fromParts_mant (n : Bool) (m s : Nat) : (fromParts n m s).mant = m := rfl
@[simp] theorem fromParts_scale (n : Bool) (m s : Nat) : (fromParts n m s).scale = s := rfl

theorem fromParts_int (n : Bool) (m s : Nat) : (fromParts n m s).int = sgn n * (m : Int) := by
  unfold fromParts D96.int
  by_cases h : m = 0
  · subst h; simp
  · have : (m != 0) = true := by simpa using h
    simp [this]

theorem fromParts_neg_of_pos (n : Bool) (m s : Nat) (h : m ≠ 0) : (fromParts n m s).neg = n := by
  unfold fromParts
  have : (m != 0) = true := by simpa using h
  simp [this]

theorem fromParts_neg_zero (n : Bool) (s : Nat) : (fromParts n 0 s).neg = false := by
  simp [fromParts]

theorem fromParts_wf (n : Bool) (m s : Nat) (hm : m < 2 ^ 96) (hs : s ≤ 28) : (fromParts n m s).wf := ⟨hm, hs⟩

theorem zero_wf : zero.wf := by decide
theorem val_zero : val zero = 0 := by
  unfold val zero D96.int; simp [Rat.div_def]

theorem val_of_mant_zero (d : D96) (h : d.mant = 0) : val d = 0 := by
  unfold val
  rw [(int_eq_zero_iff d).mpr h]
  simp [Rat.div_def]

theorem val_eq_zero_iff (d : D96) : val d = 0 ↔ d.mant = 0 := by
  constructor
  · intro h
    unfold val at h
    have hp := pow10_ne_zero d.scale
    have : (d.int : Rat) = 0 := by grind
    have : d.int = 0 := by exact_mod_cast this
    exact (int_eq_zero_iff d).mp this
  · exact val_of_mant_zero d

/-! ## sign operations -/

theorem negate_wf (d : D96) (h : d.wf) : (negate d).wf := h
theorem negate_int (d : D96) : (negate d).int = - d.int := by
  unfold negate D96.int; rw [sgn_not]; simp [Int.neg_mul]
theorem val_negate (d : D96) : val (negate d) = - val d := by
  unfold val; rw [negate_int]; simp [negate, Rat.div_def, Rat.neg_mul]
theorem negate_negate (d : D96) : negate (negate d) = d := by
  cases d; simp [negate]

theorem abs_wf (d : D96) (h : d.wf) : (abs d).wf := h
theorem abs_int (d : D96) : (abs d).int = (d.mant : Int) := by
  simp [abs, setSignPositive, D96.int]

theorem setSignPositive_wf (d : D96) (p : Bool) (h : d.wf) : (setSignPositive d p).wf := h
theorem setSignPositive_int (d : D96) (p : Bool) : (setSignPositive d p).int = sgn (!p) * (d.mant : Int) := rfl

theorem isZero_iff (d : D96) : isZero d = true ↔ val d = 0 := by
  rw [val_eq_zero_iff]; simp [isZero]

theorem val_lt_zero_iff (d : D96) : val d < 0 ↔ d.int < 0 := by
  unfold val
  rw [Rat.div_lt_iff (pow10_pos d.scale), Rat.zero_mul]
  exact_mod_cast Iff.rfl

/-- `is_sign_negative` is the FLAG: for non-zero values it is the sign of the value; a zero may carry it. -/
theorem isSignNegative_iff_of_ne_zero (d : D96) (h : d.mant ≠ 0) : isSignNegative d = true ↔ val d < 0 := by
  rw [val_lt_zero_iff]
  unfold isSignNegative D96.int sgn
  cases d.neg <;> simp <;> omega

/-! ## `try_from_i128_with_scale` -/

theorem tryFromI128_ok (n : Int) (s : Nat) (hs : s ≤ 28) (hn : n.natAbs < 2 ^ 96) :
    ∃ d, tryFromI128WithScale n s = .ok d ∧ d.wf ∧ d.int = n ∧ d.scale = s := by
  unfold tryFromI128WithScale
  have h1 : ¬ s > 28 := by omega
  have h2 : ¬ n > (two96 : Int) - 1 := by unfold two96; omega
  have h3 : ¬ n < -((two96 : Int) - 1) := by unfold two96; omega
  simp only [h1, h2, h3, if_false]
  refine ⟨_, rfl, ⟨hn, hs⟩, ?_, rfl⟩
  unfold D96.int sgn
  by_cases h : n < 0
  · simp [h]; omega
  · simp [h]; omega

theorem tryFromI128_err (n : Int) (s : Nat) :
    (∃ d, tryFromI128WithScale n s = .ok d) ↔ (s ≤ 28 ∧ n.natAbs < 2 ^ 96) := by
  constructor
  · rintro ⟨d, h⟩
    unfold tryFromI128WithScale at h
    unfold two96 at h
    split at h
    · cases h
    · split at h
      · cases h
      · split at h
        · cases h
        · omega
  · rintro ⟨h1, h2⟩
    obtain ⟨d, hd, _⟩ := tryFromI128_ok n s h1 h2
    exact ⟨d, hd⟩

end Okane.Dec96
