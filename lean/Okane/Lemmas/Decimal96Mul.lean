import Okane.Lemmas.Decimal96Add
/-!
# `rust_decimal` multiplication is exact whenever the product fits: `sa + sb ≤ 28` places and a mantissa below `2^96`
-/
namespace Okane.Dec96

theorem val_mul_eq (a b : D96) :
    val a * val b = ((a.int * b.int : Int) : Rat) / (10 : Rat) ^ (a.scale + b.scale) := by
  unfold val
  rw [Rat.intCast_mul, pow10_add]
  have h1 := pow10_ne_zero a.scale
  have h2 := pow10_ne_zero b.scale
  grind

theorem int_mul_int (a b : D96) : a.int * b.int = sgn (a.neg != b.neg) * ((a.mant * b.mant : Nat) : Int) := by
  unfold D96.int
  rw [sgn_bne]
  cases a.neg <;> cases b.neg <;> simp [sgn, Int.neg_mul, Int.mul_neg]

/-- non-zero operands, `sa + sb ≤ 28`, product of the mantissas below `2^96`: the product is returned as it is. -/
theorem mulImpl_exact_nz (a b : D96) (ha0 : a.mant ≠ 0) (hb0 : b.mant ≠ 0) (hs : a.scale + b.scale ≤ 28)
    (hp : a.mant * b.mant < 2 ^ 96) :
    mulImpl a b = .ok (fromParts (a.neg != b.neg) (a.mant * b.mant) (a.scale + b.scale)) := by
  unfold mulImpl
  have h1 : ¬ (a.mant = 0 ∨ b.mant = 0) := by omega
  have h2 : ¬ a.scale + b.scale > 28 := by omega
  have h3 : ¬ upperWord (a.mant * b.mant) > 2 := by have := upperWord_le2 _ hp; omega
  simp only [h1, if_false, h2, h3, or_self]
  split <;> rfl

theorem reprAt_mul_iff (a b : D96) :
    ReprAt (val a * val b) (a.scale + b.scale) ↔ a.mant * b.mant < 2 ^ 96 := by
  rw [val_mul_eq]
  have e : (a.int * b.int).natAbs = a.mant * b.mant := by
    rw [Int.natAbs_mul, int_natAbs, int_natAbs]
  constructor
  · rintro ⟨m, hm, he⟩
    rw [← intCast_div_pow10_inj _ _ _ he] at hm; omega
  · intro h; exact ⟨_, by omega, rfl⟩

/-- **exactness of `*`, `*=`, `checked_mul`.** If the exact product is a decimal with `sa + sb ≤ 28` places whose mantissa
fits 96 bits, the crate returns it: well-formed, same value (the operands need not even be
well-formed for this); for non-zero operands the scale is `sa + sb` (`1.0 * 1.00` is
`1.000`), while a zero operand gives `Decimal::ZERO` (scale 0, positive). -/
theorem mul_exact (a b : D96) (hs : a.scale + b.scale ≤ 28)
    (h : ReprAt (val a * val b) (a.scale + b.scale)) :
    ∃ r, mulImpl a b = .ok r ∧ r.wf ∧ val r = val a * val b ∧
      (a.mant ≠ 0 → b.mant ≠ 0 → r.scale = a.scale + b.scale ∧ r.int = a.int * b.int) ∧
      ((a.mant = 0 ∨ b.mant = 0) → r = zero) := by
  by_cases h0 : a.mant = 0 ∨ b.mant = 0
  · refine ⟨zero, by unfold mulImpl; simp [h0], zero_wf, ?_, ?_, fun _ => rfl⟩
    · rw [val_zero]
      rcases h0 with h0 | h0
      · rw [val_of_mant_zero a h0, Rat.zero_mul]
      · rw [val_of_mant_zero b h0, Rat.mul_zero]
    · intro h1 h2; omega
  · have ha0 : a.mant ≠ 0 := by omega
    have hb0 : b.mant ≠ 0 := by omega
    have hp := (reprAt_mul_iff a b).mp h
    refine ⟨_, mulImpl_exact_nz a b ha0 hb0 hs hp, fromParts_wf _ _ _ hp hs, ?_, ?_, fun h => absurd h h0⟩
    · rw [val_mul_eq, int_mul_int, ← fromParts_int _ _ (a.scale + b.scale)]
      rfl
    · intro _ _
      exact ⟨rfl, by rw [fromParts_int, int_mul_int]⟩

theorem checkedMul_exact (a b : D96) (hs : a.scale + b.scale ≤ 28)
    (h : ReprAt (val a * val b) (a.scale + b.scale)) :
    ∃ r, checkedMul a b = some r ∧ opMul a b = .val r ∧ r.wf ∧ val r = val a * val b := by
  obtain ⟨r, h1, h2, h3, _⟩ := mul_exact a b hs h
  exact ⟨r, by simp [checkedMul, h1, Calc.toOption], by simp [opMul, h1], h2, h3⟩

end Okane.Dec96
