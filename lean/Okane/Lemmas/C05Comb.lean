import Okane.Model.Unparse
/-!
# Helper lemmas for C05: how the combinators of `Okane.Comb` run on `printed ++ rest`
-/
set_option linter.unusedSimpArgs false
namespace Okane.Comb
open Res

variable {α β γ : Type}

/-! ## unfolding of the sequencing combinators -/

@[simp] theorem bind_apply (p : Parser α) (f : α → Parser β) (i : List Char) : (p >>- f) i = (p i).andThen f := rfl
@[simp] theorem pure_apply (a : α) (i : List Char) : pure a i = .ok a i := rfl
@[simp] theorem map_apply (f : α → β) (p : Parser α) (i : List Char) : map f p i = (p i).map f := rfl
@[simp] theorem value_apply (b : β) (p : Parser α) (i : List Char) : value b p i = (p i).map (fun _ => b) := rfl
@[simp] theorem void_apply (p : Parser α) (i : List Char) : void p i = (p i).map (fun _ => ()) := rfl
@[simp] theorem pair_apply (p : Parser α) (q : Parser β) (i : List Char) :
    pair p q i = (p i).andThen fun a r => (q r).map fun b => (a, b) := rfl
@[simp] theorem preceded_apply (p : Parser α) (q : Parser β) (i : List Char) :
    preceded p q i = (p i).andThen fun _ r => q r := rfl
@[simp] theorem terminated_apply (p : Parser α) (q : Parser β) (i : List Char) :
    terminated p q i = (p i).andThen fun a r => (q r).map fun _ => a := rfl
@[simp] theorem delimited_apply (l : Parser α) (p : Parser β) (r : Parser γ) (i : List Char) :
    delimited l p r i = (l i).andThen fun _ i1 => (p i1).andThen fun b i2 => (r i2).map fun _ => b := rfl
@[simp] theorem fail_apply (i : List Char) : (fail : Parser α) i = .bt i := rfl

@[simp] theorem Res.map_panic (s : String) (f : α → β) : (Res.panic s : Res α).map f = .panic s := rfl
@[simp] theorem Res.map_fuel (f : α → β) : (Res.fuel : Res α).map f = .fuel := rfl

/-! ## tokens -/

@[simp] theorem char_cons_self (c : Char) (r : List Char) : char c (c :: r) = .ok c r := by
  simp [char, oneOf]

theorem char_cons_ne {c d : Char} (h : d ≠ c) (r : List Char) : char c (d :: r) = .bt (d :: r) := by
  simp [char, oneOf, h]

@[simp] theorem char_nil (c : Char) : char c [] = .bt [] := rfl

theorem literal_append (s rest : List Char) : literal s (s ++ rest) = .ok s rest := by
  simp [literal, List.prefix_append]

/-- `rest` does not begin with a character satisfying `p` -/
def Stop (p : Char → Bool) (rest : List Char) : Prop := ∀ c r, rest = c :: r → p c = false

@[simp] theorem Stop_nil (p : Char → Bool) : Stop p [] := by intro c r h; cases h
@[simp] theorem Stop_cons (p : Char → Bool) (c : Char) (r : List Char) : Stop p (c :: r) ↔ p c = false := by
  constructor
  · intro h; exact h c r rfl
  · intro h c' r' e; cases e; exact h

theorem takeWhile_append_stop {p : Char → Bool} {a rest : List Char} (ha : ∀ c ∈ a, p c = true) (hr : Stop p rest) :
    (a ++ rest).takeWhile p = a := by
  induction a with
  | nil =>
    cases rest with
    | nil => rfl
    | cons c r => simp [List.takeWhile, (Stop_cons p c r).1 hr]
  | cons c a ih =>
    have hc : p c = true := ha c (by simp)
    simp [List.takeWhile, hc]
    exact ih (fun d hd => ha d (by simp [hd]))

theorem dropWhile_append_stop {p : Char → Bool} {a rest : List Char} (ha : ∀ c ∈ a, p c = true) (hr : Stop p rest) :
    (a ++ rest).dropWhile p = rest := by
  induction a with
  | nil =>
    cases rest with
    | nil => rfl
    | cons c r => simp [List.dropWhile, (Stop_cons p c r).1 hr]
  | cons c a ih =>
    have hc : p c = true := ha c (by simp)
    simp [List.dropWhile, hc]
    exact ih (fun d hd => ha d (by simp [hd]))

theorem takeWhile0_append {p : Char → Bool} {a rest : List Char} (ha : ∀ c ∈ a, p c = true) (hr : Stop p rest) :
    takeWhile0 p (a ++ rest) = .ok a rest := by
  simp [takeWhile0, takeWhile_append_stop ha hr, dropWhile_append_stop ha hr]

theorem takeWhile0_stop {p : Char → Bool} {rest : List Char} (hr : Stop p rest) : takeWhile0 p rest = .ok [] rest := by
  simpa using takeWhile0_append (a := []) (by simp) hr

theorem takeWhile1_append {p : Char → Bool} {a rest : List Char} (hne : a ≠ []) (ha : ∀ c ∈ a, p c = true)
    (hr : Stop p rest) : takeWhile1 p (a ++ rest) = .ok a rest := by
  cases a with
  | nil => exact absurd rfl hne
  | cons c a =>
    have hc : p c = true := ha c (by simp)
    have h1 := takeWhile_append_stop ha hr
    have h2 := dropWhile_append_stop ha hr
    simp only [List.cons_append] at h1 h2 ⊢
    simp [takeWhile1, hc, h1, h2]

theorem takeWhile1_stop {p : Char → Bool} {rest : List Char} (hr : Stop p rest) : takeWhile1 p rest = .bt rest := by
  cases rest with
  | nil => rfl
  | cons c r => simp [takeWhile1, (Stop_cons p c r).1 hr]

theorem takeTill0_append {p : Char → Bool} {a rest : List Char} (ha : ∀ c ∈ a, p c = false)
    (hr : ∀ c r, rest = c :: r → p c = true) : takeTill0 p (a ++ rest) = .ok a rest := by
  apply takeWhile0_append
  · intro c hc; simp [ha c hc]
  · intro c r e; simp [hr c r e]

theorem takeTill1_append {p : Char → Bool} {a rest : List Char} (hne : a ≠ []) (ha : ∀ c ∈ a, p c = false)
    (hr : ∀ c r, rest = c :: r → p c = true) : takeTill1 p (a ++ rest) = .ok a rest := by
  apply takeWhile1_append hne
  · intro c hc; simp [ha c hc]
  · intro c r e; simp [hr c r e]

theorem takeTill1_stop {p : Char → Bool} {rest : List Char} (hr : ∀ c r, rest = c :: r → p c = true) :
    takeTill1 p rest = .bt rest := by
  apply takeWhile1_stop
  intro c r e; simp [hr c r e]

/-- blanks and tabs followed by something else -/
theorem space0_append {a rest : List Char} (ha : ∀ c ∈ a, isSpace c = true) (hr : Stop isSpace rest) :
    space0 (a ++ rest) = .ok a rest := takeWhile0_append ha hr

theorem space0_stop {rest : List Char} (hr : Stop isSpace rest) : space0 rest = .ok [] rest := takeWhile0_stop hr

theorem space1_append {a rest : List Char} (hne : a ≠ []) (ha : ∀ c ∈ a, isSpace c = true) (hr : Stop isSpace rest) :
    space1 (a ++ rest) = .ok a rest := takeWhile1_append hne ha hr

@[simp] theorem lineEnding_nl (r : List Char) : lineEnding ('\n' :: r) = .ok () r := rfl
@[simp] theorem eof_nil : eof [] = .ok () [] := rfl

/-- `till_line_ending` on a line without CR/LF that is followed by LF -/
theorem tillLineEnding_nl {a : List Char} (ha : ∀ c ∈ a, isEol c = false) (r : List Char) :
    tillLineEnding (a ++ '\n' :: r) = .ok a ('\n' :: r) := by
  have h1 : (a ++ '\n' :: r).takeWhile (fun c => !isEol c) = a :=
    takeWhile_append_stop (by intro c hc; simp [ha c hc]) (by simp [isEol])
  have h2 : (a ++ '\n' :: r).dropWhile (fun c => !isEol c) = '\n' :: r :=
    dropWhile_append_stop (by intro c hc; simp [ha c hc]) (by simp [isEol])
  simp [tillLineEnding, h1, h2]

/-! ## control -/

theorem opt_ok {p : Parser α} {i r : List Char} {a : α} (h : p i = .ok a r) : opt p i = .ok (some a) r := by
  simp [opt, h]
theorem opt_bt {p : Parser α} {i q : List Char} (h : p i = .bt q) : opt p i = .ok none i := by
  simp [opt, h]
theorem alt2_ok {p q : Parser α} {i r : List Char} {a : α} (h : p i = .ok a r) : (p <|| q) i = .ok a r := by
  simp [alt2, h]
theorem alt2_bt {p q : Parser α} {i z : List Char} (h : p i = .bt z) : (p <|| q) i = q i := by
  simp [alt2, h]
theorem hasPeek_ok {p : Parser α} {i r : List Char} {a : α} (h : p i = .ok a r) : hasPeek p i = .ok true i := by
  simp [hasPeek, h]
theorem hasPeek_bt {p : Parser α} {i z : List Char} (h : p i = .bt z) : hasPeek p i = .ok false i := by
  simp [hasPeek, h]
theorem peek_ok {p : Parser α} {i r : List Char} {a : α} (h : p i = .ok a r) : peek p i = .ok a i := by
  simp [peek, h]
theorem not_bt {p : Parser α} {i z : List Char} (h : p i = .bt z) : Comb.not p i = .ok () i := by
  simp [Comb.not, h]
theorem not_ok {p : Parser α} {i r : List Char} {a : α} (h : p i = .ok a r) : Comb.not p i = .bt i := by
  simp [Comb.not, h]
theorem cutErr_ok {p : Parser α} {i r : List Char} {a : α} (h : p i = .ok a r) : cutErr p i = .ok a r := by
  simp [cutErr, h]

/-! ## repetition: the loops' own fuel is always enough -/

/-- one more successful round of `repeat0Loop` -/
theorem repeat0Loop_step {p : Parser α} {n : Nat} {i r : List Char} {a : α} {acc : List α}
    (h : p i = .ok a r) (hlt : r.length < i.length) :
    repeat0Loop p (n + 1) i acc = repeat0Loop p n r (acc ++ [a]) := by
  simp [repeat0Loop, h, Nat.not_le.mpr hlt]

theorem repeat0Loop_stop {p : Parser α} {n : Nat} {i z : List Char} {acc : List α} (h : p i = .bt z) :
    repeat0Loop p (n + 1) i acc = .ok acc i := by
  simp [repeat0Loop, h]

end Okane.Comb
