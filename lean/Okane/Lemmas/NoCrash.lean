import Okane.Model.Process
/-!
# No-crash lemmas: the model's book-keeping never reaches a `panic` site and never runs out of fuel

One lemma per model function of `Model/{Amount,Eval,Store,Book,Process}.lean`: `(f x).crashes = false`.
Two `panic` sites exist in that code and are shown unreachable:
* `resolveAmount`: "zero amount with exchange passed try_from_syntax" (`posting_price_event`'s `unreachable!`) —
  `resolveExchange` never returns `ok` for a zero posting amount (`resolveExchange_zero_not_ok`);
* `finishTxn`: "unfilled index out of range" (`postings[u]`) — loop invariant `TxnInv`: the recorded index of the
  omitted-amount posting is always below the number of postings pushed so far.
Used by `Props/C06.lean`.
-/
set_option linter.unusedSectionVars false
namespace Okane
open Outcome

@[simp] theorem crashes_ok {ε α} (a : α) : (Outcome.ok a : Outcome ε α).crashes = false := rfl
@[simp] theorem crashes_err {ε α} (e : ε) : (Outcome.err e : Outcome ε α).crashes = false := rfl
@[simp] theorem crashes_panic {ε α} (s : String) : (Outcome.panic s : Outcome ε α).crashes = true := rfl
@[simp] theorem crashes_fuelOut {ε α} : (Outcome.fuelOut : Outcome ε α).crashes = true := rfl

theorem not_panic_of_safe {ε α} {o : Outcome ε α} (h : o.crashes = false) (s : String) : o ≠ .panic s := by
  intro e; rw [e] at h; simp at h

theorem not_fuelOut_of_safe {ε α} {o : Outcome ε α} (h : o.crashes = false) : o ≠ .fuelOut := by
  intro e; rw [e] at h; simp at h

theorem map'_crashes {ε α β} (f : α → β) (o : Outcome ε α) : (o.map' f).crashes = o.crashes := by
  cases o <;> rfl

variable {κ : Type} [DecidableEq κ]

theorem SingleAmount.checkAdd_safe (a b : SingleAmount κ) : (a.checkAdd b).crashes = false := by
  unfold SingleAmount.checkAdd; split <;> rfl

theorem SingleAmount.checkDiv_safe (a : SingleAmount κ) (r : Rat) : (a.checkDiv r).crashes = false := by
  unfold SingleAmount.checkDiv; split <;> rfl

theorem PostingAmt.checkAdd_safe (a b : PostingAmt κ) : (a.checkAdd b).crashes = false := by
  cases a <;> cases b <;> simp [PostingAmt.checkAdd, map'_crashes, SingleAmount.checkAdd_safe]

theorem PostingAmt.checkSub_safe (a b : PostingAmt κ) : (a.checkSub b).crashes = false := by
  simp [PostingAmt.checkSub, PostingAmt.checkAdd_safe]

theorem Amount.toSingle_safe (a : Amount κ) : (Amount.toSingle a).crashes = false := by
  unfold Amount.toSingle; split <;> rfl

theorem Amount.toPosting_safe (a : Amount κ) : (Amount.toPosting a).crashes = false := by
  unfold Amount.toPosting; split <;> rfl

theorem Amount.checkDiv_safe (a : Amount κ) (r : Rat) : (Amount.checkDiv a r).crashes = false := by
  unfold Amount.checkDiv; split <;> rfl

theorem Evaluated.toAmount_safe (e : Evaluated κ) : (e.toAmount).crashes = false := by
  cases e <;> simp [Evaluated.toAmount]
  split <;> rfl

theorem Evaluated.toPosting_safe (e : Evaluated κ) : (e.toPosting).crashes = false := by
  unfold Evaluated.toPosting
  have := Evaluated.toAmount_safe e
  cases h : e.toAmount <;> simp_all [Amount.toPosting_safe]

theorem Evaluated.toSingle_safe (e : Evaluated κ) : (e.toSingle).crashes = false := by
  unfold Evaluated.toSingle
  have := Evaluated.toAmount_safe e
  cases h : e.toAmount <;> simp_all [Amount.toSingle_safe]

theorem Evaluated.checkDiv_safe (l r : Evaluated κ) : (l.checkDiv r).crashes = false := by
  unfold Evaluated.checkDiv
  split
  · rfl
  · cases l with
    | number x =>
      cases r with
      | number y => rfl
      | commodities y =>
        simp only
        have := Amount.toSingle_safe y
        cases h : Amount.toSingle y <;> simp_all [map'_crashes, SingleAmount.checkDiv_safe]
    | commodities x =>
      cases r with
      | number y => simp [map'_crashes, Amount.checkDiv_safe]
      | commodities y => rfl

theorem applyBin_safe (op : BinOp) (l r : Evaluated String) : (applyBin op l r).crashes = false := by
  cases op
  · cases l <;> cases r <;> simp [applyBin, Evaluated.checkAdd]
  · cases l <;> cases r <;> simp [applyBin, Evaluated.checkSub]
  · cases l <;> cases r <;> simp [applyBin, Evaluated.checkMul]
  · simp [applyBin, Evaluated.checkDiv_safe]

theorem leafMut_safe (s : Store) (v : PDec) (c : String) : (leafMut s v c).crashes = false := by
  unfold leafMut; split <;> rfl

theorem leafRo_safe (s : Store) (v : PDec) (c : String) : (leafRo s v c).crashes = false := by
  unfold leafRo; split
  · rfl
  · split <;> rfl

mutual
theorem evalExprWith_safe (leaf) (hleaf : ∀ s v c, (leaf s v c).crashes = false) (s : Store) :
    ∀ e : Expr, (evalExprWith leaf s e).crashes = false
  | .neg e => by
    have := evalExprWith_safe leaf hleaf s e
    unfold evalExprWith
    cases h : evalExprWith leaf s e <;> simp_all
  | .bin op l r => by
    have h1 := evalExprWith_safe leaf hleaf s l
    unfold evalExprWith
    cases h : evalExprWith leaf s l with
    | ok p =>
      obtain ⟨lv, s1⟩ := p
      have h2 := evalExprWith_safe leaf hleaf s1 r
      simp only
      cases h' : evalExprWith leaf s1 r with
      | ok q =>
        obtain ⟨rv, s2⟩ := q
        simp only
        have h3 := applyBin_safe op lv rv
        cases h'' : applyBin op lv rv <;> simp_all
      | err _ => rfl
      | panic _ => simp_all
      | fuelOut => simp_all
    | err _ => rfl
    | panic _ => simp_all
    | fuelOut => simp_all
  | .val v => by
    unfold evalExprWith
    exact evalVExprWith_safe leaf hleaf s v
theorem evalVExprWith_safe (leaf) (hleaf : ∀ s v c, (leaf s v c).crashes = false) (s : Store) :
    ∀ v : VExpr, (evalVExprWith leaf s v).crashes = false
  | .paren e => by
    unfold evalVExprWith
    exact evalExprWith_safe leaf hleaf s e
  | .amt value commodity => by
    unfold evalVExprWith
    exact hleaf s value commodity
end

theorem evalMut_safe (s : Store) (v : VExpr) : (evalMut s v).crashes = false :=
  evalVExprWith_safe leafMut leafMut_safe s v

/-! ### name resolution -/

theorem evalPostingAmt_safe (s : Store) (e : VExpr) : (evalPostingAmt s e).crashes = false := by
  unfold evalPostingAmt
  have h1 := evalMut_safe s e
  cases h : evalMut s e with
  | ok p =>
    obtain ⟨v, s'⟩ := p
    simp only
    have h2 := Evaluated.toPosting_safe v
    cases h' : v.toPosting <;> simp_all
  | err _ => rfl
  | panic _ => simp_all
  | fuelOut => simp_all

theorem resolveExchange_safe (s : Store) (a : PostingAmt String) (x : Exchange) :
    (resolveExchange s a x).crashes = false := by
  unfold resolveExchange
  cases x with
  | total e =>
    simp only
    have h1 := evalMut_safe s e
    cases h : evalMut s e with
    | ok p =>
      obtain ⟨v, s'⟩ := p
      simp only
      have h2 := Evaluated.toSingle_safe v
      cases h' : v.toSingle with
      | ok rate =>
        simp only
        split
        · rfl
        · cases a with
          | zero => rfl
          | single sa => simp only; split <;> rfl
      | err _ => rfl
      | panic _ => simp_all
      | fuelOut => simp_all
    | err _ => rfl
    | panic _ => simp_all
    | fuelOut => simp_all
  | rate e =>
    simp only
    have h1 := evalMut_safe s e
    cases h : evalMut s e with
    | ok p =>
      obtain ⟨v, s'⟩ := p
      simp only
      have h2 := Evaluated.toSingle_safe v
      cases h' : v.toSingle with
      | ok rate =>
        simp only
        split
        · rfl
        · cases a with
          | zero => rfl
          | single sa => simp only; split <;> rfl
      | err _ => rfl
      | panic _ => simp_all
      | fuelOut => simp_all
    | err _ => rfl
    | panic _ => simp_all
    | fuelOut => simp_all

/-- `Exchange::try_from_syntax` never accepts an exchange on a zero (commodity-less) posting amount. -/
theorem resolveExchange_zero_not_ok (s : Store) (x : Exchange) (r) :
    resolveExchange s .zero x ≠ .ok r := by
  unfold resolveExchange
  cases x with
  | total e =>
    simp only
    cases h : evalMut s e with
    | ok p =>
      obtain ⟨v, s'⟩ := p
      simp only
      cases h' : v.toSingle with
      | ok rate => simp only; split <;> simp
      | err _ => simp
      | panic _ => simp
      | fuelOut => simp
    | err _ => simp
    | panic _ => simp
    | fuelOut => simp
  | rate e =>
    simp only
    cases h : evalMut s e with
    | ok p =>
      obtain ⟨v, s'⟩ := p
      simp only
      cases h' : v.toSingle with
      | ok rate => simp only; split <;> simp
      | err _ => simp
      | panic _ => simp
      | fuelOut => simp
    | err _ => simp
    | panic _ => simp
    | fuelOut => simp

theorem resolveOptExchange_safe (s : Store) (a : PostingAmt String) (o : Option Exchange) :
    (resolveOptExchange s a o).crashes = false := by
  cases o with
  | none => rfl
  | some x =>
    simp only [resolveOptExchange]
    have := resolveExchange_safe s a x
    cases h : resolveExchange s a x with
    | ok p => obtain ⟨r, s'⟩ := p; rfl
    | err _ => rfl
    | panic _ => simp_all
    | fuelOut => simp_all

theorem resolveOptExchange_zero (s : Store) (o : Option Exchange) (r) (s') :
    resolveOptExchange s .zero o = .ok (r, s') → r = none := by
  cases o with
  | none => simp [resolveOptExchange]; intro h _; exact h.symm
  | some x =>
    simp only [resolveOptExchange]
    cases h : resolveExchange s .zero x with
    | ok p => exact absurd h (resolveExchange_zero_not_ok s x p)
    | err _ => simp
    | panic _ => simp
    | fuelOut => simp

theorem resolveAmount_safe (s : Store) (pa : PostingAmount) : (resolveAmount s pa).crashes = false := by
  unfold resolveAmount
  have h1 := evalPostingAmt_safe s pa.amount
  cases h : evalPostingAmt s pa.amount with
  | ok p =>
    obtain ⟨amount, s1⟩ := p
    simp only
    have h2 := resolveOptExchange_safe s1 amount pa.cost
    cases hc : resolveOptExchange s1 amount pa.cost with
    | ok q =>
      obtain ⟨cost, s2⟩ := q
      simp only
      have h3 := resolveOptExchange_safe s2 amount pa.lot.price
      cases hl : resolveOptExchange s2 amount pa.lot.price with
      | ok q' =>
        obtain ⟨lot, s3⟩ := q'
        simp only
        cases amount with
        | zero =>
          have e1 := resolveOptExchange_zero _ _ _ _ hc
          have e2 := resolveOptExchange_zero _ _ _ _ hl
          subst e1; subst e2; rfl
        | single sa =>
          cases cost <;> cases lot <;> rfl
      | err _ => rfl
      | panic _ => simp_all
      | fuelOut => simp_all
    | err _ => rfl
    | panic _ => simp_all
    | fuelOut => simp_all
  | err _ => rfl
  | panic _ => simp_all
  | fuelOut => simp_all

theorem resolveOptBalance_safe (s : Store) (o : Option VExpr) : (resolveOptBalance s o).crashes = false := by
  cases o with
  | none => rfl
  | some e =>
    simp only [resolveOptBalance]
    have := evalPostingAmt_safe s e
    cases h : evalPostingAmt s e with
    | ok p => obtain ⟨r, s'⟩ := p; rfl
    | err _ => rfl
    | panic _ => simp_all
    | fuelOut => simp_all

theorem resolvePosting_safe (c : Ctx) (p : Posting) : (resolvePosting c p).crashes = false := by
  unfold resolvePosting
  simp only
  cases hp : p.amount with
  | none =>
    simp only
    have := resolveOptBalance_safe { c with accounts := (c.accounts.ensure p.account).2 }.commodities p.balance
    cases h : resolveOptBalance { c with accounts := (c.accounts.ensure p.account).2 }.commodities p.balance with
    | ok q => obtain ⟨b, cs⟩ := q; rfl
    | err _ => rfl
    | panic _ => simp_all
    | fuelOut => simp_all
  | some pa =>
    simp only
    have := resolveAmount_safe { c with accounts := (c.accounts.ensure p.account).2 }.commodities pa
    cases h : resolveAmount { c with accounts := (c.accounts.ensure p.account).2 }.commodities pa with
    | ok q =>
      obtain ⟨ra, cs1⟩ := q
      simp only
      have := resolveOptBalance_safe cs1 p.balance
      cases h' : resolveOptBalance cs1 p.balance with
      | ok q' => obtain ⟨b, cs2⟩ := q'; rfl
      | err _ => rfl
      | panic _ => simp_all
      | fuelOut => simp_all
    | err _ => rfl
    | panic _ => simp_all
    | fuelOut => simp_all

/-! ### book-keeping core -/
section book
variable {α : Type} [DecidableEq α]

theorem Balance.setPartial_safe (b : Balance α κ) (a : α) (p : PostingAmt κ) :
    (Balance.setPartial b a p).crashes = false := by
  cases p with
  | zero => simp only [Balance.setPartial]; split <;> rfl
  | single s => rfl

theorem processPosting_safe (bal : Balance α κ) (date : Date) (idx : Nat) (p : RPosting α κ) :
    (processPosting bal date idx p).crashes = false := by
  unfold processPosting
  cases ha : p.amount with
  | none =>
    cases hb : p.balance with
    | none => rfl
    | some current =>
      simp only
      have h1 := Balance.setPartial_safe bal p.account current
      cases h : Balance.setPartial bal p.account current with
      | ok q =>
        obtain ⟨bal', prev⟩ := q
        simp only
        have h2 := PostingAmt.checkSub_safe current prev
        cases h' : current.checkSub prev <;> simp_all
      | err _ => rfl
      | panic _ => simp_all
      | fuelOut => simp_all
  | some ra =>
    simp only
    split <;> rfl

/-- invariant of the posting loop of `add_transaction`: `idx` postings have been pushed and the index of the
omitted-amount posting, if any, is one of them. -/
def TxnInv (st : TxnState α κ) (idx : Nat) : Prop :=
  st.postings.length = idx ∧ ∀ u, st.unfilled = some u → u < st.postings.length

theorem stepPosting_safe (date : Date) (st : TxnState α κ) (idx : Nat) (p : RPosting α κ) :
    (stepPosting date st idx p).crashes = false := by
  unfold stepPosting
  have h1 := processPosting_safe st.bal date idx p
  cases h : processPosting st.bal date idx p with
  | ok q =>
    obtain ⟨ev, pe, bal'⟩ := q
    cases ev with
    | some ev => rfl
    | none => simp only; split <;> rfl
  | err _ => rfl
  | panic _ => simp_all
  | fuelOut => simp_all

theorem stepPosting_inv (date : Date) (st st' : TxnState α κ) (idx : Nat) (p : RPosting α κ)
    (hinv : TxnInv st idx) (h : stepPosting date st idx p = .ok st') : TxnInv st' (idx + 1) := by
  unfold stepPosting at h
  obtain ⟨hl, hu⟩ := hinv
  cases hp : processPosting st.bal date idx p with
  | ok q =>
    obtain ⟨ev, pe, bal'⟩ := q
    rw [hp] at h
    cases ev with
    | some ev =>
      simp only at h
      injection h with h; subst h
      refine ⟨by simp [hl], ?_⟩
      intro u hu'
      have := hu u hu'
      simp; omega
    | none =>
      simp only at h
      cases hun : st.unfilled with
      | some first => rw [hun] at h; simp at h
      | none =>
        rw [hun] at h
        simp only at h
        injection h with h; subst h
        refine ⟨by simp [hl], ?_⟩
        intro u hu'
        simp at hu'
        simp; omega
  | err _ => rw [hp] at h; simp at h
  | panic _ => rw [hp] at h; simp at h
  | fuelOut => rw [hp] at h; simp at h

theorem checkBalance_safe (prec : κ → Option Nat) (date : Date) (ps : List (OutPosting α κ)) (b : Amount κ) :
    (checkBalance prec date ps b).crashes = false := by
  unfold checkBalance
  simp only
  split
  · rfl
  · split <;> rfl

end book

theorem loopSyntax_safe (date : Date) (c : Ctx) (st : TxnState String String) (idx : Nat) (ps : List Posting) :
    (loopSyntax date c st idx ps).crashes = false := by
  induction ps generalizing c st idx with
  | nil => rfl
  | cons p ps ih =>
    unfold loopSyntax
    have h1 := resolvePosting_safe c p
    cases h : resolvePosting c p with
    | ok q =>
      obtain ⟨rp, c'⟩ := q
      simp only
      have h2 := stepPosting_safe date st idx rp
      cases h' : stepPosting date st idx rp with
      | ok st' => exact ih c' st' (idx + 1)
      | err _ => rfl
      | panic _ => simp_all
      | fuelOut => simp_all
    | err _ => rfl
    | panic _ => simp_all
    | fuelOut => simp_all

theorem loopSyntax_inv (date : Date) (c c' : Ctx) (st st' : TxnState String String) (idx : Nat) (ps : List Posting)
    (hinv : TxnInv st idx) (h : loopSyntax date c st idx ps = .ok (c', st')) : TxnInv st' (idx + ps.length) := by
  induction ps generalizing c st idx with
  | nil =>
    simp only [loopSyntax] at h
    injection h with h
    injection h with h1 h2
    subst h2; simpa using hinv
  | cons p ps ih =>
    unfold loopSyntax at h
    cases hr : resolvePosting c p with
    | ok q =>
      obtain ⟨rp, c1⟩ := q
      rw [hr] at h
      simp only at h
      cases hs : stepPosting date st idx rp with
      | ok st1 =>
        rw [hs] at h
        have := ih c1 st1 (idx + 1) (stepPosting_inv date st st1 idx rp hinv hs) h
        simpa [Nat.add_assoc, Nat.add_comm 1] using this
      | err _ => rw [hs] at h; simp at h
      | panic _ => rw [hs] at h; simp at h
      | fuelOut => rw [hs] at h; simp at h
    | err _ => rw [hr] at h; simp at h
    | panic _ => rw [hr] at h; simp at h
    | fuelOut => rw [hr] at h; simp at h

theorem finishTxn_safe (prec : String → Option Nat) (date : Date) (st : TxnState String String) (n : Nat)
    (hinv : TxnInv st n) : (finishTxn prec date st).crashes = false := by
  unfold finishTxn
  cases hu : st.unfilled with
  | some u =>
    simp only
    have hlt := hinv.2 u hu
    rw [List.getElem?_eq_getElem hlt]
    rfl
  | none =>
    simp only
    have := checkBalance_safe prec date st.postings st.balance
    cases h : checkBalance prec date st.postings st.balance with
    | ok q => obtain ⟨a, b⟩ := q; rfl
    | err _ => rfl
    | panic _ => simp_all
    | fuelOut => simp_all

theorem addTransactionSyntax_safe (c : Ctx) (bal : Balance String String) (t : Transaction) :
    (addTransactionSyntax c bal t).crashes = false := by
  unfold addTransactionSyntax
  split
  · rename_i c' st h
    have hinv : TxnInv st (0 + t.posts.length) :=
      loopSyntax_inv t.date c c' _ st 0 t.posts ⟨rfl, by simp⟩ h
    have h2 := finishTxn_safe c'.prec t.date st _ hinv
    cases h' : finishTxn c'.prec t.date st <;> simp_all
  · rfl
  · rename_i s h
    exact absurd h (not_panic_of_safe (loopSyntax_safe _ _ _ _ _) s)
  · rename_i h
    exact absurd h (not_fuelOut_of_safe (loopSyntax_safe _ _ _ _ _))

theorem Store.insertCanonical_safe (s : Store) (n : String) : (s.insertCanonical n).crashes = false := by
  unfold Store.insertCanonical
  split <;> rfl

theorem Store.insertAlias_safe (s : Store) (n c : String) : (s.insertAlias n c).crashes = false := by
  unfold Store.insertAlias
  repeat' split
  all_goals rfl

theorem insertAliases_safe (s : Store) (c : String) (as : List String) : (insertAliases s c as).crashes = false := by
  induction as generalizing s with
  | nil => rfl
  | cons a rest ih =>
    unfold insertAliases
    have := Store.insertAlias_safe s a c
    cases h : s.insertAlias a c with
    | ok s' => exact ih s'
    | err _ => rfl
    | panic _ => simp_all
    | fuelOut => simp_all

theorem applyCommodityDetails_safe (c : Ctx) (can : String) (ds : List CommodityDetail) :
    (applyCommodityDetails c can ds).crashes = false := by
  induction ds generalizing c with
  | nil => rfl
  | cons d rest ih =>
    cases d with
    | alias a =>
      unfold applyCommodityDetails
      have := Store.insertAlias_safe c.commodities a can
      cases h : c.commodities.insertAlias a can with
      | ok s' => exact ih _
      | err _ => rfl
      | panic _ => simp_all
      | fuelOut => simp_all
    | format v cm => unfold applyCommodityDetails; exact ih _
    | comment s => unfold applyCommodityDetails; exact ih _
    | note s => unfold applyCommodityDetails; exact ih _

theorem stepEntry_safe (st : ProcState) (e : Entry) : (stepEntry st e).crashes = false := by
  cases e with
  | txn t =>
    simp only [stepEntry]
    have := addTransactionSyntax_safe st.ctx st.bal t
    cases h : addTransactionSyntax st.ctx st.bal t with
    | ok q => obtain ⟨c', r⟩ := q; rfl
    | err _ => rfl
    | panic _ => simp_all
    | fuelOut => simp_all
  | account name details =>
    simp only [stepEntry]
    have := Store.insertCanonical_safe st.ctx.accounts name
    cases h : st.ctx.accounts.insertCanonical name with
    | ok q =>
      obtain ⟨can, s1⟩ := q
      simp only
      have := insertAliases_safe s1 can (details.filterMap fun | .alias a => some a | _ => none)
      cases h' : insertAliases s1 can (details.filterMap fun | .alias a => some a | _ => none) <;> simp_all
    | err _ => rfl
    | panic _ => simp_all
    | fuelOut => simp_all
  | commodity name details =>
    simp only [stepEntry]
    have := Store.insertCanonical_safe st.ctx.commodities name
    cases h : st.ctx.commodities.insertCanonical name with
    | ok q =>
      obtain ⟨can, s1⟩ := q
      simp only
      have := applyCommodityDetails_safe { st.ctx with commodities := s1 } can details
      cases h' : applyCommodityDetails { st.ctx with commodities := s1 } can details <;> simp_all
    | err _ => rfl
    | panic _ => simp_all
    | fuelOut => simp_all
  | comment s => rfl
  | applyTag k v => rfl
  | endApplyTag => rfl
  | «include» p => rfl

theorem processFrom_safe (st : ProcState) (i : Nat) (es : List Entry) : (processFrom st i es).crashes = false := by
  induction es generalizing st i with
  | nil => rfl
  | cons e es ih =>
    unfold processFrom
    have := stepEntry_safe st e
    cases h : stepEntry st e with
    | ok st' => exact ih st' (i + 1)
    | err _ => rfl
    | panic _ => simp_all
    | fuelOut => simp_all

end Okane
