import Okane.Lemmas.C11TextTac
/-!
# Locality of okane's ledger grammar (C11 at the level of texts)

One theorem per grammar rule of `Model/Parse.lean`: `Loc C x y rule` — see `C11TextComb`.
-/
namespace Okane.Parse
open Okane Okane.Comb

variable {α β : Type} {C : Ctx} {a b : Pos}

/-! ## `character.rs` -/

theorem loc_lineEndingOrEof : Loc C .mid .bol lineEndingOrEof := by unfold lineEndingOrEof; loc_tac

theorem loc_lineEndingOrSemi : Loc C .mid .bol lineEndingOrSemi := by unfold lineEndingOrSemi; loc_tac

theorem loc_tillLineEndingOrSemi : Loc C .mid .mid tillLineEndingOrSemi := by unfold tillLineEndingOrSemi; loc_tac

theorem loc_paren {inner : Parser α} (h : Loc C .mid .mid inner) : Loc C .mid .mid (paren inner) := by
  unfold paren; loc_tac

theorem loc_parenStr : Loc C .mid .mid parenStr := by
  unfold parenStr; exact loc_paren (by loc_tac)

/-! ## `primitive.rs` -/

theorem loc_dateShape (sep : Char) (hs : sep ≠ '\n') : Loc C .mid .mid (dateShape sep) := by
  have hc : Loc C .mid .mid (char sep) := WL.loc (wl_char _ hs)
  unfold dateShape; loc_tac

theorem loc_date : Loc C .mid .mid date := by
  have h1 : Loc C .mid .mid (dateShape '/') := loc_dateShape _ (by decide)
  have h2 : Loc C .mid .mid (dateShape '-') := loc_dateShape _ (by decide)
  unfold date; loc_tac

/-! ## `metadata.rs` -/

theorem loc_clearState : Loc C .mid .mid clearState := by unfold clearState; loc_tac

theorem loc_tagKey : Loc C .mid .mid tagKey := by unfold tagKey; loc_tac

theorem loc_metadataValue : Loc C .mid .mid metadataValue := by unfold metadataValue; loc_tac

theorem loc_metadataTags : Loc C .mid .mid metadataTags := by unfold metadataTags; loc_tac

theorem loc_metadataKv : Loc C .mid .mid metadataKv := by unfold metadataKv; loc_tac

theorem loc_lineMetadata : Loc C .mid .bol lineMetadata := by unfold lineMetadata; loc_tac


/-! ## what an indented element refuses: a line end, the end of the text -/

theorem eol_bt_lineMetadata (s : List Char) (h : EolOrEnd s) : ∃ q, lineMetadata s = .bt q := by
  refine ⟨s, ?_⟩
  rcases h with rfl | ⟨r, rfl | rfl⟩ <;> simp [lineMetadata, delimited, preceded, pair, Comb.bind, char, oneOf]

theorem eol_bt_notEol (s : List Char) (h : EolOrEnd s) : ∃ q, Comb.not lineEndingOrEof s = .bt q := by
  refine ⟨s, ?_⟩
  rcases h with rfl | ⟨r, rfl | rfl⟩ <;> simp [Comb.not, lineEndingOrEof, alt2, lineEnding, eof]

theorem eol_bt_commentPrefix (s : List Char) (h : EolOrEnd s) : ∃ q, takeWhile1 isCommentPrefix s = .bt q := by
  refine ⟨s, ?_⟩
  rcases h with rfl | ⟨r, rfl | rfl⟩ <;> simp [takeWhile1, isCommentPrefix]

theorem eol_bt_kw (kw : List Char) (hk : ∃ c r, kw = c :: r ∧ c ≠ '\n' ∧ c ≠ '\r') (s : List Char) (h : EolOrEnd s) :
    ∃ q, pair (literal kw) space1 s = .bt q := by
  obtain ⟨c, r, rfl, h1, h2⟩ := hk
  refine ⟨s, ?_⟩
  rcases h with rfl | ⟨r', rfl | rfl⟩ <;> simp [pair, Comb.bind, literal, h1, h2]

theorem eol_bt_note : ∀ s, EolOrEnd s → ∃ q, pair (literal kwNote) space1 s = .bt q :=
  eol_bt_kw _ ⟨_, _, rfl, by decide, by decide⟩
theorem eol_bt_alias : ∀ s, EolOrEnd s → ∃ q, pair (literal kwAlias) space1 s = .bt q :=
  eol_bt_kw _ ⟨_, _, rfl, by decide, by decide⟩
theorem eol_bt_format : ∀ s, EolOrEnd s → ∃ q, pair (literal kwFormat) space1 s = .bt q :=
  eol_bt_kw _ ⟨_, _, rfl, by decide, by decide⟩

macro_rules | `(tactic| loc_side) => `(tactic| exact eol_bt_lineMetadata)
macro_rules | `(tactic| loc_side) => `(tactic| exact eol_bt_notEol)
macro_rules | `(tactic| loc_side) => `(tactic| exact eol_bt_commentPrefix)
macro_rules | `(tactic| loc_side) => `(tactic| exact eol_bt_note)
macro_rules | `(tactic| loc_side) => `(tactic| exact eol_bt_alias)
macro_rules | `(tactic| loc_side) => `(tactic| exact eol_bt_format)

theorem loc_blockMetadata : Loc C .mid .bol blockMetadata := by
  unfold blockMetadata
  refine loc_dispatchOpt fun c => ?_
  split
  · exact loc_separated1_space1 loc_lineMetadata (by safe_tac) eol_bt_lineMetadata
  · rename_i h; cases h
  · loc_tac

/-! ## `posting.rs` -/

theorem loc_accountWord : Loc C .mid .mid accountWord := by unfold accountWord; loc_tac

theorem loc_accountEnd : Loc C .mid .mid accountEnd := by
  unfold accountEnd
  refine loc_peek (b := .bol) (loc_alt2 (by loc_tac) (loc_alt2 ?_ loc_eof))
  exact loc_void (loc_pair (b := .mid) (by loc_tac) (loc_oneOf_any _))

theorem loc_postingAccount : Loc C .mid .mid postingAccount := by unfold postingAccount; loc_tac

theorem loc_lotAmount : Loc C .mid .mid lotAmount := by unfold lotAmount; loc_tac

theorem loc_totalCost : Loc C .mid .mid totalCost := by unfold totalCost; loc_tac
theorem loc_rateCost : Loc C .mid .mid rateCost := by unfold rateCost; loc_tac


/-- what follows a character other than `\n` of a `mid` position is a `mid` position (the consumed part may hold line ends:
the note of a lot can) -/
theorem Ctx.Mid.after_char {u pre r : List Char} {d : Char} (h : C.Mid u) (hu : u = pre ++ d :: r) (hd : d ≠ '\n')
    (hd' : isSpace d = false) : C.Mid r := by
  obtain ⟨w, hw⟩ := h
  rw [hw] at hu
  rcases List.append_eq_append_iff.1 hu with ⟨x, h1, h2⟩ | ⟨x, h1, h2⟩
  · -- pre = w ++ x, '\n' :: z = x ++ d :: r
    cases x with
    | nil => simp only [List.nil_append, List.cons.injEq] at h2; exact absurd h2.1.symm hd
    | cons y ys =>
      simp only [List.cons_append, List.cons.injEq] at h2
      have : d ∈ C.z := by rw [h2.2]; simp
      rcases C.hz.1 d this with h' | h'
      · exact absurd h' hd
      · rw [hd'] at h'; cases h'
  · -- w = pre ++ x, d :: r = x ++ '\n' :: z
    cases x with
    | nil => simp only [List.nil_append, List.cons.injEq] at h2; exact absurd h2.1 hd
    | cons y ys =>
      simp only [List.cons_append, List.cons.injEq] at h2
      exact ⟨ys, h2.2⟩

/-- `paren(take_till(0.., stops))` where the text may run over several lines: a success has found its `)` -/
theorem locOk_parenTill (g : Char → Bool) (hg : g ')' = true) : LocOk C .mid .mid (paren (takeTill0 g)) := by
  have key : ∀ rest : List Char, paren (takeTill0 g) ('(' :: rest) =
      match rest.dropWhile (fun c => !g c) with
      | [] => .bt []
      | d :: r => if d == ')' then .ok (rest.takeWhile (fun c => !g c)) r else .bt (d :: r) := by
    intro rest
    simp only [paren, delimited, preceded, terminated, Comb.bind, Comb.map, char, oneOf, takeTill0, takeWhile0,
      beq_self_eq_true, if_true, Res.andThen_ok]
    cases rest.dropWhile (fun c => !g c) with
    | nil => simp
    | cons d r =>
      simp only
      by_cases hd : (d == ')') = true <;> simp [hd]
  have key2 : ∀ c rest, c ≠ '(' → ∃ q, paren (takeTill0 g) (c :: rest) = .bt q := by
    intro c rest hc
    refine ⟨c :: rest, ?_⟩
    simp [paren, delimited, preceded, Comb.bind, char, oneOf, hc]
  constructor
  · intro u hu
    cases u with
    | nil => exact absurd rfl (Ctx.Mid.ne_nil hu)
    | cons c rest =>
      by_cases hc : c = '('
      · subst hc
        rw [List.cons_append, key, key]
        cases hd : rest.dropWhile (fun c => !g c) with
        | nil => simp
        | cons d r =>
          by_cases hdp : (d == ')') = true
          · have hdp' : d = ')' := by simpa using hdp
            subst hdp'
            have hmem : ')' ∈ rest := by
              have : ')' ∈ rest.dropWhile (fun c => !g c) := by rw [hd]; simp
              exact (List.dropWhile_suffix _).subset this
            obtain ⟨h1, h2⟩ := takeWhile_append_of_mem (f := fun c => !g c) hmem (by simp [hg]) C.t
            rw [h1, h2, hd]
            simp
          · simp [hdp]
      · obtain ⟨q, hq⟩ := key2 c rest hc
        rw [hq]; simp
  · intro u x r hu he
    cases u with
    | nil => exact absurd rfl (Ctx.Mid.ne_nil hu)
    | cons c rest =>
      by_cases hc : c = '('
      · subst hc
        rw [key] at he
        cases hd : rest.dropWhile (fun c => !g c) with
        | nil => rw [hd] at he; cases he
        | cons d r' =>
          rw [hd] at he
          simp only at he
          split at he
          · rename_i hdp
            simp only [Res.ok.injEq] at he
            have hdp' : d = ')' := by simpa using hdp
            subst hdp'
            rw [← he.2]
            refine hu.after_char (pre := '(' :: rest.takeWhile (fun c => !g c)) (d := ')') ?_ (by decide) (by decide)
            rw [List.cons_append, ← hd, List.takeWhile_append_dropWhile]
          · cases he
      · obtain ⟨q, hq⟩ := key2 c rest hc
        rw [hq] at he; cases he

/-- heterogeneous sequencing: the continuations of the two runs differ (in their fuel) -/
theorem extOk_bind_het {p : Parser α} {f f' : α → Parser β} {x y : Pos} (hp : LocOk C x y p) {u : List Char}
    (hu : C.At x u) (hf : ∀ v r, p u = .ok v r → C.At y r → Res.ExtOk C.t (f v r) (f' v (r ++ C.t))) :
    Res.ExtOk C.t ((p >>- f) u) ((p >>- f') (u ++ C.t)) := by
  have h1 := hp.ext u hu
  simp only [Comb.bind]
  cases he : p u with
  | ok v r =>
    rw [he] at h1
    simp only [Res.extOk_ok] at h1
    rw [h1]
    exact hf v r he (hp.post u v r hu he)
  | bt q => simp
  | cut q => simp
  | panic s => simp
  | fuel => simp

/-- one round of `lot`'s loop: a bracketed form, `space0`, the rest of the loop -/
theorem lotRound_ext {p : Parser β} (hp : LocOk C .mid .mid p) (hs : Safe 1 p) {u : List Char} (hu : C.Mid u)
    (k k' : β → Parser Lot)
    (hk : ∀ v r, C.Mid r → r.length < u.length → Res.ExtOk C.t (k v r) (k' v (r ++ C.t))) :
    Res.ExtOk C.t ((p >>- fun v => space0 >>- fun _ => k v) u) ((p >>- fun v => space0 >>- fun _ => k' v) (u ++ C.t)) := by
  refine extOk_bind_het hp hu fun v r he hr => ?_
  have h1 := hs.good u
  rw [he] at h1
  obtain ⟨_, h2⟩ := h1
  refine extOk_bind_het (Loc.ok (WL.loc wl_space0)) hr fun _ r' he' hr' => ?_
  have h3 := (safe_space0 (Nat.le_refl 0)).good r
  rw [he'] at h3
  exact hk v r' hr' (by have := h3.1.length_le; omega)

theorem lotRound_post {p : Parser β} (hp : LocOk C .mid .mid p) {u : List Char} (hu : C.Mid u)
    (k : β → Parser Lot) (hk : ∀ v r x r', C.Mid r → k v r = .ok x r' → C.Mid r') (x : Lot) (r' : List Char)
    (he : (p >>- fun v => space0 >>- fun _ => k v) u = .ok x r') : C.Mid r' := by
  simp only [Comb.bind] at he
  cases h1 : p u with
  | ok v r =>
    rw [h1] at he
    simp only [Res.andThen_ok, Comb.bind] at he
    cases h2 : space0 r with
    | ok w r2 =>
      rw [h2] at he
      simp only [Res.andThen_ok] at he
      exact hk v r2 x r' ((WL.loc (C := C) wl_space0).post r w r2 (hp.post u v r hu h1) h2) he
    | bt q => rw [h2] at he; cases he
    | cut q => rw [h2] at he; cases he
    | panic s => rw [h2] at he; cases he
    | fuel => rw [h2] at he; cases he
  | bt q => rw [h1] at he; cases he
  | cut q => rw [h1] at he; cases he
  | panic s => rw [h1] at he; cases he
  | fuel => rw [h1] at he; cases he

theorem locOk_lotDate : LocOk C .mid .mid (delimited (pair (char '[') space0) date (pair space0 (char ']'))) :=
  Loc.ok (by loc_tac)

theorem lotLoop_ext : ∀ (n m : Nat) (l : Lot) (u : List Char), C.Mid u → u.length < n → (u ++ C.t).length < m →
    Res.ExtOk C.t (lotLoop n l u) (lotLoop m l (u ++ C.t)) := by
  intro n
  induction n with
  | zero => intro m l u _ h; omega
  | succ n ih =>
    intro m l u hu hn hm
    obtain ⟨m, rfl⟩ : ∃ m', m = m' + 1 := ⟨m - 1, by omega⟩
    have hrec : ∀ (l' : Lot) (r : List Char), C.Mid r → r.length < u.length →
        Res.ExtOk C.t (lotLoop n l' r) (lotLoop m l' (r ++ C.t)) := by
      intro l' r hr hlt
      refine ih m l' r hr (by omega) ?_
      simp only [List.length_append] at hm ⊢; omega
    cases u with
    | nil => exact absurd rfl hu.ne_nil
    | cons c rest =>
      rw [List.cons_append]
      by_cases h1 : c = '{'
      · subst h1
        simp only [lotLoop]
        split
        · exact lotRound_ext (Loc.ok loc_lotAmount) (safe_lotAmount.mono (by omega)) hu _ _ (fun v r hr hlt => hrec _ r hr hlt)
        · simp
      · by_cases h2 : c = '['
        · subst h2
          simp only [lotLoop]
          split
          · exact lotRound_ext locOk_lotDate (by safe_tac) hu _ _ (fun v r hr hlt => hrec _ r hr hlt)
          · simp
        · by_cases h3 : c = '('
          · subst h3
            simp only [lotLoop]
            split
            · exact lotRound_ext (locOk_parenTill _ (by decide)) (by safe_tac) hu _ _ (fun v r hr hlt => hrec _ r hr hlt)
            · simp
          · have e : ∀ (k : Nat) (X : List Char), lotLoop (k + 1) l (c :: X) = .ok l (c :: X) := by
              intro k X
              unfold lotLoop
              split <;> simp_all
            rw [e, e]; simp

theorem lotLoop_post : ∀ (n : Nat) (l : Lot) (u : List Char) (x : Lot) (r : List Char), C.Mid u →
    lotLoop n l u = .ok x r → C.Mid r := by
  intro n
  induction n with
  | zero => intro l u x r _ h; simp [lotLoop] at h
  | succ n ih =>
    intro l u x r hu he
    cases u with
    | nil => exact absurd rfl hu.ne_nil
    | cons c rest =>
      by_cases h1 : c = '{'
      · subst h1
        simp only [lotLoop] at he
        split at he
        · exact lotRound_post (Loc.ok loc_lotAmount) hu _ (fun v r1 x' r' hr1 h => ih _ r1 x' r' hr1 h) x r he
        · cases he
      · by_cases h2 : c = '['
        · subst h2
          simp only [lotLoop] at he
          split at he
          · exact lotRound_post locOk_lotDate hu _ (fun v r1 x' r' hr1 h => ih _ r1 x' r' hr1 h) x r he
          · cases he
        · by_cases h3 : c = '('
          · subst h3
            simp only [lotLoop] at he
            split at he
            · exact lotRound_post (locOk_parenTill _ (by decide)) hu _ (fun v r1 x' r' hr1 h => ih _ r1 x' r' hr1 h) x r he
            · cases he
          · have e : lotLoop (n + 1) l (c :: rest) = .ok l (c :: rest) := by
              unfold lotLoop
              split <;> simp_all
            rw [e] at he
            simp only [Res.ok.injEq] at he
            rw [← he.2]; exact hu

theorem locOk_lot : LocOk C .mid .mid lot := by
  unfold lot
  constructor
  · intro u hu
    refine extOk_bind_het (Loc.ok (WL.loc wl_space0)) hu fun _ r he hr => ?_
    exact lotLoop_ext _ _ _ r hr (Nat.lt_succ_self _) (Nat.lt_succ_self _)
  · intro u x r hu he
    simp only [Comb.bind] at he
    cases h1 : space0 u with
    | ok w r1 =>
      rw [h1] at he
      exact lotLoop_post _ _ r1 x r ((WL.loc (C := C) wl_space0).post u w r1 hu h1) he
    | bt q => rw [h1] at he; cases he
    | cut q => rw [h1] at he; cases he
    | panic s => rw [h1] at he; cases he
    | fuel => rw [h1] at he; cases he

theorem locOk_postingAmount : LocOk C .mid .mid postingAmount := by
  unfold postingAmount
  refine locOk_bind (b := .mid) (Loc.ok (by loc_tac)) fun amount => ?_
  refine locOk_bind locOk_lot fun l => ?_
  exact Loc.ok (by loc_tac)


/-- `opt(p)` under a success-only claim for `p`: when `p` backtracks in the first text, the continuation must not
succeed unless `p` backtracks in the longer text as well -/
theorem locOk_opt_bind {p : Parser α} {f : Option α → Parser β} (hp : LocOk C .mid .mid p) (hf : ∀ x, Loc C .mid b (f x))
    (hbt : ∀ u y r, C.Mid u → f none u = .ok y r → ∃ q, p (u ++ C.t) = .bt q) : LocOk C .mid b (opt p >>- f) := by
  constructor
  · intro u hu
    have h1 := hp.ext u hu
    simp only [Comb.bind, opt]
    cases he : p u with
    | ok x r =>
      rw [he] at h1
      simp only [Res.extOk_ok] at h1
      rw [h1]
      exact ((hf (some x)).ext r (hp.post u x r hu he)).toOk
    | bt q =>
      simp only [Res.andThen_ok]
      cases hn : f none u with
      | ok y r =>
        obtain ⟨q', hq'⟩ := hbt u y r hu hn
        rw [hq']
        have := (hf none).ext u hu
        rw [hn] at this
        simp only [Res.ext_ok] at this
        simp [this]
      | bt q' => simp
      | cut q' => simp
      | panic s' => simp
      | fuel => simp
    | cut q => simp
    | panic s => simp
    | fuel => simp
  · intro u y r hu he
    simp only [Comb.bind, opt] at he
    cases h1 : p u with
    | ok x r' => rw [h1] at he; exact (hf (some x)).post r' y r (hp.post u x r' hu h1) he
    | bt q => rw [h1] at he; exact (hf none).post u y r hu he
    | cut q => rw [h1] at he; cases he
    | panic s => rw [h1] at he; cases he
    | fuel => rw [h1] at he; cases he

/-- `value_expr` backtracks on a text that starts with none of `(`, `-`, a digit, `,`, `.` -/
theorem valueExpr_bt_of_head {c : Char} (X : List Char) (h1 : c ≠ '(') (h2 : c ≠ '-')
    (h3 : Literal.isNumChar c = false) : ∃ q, valueExpr (c :: X) = .bt q := by
  have ht : Literal.tokenSplit (c :: X) = .error (c :: X) := by
    rw [ExprSyntax.tokenSplit_of_not_neg (by rintro ⟨r, hr⟩; injection hr with h _; exact h2 h)]
    simp [h3]
  refine ⟨c :: X, ?_⟩
  simp only [valueExpr, ExprSyntax.parseValueExpr, ExprSyntax.parseFuel]
  rw [ExprSyntax.C11Mono.valueExpr_other _ _ h1]
  simp [ExprSyntax.amount, ExprSyntax.prettyDecimal, ht, ofPRes]

theorem postingAmount_bt_of_head {c : Char} (X : List Char) (h1 : c ≠ '(') (h2 : c ≠ '-')
    (h3 : Literal.isNumChar c = false) : ∃ q, terminated postingAmount space0 (c :: X) = .bt q := by
  obtain ⟨q, hq⟩ := valueExpr_bt_of_head X h1 h2 h3
  exact ⟨q, by simp [terminated, postingAmount, Comb.bind, hq]⟩

/-- a text on which `block_metadata` succeeds starts with `;` or a line end (or is empty) -/
theorem blockMetadata_ok_head {c : Char} {X : List Char} {y : List Metadata} {r : List Char}
    (h : blockMetadata (c :: X) = .ok y r) : c = ';' ∨ c = '\n' ∨ c = '\r' := by
  by_cases hc : c = ';'
  · exact Or.inl hc
  · right
    have e : blockMetadata (c :: X) = preceded lineEnding (repeat0 (preceded space1 lineMetadata)) (c :: X) := by
      unfold blockMetadata
      simp only [dispatchOpt]
      have h1 : (some c : Option Char) ≠ some ';' := by simpa using hc
      have h2 : (some c : Option Char) ≠ none := by simp
      generalize (some c : Option Char) = o at h1 h2 ⊢
      split <;> simp_all
    rw [e] at h
    simp only [preceded, Comb.bind] at h
    by_cases h1 : c = '\n'
    · exact Or.inl h1
    · by_cases h2 : c = '\r'
      · exact Or.inr h2
      · have : lineEnding (c :: X) = .bt (c :: X) := by
          unfold lineEnding
          split <;> simp_all
        rw [this] at h; cases h

theorem locOk_posting : LocOk C .mid .bol posting := by
  unfold posting
  refine locOk_bind (b := .mid) (Loc.ok (by loc_tac)) fun cs => ?_
  refine locOk_bind (b := .mid) (Loc.ok (by loc_tac)) fun account => ?_
  refine locOk_bind (b := .mid) (Loc.ok (by loc_tac)) fun shortcut => ?_
  split
  · exact Loc.ok (by loc_tac)
  · refine locOk_opt_bind ?_ (fun amount => by loc_tac) ?_
    · exact locOk_bind (b := .mid) locOk_postingAmount fun _ => locOk_map _ (Loc.ok (WL.loc wl_space0))
    · intro u y r hu he
      cases u with
      | nil => exact absurd rfl hu.ne_nil
      | cons c X =>
        rw [List.cons_append]
        by_cases hc : c = '='
        · subst hc; exact postingAmount_bt_of_head _ (by decide) (by decide) (by decide)
        · -- the balance assertion is absent, `block_metadata` succeeds here
          have e : opt (delimited (pair (char '=') space0) valueExpr space0) (c :: X) = .ok none (c :: X) := by
            simp [opt, delimited, preceded, pair, Comb.bind, char, oneOf, hc]
          simp only [Comb.bind, e, Res.andThen_ok] at he
          cases hb : blockMetadata (c :: X) with
          | ok md r' =>
            rcases blockMetadata_ok_head hb with h | h | h <;> subst h <;>
              exact postingAmount_bt_of_head _ (by decide) (by decide) (by decide)
          | bt q => rw [hb] at he; cases he
          | cut q => rw [hb] at he; cases he
          | panic s => rw [hb] at he; cases he
          | fuel => rw [hb] at he; cases he

macro_rules | `(tactic| loc_side) => `(tactic| exact locOk_posting)

/-! ## `transaction.rs` -/

/-- the element of `transaction`'s `repeat(0..)`: refuses the text after the cut because that does not start with a blank -/
theorem loc_transaction_elem :
    Loc C .bol .bol (preceded (pair (takeWhile1 isSpace) (Comb.not lineEndingOrEof)) (cutErr posting)) := by loc_tac

theorem loc_transaction : Loc C .mid .bol transaction := by
  unfold transaction; loc_tac


/-! ## `directive.rs` -/

/-- `multiline_text(prefix)`: every further line starts with the prefix, which the text after the cut does not -/
theorem loc_multilineText {pfx : Parser α} (h : Loc C .bol .mid pfx) (hs : Safe 1 pfx) : Loc C .bol .bol (multilineText pfx) := by
  unfold multilineText
  refine loc_map _ (loc_repeat1 (by loc_tac) (by safe_tac))

theorem loc_restOfLine {pfx : Parser α} (h : Loc C a .mid pfx) : Loc C a .bol (restOfLine pfx) := by
  unfold restOfLine; loc_tac

theorem loc_detailComment : Loc C .bol .bol detailComment := by
  unfold detailComment; exact loc_multilineText (by loc_tac) (by safe_tac)
theorem loc_detailNote : Loc C .bol .bol detailNote := by
  unfold detailNote; exact loc_multilineText (by loc_tac) (by safe_tac)
theorem loc_detailAlias : Loc C .bol .bol detailAlias := by
  unfold detailAlias; exact loc_restOfLine (by loc_tac)

theorem loc_accountDeclaration : Loc C .mid .bol accountDeclaration := by
  unfold accountDeclaration
  refine loc_bind (b := .bol) (loc_restOfLine (by loc_tac)) fun name => ?_
  loc_tac

theorem loc_commodityDeclaration : Loc C .mid .bol commodityDeclaration := by
  unfold commodityDeclaration
  refine loc_bind (b := .bol) (loc_restOfLine (by loc_tac)) fun name => ?_
  loc_tac

theorem loc_applyTag : Loc C .mid .bol applyTag := by unfold applyTag; loc_tac
theorem loc_endApplyTag : Loc C .mid .bol endApplyTag := by unfold endApplyTag; loc_tac
theorem loc_includeDirective : Loc C .mid .bol includeDirective := by
  unfold includeDirective; exact loc_map _ (loc_restOfLine (by loc_tac))
/-- a top-level comment goes on as long as lines start with a comment prefix: the text after the cut must not (`NoCm`) -/
theorem loc_topComment (hcm : C.NoCm) : Loc C .mid .bol topComment := by
  unfold topComment; exact loc_map _ (Loc.of_bol (loc_multilineText (loc_commentPrefix_bol hcm) (by safe_tac)))

/-! ## `parse.rs` -/

/-- **`parse_ledger_entry` cannot tell `a ++ t` from `a`** from the first character of an entry of `a` on, as long as the
text after the cut does not start with an indented non-blank line or a comment prefix (or `a` ends with a blank line) -/
theorem loc_parseLedgerEntry (hcm : C.NoCm) : Loc C .mid .bol parseLedgerEntry := by
  unfold parseLedgerEntry
  refine loc_dispatch fun c => ?_
  loc_tac


/-! ## without a condition on comment prefixes

When the text after the cut starts with a comment prefix (and no blank line precedes it), only a top-level comment that runs to
the very end of the first part is read differently (it goes on into the second part).  Every other entry — in particular
every entry that leaves something of the first part — is read as before. -/

/-- a loop whose element ends a line, when the first part has no blank tail: a run that leaves something of the first
part is the same run in the longer text -/
theorem repeat0Loop_ext_ne {p : Parser α} (hp : Loc C .mid .bol p) (hs : Safe 1 p) (hz0 : C.z = [])
    (hnil : ∃ q, p [] = .bt q) :
    ∀ (n m : Nat) (u : List Char) (acc l : List α) (r : List Char), C.At .bol u → u.length < n → (u ++ C.t).length < m →
      repeat0Loop p n u acc = .ok l r →
        C.At .bol r ∧ (r ≠ [] → repeat0Loop p m (u ++ C.t) acc = .ok l (r ++ C.t)) := by
  intro n
  induction n with
  | zero => intro m u acc l r _ h; omega
  | succ n ih =>
    intro m u acc l r hu hn hm h
    obtain ⟨m, rfl⟩ : ∃ m', m = m' + 1 := ⟨m - 1, by omega⟩
    rcases hu with hu | hu
    · rw [hz0] at hu
      subst hu
      obtain ⟨q, hq⟩ := hnil
      simp only [repeat0Loop, hq, Res.ok.injEq] at h
      rw [← h.2]
      exact ⟨Or.inl hz0.symm, fun h => absurd rfl h⟩
    · have h1 := hp.ext u hu
      have h2 := hs.good u
      simp only [repeat0Loop] at h ⊢
      cases he : p u with
      | ok x r' =>
        rw [he] at h h1 h2
        simp only [Res.ext_ok] at h1
        obtain ⟨h3, h4⟩ := h2
        simp only at h
        rw [if_neg (by omega)] at h
        rw [h1]
        simp only [List.length_append] at hm ⊢
        rw [if_neg (by omega)]
        exact ih m r' _ l r (hp.post u x r' hu he) (by omega) (by simp only [List.length_append]; omega) h
      | bt q =>
        rw [he] at h h1
        obtain ⟨q', hq'⟩ := h1
        simp only [Res.ok.injEq] at h
        rw [hq']
        obtain ⟨rfl, rfl⟩ := h
        exact ⟨Or.inr hu, fun _ => rfl⟩
      | cut q => rw [he] at h; cases h
      | panic s => rw [he] at h; cases h
      | fuel => rw [he] at h; cases h

/-- the line of a top-level comment -/
abbrev commentLine : Parser (List Char) := delimited (takeWhile1 isCommentPrefix) tillLineEnding lineEndingOrEof

theorem loc_commentLine : Loc C .mid .bol commentLine := by unfold commentLine; loc_tac

/-- **a top-level comment that does not run to the end of the first part** is read from the longer text as before,
whatever the second part starts with -/
theorem topComment_ext_ne (hz0 : C.z = []) {u : List Char} {e : Entry} {r : List Char} (hu : C.Mid u)
    (h : topComment u = .ok e r) : C.At .bol r ∧ (r ≠ [] → topComment (u ++ C.t) = .ok e (r ++ C.t)) := by
  have hsafe : Safe 1 commentLine := by unfold commentLine; safe_tac
  have hnil : ∃ q, commentLine [] = .bt q := ⟨[], by simp [commentLine, delimited, preceded, Comb.bind, takeWhile1]⟩
  have e1 : ∀ i, topComment i = (((repeat1 commentLine) i).map
      (fun ls => String.ofList (ls.flatMap fun l => l ++ ['\n']))).map Entry.comment := fun i => rfl
  rw [e1] at h
  rw [e1]
  simp only [repeat1] at h ⊢
  have h1 := (loc_commentLine (C := C)).ext u hu
  cases he : commentLine u with
  | ok x r1 =>
    rw [he] at h h1
    simp only [Res.ext_ok] at h1
    rw [h1]
    simp only at h ⊢
    cases hl : repeat0Loop commentLine (r1.length + 1) r1 [x] with
    | ok l r' =>
      rw [hl] at h
      simp only [Res.map_ok, Res.ok.injEq] at h
      obtain ⟨rfl, rfl⟩ := h
      obtain ⟨p1, p2⟩ := repeat0Loop_ext_ne loc_commentLine hsafe hz0 hnil _ ((r1 ++ C.t).length + 1) r1 [x] l r'
        ((loc_commentLine (C := C)).post u x r1 hu he) (Nat.lt_succ_self _) (Nat.lt_succ_self _) hl
      refine ⟨p1, fun hne => ?_⟩
      rw [p2 hne]; rfl
    | bt q => rw [hl] at h; cases h
    | cut q => rw [hl] at h; cases h
    | panic s => rw [hl] at h; cases h
    | fuel => rw [hl] at h; cases h
  | bt q => rw [he] at h; cases h
  | cut q => rw [he] at h; cases h
  | panic s => rw [he] at h; cases h
  | fuel => rw [he] at h; cases h

theorem topComment_is_comment {u : List Char} {e : Entry} {r : List Char} (h : topComment u = .ok e r) : ∃ s, e = .comment s := by
  simp only [topComment, Comb.map] at h
  cases hm : multilineText (takeWhile1 isCommentPrefix) u with
  | ok s r' => rw [hm] at h; simp only [Res.map_ok, Res.ok.injEq] at h; exact ⟨s, h.1.symm⟩
  | bt q => rw [hm] at h; cases h
  | cut q => rw [hm] at h; cases h
  | panic s => rw [hm] at h; cases h
  | fuel => rw [hm] at h; cases h

/-- the arms of `parse_ledger_entry` -/
theorem parseLedgerEntry_cons (c : Char) (x : List Char) :
    parseLedgerEntry (c :: x) =
      (if c == 'a' then
        preceded (peek (literal kwAccount)) (cutErr accountDeclaration)
        <|| preceded (peek (literal kwApply)) (cutErr applyTag)
      else if c == 'c' then commodityDeclaration
      else if c == 'e' then endApplyTag
      else if c == 'i' then includeDirective
      else if isCommentPrefix c then topComment
      else if c.isDigit then Comb.map Entry.txn transaction
      else Comb.fail) (c :: x) := rfl

theorem parseLedgerEntry_comment {c : Char} (hc : isCommentPrefix c = true) (x : List Char) :
    parseLedgerEntry (c :: x) = topComment (c :: x) := by
  rw [parseLedgerEntry_cons]
  simp only [isCommentPrefix, Bool.or_eq_true, beq_iff_eq] at hc
  rcases hc with (((rfl | rfl) | rfl) | rfl) | rfl <;> rfl

/-- every arm but the comment one, without `NoCm` -/
theorem loc_entryArm_nc (c : Char) (hc : isCommentPrefix c = false) :
    Loc C .mid .bol
      (if c == 'a' then
        preceded (peek (literal kwAccount)) (cutErr accountDeclaration)
        <|| preceded (peek (literal kwApply)) (cutErr applyTag)
      else if c == 'c' then commodityDeclaration
      else if c == 'e' then endApplyTag
      else if c == 'i' then includeDirective
      else if isCommentPrefix c then topComment
      else if c.isDigit then Comb.map Entry.txn transaction
      else Comb.fail) := by
  simp only [hc, Bool.false_eq_true, if_false]
  loc_tac

/-- **one entry of the first part, read from the longer text**: always the same when it leaves something of the first part;
when it runs to the end of the first part, the same unless it is a comment and the second part goes on with a comment -/
theorem entry_ext {u : List Char} {e : Entry} {r : List Char} (hu : C.Mid u) (h : parseLedgerEntry u = .ok e r) :
    C.At .bol r ∧
      ((r ≠ [] ∨ C.NoCm ∨ ∀ s, e ≠ .comment s) → parseLedgerEntry (u ++ C.t) = .ok e (r ++ C.t)) := by
  cases u with
  | nil => exact absurd rfl hu.ne_nil
  | cons c x =>
    by_cases hc : isCommentPrefix c = true
    · rw [parseLedgerEntry_comment hc] at h
      rw [List.cons_append, parseLedgerEntry_comment hc, ← List.cons_append]
      by_cases hcm : C.NoCm
      · have hl := loc_topComment hcm
        refine ⟨hl.post _ e r hu h, fun _ => ?_⟩
        have := hl.ext _ hu
        rw [h] at this
        exact this
      · have hz0 : C.z = [] := by
          cases hz : C.z with
          | nil => rfl
          | cons d y => exact absurd (Or.inl (by rw [hz]; simp)) hcm
        obtain ⟨p1, p2⟩ := topComment_ext_ne hz0 hu h
        refine ⟨p1, fun hor => ?_⟩
        rcases hor with h' | h' | h'
        · exact p2 h'
        · exact absurd h' hcm
        · obtain ⟨s, hs⟩ := topComment_is_comment h
          exact absurd hs (h' s)
    · have hc' : isCommentPrefix c = false := by simpa using hc
      have hl := loc_entryArm_nc (C := C) c hc'
      rw [parseLedgerEntry_cons] at h
      rw [List.cons_append, parseLedgerEntry_cons, ← List.cons_append]
      refine ⟨hl.post _ e r hu h, fun _ => ?_⟩
      have := hl.ext _ hu
      rw [h] at this
      exact this

end Okane.Parse
