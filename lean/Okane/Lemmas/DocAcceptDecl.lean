import Okane.Lemmas.DocAcceptTxn
/-!
# Acceptance of the documented grammar — the other directives

`top-level-comment`, `account-declaration`, `commodity-declaration`, `apply-tag`, `end-apply-tag`, `include`.

The parser reads consecutive comment lines (and consecutive `note` lines of a declaration) as ONE item
(`directive::multiline_text` is a `repeat(1..)`), so one run of the parser may cover several items of the derivation:
`run_star` is the bookkeeping for that (the parser ends at a position from which the rest of the derivation continues).
-/
set_option linter.unusedSimpArgs false
set_option linter.unusedVariables false
namespace Okane.DocAccept
open Okane Okane.Spec.Doc Okane.Comb Okane.Literal
open Okane.Unparse (StartsEntry)

local notation "𝔸" => Dialect.accepted

/-! ## greedy line parsers over a starred derivation -/

/-- `repeat0Loop elem` over `D*`, where `elem` accepts exactly one `D` or backtracks on it: the loop ends somewhere inside
the derivation, and the rest of the derivation continues from there -/
theorem run_star {α : Type} {elem : Parser α} {D : G}
    (hcls : ∀ i m, D i m → (∃ a, elem i = .ok a m ∧ m.length < i.length) ∨ ∃ z, elem i = .bt z)
    {i r : List Char} (h : G.star D i r) (hstop : ∃ z, elem r = .bt z) :
    ∀ (n : Nat) (acc : List α), i.length < n →
      ∃ acc' m, repeat0Loop elem n i acc = .ok acc' m ∧ G.star D m r ∧ m.length ≤ i.length := by
  induction h with
  | nil r =>
    intro n acc hn
    obtain ⟨z, hz⟩ := hstop
    cases n with
    | zero => omega
    | succ n => exact ⟨acc, r, repeat0Loop_stop hz, .nil r, Nat.le_refl _⟩
  | cons hD hs ih =>
    intro n acc hn
    cases n with
    | zero => omega
    | succ n =>
      rcases hcls _ _ hD with ⟨a, ha, hlt⟩ | ⟨z, hz⟩
      · obtain ⟨acc', m, h', hm, hle⟩ := ih hstop n (acc ++ [a]) (by omega)
        exact ⟨acc', m, by rw [repeat0Loop_step ha hlt, h'], hm, by omega⟩
      · exact ⟨acc, _, repeat0Loop_stop hz, .cons hD hs, Nat.le_refl _⟩

/-- `multiline_text(prefix)` started on a `D` it accepts: it ends inside the derivation -/
theorem multiline_run {β : Type} {pfx : Parser β} {D : G}
    (hcls : ∀ i m, D i m →
      (∃ a, (delimited pfx tillLineEnding Parse.lineEndingOrEof) i = .ok a m ∧ m.length < i.length) ∨
      ∃ z, (delimited pfx tillLineEnding Parse.lineEndingOrEof) i = .bt z)
    {i m r : List Char} (a : List Char)
    (hfirst : (delimited pfx tillLineEnding Parse.lineEndingOrEof) i = .ok a m) (hlt : m.length < i.length)
    (h : G.star D m r) (hstop : ∃ z, (delimited pfx tillLineEnding Parse.lineEndingOrEof) r = .bt z) :
    ∃ s m', Parse.multilineText pfx i = .ok s m' ∧ G.star D m' r ∧ m'.length < i.length := by
  obtain ⟨acc', m', h', hm', hle⟩ := run_star hcls h hstop (m.length + 1) [a] (by omega)
  exact ⟨String.ofList (acc'.flatMap fun l => l ++ ['\n']), m',
    by simp only [Parse.multilineText, map_apply, repeat1, hfirst, h', Res.map_ok], hm', by omega⟩

/-! ## lines -/

/-- a line parser of the form `delimited(prefix, till_line_ending, line_ending_or_eof)` whose prefix has been read -/
theorem lineElem_ok {β : Type} {pfx : Parser β} {i i1 s T T' : List Char} {x : β} (hp : pfx i = .ok x i1)
    (hi1 : i1 = s ++ T) (hs : NoNL s) (hT : newLine T T') :
    (delimited pfx tillLineEnding Parse.lineEndingOrEof) i = .ok s T' := by
  simp only [delimited_apply, hp, Res.andThen_ok, hi1, tillLineEnding_newLine hs hT, lineEndingOrEof_newLine hT,
    Res.map_ok]

theorem lineElem_bt {β : Type} {pfx : Parser β} {i z : List Char} (hp : pfx i = .bt z) :
    (delimited pfx tillLineEnding Parse.lineEndingOrEof) i = .bt z := by
  simp only [delimited_apply, hp, Res.andThen_bt]

theorem restOfLine_ok {β : Type} {pfx : Parser β} {i i1 s T T' : List Char} {x : β} (hp : pfx i = .ok x i1)
    (hi1 : i1 = s ++ T) (hs : NoNL s) (hT : newLine T T') :
    Parse.restOfLine pfx i = .ok (String.ofList (Parse.trimEnd s)) T' := by
  simp only [Parse.restOfLine, map_apply, lineElem_ok hp hi1 hs hT, Res.map_ok]

/-- `no-new-line*` then `new-line` -/
theorem restLine_text {i r : List Char} (h : (G.star noNewLine ⬝ newLine) i r) :
    ∃ s T, i = s ++ T ∧ NoNL s ∧ newLine T r := by
  obtain ⟨T, hs, hT⟩ := h
  obtain ⟨s, rfl, hs'⟩ := star_chr hs
  exact ⟨s, T, rfl, hs', hT⟩

/-- a literal keyword followed by `sp+`, followed by something that is not a blank -/
theorem kw_sp {kw : String} {l : List Char} (hl : kw.toList = l) {i i1 r : List Char} (hk : G.lit kw i i1)
    (hsp : G.plus sp i1 r) (hr : Stop Comb.isSpace r) :
    ∃ x, (pair (literal l) space1) i = .ok x r := by
  have := lit_eq l hl hk
  subst this
  obtain ⟨s, hs⟩ := space1_plus_sp hsp hr
  exact ⟨(l, s), by simp only [pair_apply, literal_append, Res.andThen_ok, hs, Res.map_ok]⟩

/-- `sp+` then a literal keyword then `sp+` -/
theorem sp_kw_sp {kw : String} {l : List Char} (hl : kw.toList = l) (hl0 : ∃ c t, l = c :: t ∧ Comb.isSpace c = false)
    {i i1 i2 r : List Char} (hsp1 : G.plus sp i i1) (hk : G.lit kw i1 i2) (hsp2 : G.plus sp i2 r) (hr : Stop Comb.isSpace r) :
    ∃ x, (pair space1 (pair (literal l) space1)) i = .ok x r := by
  obtain ⟨x, hx⟩ := kw_sp hl hk hsp2 hr
  have hst : Stop Comb.isSpace i1 := by
    obtain ⟨c, t, hc, hcs⟩ := hl0
    rw [lit_eq l hl hk, hc]
    simp [hcs]
  obtain ⟨s, hs⟩ := space1_plus_sp hsp1 hst
  refine ⟨(s, x), ?_⟩
  have : pair space1 (pair (literal l) space1) i =
      (space1 i).andThen fun a r => ((pair (literal l) space1) r).map fun b => (a, b) := rfl
  rw [this, hs]
  simp only [Res.andThen_ok, hx, Res.map_ok]

/-! ## the detail lines of a declaration -/

/-- one or more blanks, then the non-blank character `c` -/
def Indented (c : Char) (i : List Char) : Prop :=
  ∃ sps t, i = sps ++ c :: t ∧ sps ≠ [] ∧ (∀ x ∈ sps, Comb.isSpace x = true) ∧ Comb.isSpace c = false

theorem Indented.space1 {c : Char} {i : List Char} (h : Indented c i) : ∃ sps t, space1 i = .ok sps (c :: t) := by
  obtain ⟨sps, t, rfl, hne, hs, hc⟩ := h
  exact ⟨sps, t, space1_append hne hs (by simpa using hc)⟩

theorem indented_kw {kw : String} {c : Char} {l : List Char} (hl : kw.toList = c :: l) (hc : Comb.isSpace c = false)
    {i m : List Char} (h : (G.plus sp ⬝ G.lit kw) i m) : Indented c i := by
  obtain ⟨i1, hsp, hk⟩ := h
  obtain ⟨sps, rfl, hne, hs⟩ := plus_sp hsp
  exact ⟨sps, l ++ m, by rw [lit_eq (c :: l) hl hk]; rfl, hne, hs, hc⟩

/-- `(space1, take_while(1.., comment prefix))` backtracks on an indented line that is not a comment -/
theorem commentPfx_bt {c : Char} {i : List Char} (h : Indented c i) (hc : Parse.isCommentPrefix c = false) :
    ∃ z, (pair space1 (takeWhile1 Parse.isCommentPrefix)) i = .bt z := by
  obtain ⟨sps, t, hs⟩ := h.space1
  exact ⟨c :: t, by simp [pair_apply, hs, takeWhile1, hc]⟩

/-- `(space1, (literal(kw), space1))` backtracks on an indented line that begins with another character -/
theorem kwPfx_bt {c k : Char} {l i : List Char} (h : Indented c i) (hc : c ≠ k) :
    ∃ z, (pair space1 (pair (literal (k :: l)) space1)) i = .bt z := by
  obtain ⟨sps, t, hs⟩ := h.space1
  refine ⟨c :: t, ?_⟩
  have : literal (k :: l) (c :: t) = .bt (c :: t) := by simp [literal, Ne.symm hc]
  have e : pair space1 (pair (literal (k :: l)) space1) i =
      (space1 i).andThen fun a r => ((pair (literal (k :: l)) space1) r).map fun b => (a, b) := rfl
  rw [e, hs]
  simp only [Res.andThen_ok, pair_apply, this, Res.andThen_bt, Res.map_bt]

/-- after the details of a declaration: every detail parser backtracks -/
theorem DirFollow.pfx_bt {β : Type} {p : Parser β} {r : List Char} (h : DirFollow r)
    (hp : ∀ x, (x = [] ∨ (∃ t, x = '\n' :: t) ∨ ∃ t, x = '\r' :: '\n' :: t) → ∃ z, p x = .bt z) :
    ∃ z, (pair space1 p) r = .bt z := by
  rcases h with ⟨s, x, rfl, hs, hx⟩ | ⟨c, t, rfl, _, _, h3, h4⟩
  · have hstx : Stop Comb.isSpace x := by rcases hx with rfl | ⟨t, rfl⟩ | ⟨t, rfl⟩ <;> simp [Comb.isSpace]
    by_cases hne : s = []
    · subst hne
      exact ⟨x, by simp [pair_apply, space1, takeWhile1_stop hstx]⟩
    · obtain ⟨z, hz⟩ := hp x hx
      exact ⟨z, by simp only [pair_apply, space1_append hne hs hstx, Res.andThen_ok, hz, Res.map_bt]⟩
  · exact ⟨c :: t, by
      have : space1 (c :: t) = .bt (c :: t) := takeWhile1_stop (by simp [Comb.isSpace, h3, h4])
      simp [pair_apply, this]⟩

theorem lineStart_cases {x : List Char} (hx : x = [] ∨ (∃ t, x = '\n' :: t) ∨ ∃ t, x = '\r' :: '\n' :: t) :
    x = [] ∨ ∃ c t, x = c :: t ∧ (c = '\n' ∨ c = '\r') := by
  rcases hx with rfl | ⟨t, rfl⟩ | ⟨t, rfl⟩
  · exact Or.inl rfl
  · exact Or.inr ⟨_, _, rfl, Or.inl rfl⟩
  · exact Or.inr ⟨_, _, rfl, Or.inr rfl⟩

theorem DirFollow.commentPfx_bt {r : List Char} (h : DirFollow r) :
    ∃ z, (pair space1 (takeWhile1 Parse.isCommentPrefix)) r = .bt z :=
  h.pfx_bt (by
    intro x hx
    rcases lineStart_cases hx with rfl | ⟨c, t, rfl, hc⟩
    · exact ⟨[], rfl⟩
    · exact ⟨c :: t, by rcases hc with rfl | rfl <;> simp [takeWhile1, Parse.isCommentPrefix]⟩)

theorem DirFollow.kwPfx_bt {r : List Char} (h : DirFollow r) (k : Char) (l : List Char) (hk : k ≠ '\n' ∧ k ≠ '\r') :
    ∃ z, (pair space1 (pair (literal (k :: l)) space1)) r = .bt z :=
  h.pfx_bt (by
    intro x hx
    rcases lineStart_cases hx with rfl | ⟨c, t, rfl, hc⟩
    · exact ⟨[], by simp [pair_apply, literal]⟩
    · have : c ≠ k := by rcases hc with rfl | rfl; exact Ne.symm hk.1; exact Ne.symm hk.2
      exact ⟨c :: t, by simp [pair_apply, literal, Ne.symm this]⟩)

/-- the comment line of a declaration -/
abbrev commentLine : G := G.plus sp ⬝ commentPrefix ⬝ G.star noNewLine ⬝ newLine
/-- the note line of a declaration -/
abbrev noteLine : G := G.plus sp ⬝ G.lit "note" ⬝ G.plus sp ⬝ G.star noNewLine ⬝ newLine

abbrev commentElem : Parser (List Char) :=
  delimited (pair space1 (takeWhile1 Parse.isCommentPrefix)) tillLineEnding Parse.lineEndingOrEof
abbrev noteElem : Parser (List Char) :=
  delimited (pair space1 (pair (literal Parse.kwNote) space1)) tillLineEnding Parse.lineEndingOrEof

theorem commentLine_indented {i m : List Char} (h : commentLine i m) :
    ∃ c, Parse.isCommentPrefix c = true ∧ Indented c i := by
  obtain ⟨i1, hsp, i2, ⟨c, rfl, hc⟩, _⟩ := h
  obtain ⟨sps, rfl, hne, hs⟩ := plus_sp hsp
  refine ⟨c, hc, sps, i2, rfl, hne, hs, ?_⟩
  simp only [Spec.Doc.isCommentPrefix, Bool.or_eq_true, beq_iff_eq] at hc
  rcases hc with (((rfl | rfl) | rfl) | rfl) | rfl <;> decide

theorem noteLine_indented {i m : List Char} (h : noteLine i m) : Indented 'n' i := by
  obtain ⟨i1, hsp, i2, hk, _⟩ := h
  exact indented_kw (kw := "note") (l := ['o', 't', 'e']) rfl (by decide) ⟨i1, hsp, hk⟩

/-- the line parser of `detail_comment` on a documented comment line -/
theorem commentElem_accept {i m : List Char} (h : commentLine i m) :
    ∃ a, commentElem i = .ok a m ∧ m.length < i.length := by
  obtain ⟨i1, hsp, i2, ⟨c, rfl, hc⟩, hrest⟩ := h
  obtain ⟨s, T, rfl, hs, hT⟩ := restLine_text hrest
  obtain ⟨sps, rfl, hne, hsps⟩ := plus_sp hsp
  have hcs : Comb.isSpace c = false := by
    simp only [Spec.Doc.isCommentPrefix, Bool.or_eq_true, beq_iff_eq] at hc
    rcases hc with (((rfl | rfl) | rfl) | rfl) | rfl <;> decide
  have h1 : space1 (sps ++ c :: (s ++ T)) = .ok sps (c :: (s ++ T)) := space1_append hne hsps (by simpa using hcs)
  -- the prefix run may extend into the text
  let q := Parse.isCommentPrefix
  have hTstop : Stop q T := lineEnd_stop (by
    intro d hd
    simp only [isEol, Bool.or_eq_true, beq_iff_eq] at hd
    rcases hd with rfl | rfl <;> decide) (lineEnd_of_newLine hT)
  have h2 : takeWhile1 q (c :: (s ++ T)) = .ok ((c :: s).takeWhile q) ((c :: s).dropWhile q ++ T) := by
    have e1 := takeWhile_append_lineEnd (s := c :: s) hTstop
    have e2 := dropWhile_append_lineEnd (s := c :: s) hTstop
    simp only [List.cons_append] at e1 e2
    simp only [takeWhile1, show q c = true from hc, if_true, e1, e2]
  have hcs' : NoNL (c :: s) := by
    intro d hd
    rcases List.mem_cons.mp hd with rfl | hd
    · simp only [Spec.Doc.isCommentPrefix, Bool.or_eq_true, beq_iff_eq] at hc
      rcases hc with (((rfl | rfl) | rfl) | rfl) | rfl <;> decide
    · exact hs d hd
  have hpfx : (pair space1 (takeWhile1 Parse.isCommentPrefix)) (sps ++ c :: (s ++ T)) =
      .ok (sps, (c :: s).takeWhile q) ((c :: s).dropWhile q ++ T) := by
    simp only [pair_apply, h1, Res.andThen_ok]
    rw [show takeWhile1 Parse.isCommentPrefix (c :: (s ++ T)) = takeWhile1 q (c :: (s ++ T)) from rfl, h2]
    rfl
  have hres := lineElem_ok hpfx rfl (NoNL.of_suffix (List.dropWhile_suffix q) hcs') hT
  refine ⟨_, hres, ?_⟩
  have := newLine_length hT
  have : 0 < sps.length := List.length_pos_iff.mpr hne
  simp; omega

/-- the line parser of `detail_note` on a documented note line -/
theorem noteElem_accept {i m : List Char} (h : noteLine i m) : ∃ a, noteElem i = .ok a m ∧ m.length < i.length := by
  obtain ⟨i1, hsp1, i2, hk, i3, hsp2, hrest⟩ := h
  obtain ⟨s, T, rfl, hs, hT⟩ := restLine_text hrest
  -- `space1` after the keyword takes the leading blanks of the text too
  obtain ⟨sps2, rfl, hne2, hsps2⟩ := plus_sp hsp2
  have hTstop := lineEnd_stop_space (lineEnd_of_newLine hT)
  have hdrop : (sps2 ++ (s ++ T)).dropWhile Comb.isSpace = s.dropWhile Comb.isSpace ++ T := by
    rw [List.dropWhile_append_of_pos hsps2]
    exact dropWhile_append_lineEnd hTstop
  have hsp2' : space1 (sps2 ++ (s ++ T)) = .ok ((sps2 ++ (s ++ T)).takeWhile Comb.isSpace) (s.dropWhile Comb.isSpace ++ T) := by
    cases sps2 with
    | nil => exact absurd rfl hne2
    | cons b t =>
      have hb := hsps2 b (by simp)
      simp only [space1, takeWhile1, List.cons_append, hb, if_true]
      rw [← hdrop]
      rfl
  have hk' := lit_eq ['n', 'o', 't', 'e'] rfl hk
  subst hk'
  obtain ⟨sps1, rfl, hne1, hsps1⟩ := plus_sp hsp1
  have h1 : space1 (sps1 ++ (['n', 'o', 't', 'e'] ++ (sps2 ++ (s ++ T)))) =
      .ok sps1 (['n', 'o', 't', 'e'] ++ (sps2 ++ (s ++ T))) := space1_append hne1 hsps1 (by simp [Comb.isSpace])
  have hpfx : (pair space1 (pair (literal Parse.kwNote) space1)) (sps1 ++ (['n', 'o', 't', 'e'] ++ (sps2 ++ (s ++ T)))) =
      .ok (sps1, (Parse.kwNote, (sps2 ++ (s ++ T)).takeWhile Comb.isSpace)) (s.dropWhile Comb.isSpace ++ T) := by
    have e : pair space1 (pair (literal Parse.kwNote) space1) (sps1 ++ (['n', 'o', 't', 'e'] ++ (sps2 ++ (s ++ T)))) =
        (space1 (sps1 ++ (['n', 'o', 't', 'e'] ++ (sps2 ++ (s ++ T))))).andThen fun a r =>
          ((pair (literal Parse.kwNote) space1) r).map fun b => (a, b) := rfl
    rw [e, h1]
    simp only [Res.andThen_ok, pair_apply, Parse.kwNote, literal_append, hsp2', Res.map_ok]
  have hres := lineElem_ok hpfx rfl (NoNL.of_suffix (List.dropWhile_suffix _) hs) hT
  refine ⟨_, hres, ?_⟩
  have := newLine_length hT
  have : 0 < sps1.length := List.length_pos_iff.mpr hne1
  simp; omega

theorem oneLine_account : OneLine account :=
  oneLine_seq oneLine_noSp (oneLine_star (oneLine_alt oneLine_noSp (oneLine_seq (oneLine_lit _ (by decide)) oneLine_noSp)))

theorem oneLine_commodity : OneLine commodity := oneLine_plus (oneLine_chr (by
  intro c hc
  rw [isCommodityChar_eq] at hc
  cases hn : isNoNewLine c with
  | true => rfl
  | false =>
    simp only [isNoNewLine, Bool.not_eq_false', Bool.or_eq_true, beq_iff_eq] at hn
    rcases hn with rfl | rfl <;> exact absurd hc (by decide)))

theorem commodity_head_stop {i r : List Char} (h : commodity i r) : Stop Comb.isSpace i := by
  obtain ⟨s, rfl, hne, hs⟩ := plus_chr h
  cases s with
  | nil => exact absurd rfl hne
  | cons c t =>
    have := hs c (by simp)
    rw [isCommodityChar_eq] at this
    have : Comb.isSpace c = false := ExprParse.commodityChar_not_space this
    simpa using this

theorem account_head_stop {i r : List Char} (h : account i r) : Stop Comb.isSpace i := by
  obtain ⟨c, t, rfl, hc⟩ := account_head h
  obtain ⟨h1, h2, _, _⟩ := (isNoSp_iff c).mp hc
  simp [Comb.isSpace, h1, h2]

/-- the alias line of a declaration (`X` = `account` or `commodity`) -/
abbrev aliasLine (X : G) : G := G.plus sp ⬝ G.lit "alias" ⬝ G.plus sp ⬝ X ⬝ newLine

theorem aliasLine_indented {X : G} {i m : List Char} (h : aliasLine X i m) : Indented 'a' i := by
  obtain ⟨i1, hsp, i2, hk, _⟩ := h
  exact indented_kw (kw := "alias") (l := ['l', 'i', 'a', 's']) rfl (by decide) ⟨i1, hsp, hk⟩

theorem aliasLine_accept {X : G} (hX : OneLine X) (hhead : ∀ i r, X i r → Stop Comb.isSpace i) {i m : List Char}
    (h : aliasLine X i m) : ∃ a, Parse.detailAlias i = .ok a m ∧ m.length < i.length := by
  obtain ⟨i1, hsp1, i2, hk, i3, hsp2, T, hx, hT⟩ := h
  obtain ⟨x, hx'⟩ := sp_kw_sp (kw := "alias") (l := Parse.kwAlias) rfl ⟨'a', _, rfl, by decide⟩ hsp1 hk hsp2 (hhead _ _ hx)
  obtain ⟨s, rfl, hs⟩ := hX _ _ hx
  have hres := restOfLine_ok hx' rfl hs hT
  refine ⟨_, hres, ?_⟩
  have := Safe.length Parse.safe_detailAlias hres
  omega

/-- the format line of a commodity declaration -/
abbrev formatLine : G := G.plus sp ⬝ G.lit "format" ⬝ G.plus sp ⬝ amountExpr 𝔸 ⬝ newLine

def formatElem : Parser (PDec × String) :=
  delimited (pair space1 (pair (literal Parse.kwFormat) space1)) Parse.amount Parse.lineEndingOrEof

theorem formatLine_indented {i m : List Char} (h : formatLine i m) : Indented 'f' i := by
  obtain ⟨i1, hsp, i2, hk, _⟩ := h
  exact indented_kw (kw := "format") (l := ['o', 'r', 'm', 'a', 't']) rfl (by decide) ⟨i1, hsp, hk⟩

theorem parse_amount_eq (i : List Char) : Parse.amount i =
    match ExprSyntax.amount i with
    | .ok (.amt d c) r => .ok (d, c) r
    | .ok (.paren _) r => .ok default r
    | .fail p => .bt p
    | .fuelOut => .fuel := by
  simp only [Parse.amount, ExprSyntax.amount]
  cases ExprSyntax.prettyDecimal i <;> rfl

theorem formatLine_accept {i m : List Char} (h : formatLine i m) : ∃ a, formatElem i = .ok a m ∧ m.length < i.length := by
  obtain ⟨i1, hsp1, i2, hk, i3, hsp2, T, ha, hT⟩ := h
  have hhead : Stop Comb.isSpace i3 := head_stop (by
    obtain ⟨c, t, e, hc⟩ := amountExpr_head ha
    exact ⟨c, t, e, Or.inr hc⟩)
  obtain ⟨x, hx'⟩ := sp_kw_sp (kw := "format") (l := Parse.kwFormat) rfl ⟨'f', _, rfl, by decide⟩ hsp1 hk hsp2 hhead
  have hTamt : AmtEnd T := by
    rcases newLine_cases hT with rfl | rfl | ⟨rfl, rfl⟩
    · exact Or.inr ⟨_, _, rfl, by simp⟩
    · exact Or.inr ⟨_, _, rfl, by simp⟩
    · exact Or.inl rfl
  have hf : ExprParse.ExprFollow T = true := exprFollow_of_skip (by rw [hTamt.skip]; exact hTamt.punct)
  obtain ⟨r', haft, v, hv⟩ := amount_acc ha hf
  have hr' : r' = T := by rcases haft with rfl | rfl; rfl; exact hTamt.skip
  subst hr'
  have hamt : ∃ dc, Parse.amount i3 = .ok dc r' := by
    rw [parse_amount_eq, hv]
    cases v <;> exact ⟨_, rfl⟩
  obtain ⟨dc, hdc⟩ := hamt
  have hres : formatElem i = .ok dc m := by
    simp only [formatElem, delimited_apply, hx', Res.andThen_ok, hdc, lineEndingOrEof_newLine hT, Res.map_ok]
  refine ⟨dc, hres, ?_⟩
  have hsafe : Safe 1 formatElem := by unfold formatElem; safe_tac
  have := Safe.length hsafe hres
  omega

/-! ## the loop over the details of a declaration -/

/-- a `repeat(0..)` whose element covers one or more items of `D*` at a time -/
theorem greedy_star {α : Type} {elem : Parser α} {D : G}
    (hstep : ∀ i m r, D i m → G.star D m r → DirFollow r →
      ∃ a m', elem i = .ok a m' ∧ G.star D m' r ∧ m'.length < i.length)
    (hstop : ∀ r, DirFollow r → ∃ z, elem r = .bt z) {i r : List Char} (h : G.star D i r) (hr : DirFollow r) :
    ∃ acc, repeat0 elem i = .ok acc r := by
  have key : ∀ (k : Nat) (i : List Char), i.length ≤ k → G.star D i r → ∀ (n : Nat) (acc : List α), i.length < n →
      ∃ acc', repeat0Loop elem n i acc = .ok acc' r := by
    intro k
    induction k with
    | zero =>
      intro i hk hs n acc hn
      cases n with
      | zero => omega
      | succ n =>
        cases hs with
        | nil _ =>
          obtain ⟨z, hz⟩ := hstop r hr
          exact ⟨acc, repeat0Loop_stop hz⟩
        | cons hD hrest =>
          obtain ⟨a, m', _, _, hlt⟩ := hstep _ _ _ hD hrest hr
          omega
    | succ k ih =>
      intro i hk hs n acc hn
      cases n with
      | zero => omega
      | succ n =>
        cases hs with
        | nil _ =>
          obtain ⟨z, hz⟩ := hstop r hr
          exact ⟨acc, repeat0Loop_stop hz⟩
        | cons hD hrest =>
          obtain ⟨a, m', ha, hm', hlt⟩ := hstep _ _ _ hD hrest hr
          obtain ⟨acc', h'⟩ := ih m' (by omega) hm' n (acc ++ [a]) (by omega)
          exact ⟨acc', by rw [repeat0Loop_step ha hlt, h']⟩
  exact key i.length i (Nat.le_refl _) h (i.length + 1) [] (by omega)

theorem multilineText_bt {β : Type} {pfx : Parser β} {i z : List Char} (h : pfx i = .bt z) :
    Parse.multilineText pfx i = .bt z := by
  simp only [Parse.multilineText, map_apply, repeat1, lineElem_bt h, Res.map_bt]

theorem not_prefix_of_letter : Parse.isCommentPrefix 'n' = false ∧ Parse.isCommentPrefix 'a' = false ∧
    Parse.isCommentPrefix 'f' = false := by decide

theorem prefix_ne {c : Char} (h : Parse.isCommentPrefix c = true) : c ≠ 'n' ∧ c ≠ 'a' ∧ c ≠ 'f' := by
  refine ⟨?_, ?_, ?_⟩ <;> (intro e; subst e; revert h; decide)

/-- how the two multi-line detail parsers see a line: they accept exactly their own kind -/
structure LineKinds (D : G) : Prop where
  cases : ∀ i m, D i m → noteLine i m ∨ commentLine i m ∨ (Indented 'a' i ∨ Indented 'f' i)

theorem LineKinds.comment_cls {D : G} (hD : LineKinds D) :
    ∀ i m, D i m → (∃ a, commentElem i = .ok a m ∧ m.length < i.length) ∨ ∃ z, commentElem i = .bt z := by
  intro i m h
  rcases hD.cases i m h with hn | hc | ha | hf
  · obtain ⟨z, hz⟩ := commentPfx_bt (noteLine_indented hn) not_prefix_of_letter.1
    exact Or.inr ⟨z, lineElem_bt hz⟩
  · exact Or.inl (commentElem_accept hc)
  · obtain ⟨z, hz⟩ := commentPfx_bt ha not_prefix_of_letter.2.1
    exact Or.inr ⟨z, lineElem_bt hz⟩
  · obtain ⟨z, hz⟩ := commentPfx_bt hf not_prefix_of_letter.2.2
    exact Or.inr ⟨z, lineElem_bt hz⟩

theorem LineKinds.note_cls {D : G} (hD : LineKinds D) :
    ∀ i m, D i m → (∃ a, noteElem i = .ok a m ∧ m.length < i.length) ∨ ∃ z, noteElem i = .bt z := by
  intro i m h
  rcases hD.cases i m h with hn | hc | ha | hf
  · exact Or.inl (noteElem_accept hn)
  · obtain ⟨c, hc1, hc2⟩ := commentLine_indented hc
    obtain ⟨z, hz⟩ := kwPfx_bt (k := 'n') (l := ['o', 't', 'e']) hc2 (prefix_ne hc1).1
    exact Or.inr ⟨z, lineElem_bt hz⟩
  · obtain ⟨z, hz⟩ := kwPfx_bt (k := 'n') (l := ['o', 't', 'e']) ha (by decide)
    exact Or.inr ⟨z, lineElem_bt hz⟩
  · obtain ⟨z, hz⟩ := kwPfx_bt (k := 'n') (l := ['o', 't', 'e']) hf (by decide)
    exact Or.inr ⟨z, lineElem_bt hz⟩

/-- `detail_comment` started on a comment line of the details `D*` -/
theorem detailComment_run {D : G} (hD : LineKinds D) {i m r : List Char} (h : commentLine i m) (hs : G.star D m r)
    (hr : DirFollow r) : ∃ s m', Parse.detailComment i = .ok s m' ∧ G.star D m' r ∧ m'.length < i.length := by
  obtain ⟨a, ha, hlt⟩ := commentElem_accept h
  obtain ⟨z, hz⟩ := hr.commentPfx_bt
  exact multiline_run hD.comment_cls a ha hlt hs ⟨z, lineElem_bt hz⟩

/-- `detail_note` started on a note line -/
theorem detailNote_run {D : G} (hD : LineKinds D) {i m r : List Char} (h : noteLine i m) (hs : G.star D m r)
    (hr : DirFollow r) : ∃ s m', Parse.detailNote i = .ok s m' ∧ G.star D m' r ∧ m'.length < i.length := by
  obtain ⟨a, ha, hlt⟩ := noteElem_accept h
  obtain ⟨z, hz⟩ := hr.kwPfx_bt 'n' ['o', 't', 'e'] (by decide)
  exact multiline_run hD.note_cls a ha hlt hs ⟨z, lineElem_bt hz⟩

theorem detailComment_bt {c : Char} {i : List Char} (h : Indented c i) (hc : Parse.isCommentPrefix c = false) :
    ∃ z, Parse.detailComment i = .bt z := by
  obtain ⟨z, hz⟩ := commentPfx_bt h hc
  exact ⟨z, multilineText_bt hz⟩

theorem detailNote_bt {c : Char} {i : List Char} (h : Indented c i) (hc : c ≠ 'n') : ∃ z, Parse.detailNote i = .bt z := by
  obtain ⟨z, hz⟩ := kwPfx_bt (k := 'n') (l := ['o', 't', 'e']) h hc
  exact ⟨z, multilineText_bt hz⟩

theorem detailAlias_bt {c : Char} {i : List Char} (h : Indented c i) (hc : c ≠ 'a') : ∃ z, Parse.detailAlias i = .bt z := by
  obtain ⟨z, hz⟩ := kwPfx_bt (k := 'a') (l := ['l', 'i', 'a', 's']) h hc
  exact ⟨z, by simp only [Parse.detailAlias, Parse.restOfLine, map_apply, Parse.kwAlias, lineElem_bt hz, Res.map_bt]⟩

/-! ## `account-declaration` -/

theorem lineKinds_account : LineKinds accountDetail := ⟨by
  intro i m h
  rcases h with h | h | h
  · exact Or.inl h
  · exact Or.inr (Or.inr (Or.inl (aliasLine_indented (X := account) h)))
  · exact Or.inr (Or.inl h)⟩

abbrev accountDetailParser : Parser AccountDetail :=
  map AccountDetail.comment Parse.detailComment <|| map AccountDetail.note Parse.detailNote
    <|| map AccountDetail.alias Parse.detailAlias

theorem accountDetail_step (i m r : List Char) (h : accountDetail i m) (hs : G.star accountDetail m r) (hr : DirFollow r) :
    ∃ a m', accountDetailParser i = .ok a m' ∧ G.star accountDetail m' r ∧ m'.length < i.length := by
  rcases h with h | h | h
  · -- note
    obtain ⟨z, hz⟩ := detailComment_bt (noteLine_indented h) not_prefix_of_letter.1
    obtain ⟨s, m', hs', hm', hlt⟩ := detailNote_run lineKinds_account h hs hr
    exact ⟨.note s, m', by
      rw [accountDetailParser, alt2_bt (z := z) (by simp [hz])]
      exact alt2_ok (by simp [hs']), hm', hlt⟩
  · -- alias
    have hind := aliasLine_indented (X := account) h
    obtain ⟨z, hz⟩ := detailComment_bt hind not_prefix_of_letter.2.1
    obtain ⟨z2, hz2⟩ := detailNote_bt hind (by decide)
    obtain ⟨a, ha, hlt⟩ := aliasLine_accept oneLine_account (fun _ _ h => account_head_stop h) h
    exact ⟨.alias a, m, by
      rw [accountDetailParser, alt2_bt (z := z) (by simp [hz]), alt2_bt (z := z2) (by simp [hz2])]
      simp [ha], hs, hlt⟩
  · -- comment
    obtain ⟨s, m', hs', hm', hlt⟩ := detailComment_run lineKinds_account h hs hr
    exact ⟨.comment s, m', alt2_ok (by simp [hs']), hm', hlt⟩

theorem accountDetail_stop (r : List Char) (hr : DirFollow r) : ∃ z, accountDetailParser r = .bt z := by
  obtain ⟨z1, h1⟩ := hr.commentPfx_bt
  obtain ⟨z2, h2⟩ := hr.kwPfx_bt 'n' ['o', 't', 'e'] (by decide)
  obtain ⟨z3, h3⟩ := hr.kwPfx_bt 'a' ['l', 'i', 'a', 's'] (by decide)
  refine ⟨z3, ?_⟩
  rw [accountDetailParser, alt2_bt (z := z1) (by simp [multilineText_bt h1, Parse.detailComment]),
    alt2_bt (z := z2) (by simp [multilineText_bt h2, Parse.detailNote, Parse.kwNote])]
  simp only [map_apply, Parse.detailAlias, Parse.restOfLine, Parse.kwAlias, lineElem_bt h3, Res.map_bt]

/-- **`directive::account_declaration` accepts a documented `account-declaration`** -/
theorem accountDeclaration_accept {i r : List Char} (h : accountDeclaration i r) (hr : DirFollow r) :
    ∃ e, Parse.accountDeclaration i = .ok e r := by
  obtain ⟨i1, hk, i2, hsp, i3, hacc, i4, hsp2, i5, hT, hdetails⟩ := h
  obtain ⟨x, hx⟩ := kw_sp (kw := "account") (l := Parse.kwAccount) rfl hk hsp (account_head_stop hacc)
  obtain ⟨s1, rfl, hs1⟩ := oneLine_account _ _ hacc
  obtain ⟨s2, rfl, hs2⟩ := oneLine_star oneLine_sp _ _ hsp2
  have hname := restOfLine_ok hx (s := s1 ++ s2) (by simp) (hs1.append hs2) hT
  obtain ⟨details, hd⟩ := greedy_star (elem := accountDetailParser) accountDetail_step accountDetail_stop hdetails hr
  exact ⟨Entry.account (String.ofList (Parse.trimEnd (s1 ++ s2))) details,
    by simp only [Parse.accountDeclaration, bind_apply, hname, Res.andThen_ok, hd, pure_apply]⟩

/-! ## `commodity-declaration` -/

theorem lineKinds_commodity : LineKinds (commodityDetail 𝔸) := ⟨by
  intro i m h
  rcases h with h | h | h | h
  · exact Or.inl h
  · exact Or.inr (Or.inr (Or.inl (aliasLine_indented (X := commodity) h)))
  · exact Or.inr (Or.inr (Or.inr (formatLine_indented h)))
  · exact Or.inr (Or.inl h)⟩

abbrev commodityDetailParser : Parser CommodityDetail :=
  map CommodityDetail.comment Parse.detailComment <|| map CommodityDetail.note Parse.detailNote
    <|| map CommodityDetail.alias Parse.detailAlias
    <|| map (fun (d, c) => CommodityDetail.format d c) formatElem

theorem commodityDetail_step (i m r : List Char) (h : commodityDetail 𝔸 i m) (hs : G.star (commodityDetail 𝔸) m r)
    (hr : DirFollow r) :
    ∃ a m', commodityDetailParser i = .ok a m' ∧ G.star (commodityDetail 𝔸) m' r ∧ m'.length < i.length := by
  rcases h with h | h | h | h
  · obtain ⟨z, hz⟩ := detailComment_bt (noteLine_indented h) not_prefix_of_letter.1
    obtain ⟨s, m', hs', hm', hlt⟩ := detailNote_run lineKinds_commodity h hs hr
    exact ⟨.note s, m', by
      rw [commodityDetailParser, alt2_bt (z := z) (by simp [hz])]
      exact alt2_ok (by simp [hs']), hm', hlt⟩
  · have hind := aliasLine_indented (X := commodity) h
    obtain ⟨z, hz⟩ := detailComment_bt hind not_prefix_of_letter.2.1
    obtain ⟨z2, hz2⟩ := detailNote_bt hind (by decide)
    obtain ⟨a, ha, hlt⟩ := aliasLine_accept oneLine_commodity (fun _ _ h => commodity_head_stop h) h
    exact ⟨.alias a, m, by
      rw [commodityDetailParser, alt2_bt (z := z) (by simp [hz]), alt2_bt (z := z2) (by simp [hz2])]
      exact alt2_ok (by simp [ha]), hs, hlt⟩
  · have hind := formatLine_indented h
    obtain ⟨z, hz⟩ := detailComment_bt hind not_prefix_of_letter.2.2
    obtain ⟨z2, hz2⟩ := detailNote_bt hind (by decide)
    obtain ⟨z3, hz3⟩ := detailAlias_bt hind (by decide)
    obtain ⟨dc, hdc, hlt⟩ := formatLine_accept h
    exact ⟨.format dc.1 dc.2, m, by
      rw [commodityDetailParser, alt2_bt (z := z) (by simp [hz]), alt2_bt (z := z2) (by simp [hz2]),
        alt2_bt (z := z3) (by simp [hz3])]
      simp only [map_apply, hdc, Res.map_ok], hs, hlt⟩
  · obtain ⟨s, m', hs', hm', hlt⟩ := detailComment_run lineKinds_commodity h hs hr
    exact ⟨.comment s, m', alt2_ok (by simp [hs']), hm', hlt⟩

theorem commodityDetail_stop (r : List Char) (hr : DirFollow r) : ∃ z, commodityDetailParser r = .bt z := by
  obtain ⟨z1, h1⟩ := hr.commentPfx_bt
  obtain ⟨z2, h2⟩ := hr.kwPfx_bt 'n' ['o', 't', 'e'] (by decide)
  obtain ⟨z3, h3⟩ := hr.kwPfx_bt 'a' ['l', 'i', 'a', 's'] (by decide)
  obtain ⟨z4, h4⟩ := hr.kwPfx_bt 'f' ['o', 'r', 'm', 'a', 't'] (by decide)
  refine ⟨z4, ?_⟩
  rw [commodityDetailParser, alt2_bt (z := z1) (by simp [multilineText_bt h1, Parse.detailComment]),
    alt2_bt (z := z2) (by simp [multilineText_bt h2, Parse.detailNote, Parse.kwNote]),
    alt2_bt (z := z3) (by
      simp only [map_apply, Parse.detailAlias, Parse.restOfLine, Parse.kwAlias, lineElem_bt h3, Res.map_bt])]
  simp only [map_apply, formatElem, delimited_apply, Parse.kwFormat, h4, Res.andThen_bt, Res.map_bt]

/-- **`directive::commodity_declaration` accepts a documented `commodity-declaration`** -/
theorem commodityDeclaration_accept {i r : List Char} (h : commodityDeclaration 𝔸 i r) (hr : DirFollow r) :
    ∃ e, Parse.commodityDeclaration i = .ok e r := by
  obtain ⟨i1, hk, i2, hsp, i3, hcom, i4, hsp2, i5, hT, hdetails⟩ := h
  obtain ⟨x, hx⟩ := kw_sp (kw := "commodity") (l := Parse.kwCommodity) rfl hk hsp (commodity_head_stop hcom)
  obtain ⟨s1, rfl, hs1⟩ := oneLine_commodity _ _ hcom
  obtain ⟨s2, rfl, hs2⟩ := oneLine_star oneLine_sp _ _ hsp2
  have hname := restOfLine_ok hx (s := s1 ++ s2) (by simp) (hs1.append hs2) hT
  obtain ⟨details, hd⟩ := greedy_star (elem := commodityDetailParser) commodityDetail_step commodityDetail_stop hdetails hr
  refine ⟨Entry.commodity (String.ofList (Parse.trimEnd (s1 ++ s2))) details, ?_⟩
  have e : Parse.commodityDeclaration =
      (Parse.restOfLine (pair (literal Parse.kwCommodity) space1) >>- fun name =>
        repeat0 commodityDetailParser >>- fun details => pure (Entry.commodity name details)) := rfl
  rw [e]
  simp only [bind_apply, hname, Res.andThen_ok, hd, pure_apply]

/-! ## `include` -/

/-- `space1` before a text on a line: it also takes the leading blanks of the text -/
theorem space1_text {sps s T : List Char} (hne : sps ≠ []) (hsps : ∀ c ∈ sps, Comb.isSpace c = true) (hT : LineEnd T) :
    space1 (sps ++ (s ++ T)) = .ok ((sps ++ (s ++ T)).takeWhile Comb.isSpace) (s.dropWhile Comb.isSpace ++ T) := by
  have hdrop : (sps ++ (s ++ T)).dropWhile Comb.isSpace = s.dropWhile Comb.isSpace ++ T := by
    rw [List.dropWhile_append_of_pos hsps]
    exact dropWhile_append_lineEnd (lineEnd_stop_space hT)
  cases sps with
  | nil => exact absurd rfl hne
  | cons b t =>
    have hb := hsps b (by simp)
    simp only [space1, takeWhile1, List.cons_append, hb, if_true]
    rw [← hdrop]
    rfl

/-- **`directive::include` accepts a documented `include`** -/
theorem include_accept {i r : List Char} (h : includeDirective i r) : ∃ e, Parse.includeDirective i = .ok e r := by
  obtain ⟨i1, hk, i2, hsp, T, hpath, hT⟩ := h
  have hk' := lit_eq Parse.kwInclude rfl hk
  subst hk'
  obtain ⟨sps, rfl, hne, hsps⟩ := plus_sp hsp
  obtain ⟨s, rfl, _, hs⟩ := plus_chr hpath
  have hsp1 := space1_text (s := s) hne hsps (lineEnd_of_newLine hT)
  have hpfx : (pair (literal Parse.kwInclude) space1) (Parse.kwInclude ++ (sps ++ (s ++ T))) =
      .ok (Parse.kwInclude, (sps ++ (s ++ T)).takeWhile Comb.isSpace) (s.dropWhile Comb.isSpace ++ T) := by
    simp only [pair_apply, literal_append, Res.andThen_ok, hsp1, Res.map_ok]
  have := restOfLine_ok hpfx rfl (NoNL.of_suffix (List.dropWhile_suffix _) hs) hT
  exact ⟨Entry.include (String.ofList (Parse.trimEnd (s.dropWhile Comb.isSpace))),
    by simp only [Parse.includeDirective, map_apply, this, Res.map_ok]⟩

/-! ## `end-apply-tag` -/

/-- **`directive::end_apply_tag` accepts a documented `end-apply-tag`** -/
theorem endApplyTag_accept {i r : List Char} (h : endApplyTag i r) : ∃ e, Parse.endApplyTag i = .ok e r := by
  obtain ⟨i1, hk1, i2, hsp1, i3, hk2, i4, hsp2, i5, hk3, T, hsp3, hT⟩ := h
  have e1 := lit_eq Parse.kwEnd rfl hk1
  have e2 := lit_eq Parse.kwApply rfl hk2
  have e3 := lit_eq Parse.kwTag rfl hk3
  obtain ⟨s1, hs1⟩ := space1_plus_sp hsp1 (by rw [e2]; simp [Parse.kwApply, Comb.isSpace])
  obtain ⟨s2, hs2⟩ := space1_plus_sp hsp2 (by rw [e3]; simp [Parse.kwTag, Comb.isSpace])
  obtain ⟨s3, hs3⟩ := space0_star_sp hsp3 (newLine_stop_space hT)
  have hp : (pair (literal Parse.kwEnd) (pair space1 (pair (literal Parse.kwApply) (pair space1 (literal Parse.kwTag))))) i =
      .ok (Parse.kwEnd, s1, Parse.kwApply, s2, Parse.kwTag) i5 := by
    rw [e1]
    simp only [pair_apply, literal_append, Res.andThen_ok, hs1, e2, hs2, e3, Res.map_ok]
  refine ⟨Entry.endApplyTag, ?_⟩
  simp only [Parse.endApplyTag, value_apply, terminated_apply, take, map_apply, withTaken, hp, Res.map_ok,
    Res.andThen_ok, pair_apply, hs3, lineEndingOrEof_newLine hT]

/-! ## `apply-tag` -/

/-- the tag of `apply tag` under the side condition of the accepted dialect: `tag_key` reads exactly it -/
theorem tagKey_accept {i r : List Char} (h : (tag.sat (𝔸).applyTagOk) i r)
    (hr : ∀ c t, r = c :: t → (Parse.isAsciiWhitespace c || c == ':') = true) :
    ∃ k, Parse.tagKey i = .ok k r := by
  obtain ⟨htag, s, hs, hok⟩ := h
  obtain ⟨s', rfl, hne, hs'⟩ := plus_chr htag
  have : s = s' := List.append_cancel_right hs.symm
  subst this
  refine ⟨s, takeTill1_append hne ?_ hr⟩
  intro c hc
  have h1 := hs' c hc
  simp only [Bool.and_eq_true, bne_iff_ne] at h1
  obtain ⟨h2, h3, h4, h5⟩ := (isNoSp_iff c).mp h1.1
  have hff : c ≠ '\x0c' := by
    intro e
    subst e
    simp only [Dialect.accepted, Bool.not_eq_true'] at hok
    have : s.contains '\x0c' = true := List.contains_iff_mem.mpr hc
    rw [hok] at this; cases this
  simp [Parse.isAsciiWhitespace, h2, h3, h4, h5, hff, h1.2]

/-- **`directive::apply_tag` accepts a documented `apply-tag`** (the tag without form feed) -/
theorem applyTag_accept {i r : List Char} (h : applyTag 𝔸 i r) : ∃ e, Parse.applyTag i = .ok e r := by
  obtain ⟨a4, ⟨a1, hk1, a2, hsp1, a3, hk2, hsp2⟩, T, hbody, hT⟩ := h
  have e1 := lit_eq Parse.kwApply rfl hk1
  have e2 := lit_eq Parse.kwTag rfl hk2
  have hTend := lineEnd_of_newLine hT
  -- both alternatives: blanks, the tag, blanks, and a rest `L` that is empty or begins with `:`
  obtain ⟨a5, a6, a7, L, hs45, htag, hs67, hL, hLnn, hLhead⟩ : ∃ a5 a6 a7 L, G.star sp a4 a5 ∧
      (tag.sat (𝔸).applyTagOk) a5 a6 ∧ G.star sp a6 a7 ∧ a7 = L ++ T ∧ NoNL L ∧ (L = [] ∨ ∃ t, L = ':' :: t) := by
    rcases hbody with ⟨a6, htag, hs⟩ | hkv
    · exact ⟨a4, a6, T, [], .nil _, htag, hs, rfl, NoNL.nil, Or.inl rfl⟩
    · rcases hkv with ⟨a5, hs45, a6, htag, a7, hs67, a8, hc, a9, hs89, hrest⟩ |
        ⟨a5, hs45, a6, htag, a7, hs67, a8, hc, a9, hs89, hrest⟩
      · have hc' := lit_eq [':'] rfl hc
        obtain ⟨s1, rfl, hs1⟩ := oneLine_star oneLine_sp _ _ hs89
        obtain ⟨s2, rfl, hs2⟩ := star_chr hrest
        exact ⟨a5, a6, a7, ':' :: (s1 ++ s2), hs45, htag, hs67, by rw [hc']; simp, by
          intro c hc
          rcases List.mem_cons.mp hc with rfl | hc
          · decide
          · exact (hs1.append hs2) c hc, Or.inr ⟨_, rfl⟩⟩
      · have hc' := lit_eq [':', ':'] rfl hc
        obtain ⟨s1, rfl, hs1⟩ := oneLine_star oneLine_sp _ _ hs89
        obtain ⟨s2, rfl, hs2⟩ := star_chr hrest
        exact ⟨a5, a6, a7, ':' :: ':' :: (s1 ++ s2), hs45, htag, hs67, by rw [hc']; simp, by
          intro c hc
          rcases List.mem_cons.mp hc with rfl | hc
          · decide
          · rcases List.mem_cons.mp hc with rfl | hc
            · decide
            · exact (hs1.append hs2) c hc, Or.inr ⟨_, rfl⟩⟩
  subst hL
  have ha7stop : Stop Comb.isSpace (L ++ T) := by
    rcases hLhead with rfl | ⟨t, rfl⟩
    · simpa using lineEnd_stop_space hTend
    · simp [Comb.isSpace]
  -- the tag begins with a non-blank character
  have ha5stop : Stop Comb.isSpace a5 := by
    obtain ⟨s, rfl, hne, hs⟩ := plus_chr htag.1
    cases s with
    | nil => exact absurd rfl hne
    | cons c t =>
      have := hs c (by simp)
      simp only [Bool.and_eq_true] at this
      obtain ⟨h1, h2, _, _⟩ := (isNoSp_iff c).mp this.1
      simp [Comb.isSpace, h1, h2]
  have hsp1' : ∃ s, space1 a1 = .ok s a2 := space1_plus_sp hsp1 (by rw [e2]; simp [Parse.kwTag, Comb.isSpace])
  obtain ⟨s1, hs1⟩ := hsp1'
  have hsp2' : ∃ s, space1 a3 = .ok s a5 := by
    obtain ⟨sps, rfl, hne, hsps⟩ := plus_sp hsp2
    obtain ⟨sps2, rfl, hsps2⟩ := star_sp hs45
    refine ⟨sps ++ sps2, ?_⟩
    rw [← List.append_assoc]
    exact space1_append (by simp [hne]) (by
      intro c hc
      rcases List.mem_append.mp hc with h | h
      · exact hsps c h
      · exact hsps2 c h) ha5stop
  obtain ⟨s2, hs2⟩ := hsp2'
  -- what follows the tag stops `tag_key`
  have ha6 : ∀ c t, a6 = c :: t → (Parse.isAsciiWhitespace c || c == ':') = true := by
    intro c t e
    obtain ⟨sps, rfl, hsps⟩ := star_sp hs67
    cases sps with
    | cons b t' =>
      simp only [List.cons_append] at e
      injection e with e _
      subst e
      have := hsps b (by simp)
      simp only [Comb.isSpace, Bool.or_eq_true, beq_iff_eq] at this
      rcases this with rfl | rfl <;> rfl
    | nil =>
      simp only [List.nil_append] at e
      rcases hLhead with rfl | ⟨t', rfl⟩
      · simp only [List.nil_append] at e
        rcases hTend with rfl | ⟨c', t'', rfl, hc'⟩
        · cases e
        · injection e with e _
          subst e
          simp only [isEol, Bool.or_eq_true, beq_iff_eq] at hc'
          rcases hc' with rfl | rfl <;> rfl
      · simp only [List.cons_append] at e
        injection e with e _
        subst e
        rfl
  obtain ⟨k, hk⟩ := tagKey_accept htag ha6
  obtain ⟨s3, hs3⟩ := space0_star_sp hs67 ha7stop
  -- the optional value
  have hval : ∃ v, opt Parse.metadataValue (L ++ T) = .ok v T := by
    rcases hLhead with rfl | ⟨t, rfl⟩
    · rcases metadataValue_line (s := []) NoNL.nil hT with ⟨v, hv⟩ | ⟨z, hz⟩
      · exact ⟨some v, opt_ok hv⟩
      · exact ⟨none, opt_bt hz⟩
    · obtain ⟨v, hv⟩ := metadataValue_colon (t := t) (fun c hc => hLnn c (by simp [hc])) hT
      exact ⟨some v, opt_ok hv⟩
  obtain ⟨v, hv⟩ := hval
  refine ⟨Entry.applyTag (String.ofList k) v, ?_⟩
  have hp : (pair (literal Parse.kwApply) (pair space1 (pair (literal Parse.kwTag) space1))) i =
      .ok (Parse.kwApply, s1, Parse.kwTag, s2) a5 := by
    rw [e1]
    simp only [pair_apply, literal_append, Res.andThen_ok, hs1, e2, hs2, Res.map_ok]
  simp only [Parse.applyTag, bind_apply, preceded_apply, hp, Res.andThen_ok, hk, delimited_apply, hs3, hv,
    lineEndingOrEof_newLine hT, Res.map_ok, pure_apply]

/-! ## one line of a `top-level-comment` -/

abbrev topLine : G := commentPrefix ⬝ G.star noNewLine ⬝ newLine
abbrev topElem : Parser (List Char) :=
  delimited (takeWhile1 Parse.isCommentPrefix) tillLineEnding Parse.lineEndingOrEof

theorem topLine_head {i m : List Char} (h : topLine i m) : ∃ c t, i = c :: t ∧ Parse.isCommentPrefix c = true := by
  obtain ⟨i1, ⟨c, rfl, hc⟩, _⟩ := h
  exact ⟨c, i1, rfl, hc⟩

theorem topElem_accept {i m : List Char} (h : topLine i m) : ∃ a, topElem i = .ok a m ∧ m.length < i.length := by
  obtain ⟨i2, ⟨c, rfl, hc⟩, hrest⟩ := h
  obtain ⟨s, T, rfl, hs, hT⟩ := restLine_text hrest
  let q := Parse.isCommentPrefix
  have hTstop : Stop q T := lineEnd_stop (by
    intro d hd
    simp only [isEol, Bool.or_eq_true, beq_iff_eq] at hd
    rcases hd with rfl | rfl <;> decide) (lineEnd_of_newLine hT)
  have h2 : takeWhile1 q (c :: (s ++ T)) = .ok ((c :: s).takeWhile q) ((c :: s).dropWhile q ++ T) := by
    have e1 := takeWhile_append_lineEnd (s := c :: s) hTstop
    have e2 := dropWhile_append_lineEnd (s := c :: s) hTstop
    simp only [List.cons_append] at e1 e2
    simp only [takeWhile1, show q c = true from hc, if_true, e1, e2]
  have hcs' : NoNL (c :: s) := by
    intro d hd
    rcases List.mem_cons.mp hd with rfl | hd
    · simp only [Spec.Doc.isCommentPrefix, Bool.or_eq_true, beq_iff_eq] at hc
      rcases hc with (((rfl | rfl) | rfl) | rfl) | rfl <;> decide
    · exact hs d hd
  have hres := lineElem_ok (pfx := takeWhile1 Parse.isCommentPrefix) h2 rfl
    (NoNL.of_suffix (List.dropWhile_suffix q) hcs') hT
  refine ⟨_, hres, ?_⟩
  have := newLine_length hT
  simp; omega

theorem topElem_bt {x : List Char} (h : ∀ c t, x = c :: t → Parse.isCommentPrefix c = false) : ∃ z, topElem x = .bt z := by
  refine ⟨x, lineElem_bt ?_⟩
  cases x with
  | nil => rfl
  | cons c t => simp [takeWhile1, h c t rfl]

end Okane.DocAccept
