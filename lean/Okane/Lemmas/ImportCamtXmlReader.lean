import Okane.Lemmas.ImportCamtXmlEscape
import Okane.Model.ImportCamtXmlRender
/-!
# The reader inverts the printer: `readRoot (print t) = ok (toNode t)` for canonical trees

`CTree` (`Model/ImportCamtXmlRender.lean`): element trees without mixed content (an element holds either character data or elements), names made of ASCII
letters and digits, at most one attribute (plain key, plain value).  `print` writes them the obvious way — text escaped by
`escape` — and `Xml.readRoot` (the model of quick-xml's reader and of the deserializer's text handling) reads the same
tree back: lexer (`lex_tree`), tree builder (`build_tree`), and the text node of a leaf (`mkText_escape`).
-/
namespace Okane.Xml

mutual
/-- the events the reader makes of a printed tree -/
def CTree.toks : CTree → List Token
  | .leaf n a t =>
    .start (n.toList ++ attrText a) false :: (if t.toList.isEmpty then [] else [.text (escape t.toList)]) ++ [.stop n.toList]
  | .node n a ks => .start (n.toList ++ attrText a) false :: toksAll ks ++ [.stop n.toList]
def toksAll : List CTree → List Token
  | [] => []
  | t :: ts => t.toks ++ toksAll ts
end

/-! ## the lexer on a printed tree -/

theorem plainChar_not (c x : Char) (h : plainChar c = true) (hx : plainChar x = false) : c ≠ x := by
  intro e; subst e; rw [h] at hx; exact absurd hx (by simp)

theorem lex_text_run (w : List Char) : ∀ (acc : List Char) (out : List Token), (∀ c ∈ w, c ≠ '<') →
    w.foldl lexStep ⟨.text acc, out⟩ = ⟨.text (w.reverse ++ acc), out⟩ := by
  induction w with
  | nil => intro acc out _; simp
  | cons c w ih =>
    intro acc out h
    have hc : (c == '<') = false := by simpa using h c (by simp)
    simp only [List.foldl_cons, lexStep, hc, Bool.false_eq_true, ↓reduceIte]
    rw [ih (c :: acc) out (fun x hx => h x (List.mem_cons_of_mem _ hx))]
    simp

theorem lex_outside_run (w : List Char) : ∀ (acc : List Char) (out : List Token),
    (∀ c ∈ w, c ≠ '>' ∧ c ≠ '\'' ∧ c ≠ '"') →
    w.foldl lexStep ⟨.tag .outside acc, out⟩ = ⟨.tag .outside (w.reverse ++ acc), out⟩ := by
  induction w with
  | nil => intro acc out _; simp
  | cons c w ih =>
    intro acc out h
    obtain ⟨h1, h2, h3⟩ := h c (by simp)
    have e1 : (c == '>') = false := by simpa using h1
    have e2 : (c == '\'') = false := by simpa using h2
    have e3 : (c == '"') = false := by simpa using h3
    simp only [List.foldl_cons, lexStep, e1, e2, e3, Bool.false_eq_true, ↓reduceIte]
    rw [ih (c :: acc) out (fun x hx => h x (List.mem_cons_of_mem _ hx))]
    simp

theorem lex_double_run (w : List Char) : ∀ (acc : List Char) (out : List Token), (∀ c ∈ w, c ≠ '"') →
    w.foldl lexStep ⟨.tag .double acc, out⟩ = ⟨.tag .double (w.reverse ++ acc), out⟩ := by
  induction w with
  | nil => intro acc out _; simp
  | cons c w ih =>
    intro acc out h
    have e3 : (c == '"') = false := by simpa using h c (by simp)
    simp only [List.foldl_cons, lexStep, e3, Bool.false_eq_true, ↓reduceIte]
    rw [ih (c :: acc) out (fun x hx => h x (List.mem_cons_of_mem _ hx))]
    simp

theorem plain_mem (s : String) (h : s.toList.all plainChar = true) : ∀ c ∈ s.toList, plainChar c = true := by
  simpa using h

theorem emitTag_start (c : Char) (w : List Char) (hc : c ≠ '/') (hl : (c :: w).getLast? ≠ some '/') :
    emitTag (c :: w) = .start (c :: w) false := by
  unfold emitTag
  split
  · rename_i name heq
    simp at heq
    exact absurd heq.1 hc
  · split
    · rename_i rest heq
      have : (c :: w).getLast? = some '/' := by
        rw [List.getLast?_eq_head?_reverse, heq]; rfl
      exact absurd this hl
    · rfl

theorem trimEnd_plain (n : List Char) (h : ∀ c ∈ n, isWs c = false) : trimEnd n = n := by
  unfold trimEnd
  cases hr : n.reverse with
  | nil => simp [List.reverse_eq_nil_iff.mp hr]
  | cons c r =>
    have hc : isWs c = false := h c (by
      have : c ∈ n.reverse := by rw [hr]; simp
      simpa using this)
    simp only [List.dropWhile, hc]
    rw [← hr]; simp

theorem plainChar_notWs (c : Char) (h : plainChar c = true) : isWs c = false := by
  have h1 := plainChar_not c ' ' h (by decide)
  have h2 := plainChar_not c '\r' h (by decide)
  have h3 := plainChar_not c '\n' h (by decide)
  have h4 := plainChar_not c '\t' h (by decide)
  simp [isWs, h1, h2, h3, h4]

/-- the characters of ` key="value"` before the value -/
theorem attr_chars (k : String) (hk : k.toList.all plainChar = true) :
    ∀ c ∈ ' ' :: k.toList ++ ['='], c ≠ '>' ∧ c ≠ '\'' ∧ c ≠ '"' := by
  intro c hc
  simp only [List.cons_append, List.mem_cons, List.mem_append, List.mem_nil_iff, or_false] at hc
  rcases hc with rfl | hc | rfl
  · decide
  · have := plain_mem k hk c hc
    exact ⟨plainChar_not c _ this (by decide), plainChar_not c _ this (by decide), plainChar_not c _ this (by decide)⟩
  · decide

/-- a start tag -/
theorem lex_start (n : String) (a : Option (String × String)) (hn : plainName n = true) (ha : attrOk a = true)
    (out : List Token) (rest : List Char) :
    ('<' :: n.toList ++ attrText a ++ '>' :: rest).foldl lexStep ⟨.text [], out⟩ =
      rest.foldl lexStep ⟨.text [], .start (n.toList ++ attrText a) false :: out⟩ := by
  simp only [plainName, Bool.and_eq_true, Bool.not_eq_true'] at hn
  obtain ⟨hne, hpl⟩ := hn
  cases hl : n.toList with
  | nil => simp [hl] at hne
  | cons c n' =>
    have hmem := plain_mem n hpl
    rw [hl] at hmem
    have hc : plainChar c = true := hmem c (by simp)
    have c1 := plainChar_not c '!' hc (by decide)
    have c2 := plainChar_not c '?' hc (by decide)
    have c3 := plainChar_not c '>' hc (by decide)
    have c4 := plainChar_not c '\'' hc (by decide)
    have c5 := plainChar_not c '"' hc (by decide)
    have c6 := plainChar_not c '/' hc (by decide)
    have hrun : ∀ x ∈ n', x ≠ '>' ∧ x ≠ '\'' ∧ x ≠ '"' := fun x hx =>
      have := hmem x (List.mem_cons_of_mem _ hx)
      ⟨plainChar_not x _ this (by decide), plainChar_not x _ this (by decide), plainChar_not x _ this (by decide)⟩
    have step0 : lexStep ⟨.text [], out⟩ '<' = ⟨.lt, out⟩ := by simp [lexStep, emitText]
    have step1 : lexStep ⟨.lt, out⟩ c = ⟨.tag .outside [c], out⟩ := by
      simp [lexStep, c1, c2, c3, c4, c5]
    cases a with
    | none =>
      simp only [attrText, List.append_nil, List.cons_append, List.foldl_cons, step0, step1, List.foldl_append]
      rw [lex_outside_run n' [c] out hrun]
      have hlast : (c :: n').getLast? ≠ some '/' := by
        intro h
        have hm : '/' ∈ c :: n' := List.mem_of_getLast? h
        have := hmem '/' hm
        exact absurd this (by decide)
      simp [lexStep, emitTag_start c n' c6 hlast]
    | some kv =>
      obtain ⟨k, v⟩ := kv
      simp only [attrOk, plainName, Bool.and_eq_true] at ha
      obtain ⟨⟨_, hk⟩, hv⟩ := ha
      have hrun2 : ∀ x ∈ n' ++ (' ' :: k.toList ++ ['=']), x ≠ '>' ∧ x ≠ '\'' ∧ x ≠ '"' := by
        intro x hx
        rcases List.mem_append.mp hx with hx | hx
        · exact hrun x hx
        · exact attr_chars k hk x hx
      have hv' : ∀ x ∈ v.toList, x ≠ '"' := fun x hx => plainChar_not x _ (plain_mem v hv x hx) (by decide)
      generalize hW : n' ++ (' ' :: k.toList ++ ['=']) = W at hrun2
      generalize hV : v.toList = V at hv'
      have hsplit : '<' :: (c :: n') ++ attrText (some (k, v)) ++ '>' :: rest =
          '<' :: c :: (W ++ ('"' :: (V ++ ('"' :: '>' :: rest)))) := by
        simp [attrText, ← hW, ← hV]
      have hcontent : (c :: n') ++ attrText (some (k, v)) = c :: (W ++ '"' :: (V ++ ['"'])) := by
        simp [attrText, ← hW, ← hV]
      rw [hsplit, hcontent]
      simp only [List.foldl_cons, step0, step1]
      rw [List.foldl_append, lex_outside_run W [c] out hrun2]
      simp only [List.foldl_cons, lexStep, show ('"' == '>') = false by decide, show ('"' == '\'') = false by decide,
        show ('"' == '"') = true by decide, if_true, Bool.false_eq_true, if_false]
      rw [List.foldl_append, lex_double_run V _ out hv']
      simp only [List.foldl_cons, lexStep, show ('"' == '"') = true by decide, if_true,
        show ('>' == '>') = true by decide]
      have hrev : ('"' :: (V.reverse ++ '"' :: (W.reverse ++ [c]))).reverse = c :: (W ++ '"' :: (V ++ ['"'])) := by
        simp
      rw [hrev]
      have hlast : (c :: (W ++ '"' :: (V ++ ['"']))).getLast? ≠ some '/' := by
        have : c :: (W ++ '"' :: (V ++ ['"'])) = (c :: (W ++ '"' :: V)) ++ ['"'] := by simp
        rw [this, List.getLast?_append]
        simp
      rw [emitTag_start c _ c6 hlast]

/-- an end tag (after whatever text was pending) -/
theorem lex_stop (n : String) (hn : plainName n = true) (acc : List Char) (out : List Token) (rest : List Char) :
    ('<' :: '/' :: n.toList ++ '>' :: rest).foldl lexStep ⟨.text acc, out⟩ =
      rest.foldl lexStep ⟨.text [], .stop n.toList :: emitText acc out⟩ := by
  simp only [plainName, Bool.and_eq_true, Bool.not_eq_true'] at hn
  obtain ⟨_, hpl⟩ := hn
  have hmem := plain_mem n hpl
  have hrun : ∀ x ∈ n.toList, x ≠ '>' ∧ x ≠ '\'' ∧ x ≠ '"' := fun x hx =>
    have := hmem x hx
    ⟨plainChar_not x _ this (by decide), plainChar_not x _ this (by decide), plainChar_not x _ this (by decide)⟩
  have step0 : lexStep ⟨.text acc, out⟩ '<' = ⟨.lt, emitText acc out⟩ := by simp [lexStep]
  have step1 : lexStep ⟨.lt, emitText acc out⟩ '/' = ⟨.tag .outside ['/'], emitText acc out⟩ := by
    simp +decide [lexStep]
  simp only [List.cons_append, List.foldl_cons, step0, step1]
  rw [List.foldl_append, lex_outside_run n.toList ['/'] _ hrun]
  simp only [List.foldl_cons, lexStep, show ('>' == '>') = true by decide, if_true]
  have : (n.toList.reverse ++ ['/']).reverse = '/' :: n.toList := by simp
  rw [this]
  have ht : trimEnd n.toList = n.toList := trimEnd_plain _ (fun c hc => plainChar_notWs c (hmem c hc))
  simp [emitTag, ht]

theorem escape_ne_nil (s : List Char) (h : s ≠ []) : escape s ≠ [] := by
  cases s with
  | nil => exact absurd rfl h
  | cons c r =>
    have : escapeChar c ≠ [] := by
      unfold escapeChar
      repeat' split
      all_goals simp
    simp only [escape, List.flatMap_cons]
    intro he
    exact this (List.append_eq_nil_iff.mp he).1

mutual
/-- **the lexer on a printed tree** yields the tree's events -/
theorem lex_tree : (t : CTree) → t.wf = true → ∀ (out : List Token) (rest : List Char),
    (t.print ++ rest).foldl lexStep ⟨.text [], out⟩ = rest.foldl lexStep ⟨.text [], t.toks.reverse ++ out⟩
  | .leaf n a txt, h, out, rest => by
    simp only [CTree.wf, Bool.and_eq_true] at h
    obtain ⟨hn, ha⟩ := h
    have hclean : ∀ c ∈ escape txt.toList, c ≠ '<' := fun c hc => (escape_clean _ c hc).1
    have e1 : CTree.print (.leaf n a txt) ++ rest =
        '<' :: n.toList ++ attrText a ++ '>' :: (escape txt.toList ++ ('<' :: '/' :: n.toList ++ '>' :: rest)) := by
      simp [CTree.print]
    rw [e1, lex_start n a hn ha, List.foldl_append, lex_text_run _ [] _ hclean, lex_stop n hn]
    by_cases he : txt.toList.isEmpty = true
    · have : txt.toList = [] := by simpa using he
      simp [CTree.toks, this, escape, emitText]
    · have hne : txt.toList ≠ [] := by simpa using he
      have hesc := escape_ne_nil _ hne
      have he' : txt.toList.isEmpty = false := by simpa using he
      have hesc' : (escape txt.toList).reverse.isEmpty = false := by simpa using hesc
      simp [CTree.toks, he', emitText, hesc']
  | .node n a ks, h, out, rest => by
    simp only [CTree.wf, Bool.and_eq_true] at h
    obtain ⟨⟨hn, ha⟩, hk⟩ := h
    have e1 : CTree.print (.node n a ks) ++ rest =
        '<' :: n.toList ++ attrText a ++ '>' :: (printAll ks ++ ('<' :: '/' :: n.toList ++ '>' :: rest)) := by
      simp [CTree.print]
    rw [e1, lex_start n a hn ha, lex_all ks hk, lex_stop n hn]
    simp [CTree.toks, emitText]
theorem lex_all : (ts : List CTree) → wfAll ts = true → ∀ (out : List Token) (rest : List Char),
    (printAll ts ++ rest).foldl lexStep ⟨.text [], out⟩ = rest.foldl lexStep ⟨.text [], (toksAll ts).reverse ++ out⟩
  | [], _, out, rest => by simp [printAll, toksAll]
  | t :: ts, h, out, rest => by
    simp only [wfAll, Bool.and_eq_true] at h
    have e1 : printAll (t :: ts) ++ rest = t.print ++ (printAll ts ++ rest) := by simp [printAll]
    rw [e1, lex_tree t h.1, lex_all ts h.2]
    simp [toksAll]
end

/-! ## the tree builder on the events of a printed tree -/

theorem isInfix_no_colon (p : List Char) (hp : ':' ∈ p) : ∀ (content : List Char), ':' ∉ content → isInfix p content = false
  | [], _ => by
    cases p with
    | nil => simp at hp
    | cons c r => simp [isInfix]
  | c :: s, h => by
    have hs : ':' ∉ s := fun hh => h (List.mem_cons_of_mem _ hh)
    simp only [isInfix, isInfix_no_colon p hp s hs, Bool.or_false]
    cases hb : ((c :: s).take p.length == p) with
    | false => rfl
    | true =>
      have heq : (c :: s).take p.length = p := by simpa using hb
      have : ':' ∈ (c :: s).take p.length := by rw [heq]; exact hp
      exact absurd (List.mem_of_mem_take this) h

theorem attrText_no_colon (a : Option (String × String)) (ha : attrOk a = true) : ':' ∉ attrText a := by
  cases a with
  | none => simp [attrText]
  | some kv =>
    obtain ⟨k, v⟩ := kv
    simp only [attrOk, plainName, Bool.and_eq_true] at ha
    obtain ⟨⟨_, hk⟩, hv⟩ := ha
    intro h
    simp [attrText] at h
    rcases h with h | h
    · exact absurd (plain_mem k hk _ h) (by decide)
    · exact absurd (plain_mem v hv _ h) (by decide)

theorem plain_no_colon (n : String) (hn : plainName n = true) : ':' ∉ n.toList := by
  simp only [plainName, Bool.and_eq_true] at hn
  exact fun h => absurd (plain_mem n hn.2 _ h) (by decide)

theorem takeWhile_all {α : Type} (p : α → Bool) : ∀ (l : List α), (∀ x ∈ l, p x = true) → l.takeWhile p = l ∧ l.dropWhile p = []
  | [], _ => ⟨rfl, rfl⟩
  | x :: l, h => by
    have hx := h x (by simp)
    obtain ⟨h1, h2⟩ := takeWhile_all p l (fun y hy => h y (List.mem_cons_of_mem _ hy))
    simp [List.takeWhile, List.dropWhile, hx, h1, h2]

theorem tagName_plain (n : String) (a : Option (String × String)) (hn : plainName n = true) :
    tagName (n.toList ++ attrText a) = n.toList ∧ tagAttrs (n.toList ++ attrText a) = attrText a := by
  simp only [plainName, Bool.and_eq_true] at hn
  have hmem := plain_mem n hn.2
  have hall : ∀ c ∈ n.toList, (!isWs c) = true := fun c hc => by simp [plainChar_notWs c (hmem c hc)]
  unfold tagName tagAttrs
  cases a with
  | none =>
    simp only [attrText, List.append_nil]
    exact takeWhile_all _ _ hall
  | some kv =>
    obtain ⟨k, v⟩ := kv
    have h1 : List.takeWhile (fun c => !isWs c) (n.toList ++ attrText (some (k, v))) = n.toList := by
      rw [List.takeWhile_append_of_pos hall]
      simp [attrText, isWs]
    have h2 : List.dropWhile (fun c => !isWs c) (n.toList ++ attrText (some (k, v))) = attrText (some (k, v)) := by
      rw [List.dropWhile_append_of_pos hall]
      simp [attrText, isWs]
    exact ⟨h1, h2⟩

theorem scanTag_plain (n : String) (a : Option (String × String)) (hn : plainName n = true) (ha : attrOk a = true) :
    scanTag (n.toList ++ attrText a) = none := by
  have hcol : ':' ∉ n.toList ++ attrText a := by
    simp only [List.mem_append, not_or]
    exact ⟨plain_no_colon n hn, attrText_no_colon a ha⟩
  have hln : localName n.toList = n.toList := by
    unfold localName
    have : n.toList.dropWhile (· != ':') = [] := by
      apply (takeWhile_all _ _ _).2
      intro c hc
      have : c ≠ ':' := fun e => plain_no_colon n hn (e ▸ hc)
      simpa using this
    rw [this]
  unfold scanTag
  rw [(tagName_plain n a hn).1, hln]
  rw [isInfix_no_colon _ (by decide) _ hcol, isInfix_no_colon _ (by decide) _ hcol,
      isInfix_no_colon _ (by decide) _ hcol, isInfix_no_colon _ (by decide) _ hcol]
  simp only [plainName, Bool.and_eq_true, Bool.not_eq_true'] at hn
  cases hl : n.toList with
  | nil => simp [hl] at hn
  | cons c r =>
    have hc : plainChar c = true := plain_mem n hn.2 c (by rw [hl]; simp)
    have h1 := plainChar_not c '@' hc (by decide)
    have h2 := plainChar_not c '$' hc (by decide)
    simp [h1, h2]

/-- the text of a leaf: one escaped piece becomes the text node of the string -/
theorem mkText_escape (s : List Char) (h : s ≠ []) : mkText [.esc (escape s)] = some (.text (String.ofList s)) := by
  have hne := escape_ne_nil s h
  have hws : ∀ c ∈ escape s, isWs c = false := fun c hc => (escape_clean s c hc).2.2.2.2
  have hts : trimStart (escape s) = escape s := by
    unfold trimStart
    cases he : escape s with
    | nil => exact absurd he hne
    | cons c r =>
      have : isWs c = false := hws c (by rw [he]; simp)
      simp [List.dropWhile, this]
  have hte : trimEnd (escape s) = escape s := trimEnd_plain _ hws
  have hnemp : (escape s).isEmpty = false := by simpa using hne
  simp [mkText, dropBlankPieces, hts, hnemp, trimLastPiece, hte, concatPieces, pieceValue, unescape_escape]

theorem flush_nil (f : Frame) (h : f.run = []) : f.flush = f := by
  unfold Frame.flush
  simp [h, mkText, dropBlankPieces]
  cases f; simp_all

mutual
/-- **the tree builder on the events of a printed tree** appends the tree to the children of the open element -/
theorem build_tree : (t : CTree) → t.wf = true → ∀ (f : Frame) (up : List Frame) (pro : List Piece), f.run = [] →
    t.toks.foldl buildStep ⟨f :: up, pro, none⟩ = ⟨{ f with kids := t.toNode :: f.kids } :: up, pro, none⟩
  | .leaf n a txt, h, f, up, pro, hf => by
    simp only [CTree.wf, Bool.and_eq_true] at h
    obtain ⟨hn, ha⟩ := h
    obtain ⟨htn, hta⟩ := tagName_plain n a hn
    have step1 : buildStep ⟨f :: up, pro, none⟩ (.start (n.toList ++ attrText a) false) =
        ⟨{ name := n.toList, attrs := attrText a } :: f :: up, pro, none⟩ := by
      simp [buildStep, scanTag_plain n a hn ha, htn, hta, flush_nil f hf]
    by_cases he : txt.toList.isEmpty = true
    · have hnil : txt.toList = [] := by simpa using he
      have ht : CTree.toks (.leaf n a txt) = [.start (n.toList ++ attrText a) false, .stop n.toList] := by
        simp [CTree.toks, hnil]
      rw [ht, List.foldl_cons, step1]
      simp [buildStep, closeTop, Frame.close, Frame.flush, mkText, dropBlankPieces, CTree.toNode, hnil]
    · have he' : txt.toList.isEmpty = false := by simpa using he
      have hne : txt.toList ≠ [] := by simpa using he
      have ht : CTree.toks (.leaf n a txt) =
          [.start (n.toList ++ attrText a) false, .text (escape txt.toList), .stop n.toList] := by
        simp [CTree.toks, he']
      rw [ht, List.foldl_cons, step1]
      simp [buildStep, closeTop, Frame.close, Frame.flush, mkText_escape _ hne, CTree.toNode, he']
  | .node n a ks, h, f, up, pro, hf => by
    simp only [CTree.wf, Bool.and_eq_true] at h
    obtain ⟨⟨hn, ha⟩, hk⟩ := h
    obtain ⟨htn, hta⟩ := tagName_plain n a hn
    have step1 : buildStep ⟨f :: up, pro, none⟩ (.start (n.toList ++ attrText a) false) =
        ⟨{ name := n.toList, attrs := attrText a } :: f :: up, pro, none⟩ := by
      simp [buildStep, scanTag_plain n a hn ha, htn, hta, flush_nil f hf]
    have ht : CTree.toks (.node n a ks) = .start (n.toList ++ attrText a) false :: (toksAll ks ++ [.stop n.toList]) := by
      simp [CTree.toks]
    rw [ht, List.foldl_cons, step1, List.foldl_append, build_all ks hk _ _ _ rfl]
    simp [buildStep, closeTop, Frame.close, Frame.flush, mkText, dropBlankPieces, CTree.toNode]
theorem build_all : (ts : List CTree) → wfAll ts = true → ∀ (f : Frame) (up : List Frame) (pro : List Piece), f.run = [] →
    (toksAll ts).foldl buildStep ⟨f :: up, pro, none⟩ = ⟨{ f with kids := (toNodes ts).reverse ++ f.kids } :: up, pro, none⟩
  | [], _, f, up, pro, _ => by simp [toksAll, toNodes]
  | t :: ts, h, f, up, pro, hf => by
    simp only [wfAll, Bool.and_eq_true] at h
    simp only [toksAll, List.foldl_append]
    rw [build_tree t h.1 f up pro hf, build_all ts h.2 _ up pro (by simpa using hf)]
    simp [toNodes]
end

/-- the events of a printed tree, read as a whole document, build the tree -/
theorem build_root (t : CTree) (h : t.wf = true) :
    (t.toks.foldl buildStep {}).done = some (.root t.toNode) := by
  cases t with
  | leaf n a txt =>
    simp only [CTree.wf, Bool.and_eq_true] at h
    obtain ⟨hn, ha⟩ := h
    obtain ⟨htn, hta⟩ := tagName_plain n a hn
    have step1 : buildStep {} (.start (n.toList ++ attrText a) false) =
        ⟨[{ name := n.toList, attrs := attrText a }], [], none⟩ := by
      simp [buildStep, scanTag_plain n a hn ha, htn, hta, mkText, dropBlankPieces]
    by_cases he : txt.toList.isEmpty = true
    · have hnil : txt.toList = [] := by simpa using he
      have ht : CTree.toks (.leaf n a txt) = [.start (n.toList ++ attrText a) false, .stop n.toList] := by
        simp [CTree.toks, hnil]
      rw [ht, List.foldl_cons, step1]
      simp [buildStep, closeTop, Frame.close, Frame.flush, mkText, dropBlankPieces, CTree.toNode, hnil]
    · have he' : txt.toList.isEmpty = false := by simpa using he
      have hne : txt.toList ≠ [] := by simpa using he
      have ht : CTree.toks (.leaf n a txt) =
          [.start (n.toList ++ attrText a) false, .text (escape txt.toList), .stop n.toList] := by
        simp [CTree.toks, he']
      rw [ht, List.foldl_cons, step1]
      simp [buildStep, closeTop, Frame.close, Frame.flush, mkText_escape _ hne, CTree.toNode, he']
  | node n a ks =>
    simp only [CTree.wf, Bool.and_eq_true] at h
    obtain ⟨⟨hn, ha⟩, hk⟩ := h
    obtain ⟨htn, hta⟩ := tagName_plain n a hn
    have step1 : buildStep {} (.start (n.toList ++ attrText a) false) =
        ⟨[{ name := n.toList, attrs := attrText a }], [], none⟩ := by
      simp [buildStep, scanTag_plain n a hn ha, htn, hta, mkText, dropBlankPieces]
    have ht : CTree.toks (.node n a ks) = .start (n.toList ++ attrText a) false :: (toksAll ks ++ [.stop n.toList]) := by
      simp [CTree.toks]
    rw [ht, List.foldl_cons, step1, List.foldl_append, build_all ks hk _ _ _ rfl]
    simp [buildStep, closeTop, Frame.close, Frame.flush, mkText, dropBlankPieces, CTree.toNode]

theorem print_head (t : CTree) : ∃ r, t.print = '<' :: r := by
  cases t <;> exact ⟨_, by simp only [CTree.print, List.cons_append]; rfl⟩

/-- **The reader inverts the printer**: a canonical tree, printed (text escaped by `escape`), is read back as itself by the
model of quick-xml's reader and of the deserializer's text handling. -/
theorem readRoot_print (t : CTree) (h : t.wf = true) : readRoot t.print = .ok t.toNode := by
  obtain ⟨r, hr⟩ := print_head t
  have hlex : t.print.foldl lexStep {} = ⟨.text [], t.toks.reverse⟩ := by
    have := lex_tree t h [] []
    simpa using this
  have htok : tokenize t.print = (t.toks, false) := by
    unfold tokenize
    rw [hr]
    simp only [show ('<'.toNat == 0xFEFF) = false by decide, Bool.false_eq_true, if_false]
    rw [← hr, hlex]
    simp [emitText]
  unfold readRoot
  rw [htok]
  simp only [build_root t h]

/-- non-vacuity: an element with an attribute, nested elements, text that needs escaping, an empty leaf -/
example : readRoot (CTree.print (.node "Ntry" none [.leaf "Amt" (some ("Ccy", "CHF")) "12.50",
    .leaf "AddtlNtryInf" none " a<b> & \"q\"\n", .leaf "Nm" none ""])) =
    .ok (.elem "Ntry" "" [.elem "Amt" " Ccy=\"CHF\"" [.text "12.50"], .elem "AddtlNtryInf" "" [.text " a<b> & \"q\"\n"],
      .elem "Nm" "" []]) :=
  readRoot_print _ (by decide)

end Okane.Xml
