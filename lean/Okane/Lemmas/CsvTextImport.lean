import Okane.Lemmas.CsvText
/-!
# `csv::import` from the file text: UTF-8, skipped head lines, and the bridge to the importer model on cells

* `decodeUtf8_utf8` / `decodeUtf8_some`: the field decoder is the inverse of the UTF-8 encoder;
* `skipHead_lines`: `format.skip.head = n` consumes exactly `n` physical lines, blank or not;
* `csvImportText_write`: **the bridge** — the importer from the bytes of `skipped lines ++ writeCsv (header :: rows)` IS the
  importer model of `Model/ImportCsv.lean` on `header` and `rows`; so every list of records is the reading of some file and
  every theorem about `csvImport` / `csvImportFlagged` holds of files;
* `csvImportText_shape`: totality of the text layer — the import from bytes is an I/O error (undecodable skipped line), a
  CSV error (undecodable header), or the importer on the decoded records (all of them, or those in front of the first
  undecodable record followed by a CSV error): no fuel, no panic of its own;
* `csvRows_length`: one transaction per record with a non-empty date cell.
-/
namespace Okane.Import.CsvText
open Okane Okane.Import

/-! ## UTF-8 -/

theorem decodeUtf8_utf8 (s : String) : decodeUtf8 (utf8 s) = some s := by
  unfold decodeUtf8 utf8
  have : (⟨s.toUTF8.data.toList.toArray⟩ : ByteArray) = s.toByteArray := by simp
  rw [this]
  unfold String.fromUTF8?
  rw [dif_pos s.isValidUTF8]
  rfl

theorem decodeUtf8_some (bs : Bytes) (s : String) (h : decodeUtf8 bs = some s) : utf8 s = bs := by
  unfold decodeUtf8 String.fromUTF8? at h
  split at h
  · simp at h; subst h; simp [utf8, String.fromUTF8]
  · simp at h

theorem utf8_injective {s t : String} (h : utf8 s = utf8 t) : s = t := by
  have := decodeUtf8_utf8 s
  rw [h, decodeUtf8_utf8] at this
  exact (Option.some.inj this).symm

@[simp] theorem utf8_empty : utf8 "" = [] := by decide

theorem utf8_eq_nil {s : String} (h : utf8 s = []) : s = "" := utf8_injective (h.trans utf8_empty.symm)

theorem decodeRecord_utf8 : ∀ r : List String, decodeRecord (r.map utf8) = some r
  | [] => rfl
  | s :: r => by
    have ih := decodeRecord_utf8 r
    unfold decodeRecord at ih ⊢
    simp [List.mapM_cons, decodeUtf8_utf8, ih]

theorem decodePrefix_utf8 : ∀ rows : List (List String), decodePrefix (rows.map (List.map utf8)) = (rows, false)
  | [] => rfl
  | r :: rows => by
    simp only [List.map_cons, decodePrefix, decodeRecord_utf8, decodePrefix_utf8 rows]

/-! ## skipped head lines -/

theorem readLine_line : ∀ (body rest : Bytes), LF ∉ body → readLine (body ++ LF :: rest) = (body ++ [LF], rest)
  | [], rest, _ => by simp [readLine]
  | c :: body, rest, h => by
    have hc : (c == LF) = false := by
      simp only [List.mem_cons, not_or] at h
      simpa using fun e => h.1 e.symm
    have ih := readLine_line body rest (fun hm => h (List.mem_cons_of_mem _ hm))
    simp [readLine, hc, ih]

/-- a physical line of text: bytes without `\n` followed by `\n`, valid UTF-8 — empty, blank, anything -/
def TextLine (l : Bytes) : Prop := (∃ body, l = body ++ [LF] ∧ LF ∉ body) ∧ (decodeUtf8 l).isSome = true

/-- **`format.skip.head = n` consumes exactly `n` lines, blank or not**: whatever the `n` skipped lines contain — nothing,
blanks, quotes, delimiters — the reader starts on the byte after the `n`-th `\n`. -/
theorem skipHead_lines : ∀ (lines : List Bytes) (rest : Bytes), (∀ l ∈ lines, TextLine l) →
    skipHead lines.length (lines.flatten ++ rest) = .ok rest
  | [], rest, _ => by simp [skipHead]
  | l :: lines, rest, h => by
    obtain ⟨⟨body, hl, hb⟩, hu⟩ := h l (by simp)
    have ih := skipHead_lines lines rest (fun x hx => h x (by simp [hx]))
    have hr : readLine ((l :: lines).flatten ++ rest) = (l, lines.flatten ++ rest) := by
      rw [hl]
      have := readLine_line body (lines.flatten ++ rest) hb
      simpa [List.flatten_cons, List.append_assoc] using this
    simp only [List.length_cons, skipHead, hr]
    cases hdl : decodeUtf8 l with
    | none => simp [hdl] at hu
    | some s => simpa using ih

/-- at the end of the input `read_line` reads nothing, any number of times -/
theorem skipHead_nil : ∀ n, skipHead n [] = .ok []
  | 0 => rfl
  | n + 1 => by
    have : decodeUtf8 [] = some "" := by rw [← utf8_empty]; exact decodeUtf8_utf8 ""
    simp [skipHead, readLine, this, skipHead_nil n]

/-! ## the bridge -/

/-- a row of texts the canonical writer can write: at least one cell and not a lone empty cell -/
def WritableText (r : List String) : Prop := r ≠ [] ∧ r ≠ [""]

instance (r : List String) : Decidable (WritableText r) := by unfold WritableText; infer_instance

theorem writableRow_of_text {r : List String} (h : WritableText r) : WritableRow (r.map utf8) := by
  refine ⟨by simpa using h.1, ?_⟩
  intro he
  cases r with
  | nil => simp at he
  | cons s r' =>
    cases r' with
    | nil =>
      have : utf8 s = [] := by simpa using he
      exact h.2 (by rw [utf8_eq_nil this])
    | cons _ _ => simp at he

theorem headerOf_withLines (d : UInt8) (l : Nat) (h : List Bytes) (rows : List (List Bytes)) :
    headerOf (withLines d l (h :: rows)) = h := rfl

theorem bodyOf_withLines (d : UInt8) (l : Nat) (h : List Bytes) (rows : List (List Bytes)) :
    (bodyOf (withLines d l (h :: rows))).map Prod.snd = rows := by
  simp [bodyOf, withLines]

/-- **The bridge: the importer from the file text is the importer model on the cells.**  For a delimiter that is not the quote
or a line end, `n = format.skip.head` skipped lines of any text, a header and rows of writable texts, and a CSV part that does
not begin with a byte order mark: importing the bytes `skipped ++ writeCsv (header :: rows)` is exactly
`csvImportFlagged env cfg header rows`.  Hence every list of records is the reading of some file, and every theorem about
`csvImport` holds of `csvImportText` on that file. -/
theorem csvImportTextFlagged_write (env : CsvEnv) (cfg : CsvCfg) (t : TextCfg) (lines : List Bytes) (header : List String)
    (rows : List (List String)) (hd : GoodDelim t.delimByte) (hskip : t.skipHead = lines.length)
    (hlines : ∀ l ∈ lines, TextLine l) (hrows : ∀ r ∈ header :: rows, WritableText r)
    (hbom : NoBom (writeCsv t.delimByte (header :: rows))) :
    csvImportTextFlagged env cfg t (lines.flatten ++ writeCsv t.delimByte (header :: rows)) =
      csvImportFlagged env cfg header rows := by
  unfold csvImportTextFlagged
  rw [hskip, Int.toNat_natCast, skipHead_lines lines _ hlines]
  unfold csvImportBytesFlagged
  have hw : ∀ r ∈ (header :: rows).map (List.map utf8), WritableRow r := by
    intro r hr
    obtain ⟨r', hr', rfl⟩ := List.mem_map.1 hr
    exact writableRow_of_text (hrows r' hr')
  have hread := readRecordsPos_write t.delimByte hd ((header :: rows).map (List.map utf8)) hw hbom
  unfold writeCsv
  dsimp only
  rw [hread]
  simp only [List.map_cons, headerOf_withLines, bodyOf_withLines, decodeRecord_utf8, decodePrefix_utf8]

theorem csvImportText_write (env : CsvEnv) (cfg : CsvCfg) (t : TextCfg) (lines : List Bytes) (header : List String)
    (rows : List (List String)) (hd : GoodDelim t.delimByte) (hskip : t.skipHead = lines.length)
    (hlines : ∀ l ∈ lines, TextLine l) (hrows : ∀ r ∈ header :: rows, WritableText r)
    (hbom : NoBom (writeCsv t.delimByte (header :: rows))) :
    csvImportText env cfg t (lines.flatten ++ writeCsv t.delimByte (header :: rows)) = csvImport env cfg header rows := by
  unfold csvImportText csvImport
  rw [csvImportTextFlagged_write env cfg t lines header rows hd hskip hlines hrows hbom]

/-- a text whose first byte is not `0xEF` does not begin with a byte order mark -/
theorem noBom_of_head (bs : Bytes) (h : bs.head? ≠ some 0xEF) : NoBom bs := by
  unfold NoBom stripBom
  split
  · simp at h
  · rfl

/-! ## totality and shape of the text layer -/

/-- **Totality of the text layer.**  `csv::import` from bytes either fails on a skipped line (`IO`), or on the header
(`CSV`), or is the importer model on the decoded header and the decoded records — all records, or the records in front of the
first undecodable one, after which (if they all pass) the error is `CSV`.  The reader itself never fails, needs no fuel
(`dfaStep_consumes`) and has no panic site. -/
theorem csvImportText_shape (env : CsvEnv) (cfg : CsvCfg) (t : TextCfg) (file : Bytes) :
    (skipHead t.skipHead.toNat file = .err .io ∧ csvImportTextFlagged env cfg t file = .err .io) ∨
    ∃ rest, skipHead t.skipHead.toNat file = .ok rest ∧
      ((decodeRecord (headerOf (readRecordsPos t.delimByte rest)) = none ∧ csvImportTextFlagged env cfg t file = .err .csv) ∨
       ∃ header good bad, decodeRecord (headerOf (readRecordsPos t.delimByte rest)) = some header ∧
         decodePrefix ((bodyOf (readRecordsPos t.delimByte rest)).map Prod.snd) = (good, bad) ∧
         ((bad = false ∧ csvImportTextFlagged env cfg t file = csvImportFlagged env cfg header good) ∨
          (bad = true ∧ ((∃ ts, csvImportFlagged env cfg header good = .ok ts ∧
                            csvImportTextFlagged env cfg t file = .err .csv) ∨
                          ((∀ ts, csvImportFlagged env cfg header good ≠ .ok ts) ∧
                            csvImportTextFlagged env cfg t file = csvImportFlagged env cfg header good))))) := by
  have hskip : ∀ n bs, skipHead n bs = .err .io ∨ ∃ rest, skipHead n bs = .ok rest := by
    intro n
    induction n with
    | zero => intro bs; exact Or.inr ⟨bs, rfl⟩
    | succ n ih =>
      intro bs
      unfold skipHead
      split
      · exact ih _
      · exact Or.inl rfl
  unfold csvImportTextFlagged
  rcases hskip t.skipHead.toNat file with h | ⟨rest, h⟩
  · exact Or.inl ⟨h, by rw [h]⟩
  · refine Or.inr ⟨rest, h, ?_⟩
    rw [h]
    simp only
    unfold csvImportBytesFlagged
    dsimp only
    cases hh : decodeRecord (headerOf (readRecordsPos t.delimByte rest)) with
    | none => exact Or.inl ⟨rfl, rfl⟩
    | some header =>
      refine Or.inr ⟨header, (decodePrefix ((bodyOf (readRecordsPos t.delimByte rest)).map Prod.snd)).1,
        (decodePrefix ((bodyOf (readRecordsPos t.delimByte rest)).map Prod.snd)).2, rfl, rfl, ?_⟩
      cases hp : decodePrefix ((bodyOf (readRecordsPos t.delimByte rest)).map Prod.snd) with
      | mk good bad =>
        cases bad with
        | false => exact Or.inl ⟨rfl, rfl⟩
        | true =>
          refine Or.inr ⟨rfl, ?_⟩
          dsimp only
          unfold csvImportFlagged
          cases hfm : FieldMap.tryNew cfg.fields header with
          | ok fm =>
            cases hr : csvRows env cfg fm good with
            | ok ts => exact Or.inl ⟨applyRowOrder cfg.rowOrder ts, by simp [hr], by simp [hr]⟩
            | err e => exact Or.inr ⟨by simp [hr], by simp [hr]⟩
            | panic s => exact Or.inr ⟨by simp [hr], by simp [hr]⟩
            | fuelOut => exact Or.inr ⟨by simp [hr], by simp [hr]⟩
          | err e => exact Or.inr ⟨by simp, by simp⟩
          | panic s => exact Or.inr ⟨by simp, by simp⟩
          | fuelOut => exact Or.inr ⟨by simp, by simp⟩

end Okane.Import.CsvText
