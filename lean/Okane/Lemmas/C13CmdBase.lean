import Okane.Lemmas.C13Perm
import Okane.Lemmas.Book
/-!
# C13, command level (1): "the same map up to the order of its entries" and the amount layer

`MEq m m'` (`m ≈ₘ m'`): `m` has distinct keys and `m'` is a permutation of `m` — the two lists are two possible
memory layouts of one `HashMap`.  This file proves that every operation of `Model/Amount.lean` maps `≈ₘ`-related
arguments to `≈ₘ`-related (or equal) results; `Outcome`s are compared by `ORel` (same constructor, related payload,
identical panic site).  Built on the per-operation lemmas of `Lemmas/C13Perm.lean`.
-/
set_option linter.unusedSectionVars false
set_option linter.unusedSimpArgs false
namespace Okane.C13
open Okane
variable {κ ν : Type} [DecidableEq κ]

/-! ## lists related element by element (core has no `Forall₂`) -/
section LRel
variable {α β γ δ : Type}

inductive LRel (R : α → β → Prop) : List α → List β → Prop
  | nil : LRel R [] []
  | cons {a b l l'} : R a b → LRel R l l' → LRel R (a :: l) (b :: l')

theorem LRel.refl {R : α → α → Prop} (h : ∀ a, R a a) : ∀ l, LRel R l l
  | [] => .nil
  | a :: l => .cons (h a) (LRel.refl h l)

theorem LRel.refl_of_mem {R : α → α → Prop} : ∀ (l : List α), (∀ a ∈ l, R a a) → LRel R l l
  | [], _ => .nil
  | a :: l, h => .cons (h a (by simp)) (LRel.refl_of_mem l (fun x hx => h x (List.mem_cons_of_mem _ hx)))

theorem LRel.of_eq {R : α → α → Prop} (h : ∀ a, R a a) {l l' : List α} (e : l = l') : LRel R l l' := by
  subst e; exact LRel.refl h l

theorem LRel.append {R : α → β → Prop} {l₁ l₂ : List α} {m₁ m₂ : List β} (h1 : LRel R l₁ m₁) (h2 : LRel R l₂ m₂) :
    LRel R (l₁ ++ l₂) (m₁ ++ m₂) := by
  induction h1 with
  | nil => exact h2
  | cons hab _ ih => exact .cons hab ih

theorem LRel.length_eq {R : α → β → Prop} {l : List α} {m : List β} (h : LRel R l m) : l.length = m.length := by
  induction h with
  | nil => rfl
  | cons _ _ ih => simp [ih]

theorem LRel.imp {R S : α → β → Prop} (hRS : ∀ a b, R a b → S a b) {l : List α} {m : List β} (h : LRel R l m) :
    LRel S l m := by
  induction h with
  | nil => exact .nil
  | cons hab _ ih => exact .cons (hRS _ _ hab) ih

theorem LRel.map {R : α → β → Prop} {S : γ → δ → Prop} (f : α → γ) (g : β → δ) (hfg : ∀ a b, R a b → S (f a) (g b))
    {l : List α} {m : List β} (h : LRel R l m) : LRel S (l.map f) (m.map g) := by
  induction h with
  | nil => exact .nil
  | cons hab _ ih => exact .cons (hfg _ _ hab) ih

/-- mapping related lists through functions that agree on related elements gives equal lists. -/
theorem LRel.map_eq {R : α → β → Prop} (f : α → γ) (g : β → γ) (hfg : ∀ a b, R a b → f a = g b)
    {l : List α} {m : List β} (h : LRel R l m) : l.map f = m.map g := by
  induction h with
  | nil => rfl
  | cons hab _ ih => simp [hfg _ _ hab, ih]

theorem LRel.symm {R : α → β → Prop} {S : β → α → Prop} (hRS : ∀ a b, R a b → S b a) {l : List α} {m : List β}
    (h : LRel R l m) : LRel S m l := by
  induction h with
  | nil => exact .nil
  | cons hab _ ih => exact .cons (hRS _ _ hab) ih

theorem LRel.trans {R : α → β → Prop} {S : β → γ → Prop} {T : α → γ → Prop} (hRST : ∀ a b c, R a b → S b c → T a c)
    {l : List α} {m : List β} {n : List γ} (h1 : LRel R l m) (h2 : LRel S m n) : LRel T l n := by
  induction h1 generalizing n with
  | nil => cases h2; exact .nil
  | cons hab _ ih => cases h2 with | cons hbc h2' => exact .cons (hRST _ _ _ hab hbc) (ih h2')

theorem LRel.getElem? {R : α → β → Prop} {l : List α} {m : List β} (h : LRel R l m) (i : Nat) :
    (l[i]? = none ∧ m[i]? = none) ∨ ∃ a b, l[i]? = some a ∧ m[i]? = some b ∧ R a b := by
  induction h generalizing i with
  | nil => simp
  | cons hab _ ih =>
    cases i with
    | zero => exact Or.inr ⟨_, _, rfl, rfl, hab⟩
    | succ i => simpa using ih i

theorem LRel.modify {R : α → β → Prop} {l : List α} {m : List β} (h : LRel R l m) (f : α → α) (g : β → β)
    (hfg : ∀ a b, R a b → R (f a) (g b)) (i : Nat) : LRel R (l.modify i f) (m.modify i g) := by
  induction h generalizing i with
  | nil => simp; exact .nil
  | cons hab htl ih =>
    cases i with
    | zero => simp; exact .cons (hfg _ _ hab) htl
    | succ i => simp; exact .cons hab (ih i)

theorem LRel.flatMap {R : α → β → Prop} {S : γ → δ → Prop} (f : α → List γ) (g : β → List δ)
    (hfg : ∀ a b, R a b → LRel S (f a) (g b)) {l : List α} {m : List β} (h : LRel R l m) :
    LRel S (l.flatMap f) (m.flatMap g) := by
  induction h with
  | nil => exact .nil
  | cons hab _ ih => simp only [List.flatMap_cons]; exact (hfg _ _ hab).append ih

end LRel

/-! ## outcomes related constructor by constructor -/
section ORel
variable {ε ε' α β : Type}

/-- the two runs end the same way: both return (related values), both fail (related errors), both reach the
same panic site, or both run out of fuel. -/
def ORel (E : ε → ε' → Prop) (R : α → β → Prop) : Outcome ε α → Outcome ε' β → Prop
  | .ok a, .ok b => R a b
  | .err e, .err e' => E e e'
  | .panic s, .panic s' => s = s'
  | .fuelOut, .fuelOut => True
  | _, _ => False

theorem ORel.imp {E E' : ε → ε' → Prop} {R R' : α → β → Prop} (hE : ∀ a b, E a b → E' a b) (hR : ∀ a b, R a b → R' a b)
    {x : Outcome ε α} {y : Outcome ε' β} (h : ORel E R x y) : ORel E' R' x y := by
  cases x <;> cases y <;> simp_all [ORel]

/-- with equality on both sides `ORel` is equality. -/
theorem ORel.eq {x y : Outcome ε α} (h : ORel (· = ·) (· = ·) x y) : x = y := by
  cases x <;> cases y <;> simp_all [ORel]

theorem ORel.of_eq {E : ε → ε → Prop} {R : α → α → Prop} (hE : ∀ e, E e e) (hR : ∀ a, R a a) (x : Outcome ε α) :
    ORel E R x x := by
  cases x <;> simp [ORel, hE, hR]

theorem ORel.map' {E : ε → ε' → Prop} {R : α → β → Prop} {γ δ : Type} {S : γ → δ → Prop} (f : α → γ) (g : β → δ)
    (hfg : ∀ a b, R a b → S (f a) (g b)) {x : Outcome ε α} {y : Outcome ε' β} (h : ORel E R x y) :
    ORel E S (x.map' f) (y.map' g) := by
  cases x <;> cases y <;> simp_all [ORel, Outcome.map']

end ORel

/-! ## `≈ₘ` -/

theorem nodup_of_WF {m : AMap κ ν} (h : AMap.WF m) : m.Nodup := by
  unfold AMap.WF AMap.keys at h
  rw [List.Nodup, List.pairwise_map] at h
  exact h.imp (fun hab heq => hab (by rw [heq]))

/-- two association lists with distinct keys that agree at every key are permutations of each other. -/
theorem perm_of_ext {m m' : AMap κ ν} (h : AMap.WF m) (h' : AMap.WF m') (he : Ext m m') : m.Perm m' := by
  rw [List.perm_ext_iff_of_nodup (nodup_of_WF h) (nodup_of_WF h')]
  intro ⟨k, v⟩
  constructor
  · intro hm
    have := AMap.get?_some_of_mem m h hm
    rw [he k] at this
    exact AMap.mem_of_get?_some m' this
  · intro hm
    have := AMap.get?_some_of_mem m' h' hm
    rw [← he k] at this
    exact AMap.mem_of_get?_some m this

/-- **the same hash map in two iteration orders.** -/
structure MEq (m m' : AMap κ ν) : Prop where
  wf : AMap.WF m
  perm : m.Perm m'

@[inherit_doc] scoped infix:50 " ≈ₘ " => MEq

namespace MEq

theorem wf' {m m' : AMap κ ν} (h : m ≈ₘ m') : AMap.WF m' := (WF_perm h.perm).1 h.wf
theorem ext {m m' : AMap κ ν} (h : m ≈ₘ m') : Ext m m' := Ext.of_perm h.perm h.wf
theorem get? {m m' : AMap κ ν} (h : m ≈ₘ m') (k : κ) : AMap.get? m k = AMap.get? m' k := h.ext k
theorem refl {m : AMap κ ν} (h : AMap.WF m) : m ≈ₘ m := ⟨h, List.Perm.refl _⟩
theorem symm {m m' : AMap κ ν} (h : m ≈ₘ m') : m' ≈ₘ m := ⟨h.wf', h.perm.symm⟩
theorem trans {a b c : AMap κ ν} (h1 : a ≈ₘ b) (h2 : b ≈ₘ c) : a ≈ₘ c := ⟨h1.wf, h1.perm.trans h2.perm⟩
theorem of_ext {m m' : AMap κ ν} (h : AMap.WF m) (h' : AMap.WF m') (he : Ext m m') : m ≈ₘ m' :=
  ⟨h, perm_of_ext h h' he⟩
theorem nil : ([] : AMap κ ν) ≈ₘ [] := refl AMap.WF_nil
theorem length_eq {m m' : AMap κ ν} (h : m ≈ₘ m') : m.length = m'.length := h.perm.length_eq

theorem eq_nil {m : AMap κ ν} (h : [] ≈ₘ m) : m = [] := List.nil_perm.1 h.perm
theorem eq_nil' {m : AMap κ ν} (h : m ≈ₘ []) : m = [] := List.perm_nil.1 h.perm

/-- `insert` (`HashMap::insert`, `entry().or_insert`) -/
theorem insert {m m' : AMap κ ν} (h : m ≈ₘ m') (k : κ) (v : ν) : AMap.insert m k v ≈ₘ AMap.insert m' k v :=
  of_ext (AMap.WF_insert _ _ _ h.wf) (AMap.WF_insert _ _ _ h.wf') (fun c => by simp [AMap.get?_insert, h.get? c])

/-- `remove` -/
theorem erase {m m' : AMap κ ν} (h : m ≈ₘ m') (k : κ) : AMap.erase m k ≈ₘ AMap.erase m' k :=
  of_ext (AMap.WF_erase _ _ h.wf) (AMap.WF_erase _ _ h.wf')
    (fun c => by simp [AMap.get?_erase _ h.wf, AMap.get?_erase _ h.wf', h.get? c])

theorem mapVals {ν' : Type} (f : ν → ν') {m m' : AMap κ ν} (h : m ≈ₘ m') : AMap.mapVals f m ≈ₘ AMap.mapVals f m' :=
  ⟨AMap.WF_mapVals _ _ h.wf, by unfold AMap.mapVals; exact h.perm.map _⟩

theorem mapValsK {ν' : Type} (f : κ → ν → ν') {m m' : AMap κ ν} (h : m ≈ₘ m') :
    AMap.mapValsK f m ≈ₘ AMap.mapValsK f m' :=
  ⟨AMap.WF_mapValsK _ _ h.wf, by unfold AMap.mapValsK; exact h.perm.map _⟩

/-- `retain` -/
theorem filterVals (p : ν → Bool) {m m' : AMap κ ν} (h : m ≈ₘ m') : AMap.filterVals p m ≈ₘ AMap.filterVals p m' :=
  ⟨AMap.WF_filterVals _ _ h.wf, by unfold AMap.filterVals; exact h.perm.filter _⟩

/-- a one-entry map has one layout. -/
theorem eq_of_short {m m' : AMap κ ν} (h : m ≈ₘ m') (hl : m.length ≤ 1) : m = m' := perm_short h.perm hl

/-- sorting by key gives the same list. -/
theorem sortByKey_eq {le : κ → κ → Bool} (ho : KeyOrder le) {m m' : AMap κ ν} (h : m ≈ₘ m') :
    sortByKey le m = sortByKey le m' := sortByKey_perm ho h.perm h.wf

end MEq

/-! ## amounts -/
namespace Amount
open Okane.Amount

theorem getPart_meq {a a' : Amount κ} (h : a ≈ₘ a') (c : κ) : getPart a c = getPart a' c :=
  getPart_ext h.ext c

theorem addSingle_meq {a a' : Amount κ} (h : a ≈ₘ a') (c : κ) (v : Rat) : addSingle a c v ≈ₘ addSingle a' c v := by
  unfold addSingle; rw [getPart_meq h c]; exact h.insert _ _

/-- `self += rhs`, both operands in any order. -/
theorem add_meq {a a' b b' : Amount κ} (ha : a ≈ₘ a') (hb : b ≈ₘ b') : add a b ≈ₘ add a' b' :=
  MEq.of_ext (WF_add _ _ ha.wf) (WF_add _ _ ha.wf')
    ((foldAdd_perm (fun v => v) hb.perm a).trans (foldAdd_ext (fun v => v) b' ha.ext))

theorem WF_sub (a b : Amount κ) (h : AMap.WF a) : AMap.WF (sub a b) := by
  unfold sub
  induction b generalizing a with
  | nil => exact h
  | cons x xs ih => exact ih _ (WF_addSingle _ _ _ h)

/-- `self -= rhs` -/
theorem sub_meq {a a' b b' : Amount κ} (ha : a ≈ₘ a') (hb : b ≈ₘ b') : sub a b ≈ₘ sub a' b' :=
  MEq.of_ext (WF_sub _ _ ha.wf) (WF_sub _ _ ha.wf')
    ((foldAdd_perm (fun v => -v) hb.perm a).trans (foldAdd_ext (fun v => -v) b' ha.ext))

theorem addPosting_meq {a a' : Amount κ} (h : a ≈ₘ a') (p : PostingAmt κ) : addPosting a p ≈ₘ addPosting a' p := by
  cases p with
  | zero => exact h
  | single s => exact addSingle_meq h _ _

theorem neg_meq {a a' : Amount κ} (h : a ≈ₘ a') : neg a ≈ₘ neg a' := h.mapVals _
theorem mulScalar_meq {a a' : Amount κ} (h : a ≈ₘ a') (r : Rat) : mulScalar a r ≈ₘ mulScalar a' r := h.mapVals _
theorem round_meq (prec : κ → Option Nat) {a a' : Amount κ} (h : a ≈ₘ a') : round prec a ≈ₘ round prec a' :=
  h.mapValsK _
theorem removeZero_meq {a a' : Amount κ} (h : a ≈ₘ a') : removeZero a ≈ₘ removeZero a' := h.filterVals _

theorem checkDiv_meq {a a' : Amount κ} (h : a ≈ₘ a') (r : Rat) :
    ORel (· = ·) (· ≈ₘ ·) (checkDiv a r) (checkDiv a' r) := by
  unfold checkDiv
  split
  · simp [ORel]
  · exact h.mapVals _

theorem isZero_meq {a a' : Amount κ} (h : a ≈ₘ a') : isZero a = isZero a' := by
  unfold isZero; exact h.perm.all_eq

/-- a function of the list that only looks at lists of length ≤ 1 (and is constant on longer ones). -/
theorem short_meq {β : Type} (f : Amount κ → β) (c : β) (hf : ∀ x y r, f (x :: y :: r) = c)
    {a a' : Amount κ} (h : a ≈ₘ a') : f a = f a' := by
  by_cases hl : a.length ≤ 1
  · rw [h.eq_of_short hl]
  · have hl' : ¬ a'.length ≤ 1 := by rw [← h.length_eq]; exact hl
    match a, a', hl, hl' with
    | _ :: _ :: _, _ :: _ :: _, _, _ => rw [hf, hf]
    | [], _, h1, _ => simp at h1
    | [_], _, h1, _ => simp at h1
    | _, [], _, h2 => simp at h2
    | _, [_], _, h2 => simp at h2

theorem isAbsoluteZero_meq {a a' : Amount κ} (h : a ≈ₘ a') : isAbsoluteZero a = isAbsoluteZero a' :=
  short_meq isAbsoluteZero false (fun _ _ _ => rfl) h
theorem toSingle_meq {a a' : Amount κ} (h : a ≈ₘ a') : toSingle a = toSingle a' :=
  short_meq toSingle (.err .singleAmountRequired) (fun _ _ _ => rfl) h
theorem toPosting_meq {a a' : Amount κ} (h : a ≈ₘ a') : toPosting a = toPosting a' :=
  short_meq toPosting (.err .postingAmountRequired) (fun _ _ _ => rfl) h

theorem WF_assertBalance (a : Amount κ) (h : AMap.WF a) (e : PostingAmt κ) : AMap.WF (assertBalance a e) := by
  cases e with
  | zero => simp only [assertBalance]; split; exact AMap.WF_nil; exact WF_neg _ h
  | single s => simp only [assertBalance]; split; exact AMap.WF_nil; simp [AMap.WF, AMap.keys]

theorem assertBalance_meq {a a' : Amount κ} (h : a ≈ₘ a') (e : PostingAmt κ) :
    assertBalance a e ≈ₘ assertBalance a' e := by
  cases e with
  | zero =>
    simp only [assertBalance, isZero_meq h]
    split
    · exact MEq.nil
    · exact neg_meq h
  | single s =>
    simp only [assertBalance, getPart_meq h s.commodity]
    exact MEq.refl (WF_assertBalance a' h.wf' (.single s))

theorem setPartial_meq {a a' : Amount κ} (h : a ≈ₘ a') (s : SingleAmount κ) :
    (setPartial a s).1 ≈ₘ (setPartial a' s).1 ∧ (setPartial a s).2 = (setPartial a' s).2 := by
  refine ⟨?_, by simp [setPartial, getPart_meq h]⟩
  simp only [setPartial]
  split
  · exact h.erase _
  · exact h.insert _ _

theorem toAmount_wf (p : PostingAmt κ) : AMap.WF p.toAmount := by
  cases p <;> simp [PostingAmt.toAmount, AMap.WF, AMap.keys]

end Amount

/-! ## printed forms -/

/-- the printed form of an amount (or of any map printed through `InlinePrintAmount`'s scheme). -/
theorem inlineDisplay_meq {le : κ → κ → Bool} (ho : KeyOrder le) (showEntry : κ → ν → String)
    {a a' : AMap κ ν} (h : a ≈ₘ a') :
    Okane.Amount.inlineDisplay le showEntry a = Okane.Amount.inlineDisplay le showEntry a' := by
  by_cases hl : a.length ≤ 1
  · rw [h.eq_of_short hl]
  · have hl' : ¬ a'.length ≤ 1 := by rw [← h.length_eq]; exact hl
    match a, a', hl, hl', h with
    | x :: y :: r, x' :: y' :: r', _, _, h =>
      simp only [Okane.Amount.inlineDisplay, h.sortByKey_eq ho]
    | [], _, h1, _, _ => simp at h1
    | [_], _, h1, _, _ => simp at h1
    | _, [], _, h2, _ => simp at h2
    | _, [_], _, h2, _ => simp at h2

theorem bkErrText_unbalanced_meq {leK : κ → κ → Bool} (hoK : KeyOrder leK) (showEntry : κ → Rat → String)
    {r r' : Amount κ} (h : r ≈ₘ r') :
    bkErrText leK showEntry (.unbalanced r) = bkErrText leK showEntry (.unbalanced r') := by
  have e := inlineDisplay_meq hoK showEntry h
  show "unbalanced postings: " ++ Okane.Amount.inlineDisplay leK showEntry r =
    "unbalanced postings: " ++ Okane.Amount.inlineDisplay leK showEntry r'
  rw [e]

theorem bkErrText_assertion_meq {leK : κ → κ → Bool} (hoK : KeyOrder leK) (showEntry : κ → Rat → String) (i : Nat)
    {c c' d d' : Amount κ} (hc : c ≈ₘ c') (hd : d ≈ₘ d') :
    bkErrText leK showEntry (.assertionFailure i c d) = bkErrText leK showEntry (.assertionFailure i c' d') := by
  have e1 := inlineDisplay_meq hoK showEntry hc
  have e2 := inlineDisplay_meq hoK showEntry hd
  show "balance assertion failed at posting " ++ toString i ++ ": computed " ++
      Okane.Amount.inlineDisplay leK showEntry c ++ " diff " ++ Okane.Amount.inlineDisplay leK showEntry d =
    "balance assertion failed at posting " ++ toString i ++ ": computed " ++
      Okane.Amount.inlineDisplay leK showEntry c' ++ " diff " ++ Okane.Amount.inlineDisplay leK showEntry d'
  rw [e1, e2]

/-! ## evaluated values -/

/-- `Evaluated`: numbers equal, amounts the same map. -/
def EvEq : Evaluated κ → Evaluated κ → Prop
  | .number r, .number r' => r = r'
  | .commodities a, .commodities a' => a ≈ₘ a'
  | _, _ => False

namespace EvEq
open Okane.Evaluated

theorem isZero {x x' : Evaluated κ} (h : EvEq x x') : x.isZero = x'.isZero := by
  cases x <;> cases x' <;> simp_all [EvEq, Evaluated.isZero]
  exact Amount.isZero_meq h

theorem negate {x x' : Evaluated κ} (h : EvEq x x') : EvEq x.negate x'.negate := by
  cases x <;> cases x' <;> simp_all [EvEq, Evaluated.negate]
  exact Amount.neg_meq h

theorem checkAdd {x x' y y' : Evaluated κ} (hx : EvEq x x') (hy : EvEq y y') :
    ORel (· = ·) EvEq (x.checkAdd y) (x'.checkAdd y') := by
  cases x <;> cases x' <;> cases y <;> cases y' <;> simp_all [EvEq, Evaluated.checkAdd, ORel]
  exact Amount.add_meq hx hy

theorem checkSub {x x' y y' : Evaluated κ} (hx : EvEq x x') (hy : EvEq y y') :
    ORel (· = ·) EvEq (x.checkSub y) (x'.checkSub y') := by
  cases x <;> cases x' <;> cases y <;> cases y' <;> simp_all [EvEq, Evaluated.checkSub, ORel]
  exact Amount.sub_meq hx hy

theorem checkMul {x x' y y' : Evaluated κ} (hx : EvEq x x') (hy : EvEq y y') :
    ORel (· = ·) EvEq (x.checkMul y) (x'.checkMul y') := by
  cases x <;> cases x' <;> cases y <;> cases y' <;> simp_all [EvEq, Evaluated.checkMul, ORel]
  · exact Amount.mulScalar_meq hy _
  · exact Amount.mulScalar_meq hx _

theorem toAmount {x x' : Evaluated κ} (h : EvEq x x') : ORel (· = ·) (· ≈ₘ ·) x.toAmount x'.toAmount := by
  match x, x', h with
  | .number r, .number r', h =>
    simp only [EvEq] at h; subst h
    simp only [Evaluated.toAmount]
    split
    · exact MEq.nil
    · simp [ORel]
  | .commodities a, .commodities a', h => exact h

theorem toPosting {x x' : Evaluated κ} (h : EvEq x x') : x.toPosting = x'.toPosting := by
  have := toAmount h
  unfold Evaluated.toPosting
  revert this
  cases x.toAmount <;> cases x'.toAmount <;> simp only [ORel] <;> intro h
  · exact Amount.toPosting_meq h
  all_goals first | rw [h] | exact h.elim | trivial

theorem toSingle {x x' : Evaluated κ} (h : EvEq x x') : x.toSingle = x'.toSingle := by
  have := toAmount h
  unfold Evaluated.toSingle
  revert this
  cases x.toAmount <;> cases x'.toAmount <;> simp only [ORel] <;> intro h
  · exact Amount.toSingle_meq h
  all_goals first | rw [h] | exact h.elim | trivial

theorem checkDiv {x x' y y' : Evaluated κ} (hx : EvEq x x') (hy : EvEq y y') :
    ORel (· = ·) EvEq (x.checkDiv y) (x'.checkDiv y') := by
  unfold Evaluated.checkDiv
  rw [isZero hy]
  split
  · simp [ORel]
  · match x, x', y, y', hx, hy with
    | .number a, .number a', .number b, .number b', hx, hy =>
      simp only [EvEq] at hx hy; subst hx; subst hy; simp [ORel, EvEq]
    | .commodities a, .commodities a', .number b, .number b', hx, hy =>
      simp only [EvEq] at hy; subst hy
      exact ORel.map' (S := EvEq) Evaluated.commodities Evaluated.commodities (fun _ _ h => h)
        (Amount.checkDiv_meq hx b)
    | .number a, .number a', .commodities b, .commodities b', hx, hy =>
      simp only [EvEq] at hx hy; subst hx
      simp only [Amount.toSingle_meq hy]
      cases Okane.Amount.toSingle b' <;> simp only [ORel]
      rename_i s
      simp only [SingleAmount.checkDiv]
      by_cases hz : s.value = 0
      · simp [hz, Outcome.map', ORel]
      · simp only [hz, if_false, Outcome.map', ORel, EvEq]
        exact MEq.refl (by simp [AMap.WF, AMap.keys])
    | .commodities a, .commodities a', .commodities b, .commodities b', _, _ => simp [ORel]
    | .number _, .commodities _, _, _, hx, _ => exact hx.elim
    | .commodities _, .number _, _, _, hx, _ => exact hx.elim
    | _, _, .number _, .commodities _, _, hy => exact hy.elim
    | _, _, .commodities _, .number _, _, hy => exact hy.elim

end EvEq

end Okane.C13
