import Okane.Lemmas.DocAcceptDecl
/-!
# Acceptance of the documented grammar — `ledger-file`

`DocAccept_ledger`: **every text that follows the documented ledger syntax (in the accepted dialect) is accepted by the
parser model**: `DocLedger Dialect.accepted t → ∃ es, parseEntries t = .ok es`.  The derivation may end its last line
with `<EOF>` instead of a line end (`new-line ::= "\r"? "\n" | <EOF>`), so the end-of-file clause of C05 is part of
the same statement; `DocAccept_ledger_eof` spells it out for a text whose last character is not a line feed.

The loop of `ParsedIter` is followed with the invariant `Inv j`: "from `j` the rest of the file is
`vertical-space* (directive vertical-space*)*`".  One entry of the parser may cover several adjacent `top-comment`
directives (`top_comment` reads all consecutive comment lines), hence the invariant is re-established after the
parser's entry rather than after the derivation's directive (`entry_accept`).
-/
set_option linter.unusedSimpArgs false
set_option linter.unusedVariables false
namespace Okane.DocAccept
open Okane Okane.Spec.Doc Okane.Comb Okane.Literal
open Okane.Unparse (StartsEntry)

local notation "𝔸" => Dialect.accepted

/-- the rest of the file after the separators: `(directive vertical-space*)*` up to the end -/
def Rest (m : List Char) : Prop := G.star (directive 𝔸 ⬝ G.star verticalSpace) m []
/-- the loop invariant of `ParsedIter`: `vertical-space* (directive vertical-space*)*` up to the end -/
def Inv (j : List Char) : Prop := ∃ m, G.star verticalSpace j m ∧ Rest m

/-! ## first characters of the directives -/

theorem digit_not_prefix {c : Char} (h : c.isDigit = true) :
    Parse.isCommentPrefix c = false ∧ c ≠ 'a' ∧ c ≠ 'c' ∧ c ≠ 'e' ∧ c ≠ 'i' ∧ c ≠ ' ' ∧ c ≠ '\t' ∧ c ≠ '\n' ∧ c ≠ '\r' := by
  obtain ⟨k, hk, rfl⟩ := digit_eq_digitChar h
  have : ∀ k, k < 10 → Parse.isCommentPrefix (digitChar k) = false ∧ digitChar k ≠ 'a' ∧ digitChar k ≠ 'c' ∧
      digitChar k ≠ 'e' ∧ digitChar k ≠ 'i' ∧ digitChar k ≠ ' ' ∧ digitChar k ≠ '\t' ∧ digitChar k ≠ '\n' ∧
      digitChar k ≠ '\r' := by decide
  exact this k hk

theorem prefix_not_letter {c : Char} (h : Parse.isCommentPrefix c = true) :
    c ≠ 'a' ∧ c ≠ 'c' ∧ c ≠ 'e' ∧ c ≠ 'i' ∧ c ≠ ' ' ∧ c ≠ '\t' ∧ c ≠ '\n' ∧ c ≠ '\r' := by
  simp only [Parse.isCommentPrefix, Bool.or_eq_true, beq_iff_eq] at h
  rcases h with (((rfl | rfl) | rfl) | rfl) | rfl <;> decide

theorem transaction_head {i r : List Char} (h : transaction 𝔸 i r) : ∃ c t, i = c :: t ∧ c.isDigit = true := by
  obtain ⟨_, ⟨_, ⟨_, hdate, _⟩, _⟩, _⟩ := h
  exact date_head hdate

theorem topLevelComment_split {i r : List Char} (h : topLevelComment i r) :
    ∃ m, topLine i m ∧ G.star topLine m r := h

/-- the first character of a directive, by kind -/
inductive DirKind (i : List Char) : Prop
  | txn (c : Char) (t : List Char) : i = c :: t → c.isDigit = true → DirKind i
  | comment (c : Char) (t : List Char) : i = c :: t → Parse.isCommentPrefix c = true → DirKind i
  | kw (kw : List Char) (t : List Char) : i = kw ++ t →
      (kw = Parse.kwAccount ∨ kw = Parse.kwCommodity ∨ kw = Parse.kwApply ∨ kw = Parse.kwEnd ∨ kw = Parse.kwInclude) →
      DirKind i

theorem directive_kind {i r : List Char} (h : directive 𝔸 i r) : DirKind i := by
  rcases h with h | h | h | h | h | h | h
  · obtain ⟨c, t, e, hc⟩ := transaction_head h
    exact .txn c t e hc
  · obtain ⟨m, hl, _⟩ := topLevelComment_split h
    obtain ⟨c, t, e, hc⟩ := topLine_head hl
    exact .comment c t e hc
  · obtain ⟨i1, hk, _⟩ := h
    exact .kw _ i1 (lit_eq Parse.kwAccount rfl hk) (by simp)
  · obtain ⟨i1, hk, _⟩ := h
    exact .kw _ i1 (lit_eq Parse.kwCommodity rfl hk) (by simp)
  · obtain ⟨_, ⟨i1, hk, _⟩, _⟩ := h
    exact .kw _ i1 (lit_eq Parse.kwApply rfl hk) (by simp)
  · obtain ⟨i1, hk, _⟩ := h
    exact .kw _ i1 (lit_eq Parse.kwEnd rfl hk) (by simp)
  · obtain ⟨i1, hk, _⟩ := h
    exact .kw _ i1 (lit_eq Parse.kwInclude rfl hk) (by simp)

theorem directive_startsEntry {i r : List Char} (h : directive 𝔸 i r) : StartsEntry i := by
  cases directive_kind h with
  | txn c t e hc =>
    obtain ⟨_, _, _, _, _, h1, h2, h3, h4⟩ := digit_not_prefix hc
    exact ⟨c, t, e, h3, h4, h1, h2⟩
  | comment c t e hc =>
    obtain ⟨_, _, _, _, h1, h2, h3, h4⟩ := prefix_not_letter hc
    exact ⟨c, t, e, h3, h4, h1, h2⟩
  | kw kw t e hk =>
    rcases hk with rfl | rfl | rfl | rfl | rfl <;>
      exact ⟨_, _, e, by decide, by decide, by decide, by decide⟩

/-! ## what follows a directive -/

theorem verticalSpace_blankStart {i r : List Char} (h : verticalSpace i r) : BlankStart i := by
  obtain ⟨k, hsp, hnl⟩ := h
  obtain ⟨s, rfl, hs⟩ := star_sp hsp
  refine ⟨s, k, rfl, hs, ?_⟩
  rcases newLine_cases hnl with rfl | rfl | ⟨rfl, rfl⟩
  · exact Or.inr (Or.inl ⟨_, rfl⟩)
  · exact Or.inr (Or.inr ⟨_, rfl⟩)
  · exact Or.inl rfl

theorem Inv.dirFollow {j : List Char} (h : Inv j) : DirFollow j := by
  obtain ⟨m, hvs, hrest⟩ := h
  cases hvs with
  | cons hv _ => exact Or.inl (verticalSpace_blankStart hv)
  | nil _ =>
    cases hrest with
    | nil _ => exact Or.inl ⟨[], [], rfl, by simp, Or.inl rfl⟩
    | cons hd _ =>
      obtain ⟨d1, hdir, _⟩ := hd
      exact Or.inr (directive_startsEntry hdir)

/-! ## the separator: `vertical_spaces` over `vertical-space*` -/

theorem verticalSpace_nil' {i m : List Char} (h : G.star verticalSpace i m) : i = [] → m = [] := by
  induction h with
  | nil _ => exact id
  | cons hv _ ih =>
    intro he
    subst he
    obtain ⟨k, hsp, hnl⟩ := hv
    obtain ⟨s, e, _⟩ := star_sp hsp
    have hk : k = [] := by
      cases s with
      | nil => simpa using e.symm
      | cons _ _ => cases e
    subst hk
    rcases newLine_cases hnl with e | e | ⟨_, rfl⟩
    · cases e
    · cases e
    · exact ih rfl

theorem verticalSpace_nil {m : List Char} (h : G.star verticalSpace [] m) : m = [] := verticalSpace_nil' h rfl

/-- one `vertical-space` that is not the empty one at the end of the file -/
theorem vsElem_accept {i r : List Char} (h : verticalSpace i r) (hne : i ≠ []) :
    Unparse.vsElem i = .ok () r ∧ r.length < i.length := by
  obtain ⟨k, hsp, hnl⟩ := h
  obtain ⟨s, rfl, hs⟩ := star_sp hsp
  have hkstop := newLine_stop_space hnl
  have hle := newLine_length hnl
  by_cases hs0 : s = []
  · subst hs0
    simp only [List.nil_append] at hne ⊢
    rcases newLine_cases hnl with rfl | rfl | ⟨rfl, rfl⟩
    · exact ⟨by simp [Unparse.vsElem, alt2, lineEnding], by simp⟩
    · exact ⟨by simp [Unparse.vsElem, alt2, lineEnding], by simp; omega⟩
    · exact absurd rfl hne
  · have hsp1 : space1 (s ++ k) = .ok s k := space1_append hs0 hs hkstop
    obtain ⟨c, t, rfl⟩ : ∃ c t, s = c :: t := by
      cases s with
      | nil => exact absurd rfl hs0
      | cons c t => exact ⟨c, t, rfl⟩
    have hc := hs c (by simp)
    have hc1 : c ≠ '\n' := by intro e; subst e; revert hc; decide
    have hc2 : c ≠ '\r' := by intro e; subst e; revert hc; decide
    have hle2 : (lineEnding <|| eof) k = .ok () r := by
      have := lineEndingOrEof_newLine hnl
      simpa [Parse.lineEndingOrEof] using this
    refine ⟨?_, by simp; omega⟩
    simp only [Unparse.vsElem, List.cons_append]
    rw [alt2_bt (z := c :: (t ++ k)) (lineEnding_bt hc1 hc2)]
    simp only [List.cons_append] at hsp1
    simp only [void_apply, pair_apply, hsp1, Res.andThen_ok, hle2, Res.map_ok]

/-- **`character::vertical_spaces` takes a documented `vertical-space*`** up to a directive or the end of the file -/
theorem verticalSpaces_accept {j m : List Char} (h : G.star verticalSpace j m) (hm : StartsEntry m ∨ m = []) :
    Parse.verticalSpaces j = .ok () m := by
  have key : ∀ (n : Nat) (acc : List Unit), j.length < n →
      ∃ acc', repeat0Loop Unparse.vsElem n j acc = .ok acc' m := by
    induction h with
    | nil _ =>
      intro n acc hn
      obtain ⟨z, hz⟩ := Unparse.vsElem_stop hm
      cases n with
      | zero => omega
      | succ n => exact ⟨acc, repeat0Loop_stop hz⟩
    | cons hv hs ih =>
      rename_i i i1 r
      intro n acc hn
      by_cases hne : i = []
      · subst hne
        -- the empty `vertical-space` at the end of the file
        have : r = [] := verticalSpace_nil (.cons hv hs)
        subst this
        obtain ⟨z, hz⟩ := Unparse.vsElem_stop (X := []) (Or.inr rfl)
        cases n with
        | zero => omega
        | succ n => exact ⟨acc, repeat0Loop_stop hz⟩
      · obtain ⟨h1, hlt⟩ := vsElem_accept hv hne
        cases n with
        | zero => omega
        | succ n =>
          obtain ⟨acc', h'⟩ := ih hm n (acc ++ [()]) (by omega)
          exact ⟨acc', by rw [repeat0Loop_step h1 hlt, h']⟩
  obtain ⟨acc', h'⟩ := key (j.length + 1) [] (by omega)
  have : Parse.verticalSpaces = void (repeat0 Unparse.vsElem) := rfl
  rw [this]
  simp only [void_apply, repeat0, h', Res.map_ok]

theorem Rest.start {m : List Char} (h : Rest m) : StartsEntry m ∨ m = [] := by
  cases h with
  | nil _ => exact Or.inr rfl
  | cons hd _ =>
    obtain ⟨d1, hdir, _⟩ := hd
    exact Or.inl (directive_startsEntry hdir)

/-! ## the greedy `top_comment` -/

/-- further comment lines of the current `top-comment`, then the rest of the file -/
def CommentCont (p : List Char) : Prop := ∃ m1, G.star topLine p m1 ∧ Inv m1

theorem blankStart_notPrefix {p : List Char} (h : BlankStart p) :
    ∀ c t, p = c :: t → Parse.isCommentPrefix c = false := by
  intro c t e
  obtain ⟨s, x, rfl, hs, hx⟩ := h
  cases s with
  | cons b s' =>
    simp only [List.cons_append] at e
    injection e with e _
    subst e
    have := hs b (by simp)
    simp only [Comb.isSpace, Bool.or_eq_true, beq_iff_eq] at this
    rcases this with rfl | rfl <;> rfl
  | nil =>
    simp only [List.nil_append] at e
    rcases hx with rfl | ⟨t', rfl⟩ | ⟨t', rfl⟩
    · cases e
    · injection e with e _; subst e; rfl
    · injection e with e _; subst e; rfl

/-- a directive that is not a `top-comment` does not begin with a comment prefix -/
theorem directive_notPrefix {p d1 : List Char}
    (h : transaction 𝔸 p d1 ∨ accountDeclaration p d1 ∨ commodityDeclaration 𝔸 p d1 ∨ applyTag 𝔸 p d1 ∨ endApplyTag p d1 ∨
      includeDirective p d1) : ∀ c t, p = c :: t → Parse.isCommentPrefix c = false := by
  intro c t e
  have hk : ∀ (kw : List Char) (r : List Char), p = kw ++ r → (∃ k l, kw = k :: l ∧ Parse.isCommentPrefix k = false) →
      Parse.isCommentPrefix c = false := by
    intro kw r hp ⟨k, l, hkw, hk⟩
    rw [hp, hkw] at e
    injection e with e _
    rw [← e]; exact hk
  rcases h with h | h | h | h | h | h
  · obtain ⟨c', t', e', hc'⟩ := transaction_head h
    rw [e'] at e
    injection e with e _
    rw [← e]; exact (digit_not_prefix hc').1
  · obtain ⟨i1, hk', _⟩ := h
    exact hk _ i1 (lit_eq Parse.kwAccount rfl hk') ⟨_, _, rfl, by decide⟩
  · obtain ⟨i1, hk', _⟩ := h
    exact hk _ i1 (lit_eq Parse.kwCommodity rfl hk') ⟨_, _, rfl, by decide⟩
  · obtain ⟨_, ⟨i1, hk', _⟩, _⟩ := h
    exact hk _ i1 (lit_eq Parse.kwApply rfl hk') ⟨_, _, rfl, by decide⟩
  · obtain ⟨i1, hk', _⟩ := h
    exact hk _ i1 (lit_eq Parse.kwEnd rfl hk') ⟨_, _, rfl, by decide⟩
  · obtain ⟨i1, hk', _⟩ := h
    exact hk _ i1 (lit_eq Parse.kwInclude rfl hk') ⟨_, _, rfl, by decide⟩

/-- the loop of `top_comment` runs through all adjacent comment lines — also those of following `top-comment`
directives — and leaves a position from which the rest of the file continues -/
theorem topLoop : ∀ (k : Nat) (p : List Char), p.length ≤ k → CommentCont p → ∀ (n : Nat) (acc : List (List Char)),
    p.length < n → ∃ acc' p', repeat0Loop topElem n p acc = .ok acc' p' ∧ Inv p' ∧ p'.length ≤ p.length := by
  intro k
  induction k with
  | zero =>
    intro p hk hc n acc hn
    have hp : p = [] := List.eq_nil_of_length_eq_zero (by omega)
    subst hp
    obtain ⟨m1, hs, hinv⟩ := hc
    cases n with
    | zero => omega
    | succ n =>
      cases hs with
      | cons hl _ => obtain ⟨c, t, e, _⟩ := topLine_head hl; cases e
      | nil _ =>
        obtain ⟨z, hz⟩ := topElem_bt (x := []) (by intro c t e; cases e)
        exact ⟨acc, [], repeat0Loop_stop hz, hinv, Nat.le_refl _⟩
  | succ k ih =>
    intro p hk hc n acc hn
    obtain ⟨m1, hs, hinv⟩ := hc
    cases n with
    | zero => omega
    | succ n =>
      -- the step on one more comment line
      have step : ∀ p2 m1', topLine p p2 → G.star topLine p2 m1' → Inv m1' →
          ∃ acc' p', repeat0Loop topElem (n + 1) p acc = .ok acc' p' ∧ Inv p' ∧ p'.length ≤ p.length := by
        intro p2 m1' hl hs' hinv'
        obtain ⟨a, ha, hlt⟩ := topElem_accept hl
        obtain ⟨acc', p', h', hi', hle⟩ := ih p2 (by omega) ⟨m1', hs', hinv'⟩ n (acc ++ [a]) (by omega)
        exact ⟨acc', p', by rw [repeat0Loop_step ha hlt, h'], hi', by omega⟩
      have stop : (∀ c t, p = c :: t → Parse.isCommentPrefix c = false) → Inv p →
          ∃ acc' p', repeat0Loop topElem (n + 1) p acc = .ok acc' p' ∧ Inv p' ∧ p'.length ≤ p.length := by
        intro hnp hi
        obtain ⟨z, hz⟩ := topElem_bt hnp
        exact ⟨acc, p, repeat0Loop_stop hz, hi, Nat.le_refl _⟩
      cases hs with
      | cons hl hs' => exact step _ _ hl hs' hinv
      | nil _ =>
        obtain ⟨m, hvs, hrest⟩ := id hinv
        cases hvs with
        | cons hv _ => exact stop (blankStart_notPrefix (verticalSpace_blankStart hv)) hinv
        | nil _ =>
          cases hrest with
          | nil _ => exact stop (by intro c t e; cases e) hinv
          | cons hd hrest' =>
            obtain ⟨d1, hdir, hvs1⟩ := id hd
            rcases hdir with h | h | h | h | h | h | h
            · exact stop (directive_notPrefix (Or.inl h)) hinv
            · obtain ⟨p2, hl, hs'⟩ := topLevelComment_split h
              exact step p2 d1 hl hs' ⟨_, hvs1, hrest'⟩
            · exact stop (directive_notPrefix (Or.inr (Or.inl h))) hinv
            · exact stop (directive_notPrefix (Or.inr (Or.inr (Or.inl h)))) hinv
            · exact stop (directive_notPrefix (Or.inr (Or.inr (Or.inr (Or.inl h))))) hinv
            · exact stop (directive_notPrefix (Or.inr (Or.inr (Or.inr (Or.inr (Or.inl h)))))) hinv
            · exact stop (directive_notPrefix (Or.inr (Or.inr (Or.inr (Or.inr (Or.inr h)))))) hinv

/-- **`directive::top_comment`** on a documented `top-comment` -/
theorem topComment_accept {m d1 : List Char} (h : topLevelComment m d1) (hinv : Inv d1) :
    ∃ e d', Parse.topComment m = .ok e d' ∧ Inv d' := by
  obtain ⟨p2, hl, hs⟩ := topLevelComment_split h
  obtain ⟨a, ha, hlt⟩ := topElem_accept hl
  obtain ⟨acc', p', h', hi', _⟩ := topLoop p2.length p2 (Nat.le_refl _) ⟨d1, hs, hinv⟩ (p2.length + 1) [a] (by omega)
  exact ⟨Entry.comment (String.ofList (acc'.flatMap fun l => l ++ ['\n'])), p',
    by simp only [Parse.topComment, Parse.multilineText, map_apply, repeat1, ha, h', Res.map_ok], hi'⟩

/-! ## one entry -/

theorem dispatch_cons (c : Char) (t : List Char) :
    Parse.parseLedgerEntry (c :: t) =
      (if c == 'a' then
        preceded (peek (literal Parse.kwAccount)) (cutErr Parse.accountDeclaration)
        <|| preceded (peek (literal Parse.kwApply)) (cutErr Parse.applyTag)
      else if c == 'c' then Parse.commodityDeclaration
      else if c == 'e' then Parse.endApplyTag
      else if c == 'i' then Parse.includeDirective
      else if Parse.isCommentPrefix c then Parse.topComment
      else if c.isDigit then map Entry.txn Parse.transaction
      else fail) (c :: t) := rfl

/-- **`parse_ledger_entry` accepts a documented directive** and leaves a position from which the rest of the file continues -/
theorem entry_accept {m d1 : List Char} (h : directive 𝔸 m d1) (hinv : Inv d1) :
    ∃ e d', Parse.parseLedgerEntry m = .ok e d' ∧ Inv d' ∧ d'.length < m.length := by
  have hfol := hinv.dirFollow
  have hres : ∃ e d', Parse.parseLedgerEntry m = .ok e d' ∧ Inv d' := by
    rcases h with h | h | h | h | h | h | h
    · obtain ⟨t, ht⟩ := transaction_accept h hfol
      obtain ⟨c, r, rfl, hc⟩ := transaction_head h
      obtain ⟨h0, h1, h2, h3, h4, _⟩ := digit_not_prefix hc
      exact ⟨.txn t, d1, by simp [dispatch_cons, h0, h1, h2, h3, h4, hc, ht], hinv⟩
    · obtain ⟨e, d', he, hi'⟩ := topComment_accept h hinv
      obtain ⟨p2, hl, _⟩ := topLevelComment_split h
      obtain ⟨c, r, rfl, hc⟩ := topLine_head hl
      obtain ⟨h1, h2, h3, h4, _⟩ := prefix_not_letter hc
      exact ⟨e, d', by simp [dispatch_cons, h1, h2, h3, h4, hc, he], hi'⟩
    · obtain ⟨e, he⟩ := accountDeclaration_accept h hfol
      obtain ⟨i1, hk, _⟩ := id h
      have hk' := lit_eq Parse.kwAccount rfl hk
      subst hk'
      have hpk : peek (literal Parse.kwAccount) (Parse.kwAccount ++ i1) = .ok Parse.kwAccount (Parse.kwAccount ++ i1) :=
        peek_ok (literal_append _ _)
      refine ⟨e, d1, ?_, hinv⟩
      show Parse.parseLedgerEntry ('a' :: _) = _
      rw [dispatch_cons]
      simp only [beq_self_eq_true, if_true]
      exact alt2_ok (by
        show (preceded (peek (literal Parse.kwAccount)) (cutErr Parse.accountDeclaration)) (Parse.kwAccount ++ i1) = _
        simp only [preceded_apply, hpk, Res.andThen_ok, cutErr_ok he])
    · obtain ⟨e, he⟩ := commodityDeclaration_accept h hfol
      obtain ⟨i1, hk, _⟩ := id h
      have hk' := lit_eq Parse.kwCommodity rfl hk
      subst hk'
      refine ⟨e, d1, ?_, hinv⟩
      show Parse.parseLedgerEntry ('c' :: _) = _
      rw [dispatch_cons]
      simp only [show ('c' == 'a') = false from rfl, Bool.false_eq_true, if_false, beq_self_eq_true, if_true]
      exact he
    · obtain ⟨e, he⟩ := applyTag_accept h
      obtain ⟨_, ⟨i1, hk, _⟩, _⟩ := id h
      have hk' := lit_eq Parse.kwApply rfl hk
      subst hk'
      have hpk : peek (literal Parse.kwApply) (Parse.kwApply ++ i1) = .ok Parse.kwApply (Parse.kwApply ++ i1) :=
        peek_ok (literal_append _ _)
      have hno : ∃ z, (preceded (peek (literal Parse.kwAccount)) (cutErr Parse.accountDeclaration)) (Parse.kwApply ++ i1) = .bt z :=
        ⟨Parse.kwApply ++ i1, by simp [Parse.kwApply, Parse.kwAccount, peek, literal]⟩
      obtain ⟨z, hz⟩ := hno
      refine ⟨e, d1, ?_, hinv⟩
      show Parse.parseLedgerEntry ('a' :: _) = _
      rw [dispatch_cons]
      simp only [beq_self_eq_true, if_true]
      show (preceded (peek (literal Parse.kwAccount)) (cutErr Parse.accountDeclaration) <||
        preceded (peek (literal Parse.kwApply)) (cutErr Parse.applyTag)) (Parse.kwApply ++ i1) = _
      rw [alt2_bt (z := z) hz]
      simp only [preceded_apply, hpk, Res.andThen_ok, cutErr_ok he]
    · obtain ⟨e, he⟩ := endApplyTag_accept h
      obtain ⟨i1, hk, _⟩ := id h
      have hk' := lit_eq Parse.kwEnd rfl hk
      subst hk'
      refine ⟨e, d1, ?_, hinv⟩
      show Parse.parseLedgerEntry ('e' :: _) = _
      rw [dispatch_cons]
      simp only [show ('e' == 'a') = false from rfl, show ('e' == 'c') = false from rfl, Bool.false_eq_true, if_false,
        beq_self_eq_true, if_true]
      exact he
    · obtain ⟨e, he⟩ := include_accept h
      obtain ⟨i1, hk, _⟩ := id h
      have hk' := lit_eq Parse.kwInclude rfl hk
      subst hk'
      refine ⟨e, d1, ?_, hinv⟩
      show Parse.parseLedgerEntry ('i' :: _) = _
      rw [dispatch_cons]
      simp only [show ('i' == 'a') = false from rfl, show ('i' == 'c') = false from rfl,
        show ('i' == 'e') = false from rfl, Bool.false_eq_true, if_false, beq_self_eq_true, if_true]
      exact he
  obtain ⟨e, d', he, hi'⟩ := hres
  have := Safe.length Parse.safe_parseLedgerEntry he
  exact ⟨e, d', he, hi', by omega⟩

/-! ## the file -/

/-- the loop of `ParsedIter` runs to the end of a documented file -/
theorem iter_accept (whole : List Char) : ∀ (k : Nat) (j : List Char), j.length ≤ k → Inv j →
    ∀ (n : Nat) (acc : List (Nat × Nat × Entry)), j.length < n →
      ∃ es, Parse.parsedIter Parse.parseLedgerEntry Parse.verticalSpaces whole n j acc = (es, .done) := by
  intro k
  induction k with
  | zero =>
    intro j hk hinv n acc hn
    have hj : j = [] := List.eq_nil_of_length_eq_zero (by omega)
    subst hj
    obtain ⟨m, hvs, hrest⟩ := hinv
    have hm : m = [] := verticalSpace_nil hvs
    subst hm
    cases n with
    | zero => omega
    | succ n =>
      have hsep := verticalSpaces_accept hvs (Or.inr rfl)
      exact ⟨acc, by simp [Parse.parsedIter, hsep]⟩
  | succ k ih =>
    intro j hk hinv n acc hn
    obtain ⟨m, hvs, hrest⟩ := hinv
    have hsep := verticalSpaces_accept hvs hrest.start
    have hmlen := Safe.length Parse.safe_verticalSpaces hsep
    cases n with
    | zero => omega
    | succ n =>
      cases hrest with
      | nil _ => exact ⟨acc, by simp [Parse.parsedIter, hsep]⟩
      | cons hd hrest' =>
        obtain ⟨d1, hdir, hvs1⟩ := hd
        obtain ⟨e, d', he, hi', hlt⟩ := entry_accept hdir ⟨_, hvs1, hrest'⟩
        obtain ⟨c, t, hm, _⟩ := directive_startsEntry hdir
        obtain ⟨es, hes⟩ := ih d' (by omega) hi' n
          (acc ++ [(utf8Len whole - utf8Len m, utf8Len whole - utf8Len d', e)]) (by omega)
        refine ⟨es, ?_⟩
        rw [Parse.parsedIter]
        simp only [hsep]
        rw [hm] at he ⊢
        simp only [List.isEmpty_cons, Bool.false_eq_true, if_false, he]
        rw [hm] at hes
        exact hes

/-- **C05, first clause.**  Every text that follows the documented ledger syntax — in the dialect `Dialect.accepted`, which
differs from the document by three decidable conditions on single lexemes, each shown necessary in `DocAcceptFindings` —
is accepted by the parser.  The last line of the text may be ended by the end of the file instead of a line end
(`new-line ::= "\r"? "\n" | <EOF>` is part of the grammar). -/
theorem DocAccept_ledger (t : List Char) (h : DocLedger 𝔸 t) : ∃ es, Parse.parseEntries t = .ok es := by
  obtain ⟨m, hvs, hrest⟩ := h
  obtain ⟨es, hes⟩ := iter_accept t t.length t (Nat.le_refl _) ⟨m, hvs, hrest⟩ (t.length + 1) [] (by omega)
  refine ⟨(es.map fun (s, t, x) => (⟨s, t, x⟩ : Parse.Parsed)).map (·.entry), ?_⟩
  simp only [Parse.parseEntries, Parse.parseLedger, Parse.parseLedgerRun, hes, Outcome.map']

/-- **C05, first clause, the end-of-file case spelled out**: a documented text whose last line is ended by the end of the
file (its last character is not a line feed) is accepted.  (An instance of `DocAccept_ledger`: `<EOF>` is one of the two
alternatives of `new-line`; `DocAcceptExamples.ex_ledger` is such a text.) -/
theorem DocAccept_ledger_eof (t : List Char) (h : DocLedger 𝔸 t) (hlast : t.getLast? ≠ some '\n') :
    ∃ es, Parse.parseEntries t = .ok es := DocAccept_ledger t h

end Okane.DocAccept
