import Okane.Lemmas.DocAcceptBase
import Okane.Lemmas.ExprParse
import Okane.Props.C07
/-!
# Acceptance of the documented grammar — primitives: `comma-decimal`, `commodity`, `date`

* `commaDecimal_wf`     — every documented `comma-decimal` is a `Spec.WellFormedLiteral` (the statement of C07);
* `prettyDecimal_accept`— hence (`C07.scan_ok_iff`) `primitive::pretty_decimal` accepts it when it is within
  `rust_decimal`'s range and is not followed by a digit, `,` or `.`;
* `commodity_accept`, `date_accept`.
-/
set_option linter.unusedSimpArgs false
set_option linter.unusedVariables false
namespace Okane.DocAccept
open Okane Okane.Spec.Doc Okane.Comb Okane.Literal

/-! ## `comma-integer` -/

/-- zero or more `"," number number number` -/
theorem groups_text {i r : List Char} (h : G.star (G.lit "," ⬝ number ⬝ number ⬝ number) i r) :
    ∃ x, i = x ++ r ∧ Spec.groupsOk x = true ∧ (∀ c ∈ x, isNumChar c = true ∧ c ≠ '.') ∧
      (∀ c cs, x = c :: cs → c.isDigit = false) := by
  induction h with
  | nil _ => exact ⟨[], rfl, rfl, by simp, by simp⟩
  | cons h _ ih =>
    obtain ⟨m1, h0, m2, ⟨a, rfl, ha⟩, m3, ⟨b, rfl, hb⟩, ⟨c, rfl, hc⟩⟩ := h
    rw [lit_iff] at h0
    subst h0
    obtain ⟨x, rfl, hx, hall, _⟩ := ih
    refine ⟨',' :: a :: b :: c :: x, rfl, by simp [Spec.groupsOk, ha, hb, hc, hx], ?_, ?_⟩
    · intro d hd
      simp only [List.mem_cons] at hd
      rcases hd with rfl | rfl | rfl | rfl | hd
      · exact ⟨by decide, by decide⟩
      · exact ⟨by simp [isNumChar, ha], (C07.digit_ne ha).2.2⟩
      · exact ⟨by simp [isNumChar, hb], (C07.digit_ne hb).2.2⟩
      · exact ⟨by simp [isNumChar, hc], (C07.digit_ne hc).2.2⟩
      · exact hall d hd
    · intro d ds e
      cases e
      rfl

/-- the two shapes of a `comma-integer`: a non-empty digit run `g`, then nothing, or one to three digits and comma groups -/
theorem commaInteger_text {i r : List Char} (h : commaInteger i r) :
    ∃ g x, i = g ++ (x ++ r) ∧ g ≠ [] ∧ g.all Char.isDigit = true ∧ Spec.intOk (g ++ x) = true ∧
      (∀ c ∈ x, isNumChar c = true ∧ c ≠ '.') ∧ (∀ c cs, x = c :: cs → c.isDigit = false) := by
  rcases h with h | ⟨m, ⟨m1, ⟨a, rfl, ha⟩, m2, hb, hc⟩, hg⟩
  · obtain ⟨g, rfl, hne, hg⟩ := plus_chr h
    have hall : g.all Char.isDigit = true := List.all_eq_true.mpr hg
    refine ⟨g, [], by simp, hne, hall, ?_, by simp, by simp⟩
    rw [C07.intOk_append g [] hall (by simp)]
    rfl
  · obtain ⟨x, rfl, hx, hxall, hxhead⟩ := groups_text hg
    -- the optional second and third digit
    have key : ∀ (g : List Char), g ≠ [] → g.length ≤ 3 → g.all Char.isDigit = true →
        ∃ g' x', g ++ (x ++ r) = g' ++ (x' ++ r) ∧ g' ≠ [] ∧ g'.all Char.isDigit = true ∧ Spec.intOk (g' ++ x') = true ∧
          (∀ c ∈ x', isNumChar c = true ∧ c ≠ '.') ∧ (∀ c cs, x' = c :: cs → c.isDigit = false) := by
      intro g hne hlen hall
      refine ⟨g, x, rfl, hne, hall, ?_, hxall, hxhead⟩
      rw [C07.intOk_append g x hall hxhead]
      have h1 : 1 ≤ g.length := by
        cases g with
        | nil => exact absurd rfl hne
        | cons _ _ => simp
      simp [h1, hlen, hx]
    rcases hb with ⟨b, rfl, hb⟩ | rfl
    · rcases hc with ⟨c, rfl, hc⟩ | rfl
      · exact key [a, b, c] (by simp) (by simp) (by simp [ha, hb, hc])
      · exact key [a, b] (by simp) (by simp) (by simp [ha, hb])
    · rcases hc with ⟨c, rfl, hc⟩ | rfl
      · exact key [a, c] (by simp) (by simp) (by simp [ha, hc])
      · exact key [a] (by simp) (by simp) (by simp [ha])

/-! ## `comma-decimal` -/

/-- the body (after the optional `-`) of a `comma-decimal` -/
def BodyShape (b : List Char) : Prop :=
  C07.bWF b = true ∧ b ≠ [] ∧ (∀ c ∈ b, isNumChar c = true) ∧ Spec.stripMinus b = b ∧
    ∃ c t, b = c :: t ∧ c.isDigit = true

theorem body_text {i r : List Char} (h : (commaInteger ⬝ G.opt (G.lit "." ⬝ G.star number)) i r) :
    ∃ b, i = b ++ r ∧ BodyShape b := by
  obtain ⟨m, hint, hfrac⟩ := h
  obtain ⟨g, x, rfl, hne, hall, hok, hxall, hxhead⟩ := commaInteger_text hint
  have hgnum : ∀ c ∈ g, isNumChar c = true := fun c hc => by
    simp [isNumChar, List.all_eq_true.mp hall c hc]
  have hxdot : ∀ c ∈ x, (fun y : Char => y != '.') c = true := fun c hc => by simpa using (hxall c hc).2
  obtain ⟨c0, g0, rfl⟩ : ∃ c t, g = c :: t := by
    cases g with
    | nil => exact absurd rfl hne
    | cons c t => exact ⟨c, t, rfl⟩
  have hc0 : c0.isDigit = true := List.all_eq_true.mp hall c0 (by simp)
  have hstrip : ∀ y : List Char, Spec.stripMinus (c0 :: y) = c0 :: y := by
    intro y
    have : c0 ≠ '-' := (C07.digit_ne hc0).1
    unfold Spec.stripMinus
    split <;> simp_all
  rcases hfrac with ⟨m2, hdot, hds⟩ | rfl
  · rw [lit_iff] at hdot
    obtain ⟨ds, rfl, hdig⟩ := star_chr hds
    have hm : x ++ m = x ++ ('.' :: (ds ++ r)) := by rw [hdot]; rfl
    refine ⟨(c0 :: g0) ++ (x ++ '.' :: ds), by rw [hm]; simp, ?_, by simp, ?_, by simpa using hstrip _,
      c0, _, rfl, hc0⟩
    · unfold C07.bWF
      have h1 : C07.bIntPart ((c0 :: g0) ++ (x ++ '.' :: ds)) = (c0 :: g0) ++ x := by
        rw [C07.bIntPart_append _ _ hall]
        congr 1
        exact takeWhile_append_stop (p := fun y => y != '.') hxdot (by simp)
      have h2 : C07.bFracPart ((c0 :: g0) ++ (x ++ '.' :: ds)) = ds := by
        rw [C07.bFracPart_append _ _ hall, dropWhile_append_stop (p := fun y => y != '.') hxdot (by simp)]
        rfl
      rw [h1, h2, hok, C07.any_append_digits _ _ hall]
      simp [List.all_eq_true.mpr hdig]
    · intro c hc
      simp only [List.mem_append, List.mem_cons] at hc
      rcases hc with hc | hc | rfl | hc
      · exact hgnum c (by simpa using hc)
      · exact (hxall c hc).1
      · decide
      · simp [isNumChar, hdig c hc]
  · refine ⟨(c0 :: g0) ++ x, by simp, ?_, by simp, ?_, by simpa using hstrip _, c0, _, rfl, hc0⟩
    · unfold C07.bWF
      have h1 : C07.bIntPart ((c0 :: g0) ++ x) = (c0 :: g0) ++ x := by
        rw [C07.bIntPart_append _ _ hall]
        congr 1
        simpa using takeWhile_append_stop (p := fun y => y != '.') (rest := []) hxdot (by simp)
      have h2 : C07.bFracPart ((c0 :: g0) ++ x) = [] := by
        rw [C07.bFracPart_append _ _ hall]
        have := dropWhile_append_stop (p := fun y => y != '.') (rest := []) hxdot (by simp)
        simp only [List.append_nil] at this
        rw [this]
        rfl
      rw [h1, h2, hok, C07.any_append_digits _ _ hall]
      simp
    · intro c hc
      simp only [List.mem_append] at hc
      rcases hc with hc | hc
      · exact hgnum c hc
      · exact (hxall c hc).1

/-- the text of a `comma-decimal`: an optional `-` and a body -/
theorem commaDecimal_text {i r : List Char} (h : commaDecimal i r) :
    ∃ s b, i = s ++ r ∧ (s = b ∨ s = '-' :: b) ∧ BodyShape b := by
  obtain ⟨m, hsign, hbody⟩ := h
  obtain ⟨b, rfl, hb⟩ := body_text hbody
  rcases hsign with hs | rfl
  · rw [lit_iff] at hs
    exact ⟨'-' :: b, b, by rw [hs]; rfl, Or.inr rfl, hb⟩
  · exact ⟨b, b, rfl, Or.inl rfl, hb⟩

/-- **every documented `comma-decimal` is a well-formed literal in the sense of C07** -/
theorem commaDecimal_wf {s r : List Char} (h : commaDecimal (s ++ r) r) : Spec.WellFormedLiteral s = true := by
  obtain ⟨s', b, he, hs, hwf, _, _, hstrip, _⟩ := commaDecimal_text h
  have : s = s' := List.append_cancel_right he
  subst this
  rw [C07.wf_eq_bWF]
  rcases hs with rfl | rfl
  · rw [hstrip]; exact hwf
  · exact hwf

/-- the token `pretty_decimal` cuts: the literal, when what follows does not continue it -/
theorem prettyDecimal_of_shape {s b X : List Char} (hs : s = b ∨ s = '-' :: b) (hb : BodyShape b)
    (hrep : Spec.Representable s = true) (hX : ExprParse.stops isNumChar X = true) :
    ExprSyntax.prettyDecimal (s ++ X) = .ok (C07.litDec s) X := by
  obtain ⟨hwf, hne, hall, hstrip, _⟩ := hb
  have hwfs : Spec.WellFormedLiteral s = true := by
    rw [C07.wf_eq_bWF]
    rcases hs with rfl | rfl
    · rw [hstrip]; exact hwf
    · exact hwf
  have hscan : scan s = .ok (C07.litDec s) := (C07.scan_ok_iff s _).mpr ⟨⟨hwfs, hrep⟩, rfl⟩
  have hshape : ExprParse.TokenShape s := ExprParse.scan_ok_shape hscan
  simp [ExprSyntax.prettyDecimal, ExprParse.tokenSplit_shape hshape hX, hscan]

/-- in the accepted dialect the side condition of a `comma-decimal` is `Representable`; it does not depend on the sign -/
theorem representable_body {b : List Char} (hstrip : Spec.stripMinus b = b) :
    Spec.Representable ('-' :: b) = Spec.Representable b := by
  rw [C07.rep_eq_bRep, C07.rep_eq_bRep, hstrip]
  rfl

/-- **`primitive::pretty_decimal` accepts a documented `comma-decimal` within range** that is followed by anything but a
digit, `,` or `.` -/
theorem prettyDecimal_accept {i r : List Char} (h : (commaDecimal.sat Dialect.accepted.numOk) i r)
    (hr : ExprParse.stops isNumChar r = true) : ∃ d, ExprSyntax.prettyDecimal i = .ok d r := by
  obtain ⟨hcd, s, rfl, hrep⟩ := h
  obtain ⟨s', b, he, hs, hb⟩ := commaDecimal_text hcd
  have : s = s' := List.append_cancel_right he
  subst this
  exact ⟨_, prettyDecimal_of_shape hs hb hrep hr⟩

/-- the same literal without its sign (the parser reads a leading `-` of an operand as the unary operator) -/
theorem prettyDecimal_accept_unsigned {i r : List Char} (h : (commaDecimal.sat Dialect.accepted.numOk) ('-' :: i) r)
    (hr : ExprParse.stops isNumChar r = true) : ∃ d, ExprSyntax.prettyDecimal i = .ok d r := by
  obtain ⟨hcd, s, he0, hrep⟩ := h
  obtain ⟨s', b, he, hs, hb⟩ := commaDecimal_text hcd
  have : s = s' := List.append_cancel_right (he0.symm.trans he)
  subst this
  have hbne : ∀ t, b ≠ '-' :: t := by
    intro t e
    have := hb.2.2.1 '-' (by rw [e]; simp)
    revert this; decide
  rcases hs with rfl | rfl
  · obtain ⟨c, t, rfl⟩ : ∃ c t, s = c :: t := by
      cases s with
      | nil => exact absurd rfl hb.2.1
      | cons c t => exact ⟨c, t, rfl⟩
    simp only [List.cons_append, List.cons.injEq] at he0
    exact absurd (he0.1 ▸ rfl) (hbne t)
  · simp only [List.cons_append, List.cons.injEq, true_and] at he0
    subst he0
    have hrep' : Spec.Representable b = true := by rw [← representable_body hb.2.2.2.1]; exact hrep
    exact ⟨_, prettyDecimal_of_shape (Or.inl rfl) hb hrep' hr⟩

/-- the first character of a `comma-decimal` -/
theorem commaDecimal_head {i r : List Char} (h : commaDecimal i r) :
    ∃ c t, i = c :: t ∧ (c = '-' ∨ c.isDigit = true) := by
  obtain ⟨s, b, rfl, hs, _, _, _, _, c, t, rfl, hc⟩ := commaDecimal_text h
  rcases hs with rfl | rfl
  · exact ⟨c, t ++ r, rfl, Or.inr hc⟩
  · exact ⟨'-', (c :: t) ++ r, rfl, Or.inl rfl⟩

/-! ## `commodity` -/

theorem isCommodityChar_eq : Spec.Doc.isCommodityChar = ExprSyntax.isCommodityChar := by
  funext c
  have hp : nonCommodity.Perm ExprSyntax.nonCommodityChars := by decide
  have : nonCommodity.contains c = ExprSyntax.nonCommodityChars.contains c := by
    rw [Bool.eq_iff_iff]
    simp only [List.contains_iff_mem]
    exact hp.mem_iff
  simp only [Spec.Doc.isCommodityChar, ExprSyntax.isCommodityChar, this]

/-- `primitive::commodity` takes a documented `commodity?` exactly, if what follows is not a commodity character -/
theorem commodity_accept {i r : List Char} (h : G.opt commodity i r)
    (hr : ExprParse.stops ExprSyntax.isCommodityChar r = true) :
    ∃ c, ExprSyntax.commodity i = (c, r) := by
  have key : ∀ s : List Char, (∀ c ∈ s, ExprSyntax.isCommodityChar c = true) → ExprSyntax.commodity (s ++ r) = (s, r) := by
    intro s hs
    simp [ExprSyntax.commodity, ExprParse.takeWhile_append_stops hs hr, ExprParse.dropWhile_append_stops hs hr]
  rcases h with h | rfl
  · obtain ⟨s, rfl, _, hs⟩ := plus_chr h
    exact ⟨s, key s (by rw [← isCommodityChar_eq]; exact hs)⟩
  · exact ⟨[], by simpa using key [] (by simp)⟩

/-! ## `date` -/

theorem digitsVal_eq (ds : List Char) : Parse.digitsVal ds = Spec.digitsValue ds := rfl

/-- `(digit1, sep, digit1, sep, digit1)` on a documented date that is not followed by a digit -/
theorem dateShape_accept (sep : Char) (hsep : sep.isDigit = false) {y m d r : List Char}
    (hy : y ≠ []) (hm : m ≠ []) (hd : d ≠ []) (hall : ∀ c ∈ y ++ (m ++ d), c.isDigit = true)
    (hr : Stop Char.isDigit r) :
    Parse.dateShape sep (y ++ sep :: (m ++ sep :: (d ++ r))) = .ok (y, m, d) r := by
  have hy' : ∀ c ∈ y, c.isDigit = true := fun c hc => hall c (by simp [hc])
  have hm' : ∀ c ∈ m, c.isDigit = true := fun c hc => hall c (by simp [hc])
  have hd' : ∀ c ∈ d, c.isDigit = true := fun c hc => hall c (by simp [hc])
  have h1 : digit1 (y ++ sep :: (m ++ sep :: (d ++ r))) = .ok y (sep :: (m ++ sep :: (d ++ r))) :=
    takeWhile1_append hy hy' (by simp [hsep])
  have h2 : digit1 (m ++ sep :: (d ++ r)) = .ok m (sep :: (d ++ r)) := takeWhile1_append hm hm' (by simp [hsep])
  have h3 : digit1 (d ++ r) = .ok d r := takeWhile1_append hd hd' hr
  simp [Parse.dateShape, h1, h2, h3]

theorem dateShape_bt_other {sep sep' : Char} (hne : sep' ≠ sep) (hsep : sep'.isDigit = false) {y X : List Char}
    (hy : y ≠ []) (hall : ∀ c ∈ y, c.isDigit = true) :
    ∃ z, Parse.dateShape sep (y ++ sep' :: X) = .bt z := by
  have h1 : digit1 (y ++ sep' :: X) = .ok y (sep' :: X) := takeWhile1_append hy hall (by simp [hsep])
  exact ⟨sep' :: X, by simp [Parse.dateShape, h1, char_cons_ne hne]⟩

/-- **`primitive::date` accepts a documented date** that is not followed by a digit -/
theorem date_accept {i r : List Char} (h : date i r) (hr : Stop Char.isDigit r) : ∃ dt, Parse.date i = .ok dt r := by
  have hlen : ∀ {l : List Char} {n : Nat}, l.length = n + 1 → l ≠ [] := by
    intro l n hl e; subst e; simp at hl
  rcases h with ⟨y, m, d, rfl, hy, hm, hd, hall, hv⟩ | ⟨y, m, d, rfl, hy, hm, hd, hall, hv⟩
  · have hs := dateShape_accept '/' (by decide) (hlen hy) (hlen hm) (hlen hd) hall hr
    refine ⟨⟨(Spec.digitsValue y : Nat), Spec.digitsValue m, Spec.digitsValue d⟩, ?_⟩
    simp only [Parse.date, tryMap, alt2_ok hs, Parse.dateOf, digitsVal_eq]
    simp [hy, hm, hd, hv]
  · obtain ⟨z, hz⟩ := dateShape_bt_other (sep := '/') (sep' := '-') (by decide) (by decide) (X := m ++ '-' :: (d ++ r))
      (hlen hy) (fun c hc => hall c (by simp [hc]))
    have hs := dateShape_accept '-' (by decide) (hlen hy) (hlen hm) (hlen hd) hall hr
    refine ⟨⟨(Spec.digitsValue y : Nat), Spec.digitsValue m, Spec.digitsValue d⟩, ?_⟩
    simp only [Parse.date, tryMap, alt2_bt hz, hs, Parse.dateOf, digitsVal_eq]
    simp [hy, hm, hd, hv]

/-- a date begins with a digit -/
theorem date_head {i r : List Char} (h : date i r) : ∃ c t, i = c :: t ∧ c.isDigit = true := by
  rcases h with ⟨y, m, d, rfl, hy, hm, hd, hall, hv⟩ | ⟨y, m, d, rfl, hy, hm, hd, hall, hv⟩ <;>
  · cases y with
    | nil => simp at hy
    | cons c t => exact ⟨c, _, rfl, hall c (by simp)⟩

/-! ## non-vacuity -/

example : commaDecimal "1,234.50 USD".toList " USD".toList :=
  ⟨_, Or.inr rfl, _, Or.inr ⟨_, ⟨_, ⟨'1', rfl, rfl⟩, _, Or.inr rfl, Or.inr rfl⟩,
    .cons ⟨_, rfl, _, ⟨'2', rfl, rfl⟩, _, ⟨'3', rfl, rfl⟩, ⟨'4', rfl, rfl⟩⟩ (.nil _)⟩,
    Or.inl ⟨_, rfl, .cons ⟨'5', rfl, rfl⟩ (.cons ⟨'0', rfl, rfl⟩ (.nil _))⟩⟩

example : date "2024/02/29 x".toList " x".toList :=
  Or.inl ⟨"2024".toList, "02".toList, "29".toList, rfl, rfl, rfl, rfl, by decide, by decide⟩

end Okane.DocAccept
