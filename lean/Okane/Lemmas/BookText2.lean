import Okane.Lemmas.BookText
import Okane.Lemmas.Alias
/-!
# C02 / C03 / C04 at the level of ledger TEXT: the parser model composed with `process`

`Lemmas/BookText.lean` lifted C01.  Here the same for the statements about balance assertions (C02), inferred and assigned
amounts (C03) and the reports (C04).  Every theorem quantifies over **texts**: the entries are `Parse.parseEntries t`
(the parser model, total, validated against `parse_ledger` by the C05 / C06 / C14 streams) and nothing is assumed about
them.

The tree-level theorems (`C02_holds`, `C02_reject`, `C03_assign`, `C03_omitted`, …) speak about one *resolved* posting
step.  The glue proved here, once and for all:

* `process_prefix` — an accepted run passes through the state after every prefix of the entries;
* `loopSyntax_split` — the posting loop of a syntax transaction, cut at posting `j`: the postings before it were
  resolved and applied, posting `j` is resolved in the context they left, applied to the state they left, and the rest
  follows;
* `resolvePosting_ok` — what name resolution makes of a syntax posting: the account is the canonical name of the account
  written, the amount is absent exactly when none is written, the assertion is the evaluation of the `= X` written
  (in the commodity store in force at that point, `balStore`);
* `loopSyntax_resolved`, `TxnRun`, `txnRun_of_accepted`, `TxnRun.at`, `TxnRun.final` — an accepted transaction entry opened
  up completely: THE resolved postings (pinned to the text), the core loop on them, the tail of `add_transaction`
  (`finishG_posting`), the slot of the bare line (`loopPostings_unfilled`).

Text-level theorems of this file: `C02_text_holds`, `C02_text_reject`; `C03_text_assign`, `C03_text_omitted`,
`C03_text_two`; `C04_text_register_total`, `C04_text_additive`, `C04_text_range` (with `registerTotal`, `register_last`).
Continued in `BookText3.lean` (file order / F12, "after the transaction", frame), `BookText4.lean` / `BookText6.lean` (C12),
`BookText5.lean` (what is written: the parser facts).  Non-vacuity on real texts: `Props/C02Text.lean` … `C12Text.lean`.
-/
set_option linter.unusedSectionVars false
set_option linter.unusedVariables false
namespace Okane.BookText
open Okane Okane.Spec

/-- the text `t` denotes the ledger `st`: it parses (to `es`) and book-keeping accepts the parsed entries -/
def Denotes (t : List Char) (es : List Entry) (st : ProcState) : Prop :=
  Parse.parseEntries t = .ok es ∧ process es = .ok st

theorem Denotes.accepts {t : List Char} {es : List Entry} {st : ProcState} (h : Denotes t es st) : okaneAccepts t :=
  ⟨es, st, h.1, h.2⟩

theorem okaneAccepts_iff (t : List Char) : okaneAccepts t ↔ ∃ es st, Denotes t es st := Iff.rfl

/-! ## prefixes of an accepted run -/

/-- an accepted run passes through the state after every prefix -/
theorem processFrom_prefix (es : List Entry) (st0 st : ProcState) (i k : Nat) (h : processFrom st0 i es = .ok st) :
    ∃ stk, processFrom st0 i (es.take k) = .ok stk ∧ processFrom stk (i + (es.take k).length) (es.drop k) = .ok st := by
  have hsplit : es = es.take k ++ es.drop k := (List.take_append_drop k es).symm
  rw [hsplit, processFrom_append] at h
  cases hp : processFrom st0 i (es.take k) with
  | ok stk =>
    rw [hp] at h
    exact ⟨stk, rfl, h⟩
  | err x => rw [hp] at h; simp at h
  | panic x => rw [hp] at h; simp at h
  | fuelOut => rw [hp] at h; simp at h

/-- … in particular through the state before and after entry `k` -/
theorem process_at (es : List Entry) (st : ProcState) (k : Nat) (hk : k < es.length) (h : process es = .ok st) :
    ∃ stk stk', process (es.take k) = .ok stk ∧ stepEntry stk es[k] = .ok stk' ∧
      process (es.take (k + 1)) = .ok stk' ∧ processFrom stk' (k + 1) (es.drop (k + 1)) = .ok st := by
  unfold process at h ⊢
  obtain ⟨stk, h1, h2⟩ := processFrom_prefix es {} st 0 k h
  have hlen : (es.take k).length = k := by simp; omega
  rw [hlen, Nat.zero_add] at h2
  have hd : es.drop k = es[k] :: es.drop (k + 1) := by simp
  rw [hd] at h2
  simp only [processFrom] at h2
  cases hs : stepEntry stk es[k] with
  | ok stk' =>
    rw [hs] at h2
    refine ⟨stk, stk', h1, hs, ?_, h2⟩
    have ht : es.take (k + 1) = es.take k ++ [es[k]] := by simp
    rw [ht, processFrom_append, h1]
    simp [processFrom, hs]
  | err x => rw [hs] at h2; simp at h2
  | panic x => rw [hs] at h2; simp at h2
  | fuelOut => rw [hs] at h2; simp at h2

/-- transactions are only ever appended -/
theorem stepEntry_txns (st st' : ProcState) (e : Entry) (h : stepEntry st e = .ok st') :
    ∃ more, st'.txns = st.txns ++ more := by
  cases e with
  | txn t =>
    simp only [stepEntry] at h
    cases ha : addTransactionSyntax st.ctx st.bal t with
    | ok x =>
      obtain ⟨c', r⟩ := x
      rw [ha] at h
      simp only [Outcome.ok.injEq] at h
      subst h
      exact ⟨[r.txn], rfl⟩
    | err x => rw [ha] at h; simp at h
    | panic x => rw [ha] at h; simp at h
    | fuelOut => rw [ha] at h; simp at h
  | account name details =>
    simp only [stepEntry] at h
    split at h
    · split at h
      · simp only [Outcome.ok.injEq] at h; subst h; exact ⟨[], by simp⟩
      all_goals simp at h
    all_goals simp at h
  | commodity name details =>
    simp only [stepEntry] at h
    split at h
    · split at h
      · simp only [Outcome.ok.injEq] at h; subst h; exact ⟨[], by simp⟩
      all_goals simp at h
    all_goals simp at h
  | comment s => simp only [stepEntry, Outcome.ok.injEq] at h; subst h; exact ⟨[], by simp⟩
  | applyTag k v => simp only [stepEntry, Outcome.ok.injEq] at h; subst h; exact ⟨[], by simp⟩
  | endApplyTag => simp only [stepEntry, Outcome.ok.injEq] at h; subst h; exact ⟨[], by simp⟩
  | «include» p => simp only [stepEntry, Outcome.ok.injEq] at h; subst h; exact ⟨[], by simp⟩

theorem processFrom_txns (es : List Entry) (st st' : ProcState) (i : Nat) (h : processFrom st i es = .ok st') :
    ∃ more, st'.txns = st.txns ++ more := by
  induction es generalizing st i with
  | nil => simp only [processFrom, Outcome.ok.injEq] at h; subst h; exact ⟨[], by simp⟩
  | cons e es ih =>
    simp only [processFrom] at h
    cases hs : stepEntry st e with
    | ok st1 =>
      rw [hs] at h
      obtain ⟨m1, h1⟩ := stepEntry_txns st st1 e hs
      obtain ⟨m2, h2⟩ := ih st1 (i + 1) h
      exact ⟨m1 ++ m2, by rw [h2, h1, List.append_assoc]⟩
    | err x => rw [hs] at h; simp at h
    | panic x => rw [hs] at h; simp at h
    | fuelOut => rw [hs] at h; simp at h

/-- what the step of a transaction entry does, when it is accepted -/
theorem stepEntry_txn_ok (stk stk' : ProcState) (txn : Transaction) (h : stepEntry stk (.txn txn) = .ok stk') :
    ∃ c' r, addTransactionSyntax stk.ctx stk.bal txn = .ok (c', r) ∧
      stk' = { ctx := c', bal := r.bal, txns := stk.txns ++ [r.txn], events := stk.events ++ r.events } := by
  simp only [stepEntry] at h
  cases ha : addTransactionSyntax stk.ctx stk.bal txn with
  | ok x =>
    obtain ⟨c', r⟩ := x
    rw [ha] at h
    simp only [Outcome.ok.injEq] at h
    exact ⟨c', r, rfl, h.symm⟩
  | err x => rw [ha] at h; simp at h
  | panic x => rw [ha] at h; simp at h
  | fuelOut => rw [ha] at h; simp at h

/-! ## the posting loop of a syntax transaction, cut at one posting -/

theorem loopSyntax_append (date : Date) (ps1 ps2 : List Posting) (c : Ctx) (st : TxnState String String) (idx : Nat) :
    loopSyntax date c st idx (ps1 ++ ps2) =
      match loopSyntax date c st idx ps1 with
      | .ok (c1, st1) => loopSyntax date c1 st1 (idx + ps1.length) ps2
      | .err e => .err e
      | .panic s => .panic s
      | .fuelOut => .fuelOut := by
  induction ps1 generalizing c st idx with
  | nil => simp [loopSyntax]
  | cons p ps ih =>
    simp only [List.cons_append, loopSyntax]
    cases hr : resolvePosting c p with
    | ok r =>
      obtain ⟨rp, c1⟩ := r
      simp only
      cases hs : stepPosting date st idx rp with
      | ok st1 =>
        simp only
        rw [ih c1 st1 (idx + 1)]
        simp only [List.length_cons]
        rw [show idx + 1 + ps.length = idx + (ps.length + 1) by omega]
      | err e => rfl
      | panic e => rfl
      | fuelOut => rfl
    | err e => rfl
    | panic e => rfl
    | fuelOut => rfl

/-- **the loop cut at posting `j`**: the postings before `j` ran (leaving context `c1` and state `st1`), posting `j` was
resolved in `c1` to `rp` and applied to `st1`, and the remaining postings ran from there. -/
theorem loopSyntax_split (date : Date) (ps : List Posting) (c c' : Ctx) (st st' : TxnState String String) (idx j : Nat)
    (p : Posting) (hj : ps[j]? = some p) (h : loopSyntax date c st idx ps = .ok (c', st')) :
    ∃ c1 st1 rp c2 st2, loopSyntax date c st idx (ps.take j) = .ok (c1, st1) ∧
      resolvePosting c1 p = .ok (rp, c2) ∧ stepPosting date st1 (idx + j) rp = .ok st2 ∧
      loopSyntax date c2 st2 (idx + j + 1) (ps.drop (j + 1)) = .ok (c', st') := by
  have hlt : j < ps.length := (List.getElem?_eq_some_iff.1 hj).1
  have hpj : ps[j] = p := (List.getElem?_eq_some_iff.1 hj).2
  have hsplit : ps = ps.take j ++ p :: ps.drop (j + 1) := by
    rw [← hpj]; simp
  have hlen : (ps.take j).length = j := by simp; omega
  rw [hsplit, loopSyntax_append] at h
  cases h1 : loopSyntax date c st idx (ps.take j) with
  | ok x =>
    obtain ⟨c1, st1⟩ := x
    rw [h1] at h
    simp only [hlen, loopSyntax] at h
    cases hr : resolvePosting c1 p with
    | ok r =>
      obtain ⟨rp, c2⟩ := r
      rw [hr] at h
      simp only at h
      cases hs : stepPosting date st1 (idx + j) rp with
      | ok st2 =>
        rw [hs] at h
        exact ⟨c1, st1, rp, c2, st2, rfl, hr, hs, h⟩
      | err e => rw [hs] at h; simp at h
      | panic e => rw [hs] at h; simp at h
      | fuelOut => rw [hs] at h; simp at h
    | err e => rw [hr] at h; simp at h
    | panic e => rw [hr] at h; simp at h
    | fuelOut => rw [hr] at h; simp at h
  | err e => rw [h1] at h; simp at h
  | panic e => rw [h1] at h; simp at h
  | fuelOut => rw [h1] at h; simp at h

/-! ## what name resolution makes of a syntax posting -/

/-- the commodity store in which the `= X` of posting `p` is evaluated: the one left by the evaluation of the posting's
amount, cost and lot price (the Rust evaluates the balance expression last) -/
def balStore (c : Ctx) (p : Posting) : Store :=
  match p.amount with
  | none => c.commodities
  | some pa =>
    match resolveAmount c.commodities pa with
    | .ok (_, cs) => cs
    | _ => c.commodities

/-- **resolution of one posting**: the account is the canonical name of the account written; the amount is absent
exactly when the line carries none, otherwise it is the evaluation of what is written; the assertion is absent exactly
when the line carries no `= X`, otherwise it is the evaluation of `X`. -/
theorem resolvePosting_ok {c c' : Ctx} {p : Posting} {rp : RPosting String String}
    (h : resolvePosting c p = .ok (rp, c')) :
    rp.account = (c.accounts.ensure p.account).1 ∧
    (match p.amount with
     | none => rp.amount = none
     | some pa => ∃ ra cs, resolveAmount c.commodities pa = .ok (ra, cs) ∧ rp.amount = some ra) ∧
    (match p.balance with
     | none => rp.balance = none
     | some X => ∃ x, evalPostingAmt (balStore c p) X = .ok (x, c'.commodities) ∧ rp.balance = some x) := by
  unfold resolvePosting at h
  simp only at h
  cases ha : p.amount with
  | none =>
    simp only [ha] at h
    cases hb : p.balance with
    | none =>
      simp only [hb, resolveOptBalance, Outcome.ok.injEq, Prod.mk.injEq] at h
      obtain ⟨h1, h2⟩ := h
      subst h1
      exact ⟨rfl, rfl, rfl⟩
    | some X =>
      simp only [hb, resolveOptBalance] at h
      cases he : evalPostingAmt c.commodities X with
      | ok r =>
        obtain ⟨x, cs⟩ := r
        rw [he] at h
        simp only [Outcome.ok.injEq, Prod.mk.injEq] at h
        obtain ⟨h1, h2⟩ := h
        subst h1; subst h2
        refine ⟨rfl, rfl, x, ?_, rfl⟩
        simp only [balStore, ha]
        exact he
      | err e => rw [he] at h; simp at h
      | panic e => rw [he] at h; simp at h
      | fuelOut => rw [he] at h; simp at h
  | some pa =>
    simp only [ha] at h
    cases hr : resolveAmount c.commodities pa with
    | ok r =>
      obtain ⟨ra, cs1⟩ := r
      rw [hr] at h
      simp only at h
      cases hb : p.balance with
      | none =>
        simp only [hb, resolveOptBalance, Outcome.ok.injEq, Prod.mk.injEq] at h
        obtain ⟨h1, h2⟩ := h
        subst h1
        exact ⟨rfl, ⟨ra, cs1, hr, rfl⟩, rfl⟩
      | some X =>
        simp only [hb, resolveOptBalance] at h
        cases he : evalPostingAmt cs1 X with
        | ok r =>
          obtain ⟨x, cs⟩ := r
          rw [he] at h
          simp only [Outcome.ok.injEq, Prod.mk.injEq] at h
          obtain ⟨h1, h2⟩ := h
          subst h1; subst h2
          refine ⟨rfl, ⟨ra, cs1, hr, rfl⟩, x, ?_, rfl⟩
          simp only [balStore, ha, hr]
          exact he
        | err e => rw [he] at h; simp at h
        | panic e => rw [he] at h; simp at h
        | fuelOut => rw [he] at h; simp at h
    | err e => rw [hr] at h; simp at h
    | panic e => rw [hr] at h; simp at h
    | fuelOut => rw [hr] at h; simp at h

/-- the shape is preserved: no amount written ⇔ no amount resolved; no `= X` written ⇔ no assertion resolved -/
theorem resolvePosting_shape {c c' : Ctx} {p : Posting} {rp : RPosting String String}
    (h : resolvePosting c p = .ok (rp, c')) :
    (rp.amount = none ↔ p.amount = none) ∧ (rp.balance = none ↔ p.balance = none) := by
  obtain ⟨_, h2, h3⟩ := resolvePosting_ok h
  constructor
  · cases ha : p.amount with
    | none => rw [ha] at h2; simp [h2]
    | some pa => rw [ha] at h2; obtain ⟨ra, cs, _, h4⟩ := h2; simp [h4]
  · cases hb : p.balance with
    | none => rw [hb] at h3; simp [h3]
    | some X => rw [hb] at h3; obtain ⟨x, _, h4⟩ := h3; simp [h4]

/-- the resolution of an asserted amount posting, computed from the evaluations of what is written -/
theorem resolvePosting_of_evals {c : Ctx} {p : Posting} {pa : PostingAmount} {X : VExpr} {ra : RAmount String}
    {x : PostingAmt String} {cs cs' : Store} (hpa : p.amount = some pa) (hpb : p.balance = some X)
    (hra : resolveAmount c.commodities pa = .ok (ra, cs)) (hx : evalPostingAmt cs X = .ok (x, cs')) :
    resolvePosting c p =
      .ok (⟨(c.accounts.ensure p.account).1, some ra, some x⟩,
           { accounts := (c.accounts.ensure p.account).2, commodities := cs', formatting := c.formatting }) := by
  simp [resolvePosting, hpa, hpb, hra, resolveOptBalance, hx]

/-! ## a transaction entry, opened up -/

/-- an accepted syntax transaction: its posting loop ran to `(c', stL)` and `finishTxn` produced the result -/
theorem addTransactionSyntax_loop {c c' : Ctx} {bal : Balance String String} {t : Transaction}
    {r : TxnResult String String} (h : addTransactionSyntax c bal t = .ok (c', r)) :
    ∃ stL, loopSyntax t.date c ⟨[], none, [], bal, [], []⟩ 0 t.posts = .ok (c', stL) ∧
      finishTxn c'.prec t.date stL = .ok r := by
  unfold addTransactionSyntax at h
  cases hl : loopSyntax t.date c ⟨[], none, [], bal, [], []⟩ 0 t.posts with
  | ok x =>
    obtain ⟨c1, st⟩ := x
    rw [hl] at h
    simp only at h
    cases hf : finishTxn c1.prec t.date st with
    | ok r' =>
      rw [hf] at h
      simp only [Outcome.ok.injEq, Prod.mk.injEq] at h
      obtain ⟨h1, h2⟩ := h
      subst h1; subst h2
      exact ⟨st, rfl, hf⟩
    | err e => rw [hf] at h; simp at h
    | panic e => rw [hf] at h; simp at h
    | fuelOut => rw [hf] at h; simp at h
  | err e => rw [hl] at h; simp at h
  | panic e => rw [hl] at h; simp at h
  | fuelOut => rw [hl] at h; simp at h

/-- the invariants of the core loop hold along the syntax loop -/
theorem loopSyntax_inv (date : Date) (ps : List Posting) (c c1 : Ctx) (st st1 : TxnState String String) (idx : Nat)
    (h : loopSyntax date c st idx ps = .ok (c1, st1)) (hinv : Balance.Inv st.bal) (hi : st.IdxOK idx) :
    Balance.Inv st1.bal ∧ st1.IdxOK (idx + ps.length) ∧
    ∃ outs, st1.postings = st.postings ++ outs ∧ outs.length = ps.length ∧
      ∀ a k, Amount.getPart (Balance.get st1.bal a) k = Amount.getPart (Balance.get st.bal a) k + acctSum outs a k := by
  obtain ⟨rps, hlen, hloop, _⟩ := loopSyntax_core date ps c c1 st st1 idx h
  obtain ⟨h1, outs, h2, _, h3⟩ := C02_invariant date rps st st1 idx hloop hinv
  have hidx := IdxOK_loop date rps st st1 idx hloop hi
  rw [hlen] at hidx
  refine ⟨h1, hidx, outs, h2, ?_, h3⟩
  have := hidx.1
  rw [h2, List.length_append, hi.1] at this
  omega

/-- the state in which the posting loop of a transaction starts -/
theorem init_IdxOK (bal : Balance String String) : (⟨[], none, [], bal, [], []⟩ : TxnState String String).IdxOK 0 :=
  ⟨rfl, by simp⟩

/-- the balance of the accumulator is well formed after any accepted prefix -/
theorem process_Inv (es : List Entry) (st : ProcState) (h : process es = .ok st) : Balance.Inv st.bal :=
  (RawOK_processFrom es {} st 0 h RawOK_init).1

/-- **the situation of posting `j`** of the transaction `txn` booked from the accumulator `stk`: `c1` / `st1` are the
context and the loop state left by the postings before it, `rp` is what name resolution makes of it there (`c2` the
context afterwards), `st2` the loop state after applying it.  All five are functions of `stk`, `txn`, `j`. -/
structure AtPosting (stk : ProcState) (txn : Transaction) (j : Nat) (p : Posting) (c1 : Ctx)
    (st1 : TxnState String String) (rp : RPosting String String) (c2 : Ctx) (st2 : TxnState String String) : Prop where
  here : txn.posts[j]? = some p
  before : loopSyntax txn.date stk.ctx ⟨[], none, [], stk.bal, [], []⟩ 0 (txn.posts.take j) = .ok (c1, st1)
  resolved : resolvePosting c1 p = .ok (rp, c2)
  applied : stepPosting txn.date st1 j rp = .ok st2

/-- every posting of an accepted transaction entry has its situation -/
theorem atPosting_of_accepted (stk stk' : ProcState) (txn : Transaction) (h : stepEntry stk (.txn txn) = .ok stk')
    (j : Nat) (p : Posting) (hj : txn.posts[j]? = some p) :
    ∃ c1 st1 rp c2 st2, AtPosting stk txn j p c1 st1 rp c2 st2 := by
  obtain ⟨c', r, ha, _⟩ := stepEntry_txn_ok stk stk' txn h
  obtain ⟨stL, hl, _⟩ := addTransactionSyntax_loop ha
  obtain ⟨c1, st1, rp, c2, st2, h1, h2, h3, _⟩ := loopSyntax_split txn.date txn.posts stk.ctx c' _ stL 0 j p hj hl
  rw [Nat.zero_add] at h3
  exact ⟨c1, st1, rp, c2, st2, hj, h1, h2, h3⟩

/-- the situation is unique -/
theorem AtPosting.unique {stk : ProcState} {txn : Transaction} {j : Nat} {p : Posting} {c1 c1' c2 c2' : Ctx}
    {st1 st1' st2 st2' : TxnState String String} {rp rp' : RPosting String String}
    (h : AtPosting stk txn j p c1 st1 rp c2 st2) (h' : AtPosting stk txn j p c1' st1' rp' c2' st2') :
    c1 = c1' ∧ rp = rp' ∧ c2 = c2' := by
  have e1 := h.before.symm.trans h'.before
  simp only [Outcome.ok.injEq, Prod.mk.injEq] at e1
  obtain ⟨rfl, _⟩ := e1
  have e2 := h.resolved.symm.trans h'.resolved
  simp only [Outcome.ok.injEq, Prod.mk.injEq] at e2
  exact ⟨rfl, e2.1, e2.2⟩

/-- the loop state before posting `j` is well formed, and holds `j` postings -/
theorem AtPosting.inv {stk : ProcState} {txn : Transaction} {j : Nat} {p : Posting} {c1 c2 : Ctx}
    {st1 st2 : TxnState String String} {rp : RPosting String String}
    (h : AtPosting stk txn j p c1 st1 rp c2 st2) (hinv : Balance.Inv stk.bal) :
    Balance.Inv st1.bal ∧ st1.postings.length = j ∧
      ∀ a k, Amount.getPart (Balance.get st1.bal a) k = Amount.getPart (Balance.get stk.bal a) k + acctSum st1.postings a k := by
  have hlt : j < txn.posts.length := (List.getElem?_eq_some_iff.1 h.here).1
  obtain ⟨h1, h2, outs, h3, _, h4⟩ := loopSyntax_inv txn.date _ _ _ _ _ 0 h.before hinv (init_IdxOK stk.bal)
  simp only [List.nil_append] at h3
  refine ⟨h1, ?_, ?_⟩
  · have := h2.1
    simp only [List.length_take, Nat.zero_add] at this
    omega
  · rw [h3]; exact h4

/-! ## C02 on texts -/

/-- **C02_text_holds**: in every accepted TEXT, for every transaction (entry `k`) and every posting line `j` of it that
carries an amount and an assertion `= X`: with `x` the evaluation of the `X` written (in the commodity store in force there)
and the account the canonical name of the account written, the account's balance right after this posting is the balance
before it plus the amount written (zero entries dropped), and `x` is true of it — exactly `x` in `x`'s commodity, or
nothing at all for `= 0`. -/
theorem C02_text_holds (t : List Char) (es : List Entry) (st : ProcState) (h : Denotes t es st)
    (k : Nat) (hk : k < es.length) (txn : Transaction) (hek : es[k] = .txn txn)
    (j : Nat) (p : Posting) (pa : PostingAmount) (X : VExpr)
    (hj : txn.posts[j]? = some p) (hpa : p.amount = some pa) (hpb : p.balance = some X) :
    ∃ stk c1 st1 rp c2 st2 ra x, process (es.take k) = .ok stk ∧ AtPosting stk txn j p c1 st1 rp c2 st2 ∧
      rp.account = (c1.accounts.ensure p.account).1 ∧
      resolveAmount c1.commodities pa = .ok (ra, balStore c1 p) ∧ rp.amount = some ra ∧
      evalPostingAmt (balStore c1 p) X = .ok (x, c2.commodities) ∧ rp.balance = some x ∧
      Balance.get st2.bal rp.account = Spec.after (Balance.get st1.bal rp.account) ra.postingAmt ∧
      Spec.Holds x (Balance.get st2.bal rp.account) := by
  obtain ⟨stk, stk', h1, h2, _, _⟩ := process_at es st k hk h.2
  rw [hek] at h2
  obtain ⟨c1, st1, rp, c2, st2, hat⟩ := atPosting_of_accepted stk stk' txn h2 j p hj
  obtain ⟨hacc, hamt, hbal⟩ := resolvePosting_ok hat.resolved
  rw [hpa] at hamt
  rw [hpb] at hbal
  obtain ⟨ra, cs, hra, hra'⟩ := hamt
  obtain ⟨x, hx, hx'⟩ := hbal
  have hcs : balStore c1 p = cs := by simp [balStore, hpa, hra]
  obtain ⟨g1, g2⟩ := C02_holds txn.date st1 st2 j rp ra x hra' hx' hat.applied
  exact ⟨stk, c1, st1, rp, c2, st2, ra, x, h1, hat, hacc, by rw [hcs]; exact hra, hra', hx, hx', g1, g2⟩

/-- the step of a transaction entry fails with `e` when the loop fails with `e` at posting `j` -/
theorem stepEntry_err_at_posting (stk : ProcState) (txn : Transaction) (j : Nat) (p : Posting) (c1 c2 : Ctx)
    (st1 : TxnState String String) (rp : RPosting String String) (e : BkErrS)
    (hj : txn.posts[j]? = some p)
    (hbefore : loopSyntax txn.date stk.ctx ⟨[], none, [], stk.bal, [], []⟩ 0 (txn.posts.take j) = .ok (c1, st1))
    (hres : resolvePosting c1 p = .ok (rp, c2)) (hstep : stepPosting txn.date st1 j rp = .err e) :
    stepEntry stk (.txn txn) = .err e := by
  have hlt : j < txn.posts.length := (List.getElem?_eq_some_iff.1 hj).1
  have hpj : txn.posts[j] = p := (List.getElem?_eq_some_iff.1 hj).2
  have hsplit : txn.posts = txn.posts.take j ++ p :: txn.posts.drop (j + 1) := by rw [← hpj]; simp
  have hlen : (txn.posts.take j).length = j := by simp; omega
  have hloop : loopSyntax txn.date stk.ctx ⟨[], none, [], stk.bal, [], []⟩ 0 txn.posts = .err e := by
    rw [hsplit, loopSyntax_append, hbefore]
    simp only [hlen, Nat.zero_add, loopSyntax, hres, hstep]
  simp only [stepEntry, addTransactionSyntax, hloop]

/-- **C02_text_reject**: a TEXT whose `k`-th entry is a transaction whose posting line `j` carries an amount and an
assertion `= X` that is false — of the account's balance before the posting plus the amount written — is rejected:
`process` fails at entry `k` with `BalanceAssertionFailure` pointing at posting `j`, carrying the balance actually computed
and the difference to the asserted value; the text is not accepted.  (The entries before `k` and the postings before `j`
are accepted, the amount and `X` evaluate: otherwise an earlier error is reported.) -/
theorem C02_text_reject (t : List Char) (es : List Entry) (hp : Parse.parseEntries t = .ok es)
    (k : Nat) (hk : k < es.length) (txn : Transaction) (hek : es[k] = .txn txn)
    (stk : ProcState) (hpre : process (es.take k) = .ok stk)
    (j : Nat) (p : Posting) (pa : PostingAmount) (X : VExpr)
    (hj : txn.posts[j]? = some p) (hpa : p.amount = some pa) (hpb : p.balance = some X)
    (c1 : Ctx) (st1 : TxnState String String)
    (hbefore : loopSyntax txn.date stk.ctx ⟨[], none, [], stk.bal, [], []⟩ 0 (txn.posts.take j) = .ok (c1, st1))
    (ra : RAmount String) (x : PostingAmt String) (cs cs' : Store)
    (hra : resolveAmount c1.commodities pa = .ok (ra, cs)) (hx : evalPostingAmt cs X = .ok (x, cs'))
    (hfalse : ¬ Spec.Holds x
      (Spec.after (Balance.get st1.bal (c1.accounts.ensure p.account).1) ra.postingAmt)) :
    process es = .err (k, .assertionFailure j
        (Spec.after (Balance.get st1.bal (c1.accounts.ensure p.account).1) ra.postingAmt)
        ((Spec.after (Balance.get st1.bal (c1.accounts.ensure p.account).1) ra.postingAmt).assertBalance x)) ∧
    ¬ okaneAccepts t := by
  have hres := resolvePosting_of_evals hpa hpb hra hx
  have hstep := C02_reject txn.date st1 j ⟨(c1.accounts.ensure p.account).1, some ra, some x⟩ ra x rfl rfl hfalse
  have hse := stepEntry_err_at_posting stk txn j p c1 _ st1 _ _ hj hbefore hres hstep
  have hrun := process_err_at es {} stk 0 k _ hk hpre (by rw [hek]; exact hse)
  rw [Nat.zero_add] at hrun
  refine ⟨hrun, ?_⟩
  have hrun' := hrun
  rintro ⟨es', st, hp', hproc⟩
  have := parse_unique hp hp'
  subst this
  unfold process at hproc
  rw [hrun'] at hproc
  cases hproc

/-! ## the resolved postings of a transaction, pinned to the text -/

/-- a posting line that carries neither an amount nor `= X` -/
def bare (p : Posting) : Bool := p.amount.isNone && p.balance.isNone

/-- `rp` is a resolution of `p` of the same shape -/
def SameShape (p : Posting) (rp : RPosting String String) : Prop :=
  (rp.amount = none ↔ p.amount = none) ∧ (rp.balance = none ↔ p.balance = none)

/-- posting by posting, the resolved postings have the shape of what is written -/
def Shapes : List Posting → List (RPosting String String) → Prop
  | [], [] => True
  | p :: ps, rp :: rps => SameShape p rp ∧ Shapes ps rps
  | _, _ => False

/-- **the syntax loop is the core loop on THE resolved postings**: `rps[j]` is what name resolution makes of posting `j`
in the context left by the postings before it — a function of the text — and has the shape of what is written. -/
theorem loopSyntax_resolved (date : Date) (ps : List Posting) (c c' : Ctx) (st st' : TxnState String String) (idx : Nat)
    (h : loopSyntax date c st idx ps = .ok (c', st')) :
    ∃ rps : List (RPosting String String), rps.length = ps.length ∧ loopPostings date st idx rps = .ok st' ∧
      Shapes ps rps ∧
      ∀ j p, ps[j]? = some p → ∃ c1 st1 c2 rp, loopSyntax date c st idx (ps.take j) = .ok (c1, st1) ∧
        resolvePosting c1 p = .ok (rp, c2) ∧ rps[j]? = some rp := by
  induction ps generalizing c st idx with
  | nil =>
    simp only [loopSyntax, Outcome.ok.injEq, Prod.mk.injEq] at h
    obtain ⟨h1, h2⟩ := h
    subst h1; subst h2
    exact ⟨[], rfl, rfl, trivial, by simp⟩
  | cons q ps ih =>
    simp only [loopSyntax] at h
    cases hr : resolvePosting c q with
    | ok r =>
      obtain ⟨rq, cq⟩ := r
      rw [hr] at h
      simp only at h
      cases hs : stepPosting date st idx rq with
      | ok stq =>
        rw [hs] at h
        simp only at h
        obtain ⟨rps, hl, hloop, hsh, hpin⟩ := ih cq stq (idx + 1) h
        refine ⟨rq :: rps, by simp [hl], by simp [loopPostings, hs, hloop], ⟨resolvePosting_shape hr, hsh⟩, ?_⟩
        intro j p hj
        cases j with
        | zero =>
          simp only [List.getElem?_cons_zero, Option.some.injEq] at hj
          subst hj
          exact ⟨c, st, cq, rq, by simp [loopSyntax], hr, by simp⟩
        | succ j =>
          simp only [List.getElem?_cons_succ] at hj
          obtain ⟨c1, st1, c2, rp, g1, g2, g3⟩ := hpin j p hj
          exact ⟨c1, st1, c2, rp, by simp [List.take_succ_cons, loopSyntax, hr, hs, g1], g2, by simpa using g3⟩
      | err e => rw [hs] at h; simp at h
      | panic e => rw [hs] at h; simp at h
      | fuelOut => rw [hs] at h; simp at h
    | err e => rw [hr] at h; simp at h
    | panic e => rw [hr] at h; simp at h
    | fuelOut => rw [hr] at h; simp at h

/-- the number of unconstrained resolved postings is the number of bare posting lines -/
theorem omittedCount_of_shape : ∀ (ps : List Posting) (rps : List (RPosting String String)),
    Shapes ps rps → omittedCount rps = (ps.filter bare).length
  | [], [], _ => rfl
  | [], _ :: _, h => by simp [Shapes] at h
  | _ :: _, [], h => by simp [Shapes] at h
  | p :: ps, rp :: rps, h => by
    simp only [Shapes] at h
    have ih := omittedCount_of_shape ps rps h.2
    have : isOmitted rp = bare p := by
      obtain ⟨h1, h2⟩ := h.1
      unfold isOmitted bare
      cases ha : p.amount <;> cases hb : p.balance <;> cases ha' : rp.amount <;> cases hb' : rp.balance <;>
        simp_all
    simp only [omittedCount, List.filter_cons, this] at ih ⊢
    cases bare p <;> simp [ih]

/-! ## the omitted posting's slot, and what `finishTxn` leaves of the other postings -/

section core
variable {α κ : Type} [DecidableEq α] [DecidableEq κ]

/-- account and amount of an emitted posting -/
def acctAmt (o : OutPosting α κ) : α × Amount κ := (o.account, o.amount)

/-- a step on a constrained posting leaves the slot of the omitted posting alone; a step on an unconstrained posting
sets it to that posting's index (and there was none before) -/
theorem stepPosting_unfilled (date : Date) (st st' : TxnState α κ) (idx : Nat) (p : RPosting α κ)
    (h : stepPosting date st idx p = .ok st') :
    (isOmitted p = false → st'.unfilled = st.unfilled) ∧
    (isOmitted p = true → st.unfilled = none ∧ st'.unfilled = some idx) := by
  cases ha : p.amount with
  | some ra =>
    rw [stepPosting_amount date st idx p ra ha] at h
    split at h
    · simp at h
    · simp only [Outcome.ok.injEq] at h
      subst h
      simp [isOmitted, ha]
  | none =>
    cases hb : p.balance with
    | none =>
      rw [stepPosting_omitted date st idx p ha hb] at h
      cases hu : st.unfilled with
      | some first => simp [hu] at h
      | none =>
        simp only [hu, Outcome.ok.injEq] at h
        subst h
        simp [isOmitted, ha, hb]
    | some x =>
      rw [stepPosting_assign date st idx p x ha hb] at h
      split at h
      · split at h
        · simp only [Outcome.ok.injEq] at h
          subst h
          simp [isOmitted, ha, hb]
        all_goals simp at h
      all_goals simp at h

/-- after the loop the slot is what it was, or the index of an unconstrained posting of the list -/
theorem loopPostings_unfilled (date : Date) (ps : List (RPosting α κ)) (st st' : TxnState α κ) (idx : Nat)
    (h : loopPostings date st idx ps = .ok st') :
    st'.unfilled = st.unfilled ∨
      ∃ u p, idx ≤ u ∧ st'.unfilled = some u ∧ ps[u - idx]? = some p ∧ isOmitted p = true := by
  induction ps generalizing st idx with
  | nil => simp only [loopPostings, Outcome.ok.injEq] at h; subst h; exact .inl rfl
  | cons q ps ih =>
    simp only [loopPostings] at h
    split at h
    · rename_i st1 h1
      have hq := stepPosting_unfilled date st st1 idx q h1
      rcases ih st1 (idx + 1) h with h2 | ⟨u, p, hu, h2, h3, h4⟩
      · cases hom : isOmitted q with
        | false => exact .inl (h2.trans (hq.1 hom))
        | true =>
          refine .inr ⟨idx, q, Nat.le_refl _, h2.trans (hq.2 hom).2, by simp, hom⟩
      · refine .inr ⟨u, p, by omega, h2, ?_, h4⟩
        have : u - idx = (u - (idx + 1)) + 1 := by omega
        rw [this, List.getElem?_cons_succ]
        exact h3
    all_goals simp at h

/-- **what the tail of `add_transaction` leaves of the postings**: as many postings as the loop emitted; every posting
other than the omitted one keeps its account and amount; the omitted one receives the negated running balance and its
account is moved by it. -/
theorem finishG_posting (prec : κ → Option Nat) (date : Date) (st : TxnState α κ) (r : TxnResult α κ)
    (h : finishG prec date st = .ok r) :
    r.txn.postings.length = st.postings.length ∧
    (∀ j, (∀ u, st.unfilled = some u → u ≠ j) →
      (r.txn.postings[j]?).map acctAmt = (st.postings[j]?).map acctAmt) ∧
    (∀ u, st.unfilled = some u → ∃ o, st.postings[u]? = some o ∧
      r.txn.postings[u]? = some { o with amount := st.balance.neg } ∧
      r.bal = (Balance.addAmount st.bal o.account st.balance.neg).1) ∧
    (st.unfilled = none → r.bal = st.bal) := by
  unfold finishG at h
  cases hu : st.unfilled with
  | some u =>
    simp only [hu] at h
    cases hg : st.postings[u]? with
    | none => simp [hg] at h
    | some o =>
      simp only [hg, Option.map_some, Outcome.ok.injEq] at h
      subst h
      refine ⟨by simp, ?_, ?_, by simp⟩
      · intro j hj
        have hne : u ≠ j := hj u rfl
        simp only [List.getElem?_modify, hne, if_false]
        cases st.postings[j]? <;> rfl
      · intro u' hu'
        simp only [Option.some.injEq] at hu'
        subst hu'
        refine ⟨o, hg, ?_, rfl⟩
        simp [hg]
  | none =>
    simp only [hu] at h
    cases hcb : checkBalance prec date st.postings st.balance with
    | ok x =>
      obtain ⟨postings, pe⟩ := x
      rw [hcb] at h
      simp only [Outcome.ok.injEq] at h
      subst h
      have hpost : postings.length = st.postings.length ∧
          ∀ j : Nat, (postings[j]?).map acctAmt =
            (st.postings[j]?).map acctAmt := by
        unfold checkBalance at hcb
        simp only at hcb
        split at hcb
        · simp only [Outcome.ok.injEq, Prod.mk.injEq] at hcb
          rw [← hcb.1]; exact ⟨rfl, fun _ => rfl⟩
        · split at hcb
          · simp only [Outcome.ok.injEq, Prod.mk.injEq] at hcb
            rw [← hcb.1]
            refine ⟨by simp, fun j => ?_⟩
            simp only [List.getElem?_map, Option.map_map]
            congr 1
            funext o
            simp [acctAmt, fillConverted_amount, fillConverted_account]
          · simp at hcb
      exact ⟨hpost.1, fun j _ => hpost.2 j, by simp, fun _ => rfl⟩
    | err e => rw [hcb] at h; simp at h
    | panic e => rw [hcb] at h; simp at h
    | fuelOut => rw [hcb] at h; simp at h

end core

/-! ## an accepted transaction entry, opened up completely -/

/-- **the run of an accepted transaction entry** from the accumulator `stk` to `stk'`: the syntax loop ended in
`(c', stL)`, it is the core loop on the resolved postings `rps` (`rps[j]` = the resolution of posting line `j` in the
context left by the lines before it; same shape as written), the tail of `add_transaction` produced `r`, and the
accumulator took `r` over. -/
structure TxnRun (stk stk' : ProcState) (txn : Transaction) (c' : Ctx) (stL : TxnState String String)
    (r : TxnResult String String) (rps : List (RPosting String String)) : Prop where
  loop : loopSyntax txn.date stk.ctx ⟨[], none, [], stk.bal, [], []⟩ 0 txn.posts = .ok (c', stL)
  fin : finishG stk.ctx.prec txn.date stL = .ok r
  next : stk' = { ctx := c', bal := r.bal, txns := stk.txns ++ [r.txn], events := stk.events ++ r.events }
  len : rps.length = txn.posts.length
  core : loopPostings txn.date ⟨[], none, [], stk.bal, [], []⟩ 0 rps = .ok stL
  shapes : Shapes txn.posts rps
  pinned : ∀ j p, txn.posts[j]? = some p → ∃ c1 st1 c2 rp,
    loopSyntax txn.date stk.ctx ⟨[], none, [], stk.bal, [], []⟩ 0 (txn.posts.take j) = .ok (c1, st1) ∧
    resolvePosting c1 p = .ok (rp, c2) ∧ rps[j]? = some rp
  accepted : addTransaction stk.ctx.prec stk.bal ⟨txn.date, rps⟩ = .ok r

theorem txnRun_of_accepted (stk stk' : ProcState) (txn : Transaction) (h : stepEntry stk (.txn txn) = .ok stk') :
    ∃ c' stL r rps, TxnRun stk stk' txn c' stL r rps := by
  obtain ⟨c', r, ha, hnext⟩ := stepEntry_txn_ok stk stk' txn h
  obtain ⟨stL, hl, hf⟩ := addTransactionSyntax_loop ha
  obtain ⟨rps, hlen, hcore, hsh, hpin⟩ := loopSyntax_resolved txn.date txn.posts stk.ctx c' _ stL 0 hl
  obtain ⟨_, _, _, hprec⟩ := loopSyntax_core txn.date txn.posts stk.ctx c' _ stL 0 hl
  have hfin : finishG stk.ctx.prec txn.date stL = .ok r := by rw [← hprec, ← finishTxn_eq]; exact hf
  refine ⟨c', stL, r, rps, hl, hfin, hnext, hlen, hcore, hsh, hpin, ?_⟩
  rw [addTransaction_eq_finish, hcore]
  exact hfin

theorem Shapes.get : ∀ {ps : List Posting} {rps : List (RPosting String String)}, Shapes ps rps →
    ∀ {j : Nat} {p : Posting} {rp : RPosting String String}, ps[j]? = some p → rps[j]? = some rp → SameShape p rp
  | [], [], _, j, _, _, hp, _ => by simp at hp
  | [], _ :: _, h, _, _, _, _, _ => by simp [Shapes] at h
  | _ :: _, [], h, _, _, _, _, _ => by simp [Shapes] at h
  | q :: ps, rq :: rps, h, 0, p, rp, hp, hrp => by
    simp only [List.getElem?_cons_zero, Option.some.injEq] at hp hrp
    subst hp; subst hrp
    exact h.1
  | q :: ps, rq :: rps, h, j + 1, p, rp, hp, hrp => by
    simp only [List.getElem?_cons_succ] at hp hrp
    exact Shapes.get h.2 hp hrp

theorem SameShape.bare {p : Posting} {rp : RPosting String String} (h : SameShape p rp) : isOmitted rp = bare p := by
  obtain ⟨h1, h2⟩ := h
  unfold isOmitted BookText.bare
  cases ha : p.amount <;> cases hb : p.balance <;> cases ha' : rp.amount <;> cases hb' : rp.balance <;> simp_all

/-- the final transaction has one posting per posting line; a line that is not the bare one keeps, in the final
transaction, the account and the amount the loop emitted for it -/
theorem TxnRun.final {stk stk' : ProcState} {txn : Transaction} {c' : Ctx} {stL : TxnState String String}
    {r : TxnResult String String} {rps : List (RPosting String String)} (h : TxnRun stk stk' txn c' stL r rps) :
    stL.postings.length = txn.posts.length ∧ r.txn.postings.length = txn.posts.length ∧
    ∀ (j : Nat) (p : Posting), txn.posts[j]? = some p → bare p = false →
      (r.txn.postings[j]?).map acctAmt = (stL.postings[j]?).map acctAmt := by
  have hidx := IdxOK_loop txn.date rps _ stL 0 h.core (init_IdxOK stk.bal)
  have hlenL : stL.postings.length = txn.posts.length := by rw [hidx.1, h.len]; simp
  obtain ⟨g1, g2, _, _⟩ := finishG_posting stk.ctx.prec txn.date stL r h.fin
  refine ⟨hlenL, by rw [g1, hlenL], fun j p hj hb => g2 j ?_⟩
  intro u hu huj
  subst huj
  rcases loopPostings_unfilled txn.date rps _ stL 0 h.core with h1 | ⟨u', q, _, h2, h3, h4⟩
  · rw [hu] at h1; simp at h1
  · rw [hu] at h2
    simp only [Option.some.injEq] at h2
    subst h2
    simp only [Nat.sub_zero] at h3
    have := (h.shapes.get hj h3).bare
    rw [h4, hb] at this
    cases this

/-- inside the run of an accepted transaction: the situation of posting line `j`, its resolution is `rps[j]`, it
emitted exactly one posting (`out`, at index `j`), and the postings emitted by then are a prefix of what the loop emits -/
theorem TxnRun.at {stk stk' : ProcState} {txn : Transaction} {c' : Ctx} {stL : TxnState String String}
    {r : TxnResult String String} {rps : List (RPosting String String)} (h : TxnRun stk stk' txn c' stL r rps)
    (j : Nat) (p : Posting) (hj : txn.posts[j]? = some p) :
    ∃ c1 st1 rp c2 st2 out, AtPosting stk txn j p c1 st1 rp c2 st2 ∧ rps[j]? = some rp ∧
      st1.postings.length = j ∧ st2.postings = st1.postings ++ [out] ∧ out.account = rp.account ∧
      stL.postings[j]? = some out ∧ ∃ more, stL.postings = st2.postings ++ more := by
  obtain ⟨c1, st1, rp, c2, st2, h1, h2, h3, h4⟩ := loopSyntax_split txn.date txn.posts stk.ctx c' _ stL 0 j p hj h.loop
  rw [Nat.zero_add] at h3 h4
  have hat : AtPosting stk txn j p c1 st1 rp c2 st2 := ⟨hj, h1, h2, h3⟩
  obtain ⟨c1', st1', c2', rp', g1, g2, g3⟩ := h.pinned j p hj
  have e1 := h1.symm.trans g1
  simp only [Outcome.ok.injEq, Prod.mk.injEq] at e1
  obtain ⟨rfl, rfl⟩ := e1
  have e2 := h2.symm.trans g2
  simp only [Outcome.ok.injEq, Prod.mk.injEq] at e2
  obtain ⟨rfl, rfl⟩ := e2
  have hlt : j < txn.posts.length := (List.getElem?_eq_some_iff.1 hj).1
  obtain ⟨rps1, hl1, hloop1, _⟩ := loopSyntax_core txn.date _ stk.ctx c1 _ st1 0 h1
  have hidx1 := IdxOK_loop txn.date rps1 _ st1 0 hloop1 (init_IdxOK stk.bal)
  have hlen1 : st1.postings.length = j := by
    have := hidx1.1
    rw [hl1] at this
    simp only [List.length_take, Nat.zero_add] at this
    omega
  obtain ⟨out, d, hp2, hacc, _, _⟩ := stepPosting_shape txn.date st1 st2 j rp h3
  obtain ⟨rps2, _, hloop2, _⟩ := loopSyntax_core txn.date _ c2 c' st2 stL (j + 1) h4
  obtain ⟨outs, _, hp3, _, _⟩ := loop_aligned txn.date rps2 st2 stL (j + 1) hloop2
  refine ⟨c1, st1, rp, c2, st2, out, hat, g3, hlen1, hp2, hacc, ?_, outs, hp3⟩
  rw [hp3, hp2, List.append_assoc, List.getElem?_append_right (by omega), hlen1]
  simp

/-! ## C03 on texts -/

/-- **C03_text_assign**: in every accepted TEXT, for every posting line `Account  = X` (no amount written) of every
transaction: with `x` the evaluation of the `X` written and the account the canonical name of the account written,
* if `x` has a commodity (`= v C`): the posting receives, in the final transaction, exactly `v` minus what the account held
  in `C` before this line, the account then holds `v` in `C`, and no other commodity of it moved;
* if `x` is the bare `0`: the posting receives minus the whole (single-commodity) balance, and the account is left empty. -/
theorem C03_text_assign (t : List Char) (es : List Entry) (st : ProcState) (h : Denotes t es st)
    (k : Nat) (hk : k < es.length) (txn : Transaction) (hek : es[k] = .txn txn)
    (j : Nat) (p : Posting) (X : VExpr)
    (hj : txn.posts[j]? = some p) (hpa : p.amount = none) (hpb : p.balance = some X) :
    ∃ stk stk' c' stL r rps c1 st1 rp c2 st2 x,
      process (es.take k) = .ok stk ∧ process (es.take (k + 1)) = .ok stk' ∧
      TxnRun stk stk' txn c' stL r rps ∧ AtPosting stk txn j p c1 st1 rp c2 st2 ∧
      rp.account = (c1.accounts.ensure p.account).1 ∧ rp.amount = none ∧
      evalPostingAmt c1.commodities X = .ok (x, c2.commodities) ∧ rp.balance = some x ∧
      (∀ s, x = .single s →
        (r.txn.postings[j]?).map acctAmt =
          some (rp.account, [(s.commodity, s.value - Amount.getPart (Balance.get st1.bal rp.account) s.commodity)]) ∧
        Amount.getPart (Balance.get st2.bal rp.account) s.commodity = s.value ∧
        ∀ c, c ≠ s.commodity →
          Amount.getPart (Balance.get st2.bal rp.account) c = Amount.getPart (Balance.get st1.bal rp.account) c) ∧
      (x = .zero → ∃ prev, (Balance.get st1.bal rp.account).toPosting = .ok prev ∧
        (r.txn.postings[j]?).map acctAmt = some (rp.account, prev.neg.toAmount) ∧
        Balance.get st2.bal rp.account = []) := by
  obtain ⟨stk, stk', h1, h2, h3, _⟩ := process_at es st k hk h.2
  rw [hek] at h2
  obtain ⟨c', stL, r, rps, hrun⟩ := txnRun_of_accepted stk stk' txn h2
  obtain ⟨c1, st1, rp, c2, st2, out, hat, hrp, hlen1, hp2, hacc, hLj, _⟩ := hrun.at j p hj
  obtain ⟨hacct, hamt, hbal⟩ := resolvePosting_ok hat.resolved
  rw [hpa] at hamt
  rw [hpb] at hbal
  obtain ⟨x, hx, hx'⟩ := hbal
  have hbs : balStore c1 p = c1.commodities := by simp [balStore, hpa]
  rw [hbs] at hx
  have hinv1 := (hat.inv (process_Inv _ stk h1)).1
  have hnb : bare p = false := by simp [bare, hpb]
  have hfin := hrun.final.2.2 j p hj hnb
  rw [hLj] at hfin
  refine ⟨stk, stk', c', stL, r, rps, c1, st1, rp, c2, st2, x, h1, h3, hrun, hat, hacct, hamt, hx, hx', ?_, ?_⟩
  · intro s hs
    subst hs
    obtain ⟨⟨out', hp2', hacc', hamt'⟩, g2, g3⟩ := C03_assign txn.date st1 st2 j rp s hamt hx' hinv1 hat.applied
    have : out' = out := by
      have := hp2.symm.trans hp2'
      simpa using this.symm
    subst this
    refine ⟨?_, g2, g3⟩
    rw [hfin]
    simp [acctAmt, hacc', hamt']
  · intro hz
    subst hz
    -- the step succeeded, so the account held at most one commodity
    have hstep := hat.applied
    rw [stepPosting_assign txn.date st1 j rp _ hamt hx'] at hstep
    cases hg : (Balance.get st1.bal rp.account).toPosting with
    | ok prev =>
      obtain ⟨st2', g1, g2, g3⟩ := (C03_assign0 txn.date st1 j rp hamt hx').1 prev hg
      have e := hat.applied.symm.trans g1
      simp only [Outcome.ok.injEq] at e
      subst e
      have hout : out = ⟨rp.account, prev.neg.toAmount, none⟩ := by
        have := hp2.symm.trans g3
        simpa using this
      refine ⟨prev, rfl, ?_, g2⟩
      rw [hfin, hout]
      simp [acctAmt]
    | err e => simp [Balance.setPartial, hg] at hstep
    | panic e => simp [Balance.setPartial, hg] at hstep
    | fuelOut => simp [Balance.setPartial, hg] at hstep

/-- **C03_text_omitted**: in every accepted TEXT, a transaction with exactly one bare posting line (account only: no
amount, no `= X`) — say line `u` —: in the final transaction that posting carries exactly the negation of the sum of the
other lines' balancing values, commodity by commodity (`rps` are the resolutions of the lines, pinned to the text by
`TxnRun.pinned`; in the total the bare line contributes nothing, an `Account = X` line contributes its assigned amount),
its account is moved by that amount, and every other posting keeps the amount the loop gave it. -/
theorem C03_text_omitted (t : List Char) (es : List Entry) (st : ProcState) (h : Denotes t es st)
    (k : Nat) (hk : k < es.length) (txn : Transaction) (hek : es[k] = .txn txn)
    (hone : (txn.posts.filter bare).length = 1) :
    ∃ stk stk' c' stL r rps u pu o,
      process (es.take k) = .ok stk ∧ process (es.take (k + 1)) = .ok stk' ∧
      TxnRun stk stk' txn c' stL r rps ∧
      txn.posts[u]? = some pu ∧ bare pu = true ∧ stL.unfilled = some u ∧
      stL.postings[u]? = some o ∧ o.amount = [] ∧
      r.txn.postings[u]? = some { o with amount := stL.balance.neg } ∧
      (∀ c, Amount.getPart stL.balance.neg c = - Spec.total rps (stL.postings.map (·.amount)) c) ∧
      r.bal = (Balance.addAmount stL.bal o.account stL.balance.neg).1 ∧
      (∀ j, j ≠ u → (r.txn.postings[j]?).map acctAmt = (stL.postings[j]?).map acctAmt) := by
  obtain ⟨stk, stk', h1, h2, h3, _⟩ := process_at es st k hk h.2
  rw [hek] at h2
  obtain ⟨c', stL, r, rps, hrun⟩ := txnRun_of_accepted stk stk' txn h2
  have hcount : omittedCount rps = 1 := by rw [omittedCount_of_shape _ _ hrun.shapes, hone]
  obtain ⟨u, hu, _, htot, _⟩ := C03_omitted stk.ctx.prec stk.bal ⟨txn.date, rps⟩ r stL hrun.core hrun.accepted hcount
  obtain ⟨_, g2, g3, _⟩ := finishG_posting stk.ctx.prec txn.date stL r hrun.fin
  obtain ⟨o, ho, hro, hbal⟩ := g3 u hu
  have hempty := loop_unfilled_empty txn.date rps _ stL 0 hrun.core (init_IdxOK stk.bal) (by simp) u hu
  obtain ⟨o', ho', hoe⟩ := hempty
  rw [ho] at ho'
  simp only [Option.some.injEq] at ho'
  subst ho'
  -- the slot is the index of a bare line
  have hbare : ∃ pu, txn.posts[u]? = some pu ∧ bare pu = true := by
    rcases loopPostings_unfilled txn.date rps _ stL 0 hrun.core with e | ⟨u', q, _, e2, e3, e4⟩
    · rw [hu] at e; simp at e
    · rw [hu] at e2
      simp only [Option.some.injEq] at e2
      subst e2
      simp only [Nat.sub_zero] at e3
      have hlt : u < txn.posts.length := by
        rw [← hrun.len]; exact (List.getElem?_eq_some_iff.1 e3).1
      refine ⟨txn.posts[u], by simp [hlt], ?_⟩
      have := (hrun.shapes.get (by simp [hlt] : txn.posts[u]? = some txn.posts[u]) e3).bare
      rw [← this]; exact e4
  obtain ⟨pu, hpu, hpub⟩ := hbare
  refine ⟨stk, stk', c', stL, r, rps, u, pu, o, h1, h3, hrun, hpu, hpub, hu, ho, hoe, hro, htot, hbal, ?_⟩
  intro j hj
  exact g2 j (by intro u' hu'; rw [hu] at hu'; simp only [Option.some.injEq] at hu'; subst hu'; exact Ne.symm hj)

/-- a text with two or more bare posting lines in one transaction is rejected at that entry (C03_two through the parser) -/
theorem C03_text_two (t : List Char) (es : List Entry) (hp : Parse.parseEntries t = .ok es)
    (k : Nat) (hk : k < es.length) (txn : Transaction) (hek : es[k] = .txn txn)
    (htwo : (txn.posts.filter bare).length ≥ 2) : ¬ okaneAccepts t := by
  rintro ⟨es', st, hp', hproc⟩
  have := parse_unique hp hp'
  subst this
  obtain ⟨stk, stk', h1, h2, _, _⟩ := process_at es st k hk hproc
  rw [hek] at h2
  obtain ⟨c', stL, r, rps, hrun⟩ := txnRun_of_accepted stk stk' txn h2
  have hcount : omittedCount rps ≥ 2 := by rw [omittedCount_of_shape _ _ hrun.shapes]; exact htwo
  obtain ⟨e, he⟩ := C03_two_txn stk.ctx.prec stk.bal ⟨txn.date, rps⟩ hcount
  rw [hrun.accepted] at he
  cases he

/-! ## C04 on texts -/

section register
variable {α κ : Type} [DecidableEq α] [DecidableEq κ]

/-- the step of the register's fold -/
def regStep (acc : List (OutPosting α κ × Amount κ) × Amount κ) (p : OutPosting α κ) :
    List (OutPosting α κ × Amount κ) × Amount κ :=
  let tot := acc.2.add p.amount
  (acc.1 ++ [(p, tot)], tot)

/-- the final running total of `okane register` over the listed postings -/
def registerTotal (ps : List (OutPosting α κ)) : Amount κ := (ps.foldl regStep ([], [])).2

theorem register_eq (ps : List (OutPosting α κ)) : register ps = (ps.foldl regStep ([], [])).1 := rfl

theorem regFold_last (ps : List (OutPosting α κ)) :
    ∀ acc : List (OutPosting α κ × Amount κ) × Amount κ,
      (acc.1 = [] ∧ ps ≠ [] ∨ (acc.1.getLast?).map (·.2) = some acc.2) →
      (((ps.foldl regStep acc).1.getLast?).map (·.2)) = some (ps.foldl regStep acc).2 := by
  induction ps with
  | nil =>
    intro acc h
    rcases h with ⟨_, h⟩ | h
    · exact absurd rfl h
    · exact h
  | cons p tl ih =>
    intro acc _
    simp only [List.foldl_cons]
    apply ih
    right
    simp [regStep]

/-- **the last row of the register shows `registerTotal`** -/
theorem register_last (ps : List (OutPosting α κ)) (hne : ps ≠ []) :
    ((register ps).getLast?).map (·.2) = some (registerTotal ps) := by
  rw [register_eq]
  exact regFold_last ps ([], []) (.inl ⟨rfl, hne⟩)

/-- the register has one row per listed posting -/
theorem regFold_length (ps : List (OutPosting α κ)) :
    ∀ acc : List (OutPosting α κ × Amount κ) × Amount κ, (ps.foldl regStep acc).1.length = acc.1.length + ps.length := by
  induction ps with
  | nil => intro acc; simp
  | cons p tl ih => intro acc; simp only [List.foldl_cons, ih, regStep, List.length_append, List.length_cons,
      List.length_nil]; omega

theorem registerTotal_getPart (ps : List (OutPosting α κ)) (hwf : ∀ p ∈ ps, AMap.WF p.amount) (c : κ) :
    Amount.getPart (registerTotal ps) c = (ps.map fun p => Amount.getPart p.amount c).sum := by
  have := register_total ps hwf c ([], []) AMap.WF_nil
  unfold registerTotal regStep
  rw [this]
  simp [Amount.getPart, AMap.get?]

end register

/-- the amounts `register ACCOUNT` lists add up to the ledger sum of that account -/
theorem postingsOf_sum (txns : List (OutTxn String String)) (a c : String) :
    ((postingsOf txns (some a)).map fun p => Amount.getPart p.amount c).sum = ledgerSum txns a c := by
  induction txns with
  | nil => simp [postingsOf, allPostings, ledgerSum]
  | cons t ts ih =>
    simp only [postingsOf, allPostings, List.flatMap_cons, List.filterMap_append, List.map_append, List.sum_append,
      ledgerSum, List.map_cons, List.sum_cons] at ih ⊢
    rw [ih]
    congr 1
    simp only [acctSum, List.filterMap_map]
    induction t.postings with
    | nil => simp
    | cons o os ih2 =>
      simp only [List.filterMap_cons, Function.comp_apply, List.map_cons, List.sum_cons]
      by_cases ho : o.account = a
      · simp only [ho, if_true, List.map_cons, List.sum_cons]; rw [ih2]
      · simp only [ho, if_false]; rw [ih2]; simp

theorem postingsOf_wf (txns : List (OutTxn String String)) (hw : PostingsWF txns) (acct : Option String) :
    ∀ p ∈ postingsOf txns acct, AMap.WF p.amount := by
  intro p hp
  simp only [postingsOf, List.mem_filterMap] at hp
  obtain ⟨dp, hdp, hsel⟩ := hp
  have := hw dp hdp
  cases acct with
  | none => simp only [Option.some.injEq] at hsel; subst hsel; exact this
  | some a =>
    simp only at hsel
    split at hsel
    · simp only [Option.some.injEq] at hsel; subst hsel; exact this
    · cases hsel

/-- **C04_text_register_total**: for the ledger a TEXT denotes, for every account and commodity: the balance report,
the balance recomputed over the unbounded range, the final running total of `register ACCOUNT` and the sum of the
amounts of all postings to the account agree; no account holds a zero entry. -/
theorem C04_text_register_total (t : List Char) (es : List Entry) (st : ProcState) (h : Denotes t es st) (a c : String) :
    Amount.getPart (registerTotal (postingsOf st.txns (some a))) c = Amount.getPart (Balance.get st.bal a) c ∧
    Amount.getPart (Balance.get (rangeBalanceRaw st.txns ⟨none, none⟩) a) c = Amount.getPart (Balance.get st.bal a) c ∧
    Amount.getPart (Balance.get st.bal a) c = ledgerSum st.txns a c ∧
    Amount.NoZero (Balance.get st.bal a) := by
  have hw := processFrom_PostingsWF es {} st 0 h.2 RawOK_init (by intro dp hdp; simp [allPostings] at hdp)
  obtain ⟨g1, g2⟩ := C04_agree es st h.2 a c
  refine ⟨?_, g1, g2, (C04_raw es st h.2 a c).2⟩
  rw [registerTotal_getPart _ (postingsOf_wf st.txns hw (some a)) c, postingsOf_sum, g2]

/-- **C04_text_additive**: for the ledger a TEXT denotes, the reports over adjacent date ranges `[s, m)` and `[m, e)` add up
to the report over `[s, e)` — any end may be unbounded, empty ranges included; no side condition. -/
theorem C04_text_additive (t : List Char) (es : List Entry) (st : ProcState) (h : Denotes t es st)
    (s e : Option Date) (m : Date) (hsm : ∀ s', s = some s' → s' ≤ m) (hme : ∀ e', e = some e' → m ≤ e') (a c : String) :
    Amount.getPart (Balance.get (rangeBalanceRaw st.txns ⟨s, e⟩) a) c =
      Amount.getPart (Balance.get (rangeBalanceRaw st.txns ⟨s, some m⟩) a) c +
      Amount.getPart (Balance.get (rangeBalanceRaw st.txns ⟨some m, e⟩) a) c :=
  C04_additive_process es st h.2 s e m hsm hme a c

/-- **C04_text_range**: the recomputed balance over `[s, e)` of the ledger a TEXT denotes is the sum of the amounts of the
postings of the transactions dated in the range, and holds no zero entry -/
theorem C04_text_range (t : List Char) (es : List Entry) (st : ProcState) (h : Denotes t es st) (r : DateRange)
    (a c : String) :
    Amount.getPart (Balance.get (rangeBalanceRaw st.txns r) a) c = selSum (allPostings st.txns) r.contains a c ∧
    Amount.NoZero (Balance.get (rangeBalanceRaw st.txns r) a) :=
  C04_range st.txns r
    (processFrom_PostingsWF es {} st 0 h.2 RawOK_init (by intro dp hdp; simp [allPostings] at hdp)) a c

/-! ## kernel-evaluable tests that yield the hypotheses of the text-level theorems (for the non-vacuity examples) -/

/-- posting line `j` of entry `k` of a text -/
def lineAt (t : List Char) (k j : Nat) : Option Posting :=
  match Parse.parseEntries t with
  | .ok es =>
    match es[k]? with
    | some (.txn txn) => txn.posts[j]?
    | _ => none
  | _ => none

theorem denotes_of_check {t : List Char} (h : acceptsCheck t = true) : ∃ es st, Denotes t es st :=
  okaneAccepts_of_check h

/-- from two kernel-evaluated tests to the hypotheses of the text-level theorems -/
theorem hyps_of_checks (t : List Char) (k j : Nat) (f : Posting → Bool) (hacc : acceptsCheck t = true)
    (hl : (lineAt t k j).map f = some true) :
    ∃ es st txn p, ∃ hk : k < es.length, Denotes t es st ∧ es[k] = .txn txn ∧ txn.posts[j]? = some p ∧ f p = true := by
  obtain ⟨es, st, hd⟩ := denotes_of_check hacc
  unfold lineAt at hl
  rw [hd.1] at hl
  simp only at hl
  cases hek : es[k]? with
  | none => rw [hek] at hl; simp at hl
  | some e =>
    rw [hek] at hl
    cases e with
    | txn txn =>
      simp only at hl
      cases hp : txn.posts[j]? with
      | none => rw [hp] at hl; simp at hl
      | some p =>
        rw [hp] at hl
        simp only [Option.map_some, Option.some.injEq] at hl
        obtain ⟨hk, he⟩ := List.getElem?_eq_some_iff.1 hek
        exact ⟨es, st, txn, p, hk, hd, he, hp, hl⟩
    | _ => simp at hl

end Okane.BookText
