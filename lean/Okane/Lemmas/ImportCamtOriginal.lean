import Okane.Model.ImportCamt
/-!
# Camt053: a detail's ORIGINAL amount (`AmtDtls/TxAmt`), in the account's currency or another

`iso_camt053::import` compares the detail's booked amount with `AmtDtls/TxAmt` as `xmlnode::Amount`s, i.e. number AND
currency.  The theorems below say what that means for every detail: an original amount in another currency always becomes
the transferred (counter) amount - also when its NUMBER equals the booked number - and the statement's exchange rate is
recorded for its target currency; an original amount equal in number and currency changes nothing.
-/
namespace Okane.Import
open Okane

/-- amounts in different currencies are different amounts, whatever the numbers -/
theorem CamtAmount.eq_false_of_currency_ne (a b : CamtAmount) (h : a.currency ≠ b.currency) : a.eq b = false := by
  simp [CamtAmount.eq, h]

/-- no amount details, or an original amount equal to the booked one in number and currency: nothing changes -/
theorem withAmountDetails_same (t : Txn) (d : TxDetails)
    (h : d.txAmount = none ∨ ∃ ta, d.txAmount = some ta ∧ d.amount.eq ta.amount = true) :
    withAmountDetails t d = .ok t := by
  rcases h with h | ⟨ta, h, he⟩
  · simp [withAmountDetails, h]
  · simp [withAmountDetails, h, he]

/-- an original amount that differs (in number or in currency), given without an exchange rate: it becomes the transferred
amount, signed like the detail; no rate is recorded -/
theorem withAmountDetails_original_no_rate (t : Txn) (d : TxDetails) (ta : TxAmount)
    (hta : d.txAmount = some ta) (hne : d.amount.eq ta.amount = false) (hx : ta.exchange = none) :
    withAmountDetails t d = .ok (t.setTransferredAmount (ta.amount.toData d.cd)) := by
  simp [withAmountDetails, hta, hne, hx]

/-- an original amount that differs, with the statement's exchange rate `1 target = rate source` (source ≠ target, no rate
recorded for the target yet): the rate is recorded for the TARGET currency, quoted in the SOURCE currency, and the original
amount becomes the transferred amount -/
theorem withAmountDetails_original_rate (t : Txn) (d : TxDetails) (ta : TxAmount) (x : CurrencyExchange)
    (hta : d.txAmount = some ta) (hne : d.amount.eq ta.amount = false) (hx : ta.exchange = some x)
    (hst : x.source ≠ x.target) (hfresh : AMap.get? t.rates x.target = none) :
    withAmountDetails t d =
      .ok (({ t with rates := AMap.insert t.rates x.target ⟨x.rate, x.source⟩ } : Txn).setTransferredAmount (ta.amount.toData d.cd)) := by
  simp [withAmountDetails, hta, hne, hx, Txn.addRate, hst, hfresh]

/-- a rate between a currency and itself is refused (the whole import fails) -/
theorem withAmountDetails_rate_same_currency (t : Txn) (d : TxDetails) (ta : TxAmount) (x : CurrencyExchange)
    (hta : d.txAmount = some ta) (hne : d.amount.eq ta.amount = false) (hx : ta.exchange = some x)
    (hst : x.source = x.target) :
    withAmountDetails t d = .err (.other "rate-same-commodity") := by
  simp [withAmountDetails, hta, hne, hx, Txn.addRate, hst]

/-- **an original amount in ANOTHER currency is never dropped**: whatever the two numbers are (equal included), the detail's
transaction carries the original amount as its transferred amount, or the import fails - it is never imported as if the
original amount were the booked one -/
theorem withAmountDetails_foreign (t : Txn) (d : TxDetails) (ta : TxAmount)
    (hta : d.txAmount = some ta) (hcur : d.amount.currency ≠ ta.amount.currency) (t' : Txn)
    (h : withAmountDetails t d = .ok t') :
    t'.transferredAmount = some (ta.amount.toData d.cd) := by
  have hne := CamtAmount.eq_false_of_currency_ne _ _ hcur
  cases hx : ta.exchange with
  | none =>
    rw [withAmountDetails_original_no_rate t d ta hta hne hx] at h
    injection h with h; subst h; rfl
  | some x =>
    simp only [withAmountDetails, hta, hne, hx] at h
    cases ha : t.addRate ⟨x.source, x.target⟩ x.rate with
    | ok t1 => simp [ha] at h; subst h; rfl
    | err e => simp [ha] at h
    | panic s => simp [ha] at h
    | fuelOut => simp [ha] at h

/-- non-vacuity: booked 100 CHF, original amount 100 EUR at rate 1 - the numbers agree, the currencies do not -/
example :
    let d : TxDetails := { ref := none, amount := ⟨⟨false, 100, 0⟩, "CHF"⟩, cd := .debit,
                           txAmount := some ⟨⟨⟨false, 100, 0⟩, "EUR"⟩, some ⟨"CHF", "EUR", ⟨false, 1, 0⟩⟩⟩, charges := [] }
    d.amount.value.valEq ⟨false, 100, 0⟩ = true ∧ d.amount.eq ⟨⟨false, 100, 0⟩, "EUR"⟩ = false := by
  decide

end Okane.Import
