import Okane.Lemmas.DocAcceptLedger
/-!
# Acceptance of the documented grammar — the full statement is false; each side condition is necessary

`DocAccept_full_stmt` — "every text derivable from `doc/syntax.md` as documented (`Dialect.documented`) is accepted" —
is **false** (`not_DocAccept_full`).  More precisely each of the three side conditions of `Dialect.accepted` is necessary:
dropping any one of them admits a derivable text that the parser rejects.  Every witness below was replayed on the
real binary (`printf '…' > /tmp/x.ledger; /verif/work/target/debug/okane format /tmp/x.ledger` exits 1 with the
diagnostic quoted) and the parser model agrees (`drv c05 parse`).

| condition dropped | witness | `okane format` says |
|---|---|---|
| `numOk` (numbers within `rust_decimal`'s range) | `2024/01/01⏎ A  100000000000000000000000000000⏎` | `invalid metadata section of the posting` (line 2) |
| `postingAccountOk` (no `;` in the account) | `2024/01/01⏎ A;  1 (⏎)⏎` | `invalid no matching syntax` (line 3: the account ends at `;`, the rest of the line is a comment, the lot note's second line is left over) |
| `postingAccountOk` (account is not a clear mark) | `2024/01/01⏎ *⏎` | `invalid account of the posting` (line 2) |
| `applyTagOk` (no form feed in the tag) | `apply tag ␌⏎` | parse error at column 11 of line 1 |

A fourth condition, `noteOk` (no unclosed `(` after the date), was needed until the defect was repaired in the code: the
witness `2024/01/01 (⏎account X)⏎ note c  d⏎` was rejected with `invalid metadata section of the posting` (line 3: the code
ran to the `)` of line 2, and line 3 was read as a posting).  `paren_str` now has to close on its line; the witness is
derivable in `Dialect.accepted` and accepted (`noteOk_not_needed`: a transaction with the payee `(`, then the account
declaration `X)` with its note).

Reading R7 is justified the same way (`literal_R7_rejected`): with unindented continuation metadata the text
`2024/01/01 x⏎ A  1⏎;c⏎ B  1⏎` would be derivable, and the parser rejects it (`invalid no matching syntax`, line 4).
-/
set_option linter.unusedSimpArgs false
set_option linter.unusedVariables false
set_option maxRecDepth 20000
namespace Okane.DocAccept
open Okane Okane.Spec.Doc Okane.Comb

/-- the parser (model) accepts the text -/
def accepts (t : List Char) : Bool :=
  match Parse.parseEntries t with
  | .ok _ => true
  | _ => false

theorem accepts_of_ok {t : List Char} (h : ∃ es, Parse.parseEntries t = .ok es) : accepts t = true := by
  obtain ⟨es, h⟩ := h
  simp [accepts, h]

/-! ## building derivations of concrete texts -/

/-- a file that consists of one directive -/
theorem ledger_single {D : Dialect} {t : List Char} (h : directive D t []) : DocLedger D t :=
  ⟨t, .nil t, .cons ⟨[], h, .nil []⟩ (.nil [])⟩

/-- `yyyy/mm/dd` -/
theorem date_slash (y m d r : List Char) (hy : y.length = 4) (hm : m.length = 2) (hd : d.length = 2)
    (hdig : ∀ c ∈ y ++ (m ++ d), c.isDigit = true)
    (hv : (Date.mk (Spec.digitsValue y : Nat) (Spec.digitsValue m) (Spec.digitsValue d)).valid = true) :
    date (y ++ '/' :: (m ++ '/' :: (d ++ r))) r :=
  Or.inl ⟨y, m, d, rfl, hy, hm, hd, hdig, hv⟩

/-- a header that is only a date and a line feed -/
theorem header_dateOnly {D : Dialect} {i r : List Char} (h : date i ('\n' :: r)) : transactionHeader D i r :=
  ⟨'\n' :: r, ⟨'\n' :: r, h, Or.inr rfl⟩, '\n' :: r, Or.inr rfl, Or.inl (newLine_nl r)⟩

/-- a one-digit (or longer, all digits) unsigned integer as `comma-decimal` -/
theorem commaDecimal_digits (ds r : List Char) (hne : ds ≠ []) (h : ∀ c ∈ ds, c.isDigit = true) :
    commaDecimal (ds ++ r) r :=
  ⟨ds ++ r, Or.inr rfl, r, Or.inl (plus_chr_of ds r hne h), Or.inr rfl⟩

/-- an amount that is a bare unsigned integer -/
theorem amount_digits {D : Dialect} (ds r : List Char) (hne : ds ≠ []) (h : ∀ c ∈ ds, c.isDigit = true)
    (hok : D.numOk ds = true) : ValueExpr D (ds ++ r) r :=
  .amount ⟨r, ⟨commaDecimal_digits ds r hne h, ds, rfl, hok⟩, r, .nil r, Or.inr rfl⟩

/-- a one-letter account -/
theorem account_one (c : Char) (r : List Char) (h : isNoSp c = true) : account (c :: r) r :=
  ⟨r, ⟨c, rfl, h⟩, .nil r⟩

/-! ## the witnesses -/

/-- `Dialect.accepted` without the range condition on numbers -/
def Dialect.noNum : Dialect := { Dialect.accepted with numOk := fun _ => true }
/-- … without the condition on the account of a posting -/
def Dialect.noAccount : Dialect := { Dialect.accepted with postingAccountOk := fun _ => true }
/-- … without the condition on the tag of `apply tag` -/
def Dialect.noTag : Dialect := { Dialect.accepted with applyTagOk := fun _ => true }

def w_num : List Char := "2024/01/01\n A  100000000000000000000000000000\n".toList
def w_semi : List Char := "2024/01/01\n A;  1 (\n)\n".toList
def w_mark : List Char := "2024/01/01\n *\n".toList
def w_note : List Char := "2024/01/01 (\naccount X)\n note c  d\n".toList
def w_tag : List Char := "apply tag \x0c\n".toList

/-- a transaction whose header is `2024/01/01⏎` and that has one posting -/
theorem txn_one_posting {D : Dialect} {p : List Char} (h : posting D p []) :
    directive D ("2024/01/01\n".toList ++ p) [] :=
  Or.inl ⟨p, header_dateOnly (date_slash "2024".toList "01".toList "01".toList ('\n' :: p) rfl rfl rfl (by decide) (by decide)),
    p, .nil p, .cons h (.nil [])⟩

/-- a posting ` <account><value>⏎` without clear mark and metadata -/
theorem posting_simple {D : Dialect} {a v : List Char} (ha : account (a ++ (v ++ ['\n'])) (v ++ ['\n']))
    (hok : D.postingAccountOk a = true) (hv : G.opt (postingValue D) (v ++ ['\n']) ['\n']) :
    posting D (' ' :: (a ++ (v ++ ['\n']))) [] :=
  ⟨['\n'], ⟨a ++ (v ++ ['\n']), plus_chr_of [' '] _ (by simp) (by decide), a ++ (v ++ ['\n']), Or.inr rfl,
      v ++ ['\n'], ⟨ha, a, rfl, hok⟩, hv⟩,
    ['\n'], Or.inr rfl, [], newLine_nl [], .nil []⟩

theorem w_num_doc : DocLedger Dialect.noNum w_num := by
  apply ledger_single
  refine txn_one_posting (p := " A  100000000000000000000000000000\n".toList)
    (posting_simple (a := ['A']) (v := "  100000000000000000000000000000".toList) (account_one 'A' _ (by decide))
      (by decide) ?_)
  refine Or.inl ⟨"100000000000000000000000000000\n".toList, Or.inl rfl, _, .nil _, ['\n'], Or.inl ⟨['\n'], ?_, .nil _⟩,
    Or.inr rfl⟩
  exact ⟨['\n'], amount_digits "100000000000000000000000000000".toList ['\n'] (by simp) (by decide) rfl, ['\n'], .nil _,
    ['\n'], Or.inr rfl, Or.inr rfl⟩

theorem w_semi_doc : DocLedger Dialect.noAccount w_semi := by
  apply ledger_single
  refine txn_one_posting (p := " A;  1 (\n)\n".toList)
    (posting_simple (a := ['A', ';']) (v := "  1 (\n)".toList) ⟨_, ⟨'A', rfl, by decide⟩, .cons (Or.inl ⟨';', rfl, by decide⟩) (.nil _)⟩
      rfl ?_)
  refine Or.inl ⟨"1 (\n)\n".toList, Or.inl rfl, _, .nil _, ['\n'], Or.inl ⟨['\n'], ?_, .nil _⟩, Or.inr rfl⟩
  refine ⟨" (\n)\n".toList, amount_digits ['1'] _ (by simp) (by decide) (by decide), "(\n)\n".toList,
    .cons ⟨' ', rfl, by decide⟩ (.nil _), ['\n'], Or.inl ?_, Or.inr rfl⟩
  -- the lot: only a note, `(⏎)`
  exact Or.inl ⟨_, Or.inr rfl, _, Or.inr rfl, Or.inl ⟨['\n'], ⟨"\n)\n".toList, rfl, ")\n".toList,
    .cons ⟨'\n', rfl, by decide⟩ (.nil _), rfl⟩, .nil _⟩⟩

theorem w_mark_doc : DocLedger Dialect.noAccount w_mark := by
  apply ledger_single
  exact txn_one_posting (p := " *\n".toList)
    (posting_simple (a := ['*']) (v := []) (account_one '*' _ (by decide)) rfl (Or.inr rfl))

/-- the former witness of `noteOk` is a documented text, in every dialect that accepts the account name `X)` -/
theorem w_note_doc : DocLedger Dialect.accepted w_note := by
  -- a transaction `2024/01/01 (⏎` (payee `(`), then `account X)⏎ note c  d⏎`
  refine ⟨w_note, .nil _, .cons ⟨"account X)\n note c  d\n".toList, Or.inl ?_, .nil _⟩
    (.cons ⟨[], Or.inr (Or.inr (Or.inl ?_)), .nil _⟩ (.nil [])) ⟩
  · refine ⟨"account X)\n note c  d\n".toList, ?_, _, .nil _, .nil _⟩
    refine ⟨" (\naccount X)\n note c  d\n".toList,
      ⟨_, date_slash "2024".toList "01".toList "01".toList _ rfl rfl rfl (by decide) (by decide), Or.inr rfl⟩,
      "\naccount X)\n note c  d\n".toList, Or.inl ⟨"(\naccount X)\n note c  d\n".toList,
        plus_chr_of [' '] _ (by simp) (by decide), ?_⟩, Or.inl (newLine_nl _)⟩
    exact ⟨_, Or.inr rfl, _, Or.inr rfl, .cons ⟨'(', rfl, by decide⟩ (.nil _)⟩
  · refine ⟨" X)\n note c  d\n".toList, rfl, "X)\n note c  d\n".toList, plus_chr_of [' '] _ (by simp) (by decide),
      "\n note c  d\n".toList, ⟨_, ⟨'X', rfl, by decide⟩, .cons (Or.inl ⟨')', rfl, by decide⟩) (.nil _)⟩, _, .nil _,
      " note c  d\n".toList, newLine_nl _, .cons (Or.inl ?_) (.nil [])⟩
    exact ⟨"note c  d\n".toList, plus_chr_of [' '] _ (by simp) (by decide), " c  d\n".toList, rfl,
      "c  d\n".toList, plus_chr_of [' '] _ (by simp) (by decide), ['\n'],
      star_chr_of "c  d".toList ['\n'] (by decide), newLine_nl []⟩

theorem w_tag_doc : DocLedger Dialect.noTag w_tag := by
  apply ledger_single
  refine Or.inr (Or.inr (Or.inr (Or.inr (Or.inl ?_))))
  refine ⟨"\x0c\n".toList, ⟨" tag \x0c\n".toList, rfl, "tag \x0c\n".toList, plus_chr_of [' '] _ (by simp) (by decide),
    " \x0c\n".toList, rfl, plus_chr_of [' '] _ (by simp) (by decide)⟩, ['\n'], Or.inl ?_, newLine_nl []⟩
  exact ⟨['\n'], ⟨plus_chr_of ['\x0c'] _ (by simp) (by decide), ['\x0c'], rfl, rfl⟩, .nil _⟩

/-- the parser rejects each witness (kernel evaluation of the parser model; the real binary agrees) -/
theorem witnesses_rejected :
    accepts w_num = false ∧ accepts w_semi = false ∧ accepts w_mark = false ∧ accepts w_tag = false := by decide +kernel

/-! ## the statements -/

/-- acceptance of the grammar in dialect `D` -/
def DocAccept_stmt (D : Dialect) : Prop := ∀ t, DocLedger D t → ∃ es, Parse.parseEntries t = .ok es

/-- the clause of C05 as it stands: the grammar exactly as documented -/
def DocAccept_full_stmt : Prop := DocAccept_stmt Dialect.documented

theorem not_stmt_of_witness {D : Dialect} {t : List Char} (hd : DocLedger D t) (hr : accepts t = false) :
    ¬ DocAccept_stmt D := by
  intro h
  have := accepts_of_ok (h t hd)
  rw [hr] at this
  cases this

/-- each side condition of `Dialect.accepted` is necessary -/
theorem numOk_needed : ¬ DocAccept_stmt Dialect.noNum := not_stmt_of_witness w_num_doc witnesses_rejected.1
theorem accountSemicolon_needed : ¬ DocAccept_stmt Dialect.noAccount :=
  not_stmt_of_witness w_semi_doc witnesses_rejected.2.1
theorem applyTagOk_needed : ¬ DocAccept_stmt Dialect.noTag := not_stmt_of_witness w_tag_doc witnesses_rejected.2.2.2

/-- the second half of `postingAccountOk` (the account does not begin with a clear mark) is needed too: keep "no `;`" and
drop only that half -/
def Dialect.noMark : Dialect := { Dialect.accepted with postingAccountOk := fun a => !a.contains ';' }

theorem w_mark_doc' : DocLedger Dialect.noMark w_mark := by
  apply ledger_single
  exact txn_one_posting (p := " *\n".toList)
    (posting_simple (a := ['*']) (v := []) (account_one '*' _ (by decide)) rfl (Or.inr rfl))

theorem accountMark_needed : ¬ DocAccept_stmt Dialect.noMark := not_stmt_of_witness w_mark_doc' witnesses_rejected.2.2.1

/-- the same text is derivable from the grammar exactly as documented -/
theorem w_mark_documented : DocLedger Dialect.documented w_mark := by
  apply ledger_single
  exact txn_one_posting (p := " *\n".toList)
    (posting_simple (a := ['*']) (v := []) (account_one '*' _ (by decide)) rfl (Or.inr rfl))

/-- **the first clause of C05 as it stands is false** of the documented grammar: `2024/01/01⏎ *⏎` is derivable
(the account `*` is a `no-sp`) and rejected -/
theorem not_DocAccept_full : ¬ DocAccept_full_stmt := not_stmt_of_witness w_mark_documented witnesses_rejected.2.2.1

/-- reading R7: with the document's unindented `(metadata new-line)*` the text `2024/01/01 x⏎ A  1⏎;c⏎ B  1⏎` would be a
transaction with two postings; the parser (rightly: an unindented `;` line is a top-level comment) rejects it -/
theorem literal_R7_rejected : accepts "2024/01/01 x\n A  1\n;c\n B  1\n".toList = false := by decide +kernel

/-- **the partial theorem** (restated): with the three side conditions the clause holds -/
theorem DocAccept_partial : DocAccept_stmt Dialect.accepted := DocAccept_ledger

/-! ## regression: the repaired defect (transaction code across line ends) -/

/-- what the parser (model) returns for the former witness of `noteOk`: the transaction with the payee `(` and no code,
then the account `X)` with its note -/
def w_note_expected : List Entry :=
  [.txn { date := ⟨2024, 1, 1⟩, payee := "(" }, .account "X)" [.note "c  d\n"]]

/-- **regression** (was `noteOk_needed : ¬ DocAccept_stmt Dialect.noNote`): the text `2024/01/01 (⏎account X)⏎ note c  d⏎`
follows the documented syntax, and it is now ACCEPTED — by the theorem, and by kernel evaluation of the parser model, which
reads it as documented (payee `(`, then an account declaration); the real binary agrees (`okane format` exits 0) -/
theorem noteOk_not_needed :
    DocLedger Dialect.accepted w_note ∧ accepts w_note = true ∧
      (match Parse.parseEntries w_note with | .ok es => es == w_note_expected | _ => false) = true :=
  ⟨w_note_doc, accepts_of_ok (DocAccept_ledger w_note w_note_doc), by decide +kernel⟩

/-- the same header forms on one line: `(` closed after a `;` is a code; an unclosed `(` after a clear mark is the payee -/
example : accepts "2024/01/01 * (abc ; x) y\n".toList = true ∧ accepts "2024/01/01 ! (abc ; x\n  A  1 USD\n".toList = true ∧
    accepts "2024/01/01 (".toList = true := by decide +kernel

end Okane.DocAccept
