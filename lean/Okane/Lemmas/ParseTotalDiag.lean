import Okane.Lemmas.ParseTotal
import Okane.Lemmas.Diag
/-!
# The `ParseError` the parser model builds is the one the byte-level model of `ParseError::new` builds (C06)

`Parse.parseErrorNew` works on stream positions (remaining texts) with `Nat` subtraction; `Diag.parseErrorNew` is the
byte-level transliteration of `ParseError::new` with its three hazards: winnow's `offset_from` debug assertion,
`compute_line_number`'s assert, and the char-boundary search with fuel.  For nested suffixes
`pos <:+ checkpoint <:+ whole` — which is what `parsedIter_total` establishes for every error `parse_ledger` reports —
the byte positions satisfy `startPos ≤ errPos ≤ |text|`, the byte-level construction succeeds, and it yields the same
`line_start` and the same `error_span`.
-/
namespace Okane.Parse
open Okane Okane.Comb Okane.Diag

theorem length_encode (cs : List Char) : (encode cs).length = utf8Len cs := by
  induction cs with
  | nil => rfl
  | cons c r ih =>
    have : encode (c :: r) = String.utf8EncodeChar c ++ encode r := by simp [encode]
    rw [this, List.length_append, ih, String.length_utf8EncodeChar]
    rfl

theorem utf8Size_pos (c : Char) : 0 < c.utf8Size := by
  have := String.length_utf8EncodeChar c
  have h2 := @String.utf8EncodeChar_ne_nil c
  cases h : String.utf8EncodeChar c with
  | nil => exact absurd h h2
  | cons b r => rw [h] at this; simp at this; omega

/-- the parser model's `compute_line_number` at the byte position where `pre` ends counts the `\n` of `pre` -/
theorem lfBefore_append (pre rest : List Char) : Parse.lfBefore (pre ++ rest) (utf8Len pre) = pre.count '\n' := by
  induction pre with
  | nil => cases rest <;> simp [Parse.lfBefore, utf8Len]
  | cons c r ih =>
    have hc := utf8Size_pos c
    have h1 : c.utf8Size + utf8Len r ≠ 0 := by omega
    have h2 : c.utf8Size + utf8Len r - c.utf8Size = utf8Len r := by omega
    simp only [List.cons_append, Parse.lfBefore, utf8Len, if_neg h1, h2, ih, List.count_cons]
    by_cases h : c = '\n'
    · subst h; simp; omega
    · have : (c == '\n') = false := by simpa using h
      simp [h, this]

/-- the search `(offset+1 ..= len).find(is_char_boundary)` stops at the end of the character that starts at `offset` -/
theorem findBoundary_char (mid rest : List Char) (c : Char) (fuel : Nat)
    (hf : (encode (mid ++ c :: rest)).length + 1 ≤ fuel) :
    findBoundary (encode (mid ++ c :: rest)) fuel (utf8Len mid + 1) = .ok (some (utf8Len mid + c.utf8Size)) := by
  have hb := boundary_within_char mid rest c
  simp only [length_encode, String.length_utf8EncodeChar] at hb
  obtain ⟨hb1, hb2, hb3, hb4⟩ := hb
  rw [length_encode] at hf
  obtain ⟨r, hr⟩ := findBoundary_terminates (encode (mid ++ c :: rest)) fuel (utf8Len mid + 1)
    (by rw [length_encode]; omega) (by rw [length_encode]; omega)
  have hs := findBoundary_spec _ _ _ _ hr
  rw [hr]
  cases r with
  | none =>
    have := hs (utf8Len mid + c.utf8Size) (by omega) (by rw [length_encode]; exact hb4)
    rw [hb2] at this; cases this
  | some b =>
    obtain ⟨s1, s2, s3, s4⟩ := hs
    congr 2
    by_cases hlt : b < utf8Len mid + c.utf8Size
    · have := hb1 (b - utf8Len mid) (by omega) (by omega)
      rw [show utf8Len mid + (b - utf8Len mid) = b by omega, s3] at this
      cases this
    · by_cases hgt : utf8Len mid + c.utf8Size < b
      · have := s4 (utf8Len mid + c.utf8Size) (by omega) hgt
        rw [hb2] at this; cases this
      · omega

/-- **`ParseError::new`, byte level, on the positions the parser reports**: no assertion fires, the boundary search
ends within its fuel, and `line_start` / `error_span` are the ones of the parser model. -/
theorem parseErrorNew_agrees (whole i' pos : List Char) (isCut : Bool) (e : Parse.ParseErr)
    (hp : pos <:+ i') (hi : i' <:+ whole) (he : Parse.parseErrorNew whole i' pos isCut = .ok e) :
    let initial := encode whole
    let startPos := utf8Len whole - utf8Len i'
    let errPos := utf8Len whole - utf8Len pos
    startPos ≤ errPos ∧ errPos ≤ initial.length ∧
    ∃ pe, Diag.parseErrorNew (parseErrorFuel initial) initial startPos errPos = .ok pe ∧
      pe.lineStart = e.lineStart ∧ pe.errorSpan = ⟨e.offset, e.spanEnd⟩ ∧ pe.input = encode i' := by
  obtain ⟨pre, rfl⟩ := hi
  obtain ⟨mid, rfl⟩ := hp
  intro initial startPos errPos
  have hlen : initial.length = utf8Len pre + (utf8Len mid + utf8Len pos) := by
    show (encode (pre ++ (mid ++ pos))).length = _
    rw [length_encode, utf8Len_append, utf8Len_append]
  have hstart : startPos = utf8Len pre := by
    show utf8Len (pre ++ (mid ++ pos)) - utf8Len (mid ++ pos) = _
    rw [utf8Len_append]; omega
  have herr : errPos = utf8Len pre + utf8Len mid := by
    show utf8Len (pre ++ (mid ++ pos)) - utf8Len pos = _
    rw [utf8Len_append, utf8Len_append]; omega
  refine ⟨by omega, by omega, ?_⟩
  -- the parser model's error
  have hnot : ¬ (utf8Len (pre ++ (mid ++ pos)) - utf8Len (mid ++ pos) > utf8Len (pre ++ (mid ++ pos))) := by omega
  simp only [Parse.parseErrorNew, Parse.computeLineNumber, if_neg hnot] at he
  injection he with he
  have hoff : utf8Len (mid ++ pos) - utf8Len pos = utf8Len mid := by rw [utf8Len_append]; omega
  have hline : Parse.lfBefore (pre ++ (mid ++ pos)) (utf8Len (pre ++ (mid ++ pos)) - utf8Len (mid ++ pos))
      = pre.count '\n' := by
    rw [show utf8Len (pre ++ (mid ++ pos)) - utf8Len (mid ++ pos) = utf8Len pre by rw [utf8Len_append]; omega]
    exact lfBefore_append pre _
  rw [hoff, hline] at he
  -- the byte-level construction
  have hinit : initial = encode pre ++ encode (mid ++ pos) := encode_append pre _
  have hdrop : initial.drop startPos = encode (mid ++ pos) := by
    rw [hinit, hstart, ← length_encode pre]; simp
  have htake : initial.take startPos = encode pre := by
    rw [hinit, hstart, ← length_encode pre]; simp
  have hfuel : parseErrorFuel initial = initial.length + 1 := rfl
  have hcl : Diag.computeLineNumber initial startPos = .ok (1 + pre.count '\n') := by
    simp only [Diag.computeLineNumber]
    rw [if_pos (by omega), htake, countLF_encode]
  have hsub : errPos - startPos = utf8Len mid := by omega
  have hnlt : ¬ errPos < startPos := by omega
  simp only [Diag.parseErrorNew, if_neg hnlt, hcl, hdrop, hsub]
  cases pos with
  | nil =>
    have hfb : findBoundary (encode (mid ++ [])) (parseErrorFuel initial) (utf8Len mid + 1) = .ok none := by
      rw [hfuel]
      unfold findBoundary
      rw [if_pos (by rw [length_encode]; simp)]
    rw [hfb]
    refine ⟨_, rfl, ?_, ?_, rfl⟩
    · subst he; rfl
    · subst he; rfl
  | cons c rest =>
    have hfb := findBoundary_char mid rest c (parseErrorFuel initial) (by
      rw [hfuel, hlen, length_encode, utf8Len_append]; omega)
    rw [hfb]
    refine ⟨_, rfl, ?_, ?_, rfl⟩
    · subst he; rfl
    · subst he; rfl

/-- **every `ParseError` of `parse_ledger` is constructible at byte level** (`ParseError::new` total, same span and
line), for every text -/
theorem parseLedger_error_constructible (t : List Char) (e : Parse.ParseErr) (h : parseLedger t = .err e) :
    ∃ startPos errPos, startPos ≤ errPos ∧ errPos ≤ (encode t).length ∧
      ∃ pe, Diag.parseErrorNew (parseErrorFuel (encode t)) (encode t) startPos errPos = .ok pe ∧
        pe.lineStart = e.lineStart ∧ pe.errorSpan = ⟨e.offset, e.spanEnd⟩ := by
  rcases parseLedger_total t with ⟨es, h'⟩ | ⟨e', h', i', pos, hp, hi, he⟩
  · rw [h'] at h; cases h
  · rw [h'] at h
    injection h with h; subst h
    obtain ⟨a, b, pe, c, d, f, _⟩ := parseErrorNew_agrees t i' pos _ e' hp hi he
    exact ⟨_, _, a, b, pe, c, d, f⟩

end Okane.Parse
