import Okane.Spec.Price
/-!
# Lemmas for C09: the order on `Dist`, popping from the queue, and the work-list invariant of
`Price.loop` (DESIGN Appendix D), for every pop choice and every neighbour order.
-/
set_option linter.unusedSectionVars false
namespace Okane.Price
variable {κ : Type} [DecidableEq κ]

/-! ## `Dist` is linearly ordered; `extend` is monotone -/
namespace Dist

theorem le_def (a b : Dist) : a ≤ b ↔
    (a.ledger < b.ledger ∨ (a.ledger = b.ledger ∧ (a.all < b.all ∨ (a.all = b.all ∧ a.stale ≤ b.stale)))) := Iff.rfl

theorem lt_def (a b : Dist) : a < b ↔
    (a.ledger < b.ledger ∨ (a.ledger = b.ledger ∧ (a.all < b.all ∨ (a.all = b.all ∧ a.stale < b.stale)))) := Iff.rfl

theorem le_refl (a : Dist) : a ≤ a := by rw [le_def]; omega

theorem le_trans {a b c : Dist} (h1 : a ≤ b) (h2 : b ≤ c) : a ≤ c := by
  rw [le_def] at *; omega

theorem le_of_lt {a b : Dist} (h : a < b) : a ≤ b := by
  rw [lt_def] at h; rw [le_def]; omega

theorem lt_of_not_le {a b : Dist} (h : ¬ a ≤ b) : b < a := by
  rw [le_def] at h; rw [lt_def]; omega

theorem not_lt_of_le {a b : Dist} (h : a ≤ b) : ¬ b < a := by
  rw [le_def] at h; rw [lt_def]; omega

theorem le_total (a b : Dist) : a ≤ b ∨ b ≤ a := by
  rw [le_def, le_def]; omega

theorem lt_irrefl (a : Dist) : ¬ a < a := by rw [lt_def]; omega

theorem le_antisymm {a b : Dist} (h1 : a ≤ b) (h2 : b ≤ a) : a = b := by
  rw [le_def] at *
  cases a; cases b; simp only [mk.injEq] at *; omega

theorem extend_mono {a b : Dist} (h : a ≤ b) (s : Source) (st : Int) : a.extend s st ≤ b.extend s st := by
  rw [le_def] at *
  cases s <;> simp only [extend] <;> omega

theorem extend_all (a : Dist) (s : Source) (st : Int) : (a.extend s st).all = a.all + 1 := rfl

theorem lt_extend (a : Dist) (s : Source) (st : Int) : a < a.extend s st := by
  rw [lt_def]; cases s <;> simp only [extend] <;> omega

theorem not_lt_zero_of_pos {a : Dist} (h : 1 ≤ a.all) : ¬ a < zero := by
  rw [lt_def]; simp only [zero]; omega

end Dist

/-! ## popping an element -/

theorem getD_mem_of_lt {β : Type} (q : List β) (i : Nat) (d : β) (h : i < q.length) : q.getD i d ∈ q := by
  rw [List.getD_eq_getElem?_getD, List.getElem?_eq_getElem h]
  exact List.getElem_mem h

theorem mem_split_eraseIdx {β : Type} (q : List β) (i : Nat) (d : β) (h : i < q.length) (y : β) (hy : y ∈ q) :
    y = q.getD i d ∨ y ∈ q.eraseIdx i := by
  obtain ⟨j, hj, rfl⟩ := List.getElem_of_mem hy
  by_cases hji : j = i
  · left; subst hji
    rw [List.getD_eq_getElem?_getD, List.getElem?_eq_getElem hj]; rfl
  · right
    exact List.mem_eraseIdx_iff_getElem.2 ⟨j, hj, hji, rfl⟩

/-! ## the invariant -/
section Invariant
variable (out : κ → List (Edge κ)) (src : κ)

/-- labels only improve, and tabled commodities stay tabled. -/
def TableLE (t t' : Table κ) : Prop :=
  ∀ j d r, AMap.get? t j = some (d, r) → ∃ d' r', AMap.get? t' j = some (d', r') ∧ d' ≤ d

/-- every step out of `j` has been applied to label `d` (or would not improve anything). -/
def Relaxed (t : Table κ) (j : κ) (d : Dist) : Prop :=
  ∀ e ∈ out j, ∃ d' r', AMap.get? t e.to = some (d', r') ∧ d' ≤ d.extend e.source e.stale

def Queued (q : List (Item κ)) (j : κ) (d : Dist) : Prop := ∃ it ∈ q, it.node = j ∧ it.dist = d

/-- Appendix D: I1 (`walkT`, `walkQ`), I2 (`cov`, `covSrc`); `busy` is the element being expanded. -/
structure Inv (t : Table κ) (q : List (Item κ)) (busy : Option (κ × Dist)) : Prop where
  pos : ∀ j d r, AMap.get? t j = some (d, r) → 1 ≤ d.all
  walkT : ∀ j d r, AMap.get? t j = some (d, r) → Walk out src j d r
  walkQ : ∀ it ∈ q, Walk out src it.node it.dist it.rate
  cov : ∀ j d r, AMap.get? t j = some (d, r) → Queued q j d ∨ Relaxed out t j d ∨ busy = some (j, d)
  covSrc : Queued q src Dist.zero ∨ Relaxed out t src Dist.zero ∨ busy = some (src, Dist.zero)

variable {out src}

theorem TableLE.refl (t : Table κ) : TableLE t t := fun _ d r h => ⟨d, r, h, Dist.le_refl d⟩

theorem TableLE.trans {t1 t2 t3 : Table κ} (h12 : TableLE t1 t2) (h23 : TableLE t2 t3) : TableLE t1 t3 := by
  intro j d r h
  obtain ⟨d2, r2, h2, hle2⟩ := h12 j d r h
  obtain ⟨d3, r3, h3, hle3⟩ := h23 j d2 r2 h2
  exact ⟨d3, r3, h3, Dist.le_trans hle3 hle2⟩

theorem Relaxed.mono {t t' : Table κ} (h : TableLE t t') {j : κ} {d : Dist} (hr : Relaxed out t j d) :
    Relaxed out t' j d := by
  intro e he
  obtain ⟨d1, r1, h1, hle1⟩ := hr e he
  obtain ⟨d2, r2, h2, hle2⟩ := h _ d1 r1 h1
  exact ⟨d2, r2, h2, Dist.le_trans hle2 hle1⟩

theorem Queued.mono {q q' : List (Item κ)} (h : ∀ x ∈ q, x ∈ q') {j : κ} {d : Dist} (hq : Queued q j d) :
    Queued q' j d := by
  obtain ⟨it, hit, h1, h2⟩ := hq
  exact ⟨it, h it hit, h1, h2⟩

/-- what one `relax` does to the table. -/
theorem relax_cases (d : Dist) (r : Rat) (t : Table κ) (q : List (Item κ)) (e : Edge κ) :
    (relax d r (t, q) e = (t, q) ∧ ∃ d' r', AMap.get? t e.to = some (d', r') ∧ d' ≤ d.extend e.source e.stale) ∨
    (relax d r (t, q) e = (AMap.insert t e.to (d.extend e.source e.stale, r * e.rate),
                           q ++ [⟨d.extend e.source e.stale, e.to, r * e.rate⟩]) ∧
      ∀ d' r', AMap.get? t e.to = some (d', r') → d.extend e.source e.stale < d') := by
  unfold relax
  cases hg : AMap.get? t e.to with
  | none => right; simp
  | some v =>
    obtain ⟨d', r'⟩ := v
    by_cases hle : d' ≤ d.extend e.source e.stale
    · left; simp only [hle, if_true]; exact ⟨trivial, d', r', rfl, hle⟩
    · right; simp only [hle, if_false, true_and]
      intro d'' r'' h; cases h; exact Dist.lt_of_not_le hle

theorem relax_inv {t : Table κ} {q : List (Item κ)} {p : κ} {d : Dist} {r : Rat} {e : Edge κ}
    (hinv : Inv out src t q (some (p, d))) (hw : Walk out src p d r) (he : e ∈ out p) :
    Inv out src (relax d r (t, q) e).1 (relax d r (t, q) e).2 (some (p, d)) ∧
    TableLE t (relax d r (t, q) e).1 ∧
    (∀ x ∈ q, x ∈ (relax d r (t, q) e).2) ∧
    ∃ d' r', AMap.get? (relax d r (t, q) e).1 e.to = some (d', r') ∧ d' ≤ d.extend e.source e.stale := by
  rcases relax_cases d r t q e with ⟨heq, hex⟩ | ⟨heq, hlt⟩
  · rw [heq]; exact ⟨hinv, TableLE.refl t, fun x hx => hx, hex⟩
  · rw [heq]
    have hle : TableLE t (AMap.insert t e.to (d.extend e.source e.stale, r * e.rate)) := by
      intro j dj rj hj
      by_cases hje : e.to = j
      · subst hje
        exact ⟨_, _, AMap.get?_insert_self _ _ _, Dist.le_of_lt (hlt dj rj hj)⟩
      · exact ⟨dj, rj, by rw [AMap.get?_insert_ne _ _ hje]; exact hj, Dist.le_refl dj⟩
    have hsub : ∀ x ∈ q, x ∈ q ++ [(⟨d.extend e.source e.stale, e.to, r * e.rate⟩ : Item κ)] :=
      fun x hx => List.mem_append_left _ hx
    have hnewW : Walk out src e.to (d.extend e.source e.stale) (r * e.rate) := Walk.cons hw he
    refine ⟨⟨?_, ?_, ?_, ?_, ?_⟩, hle, hsub, ⟨_, _, AMap.get?_insert_self _ _ _, Dist.le_refl _⟩⟩
    · intro j dj rj hj
      by_cases hje : e.to = j
      · subst hje; rw [AMap.get?_insert_self] at hj; cases hj; rw [Dist.extend_all]; omega
      · rw [AMap.get?_insert_ne _ _ hje] at hj; exact hinv.pos j dj rj hj
    · intro j dj rj hj
      by_cases hje : e.to = j
      · subst hje; rw [AMap.get?_insert_self] at hj; cases hj; exact hnewW
      · rw [AMap.get?_insert_ne _ _ hje] at hj; exact hinv.walkT j dj rj hj
    · intro it hit
      rcases List.mem_append.1 hit with h | h
      · exact hinv.walkQ it h
      · simp only [List.mem_singleton] at h; subst h; exact hnewW
    · intro j dj rj hj
      by_cases hje : e.to = j
      · subst hje; rw [AMap.get?_insert_self] at hj; cases hj
        left; exact ⟨_, List.mem_append_right _ (List.mem_singleton.2 rfl), rfl, rfl⟩
      · rw [AMap.get?_insert_ne _ _ hje] at hj
        rcases hinv.cov j dj rj hj with h | h | h
        · left; exact h.mono hsub
        · right; left; exact h.mono hle
        · right; right; exact h
    · rcases hinv.covSrc with h | h | h
      · left; exact h.mono hsub
      · right; left; exact h.mono hle
      · right; right; exact h

theorem fold_inv {p : κ} {d : Dist} {r : Rat} (hw : Walk out src p d r) :
    ∀ (es : List (Edge κ)) (t : Table κ) (q : List (Item κ)), (∀ e ∈ es, e ∈ out p) →
    Inv out src t q (some (p, d)) →
    Inv out src (es.foldl (relax d r) (t, q)).1 (es.foldl (relax d r) (t, q)).2 (some (p, d)) ∧
    TableLE t (es.foldl (relax d r) (t, q)).1 ∧
    ∀ e ∈ es, ∃ d' r', AMap.get? (es.foldl (relax d r) (t, q)).1 e.to = some (d', r') ∧
      d' ≤ d.extend e.source e.stale := by
  intro es
  induction es with
  | nil => intro t q _ hinv; exact ⟨hinv, TableLE.refl t, by simp⟩
  | cons e es ih =>
    intro t q hsub hinv
    have he : e ∈ out p := hsub e (List.mem_cons_self)
    obtain ⟨hinv1, hle1, _, d1, r1, hg1, hd1⟩ := relax_inv hinv hw he
    have := ih (relax d r (t, q) e).1 (relax d r (t, q) e).2
      (fun e' he' => hsub e' (List.mem_cons_of_mem _ he')) hinv1
    obtain ⟨hinv2, hle2, hproc⟩ := this
    simp only [List.foldl_cons]
    refine ⟨hinv2, hle1.trans hle2, ?_⟩
    intro e' he'
    rcases List.mem_cons.1 he' with h | h
    · subst h
      obtain ⟨d2, r2, hg2, hd2⟩ := hle2 _ d1 r1 hg1
      exact ⟨d2, r2, hg2, Dist.le_trans hd2 hd1⟩
    · exact hproc e' h

/-- one iteration of the `while let Some(curr) = queue.pop()` loop preserves the invariant. -/
theorem step_inv {t : Table κ} {q q' : List (Item κ)} {it : Item κ}
    (hinv : Inv out src t q none) (hit : it ∈ q) (hsplit : ∀ x ∈ q, x = it ∨ x ∈ q') (hsub : ∀ x ∈ q', x ∈ q) :
    (isStale t it = true → Inv out src t q' none) ∧
    (isStale t it = false →
      Inv out src ((out it.node).foldl (relax it.dist it.rate) (t, q')).1
        ((out it.node).foldl (relax it.dist it.rate) (t, q')).2 none) := by
  constructor
  · intro hst
    unfold isStale at hst
    cases hg : AMap.get? t it.node with
    | none => simp [hg] at hst
    | some v =>
      obtain ⟨dp, rp⟩ := v
      simp only [hg, decide_eq_true_eq] at hst
      refine ⟨hinv.pos, hinv.walkT, fun x hx => hinv.walkQ x (hsub x hx), ?_, ?_⟩
      · intro j dj rj hj
        rcases hinv.cov j dj rj hj with ⟨x, hx, hx1, hx2⟩ | h | h
        · rcases hsplit x hx with hxe | hxe
          · subst hxe; subst hx1; rw [hg] at hj; cases hj
            rw [hx2] at hst; exact absurd hst (Dist.lt_irrefl _)
          · left; exact ⟨x, hxe, hx1, hx2⟩
        · right; left; exact h
        · cases h
      · rcases hinv.covSrc with ⟨x, hx, hx1, hx2⟩ | h | h
        · rcases hsplit x hx with hxe | hxe
          · subst hxe
            rw [hx2] at hst
            exact absurd hst (Dist.not_lt_zero_of_pos (hinv.pos _ _ _ hg))
          · left; exact ⟨x, hxe, hx1, hx2⟩
        · right; left; exact h
        · cases h
  · intro _
    have hw : Walk out src it.node it.dist it.rate := hinv.walkQ it hit
    have hstart : Inv out src t q' (some (it.node, it.dist)) := by
      refine ⟨hinv.pos, hinv.walkT, fun x hx => hinv.walkQ x (hsub x hx), ?_, ?_⟩
      · intro j dj rj hj
        rcases hinv.cov j dj rj hj with ⟨x, hx, hx1, hx2⟩ | h | h
        · rcases hsplit x hx with hxe | hxe
          · subst hxe; right; right; rw [hx1, hx2]
          · left; exact ⟨x, hxe, hx1, hx2⟩
        · right; left; exact h
        · cases h
      · rcases hinv.covSrc with ⟨x, hx, hx1, hx2⟩ | h | h
        · rcases hsplit x hx with hxe | hxe
          · subst hxe; right; right; rw [hx1, hx2]
          · left; exact ⟨x, hxe, hx1, hx2⟩
        · right; left; exact h
        · cases h
    obtain ⟨hinv2, _, hproc⟩ := fold_inv hw (out it.node) t q' (fun e he => he) hstart
    have hrel : Relaxed out ((out it.node).foldl (relax it.dist it.rate) (t, q')).1 it.node it.dist := hproc
    refine ⟨hinv2.pos, hinv2.walkT, hinv2.walkQ, ?_, ?_⟩
    · intro j dj rj hj
      rcases hinv2.cov j dj rj hj with h | h | h
      · left; exact h
      · right; left; exact h
      · right; left; cases h; exact hrel
    · rcases hinv2.covSrc with h | h | h
      · left; exact h
      · right; left; exact h
      · right; left
        simp only [Option.some.injEq, Prod.mk.injEq] at h
        rw [← h.1, ← h.2]; exact hrel

theorem loop_inv (pick : Nat → List (Item κ) → Nat) :
    ∀ (fuel : Nat) (t : Table κ) (q : List (Item κ)) (T : Table κ),
    Inv out src t q none → loop out pick fuel t q = .ok T → Inv out src T [] none := by
  intro fuel
  induction fuel with
  | zero =>
    intro t q T hinv h
    cases q with
    | nil => simp only [loop] at h; cases h; exact hinv
    | cons x xs => simp [loop] at h
  | succ n ih =>
    intro t q T hinv h
    cases q with
    | nil => simp only [loop] at h; cases h; exact hinv
    | cons x xs =>
      simp only [loop] at h
      have hlt : pick n (x :: xs) % (x :: xs).length < (x :: xs).length := Nat.mod_lt _ (by simp)
      have hit := getD_mem_of_lt (x :: xs) _ x hlt
      have hsplit := mem_split_eraseIdx (x :: xs) _ x hlt
      have hsub : ∀ y ∈ (x :: xs).eraseIdx (pick n (x :: xs) % (x :: xs).length), y ∈ x :: xs :=
        fun y hy => List.mem_of_mem_eraseIdx hy
      obtain ⟨h1, h2⟩ := step_inv hinv hit hsplit hsub
      split at h
      · rename_i hst; exact ih _ _ T (h1 hst) h
      · rename_i hst; exact ih _ _ T (h2 (by simpa using hst)) h

theorem init_inv : Inv out src ([] : Table κ) [⟨Dist.zero, src, 1⟩] none := by
  refine ⟨?_, ?_, ?_, ?_, ?_⟩
  · intro j d r h; simp at h
  · intro j d r h; simp at h
  · intro it hit; simp only [List.mem_singleton] at hit; subst hit; exact Walk.nil
  · intro j d r h; simp at h
  · left; exact ⟨_, List.mem_singleton.2 rfl, rfl, rfl⟩

/-- at an empty queue every chain is matched or beaten by the table. -/
theorem final_lower_bound {T : Table κ} (hinv : Inv out src T [] none) :
    ∀ j d r, Walk out src j d r → (j = src ∧ d = Dist.zero) ∨ ∃ d' r', AMap.get? T j = some (d', r') ∧ d' ≤ d := by
  intro j d r hw
  induction hw with
  | nil => left; exact ⟨rfl, rfl⟩
  | @cons j d r e _ he ih =>
    right
    have hrel : ∃ d0, d0 ≤ d ∧ Relaxed out T j d0 := by
      rcases ih with ⟨hj, hd⟩ | ⟨d', r', hg, hle⟩
      · subst hj; subst hd
        rcases hinv.covSrc with ⟨x, hx, _⟩ | h | h
        · simp at hx
        · exact ⟨_, Dist.le_refl _, h⟩
        · cases h
      · rcases hinv.cov j d' r' hg with ⟨x, hx, _⟩ | h | h
        · simp at hx
        · exact ⟨d', hle, h⟩
        · cases h
    obtain ⟨d0, hle0, hr⟩ := hrel
    obtain ⟨d1, r1, hg1, hle1⟩ := hr e he
    exact ⟨d1, r1, hg1, Dist.le_trans hle1 (Dist.extend_mono hle0 _ _)⟩

/-- a nonempty chain never has distance zero (so the first disjunct above only concerns the empty chain). -/
theorem Walk.all_pos_or_nil {j : κ} {d : Dist} {r : Rat} (hw : Walk out src j d r) :
    (j = src ∧ d = Dist.zero ∧ r = 1) ∨ 1 ≤ d.all := by
  cases hw with
  | nil => left; exact ⟨rfl, rfl, rfl⟩
  | cons _ _ => right; rw [Dist.extend_all]; omega

end Invariant


/-! ## sorting and the as-of lookup -/
section AsOf

theorem recLe_total (a b : Date × Rat) : recLe a b = true ∨ recLe b a = true := by
  simp only [recLe, Bool.or_eq_true, Bool.and_eq_true, decide_eq_true_eq]
  rcases Int.lt_trichotomy a.1.dayNumber b.1.dayNumber with h | h | h
  · left; left; exact h
  · rcases @Rat.le_total a.2 b.2 with h2 | h2
    · left; right; exact ⟨h, h2⟩
    · right; right; exact ⟨h.symm, h2⟩
  · right; left; exact h

theorem recLe_trans {a b c : Date × Rat} (h1 : recLe a b = true) (h2 : recLe b c = true) : recLe a c = true := by
  simp only [recLe, Bool.or_eq_true, Bool.and_eq_true, decide_eq_true_eq] at *
  rcases h1 with h1 | ⟨h1, h1'⟩ <;> rcases h2 with h2 | ⟨h2, h2'⟩
  · left; omega
  · left; omega
  · left; omega
  · right; exact ⟨by omega, Rat.le_trans h1' h2'⟩

theorem recLe_refl (a : Date × Rat) : recLe a a = true := by
  rcases recLe_total a a with h | h <;> exact h

theorem recLe_date {a b : Date × Rat} (h : recLe a b = true) : a.1 ≤ b.1 := by
  simp only [recLe, Bool.or_eq_true, Bool.and_eq_true, decide_eq_true_eq] at h
  show a.1.dayNumber ≤ b.1.dayNumber
  omega

theorem recLe_date_pair {d' d : Date} {r' r : Rat} (h : recLe (d', r') (d, r) = true) : d' ≤ d := by
  simp only [recLe, Bool.or_eq_true, Bool.and_eq_true, decide_eq_true_eq] at h
  show d'.dayNumber ≤ d.dayNumber
  omega

/-- a record vector is sorted by `(date, rate)`. -/
def Sorted (recs : List (Date × Rat)) : Prop := recs.Pairwise (fun a b => recLe a b = true)

theorem insertBy_sorted (x : Date × Rat) (l : List (Date × Rat)) (h : Sorted l) : Sorted (insertBy recLe x l) := by
  induction l with
  | nil => simp [insertBy, Sorted]
  | cons y ys ih =>
    unfold Sorted at *
    rw [List.pairwise_cons] at h
    simp only [insertBy]
    split
    · rename_i hxy
      rw [List.pairwise_cons]
      refine ⟨?_, List.pairwise_cons.2 h⟩
      intro z hz
      rcases List.mem_cons.1 hz with hz | hz
      · subst hz; exact hxy
      · exact recLe_trans hxy (h.1 z hz)
    · rename_i hxy
      rw [List.pairwise_cons]
      refine ⟨?_, ih h.2⟩
      intro z hz
      rcases (mem_insertBy recLe x z ys).1 hz with hz | hz
      · subst hz
        rcases recLe_total z y with h' | h'
        · exact absurd h' hxy
        · exact h'
      · exact h.1 z hz

theorem isortBy_sorted (l : List (Date × Rat)) : Sorted (isortBy recLe l) := by
  induction l with
  | nil => simp [isortBy, Sorted]
  | cons x xs ih => exact insertBy_sorted x _ ih

/-- `asOf` is the last element of the prefix of records dated on or before the date. -/
theorem asOf_eq_getLast (recs : List (Date × Rat)) (D : Date) :
    asOf recs D = (recs.takeWhile fun r => decide (r.1 ≤ D)).getLast? := by
  unfold asOf partitionPoint
  generalize hp : (fun r : Date × Rat => decide (r.1 ≤ D)) = p
  by_cases h0 : (recs.takeWhile p).length = 0
  · have : recs.takeWhile p = [] := List.eq_nil_of_length_eq_zero h0
    simp [this]
  · simp only [h0, if_false]
    rw [List.getLast?_eq_getElem?]
    calc recs[(recs.takeWhile p).length - 1]?
        = (recs.takeWhile p ++ recs.dropWhile p)[(recs.takeWhile p).length - 1]? := by
          rw [List.takeWhile_append_dropWhile]
      _ = (recs.takeWhile p)[(recs.takeWhile p).length - 1]? := List.getElem?_append_left (by omega)

theorem takeWhile_eq_filter_of_sorted (recs : List (Date × Rat)) (D : Date) (h : Sorted recs) :
    (recs.takeWhile fun r => decide (r.1 ≤ D)) = recs.filter fun r => decide (r.1 ≤ D) := by
  induction recs with
  | nil => rfl
  | cons a l ih =>
    unfold Sorted at h
    rw [List.pairwise_cons] at h
    by_cases hp : a.1 ≤ D
    · simp only [List.takeWhile_cons, List.filter_cons, hp, decide_true, if_true]
      rw [ih h.2]
    · have hf : (l.filter fun r => decide (r.1 ≤ D)) = [] := by
        rw [List.filter_eq_nil_iff]
        intro b hb
        have := recLe_date (h.1 b hb)
        simp only [decide_eq_true_eq]
        intro hb2
        apply hp
        show a.1.dayNumber ≤ D.dayNumber
        have h1 : a.1.dayNumber ≤ b.1.dayNumber := this
        have h2 : b.1.dayNumber ≤ D.dayNumber := hb2
        omega
      simp [List.takeWhile_cons, List.filter_cons, hp, hf]

theorem asOf_sorted (recs : List (Date × Rat)) (D : Date) (h : Sorted recs) :
    asOf recs D = (recs.filter fun r => decide (r.1 ≤ D)).getLast? := by
  rw [asOf_eq_getLast, takeWhile_eq_filter_of_sorted recs D h]

theorem pairwise_getLast {β : Type} {R : β → β → Prop} {l : List β} {x : β} (h : l.Pairwise R)
    (hl : l.getLast? = some x) : x ∈ l ∧ ∀ y ∈ l, y = x ∨ R y x := by
  obtain ⟨ys, rfl⟩ := List.getLast?_eq_some_iff.1 hl
  refine ⟨by simp, ?_⟩
  intro y hy
  rcases List.mem_append.1 hy with hy | hy
  · right
    rw [List.pairwise_append] at h
    exact h.2.2 y hy x (by simp)
  · left; simpa using hy

end AsOf

/-! ## steps out of a commodity -/

theorem mem_edgesAt (ord : κ → List (κ × PEntry) → List (κ × PEntry)) (repo : Builder κ) (D : Date) (p : κ)
    (e : Edge κ) :
    e ∈ edgesAt ord repo D p ↔
      ∃ inner entry d, AMap.get? repo p = some inner ∧ (e.to, entry) ∈ ord p inner ∧
        asOf entry.recs D = some (d, e.rate) ∧ e.source = entry.source ∧
        e.stale = D.dayNumber - d.dayNumber := by
  unfold edgesAt
  cases hg : AMap.get? repo p with
  | none => simp
  | some inner =>
    simp only [List.mem_filterMap]
    constructor
    · rintro ⟨⟨j, entry⟩, hmem, hf⟩
      cases ha : asOf entry.recs D with
      | none => simp [ha] at hf
      | some dr =>
        obtain ⟨d, r⟩ := dr
        simp only [ha, Option.some.injEq] at hf
        subst hf
        exact ⟨inner, entry, d, rfl, hmem, ha, rfl, rfl⟩
    · rintro ⟨inner', entry, d, hi, hmem, ha, hs, hst⟩
      cases hi
      refine ⟨(e.to, entry), hmem, ?_⟩
      simp only [ha]
      cases e
      simp_all

theorem Walk.mono {out out' : κ → List (Edge κ)} {src : κ} (h : ∀ j e, e ∈ out j → e ∈ out' j)
    {j : κ} {d : Dist} {r : Rat} (hw : Walk out src j d r) : Walk out' src j d r := by
  induction hw with
  | nil => exact Walk.nil
  | cons _ he ih => exact Walk.cons ih (h _ _ he)

theorem IsChain.snoc {out : κ → List (Edge κ)} {e : Edge κ} {j : κ} (he : e ∈ out j) :
    ∀ (es : List (Edge κ)) (a : κ), IsChain out a es j → IsChain out a (es ++ [e]) e.to := by
  intro es
  induction es with
  | nil => intro a h; simp only [IsChain] at h; subst h; exact ⟨he, rfl⟩
  | cons x xs ihx => intro a h; exact ⟨h.1, ihx _ h.2⟩

theorem chainDist_snoc (e : Edge κ) : ∀ (es : List (Edge κ)) (d0 : Dist),
    chainDist d0 (es ++ [e]) = (chainDist d0 es).extend e.source e.stale := by
  intro es
  induction es with
  | nil => intro d0; rfl
  | cons x xs ihx => intro d0; exact ihx _

theorem chainRate_snoc (e : Edge κ) : ∀ (es : List (Edge κ)) (r0 : Rat),
    chainRate r0 (es ++ [e]) = chainRate r0 es * e.rate := by
  intro es
  induction es with
  | nil => intro r0; rfl
  | cons x xs ihx => intro r0; exact ihx _

/-- a `Walk` is an explicit chain of steps. -/
theorem Walk.toChain {out : κ → List (Edge κ)} {src j : κ} {d : Dist} {r : Rat} (hw : Walk out src j d r) :
    ∃ es, IsChain out src es j ∧ chainDist Dist.zero es = d ∧ chainRate 1 es = r := by
  induction hw with
  | nil => exact ⟨[], rfl, rfl, rfl⟩
  | @cons j d r e _ he ih =>
    obtain ⟨es, hc, hd, hr⟩ := ih
    exact ⟨es ++ [e], IsChain.snoc he es _ hc, by rw [chainDist_snoc, hd], by rw [chainRate_snoc, hr]⟩

/-- and conversely. -/
theorem Walk.ofChain {out : κ → List (Edge κ)} {src : κ} :
    ∀ (es : List (Edge κ)) (a : κ) (d0 : Dist) (r0 : Rat) (b : κ), Walk out src a d0 r0 → IsChain out a es b →
      Walk out src b (chainDist d0 es) (chainRate r0 es) := by
  intro es
  induction es with
  | nil => intro a d0 r0 b hw hc; simp only [IsChain] at hc; subst hc; exact hw
  | cons e es ih => intro a d0 r0 b hw hc; exact ih _ _ _ _ (Walk.cons hw hc.1) hc.2


/-! ## the builder: what an ordered pair's entry holds after a run of inserts -/
section BuilderLemmas

/-- appending contributions `c` from source `s` to an entry (a higher source first clears it). -/
def bump (s : Source) (e : PEntry) (c : List (Date × Rat)) : PEntry :=
  if c = [] then e
  else ⟨if e.source.rank < s.rank then s else e.source, (if e.source.rank < s.rank then [] else e.recs) ++ c⟩

theorem bump_nil (s : Source) (e : PEntry) : bump s e [] = e := by simp [bump]

theorem bump_bump (s : Source) (e : PEntry) (c1 c2 : List (Date × Rat)) :
    bump s (bump s e c1) c2 = bump s e (c1 ++ c2) := by
  by_cases h1 : c1 = []
  · subst h1; simp [bump_nil]
  · by_cases h2 : c2 = []
    · subst h2; simp [bump_nil]
    · have h12 : c1 ++ c2 ≠ [] := by simp [h1]
      by_cases hr : e.source.rank < s.rank
      · simp [bump, h1, h2, hr]
      · simp [bump, h1, h2, hr]

/-- the records one event contributes to the ordered pair `(w, o)` (`records[w][o]`), in insertion order. -/
def contrib1 (ev : PriceEvent κ) (w o : κ) : List (Date × Rat) :=
  if ev.x.value = 0 ∨ ev.y.value = 0 then []
  else
    (if ev.y.commodity = w ∧ ev.x.commodity = o then [(ev.date, ev.y.value / ev.x.value)] else []) ++
    (if ev.x.commodity = w ∧ ev.y.commodity = o then [(ev.date, ev.x.value / ev.y.value)] else [])

def contrib (evs : List (PriceEvent κ)) (w o : κ) : List (Date × Rat) := evs.flatMap fun ev => contrib1 ev w o

theorem entryOf_insertImpl {b b' : Builder κ} {src : Source} {d : Date} {po pw : SingleAmount κ}
    (h : insertImpl b src d po pw = .ok b') (w o : κ) :
    entryOf b' w o = bump src (entryOf b w o)
      (if pw.commodity = w ∧ po.commodity = o then [(d, pw.value / po.value)] else []) := by
  unfold insertImpl at h
  by_cases hz : po.value = 0
  · simp [hz] at h
  · simp only [hz, if_false, Outcome.ok.injEq] at h
    subst h
    unfold entryOf
    by_cases hw : pw.commodity = w
    · subst hw
      rw [AMap.get?_insert_self]
      simp only [Option.getD_some]
      by_cases ho : po.commodity = o
      · subst ho
        rw [AMap.get?_insert_self]
        simp only [Option.getD_some, true_and, if_true, and_self]
        by_cases hr : ((AMap.get? ((AMap.get? b pw.commodity).getD []) po.commodity).getD ⟨.ledger, []⟩).source.rank < src.rank
        · simp [bump, hr]
        · simp [bump, hr]
      · rw [AMap.get?_insert_ne _ _ ho]
        simp [ho, bump_nil]
    · rw [AMap.get?_insert_ne _ _ hw]
      simp [hw, bump_nil]

theorem entryOf_insertPrice {b b' : Builder κ} {src : Source} {ev : PriceEvent κ}
    (h : insertPrice b src ev = .ok b') (w o : κ) :
    entryOf b' w o = bump src (entryOf b w o) (contrib1 ev w o) := by
  unfold insertPrice at h
  by_cases hz : ev.x.value = 0 ∨ ev.y.value = 0
  · simp only [hz, if_true, Outcome.ok.injEq] at h
    subst h
    simp [contrib1, hz, bump_nil]
  · simp only [hz, if_false] at h
    cases h1 : insertImpl b src ev.date ev.x ev.y with
    | ok b1 =>
      simp only [h1] at h
      rw [entryOf_insertImpl h w o, entryOf_insertImpl h1 w o, bump_bump]
      simp [contrib1, hz]
    | err e => simp [h1] at h
    | panic s => simp [h1] at h
    | fuelOut => simp [h1] at h

theorem entryOf_insertAll (src : Source) : ∀ (evs : List (PriceEvent κ)) (b b' : Builder κ),
    insertAll src b evs = .ok b' → ∀ w o, entryOf b' w o = bump src (entryOf b w o) (contrib evs w o) := by
  intro evs
  induction evs with
  | nil => intro b b' h w o; simp only [insertAll, Outcome.ok.injEq] at h; subst h; simp [contrib, bump_nil]
  | cons ev evs ih =>
    intro b b' h w o
    simp only [insertAll] at h
    cases h1 : insertPrice b src ev with
    | ok b1 =>
      simp only [h1] at h
      rw [ih b1 b' h w o, entryOf_insertPrice h1 w o, bump_bump]
      simp [contrib]
    | err e => simp [h1] at h
    | panic s => simp [h1] at h
    | fuelOut => simp [h1] at h

theorem entryOf_nil (w o : κ) : entryOf ([] : Builder κ) w o = ⟨.ledger, []⟩ := by simp [entryOf]

theorem entryOf_build (b : Builder κ) (w o : κ) :
    entryOf (build b) w o = ⟨(entryOf b w o).source, isortBy recLe (entryOf b w o).recs⟩ := by
  unfold entryOf build
  rw [AMap.get?_mapVals]
  cases h1 : AMap.get? b w with
  | none => simp [isortBy]
  | some inner =>
    simp only [Option.map_some, Option.getD_some]
    rw [AMap.get?_mapVals]
    cases h2 : AMap.get? inner o with
    | none => simp [isortBy]
    | some e => simp

/-- `insert_price` never reaches the division-by-zero site of `insert_impl` (fix F4). -/
theorem insertPrice_no_panic (b : Builder κ) (src : Source) (ev : PriceEvent κ) :
    ∃ b', insertPrice b src ev = .ok b' := by
  unfold insertPrice
  by_cases hz : ev.x.value = 0 ∨ ev.y.value = 0
  · exact ⟨b, by simp [hz]⟩
  · have hx : ev.x.value ≠ 0 := fun h => hz (Or.inl h)
    have hy : ev.y.value ≠ 0 := fun h => hz (Or.inr h)
    simp only [hz, if_false]
    simp [insertImpl, hx, hy]

theorem insertAll_ok (src : Source) : ∀ (evs : List (PriceEvent κ)) (b : Builder κ), ∃ b', insertAll src b evs = .ok b' := by
  intro evs
  induction evs with
  | nil => intro b; exact ⟨b, rfl⟩
  | cons ev evs ih =>
    intro b
    obtain ⟨b1, h1⟩ := insertPrice_no_panic b src ev
    obtain ⟨b2, h2⟩ := ih b1
    exact ⟨b2, by simp [insertAll, h1, h2]⟩

end BuilderLemmas

end Okane.Price
