import Okane.Spec.Alias
/-! Helper lemmas for C12: the stores only grow; equivalent spellings evaluate identically. -/
namespace Okane

namespace Store

theorem le_refl (s : Store) : s.le s := fun _ _ h => h

theorem le_trans {a b c : Store} (h1 : a.le b) (h2 : b.le c) : a.le c := fun k v h => h2 k v (h1 k v h)

theorem resolve_eq_some {s : Store} {x c : String} (h : s.resolve x = some c) :
    (AMap.get? s.recs x = some none ∧ c = x) ∨ AMap.get? s.recs x = some (some c) := by
  unfold resolve at h
  cases hg : AMap.get? s.recs x with
  | none => simp [hg] at h
  | some v =>
    cases v with
    | none => simp [hg] at h; exact Or.inl ⟨rfl, h.symm⟩
    | some k => simp [hg] at h; subst h; exact Or.inr rfl

theorem resolve_of_le {s s' : Store} (h : s.le s') {x c : String} (hr : s.resolve x = some c) :
    s'.resolve x = some c := by
  rcases resolve_eq_some hr with ⟨hg, rfl⟩ | hg
  · simp [resolve, h _ _ hg]
  · simp [resolve, h _ _ hg]

theorem resolve_none {s : Store} {x : String} (h : s.resolve x = none) : AMap.get? s.recs x = none := by
  unfold resolve at h
  cases hg : AMap.get? s.recs x with
  | none => rfl
  | some v => cases v <;> simp [hg] at h

theorem le_insert_new (s : Store) (x : String) (v : Option String) (h : AMap.get? s.recs x = none) :
    s.le ⟨AMap.insert s.recs x v⟩ := by
  intro k w hk
  have hne : x ≠ k := by intro e; subst e; rw [h] at hk; cases hk
  simpa [AMap.get?_insert_ne _ _ hne] using hk

theorem ensure_le (s : Store) (x : String) : s.le (s.ensure x).2 := by
  unfold ensure
  cases hr : s.resolve x with
  | some c => exact le_refl s
  | none => exact le_insert_new s x none (resolve_none hr)

theorem sameAccount_mono {s s' : Store} (h : s.le s') {x y : String} (hxy : s.SameAccount x y) : s'.SameAccount x y := by
  rcases hxy with rfl | ⟨c, h1, h2⟩
  · exact Or.inl rfl
  · exact Or.inr ⟨c, resolve_of_le h h1, resolve_of_le h h2⟩

theorem sameCommodity_mono {s s' : Store} (h : s.le s') {x y : String} (hxy : s.SameCommodity x y) :
    s'.SameCommodity x y := by
  rcases hxy with rfl | ⟨hx, hy, c, h1, h2⟩
  · exact Or.inl rfl
  · exact Or.inr ⟨hx, hy, c, resolve_of_le h h1, resolve_of_le h h2⟩

/-- equivalent spellings are interned identically, and the store is not touched differently. -/
theorem ensure_congr {s : Store} {x y : String} (h : s.SameAccount x y) : s.ensure y = s.ensure x := by
  rcases h with rfl | ⟨c, h1, h2⟩
  · rfl
  · simp [ensure, h1, h2]

/-- **C12_resolve** core: a registered name (canonical or alias) is resolved, not re-registered. -/
theorem ensure_of_resolve {s : Store} {x c : String} (h : s.resolve x = some c) : s.ensure x = (c, s) := by
  simp [ensure, h]

theorem insertCanonical_ok {s s' : Store} {x c : String} (h : s.insertCanonical x = .ok (c, s')) :
    s.le s' ∧ c = x ∧ AMap.get? s'.recs x = some none := by
  unfold insertCanonical at h
  cases hg : AMap.get? s.recs x with
  | none =>
    simp [hg] at h
    obtain ⟨rfl, rfl⟩ := h
    exact ⟨le_insert_new s x none hg, rfl, by simp [AMap.get?_insert_self]⟩
  | some v =>
    cases v with
    | none => simp [hg] at h; obtain ⟨rfl, rfl⟩ := h; exact ⟨le_refl _, rfl, hg⟩
    | some k => simp [hg] at h

theorem insertAlias_ok {s s' : Store} {a k : String} (h : s.insertAlias a k = .ok s') :
    s.le s' ∧ AMap.get? s'.recs a = some (some k) := by
  unfold insertAlias at h
  cases hg : AMap.get? s.recs a with
  | none =>
    simp [hg] at h
    subst h
    exact ⟨le_insert_new s a (some k) hg, by simp [AMap.get?_insert_self]⟩
  | some v =>
    cases v with
    | none => simp [hg] at h
    | some found =>
      simp only [hg] at h
      by_cases hf : found = k
      · simp [hf] at h; subst h; subst hf; exact ⟨le_refl _, hg⟩
      · simp [hf] at h

end Store

namespace Ctx
theorem le_refl (c : Ctx) : c.le c := ⟨Store.le_refl _, Store.le_refl _⟩
theorem le_trans {a b c : Ctx} (h1 : a.le b) (h2 : b.le c) : a.le c :=
  ⟨Store.le_trans h1.1 h2.1, Store.le_trans h1.2 h2.2⟩
end Ctx

/-! ## expressions -/

theorem leafMut_congr {s : Store} {x y : String} (h : s.SameCommodity x y) (v : PDec) : leafMut s v y = leafMut s v x := by
  rcases h with rfl | ⟨hx, hy, c, h1, h2⟩
  · rfl
  · simp [leafMut, hx, hy, Store.ensure, h1, h2]

theorem leafMut_le {s s' : Store} {v : PDec} {c : String} {r : Evaluated String} (h : leafMut s v c = .ok (r, s')) :
    s.le s' := by
  unfold leafMut at h
  by_cases hc : c.isEmpty = true
  · simp [hc] at h; rw [← h.2]; exact Store.le_refl s
  · simp [hc] at h; rw [← h.2]; exact Store.ensure_le s c

mutual
theorem evalExpr_rel (s0 : Store) : ∀ (e e' : Expr) (s : Store), Expr.Rel s0.SameCommodity e e' → s0.le s →
    evalExprWith leafMut s e' = evalExprWith leafMut s e ∧
    ∀ v s', evalExprWith leafMut s e = .ok (v, s') → s.le s'
  | .neg a, .neg b, s, h, hs => by
    have ih := evalExpr_rel s0 a b s (by simpa [Expr.Rel] using h) hs
    refine ⟨?_, ?_⟩
    · simp only [evalExprWith, ih.1]
    · intro v s' hv
      simp only [evalExprWith] at hv
      cases ha : evalExprWith leafMut s a with
      | ok r => obtain ⟨w, s1⟩ := r; simp [ha] at hv; rw [← hv.2]; exact ih.2 w s1 ha
      | err x => simp [ha] at hv
      | panic p => simp [ha] at hv
      | fuelOut => simp [ha] at hv
  | .bin o l r, .bin o' l' r', s, h, hs => by
    simp only [Expr.Rel] at h
    obtain ⟨rfl, hl, hr⟩ := h
    have ihl := evalExpr_rel s0 l l' s hl hs
    refine ⟨?_, ?_⟩
    · simp only [evalExprWith, ihl.1]
      cases ha : evalExprWith leafMut s l with
      | ok x =>
        obtain ⟨lv, s1⟩ := x
        have hs1 := ihl.2 lv s1 ha
        have ihr := evalExpr_rel s0 r r' s1 hr (Store.le_trans hs hs1)
        simp only [ihr.1]
      | err x => rfl
      | panic p => rfl
      | fuelOut => rfl
    · intro v s' hv
      simp only [evalExprWith] at hv
      cases ha : evalExprWith leafMut s l with
      | ok x =>
        obtain ⟨lv, s1⟩ := x
        have hs1 := ihl.2 lv s1 ha
        have ihr := evalExpr_rel s0 r r' s1 hr (Store.le_trans hs hs1)
        simp only [ha] at hv
        cases hb : evalExprWith leafMut s1 r with
        | ok y =>
          obtain ⟨rv, s2⟩ := y
          simp only [hb] at hv
          cases hc : applyBin o lv rv with
          | ok z => simp [hc] at hv; rw [← hv.2]; exact Store.le_trans hs1 (ihr.2 rv s2 hb)
          | err x => simp [hc] at hv
          | panic p => simp [hc] at hv
          | fuelOut => simp [hc] at hv
        | err x => simp [hb] at hv
        | panic p => simp [hb] at hv
        | fuelOut => simp [hb] at hv
      | err x => simp [ha] at hv
      | panic p => simp [ha] at hv
      | fuelOut => simp [ha] at hv
  | .val v, .val v', s, h, hs => by
    have ih := evalVExpr_rel s0 v v' s (by simpa [Expr.Rel] using h) hs
    exact ⟨by simp only [evalExprWith, ih.1], fun w s' hw => ih.2 w s' (by simpa [evalExprWith] using hw)⟩
  | .neg _, .bin _ _ _, _, h, _ => by simp [Expr.Rel] at h
  | .neg _, .val _, _, h, _ => by simp [Expr.Rel] at h
  | .bin _ _ _, .neg _, _, h, _ => by simp [Expr.Rel] at h
  | .bin _ _ _, .val _, _, h, _ => by simp [Expr.Rel] at h
  | .val _, .neg _, _, h, _ => by simp [Expr.Rel] at h
  | .val _, .bin _ _ _, _, h, _ => by simp [Expr.Rel] at h
theorem evalVExpr_rel (s0 : Store) : ∀ (e e' : VExpr) (s : Store), VExpr.Rel s0.SameCommodity e e' → s0.le s →
    evalVExprWith leafMut s e' = evalVExprWith leafMut s e ∧
    ∀ v s', evalVExprWith leafMut s e = .ok (v, s') → s.le s'
  | .paren a, .paren b, s, h, hs => by
    have ih := evalExpr_rel s0 a b s (by simpa [VExpr.Rel] using h) hs
    exact ⟨by simp only [evalVExprWith, ih.1], fun w s' hw => ih.2 w s' (by simpa [evalVExprWith] using hw)⟩
  | .amt v c, .amt v' c', s, h, hs => by
    simp only [VExpr.Rel] at h
    obtain ⟨rfl, hc⟩ := h
    refine ⟨?_, ?_⟩
    · simp only [evalVExprWith]; exact leafMut_congr (Store.sameCommodity_mono hs hc) v
    · intro w s' hw; simp only [evalVExprWith] at hw; exact leafMut_le hw
  | .paren _, .amt _ _, _, h, _ => by simp [VExpr.Rel] at h
  | .amt _ _, .paren _, _, h, _ => by simp [VExpr.Rel] at h
end

theorem evalMut_rel (s0 : Store) {e e' : VExpr} {s : Store} (h : VExpr.Rel s0.SameCommodity e e') (hs : s0.le s) :
    evalMut s e' = evalMut s e ∧ ∀ v s', evalMut s e = .ok (v, s') → s.le s' :=
  evalVExpr_rel s0 e e' s h hs

theorem evalPostingAmt_rel (s0 : Store) {e e' : VExpr} {s : Store} (h : VExpr.Rel s0.SameCommodity e e') (hs : s0.le s) :
    evalPostingAmt s e' = evalPostingAmt s e ∧ ∀ v s', evalPostingAmt s e = .ok (v, s') → s.le s' := by
  have ih := evalMut_rel s0 h hs
  refine ⟨by simp only [evalPostingAmt, ih.1], ?_⟩
  intro v s' hv
  simp only [evalPostingAmt] at hv
  cases ha : evalMut s e with
  | ok x =>
    obtain ⟨w, s1⟩ := x
    simp only [ha] at hv
    cases hb : w.toPosting with
    | ok p => simp [hb] at hv; rw [← hv.2]; exact ih.2 w s1 ha
    | err x => simp [hb] at hv
    | panic p => simp [hb] at hv
    | fuelOut => simp [hb] at hv
  | err x => simp [ha] at hv
  | panic p => simp [ha] at hv
  | fuelOut => simp [ha] at hv

/-- `resolveExchange` with the `Total`/`Rate` case split taken out. -/
def resolveExchangeAux (s : Store) (amount : PostingAmt String) (isTotal : Bool) (e : VExpr) :
    Outcome BkErrS (RExchange String × Store) :=
  match evalMut s e with
  | .ok (v, s') =>
    match v.toSingle with
    | .ok rate =>
      if rate.value = 0 then .err .zeroExchangeRate
      else match amount with
        | .zero => .err .zeroAmountWithExchange
        | .single a =>
          if a.commodity = rate.commodity then .err .exchangeWithAmountCommodity
          else .ok (if isTotal then .total rate else .rate rate, s')
    | .err e => .err (.evalFailure e)
    | .panic p => .panic p
    | .fuelOut => .fuelOut
  | .err e => .err (.evalFailure e)
  | .panic p => .panic p
  | .fuelOut => .fuelOut

theorem resolveExchange_total (s : Store) (amount : PostingAmt String) (e : VExpr) :
    resolveExchange s amount (.total e) = resolveExchangeAux s amount true e := rfl
theorem resolveExchange_rate (s : Store) (amount : PostingAmt String) (e : VExpr) :
    resolveExchange s amount (.rate e) = resolveExchangeAux s amount false e := rfl

theorem resolveExchangeAux_rel (s0 : Store) {e e' : VExpr} {s : Store} (amount : PostingAmt String) (isTotal : Bool)
    (h : VExpr.Rel s0.SameCommodity e e') (hs : s0.le s) :
    resolveExchangeAux s amount isTotal e' = resolveExchangeAux s amount isTotal e ∧
    ∀ v s', resolveExchangeAux s amount isTotal e = .ok (v, s') → s.le s' := by
  have ih := evalMut_rel s0 h hs
  refine ⟨by simp only [resolveExchangeAux, ih.1], ?_⟩
  intro v s' hv
  unfold resolveExchangeAux at hv
  cases ha : evalMut s e with
  | ok r =>
    obtain ⟨w, s1⟩ := r
    have hle := ih.2 w s1 ha
    simp only [ha] at hv
    cases hb : w.toSingle with
    | ok rate =>
      simp only [hb] at hv
      by_cases hz : rate.value = 0
      · simp [hz] at hv
      · simp only [hz, if_false] at hv
        cases amount with
        | zero => simp at hv
        | single a =>
          simp only at hv
          by_cases hc : a.commodity = rate.commodity
          · simp [hc] at hv
          · simp [hc] at hv; rw [← hv.2]; exact hle
    | err x => simp [hb] at hv
    | panic p => simp [hb] at hv
    | fuelOut => simp [hb] at hv
  | err x => simp [ha] at hv
  | panic p => simp [ha] at hv
  | fuelOut => simp [ha] at hv

theorem resolveExchange_rel (s0 : Store) {x x' : Exchange} {s : Store} (amount : PostingAmt String)
    (h : Exchange.Rel s0.SameCommodity x x') (hs : s0.le s) :
    resolveExchange s amount x' = resolveExchange s amount x ∧
    ∀ v s', resolveExchange s amount x = .ok (v, s') → s.le s' := by
  cases x with
  | total e =>
    cases x' with
    | total e' => simpa only [resolveExchange_total] using resolveExchangeAux_rel s0 amount true h hs
    | rate e' => simp [Exchange.Rel] at h
  | rate e =>
    cases x' with
    | rate e' => simpa only [resolveExchange_rate] using resolveExchangeAux_rel s0 amount false h hs
    | total e' => simp [Exchange.Rel] at h

theorem resolveOptExchange_rel (s0 : Store) {x x' : Option Exchange} {s : Store} (amount : PostingAmt String)
    (h : optRel (Exchange.Rel s0.SameCommodity) x x') (hs : s0.le s) :
    resolveOptExchange s amount x' = resolveOptExchange s amount x ∧
    ∀ v s', resolveOptExchange s amount x = .ok (v, s') → s.le s' := by
  cases x with
  | none =>
    cases x' with
    | none => exact ⟨rfl, fun v s' hv => by simp [resolveOptExchange] at hv; rw [← hv.2]; exact Store.le_refl s⟩
    | some b => simp [optRel] at h
  | some a =>
    cases x' with
    | none => simp [optRel] at h
    | some b =>
      have ih := resolveExchange_rel s0 amount (show Exchange.Rel _ a b from h) hs
      refine ⟨by simp only [resolveOptExchange, ih.1], ?_⟩
      intro v s' hv
      simp only [resolveOptExchange] at hv
      cases ha : resolveExchange s amount a with
      | ok r => obtain ⟨w, s1⟩ := r; simp [ha] at hv; rw [← hv.2]; exact ih.2 w s1 ha
      | err x => simp [ha] at hv
      | panic p => simp [ha] at hv
      | fuelOut => simp [ha] at hv

theorem resolveOptBalance_rel (s0 : Store) {x x' : Option VExpr} {s : Store}
    (h : optRel (VExpr.Rel s0.SameCommodity) x x') (hs : s0.le s) :
    resolveOptBalance s x' = resolveOptBalance s x ∧
    ∀ v s', resolveOptBalance s x = .ok (v, s') → s.le s' := by
  cases x with
  | none =>
    cases x' with
    | none => exact ⟨rfl, fun v s' hv => by simp [resolveOptBalance] at hv; rw [← hv.2]; exact Store.le_refl s⟩
    | some b => simp [optRel] at h
  | some a =>
    cases x' with
    | none => simp [optRel] at h
    | some b =>
      have ih := evalPostingAmt_rel s0 (show VExpr.Rel _ a b from h) hs
      refine ⟨by simp only [resolveOptBalance, ih.1], ?_⟩
      intro v s' hv
      simp only [resolveOptBalance] at hv
      cases ha : evalPostingAmt s a with
      | ok r => obtain ⟨w, s1⟩ := r; simp [ha] at hv; rw [← hv.2]; exact ih.2 w s1 ha
      | err x => simp [ha] at hv
      | panic p => simp [ha] at hv
      | fuelOut => simp [ha] at hv

theorem resolveAmount_rel (s0 : Store) {pa pa' : PostingAmount} {s : Store}
    (h : PostingAmount.Rel s0.SameCommodity pa pa') (hs : s0.le s) :
    resolveAmount s pa' = resolveAmount s pa ∧ ∀ v s', resolveAmount s pa = .ok (v, s') → s.le s' := by
  obtain ⟨h1, h2, h3, _, _⟩ := h
  have i1 := evalPostingAmt_rel s0 h1 hs
  refine ⟨?_, ?_⟩
  · simp only [resolveAmount, i1.1]
    cases ha : evalPostingAmt s pa.amount with
    | ok r =>
      obtain ⟨amount, s1⟩ := r
      have hs1 := Store.le_trans hs (i1.2 amount s1 ha)
      have i2 := resolveOptExchange_rel s0 amount h2 hs1
      simp only [i2.1]
      cases hb : resolveOptExchange s1 amount pa.cost with
      | ok r2 =>
        obtain ⟨cost, s2⟩ := r2
        have hs2 := Store.le_trans hs1 (i2.2 cost s2 hb)
        have i3 := resolveOptExchange_rel s0 amount h3 hs2
        simp only [i3.1]
      | err x => rfl
      | panic p => rfl
      | fuelOut => rfl
    | err x => rfl
    | panic p => rfl
    | fuelOut => rfl
  · intro v s' hv
    simp only [resolveAmount] at hv
    cases ha : evalPostingAmt s pa.amount with
    | ok r =>
      obtain ⟨amount, s1⟩ := r
      have hl1 := i1.2 amount s1 ha
      have hs1 := Store.le_trans hs hl1
      have i2 := resolveOptExchange_rel s0 amount h2 hs1
      simp only [ha] at hv
      cases hb : resolveOptExchange s1 amount pa.cost with
      | ok r2 =>
        obtain ⟨cost, s2⟩ := r2
        have hl2 := i2.2 cost s2 hb
        have hs2 := Store.le_trans hs1 hl2
        have i3 := resolveOptExchange_rel s0 amount h3 hs2
        simp only [hb] at hv
        cases hc : resolveOptExchange s2 amount pa.lot.price with
        | ok r3 =>
          obtain ⟨lot, s3⟩ := r3
          have hl3 := i3.2 lot s3 hc
          have hfin : s.le s3 := Store.le_trans hl1 (Store.le_trans hl2 hl3)
          simp only [hc] at hv
          split at hv
          · simp at hv; rw [← hv.2]; exact hfin
          · simp at hv; rw [← hv.2]; exact hfin
          · simp at hv
        | err x => simp [hc] at hv
        | panic p => simp [hc] at hv
        | fuelOut => simp [hc] at hv
      | err x => simp [hb] at hv
      | panic p => simp [hb] at hv
      | fuelOut => simp [hb] at hv
    | err x => simp [ha] at hv
    | panic p => simp [ha] at hv
    | fuelOut => simp [ha] at hv

theorem resolvePosting_rel (c0 : Ctx) {p p' : Posting} {c : Ctx}
    (h : Posting.Rel c0.accounts.SameAccount c0.commodities.SameCommodity p p') (hc : c0.le c) :
    resolvePosting c p' = resolvePosting c p ∧ ∀ rp c', resolvePosting c p = .ok (rp, c') → c.le c' := by
  obtain ⟨ha, _, hamt, hbal, _⟩ := h
  have hens : c.accounts.ensure p'.account = c.accounts.ensure p.account :=
    Store.ensure_congr (Store.sameAccount_mono hc.1 ha)
  have hacc : c.accounts.le (c.accounts.ensure p.account).2 := Store.ensure_le _ _
  cases hpa : p.amount with
  | none =>
    cases hpa' : p'.amount with
    | some b => rw [hpa, hpa'] at hamt; simp [optRel] at hamt
    | none =>
      have ib := resolveOptBalance_rel c0.commodities (s := c.commodities) hbal hc.2
      refine ⟨?_, ?_⟩
      · simp only [resolvePosting, hens, hpa, hpa', ib.1]
      · intro rp c' hv
        simp only [resolvePosting, hpa] at hv
        cases hb : resolveOptBalance c.commodities p.balance with
        | ok r =>
          obtain ⟨b, cs⟩ := r
          simp [hb] at hv
          rw [← hv.2]
          exact ⟨hacc, ib.2 b cs hb⟩
        | err x => simp [hb] at hv
        | panic q => simp [hb] at hv
        | fuelOut => simp [hb] at hv
  | some a =>
    cases hpa' : p'.amount with
    | none => rw [hpa, hpa'] at hamt; simp [optRel] at hamt
    | some b =>
      rw [hpa, hpa'] at hamt
      have ia := resolveAmount_rel c0.commodities (s := c.commodities) (show PostingAmount.Rel _ a b from hamt) hc.2
      refine ⟨?_, ?_⟩
      · simp only [resolvePosting, hens, hpa, hpa', ia.1]
        cases hra : resolveAmount c.commodities a with
        | ok r =>
          obtain ⟨ra, cs1⟩ := r
          have hs1 := Store.le_trans hc.2 (ia.2 ra cs1 hra)
          have ib := resolveOptBalance_rel c0.commodities (s := cs1) hbal hs1
          simp only [ib.1]
        | err x => rfl
        | panic q => rfl
        | fuelOut => rfl
      · intro rp c' hv
        simp only [resolvePosting, hpa] at hv
        cases hra : resolveAmount c.commodities a with
        | ok r =>
          obtain ⟨ra, cs1⟩ := r
          have hl1 := ia.2 ra cs1 hra
          have hs1 := Store.le_trans hc.2 hl1
          have ib := resolveOptBalance_rel c0.commodities (s := cs1) hbal hs1
          simp only [hra] at hv
          cases hb : resolveOptBalance cs1 p.balance with
          | ok r2 =>
            obtain ⟨bb, cs2⟩ := r2
            simp [hb] at hv
            rw [← hv.2]
            exact ⟨hacc, Store.le_trans hl1 (ib.2 bb cs2 hb)⟩
          | err x => simp [hb] at hv
          | panic q => simp [hb] at hv
          | fuelOut => simp [hb] at hv
        | err x => simp [hra] at hv
        | panic q => simp [hra] at hv
        | fuelOut => simp [hra] at hv

theorem loopSyntax_rel (c0 : Ctx) (date : Date) : ∀ (ps ps' : List Posting) (c : Ctx) (st : TxnState String String) (idx : Nat),
    listRel (Posting.Rel c0.accounts.SameAccount c0.commodities.SameCommodity) ps ps' → c0.le c →
    loopSyntax date c st idx ps' = loopSyntax date c st idx ps ∧
    ∀ c' st', loopSyntax date c st idx ps = .ok (c', st') → c.le c'
  | [], [], c, st, idx, _, _ => ⟨rfl, fun c' st' hv => by simp [loopSyntax] at hv; rw [← hv.1]; exact Ctx.le_refl c⟩
  | [], _ :: _, _, _, _, h, _ => by simp [listRel] at h
  | _ :: _, [], _, _, _, h, _ => by simp [listRel] at h
  | p :: ps, p' :: ps', c, st, idx, h, hc => by
    simp only [listRel] at h
    have ip := resolvePosting_rel c0 h.1 hc
    refine ⟨?_, ?_⟩
    · simp only [loopSyntax, ip.1]
      cases hr : resolvePosting c p with
      | ok r =>
        obtain ⟨rp, c1⟩ := r
        have hc1 := Ctx.le_trans hc (ip.2 rp c1 hr)
        simp only
        cases hs : stepPosting date st idx rp with
        | ok st1 => simp only; exact (loopSyntax_rel c0 date ps ps' c1 st1 (idx + 1) h.2 hc1).1
        | err x => rfl
        | panic q => rfl
        | fuelOut => rfl
      | err x => rfl
      | panic q => rfl
      | fuelOut => rfl
    · intro c' st' hv
      simp only [loopSyntax] at hv
      cases hr : resolvePosting c p with
      | ok r =>
        obtain ⟨rp, c1⟩ := r
        have hl1 := ip.2 rp c1 hr
        have hc1 := Ctx.le_trans hc hl1
        simp only [hr] at hv
        cases hs : stepPosting date st idx rp with
        | ok st1 =>
          simp only [hs] at hv
          exact Ctx.le_trans hl1 ((loopSyntax_rel c0 date ps ps' c1 st1 (idx + 1) h.2 hc1).2 c' st' hv)
        | err x => simp [hs] at hv
        | panic q => simp [hs] at hv
        | fuelOut => simp [hs] at hv
      | err x => simp [hr] at hv
      | panic q => simp [hr] at hv
      | fuelOut => simp [hr] at hv

theorem addTransactionSyntax_rel {c : Ctx} {t t' : Transaction} (bal : Balance String String)
    (h : Transaction.Rel c.accounts.SameAccount c.commodities.SameCommodity t t') :
    addTransactionSyntax c bal t' = addTransactionSyntax c bal t ∧
    ∀ c' r, addTransactionSyntax c bal t = .ok (c', r) → c.le c' := by
  obtain ⟨hd, _, _, _, _, hp, _⟩ := h
  have il := fun st => loopSyntax_rel c t.date t.posts t'.posts c st 0 hp (Ctx.le_refl c)
  refine ⟨by simp only [addTransactionSyntax, ← hd, (il _).1], ?_⟩
  intro c' r hv
  unfold addTransactionSyntax at hv
  split at hv
  next c1 st hl =>
    split at hv
    · simp at hv; rw [← hv.1]; exact (il _).2 c1 st hl
    · simp at hv
    · simp at hv
    · simp at hv
  · simp at hv
  · simp at hv
  · simp at hv

/-! ## declarations only add records -/

theorem insertAliases_ok : ∀ (as : List String) (s s' : Store) (k : String), insertAliases s k as = .ok s' →
    s.le s' ∧ ∀ a ∈ as, AMap.get? s'.recs a = some (some k)
  | [], s, s', k, h => by simp [insertAliases] at h; subst h; exact ⟨Store.le_refl _, by simp⟩
  | a :: as, s, s', k, h => by
    simp only [insertAliases] at h
    cases ha : s.insertAlias a k with
    | ok s1 =>
      simp only [ha] at h
      have h1 := Store.insertAlias_ok ha
      have h2 := insertAliases_ok as s1 s' k h
      refine ⟨Store.le_trans h1.1 h2.1, ?_⟩
      intro b hb
      rcases List.mem_cons.1 hb with rfl | hb
      · exact h2.1 _ _ h1.2
      · exact h2.2 b hb
    | err x => simp [ha] at h
    | panic q => simp [ha] at h
    | fuelOut => simp [ha] at h

theorem applyCommodityDetails_ok : ∀ (ds : List CommodityDetail) (c c' : Ctx) (k : String),
    applyCommodityDetails c k ds = .ok c' →
    c.le c' ∧ ∀ a ∈ commodityAliases ds, AMap.get? c'.commodities.recs a = some (some k)
  | [], c, c', k, h => by simp [applyCommodityDetails] at h; subst h; exact ⟨Ctx.le_refl _, by simp [commodityAliases]⟩
  | d :: ds, c, c', k, h => by
    cases d with
    | alias a =>
      simp only [applyCommodityDetails] at h
      cases ha : c.commodities.insertAlias a k with
      | ok s1 =>
        simp only [ha] at h
        have h1 := Store.insertAlias_ok ha
        have h2 := applyCommodityDetails_ok ds _ c' k h
        refine ⟨Ctx.le_trans (show c.le { c with commodities := s1 } from ⟨Store.le_refl _, h1.1⟩) h2.1, ?_⟩
        intro b hb
        simp only [commodityAliases, List.filterMap_cons, List.mem_cons] at hb
        rcases hb with rfl | hb
        · exact h2.1.2 _ _ h1.2
        · exact h2.2 b hb
      | err x => simp [ha] at h
      | panic q => simp [ha] at h
      | fuelOut => simp [ha] at h
    | format v cc =>
      simp only [applyCommodityDetails] at h
      have h2 := applyCommodityDetails_ok ds _ c' k h
      exact ⟨⟨h2.1.1, h2.1.2⟩, fun b hb => h2.2 b (by simpa [commodityAliases] using hb)⟩
    | comment x =>
      simp only [applyCommodityDetails] at h
      have h2 := applyCommodityDetails_ok ds _ c' k h
      exact ⟨h2.1, fun b hb => h2.2 b (by simpa [commodityAliases] using hb)⟩
    | note x =>
      simp only [applyCommodityDetails] at h
      have h2 := applyCommodityDetails_ok ds _ c' k h
      exact ⟨h2.1, fun b hb => h2.2 b (by simpa [commodityAliases] using hb)⟩

/-! ## the relations are reflexive and monotone in the name relation -/

mutual
theorem Expr.rel_mono {R R' : String → String → Prop} (hR : ∀ x y, R x y → R' x y) :
    ∀ (e e' : Expr), Expr.Rel R e e' → Expr.Rel R' e e'
  | .neg a, .neg b, h => by simp only [Expr.Rel] at h ⊢; exact Expr.rel_mono hR a b h
  | .bin o l r, .bin o' l' r', h => by
    simp only [Expr.Rel] at h ⊢
    exact ⟨h.1, Expr.rel_mono hR l l' h.2.1, Expr.rel_mono hR r r' h.2.2⟩
  | .val v, .val v', h => by simp only [Expr.Rel] at h ⊢; exact VExpr.rel_mono hR v v' h
  | .neg _, .bin _ _ _, h => by simp [Expr.Rel] at h
  | .neg _, .val _, h => by simp [Expr.Rel] at h
  | .bin _ _ _, .neg _, h => by simp [Expr.Rel] at h
  | .bin _ _ _, .val _, h => by simp [Expr.Rel] at h
  | .val _, .neg _, h => by simp [Expr.Rel] at h
  | .val _, .bin _ _ _, h => by simp [Expr.Rel] at h
theorem VExpr.rel_mono {R R' : String → String → Prop} (hR : ∀ x y, R x y → R' x y) :
    ∀ (e e' : VExpr), VExpr.Rel R e e' → VExpr.Rel R' e e'
  | .paren a, .paren b, h => by simp only [VExpr.Rel] at h ⊢; exact Expr.rel_mono hR a b h
  | .amt v c, .amt v' c', h => by simp only [VExpr.Rel] at h ⊢; exact ⟨h.1, hR _ _ h.2⟩
  | .paren _, .amt _ _, h => by simp [VExpr.Rel] at h
  | .amt _ _, .paren _, h => by simp [VExpr.Rel] at h
end

mutual
theorem Expr.rel_refl {R : String → String → Prop} (hR : ∀ x, R x x) : ∀ e : Expr, Expr.Rel R e e
  | .neg a => by simp only [Expr.Rel]; exact Expr.rel_refl hR a
  | .bin o l r => by simp only [Expr.Rel, true_and]; exact ⟨Expr.rel_refl hR l, Expr.rel_refl hR r⟩
  | .val v => by simp only [Expr.Rel]; exact VExpr.rel_refl hR v
theorem VExpr.rel_refl {R : String → String → Prop} (hR : ∀ x, R x x) : ∀ e : VExpr, VExpr.Rel R e e
  | .paren a => by simp only [VExpr.Rel]; exact Expr.rel_refl hR a
  | .amt v c => by simp only [VExpr.Rel, true_and]; exact hR c
end

theorem optRel_mono {α : Type} {r r' : α → α → Prop} (h : ∀ a b, r a b → r' a b) :
    ∀ x y : Option α, optRel r x y → optRel r' x y
  | none, none, _ => trivial
  | some a, some b, hr => h a b hr
  | none, some _, hr => by simp [optRel] at hr
  | some _, none, hr => by simp [optRel] at hr

theorem optRel_refl {α : Type} {r : α → α → Prop} (h : ∀ a, r a a) : ∀ x : Option α, optRel r x x
  | none => trivial
  | some a => h a

theorem listRel_mono {α : Type} {r r' : α → α → Prop} (h : ∀ a b, r a b → r' a b) :
    ∀ x y : List α, listRel r x y → listRel r' x y
  | [], [], _ => trivial
  | a :: as, b :: bs, hr => ⟨h a b hr.1, listRel_mono h as bs hr.2⟩
  | [], _ :: _, hr => by simp [listRel] at hr
  | _ :: _, [], hr => by simp [listRel] at hr

theorem listRel_refl {α : Type} {r : α → α → Prop} (h : ∀ a, r a a) : ∀ x : List α, listRel r x x
  | [] => trivial
  | a :: as => ⟨h a, listRel_refl h as⟩

theorem Exchange.rel_mono {R R' : String → String → Prop} (hR : ∀ x y, R x y → R' x y) :
    ∀ a b : Exchange, Exchange.Rel R a b → Exchange.Rel R' a b
  | .total a, .total b, h => VExpr.rel_mono hR a b h
  | .rate a, .rate b, h => VExpr.rel_mono hR a b h
  | .total _, .rate _, h => by simp [Exchange.Rel] at h
  | .rate _, .total _, h => by simp [Exchange.Rel] at h

theorem Exchange.rel_refl {R : String → String → Prop} (hR : ∀ x, R x x) : ∀ a : Exchange, Exchange.Rel R a a
  | .total a => VExpr.rel_refl hR a
  | .rate a => VExpr.rel_refl hR a

theorem Posting.rel_mono {Ra Ra' Rc Rc' : String → String → Prop} (ha : ∀ x y, Ra x y → Ra' x y)
    (hc : ∀ x y, Rc x y → Rc' x y) (p q : Posting) (h : Posting.Rel Ra Rc p q) : Posting.Rel Ra' Rc' p q := by
  obtain ⟨h1, h2, h3, h4, h5⟩ := h
  refine ⟨ha _ _ h1, h2, optRel_mono ?_ _ _ h3, optRel_mono (VExpr.rel_mono hc) _ _ h4, h5⟩
  intro a b hab
  obtain ⟨g1, g2, g3, g4, g5⟩ := hab
  exact ⟨VExpr.rel_mono hc _ _ g1, optRel_mono (Exchange.rel_mono hc) _ _ g2, optRel_mono (Exchange.rel_mono hc) _ _ g3, g4, g5⟩

theorem Posting.rel_refl {Ra Rc : String → String → Prop} (ha : ∀ x, Ra x x) (hc : ∀ x, Rc x x) (p : Posting) :
    Posting.Rel Ra Rc p p :=
  ⟨ha _, rfl, optRel_refl (fun _ => ⟨VExpr.rel_refl hc _, optRel_refl (Exchange.rel_refl hc) _,
    optRel_refl (Exchange.rel_refl hc) _, rfl, rfl⟩) _, optRel_refl (VExpr.rel_refl hc) _, rfl⟩

theorem Transaction.rel_mono {Ra Ra' Rc Rc' : String → String → Prop} (ha : ∀ x y, Ra x y → Ra' x y)
    (hc : ∀ x y, Rc x y → Rc' x y) (t u : Transaction) (h : Transaction.Rel Ra Rc t u) : Transaction.Rel Ra' Rc' t u := by
  obtain ⟨h1, h2, h3, h4, h5, h6, h7⟩ := h
  exact ⟨h1, h2, h3, h4, h5, listRel_mono (Posting.rel_mono ha hc) _ _ h6, h7⟩

theorem Transaction.rel_refl {Ra Rc : String → String → Prop} (ha : ∀ x, Ra x x) (hc : ∀ x, Rc x x) (t : Transaction) :
    Transaction.Rel Ra Rc t t :=
  ⟨rfl, rfl, rfl, rfl, rfl, listRel_refl (Posting.rel_refl ha hc) _, rfl⟩

theorem Entry.rel_mono {Ra Ra' Rc Rc' : String → String → Prop} (ha : ∀ x y, Ra x y → Ra' x y)
    (hc : ∀ x y, Rc x y → Rc' x y) (e e' : Entry) (h : Entry.Rel Ra Rc e e') : Entry.Rel Ra' Rc' e e' := by
  cases e <;> cases e' <;> simp_all [Entry.Rel]
  exact Transaction.rel_mono ha hc _ _ h

/-! ## one entry -/

/-- processing an entry only adds records to the two stores. -/
theorem stepEntry_le {st st' : ProcState} {e : Entry} (h : stepEntry st e = .ok st') : st.ctx.le st'.ctx := by
  cases e with
  | txn t =>
    simp only [stepEntry] at h
    have := addTransactionSyntax_rel (c := st.ctx) (t := t) (t' := t) st.bal
      (Transaction.rel_refl (fun _ => Or.inl rfl) (fun _ => Or.inl rfl) t)
    cases ha : addTransactionSyntax st.ctx st.bal t with
    | ok r => obtain ⟨c', rr⟩ := r; simp [ha] at h; rw [← h]; exact this.2 c' rr ha
    | err x => simp [ha] at h
    | panic q => simp [ha] at h
    | fuelOut => simp [ha] at h
  | account name details =>
    simp only [stepEntry] at h
    cases hc : st.ctx.accounts.insertCanonical name with
    | ok r =>
      obtain ⟨k, s1⟩ := r
      simp only [hc] at h
      split at h
      next s2 hi =>
        simp at h
        rw [← h]
        exact ⟨Store.le_trans (Store.insertCanonical_ok hc).1 (insertAliases_ok _ _ _ _ hi).1, Store.le_refl _⟩
      · simp at h
      · simp at h
      · simp at h
    | err x => simp [hc] at h
    | panic q => simp [hc] at h
    | fuelOut => simp [hc] at h
  | commodity name details =>
    simp only [stepEntry] at h
    cases hc : st.ctx.commodities.insertCanonical name with
    | ok r =>
      obtain ⟨k, s1⟩ := r
      simp only [hc] at h
      cases hi : applyCommodityDetails { st.ctx with commodities := s1 } k details with
      | ok c' =>
        simp [hi] at h
        rw [← h]
        exact Ctx.le_trans (show st.ctx.le { st.ctx with commodities := s1 } from
          ⟨Store.le_refl _, (Store.insertCanonical_ok hc).1⟩) (applyCommodityDetails_ok _ _ _ _ hi).1
      | err x => simp [hi] at h
      | panic q => simp [hi] at h
      | fuelOut => simp [hi] at h
    | err x => simp [hc] at h
    | panic q => simp [hc] at h
    | fuelOut => simp [hc] at h
  | comment s => simp [stepEntry] at h; rw [← h]; exact Ctx.le_refl _
  | applyTag k v => simp [stepEntry] at h; rw [← h]; exact Ctx.le_refl _
  | endApplyTag => simp [stepEntry] at h; rw [← h]; exact Ctx.le_refl _
  | «include» p => simp [stepEntry] at h; rw [← h]; exact Ctx.le_refl _

theorem processFrom_append : ∀ (as bs : List Entry) (st : ProcState) (i : Nat),
    processFrom st i (as ++ bs) =
      match processFrom st i as with
      | .ok st' => processFrom st' (i + as.length) bs
      | .err x => .err x
      | .panic s => .panic s
      | .fuelOut => .fuelOut
  | [], bs, st, i => by simp [processFrom]
  | a :: as, bs, st, i => by
    simp only [List.cons_append, processFrom]
    cases h : stepEntry st a with
    | ok st1 =>
      simp only
      rw [processFrom_append as bs st1 (i + 1)]
      simp only [List.length_cons]
      rw [show i + 1 + as.length = i + (as.length + 1) by omega]
    | err x => rfl
    | panic q => rfl
    | fuelOut => rfl

end Okane
