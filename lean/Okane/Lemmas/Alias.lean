import Okane.Spec.Alias
/-! Helper lemmas for C12: the stores only grow; equivalent spellings evaluate identically. -/
namespace Okane

namespace Store

theorem le_refl (s : Store) : s.le s := fun _ _ h => h

theorem le_trans {a b c : Store} (h1 : a.le b) (h2 : b.le c) : a.le c := fun k v h => h2 k v (h1 k v h)

theorem resolve_eq_some {s : Store} {x c : String} (h : s.resolve x = some c) :
    (AMap.get? s.recs x = some none ∧ c = x) ∨ AMap.get? s.recs x = some (some c) := by
  unfold resolve at h
  cases hg : AMap.get? s.recs x with
  | none => simp [hg] at h
  | some v =>
    cases v with
    | none => simp [hg] at h; exact Or.inl ⟨rfl, h.symm⟩
    | some k => simp [hg] at h; subst h; exact Or.inr rfl

theorem resolve_of_le {s s' : Store} (h : s.le s') {x c : String} (hr : s.resolve x = some c) :
    s'.resolve x = some c := by
  rcases resolve_eq_some hr with ⟨hg, rfl⟩ | hg
  · simp [resolve, h _ _ hg]
  · simp [resolve, h _ _ hg]

theorem resolve_none {s : Store} {x : String} (h : s.resolve x = none) : AMap.get? s.recs x = none := by
  unfold resolve at h
  cases hg : AMap.get? s.recs x with
  | none => rfl
  | some v => cases v <;> simp [hg] at h

theorem le_insert_new (s : Store) (x : String) (v : Option String) (h : AMap.get? s.recs x = none) :
    s.le ⟨AMap.insert s.recs x v⟩ := by
  intro k w hk
  have hne : x ≠ k := by intro e; subst e; rw [h] at hk; cases hk
  simpa [AMap.get?_insert_ne _ _ hne] using hk

theorem ensure_le (s : Store) (x : String) : s.le (s.ensure x).2 := by
  unfold ensure
  cases hr : s.resolve x with
  | some c => exact le_refl s
  | none => exact le_insert_new s x none (resolve_none hr)

theorem sameAccount_mono {s s' : Store} (h : s.le s') {x y : String} (hxy : s.SameAccount x y) : s'.SameAccount x y := by
  rcases hxy with rfl | ⟨c, h1, h2⟩
  · exact Or.inl rfl
  · exact Or.inr ⟨c, resolve_of_le h h1, resolve_of_le h h2⟩

theorem sameCommodity_mono {s s' : Store} (h : s.le s') {x y : String} (hxy : s.SameCommodity x y) :
    s'.SameCommodity x y := by
  rcases hxy with rfl | ⟨hx, hy, c, h1, h2⟩
  · exact Or.inl rfl
  · exact Or.inr ⟨hx, hy, c, resolve_of_le h h1, resolve_of_le h h2⟩

/-- equivalent spellings are interned identically, and the store is not touched differently. -/
theorem ensure_congr {s : Store} {x y : String} (h : s.SameAccount x y) : s.ensure y = s.ensure x := by
  rcases h with rfl | ⟨c, h1, h2⟩
  · rfl
  · simp [ensure, h1, h2]

/-- **C12_resolve** core: a registered name (canonical or alias) is resolved, not re-registered. -/
theorem ensure_of_resolve {s : Store} {x c : String} (h : s.resolve x = some c) : s.ensure x = (c, s) := by
  simp [ensure, h]

theorem insertCanonical_ok {s s' : Store} {x c : String} (h : s.insertCanonical x = .ok (c, s')) :
    s.le s' ∧ c = x ∧ AMap.get? s'.recs x = some none := by
  unfold insertCanonical at h
  cases hg : AMap.get? s.recs x with
  | none =>
    simp [hg] at h
    obtain ⟨rfl, rfl⟩ := h
    exact ⟨le_insert_new s x none hg, rfl, by simp [AMap.get?_insert_self]⟩
  | some v =>
    cases v with
    | none => simp [hg] at h; obtain ⟨rfl, rfl⟩ := h; exact ⟨le_refl _, rfl, hg⟩
    | some k => simp [hg] at h

theorem insertAlias_ok {s s' : Store} {a k : String} (h : s.insertAlias a k = .ok s') :
    s.le s' ∧ AMap.get? s'.recs a = some (some k) := by
  unfold insertAlias at h
  cases hg : AMap.get? s.recs a with
  | none =>
    simp [hg] at h
    subst h
    exact ⟨le_insert_new s a (some k) hg, by simp [AMap.get?_insert_self]⟩
  | some v =>
    cases v with
    | none => simp [hg] at h
    | some found =>
      simp only [hg] at h
      by_cases hf : found = k
      · simp [hf] at h; subst h; subst hf; exact ⟨le_refl _, hg⟩
      · simp [hf] at h

end Store

namespace Ctx
theorem le_refl (c : Ctx) : c.le c := ⟨Store.le_refl _, Store.le_refl _⟩
theorem le_trans {a b c : Ctx} (h1 : a.le b) (h2 : b.le c) : a.le c :=
  ⟨Store.le_trans h1.1 h2.1, Store.le_trans h1.2 h2.2⟩
end Ctx

/-! ## expressions -/

theorem leafMut_congr {s : Store} {x y : String} (h : s.SameCommodity x y) (v : PDec) : leafMut s v y = leafMut s v x := by
  rcases h with rfl | ⟨hx, hy, c, h1, h2⟩
  · rfl
  · simp [leafMut, hx, hy, Store.ensure, h1, h2]

theorem leafMut_le {s s' : Store} {v : PDec} {c : String} {r : Evaluated String} (h : leafMut s v c = .ok (r, s')) :
    s.le s' := by
  unfold leafMut at h
  by_cases hc : c.isEmpty = true
  · simp [hc] at h; rw [← h.2]; exact Store.le_refl s
  · simp [hc] at h; rw [← h.2]; exact Store.ensure_le s c

mutual
theorem evalExpr_rel (s0 : Store) : ∀ (e e' : Expr) (s : Store), Expr.Rel s0.SameCommodity e e' → s0.le s →
    evalExprWith leafMut s e' = evalExprWith leafMut s e ∧
    ∀ v s', evalExprWith leafMut s e = .ok (v, s') → s.le s'
  | .neg a, .neg b, s, h, hs => by
    have ih := evalExpr_rel s0 a b s (by simpa [Expr.Rel] using h) hs
    refine ⟨?_, ?_⟩
    · simp only [evalExprWith, ih.1]
    · intro v s' hv
      simp only [evalExprWith] at hv
      cases ha : evalExprWith leafMut s a with
      | ok r => obtain ⟨w, s1⟩ := r; simp [ha] at hv; rw [← hv.2]; exact ih.2 w s1 ha
      | err x => simp [ha] at hv
      | panic p => simp [ha] at hv
      | fuelOut => simp [ha] at hv
  | .bin o l r, .bin o' l' r', s, h, hs => by
    simp only [Expr.Rel] at h
    obtain ⟨rfl, hl, hr⟩ := h
    have ihl := evalExpr_rel s0 l l' s hl hs
    refine ⟨?_, ?_⟩
    · simp only [evalExprWith, ihl.1]
      cases ha : evalExprWith leafMut s l with
      | ok x =>
        obtain ⟨lv, s1⟩ := x
        have hs1 := ihl.2 lv s1 ha
        have ihr := evalExpr_rel s0 r r' s1 hr (Store.le_trans hs hs1)
        simp only [ihr.1]
      | err x => rfl
      | panic p => rfl
      | fuelOut => rfl
    · intro v s' hv
      simp only [evalExprWith] at hv
      cases ha : evalExprWith leafMut s l with
      | ok x =>
        obtain ⟨lv, s1⟩ := x
        have hs1 := ihl.2 lv s1 ha
        have ihr := evalExpr_rel s0 r r' s1 hr (Store.le_trans hs hs1)
        simp only [ha] at hv
        cases hb : evalExprWith leafMut s1 r with
        | ok y =>
          obtain ⟨rv, s2⟩ := y
          simp only [hb] at hv
          cases hc : applyBin o lv rv with
          | ok z => simp [hc] at hv; rw [← hv.2]; exact Store.le_trans hs1 (ihr.2 rv s2 hb)
          | err x => simp [hc] at hv
          | panic p => simp [hc] at hv
          | fuelOut => simp [hc] at hv
        | err x => simp [hb] at hv
        | panic p => simp [hb] at hv
        | fuelOut => simp [hb] at hv
      | err x => simp [ha] at hv
      | panic p => simp [ha] at hv
      | fuelOut => simp [ha] at hv
  | .val v, .val v', s, h, hs => by
    have ih := evalVExpr_rel s0 v v' s (by simpa [Expr.Rel] using h) hs
    exact ⟨by simp only [evalExprWith, ih.1], fun w s' hw => ih.2 w s' (by simpa [evalExprWith] using hw)⟩
  | .neg _, .bin _ _ _, _, h, _ => by simp [Expr.Rel] at h
  | .neg _, .val _, _, h, _ => by simp [Expr.Rel] at h
  | .bin _ _ _, .neg _, _, h, _ => by simp [Expr.Rel] at h
  | .bin _ _ _, .val _, _, h, _ => by simp [Expr.Rel] at h
  | .val _, .neg _, _, h, _ => by simp [Expr.Rel] at h
  | .val _, .bin _ _ _, _, h, _ => by simp [Expr.Rel] at h
theorem evalVExpr_rel (s0 : Store) : ∀ (e e' : VExpr) (s : Store), VExpr.Rel s0.SameCommodity e e' → s0.le s →
    evalVExprWith leafMut s e' = evalVExprWith leafMut s e ∧
    ∀ v s', evalVExprWith leafMut s e = .ok (v, s') → s.le s'
  | .paren a, .paren b, s, h, hs => by
    have ih := evalExpr_rel s0 a b s (by simpa [VExpr.Rel] using h) hs
    exact ⟨by simp only [evalVExprWith, ih.1], fun w s' hw => ih.2 w s' (by simpa [evalVExprWith] using hw)⟩
  | .amt v c, .amt v' c', s, h, hs => by
    simp only [VExpr.Rel] at h
    obtain ⟨rfl, hc⟩ := h
    refine ⟨?_, ?_⟩
    · simp only [evalVExprWith]; exact leafMut_congr (Store.sameCommodity_mono hs hc) v
    · intro w s' hw; simp only [evalVExprWith] at hw; exact leafMut_le hw
  | .paren _, .amt _ _, _, h, _ => by simp [VExpr.Rel] at h
  | .amt _ _, .paren _, _, h, _ => by simp [VExpr.Rel] at h
end

theorem evalMut_rel (s0 : Store) {e e' : VExpr} {s : Store} (h : VExpr.Rel s0.SameCommodity e e') (hs : s0.le s) :
    evalMut s e' = evalMut s e ∧ ∀ v s', evalMut s e = .ok (v, s') → s.le s' :=
  evalVExpr_rel s0 e e' s h hs

theorem evalPostingAmt_rel (s0 : Store) {e e' : VExpr} {s : Store} (h : VExpr.Rel s0.SameCommodity e e') (hs : s0.le s) :
    evalPostingAmt s e' = evalPostingAmt s e ∧ ∀ v s', evalPostingAmt s e = .ok (v, s') → s.le s' := by
  have ih := evalMut_rel s0 h hs
  refine ⟨by simp only [evalPostingAmt, ih.1], ?_⟩
  intro v s' hv
  simp only [evalPostingAmt] at hv
  cases ha : evalMut s e with
  | ok x =>
    obtain ⟨w, s1⟩ := x
    simp only [ha] at hv
    cases hb : w.toPosting with
    | ok p => simp [hb] at hv; rw [← hv.2]; exact ih.2 w s1 ha
    | err x => simp [hb] at hv
    | panic p => simp [hb] at hv
    | fuelOut => simp [hb] at hv
  | err x => simp [ha] at hv
  | panic p => simp [ha] at hv
  | fuelOut => simp [ha] at hv

/-- `resolveExchange` with the `Total`/`Rate` case split taken out. -/
def resolveExchangeAux (s : Store) (amount : PostingAmt String) (isTotal : Bool) (e : VExpr) :
    Outcome BkErrS (RExchange String × Store) :=
  match evalMut s e with
  | .ok (v, s') =>
    match v.toSingle with
    | .ok rate =>
      if rate.value = 0 then .err .zeroExchangeRate
      else match amount with
        | .zero => .err .zeroAmountWithExchange
        | .single a =>
          if a.commodity = rate.commodity then .err .exchangeWithAmountCommodity
          else .ok (if isTotal then .total rate else .rate rate, s')
    | .err e => .err (.evalFailure e)
    | .panic p => .panic p
    | .fuelOut => .fuelOut
  | .err e => .err (.evalFailure e)
  | .panic p => .panic p
  | .fuelOut => .fuelOut

theorem resolveExchange_total (s : Store) (amount : PostingAmt String) (e : VExpr) :
    resolveExchange s amount (.total e) = resolveExchangeAux s amount true e := rfl
theorem resolveExchange_rate (s : Store) (amount : PostingAmt String) (e : VExpr) :
    resolveExchange s amount (.rate e) = resolveExchangeAux s amount false e := rfl

theorem resolveExchangeAux_rel (s0 : Store) {e e' : VExpr} {s : Store} (amount : PostingAmt String) (isTotal : Bool)
    (h : VExpr.Rel s0.SameCommodity e e') (hs : s0.le s) :
    resolveExchangeAux s amount isTotal e' = resolveExchangeAux s amount isTotal e ∧
    ∀ v s', resolveExchangeAux s amount isTotal e = .ok (v, s') → s.le s' := by
  have ih := evalMut_rel s0 h hs
  refine ⟨by simp only [resolveExchangeAux, ih.1], ?_⟩
  intro v s' hv
  unfold resolveExchangeAux at hv
  cases ha : evalMut s e with
  | ok r =>
    obtain ⟨w, s1⟩ := r
    have hle := ih.2 w s1 ha
    simp only [ha] at hv
    cases hb : w.toSingle with
    | ok rate =>
      simp only [hb] at hv
      by_cases hz : rate.value = 0
      · simp [hz] at hv
      · simp only [hz, if_false] at hv
        cases amount with
        | zero => simp at hv
        | single a =>
          simp only at hv
          by_cases hc : a.commodity = rate.commodity
          · simp [hc] at hv
          · simp [hc] at hv; rw [← hv.2]; exact hle
    | err x => simp [hb] at hv
    | panic p => simp [hb] at hv
    | fuelOut => simp [hb] at hv
  | err x => simp [ha] at hv
  | panic p => simp [ha] at hv
  | fuelOut => simp [ha] at hv

theorem resolveExchange_rel (s0 : Store) {x x' : Exchange} {s : Store} (amount : PostingAmt String)
    (h : Exchange.Rel s0.SameCommodity x x') (hs : s0.le s) :
    resolveExchange s amount x' = resolveExchange s amount x ∧
    ∀ v s', resolveExchange s amount x = .ok (v, s') → s.le s' := by
  cases x with
  | total e =>
    cases x' with
    | total e' => simpa only [resolveExchange_total] using resolveExchangeAux_rel s0 amount true h hs
    | rate e' => simp [Exchange.Rel] at h
  | rate e =>
    cases x' with
    | rate e' => simpa only [resolveExchange_rate] using resolveExchangeAux_rel s0 amount false h hs
    | total e' => simp [Exchange.Rel] at h

theorem resolveOptExchange_rel (s0 : Store) {x x' : Option Exchange} {s : Store} (amount : PostingAmt String)
    (h : optRel (Exchange.Rel s0.SameCommodity) x x') (hs : s0.le s) :
    resolveOptExchange s amount x' = resolveOptExchange s amount x ∧
    ∀ v s', resolveOptExchange s amount x = .ok (v, s') → s.le s' := by
  cases x with
  | none =>
    cases x' with
    | none => exact ⟨rfl, fun v s' hv => by simp [resolveOptExchange] at hv; rw [← hv.2]; exact Store.le_refl s⟩
    | some b => simp [optRel] at h
  | some a =>
    cases x' with
    | none => simp [optRel] at h
    | some b =>
      have ih := resolveExchange_rel s0 amount (show Exchange.Rel _ a b from h) hs
      refine ⟨by simp only [resolveOptExchange, ih.1], ?_⟩
      intro v s' hv
      simp only [resolveOptExchange] at hv
      cases ha : resolveExchange s amount a with
      | ok r => obtain ⟨w, s1⟩ := r; simp [ha] at hv; rw [← hv.2]; exact ih.2 w s1 ha
      | err x => simp [ha] at hv
      | panic p => simp [ha] at hv
      | fuelOut => simp [ha] at hv

theorem resolveOptBalance_rel (s0 : Store) {x x' : Option VExpr} {s : Store}
    (h : optRel (VExpr.Rel s0.SameCommodity) x x') (hs : s0.le s) :
    resolveOptBalance s x' = resolveOptBalance s x ∧
    ∀ v s', resolveOptBalance s x = .ok (v, s') → s.le s' := by
  cases x with
  | none =>
    cases x' with
    | none => exact ⟨rfl, fun v s' hv => by simp [resolveOptBalance] at hv; rw [← hv.2]; exact Store.le_refl s⟩
    | some b => simp [optRel] at h
  | some a =>
    cases x' with
    | none => simp [optRel] at h
    | some b =>
      have ih := evalPostingAmt_rel s0 (show VExpr.Rel _ a b from h) hs
      refine ⟨by simp only [resolveOptBalance, ih.1], ?_⟩
      intro v s' hv
      simp only [resolveOptBalance] at hv
      cases ha : evalPostingAmt s a with
      | ok r => obtain ⟨w, s1⟩ := r; simp [ha] at hv; rw [← hv.2]; exact ih.2 w s1 ha
      | err x => simp [ha] at hv
      | panic p => simp [ha] at hv
      | fuelOut => simp [ha] at hv

theorem resolveAmount_rel (s0 : Store) {pa pa' : PostingAmount} {s : Store}
    (h : PostingAmount.Rel s0.SameCommodity pa pa') (hs : s0.le s) :
    resolveAmount s pa' = resolveAmount s pa ∧ ∀ v s', resolveAmount s pa = .ok (v, s') → s.le s' := by
  obtain ⟨h1, h2, h3, _, _⟩ := h
  have i1 := evalPostingAmt_rel s0 h1 hs
  refine ⟨?_, ?_⟩
  · simp only [resolveAmount, i1.1]
    cases ha : evalPostingAmt s pa.amount with
    | ok r =>
      obtain ⟨amount, s1⟩ := r
      have hs1 := Store.le_trans hs (i1.2 amount s1 ha)
      have i2 := resolveOptExchange_rel s0 amount h2 hs1
      simp only [i2.1]
      cases hb : resolveOptExchange s1 amount pa.cost with
      | ok r2 =>
        obtain ⟨cost, s2⟩ := r2
        have hs2 := Store.le_trans hs1 (i2.2 cost s2 hb)
        have i3 := resolveOptExchange_rel s0 amount h3 hs2
        simp only [i3.1]
      | err x => rfl
      | panic p => rfl
      | fuelOut => rfl
    | err x => rfl
    | panic p => rfl
    | fuelOut => rfl
  · intro v s' hv
    simp only [resolveAmount] at hv
    cases ha : evalPostingAmt s pa.amount with
    | ok r =>
      obtain ⟨amount, s1⟩ := r
      have hl1 := i1.2 amount s1 ha
      have hs1 := Store.le_trans hs hl1
      have i2 := resolveOptExchange_rel s0 amount h2 hs1
      simp only [ha] at hv
      cases hb : resolveOptExchange s1 amount pa.cost with
      | ok r2 =>
        obtain ⟨cost, s2⟩ := r2
        have hl2 := i2.2 cost s2 hb
        have hs2 := Store.le_trans hs1 hl2
        have i3 := resolveOptExchange_rel s0 amount h3 hs2
        simp only [hb] at hv
        cases hc : resolveOptExchange s2 amount pa.lot.price with
        | ok r3 =>
          obtain ⟨lot, s3⟩ := r3
          have hl3 := i3.2 lot s3 hc
          have hfin : s.le s3 := Store.le_trans hl1 (Store.le_trans hl2 hl3)
          simp only [hc] at hv
          split at hv
          · simp at hv; rw [← hv.2]; exact hfin
          · simp at hv; rw [← hv.2]; exact hfin
          · simp at hv
        | err x => simp [hc] at hv
        | panic p => simp [hc] at hv
        | fuelOut => simp [hc] at hv
      | err x => simp [hb] at hv
      | panic p => simp [hb] at hv
      | fuelOut => simp [hb] at hv
    | err x => simp [ha] at hv
    | panic p => simp [ha] at hv
    | fuelOut => simp [ha] at hv

end Okane
