import Okane.Lemmas.C13CmdFine
import Okane.Lemmas.PriceDbFile
import Okane.Model.CmdText
/-!
# The executable command text (`Model/CmdText.lean`, what `drv c13 cmd` runs and `bin/check C13` compares with the
real binary) **is** the command model of the C13 theorems

`Okane.CmdText.run` is written without layouts (`process`, one scan of the entries).  Here:

* its pieces are the command models of `Lemmas/C13CmdReport.lean` instantiated with the byte order of names, the
  identity on account names and the numeral-hole printer (`balanceLines_eq`, `registerLines_eq`, `accountsLines_eq`,
  `finish_eq`);
* the real error messages (`bkErrMsg`, the Rust `#[error]` texts) do not depend on the layout of the amounts they
  carry (`bkErrMsg_meq`) — the analogue of `ErrEq.text` for the abstract `bkErrText`;
* hence **for every layout history** — per entry (`π`) and per posting (`ρ`) — the text of the command model is the
  text `run` computes (`run_balance_layouts`, `run_register_layouts`, `run_accounts_layouts`), and the text is
  deterministic in the sense of `Props/C13.lean` (`balanceText_det`, …);
* `run` and the commands of `Props/C13.lean` (`balanceCmd`, `registerCmd`, `accountsScanCmd`, which use the abstract
  error text) print the same standard output and fail at the same entry (`run_balance_cmd`, `run_register_cmd`,
  `run_accounts_cmd`);
* shape of the output: `okane accounts` lists every account once in strictly increasing byte order
  (`accountsLines_strict`), `okane balance` prints one line per account in that order (`balanceRows_strict`);
* section Exchange: `okane balance -X …` and `okane primitive eval …` (`runX`, `runEval`), price db included: the
  price-db step of `process` respects the layout relation (`loadRepo_meq`), the text is layout-independent
  (`xFinish_eq`, `xText_det`, `evalFinish_eq`, `evalText_det`), it is what the driver computes (`runX_layouts`,
  `runEval_layouts`), and without a price db it is `balanceXOut` / `evalOut` of `Lemmas/C13CmdQuery.lean` up to the
  wording of the messages (`xFinish_balanceXOut`, `evalFinish_evalOut`).
-/
set_option linter.unusedSectionVars false
set_option linter.unusedSimpArgs false
namespace Okane.C13
open Okane Okane.CmdText

/-- the order `run` sorts names by is the order `keyOrder_string` is about. -/
theorem keyOrder_leS : KeyOrder CmdText.leS := keyOrder_string

/-! ## the pieces -/

theorem showAmount_meq {a a' : Amount String} (h : a ≈ₘ a') : showAmount a = showAmount a' :=
  inlineDisplay_meq keyOrder_leS showEntry h

/-- **the real error messages are the same text for related errors** (the amounts in `unbalanced postings` /
`balance assertion off by` are sorted before they are printed). -/
theorem bkErrMsg_meq {e e' : BkErrS} (h : ErrEq e e') : bkErrMsg e = bkErrMsg e' := by
  cases e <;> simp only [ErrEq] at h <;> try (subst h; rfl)
  · obtain ⟨r', rfl, h⟩ := h
    exact congrArg (fun s => "transaction cannot have unbalanced postings: " ++ s) (showAmount_meq h)
  · obtain ⟨c', d', rfl, hc, hd⟩ := h
    show "balance assertion off by " ++ showAmount _ ++ ", computed balance is " ++ showAmount _ =
      "balance assertion off by " ++ showAmount _ ++ ", computed balance is " ++ showAmount _
    rw [showAmount_meq hc, showAmount_meq hd]

theorem balanceLines_eq (r : DateRange) (st : ProcState) :
    CmdText.balanceLines r st = C13.balanceLines leS leS id showEntry r st := rfl

theorem registerLines_eq (acct : Option String) (st : ProcState) :
    CmdText.registerLines acct st = C13.registerLines leS id showEntry acct st := rfl

theorem accountsScan_eq (es : List Entry) : ∀ (s : Store) (i : Nat),
    accountsScan s es = accountsScr (fun _ s => s) s i es := by
  induction es with
  | nil => intro s i; rfl
  | cons e es ih =>
    intro s i
    cases e <;> simp only [accountsScan, accountsScr, accountsStep, ih _ (i + 1)]

theorem accountsLines_eq (es : List Entry) :
    CmdText.accountsLines es = accountsScanCmd leS (fun _ s => s) es := by
  unfold CmdText.accountsLines accountsScanCmd
  rw [accountsScan_eq es {} 0]

/-- `finish` is `cmdText` with the real messages, followed by `writeln!` of every line. -/
theorem finish_eq (lines : ProcState → List String) (x : Outcome (Nat × BkErrS) ProcState) :
    finish lines x = (cmdText bkErrMsg lines x).map' unlines := by
  cases x with
  | ok st => rfl
  | err e => obtain ⟨i, e⟩ := e; rfl
  | panic s => rfl
  | fuelOut => rfl

/-- the identity layouts give `process` itself. -/
theorem stepEntryScr_id (st : ProcState) (e : Entry) : stepEntryScr (fun _ p => p) st e = stepEntry st e := by
  cases e with
  | txn t =>
    simp only [stepEntryScr, stepEntry, addTransactionSyntaxScr, addTransactionSyntax, loopSyntaxScr_id]
    rfl
  | _ => rfl

theorem processScr2_id (st : ProcState) (i : Nat) (es : List Entry) :
    processScr2 (fun _ st => st) (fun _ _ p => p) st i es = processFrom st i es := by
  induction es generalizing st i with
  | nil => rfl
  | cons e es ih =>
    simp only [processScr2, processFrom, stepEntryScr_id]
    cases stepEntry st e <;> simp only [ih]

/-! ## every layout history -/
section Layouts
variable {π π₁ π₂ : Nat → ProcState → ProcState} {ρ ρ₁ ρ₂ : Nat → Nat → LoopSt → LoopSt}

/-- the text (standard output, or entry index and diagnostic title) of a book-keeping command under the layout
histories `π` (after every entry) and `ρ` (after every posting). -/
def textScr (lines : ProcState → List String) (π : Nat → ProcState → ProcState) (ρ : Nat → Nat → LoopSt → LoopSt)
    (es : List Entry) : CmdText.Result :=
  (cmdText bkErrMsg lines (processScr2 π ρ {} 0 es)).map' unlines

/-- a report that does not see the layouts gives a command text that does not depend on the layout histories. -/
theorem textScr_det {lines : ProcState → List String} (hl : ∀ st st', st ≈ₚ st' → lines st = lines st')
    (h1 : Relayout π₁) (h2 : Relayout π₂) (g1 : ∀ i, Relayout2 (ρ₁ i)) (g2 : ∀ i, Relayout2 (ρ₂ i)) (es : List Entry) :
    textScr lines π₁ ρ₁ es = textScr lines π₂ ρ₂ es :=
  cmd_det2 (fun x => (cmdText bkErrMsg lines x).map' unlines)
    (fun _ _ h => by simp only [cmdText_eq (fun _ _ he => bkErrMsg_meq he) hl h]) h1 h2 g1 g2 es

/-- … and it is what `finish lines (process es)` computes. -/
theorem finish_process_eq {lines : ProcState → List String} (hl : ∀ st st', st ≈ₚ st' → lines st = lines st')
    (h : Relayout π) (g : ∀ i, Relayout2 (ρ i)) (es : List Entry) :
    finish lines (process es) = textScr lines π ρ es := by
  rw [finish_eq, textScr_det hl h relayout_id g (fun _ => relayout2_id) es]
  unfold textScr process
  rw [processScr2_id]

theorem balanceLinesT_meq (r : DateRange) (st st' : ProcState) (h : st ≈ₚ st') :
    CmdText.balanceLines r st = CmdText.balanceLines r st' :=
  balanceLines_meq keyOrder_leS keyOrder_leS id showEntry r h

theorem registerLinesT_meq (acct : Option String) (st st' : ProcState) (h : st ≈ₚ st') :
    CmdText.registerLines acct st = CmdText.registerLines acct st' :=
  registerLines_meq keyOrder_leS id showEntry acct h

/-- **`okane balance [--start ..] [--end ..]`**: what the driver prints (and the check compares with the binary) is
the text of the command model under every layout history of every hash map. -/
theorem run_balance_layouts (r : DateRange) (h : Relayout π) (g : ∀ i, Relayout2 (ρ i)) (es : List Entry) :
    run (.balance r) es = textScr (C13.balanceLines leS leS id showEntry r) π ρ es :=
  finish_process_eq (balanceLinesT_meq r) h g es

/-- **`okane register [ACCOUNT]`**. -/
theorem run_register_layouts (acct : Option String) (h : Relayout π) (g : ∀ i, Relayout2 (ρ i)) (es : List Entry) :
    run (.register acct) es = textScr (C13.registerLines leS id showEntry acct) π ρ es :=
  finish_process_eq (registerLinesT_meq acct) h g es

/-- **`okane accounts`**: the scan under every layout history `σ` of the intern store. -/
theorem run_accounts_layouts {σ : Nat → Store → Store} (h : StoreRelayout σ) (es : List Entry) :
    run .accounts es = .ok (unlines (accountsScanCmd leS σ es)) := by
  show Outcome.ok (unlines (CmdText.accountsLines es)) = _
  rw [accountsLines_eq, accountsScanCmd_det keyOrder_leS storeRelayout_id h]

/-- determinism of the real text, in the vocabulary of `Props/C13.lean`. -/
theorem balanceText_det (r : DateRange) (h1 : Relayout π₁) (h2 : Relayout π₂) (g1 : ∀ i, Relayout2 (ρ₁ i))
    (g2 : ∀ i, Relayout2 (ρ₂ i)) (es : List Entry) :
    textScr (C13.balanceLines leS leS id showEntry r) π₁ ρ₁ es =
      textScr (C13.balanceLines leS leS id showEntry r) π₂ ρ₂ es :=
  textScr_det (balanceLinesT_meq r) h1 h2 g1 g2 es

theorem registerText_det (acct : Option String) (h1 : Relayout π₁) (h2 : Relayout π₂) (g1 : ∀ i, Relayout2 (ρ₁ i))
    (g2 : ∀ i, Relayout2 (ρ₂ i)) (es : List Entry) :
    textScr (C13.registerLines leS id showEntry acct) π₁ ρ₁ es =
      textScr (C13.registerLines leS id showEntry acct) π₂ ρ₂ es :=
  textScr_det (registerLinesT_meq acct) h1 h2 g1 g2 es

end Layouts

/-! ## what the list of `okane accounts` looks like -/

/-- the intern store the scan ends with has pairwise distinct names, whatever the layout history. -/
theorem accountsScr_wf {σ : Nat → Store → Store} (h : StoreRelayout σ) (es : List Entry) :
    AMap.WF (accountsScr σ {} 0 es).recs :=
  (accountsScr_meq h h es (StoreEq.refl AMap.WF_nil) 0).wf

/-- **`okane accounts` prints every account once, in strictly increasing byte order.** -/
theorem accountsLines_strict (es : List Entry) :
    (CmdText.accountsLines es).Pairwise (fun a b => a < b) := by
  rw [accountsLines_eq]
  unfold accountsScanCmd accountsReport
  have hwf := accountsScr_wf storeRelayout_id es
  generalize (accountsScr (fun _ s => s) {} 0 es).recs = recs at hwf
  have hnd : ((recs.filter fun kv => kv.2.isNone).map Prod.fst).Nodup :=
    (List.Sublist.map _ List.filter_sublist).nodup hwf
  have hs := List.pairwise_mergeSort (le := leS) keyOrder_leS.trans keyOrder_leS.total
    ((recs.filter fun kv => kv.2.isNone).map Prod.fst)
  have hnd' : (((recs.filter fun kv => kv.2.isNone).map Prod.fst).mergeSort leS).Nodup :=
    (List.mergeSort_perm _ _).nodup_iff.2 hnd
  generalize ((recs.filter fun kv => kv.2.isNone).map Prod.fst).mergeSort leS = l at hs hnd'
  induction l with
  | nil => exact List.Pairwise.nil
  | cons a l ih =>
    rw [List.pairwise_cons] at hs ⊢
    rw [List.nodup_cons] at hnd'
    refine ⟨fun b hb => ?_, ih hs.2 hnd'.2⟩
    have hle : a ≤ b := by simpa [leS] using hs.1 b hb
    have hne : a ≠ b := fun e => hnd'.1 (e ▸ hb)
    exact Classical.byContradiction fun hn => hne (String.le_antisymm hle (String.not_lt.1 hn))

/-! ## what the lines of `okane balance` look like -/

/-- keys strictly increasing after `sortByKey` with the byte order, for a map with distinct keys. -/
theorem sortByKey_keys_strict {ν : Type} (m : AMap String ν) (hwf : AMap.WF m) :
    ((sortByKey leS m).map Prod.fst).Pairwise (fun a b => a < b) := by
  have hs : (sortByKey leS m).Pairwise (fun x y => leS x.1 y.1 = true) :=
    List.pairwise_mergeSort (le := fun x y : String × ν => leS x.1 y.1)
      (fun a b c h1 h2 => keyOrder_leS.trans a.1 b.1 c.1 h1 h2) (fun a b => keyOrder_leS.total a.1 b.1) m
  have hnd : ((sortByKey leS m).map Prod.fst).Nodup :=
    ((List.mergeSort_perm m _).map Prod.fst).nodup_iff.2 hwf
  generalize sortByKey leS m = l at hs hnd
  induction l with
  | nil => exact List.Pairwise.nil
  | cons a l ih =>
    rw [List.pairwise_cons] at hs
    rw [List.map_cons, List.nodup_cons] at hnd
    rw [List.map_cons, List.pairwise_cons]
    refine ⟨fun b hb => ?_, ih hs.2 hnd.2⟩
    obtain ⟨kv, hkv, rfl⟩ := List.mem_map.1 hb
    have hle : a.1 ≤ kv.1 := by simpa [leS] using hs.1 kv hkv
    have hne : a.1 ≠ kv.1 := fun e => hnd.1 (e ▸ hb)
    exact Classical.byContradiction fun hn => hne (String.le_antisymm hle (String.not_lt.1 hn))

/-- the rows of `okane balance`: (account, amount), sorted. -/
def balanceRows (r : DateRange) (st : ProcState) : List (String × Amount String) :=
  sortByKey leS (balanceNoConv st.ctx.prec st.txns st.bal r)

theorem balanceLines_rows (r : DateRange) (st : ProcState) :
    CmdText.balanceLines r st = (balanceRows r st).map fun kv => kv.1 ++ ": " ++ showAmount kv.2 := rfl

/-- **`okane balance [--start ..] [--end ..]` prints one line per account, accounts in strictly increasing byte
order**, for every ledger book-keeping accepts. -/
theorem balanceRows_strict (r : DateRange) {es : List Entry} {st : ProcState} (h : process es = .ok st) :
    ((balanceRows r st).map Prod.fst).Pairwise (fun a b => a < b) := by
  have hw := process_wf es
  rw [h] at hw
  exact sortByKey_keys_strict _ (balanceNoConv_meq st.ctx.prec hw.txns hw.bal r).wf

/-! ## the commands of `Props/C13.lean`

`balanceCmd` / `registerCmd` carry the abstract error text `bkErrText`; `run` carries the Rust messages.  They print
the same standard output, fail at the same entry, reach the same panic site. -/

/-- forget the message of an error, keep the entry index. -/
def errIndex {β : Type} (x : Outcome (Nat × String) β) : Outcome Nat β := x.mapErr Prod.fst

theorem cmdText_errIndex (errA errB : BkErrS → String) (lines : ProcState → List String)
    (x : Outcome (Nat × BkErrS) ProcState) :
    errIndex ((cmdText errA lines x).map' unlines) = errIndex ((cmdText errB lines x).map' unlines) := by
  cases x with
  | ok st => rfl
  | err e => obtain ⟨i, e⟩ := e; rfl
  | panic s => rfl
  | fuelOut => rfl

/-- **`run (.balance r)` and `balanceCmd`** (any layout history `π`): same output, same failing entry. -/
theorem run_balance_cmd (r : DateRange) {π : Nat → ProcState → ProcState} (h : Relayout π) (es : List Entry) :
    errIndex (run (.balance r) es) = errIndex ((balanceCmd leS leS id showEntry r π es).map' unlines) := by
  rw [balanceCmd_det keyOrder_leS keyOrder_leS id showEntry r h relayout_id es]
  unfold balanceCmd
  rw [processScr_id]
  show errIndex (finish (CmdText.balanceLines r) (process es)) = _
  rw [finish_eq]
  exact cmdText_errIndex _ _ _ _

/-- **`run (.register acct)` and `registerCmd`**. -/
theorem run_register_cmd (acct : Option String) {π : Nat → ProcState → ProcState} (h : Relayout π) (es : List Entry) :
    errIndex (run (.register acct) es) = errIndex ((registerCmd leS id showEntry acct π es).map' unlines) := by
  rw [registerCmd_det keyOrder_leS id showEntry acct h relayout_id es]
  unfold registerCmd
  rw [processScr_id]
  show errIndex (finish (CmdText.registerLines acct) (process es)) = _
  rw [finish_eq]
  exact cmdText_errIndex _ _ _ _

/-- **`run .accounts` and `accountsScanCmd`**. -/
theorem run_accounts_cmd {σ : Nat → Store → Store} (h : StoreRelayout σ) (es : List Entry) :
    run .accounts es = .ok (unlines (accountsScanCmd leS σ es)) := run_accounts_layouts h es

/-! ## `okane balance -X …` (with or without `--price-db`)

`CmdText.xFinish` loads the price db the way `report::process` does — the file's commodities are registered in the
commodity store *before* `to_conversion` resolves the `-X` commodity — and reports the three kinds of failure with the
Rust messages.  The price repository and the store it builds from related accumulators are related; hence the text
does not depend on any layout history. -/
section Exchange
open Okane.Price Okane.Query Okane.PriceDbFile

/-- store and repository after the price-db step of `process`. -/
def LoadedEq (p p' : Store × Builder String) : Prop := StoreEq p.1 p'.1 ∧ RepoEq p.2 p'.2

theorem canon_meq {s s' : Store} (h : StoreEq s s') (n : String) : canon s n = canon s' n := by
  unfold canon; rw [h.resolve n]

theorem eventsOf_meq {s s' : Store} (h : StoreEq s s') (rs : List PriceRec) : eventsOf s rs = eventsOf s' rs := by
  unfold eventsOf
  apply List.map_congr_left
  intro r _
  rw [canon_meq h, canon_meq h]

theorem storeAfter_meq (rs : List PriceRec) : ∀ {s s' : Store}, StoreEq s s' →
    StoreEq (storeAfter s rs) (storeAfter s' rs) := by
  induction rs with
  | nil => intro s s' h; exact h
  | cons r rs ih =>
    intro s s' h
    simp only [storeAfter, List.foldl_cons]
    exact ih ((h.ensure r.target).2.ensure r.commodity).2

/-- **the price-db step of `process`** (ledger events, then `load_price_db`, then `build`) on related accumulators:
the same parse error, or related stores and the same repository. -/
theorem loadRepo_meq (dbText : Option (List Char)) {st st' : ProcState} (h : st ≈ₚ st') :
    ORel (· = ·) LoadedEq (loadRepo dbText st) (loadRepo dbText st') := by
  cases dbText with
  | none =>
    have h1 := insertAll_meq .ledger h.events (NEq.nil (α := String) (κ := String) (ν := PEntry))
    simp only [loadRepo]
    orel_cases' h1, insertAll Source.ledger ([] : Builder String) st.events,
      insertAll Source.ledger ([] : Builder String) st'.events
    · exact ⟨h.ctx.commodities, build_meq h1⟩
    all_goals first | exact h1 | trivial
  | some text =>
    simp only [loadRepo]
    rcases processPriceDb_total st.events text st.ctx.commodities with ⟨rs, b, hp, hb, hr⟩ | ⟨e, hp, hr⟩
    · rcases processPriceDb_total st'.events text st'.ctx.commodities with ⟨rs', b', hp', hb', hr'⟩ | ⟨e', hp', _⟩
      · rw [hp] at hp'
        simp only [Outcome.ok.injEq] at hp'
        subst hp'
        rw [hr, hr']
        have hbb := buildFrom_meq h.events
          (LRel.of_eq PEvEq.refl (eventsOf_meq h.ctx.commodities rs))
        rw [hb, hb'] at hbb
        exact ⟨storeAfter_meq rs h.ctx.commodities, build_meq hbb⟩
      · rw [hp] at hp'; cases hp'
    · rw [hr, processPriceDb_of_err hp st'.events st'.ctx.commodities]
      rfl

/-- **what `okane balance -X …` writes is the same for related endings of book-keeping.** -/
theorem xFinish_eq {cfg : Cfg String} (hord : OrdOK cfg.ord) (dbText : Option (List Char)) (o : XOpts)
    {x y : Outcome (Nat × BkErrS) ProcState} (h : ORel PErrEq ProcEq x y) :
    xFinish cfg dbText o x = xFinish cfg dbText o y := by
  cases x <;> cases y <;> simp only [ORel] at h <;> try exact h.elim
  · rename_i st st'
    have h1 := loadRepo_meq dbText h
    simp only [xFinish]
    orel_cases' h1, loadRepo dbText st, loadRepo dbText st'
    · rename_i p p'
      obtain ⟨store, repo⟩ := p
      obtain ⟨store', repo'⟩ := p'
      obtain ⟨hs, hrp⟩ := h1
      simp only [] at hs hrp
      simp only [toConversion_meq hs, h.ctx.prec]
      cases toConversion store' (some o.exchange) o.historical o.now with
      | ok conv =>
        simp only []
        have he : EnvEq (⟨cfg, repo, leS, leS⟩ : Env String String) ⟨cfg, repo', leS, leS⟩ := ⟨rfl, rfl, rfl, hrp⟩
        have h2 := balance_meq st'.ctx.prec he ⟨hord, keyOrder_leS, keyOrder_leS⟩ h.txns h.bal ⟨conv, o.range⟩
        orel_cases h2, Query.balance st'.ctx.prec ⟨cfg, repo, leS, leS⟩ st.txns st.bal ⟨conv, o.range⟩,
          Query.balance st'.ctx.prec ⟨cfg, repo', leS, leS⟩ st'.txns st'.bal ⟨conv, o.range⟩
        · simp only [balanceReport_meq keyOrder_leS keyOrder_leS id showEntry h2]
        all_goals first | exact h2.elim | (subst h2; rfl) | rfl | trivial
      | err e => rfl
      | panic s => rfl
      | fuelOut => rfl
    all_goals first | exact h1.elim | (subst h1; rfl) | rfl | trivial
  · rename_i a b
    obtain ⟨i, e⟩ := a
    obtain ⟨i', e'⟩ := b
    obtain ⟨e1, e2⟩ := h
    simp only at e1 e2; subst e1
    simp only [xFinish, bkErrMsg_meq e2]
  · simp only [xFinish, h]
  · rfl

variable {π π₁ π₂ : Nat → ProcState → ProcState} {ρ ρ₁ ρ₂ : Nat → Nat → LoopSt → LoopSt}

/-- the text of `okane balance -X …` under the layout histories `π`, `ρ`. -/
def xTextScr (cfg : Cfg String) (dbText : Option (List Char)) (o : XOpts) (π : Nat → ProcState → ProcState)
    (ρ : Nat → Nat → LoopSt → LoopSt) (es : List Entry) : XResult :=
  xFinish cfg dbText o (processScr2 π ρ {} 0 es)

/-- **determinism of `okane balance -X …`, price db included**: the text (standard output, or which failure with
which message) does not depend on the layout histories. -/
theorem xText_det {cfg : Cfg String} (hord : OrdOK cfg.ord) (dbText : Option (List Char)) (o : XOpts)
    (h1 : Relayout π₁) (h2 : Relayout π₂) (g1 : ∀ i, Relayout2 (ρ₁ i)) (g2 : ∀ i, Relayout2 (ρ₂ i)) (es : List Entry) :
    xTextScr cfg dbText o π₁ ρ₁ es = xTextScr cfg dbText o π₂ ρ₂ es :=
  cmd_det2 (xFinish cfg dbText o) (fun _ _ h => xFinish_eq hord dbText o h) h1 h2 g1 g2 es

/-- **what the driver prints for `-X` is the text of the command model under every layout history.** -/
theorem runX_layouts {cfg : Cfg String} (hord : OrdOK cfg.ord) (dbText : Option (List Char)) (o : XOpts)
    (h : Relayout π) (g : ∀ i, Relayout2 (ρ i)) (es : List Entry) :
    runX cfg dbText o es = xTextScr cfg dbText o π ρ es := by
  rw [xText_det hord dbText o h relayout_id g (fun _ => relayout2_id) es]
  unfold xTextScr runX process
  rw [processScr2_id]

/-! ### relation with `balanceXOut` of `Lemmas/C13CmdQuery.lean`

Without a price db the two agree: same standard output, same failing entry, same kind of failure.  (With a price db
`balanceXLines` resolves the `-X` commodity in the store of the *ledger*, so it reports `commodity not found` for a
commodity that only the price db mentions, where the binary — and `xFinish` — convert: observed on the real binary by
the check's hand-written case.) -/

/-- what is left of a failure when the message is forgotten: the entry of a book-keeping error. -/
def failIndex : Fail → Option Nat
  | .book i _ => some i
  | _ => none

def cmdErrIndex : CmdErr → Option Nat
  | .book i _ => some i
  | .query _ => none

theorem xFinish_balanceXOut (cfg : Cfg String) (o : XOpts) (x : Outcome (Nat × BkErrS) ProcState) :
    (xFinish cfg none o x).mapErr failIndex =
      ((balanceXOut cfg leS leS id showEntry [] ⟨some o.exchange, o.historical, o.now, o.range⟩ x).map' unlines).mapErr
        cmdErrIndex := by
  cases x with
  | ok st =>
    simp only [xFinish, balanceXOut, balanceXLines, loadRepo, buildFrom]
    cases insertAll Source.ledger ([] : Builder String) st.events with
    | ok b =>
      simp only [insertAll]
      cases toConversion st.ctx.commodities (some o.exchange) o.historical o.now with
      | ok conv =>
        simp only []
        cases Query.balance st.ctx.prec ⟨cfg, build b, leS, leS⟩ st.txns st.bal ⟨conv, o.range⟩ <;> rfl
      | err e => rfl
      | panic s => rfl
      | fuelOut => rfl
    | err e => rfl
    | panic s => rfl
    | fuelOut => rfl
  | err e => obtain ⟨i, e⟩ := e; rfl
  | panic s => rfl
  | fuelOut => rfl

/-! ### `okane primitive eval` -/

/-- **what `okane primitive eval …` writes is the same for related endings of book-keeping.** -/
theorem evalFinish_eq {cfg : Cfg String} (hord : OrdOK cfg.ord) (dbText : Option (List Char)) (expr : Option VExpr)
    (date : Date) (exchange : Option String) {x y : Outcome (Nat × BkErrS) ProcState} (h : ORel PErrEq ProcEq x y) :
    evalFinish cfg dbText expr date exchange x = evalFinish cfg dbText expr date exchange y := by
  cases x <;> cases y <;> simp only [ORel] at h <;> try exact h.elim
  · rename_i st st'
    have h1 := loadRepo_meq dbText h
    simp only [evalFinish]
    orel_cases' h1, loadRepo dbText st, loadRepo dbText st'
    · rename_i p p'
      obtain ⟨store, repo⟩ := p
      obtain ⟨store', repo'⟩ := p'
      obtain ⟨hs, hrp⟩ := h1
      simp only [] at hs hrp
      cases expr with
      | none =>
        simp only []
        cases exchange with
        | none => rfl
        | some ex => simp only [Option.map, hs.resolve ex]
      | some e =>
        simp only []
        have he : EnvEq (⟨cfg, repo, leS, leS⟩ : Env String String) ⟨cfg, repo', leS, leS⟩ := ⟨rfl, rfl, rfl, hrp⟩
        have h2 := eval_meq he ⟨hord, keyOrder_leS, keyOrder_leS⟩ hs e date exchange
        orel_cases h2, Query.eval ⟨cfg, repo, leS, leS⟩ store e date exchange,
          Query.eval ⟨cfg, repo', leS, leS⟩ store' e date exchange
        · simp only [showAmount_meq h2]
        all_goals first | exact h2.elim | (subst h2; rfl) | rfl | trivial
    all_goals first | exact h1.elim | (subst h1; rfl) | rfl | trivial
  · rename_i a b
    obtain ⟨i, e⟩ := a
    obtain ⟨i', e'⟩ := b
    obtain ⟨e1, e2⟩ := h
    simp only at e1 e2; subst e1
    simp only [evalFinish, bkErrMsg_meq e2]
  · simp only [evalFinish, h]
  · rfl

/-- the text of `okane primitive eval …` under the layout histories `π`, `ρ`. -/
def evalTextScr (cfg : Cfg String) (dbText : Option (List Char)) (expr : Option VExpr) (date : Date)
    (exchange : Option String) (π : Nat → ProcState → ProcState) (ρ : Nat → Nat → LoopSt → LoopSt) (es : List Entry) :
    XResult :=
  evalFinish cfg dbText expr date exchange (processScr2 π ρ {} 0 es)

theorem evalText_det {cfg : Cfg String} (hord : OrdOK cfg.ord) (dbText : Option (List Char)) (expr : Option VExpr)
    (date : Date) (exchange : Option String)
    (h1 : Relayout π₁) (h2 : Relayout π₂) (g1 : ∀ i, Relayout2 (ρ₁ i)) (g2 : ∀ i, Relayout2 (ρ₂ i)) (es : List Entry) :
    evalTextScr cfg dbText expr date exchange π₁ ρ₁ es = evalTextScr cfg dbText expr date exchange π₂ ρ₂ es :=
  cmd_det2 (evalFinish cfg dbText expr date exchange) (fun _ _ h => evalFinish_eq hord dbText expr date exchange h)
    h1 h2 g1 g2 es

/-- **what the driver prints for `primitive eval` is the text of the command model under every layout history.** -/
theorem runEval_layouts {cfg : Cfg String} (hord : OrdOK cfg.ord) (dbText : Option (List Char)) (expr : Option VExpr)
    (date : Date) (exchange : Option String) (h : Relayout π) (g : ∀ i, Relayout2 (ρ i)) (es : List Entry) :
    runEval cfg dbText expr date exchange es = evalTextScr cfg dbText expr date exchange π ρ es := by
  rw [evalText_det hord dbText expr date exchange h relayout_id g (fun _ => relayout2_id) es]
  unfold evalTextScr runEval process
  rw [processScr2_id]

/-- without a price db, on an expression that parses, `evalFinish` and `evalOut` of `Lemmas/C13CmdQuery.lean` agree
(same line, same failing entry, same kind of failure). -/
theorem evalFinish_evalOut (cfg : Cfg String) (expr : VExpr) (date : Date) (exchange : Option String)
    (x : Outcome (Nat × BkErrS) ProcState) :
    (evalFinish cfg none (some expr) date exchange x).mapErr failIndex =
      ((evalOut cfg leS leS showEntry [] expr date exchange x).map' fun l => unlines [l]).mapErr cmdErrIndex := by
  cases x with
  | ok st =>
    simp only [evalFinish, evalOut, evalLine, loadRepo, buildFrom]
    cases insertAll Source.ledger ([] : Builder String) st.events with
    | ok b =>
      simp only [insertAll]
      cases Query.eval ⟨cfg, build b, leS, leS⟩ st.ctx.commodities expr date exchange <;> rfl
    | err e => rfl
    | panic s => rfl
    | fuelOut => rfl
  | err e => obtain ⟨i, e⟩ := e; rfl
  | panic s => rfl
  | fuelOut => rfl

end Exchange

end Okane.C13
