import Okane.Lemmas.C13CmdFine
import Okane.Model.CmdText
/-!
# The executable command text (`Model/CmdText.lean`, what `drv c13 cmd` runs and `bin/check C13` compares with the
real binary) **is** the command model of the C13 theorems

`Okane.CmdText.run` is written without layouts (`process`, one scan of the entries).  Here:

* its pieces are the command models of `Lemmas/C13CmdReport.lean` instantiated with the byte order of names, the
  identity on account names and the numeral-hole printer (`balanceLines_eq`, `registerLines_eq`, `accountsLines_eq`,
  `finish_eq`);
* the real error messages (`bkErrMsg`, the Rust `#[error]` texts) do not depend on the layout of the amounts they
  carry (`bkErrMsg_meq`) — the analogue of `ErrEq.text` for the abstract `bkErrText`;
* hence **for every layout history** — per entry (`π`) and per posting (`ρ`) — the text of the command model is the
  text `run` computes (`run_balance_layouts`, `run_register_layouts`, `run_accounts_layouts`), and the text is
  deterministic in the sense of `Props/C13.lean` (`balanceText_det`, …);
* `run` and the commands of `Props/C13.lean` (`balanceCmd`, `registerCmd`, `accountsScanCmd`, which use the abstract
  error text) print the same standard output and fail at the same entry (`run_balance_cmd`, `run_register_cmd`,
  `run_accounts_cmd`).
-/
set_option linter.unusedSectionVars false
set_option linter.unusedSimpArgs false
namespace Okane.C13
open Okane Okane.CmdText

/-- the order `run` sorts names by is the order `keyOrder_string` is about. -/
theorem keyOrder_leS : KeyOrder CmdText.leS := keyOrder_string

/-! ## the pieces -/

theorem showAmount_meq {a a' : Amount String} (h : a ≈ₘ a') : showAmount a = showAmount a' :=
  inlineDisplay_meq keyOrder_leS showEntry h

/-- **the real error messages are the same text for related errors** (the amounts in `unbalanced postings` /
`balance assertion off by` are sorted before they are printed). -/
theorem bkErrMsg_meq {e e' : BkErrS} (h : ErrEq e e') : bkErrMsg e = bkErrMsg e' := by
  cases e <;> simp only [ErrEq] at h <;> try (subst h; rfl)
  · obtain ⟨r', rfl, h⟩ := h
    exact congrArg (fun s => "transaction cannot have unbalanced postings: " ++ s) (showAmount_meq h)
  · obtain ⟨c', d', rfl, hc, hd⟩ := h
    show "balance assertion off by " ++ showAmount _ ++ ", computed balance is " ++ showAmount _ =
      "balance assertion off by " ++ showAmount _ ++ ", computed balance is " ++ showAmount _
    rw [showAmount_meq hc, showAmount_meq hd]

theorem balanceLines_eq (r : DateRange) (st : ProcState) :
    CmdText.balanceLines r st = C13.balanceLines leS leS id showEntry r st := rfl

theorem registerLines_eq (acct : Option String) (st : ProcState) :
    CmdText.registerLines acct st = C13.registerLines leS id showEntry acct st := rfl

theorem accountsScan_eq (es : List Entry) : ∀ (s : Store) (i : Nat),
    accountsScan s es = accountsScr (fun _ s => s) s i es := by
  induction es with
  | nil => intro s i; rfl
  | cons e es ih =>
    intro s i
    cases e <;> simp only [accountsScan, accountsScr, accountsStep, ih _ (i + 1)]

theorem accountsLines_eq (es : List Entry) :
    CmdText.accountsLines es = accountsScanCmd leS (fun _ s => s) es := by
  unfold CmdText.accountsLines accountsScanCmd
  rw [accountsScan_eq es {} 0]

/-- `finish` is `cmdText` with the real messages, followed by `writeln!` of every line. -/
theorem finish_eq (lines : ProcState → List String) (x : Outcome (Nat × BkErrS) ProcState) :
    finish lines x = (cmdText bkErrMsg lines x).map' unlines := by
  cases x with
  | ok st => rfl
  | err e => obtain ⟨i, e⟩ := e; rfl
  | panic s => rfl
  | fuelOut => rfl

/-- the identity layouts give `process` itself. -/
theorem stepEntryScr_id (st : ProcState) (e : Entry) : stepEntryScr (fun _ p => p) st e = stepEntry st e := by
  cases e with
  | txn t =>
    simp only [stepEntryScr, stepEntry, addTransactionSyntaxScr, addTransactionSyntax, loopSyntaxScr_id]
    rfl
  | _ => rfl

theorem processScr2_id (st : ProcState) (i : Nat) (es : List Entry) :
    processScr2 (fun _ st => st) (fun _ _ p => p) st i es = processFrom st i es := by
  induction es generalizing st i with
  | nil => rfl
  | cons e es ih =>
    simp only [processScr2, processFrom, stepEntryScr_id]
    cases stepEntry st e <;> simp only [ih]

/-! ## every layout history -/
section Layouts
variable {π π₁ π₂ : Nat → ProcState → ProcState} {ρ ρ₁ ρ₂ : Nat → Nat → LoopSt → LoopSt}

/-- the text (standard output, or entry index and diagnostic title) of a book-keeping command under the layout
histories `π` (after every entry) and `ρ` (after every posting). -/
def textScr (lines : ProcState → List String) (π : Nat → ProcState → ProcState) (ρ : Nat → Nat → LoopSt → LoopSt)
    (es : List Entry) : CmdText.Result :=
  (cmdText bkErrMsg lines (processScr2 π ρ {} 0 es)).map' unlines

/-- a report that does not see the layouts gives a command text that does not depend on the layout histories. -/
theorem textScr_det {lines : ProcState → List String} (hl : ∀ st st', st ≈ₚ st' → lines st = lines st')
    (h1 : Relayout π₁) (h2 : Relayout π₂) (g1 : ∀ i, Relayout2 (ρ₁ i)) (g2 : ∀ i, Relayout2 (ρ₂ i)) (es : List Entry) :
    textScr lines π₁ ρ₁ es = textScr lines π₂ ρ₂ es :=
  cmd_det2 (fun x => (cmdText bkErrMsg lines x).map' unlines)
    (fun _ _ h => by simp only [cmdText_eq (fun _ _ he => bkErrMsg_meq he) hl h]) h1 h2 g1 g2 es

/-- … and it is what `finish lines (process es)` computes. -/
theorem finish_process_eq {lines : ProcState → List String} (hl : ∀ st st', st ≈ₚ st' → lines st = lines st')
    (h : Relayout π) (g : ∀ i, Relayout2 (ρ i)) (es : List Entry) :
    finish lines (process es) = textScr lines π ρ es := by
  rw [finish_eq, textScr_det hl h relayout_id g (fun _ => relayout2_id) es]
  unfold textScr process
  rw [processScr2_id]

theorem balanceLinesT_meq (r : DateRange) (st st' : ProcState) (h : st ≈ₚ st') :
    CmdText.balanceLines r st = CmdText.balanceLines r st' :=
  balanceLines_meq keyOrder_leS keyOrder_leS id showEntry r h

theorem registerLinesT_meq (acct : Option String) (st st' : ProcState) (h : st ≈ₚ st') :
    CmdText.registerLines acct st = CmdText.registerLines acct st' :=
  registerLines_meq keyOrder_leS id showEntry acct h

/-- **`okane balance [--start ..] [--end ..]`**: what the driver prints (and the check compares with the binary) is
the text of the command model under every layout history of every hash map. -/
theorem run_balance_layouts (r : DateRange) (h : Relayout π) (g : ∀ i, Relayout2 (ρ i)) (es : List Entry) :
    run (.balance r) es = textScr (C13.balanceLines leS leS id showEntry r) π ρ es :=
  finish_process_eq (balanceLinesT_meq r) h g es

/-- **`okane register [ACCOUNT]`**. -/
theorem run_register_layouts (acct : Option String) (h : Relayout π) (g : ∀ i, Relayout2 (ρ i)) (es : List Entry) :
    run (.register acct) es = textScr (C13.registerLines leS id showEntry acct) π ρ es :=
  finish_process_eq (registerLinesT_meq acct) h g es

/-- **`okane accounts`**: the scan under every layout history `σ` of the intern store. -/
theorem run_accounts_layouts {σ : Nat → Store → Store} (h : StoreRelayout σ) (es : List Entry) :
    run .accounts es = .ok (unlines (accountsScanCmd leS σ es)) := by
  show Outcome.ok (unlines (CmdText.accountsLines es)) = _
  rw [accountsLines_eq, accountsScanCmd_det keyOrder_leS storeRelayout_id h]

/-- determinism of the real text, in the vocabulary of `Props/C13.lean`. -/
theorem balanceText_det (r : DateRange) (h1 : Relayout π₁) (h2 : Relayout π₂) (g1 : ∀ i, Relayout2 (ρ₁ i))
    (g2 : ∀ i, Relayout2 (ρ₂ i)) (es : List Entry) :
    textScr (C13.balanceLines leS leS id showEntry r) π₁ ρ₁ es =
      textScr (C13.balanceLines leS leS id showEntry r) π₂ ρ₂ es :=
  textScr_det (balanceLinesT_meq r) h1 h2 g1 g2 es

theorem registerText_det (acct : Option String) (h1 : Relayout π₁) (h2 : Relayout π₂) (g1 : ∀ i, Relayout2 (ρ₁ i))
    (g2 : ∀ i, Relayout2 (ρ₂ i)) (es : List Entry) :
    textScr (C13.registerLines leS id showEntry acct) π₁ ρ₁ es =
      textScr (C13.registerLines leS id showEntry acct) π₂ ρ₂ es :=
  textScr_det (registerLinesT_meq acct) h1 h2 g1 g2 es

end Layouts

/-! ## the commands of `Props/C13.lean`

`balanceCmd` / `registerCmd` carry the abstract error text `bkErrText`; `run` carries the Rust messages.  They print
the same standard output, fail at the same entry, reach the same panic site. -/

/-- forget the message of an error, keep the entry index. -/
def errIndex {β : Type} (x : Outcome (Nat × String) β) : Outcome Nat β := x.mapErr Prod.fst

theorem cmdText_errIndex (errA errB : BkErrS → String) (lines : ProcState → List String)
    (x : Outcome (Nat × BkErrS) ProcState) :
    errIndex ((cmdText errA lines x).map' unlines) = errIndex ((cmdText errB lines x).map' unlines) := by
  cases x with
  | ok st => rfl
  | err e => obtain ⟨i, e⟩ := e; rfl
  | panic s => rfl
  | fuelOut => rfl

/-- **`run (.balance r)` and `balanceCmd`** (any layout history `π`): same output, same failing entry. -/
theorem run_balance_cmd (r : DateRange) {π : Nat → ProcState → ProcState} (h : Relayout π) (es : List Entry) :
    errIndex (run (.balance r) es) = errIndex ((balanceCmd leS leS id showEntry r π es).map' unlines) := by
  rw [balanceCmd_det keyOrder_leS keyOrder_leS id showEntry r h relayout_id es]
  unfold balanceCmd
  rw [processScr_id]
  show errIndex (finish (CmdText.balanceLines r) (process es)) = _
  rw [finish_eq]
  exact cmdText_errIndex _ _ _ _

/-- **`run (.register acct)` and `registerCmd`**. -/
theorem run_register_cmd (acct : Option String) {π : Nat → ProcState → ProcState} (h : Relayout π) (es : List Entry) :
    errIndex (run (.register acct) es) = errIndex ((registerCmd leS id showEntry acct π es).map' unlines) := by
  rw [registerCmd_det keyOrder_leS id showEntry acct h relayout_id es]
  unfold registerCmd
  rw [processScr_id]
  show errIndex (finish (CmdText.registerLines acct) (process es)) = _
  rw [finish_eq]
  exact cmdText_errIndex _ _ _ _

/-- **`run .accounts` and `accountsScanCmd`**. -/
theorem run_accounts_cmd {σ : Nat → Store → Store} (h : StoreRelayout σ) (es : List Entry) :
    run .accounts es = .ok (unlines (accountsScanCmd leS σ es)) := run_accounts_layouts h es

end Okane.C13
