import Okane.Lemmas.CsvTextTerm
import Okane.Lemmas.CsvTextFacts
/-!
# The writer of the `csv` crate (a lone empty field is written `""`) and the normal form of a file

The canonical writer of `Lemmas/CsvText.lean` cannot write the record `[""]` (an empty line is skipped by the reader).
`csv::Writer` writes that record as `""`.  With this one special case every non-empty record can be written
(`readRecords_writeQ`), and since the reader only hands out non-empty records (`records_nonempty`), every file can be replaced
by the canonical text of its own reading without changing what is read (`readRecords_normal`): the reader's image is exactly
the lists of non-empty records, and canonical texts are a normal form.
-/
namespace Okane.Import.CsvText
open Okane Okane.Import

/-- `bs` is the text of the row `r` without its line end: from any state in which a record may start the reader arrives,
having handed out nothing, with the fields of `r` split off and the last one in `cur` -/
def RowText (d : UInt8) (r : List Bytes) (bs : Bytes) : Prop :=
  ∀ st0, RowStart st0 → ∀ (recs : List (Nat × List Bytes)) (line recLine : Nat),
    ∃ st1 l init last, r = init ++ [last] ∧ FieldDone st1 last ∧
      Rd.run d ⟨st0, [], [], recs, line, recLine⟩ bs = ⟨st1, last, init, recs, l, recLine⟩

theorem rowText_fields (d : UInt8) (hd : GoodDelim d) (r : List Bytes) (h : WritableRow r) : RowText d r (writeFields d r) := by
  intro st0 hst recs line recLine
  obtain ⟨st1, l, init, last, hsp, hdone, hrun⟩ :=
    run_fields_open d hd r h.1 st0 hst.fieldStart (Or.inr h.2) [] recs line recLine
  exact ⟨st1, l, init, last, hsp, hdone, by simpa using hrun⟩

/-- `""`: a quoted empty field -/
theorem rowText_loneEmpty (d : UInt8) : RowText d [[]] [QUOTE, QUOTE] := by
  intro st0 hst recs line recLine
  refine ⟨.inDoubleEscapedQuote, line, [], [], rfl, Or.inl (Or.inr rfl), ?_⟩
  rw [run_cons, step_start_quote d [] recs line recLine st0 hst.fieldStart]
  simp [Rd.step, dfaStep_inQuotedField]

/-- `csv::Writer::write_record` with `QuoteStyle::Necessary`: a record that is a single empty field is written `""` -/
def writeRowQ (d : UInt8) (r : List Bytes) : Bytes := if r = [[]] then [QUOTE, QUOTE] else writeFields d r

theorem rowText_Q (d : UInt8) (hd : GoodDelim d) (r : List Bytes) (h : r ≠ []) : RowText d r (writeRowQ d r) := by
  unfold writeRowQ
  split
  · rename_i he; subst he; exact rowText_loneEmpty d
  · rename_i he; exact rowText_fields d hd r ⟨h, he⟩

theorem run_rows_text (d : UInt8) (hd : GoodDelim d) (e : LineEnd) : ∀ (rows : List (List Bytes × Bytes)),
    (∀ p ∈ rows, RowText d p.1 p.2) → ∀ (st0 : Nfa), RowStart st0 → ∀ (recs : List (Nat × List Bytes)) (line recLine : Nat),
    ∃ st1 l l' recs', RowStart st1 ∧ recs'.map Prod.snd = recs.map Prod.snd ++ rows.map Prod.fst ∧
      Rd.run d ⟨st0, [], [], recs, line, recLine⟩ (rows.flatMap fun p => p.2 ++ e.bytes) = ⟨st1, [], [], recs', l, l'⟩ := by
  intro rows
  induction rows with
  | nil => intro _ st0 hst recs line recLine; exact ⟨st0, line, recLine, recs, hst, by simp, by simp⟩
  | cons p rest ih =>
    intro hrows st0 hst recs line recLine
    obtain ⟨st1, l, init, last, hsplit, hdone, hrun⟩ := hrows p (by simp) st0 hst recs line recLine
    obtain ⟨st2, l2, l2', hst2, hend⟩ := run_lineEnd d hd e st1 last hdone init recs l recLine
    obtain ⟨st3, l3, l3', recs', hst3, hmap, hrest⟩ :=
      ih (fun x hx => hrows x (by simp [hx])) st2 hst2 (recs ++ [(recLine, init ++ [last])]) l2 l2'
    refine ⟨st3, l3, l3', recs', hst3, ?_, ?_⟩
    · rw [hmap]; simp [hsplit]
    · simp only [List.flatMap_cons, run_append, hrun, hend, hrest]

/-- the rows as `csv::Writer` writes them, each followed by the line end `e` -/
def writeCsvQ (d : UInt8) (e : LineEnd) (rows : List (List Bytes)) : Bytes :=
  rows.flatMap fun r => writeRowQ d r ++ e.bytes

/-- **Every list of non-empty records is the reading of a file** (the `csv` crate's own writer read back): with the lone
empty field written `""`, the only rows that cannot be written are rows without any field — which the reader never yields. -/
theorem readRecords_writeQ (d : UInt8) (hd : GoodDelim d) (e : LineEnd) (rows : List (List Bytes))
    (hrows : ∀ r ∈ rows, r ≠ []) (hbom : NoBom (writeCsvQ d e rows)) : readRecords d (writeCsvQ d e rows) = rows := by
  unfold readRecords readRecordsPos
  rw [hbom]
  have hpairs : ∀ p ∈ rows.map (fun r => (r, writeRowQ d r)), RowText d p.1 p.2 := by
    intro p hp
    obtain ⟨r, hr, rfl⟩ := List.mem_map.1 hp
    exact rowText_Q d hd r (hrows r hr)
  obtain ⟨st1, l, l', recs', hst1, hmap, hrun⟩ :=
    run_rows_text d hd e (rows.map fun r => (r, writeRowQ d r)) hpairs .startRecord (Or.inl rfl) [] 1 1
  have hbytes : writeCsvQ d e rows = (rows.map fun r => (r, writeRowQ d r)).flatMap fun p => p.2 ++ e.bytes := by
    simp [writeCsvQ, List.flatMap_map]
  unfold Rd.init
  rw [hbytes, hrun, finish_rowStart st1 hst1, hmap]
  simp [List.map_map, Function.comp_def]

/-- **Normal form.**  Whatever the bytes of a file, rewriting it as the canonical text of its own reading (any of the three
line ends) does not change what the reader yields — provided the rewritten text does not begin with a byte order mark (a file
that begins with two of them keeps the second one in its first cell). -/
theorem readRecords_normal (d : UInt8) (hd : GoodDelim d) (e : LineEnd) (bs : Bytes)
    (hbom : NoBom (writeCsvQ d e (readRecords d bs))) :
    readRecords d (writeCsvQ d e (readRecords d bs)) = readRecords d bs :=
  readRecords_writeQ d hd e (readRecords d bs) (records_nonempty d bs) hbom

-- a hostile text and its normal form: `"a"b,""` + blank lines + `c"d` without line end
example : readRecords COMMA [34, 97, 34, 98, 44, 34, 34, 13, 10, 13, 10, 34, 34, 10, 99, 34, 100] =
    [[[97, 98], []], [[]], [[99, 34, 100]]] := by decide +kernel
example : writeCsvQ COMMA .lf [[[97, 98], []], [[]], [[99, 34, 100]]] =
    [97, 98, 44, 10, 34, 34, 10, 34, 99, 34, 34, 100, 34, 10] := by decide +kernel
/-- the condition on the byte order mark is needed -/
example : readRecords COMMA (writeCsvQ COMMA .lf (readRecords COMMA [0xEF, 0xBB, 0xBF, 0xEF, 0xBB, 0xBF, 97, 10])) = [[[97]]] ∧
    readRecords COMMA [0xEF, 0xBB, 0xBF, 0xEF, 0xBB, 0xBF, 97, 10] = [[[0xEF, 0xBB, 0xBF, 97]]] := by decide +kernel

end Okane.Import.CsvText
